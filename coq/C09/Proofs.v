(* C09 — proofs about the position accounting model (C09/Model.v).
   All theorems are stated for an arbitrary record `o : fpops` of floating-point sub-expressions that
   satisfies the relational facts `fp_ok` (FP0..FP3); nothing here depends on float axioms. *)
From Coq Require Import List ZArith Bool Lia.
Import ListNotations.
From V Require Import Base.U32 Gen.RsConsts C09.Model.
Local Open Scope Z_scope.

(* ---------- generated constants used by the proofs ---------- *)
Record consts_facts : Prop := {
  cf_off : RELAY_OFF = 0; cf_down : RELAY_DOWN = 1; cf_up : RELAY_UP = 2;
  cf_t0 : TILT_NOT_SUPPORTED = 0; cf_t1 : TILT_KEEP_POSITION = 1; cf_t2 : TILT_CHANGE_POSITION = 2; cf_t3 : TILT_ONLY_CLOSED = 3 }.
Lemma consts_ok : consts_facts.
Proof. constructor; vm_compute; reflexivity. Qed.

(* ---------- the relational facts on the floating-point sub-expressions ---------- *)
Record fp_ok (o : fpops) : Prop := {
  (* (x / 10000.0) * 0 = 0 *)
  FP0 : forall r, fp_rem o r 0 = 0;
  (* two roundings: within one of the exact floor *)
  FP1 : forall r T, 0 <= r <= 10000 -> 0 < T < 4294967296 ->
        r * T / 10000 - 1 <= fp_rem o r T <= r * T / 10000 + 1;
  (* exact product, one rounding, quotient far below 2^20: the truncation is the exact floor *)
  FP2 : forall t T, 0 <= t < 4294967296 -> 0 < T < 4294967296 -> 10000 * t < 1048576 * T ->
        fp_dot o t T = 10000 * t / T;
  (* exact product, one rounding, divisor 10000: the truncation is the exact floor *)
  FP3 : forall d T, 0 <= d <= 10000 -> 0 <= T < 4294967296 -> fp_tod o d T = d * T / 10000 }.

(* ---------- small arithmetic ---------- *)
Lemma div_lo a b : 0 < b -> b * (a / b) <= a.
Proof. intros; apply Z.mul_div_le; lia. Qed.
Lemma div_hi a b : 0 < b -> a < b * (a / b) + b.
Proof. intros. pose proof (Z.mul_succ_div_gt a b ltac:(lia)). lia. Qed.
Lemma div_nonneg a b : 0 <= a -> 0 < b -> 0 <= a / b.
Proof. intros; apply Z.div_pos; lia. Qed.

Lemma known_true p : known p = true <-> 100 <= p <= 10100.
Proof. unfold known. rewrite andb_true_iff, !Z.leb_le. tauto. Qed.
Lemma known_false p : known p = false <-> ~ (100 <= p <= 10100).
Proof. rewrite <- known_true. destruct (known p); split; congruence. Qed.

(* ---------- range ---------- *)
Definition pos_ok (p : Z) : Prop := p = 0 \/ 100 <= p <= 10100.
Definition tilt_ok (t : Z) : Prop := t = -1 \/ t = 0 \/ 100 <= t <= 10100.
Definition rep_ok (v : Z) : Prop := v = -1 \/ 0 <= v <= 100.
(* a roller shutter (tilt type 0) has no tilting time configured *)
Definition wf_cfg (c : cfg) : Prop := tilt_type c = 0 -> tilt_ms c = 0.

Lemma current_position_range p : rep_ok (current_position p).
Proof.
  unfold current_position, rep_ok. destruct (known p) eqn:K; [|left; reflexivity].
  apply known_true in K. right. split.
  - apply Z.div_pos; lia.
  - assert ((p - 100 + 50) / 100 < 101) by (apply Z.div_lt_upper_bound; lia). lia.
Qed.
Lemma current_tilt_range c t : rep_ok (current_tilt c t).
Proof.
  unfold current_tilt, rep_ok. destruct (negb (tilt_supported c)); [left; reflexivity|].
  destruct (known t) eqn:K; [|right; lia].
  apply known_true in K. right. split.
  - apply Z.div_pos; lia.
  - assert ((t - 100 + 50) / 100 < 101) by (apply Z.div_lt_upper_bound; lia). lia.
Qed.

Definition remaining (up : bool) (x : Z) : Z := if up then x - 100 else 10100 - x.

Section WithOps.
Variable o : fpops.
Hypothesis OK : fp_ok o.

(* the core of every range / direction / accounting argument: one "adjust" block *)
Lemma adjust_spec up x rt time Tq :
  100 <= x <= 10100 -> 0 <= time < 4294967296 -> 0 <= Tq < 4294967296 ->
  rt = 0 \/ rt = fp_rem o (remaining up x) Tq ->
  let x' := fst (adjust o up x rt time Tq) in
  let td := snd (adjust o up x rt time Tq) in
  let c' := if time <? td then 0 else time - td in
  let r := remaining up x in let r' := remaining up x' in
  100 <= x' <= 10100 /\ 0 <= r' <= r /\ 0 <= td /\ 0 <= c' <= time /\
  10000 * (time - c') <= (r - r') * Tq /\
  (r - r') * Tq < 10000 * (time - c') + 20000 /\
  (rt = fp_rem o (remaining up x) Tq -> 20000 <= Tq -> 0 < r' -> 10000 * c' < Tq + 10000) /\
  (0 < td -> x' <> x \/ 10000 <= Tq).
Proof.
  intros Hx Ht HT Hrt. cbv zeta.
  assert (Hr : 0 <= remaining up x <= 10000) by (unfold remaining; destruct up; lia).
  unfold adjust.
  destruct (0 <? rt) eqn:E0.
  2:{ cbn [fst snd]. replace (time <? 0) with false by (symmetry; apply Z.ltb_ge; lia).
      apply Z.ltb_ge in E0.
      repeat split; try lia.
      intros Heq H2 Hr'. exfalso.
      assert (HTq : 0 < Tq < 4294967296) by lia.
      pose proof (FP1 o OK _ _ Hr HTq) as F1. rewrite <- Heq in F1.
      pose proof (div_hi (remaining up x * Tq) 10000 ltac:(lia)) as Hh.
      assert (remaining up x * Tq < 20000) by lia.
      assert (1 * Tq <= remaining up x * Tq) by (apply Z.mul_le_mono_nonneg_r; lia). lia. }
  apply Z.ltb_lt in E0.
  destruct Hrt as [Hrt|Hrt]; [lia|].
  assert (HTq : 0 < Tq < 4294967296).
  { destruct (Z.eq_dec Tq 0) as [->|]; [|lia]. rewrite (FP0 o OK) in Hrt. lia. }
  pose proof (FP1 o OK _ _ Hr HTq) as F1. rewrite <- Hrt in F1.
  set (P := remaining up x * Tq) in *.
  assert (HP : 0 <= P) by (apply Z.mul_nonneg_nonneg; lia).
  pose proof (div_lo P 10000 ltac:(lia)) as Plo. pose proof (div_hi P 10000 ltac:(lia)) as Phi.
  destruct (rt <=? time) eqn:E1.
  - (* the remaining distance fits into the accumulated time: clamp at the end stop *)
    apply Z.leb_le in E1. cbn [fst snd].
    change (if up then x - 100 else 10100 - x) with (remaining up x). rewrite (FP3 o OK (remaining up x) Tq Hr HT). fold P.
    assert (Hend : remaining up (if up then 100 else 10100) = 0) by (unfold remaining; destruct up; lia).
    rewrite Hend.
    assert (Hq0 : 0 <= P / 10000) by (apply div_nonneg; lia).
    destruct (time <? P / 10000) eqn:E2; [apply Z.ltb_lt in E2|apply Z.ltb_ge in E2].
    + repeat split; try (destruct up; lia); try lia.
      all: intros Hp; destruct (Z.eq_dec x (if up then 100 else 10100)) as [Heq|]; [|left; destruct up; lia];
        exfalso; assert (Hz : remaining up x = 0) by (rewrite Heq; exact Hend);
        assert (Hz2 : P = 0) by (unfold P; rewrite Hz; lia); rewrite Hz2 in Hp; cbn in Hp; lia.
    + repeat split; try (destruct up; lia); try lia.
      all: intros Hp; destruct (Z.eq_dec x (if up then 100 else 10100)) as [Heq|]; [|left; destruct up; lia];
        exfalso; assert (Hz : remaining up x = 0) by (rewrite Heq; exact Hend);
        assert (Hz2 : P = 0) by (unfold P; rewrite Hz; lia); rewrite Hz2 in Hp; cbn in Hp; lia.
  - (* move by the distance that the accumulated time stands for *)
    apply Z.leb_gt in E1. cbn [fst snd].
    assert (Hle : 10000 * time <= P) by lia.
    assert (HPle : P <= 10000 * Tq) by (unfold P; apply Z.mul_le_mono_nonneg_r; lia).
    assert (Hlt20 : 10000 * time < 1048576 * Tq) by lia.
    rewrite (FP2 o OK time Tq Ht HTq Hlt20).
    set (d := 10000 * time / Tq).
    pose proof (div_lo (10000 * time) Tq ltac:(lia)) as Dlo. pose proof (div_hi (10000 * time) Tq ltac:(lia)) as Dhi. fold d in Dlo, Dhi.
    assert (Hd0 : 0 <= d) by (apply div_nonneg; lia).
    assert (Hdr : d <= remaining up x).
    { unfold d. apply Z.div_le_upper_bound; [lia|]. unfold P in Hle. lia. }
    assert (Hd1 : 0 <= d <= 10000) by lia.
    rewrite (FP3 o OK d Tq Hd1 HT).
    set (Q := d * Tq) in *.
    assert (HQ : 0 <= Q) by (apply Z.mul_nonneg_nonneg; lia).
    pose proof (div_lo Q 10000 ltac:(lia)) as Qlo. pose proof (div_hi Q 10000 ltac:(lia)) as Qhi.
    assert (HQt : Q <= 10000 * time) by (unfold Q; lia).
    assert (Hq0 : 0 <= Q / 10000) by (apply div_nonneg; lia).
    assert (Hqt : Q / 10000 <= time) by (apply Z.div_le_upper_bound; lia).
    replace (time <? Q / 10000) with false by (symmetry; apply Z.ltb_ge; lia).
    assert (Hr' : remaining up (if up then x - d else x + d) = remaining up x - d) by (unfold remaining; destruct up; lia).
    rewrite Hr'.
    assert (Hxx : (remaining up x - (remaining up x - d)) * Tq = Q) by (unfold Q; f_equal; lia).
    rewrite Hxx.
    repeat split; try (unfold remaining in *; destruct up; lia); try lia.
    all: intros Hp; destruct (Z.eq_dec d 0) as [Hd|Hd];
      [exfalso; unfold Q in Hp; rewrite Hd in Hp; cbn in Hp; lia | left; destruct up; lia].
Qed.

(* ---------- supla_esp_gpio_rs_move_position: range and direction ---------- *)
Lemma unsupported_no_tilt_time c : wf_cfg c -> tilt_supported c = false -> tilt_ms c = 0.
Proof.
  unfold tilt_supported, wf_cfg. intros W H. apply negb_false_iff in H. apply orb_true_iff in H.
  destruct H as [H|H]; apply Z.eqb_eq in H; auto.
Qed.

Lemma u32_0 : u32 0 = 0. Proof. reflexivity. Qed.

Lemma move_position_spec c pos tilt time full_ms up :
  wf_cfg c -> pos_ok pos -> tilt_ok tilt -> 0 <= time < 4294967296 ->
  let m := move_position o c pos tilt time full_ms up in
  pos_ok (m_pos m) /\ tilt_ok (m_tilt m) /\ 0 <= m_time m <= time /\
  (known pos = true -> known (m_pos m) = true /\ 0 <= remaining up (m_pos m) <= remaining up pos) /\
  (tilt_supported c = true -> known tilt = true ->
   (tilt_type c = TILT_ONLY_CLOSED -> pos < 10100 -> tilt = 100) ->
   known (m_tilt m) = true /\ 0 <= remaining up (m_tilt m) <= remaining up tilt).
Proof.
  intros W Hp Ht Htime. cbv zeta. unfold move_position.
  destruct (negb (known pos) || (full_ms =? 0)) eqn:E.
  { cbn [m_pos m_tilt m_time]. split; [exact Hp|]. split; [exact Ht|]. split; [lia|]. split.
    - intros K. split; [exact K|]. apply known_true in K. unfold remaining; destruct up; lia.
    - intros _ K _. split; [exact K|]. apply known_true in K. unfold remaining; destruct up; lia. }
  apply orb_false_iff in E. destruct E as [Ek _]. apply negb_false_iff in Ek.
  pose proof Ek as Kp. apply known_true in Kp.
  set (tilt1 := if tilt_supported c && negb (known tilt) then 100 else tilt).
  set (full_time := u32 (full_ms * 1000)).
  set (Tt := u32 (tilt_ms c * 1000)).
  set (Tp := if keeps_position c then u32 (full_time - Tt) else full_time).
  set (fixed := (tilt_type c =? TILT_ONLY_CLOSED) && (pos <? 10100)).
  set (rtt := if fixed then 0 else fp_rem o (u32 (if up then tilt1 - 100 else 10100 - tilt1)) Tt).
  set (tilt2 := if fixed then 100 else tilt1).
  set (a1 := adjust o up tilt2 rtt time Tt).
  set (rpt := if (0 <? snd a1) && keeps_position c then 0 else fp_rem o (u32 (if up then pos - 100 else 10100 - pos)) Tp).
  set (a2 := adjust o up pos rpt time Tp).
  cbn [m_pos m_tilt m_time].
  assert (HTt : 0 <= Tt < 4294967296) by (apply u32_range).
  assert (HTp : 0 <= Tp < 4294967296) by (unfold Tp, full_time; destruct (keeps_position c); apply u32_range).
  (* position *)
  assert (Hrp : u32 (if up then pos - 100 else 10100 - pos) = remaining up pos)
    by (unfold remaining; apply u32_small; destruct up; lia).
  assert (Hrpt : rpt = 0 \/ rpt = fp_rem o (remaining up pos) Tp).
  { unfold rpt. destruct ((0 <? snd a1) && keeps_position c); [left; reflexivity|right; rewrite Hrp; reflexivity]. }
  pose proof (adjust_spec up pos rpt time Tp Kp Htime HTp Hrpt) as A2. cbv zeta in A2. fold a2 in A2.
  destruct A2 as (A2x & A2r & A2td & _).
  (* tilt *)
  assert (Htilt : tilt_ok (fst a1) /\ 0 <= snd a1 /\
                  (tilt_supported c = true -> known tilt = true ->
                   (tilt_type c = TILT_ONLY_CLOSED -> pos < 10100 -> tilt = 100) ->
                   known (fst a1) = true /\ 0 <= remaining up (fst a1) <= remaining up tilt)).
  { destruct (tilt_supported c) eqn:Es.
    - (* tilting supported: tilt1 is a known value *)
      assert (K1 : 100 <= tilt1 <= 10100).
      { unfold tilt1. cbn [andb]. destruct (known tilt) eqn:K; cbn [negb]; [apply known_true in K; lia|lia]. }
      assert (K2 : 100 <= tilt2 <= 10100) by (unfold tilt2; destruct fixed; lia).
      assert (Hrtt : rtt = 0 \/ rtt = fp_rem o (remaining up tilt2) Tt).
      { unfold rtt, tilt2. destruct fixed; [left; reflexivity|right]. f_equal. unfold remaining. apply u32_small. destruct up; lia. }
      pose proof (adjust_spec up tilt2 rtt time Tt K2 Htime HTt Hrtt) as A1. cbv zeta in A1. fold a1 in A1.
      destruct A1 as (A1x & A1r & A1td & _).
      split; [right; right; lia|]. split; [lia|].
      intros _ K Hfix. split; [apply known_true; lia|].
      assert (tilt1 = tilt) by (unfold tilt1; rewrite K; reflexivity).
      assert (tilt2 = tilt).
      { unfold tilt2, fixed. destruct (tilt_type c =? TILT_ONLY_CLOSED) eqn:E3; cbn [andb]; [|congruence].
        destruct (pos <? 10100) eqn:E4; [|congruence]. apply Z.eqb_eq in E3. apply Z.ltb_lt in E4.
        rewrite (Hfix E3 E4). reflexivity. }
      rewrite H0 in A1r. lia.
    - (* not supported: there is no tilting time, the tilt block is skipped *)
      assert (tilt_ms c = 0) by (apply unsupported_no_tilt_time; auto).
      assert (Tt = 0) by (unfold Tt; rewrite H; reflexivity).
      assert (rtt = 0) by (unfold rtt; destruct fixed; [reflexivity|]; rewrite H0; apply (FP0 o OK)).
      assert (a1 = (tilt2, 0)) by (unfold a1, adjust; rewrite H1; reflexivity).
      rewrite H2. cbn [fst snd]. split; [|split; [lia|congruence]].
      unfold tilt2, tilt1. cbn [andb]. destruct fixed; [right; right; lia|exact Ht]. }
  destruct Htilt as (T1 & T2 & T3).
  split; [right; lia|]. split; [exact T1|]. split.
  { destruct (0 <? rpt).
    - destruct (time <? snd a2) eqn:E5; [lia|apply Z.ltb_ge in E5; lia].
    - destruct (time <? snd a1) eqn:E5; [lia|apply Z.ltb_ge in E5; lia]. }
  split.
  - intros _. split; [apply known_true; lia|lia].
  - exact T3.
Qed.

(* ---------- supla_esp_gpio_rs_calibrate ---------- *)
Lemma calibrate_spec c pos tilt full_time time p :
  pos_ok pos -> tilt_ok tilt -> p = 100 \/ p = 10100 ->
  pos_ok (fst (calibrate o c pos tilt full_time time p)) /\ tilt_ok (snd (calibrate o c pos tilt full_time time p)) /\
  (known pos = true -> calibrate o c pos tilt full_time time p = (pos, tilt)).
Proof.
  intros Hp Ht Hpp. unfold calibrate.
  destruct (known pos) eqn:K; cbn [negb andb].
  - cbn [fst snd]. auto.
  - destruct (0 <? full_time); cbn [fst snd]; [|repeat split; auto; congruence].
    destruct (fp_cal o full_time <=? time / 1000); cbn [fst snd].
    + repeat split; try congruence; [right; lia|]. destruct (tilt_supported c); [right; right; lia|right; left; reflexivity].
    + repeat split; try congruence; [left; reflexivity|right; left; reflexivity].
Qed.

(* ---------- the timer callback: range ---------- *)
Definition range_ok (s : st) : Prop :=
  pos_ok (pos s) /\ tilt_ok (tilt s) /\ 0 <= up_time s < 4294967296 /\ 0 <= down_time s < 4294967296.

Lemma timer_cb_range c boot s dt : wf_cfg c -> range_ok s -> range_ok (timer_cb o c boot s dt).
Proof.
  intros W (Hp & Ht & Hu & Hd). unfold timer_cb.
  set (t := u32 (boot + (now s + dt))). set (el := u32 (t - last_time s)).
  destruct (dir s =? RELAY_UP) eqn:E1; [|destruct (dir s =? RELAY_DOWN) eqn:E2].
  - pose proof (calibrate_spec c (pos s) (tilt s) (full_open c) (u32 (up_time s + el)) 100 Hp Ht ltac:(auto)) as (C1 & C2 & _).
    destruct (calibrate o c (pos s) (tilt s) (full_open c) (u32 (up_time s + el)) 100) as [p1 t1]. cbn [fst snd] in C1, C2.
    pose proof (move_position_spec c p1 t1 (u32 (up_time s + el)) (full_open c) true W C1 C2 (u32_range _)) as (M1 & M2 & M3 & _).
    pose proof (u32_range (up_time s + el)).
    unfold range_ok. cbn [pos tilt up_time down_time]. repeat split; auto; lia.
  - pose proof (calibrate_spec c (pos s) (tilt s) (full_close c) (u32 (down_time s + el)) 10100 Hp Ht ltac:(auto)) as (C1 & C2 & _).
    destruct (calibrate o c (pos s) (tilt s) (full_close c) (u32 (down_time s + el)) 10100) as [p1 t1]. cbn [fst snd] in C1, C2.
    pose proof (move_position_spec c p1 t1 (u32 (down_time s + el)) (full_close c) false W C1 C2 (u32_range _)) as (M1 & M2 & M3 & _).
    pose proof (u32_range (down_time s + el)).
    unfold range_ok. cbn [pos tilt up_time down_time]. repeat split; auto; lia.
  - unfold range_ok. cbn [pos tilt up_time down_time]. repeat split; auto; lia.
Qed.

Definition ev_ok (e : ev) : Prop :=
  match e with Poke p t => pos_ok p /\ tilt_ok t | _ => True end.

Lemma step_range c boot s e : wf_cfg c -> ev_ok e -> range_ok s -> range_ok (step o c boot s e).
Proof.
  intros W He R. destruct e as [d|p t|dt]; cbn [step].
  - destruct R as (A & B & C & D). unfold range_ok; cbn [pos tilt up_time down_time]; auto.
  - destruct R as (A & B & C & D). destruct He. unfold range_ok; cbn [pos tilt up_time down_time]; auto.
  - apply timer_cb_range; auto.
Qed.

Theorem C09_range_thm c boot s evs :
  wf_cfg c -> Forall ev_ok evs -> range_ok s ->
  let s' := run o c boot s evs in
  range_ok s' /\ rep_ok (current_position (pos s')) /\ rep_ok (current_tilt c (tilt s')).
Proof.
  intros W H. revert s. induction H as [|e r He Hr IH]; intros s R; cbn [run].
  - split; [exact R|]. split; [apply current_position_range|apply current_tilt_range].
  - apply IH. apply step_range; auto.
Qed.

Lemma init_range c p0 t0 now0 : pos_ok p0 -> tilt_ok t0 -> range_ok (init c p0 t0 now0).
Proof.
  intros. unfold init, range_ok; cbn [pos tilt up_time down_time].
  repeat split; auto; try lia. destruct (tilt_supported c); [auto|left; reflexivity].
Qed.

(* ---------- direction ---------- *)
Definition dir_of (up : bool) : Z := if up then RELAY_UP else RELAY_DOWN.
Definition full_of (c : cfg) (up : bool) : Z := if up then full_open c else full_close c.
Definition carry_of (up : bool) (s : st) : Z := if up then up_time s else down_time s.

(* for "tilting only when fully closed" the stored tilt is 0 % whenever the blind is not fully closed *)
Definition fixed_tilt_consistent (c : cfg) (s : st) : Prop :=
  tilt_type c = TILT_ONLY_CLOSED -> pos s < 10100 -> tilt s = 100.

Theorem C09_direction_thm c boot s dt up :
  wf_cfg c -> range_ok s -> dir s = dir_of up -> known (pos s) = true ->
  let s' := timer_cb o c boot s dt in
  known (pos s') = true /\ 0 <= remaining up (pos s') <= remaining up (pos s) /\
  (tilt_supported c = true -> known (tilt s) = true -> fixed_tilt_consistent c s ->
   known (tilt s') = true /\ 0 <= remaining up (tilt s') <= remaining up (tilt s)).
Proof.
  intros W (Hp & Ht & Hu & Hd) Hdir K. cbv zeta. unfold timer_cb.
  set (t := u32 (boot + (now s + dt))). set (el := u32 (t - last_time s)).
  pose proof consts_ok as CF.
  destruct up; unfold dir_of in Hdir.
  - replace (dir s =? RELAY_UP) with true by (symmetry; apply Z.eqb_eq; exact Hdir).
    pose proof (calibrate_spec c (pos s) (tilt s) (full_open c) (u32 (up_time s + el)) 100 Hp Ht ltac:(auto)) as (_ & _ & C3).
    rewrite (C3 K).
    pose proof (move_position_spec c (pos s) (tilt s) (u32 (up_time s + el)) (full_open c) true W Hp Ht (u32_range _)) as (_ & _ & _ & M4 & M5).
    cbn [pos tilt]. split; [apply M4; exact K|]. split; [apply M4; exact K|].
    intros S Kt F. apply M5; auto.
  - assert (dir s =? RELAY_UP = false) by (apply Z.eqb_neq; rewrite Hdir, (cf_down CF), (cf_up CF); lia).
    rewrite H. replace (dir s =? RELAY_DOWN) with true by (symmetry; apply Z.eqb_eq; exact Hdir).
    pose proof (calibrate_spec c (pos s) (tilt s) (full_close c) (u32 (down_time s + el)) 10100 Hp Ht ltac:(auto)) as (_ & _ & C3).
    rewrite (C3 K).
    pose proof (move_position_spec c (pos s) (tilt s) (u32 (down_time s + el)) (full_close c) false W Hp Ht (u32_range _)) as (_ & _ & _ & M4 & M5).
    cbn [pos tilt]. split; [apply M4; exact K|]. split; [apply M4; exact K|].
    intros S Kt F. apply M5; auto.
Qed.


(* ---------- accounting for a roller shutter (no tilting) ---------- *)
Definition rs_cfg (c : cfg) : Prop := tilt_type c = 0 /\ tilt_ms c = 0.
(* the previous callback (or initialisation of last_time) happened at the current instant *)
Definition synced (boot : Z) (s : st) : Prop := last_time s = u32 (boot + now s).

Lemma adjust_zero up x time Tq : adjust o up x 0 time Tq = (x, 0).
Proof. reflexivity. Qed.

Lemma move_position_rs c pos tilt time full_ms up :
  rs_cfg c -> known pos = true -> 0 < full_ms * 1000 < 4294967296 ->
  let T := full_ms * 1000 in
  let a := adjust o up pos (fp_rem o (remaining up pos) T) time T in
  let m := move_position o c pos tilt time full_ms up in
  m_pos m = fst a /\ m_tilt m = tilt /\ m_time m = (if time <? snd a then 0 else time - snd a).
Proof.
  intros [H0 H1] K HT. cbv zeta. unfold move_position, keeps_position, tilt_supported.
  rewrite K, H0, H1. cbn [negb orb].
  replace (full_ms =? 0) with false by (symmetry; apply Z.eqb_neq; lia).
  replace (0 =? TILT_KEEP_POSITION) with false by reflexivity.
  replace (0 =? TILT_ONLY_CLOSED) with false by reflexivity.
  replace (0 =? 0) with true by reflexivity. cbn [negb orb andb].
  replace (u32 (0 * 1000)) with 0 by reflexivity.
  rewrite (FP0 o OK). rewrite adjust_zero. cbn [fst snd].
  replace (0 <? 0) with false by reflexivity. cbn [andb].
  rewrite (u32_small (full_ms * 1000)) by lia.
  apply known_true in K.
  replace (u32 (if up then pos - 100 else 10100 - pos)) with (remaining up pos)
    by (unfold remaining; symmetry; apply u32_small; destruct up; lia).
  cbn [m_pos m_tilt m_time].
  split; [reflexivity|]. split; [reflexivity|].
  destruct (0 <? fp_rem o (remaining up pos) (full_ms * 1000)) eqn:E; [reflexivity|].
  unfold adjust. rewrite E. reflexivity.
Qed.

Lemma timer_cb_rs c boot s dt up :
  rs_cfg c -> synced boot s -> 0 <= dt -> dir s = dir_of up -> known (pos s) = true ->
  0 < full_of c up * 1000 < 4294967296 -> 0 <= carry_of up s -> carry_of up s + dt < 4294967296 ->
  let T := full_of c up * 1000 in
  let time := carry_of up s + dt in
  let a := adjust o up (pos s) (fp_rem o (remaining up (pos s)) T) time T in
  let s' := timer_cb o c boot s dt in
  pos s' = fst a /\ carry_of up s' = (if time <? snd a then 0 else time - snd a) /\ tilt s' = tilt s /\
  synced boot s' /\ now s' = now s + dt.
Proof.
  intros RS Sy Hdt Hdir K HT Hc Hsum. cbv zeta. unfold timer_cb.
  assert (Hel : u32 (u32 (boot + (now s + dt)) - last_time s) = dt).
  { rewrite Sy. pose proof (u32_diff_shift boot (now s + dt) (now s)) as X.
    replace (now s + dt - now s) with dt in X by lia. apply X. lia. }
  rewrite Hel.
  pose proof consts_ok as CF.
  destruct up; unfold dir_of, full_of, carry_of in *.
  - replace (dir s =? RELAY_UP) with true by (symmetry; apply Z.eqb_eq; exact Hdir).
    rewrite (u32_small (up_time s + dt)) by lia.
    unfold calibrate. rewrite K. cbn [negb andb].
    pose proof (move_position_rs c (pos s) (tilt s) (up_time s + dt) (full_open c) true RS K HT) as M. cbv zeta in M.
    destruct M as (M1 & M2 & M3).
    cbn [pos tilt up_time down_time last_time now]. unfold synced. cbn [last_time now].
    repeat split; auto.
  - assert (Hn : dir s =? RELAY_UP = false) by (apply Z.eqb_neq; rewrite Hdir, (cf_down CF), (cf_up CF); lia).
    rewrite Hn. replace (dir s =? RELAY_DOWN) with true by (symmetry; apply Z.eqb_eq; exact Hdir).
    rewrite (u32_small (down_time s + dt)) by lia.
    unfold calibrate. rewrite K. cbn [negb andb].
    pose proof (move_position_rs c (pos s) (tilt s) (down_time s + dt) (full_close c) false RS K HT) as M. cbv zeta in M.
    destruct M as (M1 & M2 & M3).
    cbn [pos tilt up_time down_time last_time now]. unfold synced. cbn [last_time now].
    repeat split; auto.
Qed.

Fixpoint run_cbs (c : cfg) (boot : Z) (s : st) (ds : list Z) : st :=
  match ds with [] => s | d :: r => run_cbs c boot (timer_cb o c boot s d) r end.
(* the output of direction `up` is (still) energised when each of the callbacks starts *)
Fixpoint motor_on (c : cfg) (boot : Z) (up : bool) (s : st) (ds : list Z) : Prop :=
  match ds with [] => True | d :: r => dir s = dir_of up /\ motor_on c boot up (timer_cb o c boot s d) r end.
Definition sumz (l : list Z) : Z := fold_right Z.add 0 l.

(* accounting invariant: R0 = distance to the end stop at the start of the run, e = time run so far
   (including the carry present at the start), k = number of callbacks so far *)
Definition acc_inv (boot : Z) (up : bool) (T R0 : Z) (s : st) (e k : Z) : Prop :=
  synced boot s /\ known (pos s) = true /\
  let r := remaining up (pos s) in let cy := carry_of up s in
  0 <= cy <= e /\ 0 <= r <= R0 /\
  10000 * (e - cy) <= (R0 - r) * T /\ (R0 - r) * T <= 10000 * (e - cy) + 20000 * k /\
  (0 < k -> 0 < r -> 10000 * cy < T + 10000).

Lemma acc_step c boot up R0 s e k dt :
  rs_cfg c -> 20000 <= full_of c up * 1000 < 4294967296 -> 0 <= k -> 0 <= dt -> e + dt < 4294967296 ->
  dir s = dir_of up ->
  acc_inv boot up (full_of c up * 1000) R0 s e k ->
  acc_inv boot up (full_of c up * 1000) R0 (timer_cb o c boot s dt) (e + dt) (k + 1).
Proof.
  intros RS HT Hk Hdt He Hdir (Sy & K & I). cbv zeta in I. destruct I as (Ic & Ir & I2 & I1 & I3).
  set (T := full_of c up * 1000) in *.
  pose proof (timer_cb_rs c boot s dt up RS Sy Hdt Hdir K ltac:(lia) ltac:(lia) ltac:(lia)) as TC.
  cbv zeta in TC. fold T in TC. destruct TC as (P1 & P2 & _ & P4 & _).
  pose proof K as Kp. apply known_true in Kp.
  pose proof (adjust_spec up (pos s) (fp_rem o (remaining up (pos s)) T) (carry_of up s + dt) T Kp ltac:(lia) ltac:(lia) (or_intror eq_refl)) as A.
  cbv zeta in A. rewrite <- P1, <- P2 in A.
  destruct A as (A1 & A2 & A3 & A4 & A5 & A6 & A7 & _).
  unfold acc_inv. split; [exact P4|]. split; [apply known_true; exact A1|]. cbv zeta.
  set (r := remaining up (pos s)) in *. set (r' := remaining up (pos (timer_cb o c boot s dt))) in *.
  set (cy := carry_of up s) in *. set (cy' := carry_of up (timer_cb o c boot s dt)) in *.
  split; [lia|]. split; [lia|]. split; [lia|]. split; [lia|].
  intros _ Hr'. apply A7; auto. lia.
Qed.

Lemma acc_run c boot up R0 ds : forall s e k,
  rs_cfg c -> 20000 <= full_of c up * 1000 < 4294967296 -> 0 <= k ->
  Forall (fun d => 0 <= d) ds -> e + sumz ds < 4294967296 ->
  motor_on c boot up s ds ->
  acc_inv boot up (full_of c up * 1000) R0 s e k ->
  acc_inv boot up (full_of c up * 1000) R0 (run_cbs c boot s ds) (e + sumz ds) (k + Z.of_nat (length ds)).
Proof.
  induction ds as [|d r IH]; intros s e k RS HT Hk Hd He Hon I.
  - cbn [run_cbs sumz fold_right length Z.of_nat]. replace (e + 0) with e by lia. replace (k + 0) with k by lia. exact I.
  - cbn [run_cbs]. inversion Hd as [|? ? Hd0 Hdr]; subst. destruct Hon as [Hdir Hon].
    assert (Hs : sumz (d :: r) = d + sumz r) by reflexivity.
    assert (Hsr : 0 <= sumz r).
    { clear -Hdr. induction Hdr; cbn [sumz fold_right]; [lia|]. unfold sumz in IHHdr. lia. }
    rewrite Hs in *.
    replace (e + (d + sumz r)) with ((e + d) + sumz r) by lia.
    replace (k + Z.of_nat (length (d :: r))) with ((k + 1) + Z.of_nat (length r)) by (cbn [length]; lia).
    apply IH; auto; try lia.
    apply acc_step; auto; lia.
Qed.

(* The accounting theorem for a calibrated roller shutter: after callbacks at arbitrary intervals ds
   (sum t) with the motor energised in one direction, from a known position and a carry cy0, the stored
   position has moved towards the end stop by `moved` with
      10000 (t + cy0 - carry) <= moved * T <= 10000 (t + cy0 - carry) + 20000 * n
   i.e. the time not yet turned into position is exactly the carry, up to 2 microseconds per callback,
   and the carry itself is below one position unit (T/10000 + 1 microseconds) unless the end stop is reached. *)
Theorem C09_accounting_rs_thm c boot up s ds :
  rs_cfg c -> 20000 <= full_of c up * 1000 < 4294967296 ->
  synced boot s -> known (pos s) = true -> 0 <= carry_of up s ->
  Forall (fun d => 0 <= d) ds -> carry_of up s + sumz ds < 4294967296 ->
  motor_on c boot up s ds ->
  let T := full_of c up * 1000 in
  let s' := run_cbs c boot s ds in
  let e := carry_of up s + sumz ds in
  let n := Z.of_nat (length ds) in
  let moved := remaining up (pos s) - remaining up (pos s') in
  known (pos s') = true /\ 0 <= remaining up (pos s') /\ 0 <= moved /\
  0 <= carry_of up s' <= e /\
  10000 * (e - carry_of up s') <= moved * T <= 10000 * (e - carry_of up s') + 20000 * n /\
  (0 < n -> 0 < remaining up (pos s') -> 10000 * carry_of up s' < T + 10000).
Proof.
  intros RS HT Sy K Hc Hd He Hon. cbv zeta.
  assert (I0 : acc_inv boot up (full_of c up * 1000) (remaining up (pos s)) s (carry_of up s) 0).
  { unfold acc_inv. split; [exact Sy|]. split; [exact K|]. cbv zeta. apply known_true in K.
    assert (0 <= remaining up (pos s)) by (unfold remaining; destruct up; lia).
    repeat split; try lia. }
  pose proof (acc_run c boot up (remaining up (pos s)) ds s (carry_of up s) 0 RS HT ltac:(lia) Hd He Hon I0) as (S' & K' & I).
  cbv zeta in I. destruct I as (Ic & Ir & I2 & I1 & I3).
  replace (0 + Z.of_nat (length ds)) with (Z.of_nat (length ds)) in * by lia.
  repeat split; auto; try lia.
Qed.

(* the same in position units: the distance moved is the ideal floor(10000 t / T), clamped at the end stop,
   within -1 .. +1 + ceil(20000 n / T) units; with intervals of at least 1 ms that is at most 1 + 20 t / T + 1 units *)
Lemma accounting_units T R0 r' e cy n :
  20000 <= T -> 0 <= r' <= R0 -> 0 <= cy <= e -> 0 <= n ->
  10000 * (e - cy) <= (R0 - r') * T <= 10000 * (e - cy) + 20000 * n ->
  (0 < r' -> 10000 * cy < T + 10000) ->
  let moved := R0 - r' in
  let ideal := Z.min R0 (10000 * e / T) in
  ideal - 1 <= moved <= ideal + 1 + (20000 * n) / T + 1.
Proof.
  intros HT Hr Hc Hn [I2 I1] I3. cbv zeta.
  set (q := 10000 * e / T).
  pose proof (div_lo (10000 * e) T ltac:(lia)) as Qlo. pose proof (div_hi (10000 * e) T ltac:(lia)) as Qhi. fold q in Qlo, Qhi.
  set (w := 20000 * n / T).
  pose proof (div_lo (20000 * n) T ltac:(lia)) as Wlo. pose proof (div_hi (20000 * n) T ltac:(lia)) as Whi. fold w in Wlo, Whi.
  set (M := (R0 - r') * T) in *.
  assert (HM : M = T * (R0 - r')) by (unfold M; lia).
  split.
  - (* lower bound *)
    destruct (Z.eq_dec r' 0) as [->|Hr0].
    + apply Z.le_trans with (R0 - 1); [|lia]. pose proof (Z.le_min_l R0 q). lia.
    + assert (Hcy : 10000 * cy < T + 10000) by (apply I3; lia).
      apply Z.le_trans with (q - 1); [pose proof (Z.le_min_r R0 q); lia|].
      (* T*(moved) >= 10000 e - 10000 cy > 10000 e - T - 10000 >= T*q - T - 10000, and 10000 <= T/2 *)
      assert (T * (q - 2) < T * (R0 - r')) by lia.
      assert (q - 2 < R0 - r') by (apply Z.mul_lt_mono_pos_l with T; lia). lia.
  - (* upper bound *)
    assert (R0 - r' <= R0) by lia.
    assert (T * (R0 - r') < T * (q + w + 2)) by lia.
    assert (R0 - r' < q + w + 2) by (apply Z.mul_lt_mono_pos_l with T; lia).
    assert (0 <= w) by (unfold w; apply div_nonneg; lia).
    destruct (Z.min_spec R0 q) as [[_ ->]|[_ ->]]; lia.
Qed.

(* end to end: the time seen by the callbacks differs from the true run time of the motor by less than one
   callback interval at each end (nominal 10 ms + lateness <= 20 ms: 30 ms), so the stored position is the
   ideal one for the true run time within one percentage point (100 units) plus the travel of 30 ms *)
Lemma sumz_ge l m : Forall (fun d => m <= d) l -> m * Z.of_nat (length l) <= sumz l.
Proof. induction 1; cbn [sumz fold_right length]; [lia|]. unfold sumz in IHForall. lia. Qed.

Lemma ideal_lipschitz T R0 e t L :
  0 < T -> 0 <= e -> 0 <= t -> 0 <= L -> e - L <= t <= e + L ->
  Z.min R0 (10000 * e / T) - (10000 * L / T + 1) <= Z.min R0 (10000 * t / T) <= Z.min R0 (10000 * e / T) + (10000 * L / T + 1).
Proof.
  intros HT He Ht HL Hd.
  set (qe := 10000 * e / T). set (qt := 10000 * t / T). set (ql := 10000 * L / T).
  pose proof (div_lo (10000 * e) T HT) as E1. pose proof (div_hi (10000 * e) T HT) as E2. fold qe in E1, E2.
  pose proof (div_lo (10000 * t) T HT) as T1. pose proof (div_hi (10000 * t) T HT) as T2. fold qt in T1, T2.
  pose proof (div_lo (10000 * L) T HT) as L1. pose proof (div_hi (10000 * L) T HT) as L2. fold ql in L1, L2.
  assert (A : qt < qe + ql + 2) by (apply Z.mul_lt_mono_pos_l with T; lia).
  assert (B : qe < qt + ql + 2) by (apply Z.mul_lt_mono_pos_l with T; lia).
  destruct (Z.min_spec R0 qe) as [[? ->]|[? ->]]; destruct (Z.min_spec R0 qt) as [[? ->]|[? ->]]; lia.
Qed.

Theorem C09_end_to_end_rs_thm c boot up s ds t_true :
  rs_cfg c -> 20000 <= full_of c up * 1000 < 4294967296 ->
  synced boot s -> known (pos s) = true -> carry_of up s = 0 ->
  Forall (fun d => 1000 <= d) ds -> sumz ds < 4294967296 -> sumz ds <= 4 * (full_of c up * 1000) ->
  motor_on c boot up s ds ->
  0 <= t_true -> sumz ds - 30000 <= t_true <= sumz ds + 30000 ->
  let T := full_of c up * 1000 in
  let moved := remaining up (pos s) - remaining up (pos (run_cbs c boot s ds)) in
  let ideal := Z.min (remaining up (pos s)) (10000 * t_true / T) in
  ideal - (100 + (10000 * 30000 / T + 1)) <= moved <= ideal + (100 + (10000 * 30000 / T + 1)).
Proof.
  intros RS HT Sy K Hc0 Hd He H4 Hon Ht Hdiff. cbv zeta.
  assert (Hd0 : Forall (fun d => 0 <= d) ds) by (eapply Forall_impl; [|exact Hd]; cbn; intros; lia).
  pose proof (C09_accounting_rs_thm c boot up s ds RS HT Sy K ltac:(lia) Hd0 ltac:(lia) Hon) as A.
  cbv zeta in A. rewrite Hc0 in A. replace (0 + sumz ds) with (sumz ds) in A by lia.
  destruct A as (K' & A1 & A2 & A3 & A4 & A5).
  pose proof (sumz_ge ds 1000 Hd) as Hn.
  set (n := Z.of_nat (length ds)) in *. set (T := full_of c up * 1000) in *.
  set (R0 := remaining up (pos s)) in *. set (r' := remaining up (pos (run_cbs c boot s ds))) in *.
  assert (Hn0 : 0 <= n) by (unfold n; lia).
  destruct (Z.eq_dec n 0) as [Hz|Hz].
  - (* no callback at all: nothing moved, the true run time is below 30 ms *)
    assert (ds = []) by (destruct ds; [reflexivity|cbn [length] in n; unfold n in Hz; lia]).
    subst ds. cbn [run_cbs] in r'. cbn [sumz fold_right] in *. unfold r'. fold R0.
    replace (R0 - R0) with 0 by lia.
    assert (0 <= R0) by (apply known_true in K; unfold R0, remaining; destruct up; lia).
    assert (0 <= 10000 * t_true / T) by (apply div_nonneg; lia).
    assert (10000 * t_true / T <= 10000 * 30000 / T) by (apply Z.div_le_mono; lia).
    assert (0 <= 10000 * 30000 / T) by (apply div_nonneg; lia).
    destruct (Z.min_spec R0 (10000 * t_true / T)) as [[? ->]|[? ->]]; lia.
  - pose proof (accounting_units T R0 r' (sumz ds) (carry_of up (run_cbs c boot s ds)) n ltac:(lia) ltac:(lia) ltac:(lia) Hn0 A4 (A5 ltac:(lia))) as U.
    cbv zeta in U.
    assert (W : 20000 * n / T <= 80).
    { assert (20000 * n / T < 81); [|lia]. apply Z.div_lt_upper_bound; lia. }
    pose proof (ideal_lipschitz T R0 (sumz ds) t_true 30000 ltac:(lia) ltac:(lia) Ht ltac:(lia) Hdiff) as Lp.
    lia.
Qed.

End WithOps.

(* ---------- facade blind, "change position while tilting": the tilt estimate is wrong ---------- *)
(* Witness on the bit-exact instance `fops` (also replayed on the real code, corpus/C09/fb_mode2_tilt_fast.txt):
   full travel 600 s, tilting 1.73 s, mode 2, exact 10 ms callbacks.  After 0.5 s of closing the stored tilt is
   99.6 % although 0.5 s / 1.73 s = 28.9 % of the tilting time has passed: the tilt block converts the whole
   carry into tilt at every callback while only the position block consumes it. *)
Definition w_cfg : cfg := {| full_open := 600000; full_close := 600000; tilt_ms := 1730; tilt_type := 2; margin := 110 |}.
Definition w_evs : list ev := [Cb 10000; SetDir 1] ++ repeat (Cb 10000) 50.
Definition w_final : st := run fops w_cfg 1 (init w_cfg 3100 100 250000) w_evs.

Lemma C09_fb_change_position_tilt_refuted_lem :
  tilt w_final - 100 = 9860 /\
  let ideal_tilt := 10000 * (50 * 10000) / (tilt_ms w_cfg * 1000) in
  let tolerance := 100 + 10000 * 30000 / (tilt_ms w_cfg * 1000) + 1 in
  ideal_tilt = 2890 /\ tolerance = 274 /\ tilt w_final - 100 > ideal_tilt + tolerance.
Proof. vm_compute. repeat split; reflexivity. Qed.
