From Coq Require Import List ZArith Bool Lia.
From V Require Import Base.U32 Gen.RsConsts C09.Model.
Local Open Scope Z_scope.
Lemma placeholder : True. Proof. exact I. Qed.
