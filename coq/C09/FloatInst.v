(* C09 / C10 theorems instantiated at the bit-exact binary64 instance `fops`: the hypothesis `fp_ok o` is discharged by
   C09/FloatFacts.v (Flocq).  Used by the `_fops` theorems of Properties_C09.v. *)
From Coq Require Import List ZArith.
From V Require Import Base.U32 C09.Model C09.Proofs C09.Fb13 C09.FloatFacts.
Local Open Scope Z_scope.

Theorem C09_fp_facts_hold : fp_ok fops.
Proof. exact fops_ok. Qed.
Print Assumptions C09_fp_facts_hold.

Definition C09_range_inst := C09_range_thm fops fops_ok.
Definition C09_direction_inst := C09_direction_thm fops fops_ok.
Definition C09_accounting_rs_inst := C09_accounting_rs_thm fops fops_ok.
Definition C09_end_to_end_rs_inst := C09_end_to_end_rs_thm fops fops_ok.
Definition C09_accounting_fb13_inst := C09_accounting_fb13_thm fops fops_ok.
