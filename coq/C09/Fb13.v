(* C09 — accounting for facade blinds of tilt types 1 (tilting keeps the position) and 3 (tilting only when closed):
   one quantity per callback, tilt and position in their physical order, no time lost. *)
From Coq Require Import List ZArith Bool Lia.
Import ListNotations.
From V Require Import Base.U32 Base.Iface Gen.RsConsts C09.Model C09.Proofs.
Local Open Scope Z_scope.

Section Fb13.
Variable o : fpops.
Hypothesis OK : fp_ok o.

Lemma adjust_td_pos up x time Tq :
  100 <= x <= 10100 -> 0 < remaining up x -> 0 <= time < 4294967296 -> 20000 <= Tq < 4294967296 -> Tq <= 10000 * time ->
  0 < snd (adjust o up x (fp_rem o (remaining up x) Tq) time Tq).
Proof.
  intros Hx Hrem Ht HT Hu.
  assert (Hr : 0 <= remaining up x <= 10000) by (unfold remaining in *; destruct up; lia).
  pose proof (FP1 o OK (remaining up x) Tq Hr ltac:(lia)) as F1.
  set (P := remaining up x * Tq) in *.
  assert (HP : 20000 <= P) by (unfold P; replace 20000 with (1 * 20000) by lia; apply Z.mul_le_mono_nonneg; lia).
  assert (HP2 : 2 <= P / 10000) by (apply Z.div_le_lower_bound; lia).
  pose proof (div_lo P 10000 ltac:(lia)) as Plo. pose proof (div_hi P 10000 ltac:(lia)) as Phi.
  unfold adjust.
  replace (0 <? fp_rem o (remaining up x) Tq) with true by (symmetry; apply Z.ltb_lt; lia).
  destruct (fp_rem o (remaining up x) Tq <=? time) eqn:E1.
  - cbn [snd]. change (if up then x - 100 else 10100 - x) with (remaining up x).
    rewrite (FP3 o OK (remaining up x) Tq Hr ltac:(lia)). fold P. lia.
  - apply Z.leb_gt in E1. cbn [snd].
    assert (Hle : 10000 * time <= P) by lia.
    assert (HPle : P <= 10000 * Tq) by (unfold P; apply Z.mul_le_mono_nonneg_r; lia).
    rewrite (FP2 o OK time Tq Ht ltac:(lia) ltac:(lia)).
    set (d := 10000 * time / Tq).
    assert (Hd1 : 1 <= d) by (unfold d; apply Z.div_le_lower_bound; lia).
    assert (Hdr : d <= remaining up x) by (unfold d; apply Z.div_le_upper_bound; [lia|]; unfold P in Hle; lia).
    rewrite (FP3 o OK d Tq ltac:(lia) ltac:(lia)).
    assert (20000 <= d * Tq) by (replace 20000 with (1 * 20000) by lia; apply Z.mul_le_mono_nonneg; lia).
    assert (2 <= d * Tq / 10000) by (apply Z.div_le_lower_bound; lia). lia.
Qed.

Lemma adjust_done up x rt time Tq :
  100 <= x <= 10100 -> remaining up x = 0 -> 0 <= time < 4294967296 -> 0 <= Tq < 4294967296 -> rt = 0 \/ rt = fp_rem o 0 Tq ->
  adjust o up x rt time Tq = (x, 0).
Proof.
  intros Hx Hrem Ht HT Hrt. unfold adjust.
  destruct (0 <? rt) eqn:E0; [|reflexivity]. apply Z.ltb_lt in E0.
  destruct Hrt as [Hrt|Hrt]; [lia|].
  assert (HTq : 0 < Tq) by (destruct (Z.eq_dec Tq 0) as [->|]; [rewrite (FP0 o OK) in Hrt|]; lia).
  pose proof (FP1 o OK 0 Tq ltac:(lia) ltac:(lia)) as F1. rewrite <- Hrt in F1. cbn in F1.
  change (if up then x - 100 else 10100 - x) with (remaining up x). rewrite Hrem.
  assert (Ex : (if up then 100 else 10100) = x) by (unfold remaining in Hrem; destruct up; lia).
  destruct (rt <=? time) eqn:E1.
  - rewrite (FP3 o OK 0 Tq ltac:(lia) ltac:(lia)), Ex. reflexivity.
  - apply Z.leb_gt in E1. assert (time = 0) by lia. subst time.
    rewrite (FP2 o OK 0 Tq ltac:(lia) ltac:(lia) ltac:(lia)). cbn [Z.mul]. rewrite Z.div_0_l by lia.
    rewrite (FP3 o OK 0 Tq ltac:(lia) ltac:(lia)). cbn. f_equal. destruct up; lia.
Qed.

(* the tilt travel still to be made before the position may move (type 3: tilting happens only at the closed position) *)
Definition fixed3 (c : cfg) (p : Z) : bool := (tilt_type c =? TILT_ONLY_CLOSED) && (p <? 10100).
Definition tilt_pending (c : cfg) (p t : Z) (up : bool) : Z := if fixed3 c p then 0 else remaining up t.
(* type 3: the slats are fully open (tilt 0 %) whenever the blind is not closed *)
Definition consistent3 (c : cfg) (p t : Z) : Prop := tilt_type c = TILT_ONLY_CLOSED -> p < 10100 -> t = 100.

Lemma move_position_fb13 c pos tilt time full_ms up :
  keeps_position c = true -> tilt_supported c = true -> known pos = true -> known tilt = true -> consistent3 c pos tilt ->
  let Tt := tilt_ms c * 1000 in let Tp := full_ms * 1000 - Tt in
  20000 <= Tt -> 0 < Tp -> full_ms * 1000 < 4294967296 -> 0 <= time < 4294967296 -> Tt <= 10000 * time ->
  let m := move_position o c pos tilt time full_ms up in
  let rt := remaining up tilt in let rt' := remaining up (m_tilt m) in
  let rp := remaining up pos in let rp' := remaining up (m_pos m) in
  known (m_pos m) = true /\ known (m_tilt m) = true /\ consistent3 c (m_pos m) (m_tilt m) /\
  0 <= rt' <= rt /\ 0 <= rp' <= rp /\ 0 <= m_time m <= time /\
  (0 < tilt_pending c pos tilt up -> rp' = rp /\
     10000 * (time - m_time m) <= (rt - rt') * Tt < 10000 * (time - m_time m) + 20000 /\
     (0 < rt' -> 10000 * m_time m < Tt + 10000)) /\
  (tilt_pending c pos tilt up = 0 -> m_tilt m = tilt /\
     10000 * (time - m_time m) <= (rp - rp') * Tp < 10000 * (time - m_time m) + 20000 /\
     (20000 <= Tp -> 0 < rp' -> 10000 * m_time m < Tp + 10000)).
Proof.
  intros Hk Hs Kp0 Kt0 Hc Tt Tp HTt HTp Hfull Htime Hunit. cbv zeta.
  pose proof Kp0 as Kp. apply known_true in Kp. pose proof Kt0 as Kt. apply known_true in Kt.
  assert (Hrp0 : 0 <= remaining up pos <= 10000) by (unfold remaining; destruct up; lia).
  assert (Hrt0 : 0 <= remaining up tilt <= 10000) by (unfold remaining; destruct up; lia).
  unfold move_position. rewrite Kp0. cbn [negb orb].
  replace (full_ms =? 0) with false by (symmetry; apply Z.eqb_neq; unfold Tp, Tt in *; lia).
  rewrite Hs, Kt0, Hk. cbn [negb andb].
  assert (E1 : u32 (full_ms * 1000) = full_ms * 1000) by (apply u32_small; unfold Tp, Tt in *; lia).
  assert (E2 : u32 (tilt_ms c * 1000) = Tt) by (apply u32_small; unfold Tp, Tt in *; lia).
  rewrite E1, E2.
  assert (E3 : u32 (full_ms * 1000 - Tt) = Tp) by (apply u32_small; unfold Tp in *; lia).
  rewrite E3.
  assert (Hrt : u32 (if up then tilt - 100 else 10100 - tilt) = remaining up tilt) by (unfold remaining; apply u32_small; destruct up; lia).
  assert (Hrp : u32 (if up then pos - 100 else 10100 - pos) = remaining up pos) by (unfold remaining; apply u32_small; destruct up; lia).
  rewrite Hrt, Hrp. fold (fixed3 c pos).
  unfold tilt_pending.
  destruct (fixed3 c pos) eqn:Ef.
  - (* type 3, not closed: the tilt is 0 %, only the position moves *)
    unfold fixed3 in Ef. apply andb_true_iff in Ef. destruct Ef as [Ef1 Ef2]. apply Z.eqb_eq in Ef1. apply Z.ltb_lt in Ef2.
    assert (Et : tilt = 100) by (apply Hc; assumption).
    replace (adjust o up 100 0 time Tt) with (100, 0) by reflexivity. cbn [fst snd]. cbn [Z.ltb andb].
    replace (0 <? 0) with false by reflexivity. cbn [andb].
    pose proof (adjust_spec o OK up pos (fp_rem o (remaining up pos) Tp) time Tp Kp Htime ltac:(lia) (or_intror eq_refl)) as A.
    cbv zeta in A. destruct A as (A1 & A2 & A3 & A4 & A5 & A6 & A7 & _).
    remember (adjust o up pos (fp_rem o (remaining up pos) Tp) time Tp) as a2 eqn:Ea2.
    cbn [m_pos m_tilt m_time].
    assert (Em : (if time <? (if 0 <? fp_rem o (remaining up pos) Tp then snd a2 else 0) then 0 else time - (if 0 <? fp_rem o (remaining up pos) Tp then snd a2 else 0))
                 = (if time <? snd a2 then 0 else time - snd a2)).
    { destruct (0 <? fp_rem o (remaining up pos) Tp) eqn:E0; [reflexivity|].
      rewrite Ea2. unfold adjust. rewrite E0. reflexivity. }
    rewrite Em.
    split; [apply known_true; lia|]. split; [reflexivity|].
    split; [intros _ _; reflexivity|].
    rewrite Et. split; [unfold remaining; destruct up; lia|]. split; [lia|]. split; [lia|].
    split; [intros H; lia|]. intros _. split; [reflexivity|]. split; [lia|]. intros H2 H3. apply A7; [reflexivity|lia|lia].
  - destruct (Z.eq_dec (remaining up tilt) 0) as [Hz|Hnz].
    + (* tilting is complete: only the position moves *)
      rewrite (adjust_done up tilt (fp_rem o (remaining up tilt) Tt) time Tt Kt Hz Htime ltac:(lia) ltac:(right; rewrite Hz; reflexivity)).
      cbn [fst snd]. replace (0 <? 0) with false by reflexivity. cbn [andb].
      pose proof (adjust_spec o OK up pos (fp_rem o (remaining up pos) Tp) time Tp Kp Htime ltac:(lia) (or_intror eq_refl)) as A.
      cbv zeta in A. destruct A as (A1 & A2 & A3 & A4 & A5 & A6 & A7 & _).
      remember (adjust o up pos (fp_rem o (remaining up pos) Tp) time Tp) as a2 eqn:Ea2.
      cbn [m_pos m_tilt m_time].
      assert (Em : (if time <? (if 0 <? fp_rem o (remaining up pos) Tp then snd a2 else 0) then 0 else time - (if 0 <? fp_rem o (remaining up pos) Tp then snd a2 else 0))
                   = (if time <? snd a2 then 0 else time - snd a2)).
      { destruct (0 <? fp_rem o (remaining up pos) Tp) eqn:E0; [reflexivity|].
        rewrite Ea2. unfold adjust. rewrite E0. reflexivity. }
      rewrite Em.
      split; [apply known_true; lia|]. split; [exact Kt0|].
      split.
      { intros H3 Hlt. unfold fixed3 in Ef. rewrite H3, Z.eqb_refl in Ef. cbn [andb] in Ef. apply Z.ltb_ge in Ef.
        (* the position was 10100 (closed) and the tilt is at the end stop of the direction *)
        unfold remaining in *. destruct up; lia. }
      split; [lia|]. split; [lia|]. split; [lia|].
      split; [intros H; lia|]. intros _. split; [reflexivity|]. split; [lia|]. intros H2 H3. apply A7; [reflexivity|lia|lia].
    + (* tilting under way: the position stands still *)
      assert (Hpos : 0 < remaining up tilt) by (unfold remaining in *; destruct up; lia).
      pose proof (adjust_td_pos up tilt time Tt Kt Hpos Htime ltac:(lia) Hunit) as Td.
      pose proof (adjust_spec o OK up tilt (fp_rem o (remaining up tilt) Tt) time Tt Kt Htime ltac:(lia) (or_intror eq_refl)) as A.
      cbv zeta in A. destruct A as (A1 & A2 & A3 & A4 & A5 & A6 & A7 & _).
      remember (adjust o up tilt (fp_rem o (remaining up tilt) Tt) time Tt) as a1 eqn:Ea1.
      replace (0 <? snd a1) with true by (symmetry; apply Z.ltb_lt; exact Td). cbn [andb].
      replace (adjust o up pos 0 time Tp) with (pos, 0) by reflexivity. cbn [fst snd].
      replace (0 <? 0) with false by reflexivity.
      cbn [m_pos m_tilt m_time].
      split; [exact Kp0|]. split; [apply known_true; lia|].
      split.
      { intros H3 Hlt. unfold fixed3 in Ef. rewrite H3, Z.eqb_refl in Ef. cbn [andb] in Ef. apply Z.ltb_ge in Ef. lia. }
      split; [lia|]. split; [lia|]. split; [lia|].
      split; [|intros H; lia]. intros _. split; [reflexivity|]. split; [lia|]. intros H3. apply A7; [reflexivity|lia|lia].
Qed.

(* ---------- the timer callback and runs of callbacks ---------- *)
Lemma timer_cb_fb13 c boot s dt up :
  synced boot s -> 0 <= dt -> dir s = dir_of up -> known (pos s) = true ->
  0 <= carry_of up s -> carry_of up s + dt < 4294967296 ->
  let s' := timer_cb o c boot s dt in
  let m := move_position o c (pos s) (tilt s) (carry_of up s + dt) (full_of c up) up in
  pos s' = m_pos m /\ tilt s' = m_tilt m /\ carry_of up s' = m_time m /\ synced boot s' /\ now s' = now s + dt.
Proof.
  intros Sy Hdt Hdir K Hc Hsum. cbv zeta. unfold timer_cb.
  assert (Hel : u32 (u32 (boot + (now s + dt)) - last_time s) = dt).
  { rewrite Sy. pose proof (u32_diff_shift boot (now s + dt) (now s)) as X.
    replace (now s + dt - now s) with dt in X by lia. apply X. lia. }
  rewrite Hel.
  pose proof consts_ok as CF.
  destruct up; unfold dir_of, full_of, carry_of in *.
  - replace (dir s =? RELAY_UP) with true by (symmetry; apply Z.eqb_eq; exact Hdir).
    rewrite (u32_small (up_time s + dt)) by lia.
    unfold calibrate. rewrite K. cbn [negb andb].
    cbn [pos tilt up_time down_time last_time now]. unfold synced. cbn [last_time now]. repeat split; auto.
  - assert (Hn : dir s =? RELAY_UP = false) by (apply Z.eqb_neq; rewrite Hdir, (cf_down CF), (cf_up CF); lia).
    rewrite Hn. replace (dir s =? RELAY_DOWN) with true by (symmetry; apply Z.eqb_eq; exact Hdir).
    rewrite (u32_small (down_time s + dt)) by lia.
    unfold calibrate. rewrite K. cbn [negb andb].
    cbn [pos tilt up_time down_time last_time now]. unfold synced. cbn [last_time now]. repeat split; auto.
Qed.

(* type 3 moving down: the position runs first, the slats turn once the blind is closed; otherwise tilt first *)
Definition tilt_second (c : cfg) (up : bool) : bool := (tilt_type c =? TILT_ONLY_CLOSED) && negb up.

Definition fb_inv (c : cfg) (boot : Z) (up : bool) (Tt Tp tau R0t R0p : Z) (s : st) (e k : Z) : Prop :=
  synced boot s /\ known (pos s) = true /\ known (tilt s) = true /\ consistent3 c (pos s) (tilt s) /\
  let rt := remaining up (tilt s) in let rp := remaining up (pos s) in let cy := carry_of up s in
  0 <= cy <= e /\ 0 <= rt <= R0t /\ 0 <= rp <= R0p /\
  10000 * (e - cy) <= (R0t - rt) * Tt + (R0p - rp) * Tp /\
  (R0t - rt) * Tt + (R0p - rp) * Tp <= 10000 * (e - cy) + 20000 * k /\
  (* physical order *)
  (if tilt_second c up then rt < R0t -> rp = 0 else rp < R0p -> rt = 0) /\
  (* the carry is below one unit of the quantity being moved, plus one interval right after the hand-over *)
  (0 < tilt_pending c (pos s) (tilt s) up -> 10000 * cy < Z.max Tt Tp + 10000 + (if tilt_second c up then 10000 * tau else 0)) /\
  (tilt_pending c (pos s) (tilt s) up = 0 -> 0 < rp -> 10000 * cy < Z.max Tt Tp + 10000 + (if tilt_second c up then 0 else 10000 * tau)).

Lemma fb_step c boot up tau R0t R0p s e k dt :
  keeps_position c = true -> tilt_supported c = true ->
  let Tt := tilt_ms c * 1000 in let Tp := full_of c up * 1000 - Tt in
  20000 <= Tt -> 20000 <= Tp -> full_of c up * 1000 < 4294967296 -> 0 <= k -> 0 <= dt <= tau -> Tt <= 10000 * dt -> e + dt < 4294967296 ->
  dir s = dir_of up ->
  fb_inv c boot up Tt Tp tau R0t R0p s e k ->
  fb_inv c boot up Tt Tp tau R0t R0p (timer_cb o c boot s dt) (e + dt) (k + 1).
Proof.
  intros Hk Hs Tt Tp HTt HTp Hfull Hk0 Hdt Hunit He Hdir (Sy & Kp & Kt & Cs & I). cbv zeta in I.
  destruct I as (Ic & Irt & Irp & I1 & I2 & Io & Jt & Jp).
  pose proof (timer_cb_fb13 c boot s dt up Sy ltac:(lia) Hdir Kp ltac:(lia) ltac:(lia)) as TC. cbv zeta in TC.
  destruct TC as (P1 & P2 & P3 & P4 & _).
  pose proof (move_position_fb13 c (pos s) (tilt s) (carry_of up s + dt) (full_of c up) up Hk Hs Kp Kt Cs ltac:(fold Tt; lia) ltac:(fold Tt Tp; lia) Hfull
                ltac:(lia) ltac:(fold Tt; lia)) as M.
  cbv zeta in M. fold Tt Tp in M. rewrite <- P1, <- P2, <- P3 in M.
  destruct M as (Kp' & Kt' & Cs' & Mrt & Mrp & Mc & MT & MP).
  set (s' := timer_cb o c boot s dt) in *.
  set (rt := remaining up (tilt s)) in *. set (rt' := remaining up (tilt s')) in *.
  set (rp := remaining up (pos s)) in *. set (rp' := remaining up (pos s')) in *.
  set (cy := carry_of up s) in *. set (cy' := carry_of up s') in *.
  assert (HM1 : Tt <= Z.max Tt Tp) by apply Z.le_max_l. assert (HM2 : Tp <= Z.max Tt Tp) by apply Z.le_max_r.
  unfold fb_inv. split; [exact P4|]. split; [exact Kp'|]. split; [exact Kt'|]. split; [exact Cs'|]. cbv zeta.
  fold s' rt' rp' cy'.
  (* the new phase, expressed on the new state *)
  assert (Hpend' : tilt_pending c (pos s') (tilt s') up = if fixed3 c (pos s') then 0 else rt') by reflexivity.
  destruct (Z_lt_le_dec 0 (tilt_pending c (pos s) (tilt s) up)) as [Hpd|Hpd].
  - (* tilt phase *)
    destruct (MT Hpd) as (Erp & (A5 & A6) & A7). specialize (Jt Hpd).
    assert (Efx : fixed3 c (pos s) = false) by (unfold tilt_pending in Hpd; destruct (fixed3 c (pos s)); [lia|reflexivity]).
    assert (Epos : pos s' = pos s) by (unfold rp', rp, remaining in Erp; destruct up; lia).
    assert (Hrtpos : 0 < rt) by (unfold tilt_pending in Hpd; rewrite Efx in Hpd; exact Hpd).
    split; [lia|]. split; [lia|]. split; [lia|].
    split; [rewrite Erp; lia|]. split; [rewrite Erp; lia|].
    split.
    { destruct (tilt_second c up) eqn:Ets.
      - intros _. rewrite Erp.
        (* type 3 going down, tilting: the blind is closed *)
        unfold tilt_second in Ets. apply andb_true_iff in Ets. destruct Ets as [E3 Eup]. apply Z.eqb_eq in E3. apply negb_true_iff in Eup. subst up.
        unfold fixed3 in Efx. rewrite E3, Z.eqb_refl in Efx. cbn [andb] in Efx. apply Z.ltb_ge in Efx. apply known_true in Kp.
        unfold rp, remaining. lia.
      - intros Hlt. rewrite Erp in Hlt. specialize (Io Hlt). lia. }
    rewrite Hpend', Epos, Efx.
    split.
    + intros Hrt'. specialize (A7 Hrt'). destruct (tilt_second c up); lia.
    + intros Hrt' Hrp'. assert (rt' = 0) by lia.
      destruct (tilt_second c up) eqn:Ets; [|lia].
      (* type 3 going down: the position is already at its end stop *)
      exfalso. unfold tilt_second in Ets. apply andb_true_iff in Ets. destruct Ets as [E3 Eup]. apply Z.eqb_eq in E3. apply negb_true_iff in Eup. subst up.
      unfold fixed3 in Efx. rewrite E3, Z.eqb_refl in Efx. cbn [andb] in Efx. apply Z.ltb_ge in Efx. apply known_true in Kp.
      rewrite Erp in Hrp'. unfold rp, remaining in Hrp'. lia.
  - (* position phase *)
    assert (Hpd0 : tilt_pending c (pos s) (tilt s) up = 0).
    { unfold tilt_pending in *. destruct (fixed3 c (pos s)); [reflexivity|]. fold rt in Hpd |- *. lia. }
    destruct (MP Hpd0) as (Etl & (A5 & A6) & A7). specialize (A7 HTp).
    assert (Ert : rt' = rt) by (unfold rt', rt; rewrite Etl; reflexivity).
    split; [lia|]. split; [lia|]. split; [lia|].
    split; [rewrite Ert; lia|]. split; [rewrite Ert; lia|].
    split.
    { destruct (tilt_second c up) eqn:Ets.
      - intros Hlt. rewrite Ert in Hlt. specialize (Io Hlt). lia.
      - intros Hlt. rewrite Ert.
        unfold tilt_pending in Hpd0. destruct (fixed3 c (pos s)) eqn:Efx; [|fold rt in Hpd0; exact Hpd0].
        (* type 3 going up below the closed position: the slats are open *)
        unfold fixed3 in Efx. apply andb_true_iff in Efx. destruct Efx as [E3 Elt]. apply Z.eqb_eq in E3. apply Z.ltb_lt in Elt.
        unfold tilt_second in Ets. rewrite E3, Z.eqb_refl in Ets. cbn [andb] in Ets. apply negb_false_iff in Ets. subst up.
        unfold rt, remaining. rewrite (Cs E3 Elt). reflexivity. }
    rewrite Hpend'.
    split.
    + intros Hnew. destruct (fixed3 c (pos s')) eqn:Efx'; [lia|].
      (* position -> tilt hand-over: only type 3 going down, at the closed position *)
      rewrite Ert in Hnew.
      assert (Efx : fixed3 c (pos s) = true).
      { unfold tilt_pending in Hpd0. destruct (fixed3 c (pos s)); [reflexivity|]. fold rt in Hpd0. lia. }
      unfold fixed3 in Efx, Efx'. apply andb_true_iff in Efx. destruct Efx as [E3 Elt]. rewrite E3 in Efx'. cbn [andb] in Efx'.
      apply Z.ltb_lt in Elt. apply Z.ltb_ge in Efx'. apply Z.eqb_eq in E3.
      assert (Eup : up = false).
      { destruct up; [|reflexivity]. exfalso. unfold rp', rp, remaining in Mrp. lia. }
      assert (Ets : tilt_second c up = true) by (unfold tilt_second; rewrite E3, Z.eqb_refl, Eup; reflexivity).
      rewrite Ets in *.
      assert (Hrp : 0 < rp) by (unfold rp, remaining; rewrite Eup; lia).
      specialize (Jp Hpd0 Hrp). lia.
    + intros _ Hrp'. specialize (A7 Hrp'). destruct (tilt_second c up); lia.
Qed.

Lemma fb_run c boot up tau R0t R0p ds : forall s e k,
  keeps_position c = true -> tilt_supported c = true ->
  let Tt := tilt_ms c * 1000 in let Tp := full_of c up * 1000 - Tt in
  20000 <= Tt -> 20000 <= Tp -> full_of c up * 1000 < 4294967296 -> 0 <= k ->
  Forall (fun d => 0 <= d <= tau /\ Tt <= 10000 * d) ds -> e + sumz ds < 4294967296 ->
  motor_on o c boot up s ds ->
  fb_inv c boot up Tt Tp tau R0t R0p s e k ->
  fb_inv c boot up Tt Tp tau R0t R0p (run_cbs o c boot s ds) (e + sumz ds) (k + Z.of_nat (length ds)).
Proof.
  induction ds as [|d r IH]; intros s e k Hk Hs Tt Tp HTt HTp Hfull Hk0 Hd He Hon I.
  - cbn [run_cbs sumz fold_right length Z.of_nat]. replace (e + 0) with e by lia. replace (k + 0) with k by lia. exact I.
  - cbn [run_cbs]. inversion Hd as [|? ? Hd0 Hdr]; subst. destruct Hon as [Hdir Hon].
    assert (Hsm : sumz (d :: r) = d + sumz r) by reflexivity.
    assert (Hsr : 0 <= sumz r).
    { clear -Hdr. induction Hdr as [|x l Hx _ IHl]; cbn [sumz fold_right]; [lia|]. unfold sumz in IHl. lia. }
    rewrite Hsm in *.
    replace (e + (d + sumz r)) with ((e + d) + sumz r) by lia.
    replace (k + Z.of_nat (length (d :: r))) with ((k + 1) + Z.of_nat (length r)) by (cbn [length]; lia).
    apply IH; auto; try lia.
    apply fb_step; auto; lia.
Qed.

(* Accounting for facade blinds of types 1 and 3 (the tilt time is taken out of the travel time: Tp = full - Tt), outside the
   two listed deviation classes: every interval is at least one tilt unit (Tt <= 10000 dt: excludes the starved-tilt class)
   and at most tau (the hand-over lag below is one interval: inside the tolerance of the property for tau <= 30 ms).
   After callbacks ds (sum t) with the output of direction `up` energised, from known position and tilt and a carry cy0 below
   one unit:  10000 (t + cy0 - carry) <= moved_tilt * Tt + moved_pos * Tp <= 10000 (t + cy0 - carry) + 20000 n  — no time is
   lost or counted twice; tilt and position move in their physical order (tilt first; type 3 going down: position first,
   slats turn at the closed position); the carry stays below one unit of the moving quantity (+ one interval right after the
   hand-over between the two). *)
Theorem C09_accounting_fb13_thm c boot up tau s ds :
  keeps_position c = true -> tilt_supported c = true ->
  let Tt := tilt_ms c * 1000 in let Tp := full_of c up * 1000 - Tt in
  20000 <= Tt -> 20000 <= Tp -> full_of c up * 1000 < 4294967296 -> 0 <= tau ->
  synced boot s -> known (pos s) = true -> known (tilt s) = true -> consistent3 c (pos s) (tilt s) ->
  0 <= carry_of up s -> 10000 * carry_of up s < Z.max Tt Tp + 10000 ->
  Forall (fun d => 0 <= d <= tau /\ Tt <= 10000 * d) ds -> carry_of up s + sumz ds < 4294967296 ->
  motor_on o c boot up s ds ->
  let s' := run_cbs o c boot s ds in
  let e := carry_of up s + sumz ds in
  let n := Z.of_nat (length ds) in
  let mt := remaining up (tilt s) - remaining up (tilt s') in
  let mp := remaining up (pos s) - remaining up (pos s') in
  known (pos s') = true /\ known (tilt s') = true /\ consistent3 c (pos s') (tilt s') /\
  0 <= mt /\ 0 <= mp /\ 0 <= remaining up (tilt s') /\ 0 <= remaining up (pos s') /\ 0 <= carry_of up s' <= e /\
  10000 * (e - carry_of up s') <= mt * Tt + mp * Tp <= 10000 * (e - carry_of up s') + 20000 * n /\
  (if tilt_second c up then 0 < mt -> remaining up (pos s') = 0 else 0 < mp -> remaining up (tilt s') = 0) /\
  (0 < remaining up (tilt s') \/ 0 < remaining up (pos s') -> 10000 * carry_of up s' < Z.max Tt Tp + 10000 + 10000 * tau).
Proof.
  intros Hk Hs Tt Tp HTt HTp Hfull Htau Sy Kp Kt Cs Hc Hc2 Hd He Hon. cbv zeta.
  pose proof Kp as Kp1. apply known_true in Kp1. pose proof Kt as Kt1. apply known_true in Kt1.
  assert (I0 : fb_inv c boot up Tt Tp tau (remaining up (tilt s)) (remaining up (pos s)) s (carry_of up s) 0).
  { unfold fb_inv. split; [exact Sy|]. split; [exact Kp|]. split; [exact Kt|]. split; [exact Cs|]. cbv zeta.
    assert (0 <= remaining up (pos s)) by (unfold remaining; destruct up; lia).
    assert (0 <= remaining up (tilt s)) by (unfold remaining; destruct up; lia).
    split; [lia|]. split; [lia|]. split; [lia|]. split; [lia|]. split; [lia|].
    split; [destruct (tilt_second c up); lia|].
    split; [intros _|intros _ _]; destruct (tilt_second c up); lia. }
  pose proof (fb_run c boot up tau _ _ ds s (carry_of up s) 0 Hk Hs HTt HTp Hfull ltac:(lia) Hd He Hon I0) as (S' & Kp' & Kt' & Cs' & I).
  cbv zeta in I. destruct I as (Ic & Irt & Irp & I1 & I2 & Io & Jt & Jp).
  replace (0 + Z.of_nat (length ds)) with (Z.of_nat (length ds)) in * by lia.
  split; [exact Kp'|]. split; [exact Kt'|]. split; [exact Cs'|].
  split; [lia|]. split; [lia|]. split; [lia|]. split; [lia|]. split; [lia|]. split; [lia|].
  split; [destruct (tilt_second c up); intros; [apply Io|apply Io]; lia|].
  intros Hrem.
  destruct (Z_lt_le_dec 0 (tilt_pending c (pos (run_cbs o c boot s ds)) (tilt (run_cbs o c boot s ds)) up)) as [Hp|Hp].
  - specialize (Jt Hp). destruct (tilt_second c up); lia.
  - assert (Hp0 : tilt_pending c (pos (run_cbs o c boot s ds)) (tilt (run_cbs o c boot s ds)) up = 0).
    { unfold tilt_pending in *. destruct (fixed3 c (pos (run_cbs o c boot s ds))); [reflexivity|lia]. }
    destruct (Z_lt_le_dec 0 (remaining up (pos (run_cbs o c boot s ds)))) as [Hrp|Hrp].
    + specialize (Jp Hp0 Hrp). destruct (tilt_second c up); lia.
    + (* position done and no tilt pending although some tilt remains: type 3 below the closed position, impossible here *)
      exfalso. assert (Hrp0 : remaining up (pos (run_cbs o c boot s ds)) = 0) by lia.
      destruct Hrem as [Hrt|Hrp']; [|lia].
      unfold tilt_pending in Hp0. destruct (fixed3 c (pos (run_cbs o c boot s ds))) eqn:Efx; [|lia].
      unfold fixed3 in Efx. apply andb_true_iff in Efx. destruct Efx as [E3 Elt]. apply Z.eqb_eq in E3. apply Z.ltb_lt in Elt.
      rewrite (Cs' E3 Elt) in Hrt. apply known_true in Kp'. unfold remaining in *. destruct up; lia.
Qed.

End Fb13.
