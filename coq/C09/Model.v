(* C09 — executable model of the roller-shutter / facade-blind position accounting:
   supla_esp_gpio_rs_move_position, supla_esp_gpio_rs_calibrate,
   supla_esp_gpio_rs_get_current_position / _tilt and the accounting part of
   supla_esp_gpio_rs_timer_cb (incl. the end-stop time margin and the 10-minute rule)
   of src/user/supla_esp_rs_fb.c, for a shutter without auto-calibration and without a task.
   The C `double` sub-expressions are computed with Coq primitive floats (IEEE binary64), through a
   record `fpops` of five functions, so that the proofs can be done for every `fpops` that meets
   the relational facts FP* (Proofs.v) and the harness runs the bit-exact instance `fops`.
   Definitions only. *)
From Coq Require Import List ZArith Bool Floats.
Import ListNotations.
From V Require Import Base.U32 Base.Iface Gen.RsConsts.
Local Open Scope Z_scope.

(* ---------- C conversions between integers and double ---------- *)
(* (double)z for an int / unsigned int value (|z| < 2^63: exact below 2^53) *)
Definition Z2f (z : Z) : float :=
  if z <? 0 then PrimFloat.opp (PrimFloat.of_uint63 (Uint63.of_Z (- z)))
  else PrimFloat.of_uint63 (Uint63.of_Z z).
(* truncation toward zero of a finite double; 0 for infinities and NaN (undefined behaviour in C) *)
Definition f2Z (f : float) : Z :=
  match Prim2SF f with
  | S754_finite s m e => let a := Z.shiftl (Zpos m) e in if s then - a else a
  | _ => 0
  end.
Definition f_one : float := 1%float.
Definition f_100 : float := 100%float.
Definition f_10000 : float := 10000%float.
Definition f_1_1 : float := 0x1.199999999999ap+0%float.       (* the double nearest to 1.1 *)

(* the five floating-point sub-expressions of the module *)
Record fpops := {
  fp_rem : Z -> Z -> Z;      (* r T  |-> (unsigned)((1.0 * r / 10000.0) * T)          remaining time *)
  fp_dot : Z -> Z -> Z;      (* t T  |-> (int)(10000.0 * t / T)                       delta of time  *)
  fp_tod : Z -> Z -> Z;      (* d T  |-> (unsigned)((1.0 * d) * T / 10000.0)          time of delta  *)
  fp_margin : Z -> Z -> Z;   (* F m  |-> (int)(F * (1.0 * m / 100.0))                 end-stop margin in ms *)
  fp_cal : Z -> Z            (* F    |-> (unsigned)(F * 1.1)                          calibration time in ms *)
}.
Definition fops : fpops := {|
  fp_rem := fun r T => u32 (f2Z (PrimFloat.mul (PrimFloat.div (PrimFloat.mul f_one (Z2f r)) f_10000) (Z2f T)));
  fp_dot := fun t T => f2Z (PrimFloat.div (PrimFloat.mul f_10000 (Z2f t)) (Z2f T));
  fp_tod := fun d T => u32 (f2Z (PrimFloat.div (PrimFloat.mul (PrimFloat.mul f_one (Z2f d)) (Z2f T)) f_10000));
  fp_margin := fun F m => f2Z (PrimFloat.mul (Z2f F) (PrimFloat.div (PrimFloat.mul f_one (Z2f m)) f_100));
  fp_cal := fun F => u32 (f2Z (PrimFloat.mul (Z2f F) f_1_1))
|}.

(* ---------- configuration (supla_esp_cfg.Time1/2/3, TiltControlType, rs_cfg->rs_time_margin) ---------- *)
Record cfg := { full_open : Z;      (* full_opening_time, ms *)
                full_close : Z;     (* full_closing_time, ms *)
                tilt_ms : Z;        (* tilt_change_time, ms *)
                tilt_type : Z;      (* FB_TILT_TYPE_*, 0 = roller shutter *)
                margin : Z }.       (* rs_time_margin, % of the full time (110 = default) *)

Definition tilt_supported (c : cfg) : bool := negb ((tilt_ms c =? 0) || (tilt_type c =? 0)).
Definition known (p : Z) : bool := (100 <=? p) && (p <=? 10100).

(* supla_esp_gpio_rs_get_current_position / _tilt: the values put on the wire *)
Definition current_position (p : Z) : Z := if known p then (p - 100 + 50) / 100 else -1.
Definition current_tilt (c : cfg) (t : Z) : Z :=
  if negb (tilt_supported c) then -1 else if known t then (t - 100 + 50) / 100 else 0.

(* supla_esp_gpio_rs_calibrate *)
Definition calibrate (o : fpops) (c : cfg) (pos tilt full_time time p : Z) : Z * Z :=
  if negb (known pos) && (0 <? full_time) then
    if fp_cal o full_time <=? time / 1000 then (p, if tilt_supported c then p else 0) else (0, 0)
  else (pos, tilt).

(* result of supla_esp_gpio_rs_move_position: new position, tilt, carry and "switch the motor off" *)
Record mp := { m_pos : Z; m_tilt : Z; m_time : Z; m_off : bool }.

Definition keeps_position (c : cfg) : bool :=
  (tilt_type c =? TILT_KEEP_POSITION) || (tilt_type c =? TILT_ONLY_CLOSED).

(* one "adjust ... change" block of move_position: x = tilt or position, rt = remaining time of that
   quantity, Tq = its full time; returns the new value and the time the change stands for (time_delta) *)
Definition adjust (o : fpops) (up : bool) (x rt time Tq : Z) : Z * Z :=
  if 0 <? rt then
    if rt <=? time then ((if up then 100 else 10100), fp_tod o (if up then x - 100 else 10100 - x) Tq)
    else let d := fp_dot o time Tq in ((if up then x - d else x + d), fp_tod o d Tq)
  else (x, 0).

Definition move_position (o : fpops) (c : cfg) (pos tilt time full_ms : Z) (up : bool) : mp :=
  if negb (known pos) || (full_ms =? 0) then {| m_pos := pos; m_tilt := tilt; m_time := time; m_off := false |} else
  let tilt1 := if tilt_supported c && negb (known tilt) then 100 else tilt in
  let full_time := u32 (full_ms * 1000) in
  let full_tilting := u32 (tilt_ms c * 1000) in
  let full_pos := if keeps_position c then u32 (full_time - full_tilting) else full_time in
  let rem_tilt := u32 (if up then tilt1 - 100 else 10100 - tilt1) in
  let rtt0 := fp_rem o rem_tilt full_tilting in
  let rem_pos := u32 (if up then pos - 100 else 10100 - pos) in
  let rpt0 := fp_rem o rem_pos full_pos in
  let fixed := (tilt_type c =? TILT_ONLY_CLOSED) && (pos <? 10100) in
  let rtt := if fixed then 0 else rtt0 in
  let tilt2 := if fixed then 100 else tilt1 in
  (* adjust tilt change *)
  let a1 := adjust o up tilt2 rtt time full_tilting in
  let tilt3 := fst a1 in
  let td1 := snd a1 in
  (* skip position change when position change is not happening during tilting *)
  let rpt := if (0 <? td1) && keeps_position c then 0 else rpt0 in
  (* adjust position change *)
  let a2 := adjust o up pos rpt time full_pos in
  let pos3 := fst a2 in
  let td2 := if 0 <? rpt then snd a2 else td1 in
  (* carry *)
  let time' := if time <? td2 then 0 else time - td2 in
  (* end stops with the time margin *)
  let parked := (tilt3 =? 0) || (tilt3 =? -1) in
  let at_end := ((pos3 =? 100) && up && (parked || (tilt3 =? 100)))
             || ((pos3 =? 10100) && negb up && (parked || (tilt3 =? 10100))) in
  let off := at_end && (u32 (fp_margin o full_ms (margin c)) <=? time' / 1000) in
  {| m_pos := pos3; m_tilt := tilt3; m_time := time'; m_off := off |}.

(* ---------- the timer callback on a shutter without auto-calibration and without task ---------- *)
Record st := { pos : Z; tilt : Z;          (* *rs_cfg->position, *rs_cfg->tilt *)
               up_time : Z; down_time : Z; (* carry, microseconds *)
               dir : Z;                    (* RS_RELAY_OFF / _DOWN / _UP: which output is energised *)
               last_time : Z; last_comm : Z;
               now : Z }.                  (* true time since boot, microseconds *)

Definition TEN_MINUTES_US : Z := 600 * 1000 * 1000.
Definition REPORT_PERIOD_US : Z := 200000.

Definition timer_cb (o : fpops) (c : cfg) (boot : Z) (s : st) (dt : Z) : st :=
  let now' := now s + dt in
  let t := u32 (boot + now') in
  let el := u32 (t - last_time s) in
  let s1 :=
    if dir s =? RELAY_UP then
      let ut := u32 (up_time s + el) in
      let '(p1, t1) := calibrate o c (pos s) (tilt s) (full_open c) ut 100 in
      let m := move_position o c p1 t1 ut (full_open c) true in
      {| pos := m_pos m; tilt := m_tilt m; up_time := m_time m; down_time := 0;
         dir := if m_off m then RELAY_OFF else dir s;
         last_time := last_time s; last_comm := last_comm s; now := now' |}
    else if dir s =? RELAY_DOWN then
      let dt_ := u32 (down_time s + el) in
      let '(p1, t1) := calibrate o c (pos s) (tilt s) (full_close c) dt_ 10100 in
      let m := move_position o c p1 t1 dt_ (full_close c) false in
      {| pos := m_pos m; tilt := m_tilt m; up_time := 0; down_time := m_time m;
         dir := if m_off m then RELAY_OFF else dir s;
         last_time := last_time s; last_comm := last_comm s; now := now' |}
    else
      {| pos := pos s; tilt := tilt s; up_time := 0; down_time := 0; dir := dir s;
         last_time := last_time s; last_comm := last_comm s; now := now' |} in
  let due := REPORT_PERIOD_US <=? u32 (t - last_comm s1) in
  let too_long := (TEN_MINUTES_US <? up_time s1) || (TEN_MINUTES_US <? down_time s1) in
  {| pos := pos s1; tilt := tilt s1; up_time := up_time s1; down_time := down_time s1;
     dir := if due && too_long then RELAY_OFF else dir s1;
     last_time := t; last_comm := if due then t else last_comm s1; now := now' |}.

(* ---------- events ---------- *)
Inductive ev :=
| SetDir (d : Z)            (* the outputs are switched (by whatever): 0 off, 1 down, 2 up *)
| Poke (p t : Z)            (* position / tilt overwritten (state loaded from flash, configuration change) *)
| Cb (dt : Z).              (* the timer callback runs dt microseconds after the previous one *)

Definition step (o : fpops) (c : cfg) (boot : Z) (s : st) (e : ev) : st :=
  match e with
  | SetDir d => {| pos := pos s; tilt := tilt s; up_time := up_time s; down_time := down_time s; dir := d;
                   last_time := last_time s; last_comm := last_comm s; now := now s |}
  | Poke p t => {| pos := p; tilt := t; up_time := up_time s; down_time := down_time s; dir := dir s;
                   last_time := last_time s; last_comm := last_comm s; now := now s |}
  | Cb dt => timer_cb o c boot s dt
  end.

Fixpoint run (o : fpops) (c : cfg) (boot : Z) (s : st) (evs : list ev) : st :=
  match evs with
  | [] => s
  | e :: r => run o c boot (step o c boot s e) r
  end.

(* supla_esp_gpio_rs_set_time_margin *)
Definition set_time_margin (v : Z) : Z := if (0 <=? v) && (v <=? 100) then v else 110.

(* state after supla_esp_gpio_init: tilt is forced to -1 when tilting is not supported *)
Definition init (c : cfg) (p0 t0 now0 : Z) : st :=
  {| pos := p0; tilt := if tilt_supported c then t0 else -1; up_time := 0; down_time := 0; dir := RELAY_OFF;
     last_time := 0; last_comm := 0; now := now0 |}.

(* ---------- specification side: the ideal estimate ---------- *)
(* raw position (0..10000) after running `t` microseconds from raw position `p` when the full
   travel takes T microseconds; down = towards 10000 *)
Definition clamp (x : Z) : Z := if x <? 0 then 0 else if 10000 <? x then 10000 else x.
Definition ideal (p t T : Z) (up : bool) : Z :=
  if up then clamp (p - 10000 * t / T) else clamp (p + 10000 * t / T).

(* ---------- the value reported to the server (200 ms block of the callback) ---------- *)
(* rs_cfg->flags and the last reported triple; kept apart from `st` because the accounting does not depend on them *)
Record rp := { flags : Z; last_pos : Z; last_tilt : Z; last_flags : Z }.
Definition rp0 : rp := {| flags := 0; last_pos := 0; last_tilt := 0; last_flags := 0 |}.
Definition set_flag (f b : Z) : Z := Z.lor f b.
Definition clear_flag (f b : Z) : Z := Z.land f (65535 - b).
Definition is_tilt_set (c : cfg) (t : Z) : bool := negb (negb (known t) && tilt_supported c).
Definition s8_byte (v : Z) : Z := v mod 256.

Definition cb_due (boot : Z) (s : st) (dt : Z) : bool :=
  REPORT_PERIOD_US <=? u32 (u32 (boot + (now s + dt)) - last_comm s).

(* s = state before the callback, s' = timer_cb ... s dt; returns the new report state and the 8 value bytes
   handed to supla_esp_channel_value__changed, if any *)
Definition rep_step (c : cfg) (boot : Z) (s s' : st) (dt : Z) (r : rp) : rp * option (list Z) :=
  let f0 := clear_flag (flags r) FLAG_CALIBRATION_IN_PROGRESS in
  let f1 :=
    if (dir s =? RELAY_UP) || (dir s =? RELAY_DOWN) then
      let full := if dir s =? RELAY_UP then full_open c else full_close c in
      if negb (known (pos s)) && (0 <? full)
      then clear_flag (set_flag f0 FLAG_CALIBRATION_IN_PROGRESS) FLAG_TILT_IS_SET else f0
    else f0 in
  if cb_due boot s dt && (negb (last_pos r =? pos s') || negb (last_flags r =? f1) || negb (last_tilt r =? tilt s')) then
    let f2 := if tilt_type c =? TILT_NOT_SUPPORTED then clear_flag f1 FLAG_TILT_IS_SET
              else if is_tilt_set c (tilt s') then set_flag f1 FLAG_TILT_IS_SET else clear_flag f1 FLAG_TILT_IS_SET in
    let b1 := if tilt_type c =? TILT_NOT_SUPPORTED then 0 else s8_byte (current_tilt c (tilt s')) in
    ({| flags := f2; last_pos := pos s'; last_tilt := tilt s'; last_flags := f1 |},
     Some [s8_byte (current_position (pos s')); b1; 0; f2 mod 256; f2 / 256; 0; 0; 0])
  else ({| flags := f1; last_pos := last_pos r; last_tilt := last_tilt r; last_flags := last_flags r |}, None).

(* ---------- wire interface ---------- *)
(* inputs : 0 CFG boot full_open full_close tilt_ms tilt_type margin pos0 tilt0 now0 | 1 SET d | 2 CB dt | 3 POKE p t
   outputs: 1 REPORT : <8 value bytes>                                               (when the callback reports)
            0 ST pos tilt up_time down_time dir reported_position reported_tilt      (after every CB) *)
Definition nth0 (l : list Z) (i : nat) : Z := nth i l 0.

Fixpoint run_wire_from (o : fpops) (c : cfg) (boot : Z) (s : st) (r : rp) (ws : list wire) : list wire :=
  match ws with
  | [] => []
  | (k, a, _) :: rest =>
    if k =? 0 then
      let c' := {| full_open := nth0 a 1; full_close := nth0 a 2; tilt_ms := nth0 a 3; tilt_type := nth0 a 4; margin := set_time_margin (nth0 a 5) |} in
      run_wire_from o c' (nth0 a 0) (init c' (nth0 a 6) (nth0 a 7) (nth0 a 8)) rp0 rest
    else if k =? 1 then run_wire_from o c boot (step o c boot s (SetDir (nth0 a 0))) r rest
    else if k =? 3 then run_wire_from o c boot (step o c boot s (Poke (nth0 a 0) (nth0 a 1))) r rest
    (* 4 RESEND ph: the command for the direction that is already energised is sent again between two callbacks (the real
       supla_esp_gpio_relay_hi runs): nothing of this state may change, in particular not last_time *)
    else if k =? 4 then run_wire_from o c boot s r rest
    else
      let s' := step o c boot s (Cb (nth0 a 0)) in
      let '(r', rep) := rep_step c boot s s' (nth0 a 0) r in
      let st_line := mk 0 [pos s'; tilt s'; up_time s'; down_time s'; dir s'; current_position (pos s'); current_tilt c (tilt s')] [] in
      match rep with
      | Some b => mk 1 [] b :: st_line :: run_wire_from o c boot s' r' rest
      | None => st_line :: run_wire_from o c boot s' r' rest
      end
  end.

Definition cfg0 : cfg := {| full_open := 0; full_close := 0; tilt_ms := 0; tilt_type := 0; margin := 110 |}.
Definition main_wire (ws : list wire) : list wire := run_wire_from fops cfg0 1 (init cfg0 0 0 0) rp0 ws.
