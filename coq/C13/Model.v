(* C13 — executable model of the persistent configuration / state of the device:
     supla_esp_cfg_save, _supla_esp_save_state / supla_esp_save_state, factory_defaults,
     supla_esp_cfg_init (acceptance test, v5A/v5B -> v6 -> v7 migrations, identity generation)
     of src/user/supla_esp_cfg.c and the save-then-commit block of supla_esp_recv_callback
     (src/user/supla_esp_cfgmode.c), on a byte-accurate model of the two flash sectors.
   Records are byte images (list Z) of the generated sizes; fields are slices at generated offsets.
   A byte is 0..255 or UNDEF (-1): an indeterminate byte (uninitialised stack memory that the 6->7
   migration copies into the record).  Definitions only; proofs are in Proofs.v. *)
From Coq Require Import List ZArith Bool.
Import ListNotations.
From V Require Import Base.Bytes Base.Iface Gen.C13Layout.
Local Open Scope Z_scope.

Definition UNDEF : Z := -1.
Definition fill (n b : Z) : list Z := repeat b (Z.to_nat n).
Definition slice {A} (l : list A) (off n : Z) : list A := take n (drop off l).
(* memcpy(dst + doff, v, len v) *)
Definition blit {A} (dst : list A) (doff : Z) (v : list A) : list A := take doff dst ++ v ++ drop (doff + len v) dst.
Definition zseq (s n : Z) : list Z := map Z.of_nat (seq (Z.to_nat s) (Z.to_nat n)).
(* image of exactly n bytes out of an arbitrary byte string (rest padded with b) *)
Definition fit (n b : Z) (l : list Z) : list Z := take n (l ++ fill n b).

(* ---------- copy programs: the field-by-field copies of factory_defaults and of the migrations ----------
   Copy d v s n : memcpy(dst + d, var_v + s, n)      (var 0 = the record read from flash, 1 = new GUID, 2 = new AuthKey)
   Put d bytes  : constant bytes at dst + d (memset, assignments of constants) *)
Inductive instr := Copy (d v s n : Z) | Put (d : Z) (bytes : list Z).
Definition step (vars : Z -> list Z) (dst : list Z) (i : instr) : list Z :=
  match i with
  | Copy d v s n => blit dst d (slice (vars v) s n)
  | Put d b => blit dst d b
  end.
Definition exec (vars : Z -> list Z) (p : list instr) (dst : list Z) : list Z := fold_left (step vars) p dst.
Definition var1 (c : list Z) : Z -> list Z := fun _ => c.
Definition var3 (c g k : list Z) : Z -> list Z := fun v => if v =? 0 then c else if v =? 1 then g else k.

Definition TAG5 : list Z := take 5 TAG7.            (* "SUPLA" *)

(* factory_defaults(): memset 0, keep GUID, AuthKey, TAG, Test, set the default values
   (DEFAULTS_IMG = what the real function produces from an all-zero record) *)
Definition prog_fd : list instr :=
  [ Copy O7_GUID 0 O7_GUID GUID_SIZE; Copy O7_AUTHKEY 0 O7_AUTHKEY AUTHKEY_SIZE;
    Copy O7_TAG 0 O7_TAG TAG_SIZE; Copy O7_TEST 0 O7_TEST 1 ].
Definition fd (c : list Z) : list Z := exec (var1 c) prog_fd DEFAULTS_IMG.

(* the tail of supla_esp_cfg_init() when the record is not accepted:
   factory_defaults(0); Test = 0; TAG = "SUPLA\7"; GUID and AuthKey from the generator *)
Definition prog_fresh : list instr :=
  prog_fd ++ [ Put O7_TEST [0]; Put O7_TAG TAG7; Copy O7_GUID 1 0 GUID_SIZE; Copy O7_AUTHKEY 2 0 AUTHKEY_SIZE ].
Definition fresh_of (c g k : list Z) : list Z := exec (var3 c g k) prog_fresh DEFAULTS_IMG.

(* migration 5 -> 6 : new = 0; copies from the old record (oldB == oldA for the common fields) *)
Definition prog56_common : list instr :=
  [ Put O7_TAG (TAG5 ++ [6]);
    Copy O7_GUID 0 O5B_GUID GUID_SIZE; Copy O7_SERVER 0 O5B_SERVER SERVER_SIZE;
    Copy O7_LOCATIONID 0 O5B_LOCATIONID LOCID_SIZE; Copy O7_LOCATIONPWD 0 O5B_LOCATIONPWD LOCPWD_SIZE;
    Copy O7_WIFI_SSID 0 O5B_WIFI_SSID SSID_SIZE; Copy O7_WIFI_PWD 0 O5B_WIFI_PWD WPWD_SIZE;
    Copy O7_CFGBUTTONTYPE 0 O5B_CFGBUTTONTYPE 1; Copy O7_BUTTON1TYPE 0 O5B_BUTTON1TYPE 1; Copy O7_BUTTON2TYPE 0 O5B_BUTTON2TYPE 1;
    Copy O7_STATUSLEDOFF 0 O5B_STATUSLEDOFF 1; Copy O7_INPUTCFGTRIGGEROFF 0 O5B_INPUTCFGTRIGGEROFF 1;
    Copy O7_FIRMWAREUPDATE 0 O5B_FIRMWAREUPDATE 1; Copy O7_TEST 0 O5B_TEST 1 ].
Definition prog56_A : list instr :=
  [ Copy O7_AUTHKEY 0 O5A_AUTHKEY AUTHKEY_SIZE; Copy O7_EMAIL 0 O5A_EMAIL EMAIL_SIZE; Copy O7_UPSIDEDOWN 0 O5A_UPSIDEDOWN 1;
    Copy O7_TIME1 0 O5A_FULLOPENINGTIME (2 * INT_SIZE); Copy O7_TIME2 0 O5A_FULLCLOSINGTIME (2 * INT_SIZE); Put O7_TRIGGER [0] ].
Definition prog56_B : list instr :=
  [ Copy O7_AUTHKEY 0 O5B_AUTHKEY AUTHKEY_SIZE; Copy O7_EMAIL 0 O5B_EMAIL EMAIL_SIZE; Copy O7_UPSIDEDOWN 0 O5B_UPSIDEDOWN 1;
    Copy O7_TIME1 0 O5B_TIME1 (2 * INT_SIZE); Copy O7_TIME2 0 O5B_TIME2 (2 * INT_SIZE); Copy O7_TRIGGER 0 O5B_TRIGGER 1 ].
Definition prog56 (a : bool) : list instr := prog56_common ++ (if a then prog56_A else prog56_B).
Definition mig56 (a : bool) (c : list Z) : list Z := exec (var1 c) (prog56 a) (fill CFG_SIZE 0).

(* migration 6 -> 7 : `SuplaEspCfg new;` is NOT initialised; memcpy of sizeof(old_v6) bytes; fix-ups *)
Definition prog67 : list instr :=
  [ Copy 0 0 0 V6_SIZE; Put (O7_TAG + 5) [7];
    Put O7_TIME1 (fill TIME1_BYTES 0); Put O7_TIME2 (fill TIME2_BYTES 0);
    Copy O7_TIME1 0 O6_TIME1 (2 * INT_SIZE); Copy O7_TIME2 0 O6_TIME2 (2 * INT_SIZE); Copy O7_TRIGGER 0 O6_TRIGGER 1 ].
Definition mig67 (c : list Z) : list Z := exec (var1 c) prog67 (fill CFG_SIZE UNDEF).

(* strchr(p, ch) != NULL for p inside the record: Some true = found before a terminator,
   Some false = terminator first, None = neither inside the record (the C code reads on, out of the record) *)
Fixpoint strchr (l : list Z) (ch : Z) : option bool :=
  match l with
  | [] => None
  | b :: r => if b =? ch then Some true else if b =? 0 then Some false else strchr r ch
  end.
(* the 5A-or-5B decision of supla_esp_cfg_init (short-circuit evaluation as in C) *)
Definition isA (c : list Z) : option bool :=
  if list_eqb (slice c O5B_AUTHKEY AUTHKEY_SIZE) (fill AUTHKEY_SIZE 0) then Some true else
  match strchr (drop O5A_EMAIL c) 64 with None => None | Some false => Some false | Some true =>
  match strchr (drop O5A_EMAIL c) 46 with None => None | Some false => Some false | Some true =>
  match strchr (drop O5B_EMAIL c) 64 with None => None | Some false => Some true | Some true =>
  match strchr (drop O5B_EMAIL c) 46 with None => None | Some false => Some true | Some true => Some false
  end end end end.

(* the migration part of supla_esp_cfg_init on the record c read from flash:
   (record afterwards, migrated?)  — None: a strchr ran out of the record *)
Definition migrate (c : list Z) : option (list Z * bool) :=
  if negb (list_eqb (slice c 0 5) TAG5) then Some (c, false) else
  let r1 := if (nthz c 5 =? 5) && (V5B_SIZE <=? CFG_SIZE)
            then match isA c with None => None | Some a => Some (mig56 a c, true) end
            else Some (c, false) in
  match r1 with
  | None => None
  | Some (c1, m1) =>
      let '(c2, m2) := if (nthz c1 5 =? 6) && (V6_SIZE <=? CFG_SIZE) then (mig67 c1, true) else (c1, m1) in
      Some (if m2 then blit c2 O7_ZERO (fill ZERO7_SIZE 0) else c2, m2)
  end.

(* acceptance test: TAG == "SUPLA\7" && AuthKey != 0 && GUID != 0 *)
Definition accept (c : list Z) : bool :=
  list_eqb (slice c O7_TAG TAG_SIZE) TAG7
  && negb (list_eqb (slice c O7_AUTHKEY AUTHKEY_SIZE) (fill AUTHKEY_SIZE 0))
  && negb (list_eqb (slice c O7_GUID GUID_SIZE) (fill GUID_SIZE 0)).

(* ---------- identity generation (os_get_random + MAC / time mixing) ---------- *)
Record env := { eT : Z;               (* system_get_time()+spi_flash_get_id()+system_get_chip_id()+system_get_rtc_time() mod 2^32 *)
                emac1 : list Z;       (* station MAC *)
                emac2 : list Z }.     (* soft-AP MAC *)
(* value of a `char` holding byte b in an int expression *)
Definition sc (b : Z) : Z := if (CHAR_SIGNED =? 1) && (128 <=? b) then b - 256 else b.
Definition rnd_bytes (r0 n : Z) : list Z := map (fun i => (r0 + 1 + i) mod 256) (zseq 0 n).
Definition gen_guid (e : env) (g0 : list Z) : list Z :=
  map (fun a =>
         let g := nthz g0 a in
         let g1 := if a <? 6 then (Z.rem (sc g * sc (nthz (emac1 e) a)) 255) mod 256
                   else if a <? 12 then (Z.rem (sc g * sc (nthz (emac2 e) (a - 6))) 255) mod 256
                   else g in
         (((sc g1 + eT e) mod 4294967296) mod 255)) (zseq 0 GUID_SIZE).
Definition gen_key (g k0 : list Z) : list Z :=
  map (fun a => if (0 <? a) && (a <? Z.min GUID_SIZE AUTHKEY_SIZE) then (nthz k0 a + nthz g a) mod 256 else nthz k0 a)
      (zseq 0 AUTHKEY_SIZE).
Definition new_guid (e : env) (r0 : Z) : list Z := gen_guid e (rnd_bytes r0 GUID_SIZE).
Definition new_key (e : env) (r0 : Z) : list Z :=
  gen_key (new_guid e r0) (rnd_bytes (r0 + GUID_SIZE) AUTHKEY_SIZE).
(* specification of "defaults with a newly generated identity": nothing of the rejected record survives *)
Definition fresh_spec (g k : list Z) : list Z := blit (blit (blit DEFAULTS_IMG O7_TAG TAG7) O7_GUID g) O7_AUTHKEY k.
Definition fresh_img (e : env) (r0 : Z) : list Z := fresh_spec (new_guid e r0) (new_key e r0).

(* ---------- flash ---------- *)
Record st := { cfg : list Z;          (* supla_esp_cfg *)
               sta : list Z;          (* supla_esp_state *)
               fc : list Z;           (* sector CFG_SECTOR, SEC_SIZE cells *)
               fs : list Z;           (* sector CFG_SECTOR + STATE_SECTOR_OFFSET *)
               failc : Z;             (* k > 0: the k-th next erase/write returns failcode without doing anything *)
               failcode : Z;          (* SPI_FLASH_RESULT_ERR or _TIMEOUT *)
               crashc : Z;            (* k > 0: power is lost right before the k-th next erase/write *)
               timer : bool;          (* supla_esp_cfg_timer1 armed (delayed state save) *)
               down : bool;           (* power lost; nothing runs until the next boot *)
               en : env }.

Definition upd_ram (s : st) (c t : list Z) (tm : bool) : st :=
  {| cfg := c; sta := t; fc := fc s; fs := fs s; failc := failc s; failcode := failcode s; crashc := crashc s;
     timer := tm; down := down s; en := en s |}.
Definition set_cfg (s : st) (c : list Z) : st := upd_ram s c (sta s) (timer s).
Definition set_sta (s : st) (t : list Z) : st := upd_ram s (cfg s) t (timer s).
Definition set_timer (s : st) (tm : bool) : st := upd_ram s (cfg s) (sta s) tm.
Definition set_sector (which : bool) (sec : list Z) (s : st) : st :=
  {| cfg := cfg s; sta := sta s; fc := if which then fc s else sec; fs := if which then sec else fs s;
     failc := failc s; failcode := failcode s; crashc := crashc s; timer := timer s; down := down s; en := en s |}.
Definition sector (which : bool) (s : st) : list Z := if which then fs s else fc s.
Definition set_script (s : st) (f fcode c : Z) (d : bool) : st :=
  {| cfg := cfg s; sta := sta s; fc := fc s; fs := fs s; failc := f; failcode := fcode; crashc := c;
     timer := timer s; down := d; en := en s |}.

(* result of one erase/write: None = power lost before it; Some code = SpiFlashOpResult *)
Definition tick (s : st) : st * option Z :=
  if crashc s =? 1 then (set_script s (failc s) (failcode s) 0 true, None) else
  let c' := if 0 <? crashc s then crashc s - 1 else crashc s in
  if failc s =? 1 then (set_script s 0 (failcode s) c' (down s), Some (failcode s))
  else (set_script s (if 0 <? failc s then failc s - 1 else failc s) (failcode s) c' (down s), Some FLASH_OK).

Definition band (a b : Z) : Z := if (a <? 0) || (b <? 0) then UNDEF else Z.land a b.
Fixpoint band_list (old new : list Z) : list Z :=
  match old, new with
  | o :: os, n :: ns => band o n :: band_list os ns
  | os, [] => os
  | [], _ => []
  end.

Inductive out :=
| OFlash (op addr n : Z)          (* an erase (0) / write (1) was issued *)
| OCrash                          (* power lost *)
| ORet (r : Z)                    (* end of an event, result *)
| OImg (kind : Z) (img : list Z)  (* 3 CFG, 4 STATE, 5 FLASHC, 6 FLASHS *)
| OSubmit (img : list Z)          (* record handed to supla_esp_cfg_save by the config page *)
| OSaveRet (r : Z)                (* result of that save *)
| OFault.                         (* read outside the record *)

Definition sector_addr (which : bool) : Z := (CFG_SECTOR_ + (if which then STATE_SECTOR_OFFSET_ else 0)) * SEC_SIZE.

Definition erase (which : bool) (s : st) : st * list out * option Z :=
  if down s then (s, [], None) else
  let o := [OFlash 0 (sector_addr which) SEC_SIZE] in
  match tick s with
  | (s1, None) => (s1, o ++ [OCrash], None)
  | (s1, Some r) => if r =? FLASH_OK then (set_sector which (fill SEC_SIZE 255) s1, o, Some r) else (s1, o, Some r)
  end.
Definition write (which : bool) (data : list Z) (s : st) : st * list out * option Z :=
  if down s then (s, [], None) else
  let o := [OFlash 1 (sector_addr which) (len data)] in
  match tick s with
  | (s1, None) => (s1, o ++ [OCrash], None)
  | (s1, Some r) => if r =? FLASH_OK then (set_sector which (band_list (sector which s1) data) s1, o, Some r) else (s1, o, Some r)
  end.

(* supla_esp_cfg_save / _supla_esp_save_state: erase, write, TRUE iff the write returned OK.
   chk = false: the result of the erase is ignored (code before the proposed repair);
   chk = true : a failed erase makes the save fail without writing (repaired code). *)
Definition save_sector (chk which : bool) (img : list Z) (s : st) : st * list out * bool :=
  let '(s1, o1, r1) := erase which s in
  match r1 with
  | None => (s1, o1, false)
  | Some e =>
      if chk && negb (e =? FLASH_OK) then (s1, o1, false) else
      let '(s2, o2, r2) := write which img s1 in
      (s2, o1 ++ o2, match r2 with Some w => w =? FLASH_OK | None => false end)
  end.
Definition save_cfg (chk : bool) (img : list Z) (s : st) := save_sector chk false img s.
(* supla_esp_save_state(0): disarm, save now *)
Definition save_state_now (chk : bool) (s : st) : st * list out :=
  let '(s1, o, _) := save_sector chk true (sta s) (set_timer s false) in (s1, o).

(* factory_defaults(save) *)
Definition factory (chk : bool) (save : Z) (s : st) : st * list out :=
  let s1 := upd_ram s (fd (cfg s)) (fill STATE_SIZE 0) (timer s) in
  if save =? 1 then
    let '(s2, o2, _) := save_cfg chk (cfg s1) s1 in
    let '(s3, o3) := save_state_now chk s2 in (s3, o2 ++ o3)
  else (s1, []).

(* supla_esp_cfg_init() after a (re)boot; r0 = value of the random-byte counter.  Result: st, outputs, return value *)
Definition do_init (chk : bool) (r0 : Z) (s0 : st) : st * list out * Z :=
  let s := set_script (upd_ram s0 (fill CFG_SIZE 0) (fill STATE_SIZE 0) false) (failc s0) (failcode s0) (crashc s0) false in
  let c := take CFG_SIZE (fc s) in                       (* spi_flash_read (never fails in the double) *)
  match migrate c with
  | None => (set_script s (failc s) (failcode s) (crashc s) true, [OFault], 0)
  | Some (c1, m) =>
      let '(s1, o1) :=
        if m then
          let '(sa, oa, _) := save_cfg chk c1 (set_cfg s c1) in
          let '(sb, ob) := save_state_now chk (set_sta sa (fill STATE_SIZE 0)) in (sb, oa ++ ob)
        else (set_cfg s c1, []) in
      if accept c1 then
        (set_sta s1 (take STATE_SIZE (fs s1)), o1, 1)      (* state sector loaded as it is *)
      else
        let img := fresh_of c1 (new_guid (en s) r0) (new_key (en s) r0) in
        let '(s2, o2, r) := save_cfg chk img (upd_ram s1 img (fill STATE_SIZE 0) (timer s1)) in
        if r then (set_timer s2 true, o1 ++ o2, 1) else (s2, o1 ++ o2, 0)
  end.

(* the commit block of supla_esp_recv_callback: `if (1 == supla_esp_cfg_save(&new_cfg)) memcpy(&supla_esp_cfg, &new_cfg)`.
   `image` is the new_cfg the request parser produced (learnt from the implementation run; parsing is C14's subject);
   bytes that are indeterminate in RAM stay indeterminate (the generated requests do not touch them). *)
Fixpoint merge_undef (old new : list Z) : list Z :=
  match old, new with
  | o :: os, n :: ns => (if o <? 0 then UNDEF else n) :: merge_undef os ns
  | _, _ => new
  end.
Definition do_post (chk : bool) (image : list Z) (s : st) : st * list out * bool :=
  let sub := merge_undef (cfg s) image in
  let '(s1, o, r) := save_cfg chk sub s in
  ((if r then set_cfg s1 sub else s1), [OSubmit sub] ++ o ++ [OSaveRet (if r then 1 else 0)], r).

(* ---------- events ---------- *)
Inductive ev :=
| EEnv (t : Z) (m1 m2 : list Z)
| EFlashImg (which : bool) (bytes : list Z)
| EInit (r0 : Z)
| ESetCfg (img : list Z) | ESetState (img : list Z)
| ESaveCfg | ESaveState (delay : Z) | ETimer
| EFail (k code : Z) | ECrash (k : Z)
| EFactory (save : Z)
| EPost (image : list Z)
| EDump.

Fixpoint cut_at_crash (o : list out) : list out :=
  match o with
  | [] => []
  | OCrash :: _ => [OCrash]
  | x :: r => x :: cut_at_crash r
  end.
Definition has_crash (o : list out) : bool := existsb (fun x => match x with OCrash => true | _ => false end) o.
(* an event body that may lose power: everything after the crash point is not observed *)
Definition finish (r : st * list out) (ret : Z) : st * list out :=
  let '(s, o) := r in if has_crash o then (s, cut_at_crash o) else (s, o ++ [ORet ret]).

Definition step_ev (chk : bool) (s : st) (e : ev) : st * list out :=
  match e with
  | EEnv t m1 m2 =>
      ({| cfg := cfg s; sta := sta s; fc := fc s; fs := fs s; failc := failc s; failcode := failcode s; crashc := crashc s;
          timer := timer s; down := down s; en := {| eT := t; emac1 := m1; emac2 := m2 |} |}, [ORet 1])
  | EFlashImg w b => (set_sector w (fit SEC_SIZE 255 b) s, [ORet 0])
  | EFail k code => (set_script s k code (crashc s) (down s), [ORet 0])
  | ECrash k => (set_script s (failc s) (failcode s) k (down s), [ORet 0])
  | EInit r0 => let '(s1, o, r) := do_init chk r0 s in
                if down s1 && negb (has_crash o) then (s1, o) else finish (s1, o) r
  | EDump => (s, (if down s then [] else [OImg 3 (cfg s); OImg 4 (sta s)])
                 ++ [OImg 5 (take CFG_SIZE (fc s)); OImg 6 (take STATE_SIZE (fs s)); ORet 0])
  | _ =>
    if down s then (s, [ORet (-1)]) else
    match e with
    | ESetCfg img => (set_cfg s (fit CFG_SIZE 0 img), [ORet 0])
    | ESetState img => (set_sta s (fit STATE_SIZE 0 img), [ORet 0])
    | ESaveCfg => let '(s1, o, r) := save_cfg chk (cfg s) s in finish (s1, o) (if r then 1 else 0)
    | ESaveState d =>
        if 0 <? d then (set_timer s true, [ORet 0])
        else finish (save_state_now chk s) 0
    | ETimer => if timer s then finish (save_state_now chk s) 1 else (s, [ORet 0])
    | EFactory sv => finish (factory chk sv s) 0
    | EPost image =>
        if len image =? 0 then (s, [ORet 0]) else
        let '(s1, o, r) := do_post chk (fit CFG_SIZE 0 image) s in
        finish (s1, o ++ [OImg 3 (cfg s1)]) (if r then 1 else 0)
    | _ => (s, [])
    end
  end.

Definition blank : list Z := fill SEC_SIZE 255.
Definition init_st : st :=
  {| cfg := fill CFG_SIZE 0; sta := fill STATE_SIZE 0; fc := blank; fs := blank; failc := 0; failcode := FLASH_ERR; crashc := 0;
     timer := false; down := false; en := {| eT := 0; emac1 := fill 6 0; emac2 := fill 6 0 |} |}.

Fixpoint run_from (chk : bool) (s : st) (evs : list ev) : st * list out :=
  match evs with
  | [] => (s, [])
  | e :: r => let '(s1, o1) := step_ev chk s e in
              let '(s2, o2) := run_from chk s1 r in (s2, o1 ++ o2)
  end.

(* the model of the tree as it will be after the proposed repair (erase result checked) *)
Definition CURRENT_CHK : bool := true.
Definition run (evs : list ev) : list out := snd (run_from CURRENT_CHK init_st evs).

(* ---------- wire interface ---------- *)
Definition arg (l : list Z) (i : nat) : Z := nth i l 0.
Definition ev_of_wire (w : wire) : ev :=
  match w with (k, a, b) =>
    if k =? 0 then EEnv (arg a 0) (take 6 b) (drop 6 b)
    else if k =? 1 then EFlashImg (negb (arg a 0 =? 0)) b
    else if k =? 2 then EInit (arg a 0)
    else if k =? 3 then ESetCfg b
    else if k =? 4 then ESetState b
    else if k =? 5 then ESaveCfg
    else if k =? 6 then ESaveState (arg a 0)
    else if k =? 7 then ETimer
    else if k =? 8 then EFail (arg a 0) (arg a 1)
    else if k =? 9 then ECrash (arg a 0)
    else if k =? 10 then EFactory (arg a 0)
    else if k =? 11 then EPost (drop (arg a 0) b)       (* bytes = request ++ learnt new_cfg image *)
    else EDump
  end.
Definition has_undef (l : list Z) : bool := existsb (fun b => b <? 0) l.
Definition defd (l : list Z) : list Z := map (fun b => if b <? 0 then 0 else b) l.
Definition umask (l : list Z) : list Z := map (fun b => if b <? 0 then 1 else 0) l.
(* an image line, followed by a mask line (kind + 10) when some bytes are indeterminate *)
Definition img_wires (k : Z) (l : list Z) : list wire :=
  mk k [] (defd l) :: (if has_undef l then [mk (k + 10) [] (umask l)] else []).
Definition wires_of_out (o : out) : list wire :=
  match o with
  | OFlash op a n => [mk 0 [op; a; n] []]
  | OCrash => [mk 1 [] []]
  | ORet r => [mk 2 [r] []]
  | OImg k l => img_wires k l
  | OSubmit l => img_wires 7 l
  | OSaveRet r => [mk 8 [r] []]
  | OFault => [mk 9 [] []]
  end.
Definition run_wire (chk : bool) (ws : list wire) : list wire :=
  concat (map wires_of_out (snd (run_from chk init_st (map ev_of_wire ws)))).
Definition main_wire (ws : list wire) : list wire := run_wire CURRENT_CHK ws.
