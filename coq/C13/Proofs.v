(* C13 — proofs about the model of the persistent configuration (see Model.v). *)
From Coq Require Import List ZArith Lia Bool.
Import ListNotations.
From V Require Import Base.Bytes Base.Iface Gen.C13Layout C13.Model.
Local Open Scope Z_scope.

(* ====================================================================================== *)
(* lists *)
Lemma len_fill n b : 0 <= n -> len (fill n b) = n.
Proof. intros; unfold len, fill; rewrite repeat_length; lia. Qed.
Lemma len_map {A B} (f : A -> B) l : len (map f l) = len l.
Proof. unfold len; rewrite map_length; reflexivity. Qed.
Lemma len_zseq s n : 0 <= n -> len (zseq s n) = n.
Proof. intros; unfold len, zseq; rewrite map_length, seq_length; lia. Qed.
Lemma slice_map {A B} (f : A -> B) l o n : slice (map f l) o n = map f (slice l o n).
Proof. unfold slice, take, drop. rewrite skipn_map, firstn_map. reflexivity. Qed.
Lemma blit_map {A B} (f : A -> B) dst d v : map f (blit dst d v) = blit (map f dst) d (map f v).
Proof.
  unfold blit, take, drop. rewrite !map_app, firstn_map, skipn_map, len_map. reflexivity.
Qed.
Lemma len_slice {A} (l : list A) o n : 0 <= o -> 0 <= n -> o + n <= len l -> len (slice l o n) = n.
Proof. intros; unfold slice. rewrite len_take, len_drop by lia. lia. Qed.
Lemma len_blit {A} (dst : list A) d v : 0 <= d -> d + len v <= len dst -> len (blit dst d v) = len dst.
Proof.
  intros; unfold blit. pose proof (len_nonneg v). rewrite !len_app, len_take, len_drop by lia. lia.
Qed.

Lemma firstn_skipn_nth {A} (d : A) l : forall n s, (s + n <= length l)%nat ->
  firstn n (skipn s l) = map (fun i => nth i l d) (seq s n).
Proof.
  induction n as [|n IH]; intros s H; [reflexivity|].
  cbn [seq map]. rewrite <- IH by lia.
  assert (Hs : (s < length l)%nat) by lia.
  clear IH H. revert s Hs. induction l as [|x l IHl]; intros s Hs; [cbn in Hs; lia|].
  destruct s as [|s]; [reflexivity|].
  cbn [skipn nth]. apply IHl. cbn in Hs; lia.
Qed.
Lemma slice_zseq l s n : 0 <= s -> 0 <= n -> s + n <= len l -> slice l s n = map (nthz l) (zseq s n).
Proof.
  intros Hs Hn H. unfold slice, take, drop, zseq, nthz. rewrite map_map.
  rewrite (firstn_skipn_nth 0) by (unfold len in H; lia).
  apply map_ext. intros i. rewrite Nat2Z.id. reflexivity.
Qed.
Lemma slice_all {A} (l : list A) n : len l = n -> slice l 0 n = l.
Proof. intros; unfold slice. rewrite drop_0. apply take_all. lia. Qed.
Lemma map_id' (l : list Z) : map (fun b => b) l = l. Proof. apply map_id. Qed.

(* ====================================================================================== *)
(* symbolic execution of copy programs: every byte of the result is a byte of a variable or a constant *)
Inductive sym := S (v i : Z) | K (b : Z).
Definition ev (vars : Z -> list Z) (x : sym) : Z := match x with S v i => nthz (vars v) i | K b => b end.
Definition step_s (dst : list sym) (i : instr) : list sym :=
  match i with
  | Copy d v s n => blit dst d (map (S v) (zseq s n))
  | Put d b => blit dst d (map K b)
  end.
Definition exec_s (p : list instr) (dst : list sym) : list sym := fold_left step_s p dst.
Definition copy_ok (lens : Z -> Z) (i : instr) : bool :=
  match i with Copy d v s n => (0 <=? s) && (0 <=? n) && (s + n <=? lens v) | Put _ _ => true end.

Lemma evK vars l : map (ev vars) (map K l) = l.
Proof. rewrite map_map. cbn [ev]. apply map_id. Qed.
Lemma evS vars v s n : 0 <= s -> 0 <= n -> s + n <= len (vars v) ->
  map (ev vars) (map (S v) (zseq s n)) = slice (vars v) s n.
Proof. intros. rewrite map_map. cbn [ev]. symmetry. apply slice_zseq; assumption. Qed.

Lemma step_sound vars lens i D : (forall v, len (vars v) = lens v) -> copy_ok lens i = true ->
  step vars (map (ev vars) D) i = map (ev vars) (step_s D i).
Proof.
  intros Hl Hok. destruct i as [d v s n|d b]; cbn [step step_s].
  - cbn [copy_ok] in Hok. apply andb_prop in Hok as [Hok H3]. apply andb_prop in Hok as [H1 H2].
    apply Z.leb_le in H1, H2, H3. rewrite blit_map. rewrite evS by (rewrite ?Hl; lia). reflexivity.
  - rewrite blit_map, evK. reflexivity.
Qed.
Lemma exec_sound vars lens p : (forall v, len (vars v) = lens v) -> forallb (copy_ok lens) p = true ->
  forall D, exec vars p (map (ev vars) D) = map (ev vars) (exec_s p D).
Proof.
  intros Hl. induction p as [|i p IH]; intros Hok D; [reflexivity|].
  cbn [forallb] in Hok. apply andb_prop in Hok as [H1 H2].
  unfold exec, exec_s in *. cbn [fold_left]. rewrite (step_sound vars lens) by assumption. apply IH; assumption.
Qed.
(* a field of the result that the symbolic run shows to be a copy of a field of variable v *)
Lemma exec_field_copy vars lens p D o n v s :
  (forall v, len (vars v) = lens v) -> forallb (copy_ok lens) p = true ->
  slice (exec_s p D) o n = map (S v) (zseq s n) -> (0 <=? s) && (0 <=? n) && (s + n <=? lens v) = true ->
  slice (exec vars p (map (ev vars) D)) o n = slice (vars v) s n.
Proof.
  intros Hl Hok Hs Hr. rewrite (exec_sound vars lens) by assumption. rewrite slice_map, Hs.
  apply andb_prop in Hr as [Hr H3]. apply andb_prop in Hr as [H1 H2]. apply Z.leb_le in H1, H2, H3.
  apply evS; rewrite ?Hl; lia.
Qed.
Lemma exec_field_const vars lens p D o n b :
  (forall v, len (vars v) = lens v) -> forallb (copy_ok lens) p = true ->
  slice (exec_s p D) o n = map K b ->
  slice (exec vars p (map (ev vars) D)) o n = b.
Proof. intros Hl Hok Hs. rewrite (exec_sound vars lens) by assumption. rewrite slice_map, Hs. apply evK. Qed.
Lemma exec_nth_const vars lens p D i b :
  (forall v, len (vars v) = lens v) -> forallb (copy_ok lens) p = true ->
  nth (Z.to_nat i) (exec_s p D) (K 0) = K b ->
  nthz (exec vars p (map (ev vars) D)) i = b.
Proof.
  intros Hl Hok Hs. rewrite (exec_sound vars lens) by assumption. unfold nthz.
  change 0 with (ev vars (K 0)). rewrite map_nth, Hs. reflexivity.
Qed.
(* the result does not depend on variables the symbolic result does not mention *)
Definition mentions (v : Z) (x : sym) : bool := match x with S w _ => w =? v | K _ => false end.
Lemma ev_indep vars vars' L : (forall x, In x L -> forall w i, x = S w i -> vars w = vars' w) ->
  map (ev vars) L = map (ev vars') L.
Proof.
  intros H. apply map_ext_in. intros x Hx. destruct x as [w i|b]; [|reflexivity].
  cbn [ev]. rewrite (H _ Hx w i eq_refl). reflexivity.
Qed.

Lemma sym_field_copy vars L o n v s : slice L o n = map (S v) (zseq s n) ->
  (0 <=? s) && (0 <=? n) = true -> s + n <= len (vars v) ->
  slice (map (ev vars) L) o n = slice (vars v) s n.
Proof.
  intros Hs Hr H3. rewrite slice_map, Hs. apply andb_prop in Hr as [H1 H2]. apply Z.leb_le in H1, H2.
  apply evS; lia.
Qed.
Lemma sym_field_const vars L o n b : slice L o n = map K b -> slice (map (ev vars) L) o n = b.
Proof. intros Hs. rewrite slice_map, Hs. apply evK. Qed.
Lemma sym_nth vars L i : nthz (map (ev vars) L) i = ev vars (nth (Z.to_nat i) L (K 0)).
Proof. unfold nthz. change 0 with (ev vars (K 0)) at 1. apply map_nth. Qed.

(* composition: a symbolic result evaluated over a record that is itself a symbolic result *)
Definition subst_sym (L1 L2 : list sym) : list sym :=
  map (fun x => match x with S _ i => nth (Z.to_nat i) L1 (K 0) | K b => K b end) L2.
Lemma subst_sound vars L1 L2 : map (ev (var1 (map (ev vars) L1))) L2 = map (ev vars) (subst_sym L1 L2).
Proof.
  unfold subst_sym. rewrite map_map. apply map_ext. intros [v i|b]; [|reflexivity].
  cbn [ev]. unfold var1. apply sym_nth.
Qed.

(* bulk check of "field kept" facts on a symbolic result *)
Definition sym_eqb (a b : sym) : bool :=
  match a, b with S v i, S w j => (v =? w) && (i =? j) | K x, K y => x =? y | _, _ => false end.
Lemma sym_eqb_eq a b : sym_eqb a b = true -> a = b.
Proof.
  destruct a, b; cbn; intros H; try discriminate.
  - apply andb_prop in H as [H1 H2]. apply Z.eqb_eq in H1, H2. congruence.
  - apply Z.eqb_eq in H. congruence.
Qed.
Fixpoint syms_eqb (a b : list sym) : bool :=
  match a, b with [], [] => true | x :: r, y :: t => sym_eqb x y && syms_eqb r t | _, _ => false end.
Lemma syms_eqb_eq a : forall b, syms_eqb a b = true -> a = b.
Proof.
  induction a as [|x a IH]; intros [|y b] H; cbn in H; try discriminate; [reflexivity|].
  apply andb_prop in H as [H1 H2]. apply sym_eqb_eq in H1. apply IH in H2. congruence.
Qed.
(* fields : (offset in the new record, offset in the old record, size) *)
Definition kept (new old : list Z) (fields : list (Z * Z * Z)) : Prop :=
  Forall (fun f => let '(o7, oo, n) := f in slice new o7 n = slice old oo n) fields.
Definition kept_symb (L : list sym) (v lim : Z) (fields : list (Z * Z * Z)) : bool :=
  forallb (fun f => let '(o7, oo, n) := f in
             syms_eqb (slice L o7 n) (map (S v) (zseq oo n)) && (0 <=? oo) && (0 <=? n) && (oo + n <=? lim)) fields.
Lemma kept_sym vars L v fields : kept_symb L v (len (vars v)) fields = true -> kept (map (ev vars) L) (vars v) fields.
Proof.
  unfold kept, kept_symb. intros H. rewrite forallb_forall in H. apply Forall_forall. intros [[o7 oo] n] Hin.
  specialize (H _ Hin). cbn in H. apply andb_prop in H as [H H4]. apply andb_prop in H as [H H3]. apply andb_prop in H as [H1 H2].
  apply syms_eqb_eq in H1. apply Z.leb_le in H4. apply sym_field_copy; [assumption| |assumption].
  rewrite H2, H3. reflexivity.
Qed.
Lemma kept_In new old fields o7 oo n : kept new old fields -> In (o7, oo, n) fields -> slice new o7 n = slice old oo n.
Proof. unfold kept. rewrite Forall_forall. intros H Hin. apply (H _ Hin). Qed.

(* ====================================================================================== *)
(* the copy programs of supla_esp_cfg.c *)
Definition lens1 : Z -> Z := fun _ => CFG_SIZE.
Definition lens3 : Z -> Z := fun v => if v =? 0 then CFG_SIZE else if v =? 1 then GUID_SIZE else AUTHKEY_SIZE.
Lemma var1_len c : len c = CFG_SIZE -> forall v, len (var1 c v) = lens1 v.
Proof. intros H v. exact H. Qed.
Lemma var3_len c g k : len c = CFG_SIZE -> len g = GUID_SIZE -> len k = AUTHKEY_SIZE -> forall v, len (var3 c g k v) = lens3 v.
Proof. intros H1 H2 H3 v. unfold var3, lens3. destruct (v =? 0); [assumption|]. destruct (v =? 1); assumption. Qed.

Definition prog67z : list instr := prog67 ++ [Put O7_ZERO (fill ZERO7_SIZE 0)].
Definition FD_SYM : list sym := exec_s prog_fd (map K DEFAULTS_IMG).
Definition FRESH_SYM : list sym := exec_s prog_fresh (map K DEFAULTS_IMG).
Definition SPEC_SYM : list sym :=
  exec_s [Put O7_TAG TAG7; Copy O7_GUID 1 0 GUID_SIZE; Copy O7_AUTHKEY 2 0 AUTHKEY_SIZE] (map K DEFAULTS_IMG).
Definition M56_SYM (a : bool) : list sym := exec_s (prog56 a) (map K (fill CFG_SIZE 0)).
Definition M67Z_SYM : list sym := exec_s prog67z (map K (fill CFG_SIZE UNDEF)).
Definition M57_SYM (a : bool) : list sym := subst_sym (M56_SYM a) M67Z_SYM.

Lemma fd_sym c : len c = CFG_SIZE -> fd c = map (ev (var1 c)) FD_SYM.
Proof.
  intros H. unfold fd, FD_SYM. rewrite <- (evK (var1 c) DEFAULTS_IMG) at 1.
  apply (exec_sound _ lens1); [apply var1_len; assumption | vm_compute; reflexivity].
Qed.
Lemma mig56_sym a c : len c = CFG_SIZE -> mig56 a c = map (ev (var1 c)) (M56_SYM a).
Proof.
  intros H. unfold mig56, M56_SYM. rewrite <- (evK (var1 c) (fill CFG_SIZE 0)) at 1.
  apply (exec_sound _ lens1); [apply var1_len; assumption | destruct a; vm_compute; reflexivity].
Qed.
Definition mig67z (c : list Z) : list Z := blit (mig67 c) O7_ZERO (fill ZERO7_SIZE 0).
Lemma mig67z_sym c : len c = CFG_SIZE -> mig67z c = map (ev (var1 c)) M67Z_SYM.
Proof.
  intros H. unfold mig67z, mig67, M67Z_SYM, prog67z.
  change (blit (exec (var1 c) prog67 (fill CFG_SIZE UNDEF)) O7_ZERO (fill ZERO7_SIZE 0))
    with (exec (var1 c) [Put O7_ZERO (fill ZERO7_SIZE 0)] (exec (var1 c) prog67 (fill CFG_SIZE UNDEF))).
  unfold exec at 1 2. rewrite <- fold_left_app. fold (exec (var1 c) (prog67 ++ [Put O7_ZERO (fill ZERO7_SIZE 0)]) (fill CFG_SIZE UNDEF)).
  rewrite <- (evK (var1 c) (fill CFG_SIZE UNDEF)) at 1.
  apply (exec_sound _ lens1); [apply var1_len; assumption | vm_compute; reflexivity].
Qed.
Lemma len_sym_56 a : len (M56_SYM a) = CFG_SIZE. Proof. destruct a; vm_compute; reflexivity. Qed.
Lemma len_sym_67 : len M67Z_SYM = CFG_SIZE. Proof. vm_compute; reflexivity. Qed.
Lemma mig57_sym a c : len c = CFG_SIZE -> mig67z (mig56 a c) = map (ev (var1 c)) (M57_SYM a).
Proof.
  intros H. rewrite mig56_sym by assumption. rewrite mig67z_sym by (rewrite len_map; apply len_sym_56).
  apply subst_sound.
Qed.

(* ---------- defaults with a new identity: nothing of the rejected record survives ---------- *)
Lemma fresh_of_spec c g k : len c = CFG_SIZE -> len g = GUID_SIZE -> len k = AUTHKEY_SIZE ->
  fresh_of c g k = fresh_spec g k.
Proof.
  intros Hc Hg Hk.
  assert (E1 : fresh_of c g k = map (ev (var3 c g k)) FRESH_SYM).
  { unfold fresh_of, FRESH_SYM. rewrite <- (evK (var3 c g k) DEFAULTS_IMG) at 1.
    apply (exec_sound _ lens3); [apply var3_len; assumption | vm_compute; reflexivity]. }
  assert (E2 : fresh_spec g k = map (ev (var3 c g k)) SPEC_SYM).
  { unfold SPEC_SYM. rewrite <- (exec_sound (var3 c g k) lens3) by first [apply var3_len; assumption | vm_compute; reflexivity].
    rewrite evK. unfold fresh_spec, exec. cbn [fold_left step].
    change (var3 c g k 1) with g. change (var3 c g k 2) with k.
    rewrite (slice_all g) by assumption. rewrite (slice_all k) by assumption. reflexivity. }
  rewrite E1, E2. replace FRESH_SYM with SPEC_SYM by (vm_compute; reflexivity). reflexivity.
Qed.

(* ---------- factory_defaults keeps the identity (and the TAG), everything else is the default record ---------- *)
Definition ID_FIELDS : list (Z * Z * Z) := [(O7_GUID, O7_GUID, GUID_SIZE); (O7_AUTHKEY, O7_AUTHKEY, AUTHKEY_SIZE); (O7_TAG, O7_TAG, TAG_SIZE)].
Lemma fd_keeps c : len c = CFG_SIZE -> kept (fd c) c ID_FIELDS.
Proof.
  intros H. rewrite fd_sym by assumption. apply (kept_sym (var1 c) FD_SYM 0).
  change (len (var1 c 0)) with (len c). rewrite H. vm_compute. reflexivity.
Qed.
Lemma fd_rest c : len c = CFG_SIZE ->
  fd c = blit (blit (blit (blit DEFAULTS_IMG O7_GUID (slice c O7_GUID GUID_SIZE)) O7_AUTHKEY (slice c O7_AUTHKEY AUTHKEY_SIZE))
                    O7_TAG (slice c O7_TAG TAG_SIZE)) O7_TEST (slice c O7_TEST 1).
Proof. intros H. reflexivity. Qed.
Lemma len_fd c : len c = CFG_SIZE -> len (fd c) = CFG_SIZE.
Proof. intros H. rewrite fd_sym by assumption. rewrite len_map. vm_compute. reflexivity. Qed.

(* ---------- what the migrations keep ---------- *)
(* v6 -> v7 *)
Definition FIELDS6 : list (Z * Z * Z) :=
  [ (O7_GUID, O6_GUID, GUID_SIZE); (O7_AUTHKEY, O6_AUTHKEY, AUTHKEY_SIZE); (O7_SERVER, O6_SERVER, SERVER_SIZE);
    (O7_WIFI_SSID, O6_WIFI_SSID, SSID_SIZE); (O7_WIFI_PWD, O6_WIFI_PWD, WPWD_SIZE); (O7_EMAIL, O6_EMAIL, EMAIL_SIZE);
    (O7_TIME1, O6_TIME1, 2 * INT_SIZE);                               (* Time1[0], Time1[1] *)
    (O7_TIME2, O6_TIME2, 2 * INT_SIZE); (O7_TRIGGER, O6_TRIGGER, 1);  (* also kept from v6: Time2[0], Time2[1], Trigger *)
    (O7_LOCATIONID, O6_LOCATIONID, LOCID_SIZE); (O7_LOCATIONPWD, O6_LOCATIONPWD, LOCPWD_SIZE) ].
(* v5 -> v6 -> v7 in one boot; a = the record is taken for layout 5A *)
Definition FIELDS5 (a : bool) : list (Z * Z * Z) :=
  [ (O7_GUID, O5B_GUID, GUID_SIZE); (O7_SERVER, O5B_SERVER, SERVER_SIZE);
    (O7_WIFI_SSID, O5B_WIFI_SSID, SSID_SIZE); (O7_WIFI_PWD, O5B_WIFI_PWD, WPWD_SIZE);
    (O7_LOCATIONID, O5B_LOCATIONID, LOCID_SIZE); (O7_LOCATIONPWD, O5B_LOCATIONPWD, LOCPWD_SIZE);
    (O7_AUTHKEY, (if a then O5A_AUTHKEY else O5B_AUTHKEY), AUTHKEY_SIZE);
    (O7_EMAIL, (if a then O5A_EMAIL else O5B_EMAIL), EMAIL_SIZE);
    (O7_TIME1, (if a then O5A_FULLOPENINGTIME else O5B_TIME1), 2 * INT_SIZE) ].   (* the first two timing values *)

Lemma mig67z_keeps c : len c = CFG_SIZE -> kept (mig67z c) c FIELDS6.
Proof.
  intros H. rewrite mig67z_sym by assumption. apply (kept_sym (var1 c) M67Z_SYM 0).
  change (len (var1 c 0)) with (len c). rewrite H. vm_compute. reflexivity.
Qed.
Lemma mig57_keeps a c : len c = CFG_SIZE -> kept (mig67z (mig56 a c)) c (FIELDS5 a).
Proof.
  intros H. rewrite mig57_sym by assumption. apply (kept_sym (var1 c) (M57_SYM a) 0).
  change (len (var1 c 0)) with (len c). rewrite H. destruct a; vm_compute; reflexivity.
Qed.
(* observation (not claimed by the property): the closing times Time2[0..1] and Trigger of a v5 record do NOT survive the
   chained migration — 5->6 stores them at the v7 offsets, 6->7 reads them back at the v6 offsets *)
Lemma mig57_time2_lost a c : len c = CFG_SIZE ->
  slice (mig67z (mig56 a c)) O7_TIME2 TIME2_BYTES = fill TIME2_BYTES 0 /\ slice (mig67z (mig56 a c)) O7_TRIGGER 1 = [0].
Proof.
  intros H. rewrite mig57_sym by assumption. split; apply sym_field_const; destruct a; vm_compute; reflexivity.
Qed.
(* observation: bytes [V6_SIZE, O7_ZERO) of a migrated v6 record are indeterminate (uninitialised stack) *)
Lemma mig67z_undef c : len c = CFG_SIZE -> slice (mig67z c) V6_SIZE (O7_ZERO - V6_SIZE) = fill (O7_ZERO - V6_SIZE) UNDEF.
Proof. intros H. rewrite mig67z_sym by assumption. apply sym_field_const. vm_compute. reflexivity. Qed.

(* ---------- TAG tests ---------- *)
Lemma tag7_split c : slice c O7_TAG TAG_SIZE = TAG7 -> slice c 0 5 = TAG5 /\ nthz c 5 = 7.
Proof.
  unfold slice, O7_TAG, TAG_SIZE, TAG5. rewrite drop_0. intros H. split.
  - rewrite <- H. unfold take. rewrite firstn_firstn. reflexivity.
  - unfold take in H. rewrite <- (firstn_skipn (Z.to_nat 6) c). rewrite H. reflexivity.
Qed.
Lemma tag_join c : slice c 0 5 = TAG5 -> nthz c 5 = 7 -> 6 <= len c -> slice c O7_TAG TAG_SIZE = TAG7.
Proof.
  unfold slice, O7_TAG, TAG_SIZE, TAG5, take, nthz, len. rewrite drop_0.
  change (Z.to_nat 5) with 5%nat. change (Z.to_nat 6) with 6%nat. unfold TAG7. intros H1 H2 H3.
  destruct c as [|c0 [|c1 [|c2 [|c3 [|c4 [|c5 r]]]]]]; cbn [length] in H3; try lia.
  cbn [firstn nth] in *. congruence.
Qed.

Lemma migrate_foreign c : slice c 0 5 <> TAG5 -> migrate c = Some (c, false).
Proof. intros H. unfold migrate. apply list_eqb_false in H. rewrite H. reflexivity. Qed.
Lemma migrate_other c : nthz c 5 <> 5 -> nthz c 5 <> 6 -> migrate c = Some (c, false).
Proof.
  intros H5 H6. unfold migrate. destruct (negb (list_eqb (slice c 0 5) TAG5)); [reflexivity|].
  apply Z.eqb_neq in H5, H6. rewrite H5. cbn [andb]. rewrite H6. reflexivity.
Qed.
Lemma migrate_v6 c : len c = CFG_SIZE -> slice c 0 5 = TAG5 -> nthz c 5 = 6 -> migrate c = Some (mig67z c, true).
Proof.
  intros Hl Ht H6. unfold migrate. rewrite Ht, list_eqb_refl. cbn [negb]. rewrite H6.
  change (6 =? 5) with false. cbn [andb]. rewrite H6. change (6 =? 6) with true. cbn [andb].
  replace (V6_SIZE <=? CFG_SIZE) with true by (vm_compute; reflexivity). reflexivity.
Qed.
Lemma migrate_v5 c a : len c = CFG_SIZE -> slice c 0 5 = TAG5 -> nthz c 5 = 5 -> isA c = Some a ->
  migrate c = Some (mig67z (mig56 a c), true).
Proof.
  intros Hl Ht H5 Ha. unfold migrate. rewrite Ht, list_eqb_refl. cbn [negb]. rewrite H5.
  change (5 =? 5) with true. replace (V5B_SIZE <=? CFG_SIZE) with true by (vm_compute; reflexivity). cbn [andb]. rewrite Ha.
  assert (E : nthz (mig56 a c) 5 = 6).
  { rewrite mig56_sym by assumption. rewrite sym_nth. destruct a; vm_compute; reflexivity. }
  rewrite E. change (6 =? 6) with true. replace (V6_SIZE <=? CFG_SIZE) with true by (vm_compute; reflexivity). reflexivity.
Qed.
(* the migrated record carries the current TAG *)
Lemma mig67z_tag c : len c = CFG_SIZE -> slice c 0 5 = TAG5 -> slice (mig67z c) O7_TAG TAG_SIZE = TAG7.
Proof.
  intros Hl Ht. apply tag_join.
  - rewrite mig67z_sym by assumption. rewrite <- Ht. apply (sym_field_copy (var1 c) M67Z_SYM 0 5 0 0).
    + vm_compute; reflexivity. + reflexivity. + change (len (var1 c 0)) with (len c). rewrite Hl. vm_compute. discriminate.
  - rewrite mig67z_sym by assumption. rewrite sym_nth. vm_compute. reflexivity.
  - rewrite mig67z_sym by assumption. rewrite len_map, len_sym_67. vm_compute. discriminate.
Qed.
Lemma mig56_tag5 a c : len c = CFG_SIZE -> slice (mig56 a c) 0 5 = TAG5.
Proof. intros Hl. rewrite mig56_sym by assumption. apply sym_field_const. destruct a; vm_compute; reflexivity. Qed.
Lemma len_mig56 a c : len c = CFG_SIZE -> len (mig56 a c) = CFG_SIZE.
Proof. intros. rewrite mig56_sym by assumption. rewrite len_map. apply len_sym_56. Qed.
Lemma len_mig67z c : len c = CFG_SIZE -> len (mig67z c) = CFG_SIZE.
Proof. intros. rewrite mig67z_sym by assumption. rewrite len_map. apply len_sym_67. Qed.

(* acceptance of a migrated record = identity of the old record non-zero *)
Definition nonzero (l : list Z) : Prop := l <> fill (len l) 0.
Lemma accept_iff c : accept c = true <->
  slice c O7_TAG TAG_SIZE = TAG7 /\ slice c O7_AUTHKEY AUTHKEY_SIZE <> fill AUTHKEY_SIZE 0 /\ slice c O7_GUID GUID_SIZE <> fill GUID_SIZE 0.
Proof.
  unfold accept. rewrite !andb_true_iff, !negb_true_iff, list_eqb_true, !list_eqb_false. tauto.
Qed.
Lemma accept_false_tag c : slice c O7_TAG TAG_SIZE <> TAG7 -> accept c = false.
Proof. intros H. destruct (accept c) eqn:E; [|reflexivity]. apply accept_iff in E. tauto. Qed.
Lemma accept_false_key c : slice c O7_AUTHKEY AUTHKEY_SIZE = fill AUTHKEY_SIZE 0 -> accept c = false.
Proof. intros H. destruct (accept c) eqn:E; [|reflexivity]. apply accept_iff in E. tauto. Qed.
Lemma accept_false_guid c : slice c O7_GUID GUID_SIZE = fill GUID_SIZE 0 -> accept c = false.
Proof. intros H. destruct (accept c) eqn:E; [|reflexivity]. apply accept_iff in E. tauto. Qed.

(* ====================================================================================== *)
(* flash operations *)
Definition cell_ok (b : Z) : Prop := -1 <= b < 256.
Definition cells_ok (l : list Z) : Prop := Forall cell_ok l.
Record wf (s : st) : Prop := { wf_fc : len (fc s) = SEC_SIZE; wf_fs : len (fs s) = SEC_SIZE }.
Definition ram_eq (s s1 : st) : Prop := cfg s1 = cfg s /\ sta s1 = sta s /\ timer s1 = timer s /\ en s1 = en s.
Definition mem_eq (s s1 : st) : Prop := ram_eq s s1 /\ fc s1 = fc s /\ fs s1 = fs s.
Definition quiet (s : st) : Prop := down s = false /\ failc s = 0 /\ crashc s = 0.

Lemma ram_eq_refl s : ram_eq s s. Proof. repeat split. Qed.
Lemma ram_eq_trans a b c : ram_eq a b -> ram_eq b c -> ram_eq a c.
Proof. unfold ram_eq. intros (A1 & A2 & A3 & A4) (B1 & B2 & B3 & B4). repeat split; congruence. Qed.
Lemma sector_set_same w X s : sector w (set_sector w X s) = X. Proof. destruct w; reflexivity. Qed.
Lemma sector_set_other w X s : sector (negb w) (set_sector w X s) = sector (negb w) s. Proof. destruct w; reflexivity. Qed.

Lemma band_255 b : cell_ok b -> band 255 b = b.
Proof.
  unfold cell_ok, band. intros H. change (255 <? 0) with false. cbn [orb].
  destruct (b <? 0) eqn:E; [apply Z.ltb_lt in E; unfold UNDEF; lia|]. apply Z.ltb_ge in E.
  rewrite Z.land_comm. change 255 with (Z.ones 8). rewrite Z.land_ones by lia. apply Z.mod_small. lia.
Qed.
Lemma band_list_blank_nat img : cells_ok img -> forall n, (length img <= n)%nat ->
  band_list (repeat 255 n) img = img ++ repeat 255 (n - length img).
Proof.
  induction 1 as [|b img Hb _ IH]; intros n Hn.
  - cbn [length app]. rewrite Nat.sub_0_r. destruct n; reflexivity.
  - destruct n as [|n]; [cbn in Hn; lia|]. cbn [repeat band_list length app Nat.sub]. rewrite band_255 by assumption.
    f_equal. apply IH. cbn in Hn. lia.
Qed.
Lemma band_list_blank img : cells_ok img -> len img <= SEC_SIZE ->
  band_list (fill SEC_SIZE 255) img = img ++ fill (SEC_SIZE - len img) 255.
Proof.
  intros Hc Hl. unfold fill. rewrite band_list_blank_nat by (assumption || (unfold len in Hl; lia)).
  f_equal. f_equal. unfold len. pose proof (len_nonneg img). unfold len in *. lia.
Qed.
Lemma len_band_list old : forall new, len (band_list old new) = len old.
Proof.
  induction old as [|o old IH]; intros [|n new]; try reflexivity.
  cbn [band_list]. rewrite !len_cons, IH. reflexivity.
Qed.
Lemma take_written img : cells_ok img -> len img <= SEC_SIZE -> take (len img) (band_list (fill SEC_SIZE 255) img) = img.
Proof. intros. rewrite band_list_blank by assumption. apply take_app_exact. Qed.

Lemma tick_spec s : let '(s1, r) := tick s in
  mem_eq s s1 /\ match r with None => down s1 = true | Some _ => down s1 = down s end.
Proof.
  unfold tick. destruct (crashc s =? 1); [repeat split|]. destruct (failc s =? 1); repeat split.
Qed.
Lemma erase_spec w s : down s = false ->
  let '(s1, o, r) := erase w s in
  ram_eq s s1 /\ sector (negb w) s1 = sector (negb w) s /\
  match r with
  | None => down s1 = true /\ sector w s1 = sector w s
  | Some e => down s1 = false /\ (if e =? FLASH_OK then sector w s1 = fill SEC_SIZE 255 else sector w s1 = sector w s)
  end.
Proof.
  intros Hd. unfold erase. rewrite Hd. pose proof (tick_spec s) as T. destruct (tick s) as [s1 [e|]].
  - destruct T as ((R & F1 & F2) & D). destruct (e =? FLASH_OK) eqn:E.
    + split; [exact R|]. rewrite sector_set_other, sector_set_same. split; [destruct w; cbn [negb sector]; assumption|].
      split; [cbn; congruence|rewrite E; reflexivity].
    + split; [exact R|]. split; [destruct w; cbn [negb sector]; assumption|]. split; [congruence|rewrite E; destruct w; cbn [sector]; assumption].
  - destruct T as ((R & F1 & F2) & D). split; [exact R|]. split; [destruct w; cbn [negb sector]; assumption|].
    split; [assumption|destruct w; cbn [sector]; assumption].
Qed.
Lemma write_spec w data s : down s = false ->
  let '(s1, o, r) := write w data s in
  ram_eq s s1 /\ sector (negb w) s1 = sector (negb w) s /\
  match r with
  | None => down s1 = true /\ sector w s1 = sector w s
  | Some e => down s1 = false /\ (if e =? FLASH_OK then sector w s1 = band_list (sector w s) data else sector w s1 = sector w s)
  end.
Proof.
  intros Hd. unfold write. rewrite Hd. pose proof (tick_spec s) as T. destruct (tick s) as [s1 [e|]].
  - destruct T as ((R & F1 & F2) & D).
    assert (Sw : sector w s1 = sector w s) by (destruct w; cbn [sector]; assumption).
    assert (So : sector (negb w) s1 = sector (negb w) s) by (destruct w; cbn [negb sector]; assumption).
    destruct (e =? FLASH_OK) eqn:E.
    + split; [exact R|]. rewrite sector_set_other, sector_set_same. split; [exact So|].
      split; [cbn; congruence|rewrite E, Sw; reflexivity].
    + split; [exact R|]. split; [exact So|]. split; [congruence|rewrite E; exact Sw].
  - destruct T as ((R & F1 & F2) & D). split; [exact R|]. split; [destruct w; cbn [negb sector]; assumption|].
    split; [assumption|destruct w; cbn [sector]; assumption].
Qed.
Lemma erase_down w s : down s = true -> erase w s = (s, [], None).
Proof. intros H. unfold erase. rewrite H. reflexivity. Qed.
Lemma write_down w d s : down s = true -> write w d s = (s, [], None).
Proof. intros H. unfold write. rewrite H. reflexivity. Qed.

(* what a save does to the machine, whatever the fault script: RAM untouched, the other sector untouched *)
Lemma save_sector_frame chk w img s :
  let '(s1, o, r) := save_sector chk w img s in
  ram_eq s s1 /\ sector (negb w) s1 = sector (negb w) s /\ (down s = true -> s1 = s /\ o = [] /\ r = false).
Proof.
  unfold save_sector. destruct (down s) eqn:Hd.
  - rewrite erase_down by assumption. split; [apply ram_eq_refl|]. split; [reflexivity|]. intros _. repeat split.
  - pose proof (erase_spec w s Hd) as E. destruct (erase w s) as [[s1 o1] r1]. destruct E as (R1 & O1 & E).
    destruct r1 as [e|]; [|split; [exact R1|]; split; [exact O1|discriminate]].
    destruct E as (D1 & E). destruct (chk && negb (e =? FLASH_OK)); [split; [exact R1|]; split; [exact O1|discriminate]|].
    pose proof (write_spec w img s1 D1) as W. destruct (write w img s1) as [[s2 o2] r2]. destruct W as (R2 & O2 & W).
    split; [eapply ram_eq_trans; eassumption|]. split; [congruence|discriminate].
Qed.

(* repaired code: whatever fails or wherever power is lost, the sector is the old one, erased, or the new record *)
Lemma save_sector_atomic w img s : down s = false ->
  let '(s1, o, r) := save_sector true w img s in
  (sector w s1 = sector w s \/ sector w s1 = fill SEC_SIZE 255 \/ sector w s1 = band_list (fill SEC_SIZE 255) img) /\
  (r = true -> sector w s1 = band_list (fill SEC_SIZE 255) img /\ down s1 = false) /\
  (r = false -> sector w s1 = sector w s \/ sector w s1 = fill SEC_SIZE 255).
Proof.
  intros Hd. unfold save_sector. pose proof (erase_spec w s Hd) as E. destruct (erase w s) as [[s1 o1] r1]. destruct E as (R1 & O1 & E).
  destruct r1 as [e|].
  - destruct E as (D1 & E). cbn [andb]. destruct (e =? FLASH_OK) eqn:Ee; cbn [negb].
    + pose proof (write_spec w img s1 D1) as W. destruct (write w img s1) as [[s2 o2] r2]. destruct W as (R2 & O2 & W).
      destruct r2 as [e2|].
      * destruct W as (D2 & W). destruct (e2 =? FLASH_OK) eqn:E2.
        -- rewrite E in W. split; [right; right; exact W|]. split; [intros _; split; assumption|discriminate].
        -- rewrite E in W. split; [right; left; exact W|]. split; [discriminate|intros _; right; exact W].
      * destruct W as (D2 & W). rewrite E in W. split; [right; left; exact W|]. split; [discriminate|intros _; right; exact W].
    + split; [left; exact E|]. split; [discriminate|intros _; left; exact E].
  - destruct E as (D1 & E). split; [left; exact E|]. split; [discriminate|intros _; left; exact E].
Qed.

(* no fault scripted: the save succeeds and the sector holds exactly the record *)
Lemma tick_quiet s : quiet s -> exists s1, tick s = (s1, Some FLASH_OK) /\ quiet s1 /\ mem_eq s s1.
Proof.
  intros (Hd & Hf & Hc). unfold tick. rewrite Hc, Hf. change (0 =? 1) with false. change (0 <? 0) with false.
  eexists. split; [reflexivity|]. split; [repeat split; assumption|repeat split].
Qed.
Lemma save_sector_quiet chk w img s : quiet s ->
  let '(s1, o, r) := save_sector chk w img s in
  r = true /\ quiet s1 /\ ram_eq s s1 /\ sector (negb w) s1 = sector (negb w) s /\ sector w s1 = band_list (fill SEC_SIZE 255) img
  /\ o = [OFlash 0 (sector_addr w) SEC_SIZE; OFlash 1 (sector_addr w) (len img)].
Proof.
  intros Hq. unfold save_sector, erase. destruct Hq as (Hd & Hf & Hc). rewrite Hd.
  destruct (tick_quiet s) as (s1 & T1 & (Hd1 & Hf1 & Hc1) & (R1 & F1 & F2)); [repeat split; assumption|]. rewrite T1.
  rewrite Z.eqb_refl. rewrite andb_false_r. unfold write. change (down (set_sector w (fill SEC_SIZE 255) s1)) with (down s1). rewrite Hd1.
  destruct (tick_quiet (set_sector w (fill SEC_SIZE 255) s1)) as (s2 & T2 & (Hd2 & Hf2 & Hc2) & (R2 & G1 & G2)); [repeat split; assumption|]. rewrite T2.
  rewrite Z.eqb_refl.
  assert (Ss : sector w s2 = fill SEC_SIZE 255).
  { transitivity (sector w (set_sector w (fill SEC_SIZE 255) s1)); [destruct w; cbn [sector]; assumption|apply sector_set_same]. }
  assert (So : sector (negb w) s2 = sector (negb w) s).
  { transitivity (sector (negb w) (set_sector w (fill SEC_SIZE 255) s1)); [destruct w; cbn [negb sector]; assumption|].
    rewrite sector_set_other. destruct w; cbn [negb sector]; assumption. }
  split; [reflexivity|]. split; [repeat split; assumption|]. split.
  { eapply ram_eq_trans; [exact R1|]. exact R2. }
  rewrite sector_set_other, sector_set_same, Ss. split; [exact So|]. split; reflexivity.
Qed.

(* ====================================================================================== *)
(* boot *)
Definition boot0 (s0 : st) : st :=
  set_script (upd_ram s0 (fill CFG_SIZE 0) (fill STATE_SIZE 0) false) (failc s0) (failcode s0) (crashc s0) false.

(* RAM configuration after supla_esp_cfg_init, whatever the fault script does to the saves of that boot *)
Lemma do_init_ram chk r0 s c1 m : migrate (take CFG_SIZE (fc s)) = Some (c1, m) ->
  let '(s', o, r) := do_init chk r0 s in
  en s' = en s /\
  (if accept c1 then cfg s' = c1 /\ r = 1
   else cfg s' = fresh_of c1 (new_guid (en s) r0) (new_key (en s) r0) /\ sta s' = fill STATE_SIZE 0).
Proof.
  intros Hm. unfold do_init. fold (boot0 s). change (fc (boot0 s)) with (fc s). rewrite Hm.
  change (en (boot0 s)) with (en s).
  assert (Hpre : forall s1 : st, cfg s1 = c1 -> en s1 = en s -> forall o1,
     let '(s', o, r) :=
       (if accept c1 then (set_sta s1 (take STATE_SIZE (fs s1)), o1, 1)
        else let img := fresh_of c1 (new_guid (en s) r0) (new_key (en s) r0) in
             let '(s2, o2, r) := save_cfg chk img (upd_ram s1 img (fill STATE_SIZE 0) (timer s1)) in
             if r then (set_timer s2 true, o1 ++ o2, 1) else (s2, o1 ++ o2, 0)) in
     en s' = en s /\ (if accept c1 then cfg s' = c1 /\ r = 1
                      else cfg s' = fresh_of c1 (new_guid (en s) r0) (new_key (en s) r0) /\ sta s' = fill STATE_SIZE 0)).
  { intros s1 Hc He o1. destruct (accept c1).
    - split; [exact He|]. split; [exact Hc|reflexivity].
    - cbv zeta. unfold save_cfg.
      pose proof (save_sector_frame chk false (fresh_of c1 (new_guid (en s) r0) (new_key (en s) r0))
                    (upd_ram s1 (fresh_of c1 (new_guid (en s) r0) (new_key (en s) r0)) (fill STATE_SIZE 0) (timer s1))) as F.
      destruct (save_sector chk false _ _) as [[s2 o2] r2]. destruct F as ((F1 & F2 & F3 & F4) & _).
      destruct r2; (split; [cbn [en set_timer upd_ram] in *; congruence|]); split; cbn [cfg sta set_timer upd_ram] in *; congruence. }
  destruct m.
  - unfold save_cfg.
    pose proof (save_sector_frame chk false c1 (set_cfg (boot0 s) c1)) as Fa.
    destruct (save_sector chk false c1 (set_cfg (boot0 s) c1)) as [[sa oa] ra]. destruct Fa as ((A1 & A2 & A3 & A4) & _).
    unfold save_state_now.
    pose proof (save_sector_frame chk true (sta (set_sta sa (fill STATE_SIZE 0))) (set_timer (set_sta sa (fill STATE_SIZE 0)) false)) as Fb.
    destruct (save_sector chk true _ _) as [[sb ob] rb]. destruct Fb as ((B1 & B2 & B3 & B4) & _).
    apply Hpre.
    + cbn [cfg set_timer set_sta set_cfg upd_ram] in *. congruence.
    + cbn [en set_timer set_sta set_cfg upd_ram] in *. change (en (boot0 s)) with (en s) in A4. congruence.
  - apply Hpre; reflexivity.
Qed.

(* a boot from an accepted v7 record touches nothing and loads both sectors as they are *)
Lemma do_init_plain chk r0 s c : take CFG_SIZE (fc s) = c -> migrate c = Some (c, false) -> accept c = true ->
  let '(s', o, r) := do_init chk r0 s in
  cfg s' = c /\ sta s' = take STATE_SIZE (fs s) /\ fc s' = fc s /\ fs s' = fs s /\ o = [] /\ r = 1 /\
  down s' = false /\ failc s' = failc s /\ crashc s' = crashc s /\ en s' = en s.
Proof.
  intros Hc Hm Ha. unfold do_init. fold (boot0 s). change (fc (boot0 s)) with (fc s). rewrite Hc, Hm, Ha.
  repeat split.
Qed.

(* a boot from a rejected, unmigrated record with no fault: the new record is stored and the delayed state save armed *)
Lemma do_init_reject_quiet chk r0 s c : take CFG_SIZE (fc s) = c -> migrate c = Some (c, false) -> accept c = false ->
  failc s = 0 -> crashc s = 0 ->
  let '(s', o, r) := do_init chk r0 s in
  r = 1 /\ cfg s' = fresh_of c (new_guid (en s) r0) (new_key (en s) r0) /\ sta s' = fill STATE_SIZE 0 /\
  fc s' = band_list (fill SEC_SIZE 255) (fresh_of c (new_guid (en s) r0) (new_key (en s) r0)) /\ fs s' = fs s /\
  timer s' = true /\ quiet s' /\ en s' = en s.
Proof.
  intros Hc Hm Ha Hf Hk. unfold do_init. fold (boot0 s). change (fc (boot0 s)) with (fc s). rewrite Hc, Hm, Ha.
  cbv zeta. change (en (boot0 s)) with (en s). unfold save_cfg.
  set (img := fresh_of c (new_guid (en s) r0) (new_key (en s) r0)).
  pose proof (save_sector_quiet chk false img (upd_ram (set_cfg (boot0 s) c) img (fill STATE_SIZE 0) (timer (set_cfg (boot0 s) c)))) as Q.
  destruct (save_sector chk false img _) as [[s2 o2] r2].
  destruct Q as (Q1 & Q2 & (Q3 & Q4 & Q5 & Q6) & Q7 & Q8 & Q9); [repeat split; assumption|].
  subst r2. cbn [negb sector] in Q7, Q8. repeat split; try assumption; try apply Q2.
Qed.

(* ====================================================================================== *)
(* property theorems *)
Definition valid_img (img : list Z) : Prop := len img = CFG_SIZE /\ cells_ok img /\ accept img = true.
Definition zeroG : list Z := fill GUID_SIZE 0.
Definition zeroK : list Z := fill AUTHKEY_SIZE 0.

Lemma migrate_valid img : accept img = true -> migrate img = Some (img, false).
Proof.
  intros Ha. apply accept_iff in Ha as (Ht & _). apply tag7_split in Ht as (_ & H7).
  apply migrate_other; rewrite H7; discriminate.
Qed.
Lemma take_cfg_len s : len (fc s) = SEC_SIZE -> len (take CFG_SIZE (fc s)) = CFG_SIZE.
Proof. intros H. rewrite len_take by (vm_compute; discriminate). rewrite H. vm_compute. reflexivity. Qed.
Lemma cfg_le_sec : CFG_SIZE <= SEC_SIZE. Proof. vm_compute. discriminate. Qed.
Lemma state_le_sec : STATE_SIZE <= SEC_SIZE. Proof. vm_compute. discriminate. Qed.

(* --- C13_roundtrip: one save/restart cycle and any number of them --- *)
Definition cycle (chk : bool) (r0 : Z) (s : st) : st :=
  let '(s1, _, _) := save_cfg chk (cfg s) s in
  let '(s2, _) := save_state_now chk s1 in
  let '(s3, _, _) := do_init chk r0 s2 in s3.
Lemma cycle_spec chk r0 s : quiet s -> valid_img (cfg s) -> len (sta s) = STATE_SIZE -> cells_ok (sta s) ->
  cfg (cycle chk r0 s) = cfg s /\ sta (cycle chk r0 s) = sta s /\ quiet (cycle chk r0 s) /\
  take CFG_SIZE (fc (cycle chk r0 s)) = cfg s /\ take STATE_SIZE (fs (cycle chk r0 s)) = sta s.
Proof.
  intros Hq (Hl & Hc & Ha) Hsl Hsc. unfold cycle, save_cfg.
  pose proof (save_sector_quiet chk false (cfg s) s Hq) as Q1.
  destruct (save_sector chk false (cfg s) s) as [[s1 o1] r1]. destruct Q1 as (_ & Q1 & (R1 & R2 & R3 & R4) & O1 & S1 & _).
  cbn [negb sector] in O1, S1. unfold save_state_now.
  assert (Q1' : quiet (set_timer s1 false)) by exact Q1.
  pose proof (save_sector_quiet chk true (sta s1) (set_timer s1 false) Q1') as Q2.
  destruct (save_sector chk true (sta s1) (set_timer s1 false)) as [[s2 o2] r2]. destruct Q2 as (_ & Q2 & (T1 & T2 & T3 & T4) & O2 & S2 & _).
  cbn [negb sector set_timer upd_ram fc fs cfg sta] in O2, S2, T1, T2.
  assert (Hfc : take CFG_SIZE (fc s2) = cfg s).
  { rewrite O2, S1. rewrite <- Hl at 1. apply take_written; [assumption|rewrite Hl; apply cfg_le_sec]. }
  assert (Hfs : take STATE_SIZE (fs s2) = sta s).
  { rewrite S2, R2. rewrite <- Hsl at 1. apply take_written; [assumption|rewrite Hsl; apply state_le_sec]. }
  pose proof (do_init_plain chk r0 s2 (cfg s) Hfc (migrate_valid _ Ha) Ha) as P.
  destruct (do_init chk r0 s2) as [[s3 o3] r3]. destruct P as (P1 & P2 & P3 & P4 & P5 & P6 & P7 & P8 & P9 & P10).
  destruct Q2 as (Qd & Qf & Qc).
  split; [exact P1|]. split; [congruence|]. split; [repeat split; congruence|]. split; congruence.
Qed.
Fixpoint cycles (chk : bool) (seeds : list Z) (s : st) : st :=
  match seeds with [] => s | r0 :: t => cycles chk t (cycle chk r0 s) end.
Lemma C13_roundtrip_thm chk seeds : forall s, quiet s -> valid_img (cfg s) -> len (sta s) = STATE_SIZE -> cells_ok (sta s) ->
  cfg (cycles chk seeds s) = cfg s /\ sta (cycles chk seeds s) = sta s /\
  (seeds <> [] -> take CFG_SIZE (fc (cycles chk seeds s)) = cfg s /\ take STATE_SIZE (fs (cycles chk seeds s)) = sta s).
Proof.
  induction seeds as [|r0 t IH]; intros s Hq Hv Hl Hc; [repeat split; congruence|].
  cbn [cycles]. destruct (cycle_spec chk r0 s Hq Hv Hl Hc) as (C1 & C2 & C3 & C4 & C5).
  destruct (IH (cycle chk r0 s)) as (I1 & I2 & I3); [assumption|rewrite C1; assumption|rewrite C2; assumption|rewrite C2; assumption|].
  split; [congruence|]. split; [congruence|]. intros _. destruct t as [|r1 t'].
  - cbn [cycles]. split; assumption.
  - destruct I3 as (I3 & I4); [discriminate|]. split; congruence.
Qed.

(* --- C13_commit_only_on_success --- *)
(* r is the value `1 == supla_esp_cfg_save(&new_cfg)`; by definition of save_sector it is true only if the write returned OK *)
Lemma C13_commit_thm chk image s : down s = false ->
  let '(s1, o, r) := do_post chk image s in
  (r = true -> cfg s1 = merge_undef (cfg s) image) /\ (r = false -> cfg s1 = cfg s) /\
  sta s1 = sta s /\ fs s1 = fs s /\
  (chk = true -> r = true -> fc s1 = band_list (fill SEC_SIZE 255) (merge_undef (cfg s) image) /\ down s1 = false).
Proof.
  intros Hd. unfold do_post, save_cfg.
  pose proof (save_sector_frame chk false (merge_undef (cfg s) image) s) as F.
  assert (A : chk = true -> let '(s1, _, r) := save_sector chk false (merge_undef (cfg s) image) s in
              r = true -> sector false s1 = band_list (fill SEC_SIZE 255) (merge_undef (cfg s) image) /\ down s1 = false).
  { intros ->. pose proof (save_sector_atomic false (merge_undef (cfg s) image) s Hd) as A.
    destruct (save_sector true false (merge_undef (cfg s) image) s) as [[s1 o] r]. apply A. }
  destruct (save_sector chk false (merge_undef (cfg s) image) s) as [[s1 o] r]. destruct F as ((F1 & F2 & _) & F3 & _).
  cbn [negb sector] in F3.
  destruct r.
  - split; [reflexivity|]. split; [discriminate|]. split; [exact F2|]. split; [exact F3|].
    intros Hc _. destruct (A Hc eq_refl) as (A1 & A2). split; assumption.
  - split; [discriminate|]. split; [intros _; exact F1|]. split; [exact F2|]. split; [exact F3|]. intros _ H. discriminate.
Qed.

(* --- C13_reset_keeps_identity --- *)
Definition sym_cell_ok (x : sym) : bool := match x with K b => (-1 <=? b) && (b <? 256) | S _ _ => true end.
Lemma cells_ok_nthz c i : cells_ok c -> cell_ok (nthz c i).
Proof.
  intros H. unfold nthz. destruct (nth_in_or_default (Z.to_nat i) c 0) as [Hin|Hd].
  - unfold cells_ok in H. rewrite Forall_forall in H. auto.
  - rewrite Hd. unfold cell_ok. lia.
Qed.
Lemma cells_ok_sym c L : cells_ok c -> forallb sym_cell_ok L = true -> cells_ok (map (ev (var1 c)) L).
Proof.
  intros Hc H. rewrite forallb_forall in H. unfold cells_ok. apply Forall_forall. intros b Hb.
  apply in_map_iff in Hb as (x & <- & Hx). specialize (H _ Hx). destruct x as [v i|k]; cbn [ev sym_cell_ok] in *.
  - apply cells_ok_nthz. exact Hc.
  - apply andb_prop in H as [H1 H2]. apply Z.leb_le in H1. apply Z.ltb_lt in H2. unfold cell_ok. lia.
Qed.
Lemma fd_valid c : valid_img c -> valid_img (fd c).
Proof.
  intros (Hl & Hc & Ha). pose proof (fd_keeps c Hl) as K.
  split; [apply len_fd; assumption|]. split.
  - rewrite fd_sym by assumption. apply cells_ok_sym; [assumption|vm_compute; reflexivity].
  - apply accept_iff in Ha as (A1 & A2 & A3). apply accept_iff.
    rewrite (kept_In _ _ _ O7_TAG O7_TAG TAG_SIZE K) by (cbn; tauto).
    rewrite (kept_In _ _ _ O7_AUTHKEY O7_AUTHKEY AUTHKEY_SIZE K) by (cbn; tauto).
    rewrite (kept_In _ _ _ O7_GUID O7_GUID GUID_SIZE K) by (cbn; tauto). tauto.
Qed.
Lemma C13_reset_thm chk sv s : len (cfg s) = CFG_SIZE ->
  let '(s1, o) := factory chk sv s in
  cfg s1 = fd (cfg s) /\ sta s1 = fill STATE_SIZE 0 /\ kept (cfg s1) (cfg s) ID_FIELDS.
Proof.
  intros Hl. unfold factory. destruct (sv =? 1).
  - unfold save_cfg.
    pose proof (save_sector_frame chk false (cfg (upd_ram s (fd (cfg s)) (fill STATE_SIZE 0) (timer s))) (upd_ram s (fd (cfg s)) (fill STATE_SIZE 0) (timer s))) as F.
    destruct (save_sector chk false _ _) as [[s2 o2] r2]. destruct F as ((F1 & F2 & _) & _).
    unfold save_state_now.
    pose proof (save_sector_frame chk true (sta s2) (set_timer s2 false)) as G.
    destruct (save_sector chk true (sta s2) (set_timer s2 false)) as [[s3 o3] r3]. destruct G as ((G1 & G2 & _) & _).
    cbn [cfg sta set_timer upd_ram] in *.
    assert (E : cfg s3 = fd (cfg s)) by congruence.
    split; [exact E|]. split; [congruence|]. rewrite E. apply fd_keeps. assumption.
  - cbn [cfg sta upd_ram]. split; [reflexivity|]. split; [reflexivity|]. apply fd_keeps. assumption.
Qed.
(* ... and the reset record, once saved, is what the device boots into: identity still the same *)
Lemma C13_reset_reboot_thm chk r0 s : quiet s -> valid_img (cfg s) ->
  let '(s1, _) := factory chk 1 s in
  let '(s2, _, r) := do_init chk r0 s1 in
  cfg s2 = fd (cfg s) /\ kept (cfg s2) (cfg s) ID_FIELDS /\ sta s2 = fill STATE_SIZE 0 /\ r = 1.
Proof.
  intros Hq Hv. pose proof (fd_valid _ Hv) as (Vl & Vc & Va). destruct Hv as (Hl & Hc & Ha).
  unfold factory. change (1 =? 1) with true. cbv iota. unfold save_cfg.
  set (s0 := upd_ram s (fd (cfg s)) (fill STATE_SIZE 0) (timer s)).
  assert (Q0 : quiet s0) by exact Hq.
  pose proof (save_sector_quiet chk false (cfg s0) s0 Q0) as Q1.
  destruct (save_sector chk false (cfg s0) s0) as [[s1 o1] r1]. destruct Q1 as (_ & Q1 & (R1 & R2 & R3 & R4) & O1 & S1 & _).
  cbn [negb sector] in O1, S1. unfold save_state_now.
  assert (Q1' : quiet (set_timer s1 false)) by exact Q1.
  pose proof (save_sector_quiet chk true (sta s1) (set_timer s1 false) Q1') as Q2.
  destruct (save_sector chk true (sta s1) (set_timer s1 false)) as [[s2 o2] r2]. destruct Q2 as (_ & Q2 & (T1 & T2 & T3 & T4) & O2 & S2 & _).
  cbn [negb sector set_timer upd_ram fc fs cfg sta] in O2, S2, T1, T2.
  change (cfg s0) with (fd (cfg s)) in *. change (sta s0) with (fill STATE_SIZE 0) in *.
  assert (Hfc : take CFG_SIZE (fc s2) = fd (cfg s)).
  { rewrite O2, S1. rewrite <- Vl at 1. apply take_written; [assumption|rewrite Vl; apply cfg_le_sec]. }
  pose proof (do_init_plain chk r0 s2 (fd (cfg s)) Hfc (migrate_valid _ Va) Va) as P.
  destruct (do_init chk r0 s2) as [[s3 o3] r3]. destruct P as (P1 & P2 & P3 & P4 & P5 & P6 & _).
  split; [exact P1|]. split; [rewrite P1; apply fd_keeps; assumption|]. split; [|exact P6].
  rewrite P2, S2, R2.
  assert (Lz : len (fill STATE_SIZE 0) = STATE_SIZE) by (apply len_fill; vm_compute; discriminate).
  rewrite <- Lz at 1. apply take_written; [|rewrite Lz; apply state_le_sec].
  unfold cells_ok, fill. apply Forall_forall. intros b Hb. apply repeat_spec in Hb. subst b. unfold cell_ok. lia.
Qed.

(* --- C13_migration_keeps --- *)
Lemma C13_migration_v6_thm chk r0 s c : len (fc s) = SEC_SIZE -> take CFG_SIZE (fc s) = c ->
  slice c 0 5 = TAG5 -> nthz c 5 = 6 ->
  slice c O6_GUID GUID_SIZE <> zeroG -> slice c O6_AUTHKEY AUTHKEY_SIZE <> zeroK ->
  let '(s', o, r) := do_init chk r0 s in
  r = 1 /\ kept (cfg s') c FIELDS6 /\ slice (cfg s') O7_TAG TAG_SIZE = TAG7.
Proof.
  intros Hw Hc Ht H6 Hg Hk. assert (Hl : len c = CFG_SIZE) by (rewrite <- Hc; apply take_cfg_len; assumption).
  pose proof (do_init_ram chk r0 s (mig67z c) true) as R. rewrite Hc in R. specialize (R (migrate_v6 c Hl Ht H6)).
  destruct (do_init chk r0 s) as [[s' o] r]. destruct R as (_ & R).
  pose proof (mig67z_keeps c Hl) as K.
  assert (Ha : accept (mig67z c) = true).
  { apply accept_iff. split; [apply mig67z_tag; assumption|].
    rewrite (kept_In _ _ _ O7_AUTHKEY O6_AUTHKEY AUTHKEY_SIZE K) by (cbn; tauto).
    rewrite (kept_In _ _ _ O7_GUID O6_GUID GUID_SIZE K) by (cbn; tauto). split; assumption. }
  rewrite Ha in R. destruct R as (R1 & R2). rewrite R1. split; [exact R2|]. split; [exact K|]. apply mig67z_tag; assumption.
Qed.
Lemma C13_migration_v5_thm chk r0 s c a : len (fc s) = SEC_SIZE -> take CFG_SIZE (fc s) = c ->
  slice c 0 5 = TAG5 -> nthz c 5 = 5 -> isA c = Some a ->
  slice c O5B_GUID GUID_SIZE <> zeroG -> slice c (if a then O5A_AUTHKEY else O5B_AUTHKEY) AUTHKEY_SIZE <> zeroK ->
  let '(s', o, r) := do_init chk r0 s in
  r = 1 /\ kept (cfg s') c (FIELDS5 a) /\ slice (cfg s') O7_TAG TAG_SIZE = TAG7.
Proof.
  intros Hw Hc Ht H5 HA Hg Hk. assert (Hl : len c = CFG_SIZE) by (rewrite <- Hc; apply take_cfg_len; assumption).
  pose proof (do_init_ram chk r0 s (mig67z (mig56 a c)) true) as R. rewrite Hc in R. specialize (R (migrate_v5 c a Hl Ht H5 HA)).
  destruct (do_init chk r0 s) as [[s' o] r]. destruct R as (_ & R).
  pose proof (mig57_keeps a c Hl) as K.
  assert (Htag : slice (mig67z (mig56 a c)) O7_TAG TAG_SIZE = TAG7).
  { apply mig67z_tag; [apply len_mig56; assumption|apply mig56_tag5; assumption]. }
  assert (Ha : accept (mig67z (mig56 a c)) = true).
  { apply accept_iff. split; [exact Htag|].
    rewrite (kept_In _ _ _ O7_AUTHKEY (if a then O5A_AUTHKEY else O5B_AUTHKEY) AUTHKEY_SIZE K) by (cbn; tauto).
    rewrite (kept_In _ _ _ O7_GUID O5B_GUID GUID_SIZE K) by (cbn; tauto). split; assumption. }
  rewrite Ha in R. destruct R as (R1 & R2). rewrite R1. split; [exact R2|]. split; [exact K|exact Htag].
Qed.
(* which layout a v5 record is taken for: a genuine 5B record (AuthKey set, e-mail with '@' and '.') is taken for 5B
   whenever the scans of the 5A e-mail position end inside the record; a record whose 5B AuthKey position is zero for 5A *)
Lemma isA_zero_key c : slice c O5B_AUTHKEY AUTHKEY_SIZE = zeroK -> isA c = Some true.
Proof. intros H. unfold isA. fold zeroK. rewrite H, list_eqb_refl. reflexivity. Qed.
Lemma isA_genuine_B c : slice c O5B_AUTHKEY AUTHKEY_SIZE <> zeroK -> isA c <> None ->
  strchr (drop O5B_EMAIL c) 64 = Some true -> strchr (drop O5B_EMAIL c) 46 = Some true -> isA c = Some false.
Proof.
  intros Hk Hn H1 H2. unfold isA in *. fold zeroK in *. apply list_eqb_false in Hk. rewrite Hk in *.
  destruct (strchr (drop O5A_EMAIL c) 64) as [[|]|]; [|reflexivity|contradiction].
  destruct (strchr (drop O5A_EMAIL c) 46) as [[|]|]; [|reflexivity|contradiction].
  rewrite H1, H2. reflexivity.
Qed.

(* --- C13_reject_foreign --- *)
Lemma len_new_guid e r0 : len (new_guid e r0) = GUID_SIZE.
Proof. unfold new_guid, gen_guid. rewrite len_map, len_zseq; [reflexivity|vm_compute; discriminate]. Qed.
Lemma len_new_key e r0 : len (new_key e r0) = AUTHKEY_SIZE.
Proof. unfold new_key, gen_key. rewrite len_map, len_zseq; [reflexivity|vm_compute; discriminate]. Qed.
Definition rejected (c : list Z) : Prop :=
  slice c 0 5 <> TAG5                                                         (* blank / foreign *)
  \/ (nthz c 5 <> 5 /\ nthz c 5 <> 6 /\ nthz c 5 <> 7)                        (* unknown layout version *)
  \/ (nthz c 5 = 7 /\ (slice c O7_GUID GUID_SIZE = zeroG \/ slice c O7_AUTHKEY AUTHKEY_SIZE = zeroK))   (* GUID or AuthKey zero *)
  \/ (slice c 0 5 = TAG5 /\ nthz c 5 = 6 /\ (slice c O6_GUID GUID_SIZE = zeroG \/ slice c O6_AUTHKEY AUTHKEY_SIZE = zeroK))
  \/ (slice c 0 5 = TAG5 /\ nthz c 5 = 5 /\ exists a, isA c = Some a /\
      (slice c O5B_GUID GUID_SIZE = zeroG \/ slice c (if a then O5A_AUTHKEY else O5B_AUTHKEY) AUTHKEY_SIZE = zeroK)).
Lemma C13_reject_thm chk r0 s c : len (fc s) = SEC_SIZE -> take CFG_SIZE (fc s) = c -> rejected c ->
  let '(s', o, r) := do_init chk r0 s in
  cfg s' = fresh_img (en s) r0 /\ sta s' = fill STATE_SIZE 0.
Proof.
  intros Hw Hc Hr. assert (Hl : len c = CFG_SIZE) by (rewrite <- Hc; apply take_cfg_len; assumption).
  assert (G : exists c1 m, migrate c = Some (c1, m) /\ accept c1 = false /\ len c1 = CFG_SIZE).
  { destruct Hr as [H|[(H5 & H6 & H7)|[(H7 & Hz)|[(Ht & H6 & Hz)|(Ht & H5 & a & HA & Hz)]]]].
    - exists c, false. split; [apply migrate_foreign; assumption|]. split; [|assumption].
      apply accept_false_tag. intros E. apply tag7_split in E. tauto.
    - exists c, false. split; [apply migrate_other; assumption|]. split; [|assumption].
      apply accept_false_tag. intros E. apply tag7_split in E. tauto.
    - exists c, false. split; [apply migrate_other; rewrite H7; discriminate|]. split; [|assumption].
      destruct Hz; [apply accept_false_guid|apply accept_false_key]; assumption.
    - exists (mig67z c), true. split; [apply migrate_v6; assumption|]. split; [|apply len_mig67z; assumption].
      pose proof (mig67z_keeps c Hl) as K. destruct Hz as [Hz|Hz].
      + apply accept_false_guid. rewrite (kept_In _ _ _ O7_GUID O6_GUID GUID_SIZE K) by (cbn; tauto). exact Hz.
      + apply accept_false_key. rewrite (kept_In _ _ _ O7_AUTHKEY O6_AUTHKEY AUTHKEY_SIZE K) by (cbn; tauto). exact Hz.
    - exists (mig67z (mig56 a c)), true. split; [apply migrate_v5; assumption|].
      split; [|apply len_mig67z; apply len_mig56; assumption].
      pose proof (mig57_keeps a c Hl) as K. destruct Hz as [Hz|Hz].
      + apply accept_false_guid. rewrite (kept_In _ _ _ O7_GUID O5B_GUID GUID_SIZE K) by (cbn; tauto). exact Hz.
      + apply accept_false_key. rewrite (kept_In _ _ _ O7_AUTHKEY (if a then O5A_AUTHKEY else O5B_AUTHKEY) AUTHKEY_SIZE K) by (cbn; tauto). exact Hz. }
  destruct G as (c1 & m & Hm & Ha & Hl1).
  pose proof (do_init_ram chk r0 s c1 m) as R. rewrite Hc in R. specialize (R Hm).
  destruct (do_init chk r0 s) as [[s' o] r]. destruct R as (_ & R). rewrite Ha in R. destruct R as (R1 & R2).
  split; [|exact R2]. rewrite R1. unfold fresh_img. apply fresh_of_spec; [assumption|apply len_new_guid|apply len_new_key].
Qed.
Lemma blank_rejected : rejected (take CFG_SIZE (fill SEC_SIZE 255)).
Proof. left. vm_compute. discriminate. Qed.

(* --- C13_crash_atomicity (repaired code) --- *)
Lemma C13_atomicity_thm w img s : down s = false ->
  let '(s1, o, r) := save_sector true w img s in
  (sector w s1 = sector w s \/ sector w s1 = fill SEC_SIZE 255 \/ sector w s1 = band_list (fill SEC_SIZE 255) img) /\
  sector (negb w) s1 = sector (negb w) s /\ cfg s1 = cfg s /\ sta s1 = sta s /\
  (r = true -> sector w s1 = band_list (fill SEC_SIZE 255) img).
Proof.
  intros Hd. pose proof (save_sector_atomic w img s Hd) as A. pose proof (save_sector_frame true w img s) as F.
  destruct (save_sector true w img s) as [[s1 o] r]. destruct A as (A1 & A2 & _). destruct F as ((F1 & F2 & _) & F3 & _).
  split; [exact A1|]. split; [exact F3|]. split; [exact F1|]. split; [exact F2|]. intros H. apply A2. exact H.
Qed.
(* the boot after a configuration save that failed or lost power anywhere: old record, new record or fresh defaults *)
Lemma C13_atomicity_boot_thm img s r0 : down s = false -> len (fc s) = SEC_SIZE ->
  valid_img (take CFG_SIZE (fc s)) -> valid_img img ->
  let '(s1, _, _) := save_cfg true img s in
  let '(s2, _, _) := do_init true r0 s1 in
  cfg s2 = take CFG_SIZE (fc s) \/ cfg s2 = img \/ (cfg s2 = fresh_img (en s) r0 /\ sta s2 = fill STATE_SIZE 0).
Proof.
  intros Hd Hw (Ol & Oc & Oa) (Il & Ic & Ia). unfold save_cfg.
  pose proof (save_sector_atomic false img s Hd) as A. pose proof (save_sector_frame true false img s) as F.
  destruct (save_sector true false img s) as [[s1 o] r]. destruct A as (A1 & _). destruct F as ((_ & _ & _ & Fe) & _).
  cbn [sector] in A1. destruct A1 as [A1|[A1|A1]].
  - pose proof (do_init_ram true r0 s1 (take CFG_SIZE (fc s)) false) as R. rewrite A1 in R. specialize (R (migrate_valid _ Oa)).
    destruct (do_init true r0 s1) as [[s2 o2] r2]. destruct R as (_ & R). rewrite Oa in R. left. apply R.
  - pose proof (C13_reject_thm true r0 s1 (take CFG_SIZE (fill SEC_SIZE 255))) as R.
    rewrite A1 in R. specialize (R (len_fill SEC_SIZE 255 ltac:(vm_compute; discriminate)) eq_refl blank_rejected).
    destruct (do_init true r0 s1) as [[s2 o2] r2]. right. right. rewrite <- Fe. exact R.
  - assert (E : take CFG_SIZE (fc s1) = img).
    { rewrite A1. rewrite <- Il at 1. apply take_written; [assumption|rewrite Il; apply cfg_le_sec]. }
    pose proof (do_init_ram true r0 s1 img false) as R. rewrite E in R. specialize (R (migrate_valid _ Ia)).
    destruct (do_init true r0 s1) as [[s2 o2] r2]. destruct R as (_ & R). rewrite Ia in R. right. left. apply R.
Qed.

(* --- the code before the repair: a failed erase is ignored, the write lands on the old cells --- *)
Definition wit_img (b : Z) : list Z :=
  blit (blit (blit (blit (fill CFG_SIZE 0) O7_TAG TAG7) O7_GUID (fill GUID_SIZE 1)) O7_AUTHKEY (fill AUTHKEY_SIZE 2)) O7_SERVER [b].
Definition wit_st : st :=
  {| cfg := wit_img 240; sta := fill STATE_SIZE 0; fc := band_list (fill SEC_SIZE 255) (wit_img 15); fs := fill SEC_SIZE 255;
     failc := 1; failcode := FLASH_TIMEOUT; crashc := 0; timer := false; down := false; en := en init_st |}.
Lemma C13_old_code_refuted_thm :
  (* old code: the save of record 240 "succeeds" but the sector holds neither it nor the old record 15, and the next boot accepts the mix *)
  (let '(s1, _, r) := save_cfg false (cfg wit_st) wit_st in
   r = true /\ take CFG_SIZE (fc s1) <> wit_img 240 /\ take CFG_SIZE (fc s1) <> wit_img 15 /\
   let '(s2, _, _) := do_init false 0 s1 in cfg s2 = wit_img 0) /\
  (* repaired code: the save fails and the sector still holds the old record *)
  (let '(s1, _, r) := save_cfg true (cfg wit_st) wit_st in r = false /\ take CFG_SIZE (fc s1) = wit_img 15) /\
  accept (wit_img 240) = true /\ accept (wit_img 15) = true.
Proof. vm_compute. repeat split; try reflexivity; discriminate. Qed.

(* the boot after a STATE save that failed or lost power anywhere: configuration untouched, state = old, new, or the erased
   cells (the state sector is loaded without any validity test — see the report) *)
Lemma C13_atomicity_state_boot_thm stt s r0 : down s = false -> valid_img (take CFG_SIZE (fc s)) ->
  len stt = STATE_SIZE -> cells_ok stt ->
  let '(s1, _, _) := save_sector true true stt s in
  let '(s2, _, _) := do_init true r0 s1 in
  cfg s2 = take CFG_SIZE (fc s) /\
  (sta s2 = take STATE_SIZE (fs s) \/ sta s2 = fill STATE_SIZE 255 \/ sta s2 = stt).
Proof.
  intros Hd (Ol & Oc & Oa) Sl Sc.
  pose proof (save_sector_atomic true stt s Hd) as A. pose proof (save_sector_frame true true stt s) as F.
  destruct (save_sector true true stt s) as [[s1 o] r]. destruct A as (A1 & _). destruct F as (_ & F & _).
  cbn [negb sector] in A1, F.
  pose proof (do_init_plain true r0 s1 (take CFG_SIZE (fc s))) as P. rewrite F in P. specialize (P eq_refl (migrate_valid _ Oa) Oa).
  destruct (do_init true r0 s1) as [[s2 o2] r2]. destruct P as (P1 & P2 & _).
  split; [exact P1|]. rewrite P2. destruct A1 as [A1|[A1|A1]]; rewrite A1.
  - left. reflexivity.
  - right. left. vm_compute. reflexivity.
  - right. right. rewrite <- Sl at 1. apply take_written; [assumption|rewrite Sl; apply state_le_sec].
Qed.

(* decidable form of cells_ok, for examples *)
Definition cells_okb (l : list Z) : bool := forallb (fun b => (-1 <=? b) && (b <? 256)) l.
Lemma cells_okb_ok l : cells_okb l = true -> cells_ok l.
Proof.
  unfold cells_okb, cells_ok. rewrite forallb_forall. intros H. apply Forall_forall. intros b Hb. specialize (H _ Hb).
  apply andb_prop in H as [H1 H2]. apply Z.leb_le in H1. apply Z.ltb_lt in H2. unfold cell_ok. lia.
Qed.
Lemma wit_valid b : b = 15 \/ b = 240 -> valid_img (wit_img b).
Proof. intros [->| ->]; (split; [vm_compute; reflexivity|]; split; [apply cells_okb_ok; vm_compute; reflexivity|vm_compute; reflexivity]). Qed.

(* ====================================================================================== *)
(* shape pins: the erase/write sequences the real functions issue on a healthy flash (measured by the translator probe)
   are the ones the model issues *)
Definition ops_of (o : list out) : list (list Z) :=
  flat_map (fun x => match x with OFlash op a n => [[op; a; n]] | _ => [] end) o.
Definition v6_probe_img : list Z :=
  blit (blit (blit (fill V6_SIZE 0) 0 (TAG5 ++ [6])) O6_GUID (fill GUID_SIZE 1)) O6_AUTHKEY (fill AUTHKEY_SIZE 1).
Lemma C13_shape_thm :
  ops_of (snd (fst (save_cfg CURRENT_CHK (fill CFG_SIZE 0) init_st))) = OPS_CFG_SAVE /\
  ops_of (snd (save_state_now CURRENT_CHK init_st)) = OPS_STATE_SAVE /\
  ops_of (snd (factory CURRENT_CHK 1 init_st)) = OPS_FACTORY_SAVE /\
  ops_of (snd (fst (do_init CURRENT_CHK 0 init_st))) = OPS_INIT_BLANK /\
  (let s6 := set_sector false (fit SEC_SIZE 255 v6_probe_img) init_st in
   let '(s7, o, r) := do_init CURRENT_CHK 0 s6 in
   ops_of o = OPS_INIT_V6 /\ r = 1 /\ INIT_V6_ACCEPTED = 1 /\
   len (ops_of (snd (fst (do_init CURRENT_CHK 0 s7)))) = OPS_INIT_V7_COUNT).
Proof. vm_compute. repeat split; reflexivity. Qed.
