From Coq Require Import List ZArith.
Import ListNotations.
From V Require Import Base.Bytes Gen.DnsConsts C20.Model C20.Proofs.
Local Open Scope Z_scope.
Theorem C20_stub : True. Proof. exact stub. Qed.
Print Assumptions C20_stub.
