(* C20 — Fallback DNS resolver is safe on any reply and always calls back exactly once.
   Property theorems only: each is closed by `exact` of a lemma proved in C20/Proofs.v.
   The model (C20/Model.v) is the code of supla_esp_dns_client.c with the repair
   docs/fixes/C20_short_name_stale_state.diff (`step true`); `step false` is the code without it.
   Histories are arbitrary lists of events
     Resolve name | ConnectCb | DisconnectCb | ReconnectCb err | Recv bytes | SentRes r | ConnRes r | DiscRes r | Adv dt | Dump
   in any order; the only side condition is that a received segment is shorter than 65536 bytes
   (the length parameter of the receive callback is an unsigned short). *)
From Coq Require Import List ZArith.
Import ListNotations.
From V Require Import Base.Bytes Gen.DnsConsts C20.Model C20.Proofs.
Local Open Scope Z_scope.

(* Whatever bytes arrive, in whatever order with all other events: no read outside the received
   buffer, no write outside the request buffer, no index outside the server table (Fault), and the
   timer loop of one `Adv` always terminates within its fuel (Fuel), and the receive callback returns: the
   name-skip loop ends within len iterations because its index (width read from its declaration) cannot wrap
   for len < 65536 (Hang). *)
Theorem C20_reply_safe : forall evs, Forall ev_ok evs ->
  ~ In Fault (run evs) /\ ~ In Fuel (run evs) /\ ~ In Hang (run evs).
Proof. exact C20_reply_safe_thm. Qed.
Print Assumptions C20_reply_safe.

(* The parser hands out an address exactly for the replies described by the property:
   consistent length prefix, RCODE 0, ANCOUNT >= 1, first answer (after the echoed question) of
   type A / class IN with RDLENGTH 4 -- and the address is exactly those four bytes. *)
Theorem C20_parse_iff_valid : forall dl b a, PREFIX_SIZE + HEADER_SIZE <= dl -> len b < 65536 ->
  (parse dl b = PAddr a <-> valid_reply dl b a).
Proof. exact C20_parse_iff_valid_thm. Qed.
Print Assumptions C20_parse_iff_valid.

(* Every address ever handed to the result callback, at any point of any history, is the address of an
   acceptable reply received (while callbacks were registered) after the last resolve request. *)
Theorem C20_address_iff_valid : forall pre e a, Forall ev_ok pre -> ev_ok e ->
  In (CB (Some a)) (snd (step true (after pre) e)) ->
  is_resolve e = false /\
  exists pre1 b mid, pre = pre1 ++ Recv b :: mid /\ no_resolve mid /\
                     reg (after pre1) = true /\ valid_reply (dlen (after pre1)) b a.
Proof. exact C20_address_iff_valid_thm. Qed.
Print Assumptions C20_address_iff_valid.

(* ... more precisely: of a reply that is acceptable for the request built for the name being resolved,
   received after that request was made (and that name was long enough to be sent at all). *)
Theorem C20_address_of_request : forall pre0 name mid e a,
  Forall ev_ok pre0 -> Forall ev_ok mid -> ev_ok e -> no_resolve mid ->
  In (CB (Some a)) (snd (step true (after (pre0 ++ Resolve name :: mid)) e)) ->
  DOMAIN_MIN <= domain_len name /\
  exists m1 b m2, mid = m1 ++ Recv b :: m2 /\ valid_reply (request_len (domain_len name)) b a.
Proof. exact C20_address_of_request_thm. Qed.
Print Assumptions C20_address_of_request.

(* Conversely an acceptable reply is taken: address stored, connection closed. *)
Theorem C20_valid_reply_accepted : forall pre b a, Forall ev_ok pre -> len b < 65536 ->
  reg (after pre) = true -> valid_reply (dlen (after pre)) b a ->
  let s' := fst (step true (after pre) (Recv b)) in
  success s' = true /\ ip s' = a /\ snd (step true (after pre) (Recv b)) = [Disconnect (now (after pre))].
Proof. exact C20_valid_reply_accepted_thm. Qed.
Print Assumptions C20_valid_reply_accepted.

(* The rule used to find the end of the answer's name (first 0 byte or first pointer byte) is the
   RFC 1035 label walk for every name whose label bytes are ordinary characters. *)
Theorem C20_name_rule_is_rfc : forall p n, rfc_name p n -> name_skip p = Some n.
Proof. exact C20_name_rule_is_rfc_thm. Qed.
Print Assumptions C20_name_rule_is_rfc.

(* At most once: for a request that is not superseded by another resolve, at every later point of every
   history, (number of callbacks made for it) + (1 if the callback is still owed) = 1. *)
Theorem C20_at_most_once : forall pre name post,
  Forall ev_ok pre -> Forall ev_ok post -> no_resolve post ->
  let s0 := fst (step true (after pre) (Resolve name)) in
  let o0 := snd (step true (after pre) (Resolve name)) in
  let s' := fst (run_from true s0 post) in
  let o' := snd (run_from true s0 post) in
  cb_count (o0 ++ o') + b2z (cbp s') = 1.
Proof. exact C20_at_most_once_thm. Qed.
Print Assumptions C20_at_most_once.

(* ... and over whole histories, superseded requests included, callbacks never outnumber requests. *)
Theorem C20_callbacks_le_requests : forall evs, Forall ev_ok evs -> cb_count (run evs) <= res_count evs.
Proof. exact C20_callbacks_le_requests_thm. Qed.
Print Assumptions C20_callbacks_le_requests.

(* Exactly once within the bounded retry schedule, whatever the servers do.
   While the callback is owed: (1) a timer is armed (the resolver cannot get stuck); (2) fewer than
   2*SERVER_COUNT-1 timer callbacks have run since the request (every firing lowers the measure
   mu = 2*(SERVER_COUNT - try_counter) + [timeout armed]); (3) the clock has not passed
   W 1 = SERVER_COUNT*timeout + (SERVER_COUNT-1)*retry after the request, extended by one retry delay per
   network callback delivered (a callback can only re-arm the 0.2 s retry timer).
   Timers fire when due (the semantics of `Adv`): this is the fairness assumption, built into the event.
   `post` may contain any `ConnRes r` / `SentRes r` / `DiscRes r` events: the statement holds for every sequence of results of
   espconn_connect, espconn_sent and espconn_disconnect (the timeout timer is armed before espconn_connect is called, its result is ignored).
   Hence, as soon as the advanced time exceeds that bound the callback has been made -- exactly once. *)
Theorem C20_exactly_once_bounded : forall pre name post,
  Forall ev_ok pre -> Forall ev_ok post -> no_resolve post ->
  let s0 := fst (step true (after pre) (Resolve name)) in
  let o0 := snd (step true (after pre) (Resolve name)) in
  let s' := fst (run_from true s0 post) in
  let o' := snd (run_from true s0 post) in
  (cbp s' = true ->
     (armed (tT s') = true \/ armed (tR s') = true) /\
     fires s' - fires s0 <= 2 * SERVER_COUNT - 2 /\
     now s' <= now s0 + W 1 + RETRY_US * net_count post) /\
  now s' = now s0 + elapsed_all post /\
  (W 1 + RETRY_US * net_count post < elapsed_all post -> cb_count (o0 ++ o') = 1) /\
  (domain_len name < DOMAIN_MIN -> o0 = [CB None]).
Proof. exact C20_exactly_once_bounded_thm. Qed.
Print Assumptions C20_exactly_once_bounded.

(* The request encoder stays inside the domain_len + 2 bytes reserved for the encoded name, for every
   name (any length, any bytes), and the request has the announced length. *)
Theorem C20_encoder_bounded : forall name,
  exists r, build_request name = Some r /\ len r = request_len (domain_len name).
Proof. exact C20_encoder_bounded_thm. Qed.
Print Assumptions C20_encoder_bounded.

(* The code without the repair: (1) a name shorter than DOMAIN_MIN_LEN on a fresh device makes the retry
   run without a request, and a two-byte segment is then parsed beyond its end; (2) a short name after a
   successful resolution is answered with the previous address.  The repaired code answers both with failure. *)
Theorem C20_old_code_refuted :
  In Fault (snd (run_from false init witness_fault)) /\
  run witness_fault = [CB None] /\
  snd (run_from false init witness_stale) =
    [Disconnect 0; Connect 53 0 0 [8;8;8;8];
     Sent 0 0 [0;22; 1;0; 1;0; 0;1; 0;0; 0;0; 0;0; 4;97;98;99;100;0; 0;1;0;1];
     Disconnect 0; CB (Some [10;20;30;40]); CB (Some [10;20;30;40])] /\
  run witness_stale =
    [Disconnect 0; Connect 53 0 0 [8;8;8;8];
     Sent 0 0 [0;22; 1;0; 1;0; 0;1; 0;0; 0;0; 0;0; 4;97;98;99;100;0; 0;1;0;1];
     Disconnect 0; CB (Some [10;20;30;40]); CB None].
Proof. exact C20_old_code_refuted_thm. Qed.
Print Assumptions C20_old_code_refuted.

(* non-vacuity: an acceptable reply exists; the failure schedule runs over the four servers and ends at
   W 1 = 20.6 s with the failure callback; the bound of the theorem is that number *)
Example C20_nonvacuous :
  valid_reply 24 good_reply [10;20;30;40] /\
  run [Resolve [97;98;99;100]; Adv 21000000] =
    [Disconnect 0; Connect 53 0 0 [8;8;8;8];
     Disconnect 5000000; Disconnect 5200000; Connect 53 5200000 0 [1;1;1;1];
     Disconnect 10200000; Disconnect 10400000; Connect 53 10400000 0 [8;8;4;4];
     Disconnect 15400000; Disconnect 15600000; Connect 53 15600000 0 [1;0;0;1];
     Disconnect 20600000; CB None] /\
  W 1 = 20600000 /\ 2 * SERVER_COUNT - 2 = 6.
Proof. split; [exact good_reply_valid|]. split; [exact schedule_example|]. vm_compute. split; reflexivity. Qed.
Print Assumptions C20_nonvacuous.
