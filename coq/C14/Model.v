(* C14 — executable model of the configuration-form handler of supla_esp_cfgmode.c:
   supla_esp_recv_callback (POST branch, commit block), supla_esp_parse_request,
   supla_esp_parse_proto_var, supla_esp_parse_vars, HexToInt, cfg_str2int, cfg_str2centInt.
   The variable table, ids, offsets and limits are the generated constants of Gen/C14Vars.v.
   Every C memory access goes through a checked primitive that records a fault code when the access
   leaves its object:  1 = read outside the TCP segment, 2 = read of an uninitialised tempPassword cell,
   3 = write outside the destination buffer/field, 4 = segment length wrapped below zero.
   `fixes` selects the code before/after the proposed repairs (docs/fixes/C14_*.diff).
   Definitions only. *)
From Coq Require Import List ZArith Bool.
Import ListNotations.
From V Require Import Base.Bytes Base.Iface Gen.C14Vars.
Local Open Scope Z_scope.

Record fixes := {
  fx_temp : bool;   (* tempPassword[0] initialised at the start of supla_esp_parse_vars *)
  fx_pro : bool;    (* supla_esp_parse_proto_var does not read pdata[len] *)
  fx_hdr : bool;    (* the header-end loop of supla_esp_parse_request stops at the first match *)
  fx_clip : bool;   (* the restored long-password tail keeps room for its terminator *)
  fx_stale : bool   (* no overflow part stored: an empty one is written behind the new name *)
}.
Definition FIXED : fixes := {| fx_temp := true; fx_pro := true; fx_hdr := true; fx_clip := true; fx_stale := true |}.
Definition UNFIXED : fixes := {| fx_temp := false; fx_pro := false; fx_hdr := false; fx_clip := false; fx_stale := false |}.
(* the tree after the first four repairs (commits 2ca076d e200da5 086a6ad 820ad9a), before C14_stale_name_tail.diff *)
Definition FIXED4 : fixes := {| fx_temp := true; fx_pro := true; fx_hdr := true; fx_clip := true; fx_stale := false |}.

(* ---------- small helpers ---------- *)
Fixpoint cstr (l : list Z) : list Z :=
  match l with [] => [] | b :: r => if b =? 0 then [] else b :: cstr r end.
Definition strnlen (l : list Z) (n : Z) : Z := len (cstr (take n l)).
Definition upd {A} (l : list A) (i : Z) (v : A) : list A := take i l ++ v :: drop (i + 1) l.
Definition blit (l : list Z) (off : Z) (b : list Z) : list Z := take off l ++ b ++ drop (off + len b) l.
Definition slice (l : list Z) (off n : Z) : list Z := take n (drop off l).
Definition s32 (v : Z) : Z := let w := v mod 4294967296 in if 2147483648 <=? w then w - 4294967296 else w.
Definition u8 (v : Z) : Z := v mod 256.
Definition s8 (v : Z) : Z := let w := v mod 256 in if 128 <=? w then w - 256 else w.
Definition char_val (sg : bool) (b : Z) : Z := if sg && (128 <=? b) then b - 256 else b.

(* HexToInt(str, 2) on the two bytes after '%' *)
Definition hexn (c : Z) : Z :=
  if (65 <=? c) && (c <=? 70) then c - 55 else if (97 <=? c) && (c <=? 102) then c - 87
  else if (48 <=? c) && (c <=? 57) then c - 48 else 0.
Definition hex2 (c1 c2 : Z) : Z := 16 * hexn c1 + hexn c2.

(* cfg_str2int on a terminated buffer (32-bit wrapping arithmetic, as the target computes) *)
Fixpoint str2int_go (l : list Z) (acc : Z) : Z :=
  match l with
  | [] => acc
  | c :: r => if c =? 0 then acc
              else str2int_go r (if (48 <=? c) && (c <=? 57) then s32 (acc * 10 + c - 48) else acc)
  end.
Definition str2int (l : list Z) : Z :=
  match l with
  | 45 :: r => s32 (- str2int_go r 0)
  | _ => str2int_go l 0
  end.
(* cfg_str2centInt(str, decLimit) *)
Fixpoint cent_go (l : list Z) (lim : Z) (acc dp : Z) : Z * Z :=
  match l with
  | [] => (acc, dp)
  | c :: r =>
    if c =? 0 then (acc, dp) else
    let '(acc1, dp1) :=
      if (48 <=? c) && (c <=? 57) then (s32 (acc * 10 + c - 48), if 0 <=? dp then dp + 1 else dp)
      else if (c =? 46) || (c =? 44) then (acc, dp + 1) else (acc, dp) in
    if lim <=? dp1 then (acc1, dp1) else cent_go r lim acc1 dp1
  end.
Fixpoint pad10 (f : nat) (acc dp lim : Z) : Z :=
  match f with O => acc | S f' => if dp <? lim then pad10 f' (s32 (acc * 10)) (dp + 1) lim else acc end.
Definition str2cent (l : list Z) (lim : Z) : Z :=
  let '(acc, dp) := cent_go l lim 0 (-1) in
  let dp := if dp <? 0 then 0 else dp in
  pad10 (Z.to_nat lim) acc dp lim mod 4294967296.

(* ---------- state ---------- *)
(* per-connection parser state (TrivialHttpParserVars); tk/toff/bsize describe pbuff:
   tk 0 = new_cfg + toff, 1 = intval, 2 = tempPassword, 3 = user_cmd *)
Record pvars := { step : Z; typ : Z; cur : Z; matched : Z; tk : Z; toff : Z; bsize : Z; offs : Z; ival : list Z }.
Definition pv0 : pvars :=
  {| step := 0; typ := 0; cur := 0; matched := 0; tk := 1; toff := 0; bsize := 0; offs := 0; ival := zeros INTVAL_SIZE |}.
(* objects that live during one call of supla_esp_recv_callback, plus the global user_cmd *)
Record mem := { ncfg : list Z; temp : list (option Z); cmd : option (list Z); rb : Z; flt : list Z }.

Definition fault (m : mem) (code : Z) : mem :=
  {| ncfg := ncfg m; temp := temp m; cmd := cmd m; rb := rb m; flt := flt m ++ [code] |}.
Definition set_ncfg (m : mem) (c : list Z) : mem :=
  {| ncfg := c; temp := temp m; cmd := cmd m; rb := rb m; flt := flt m |}.
Definition set_temp (m : mem) (t : list (option Z)) : mem :=
  {| ncfg := ncfg m; temp := t; cmd := cmd m; rb := rb m; flt := flt m |}.
Definition set_cmd (m : mem) (c : option (list Z)) : mem :=
  {| ncfg := ncfg m; temp := temp m; cmd := c; rb := rb m; flt := flt m |}.
Definition set_rb (m : mem) (r : Z) : mem :=
  {| ncfg := ncfg m; temp := temp m; cmd := cmd m; rb := r; flt := flt m |}.

Definition set_ival (p : pvars) (l : list Z) : pvars :=
  {| step := step p; typ := typ p; cur := cur p; matched := matched p; tk := tk p; toff := toff p; bsize := bsize p; offs := offs p; ival := l |}.
Definition set_offs (p : pvars) (o : Z) : pvars :=
  {| step := step p; typ := typ p; cur := cur p; matched := matched p; tk := tk p; toff := toff p; bsize := bsize p; offs := o; ival := ival p |}.
Definition open_var (p : pvars) (v k o s : Z) : pvars :=
  {| step := step p; typ := typ p; cur := v; matched := matched p; tk := k; toff := o; bsize := s; offs := offs p; ival := ival p |}.
Definition close_var (p : pvars) : pvars :=
  {| step := step p; typ := typ p; cur := 0; matched := (matched p + 1 + 32768) mod 65536 - 32768; tk := tk p; toff := toff p; bsize := bsize p; offs := offs p; ival := ival p |}.
Definition set_step (p : pvars) (s t : Z) : pvars :=
  {| step := s; typ := t; cur := cur p; matched := matched p; tk := tk p; toff := toff p; bsize := bsize p; offs := offs p; ival := ival p |}.

(* checked read of the segment: value (0 when outside) and the memory with a fault recorded *)
Definition rd (seg : list Z) (a : Z) : Z := if (0 <=? a) && (a <? len seg) then nthz seg a else 0.
Definition chk (seg : list Z) (a : Z) (m : mem) : mem := if (0 <=? a) && (a <? len seg) then m else fault m 1.

(* pbuff[i] = v *)
Definition store (p : pvars) (m : mem) (i v : Z) : pvars * mem :=
  if negb ((0 <=? i) && (i <? bsize p)) then (p, fault m 3) else
  if tk p =? 0 then
    if (0 <=? toff p) && (toff p + i <? len (ncfg m)) then (p, set_ncfg m (upd (ncfg m) (toff p + i) v)) else (p, fault m 3)
  else if tk p =? 1 then
    if i <? len (ival p) then (set_ival p (upd (ival p) i v), m) else (p, fault m 3)
  else if tk p =? 2 then
    if i <? len (temp m) then (p, set_temp m (upd (temp m) i (Some v))) else (p, fault m 3)
  else
    match cmd m with
    | Some c => if i <? len c then (p, set_cmd m (Some (upd c i v))) else (p, fault m 3)
    | None => (p, fault m 3)
    end.

(* pbuff[offset] = v; offset++ *)
Definition fill (p : pvars) (m : mem) (v : Z) : pvars * mem :=
  let '(p', m') := store p m (offs p) v in (set_offs p' (offs p + 1), m').

(* the terminator written when a value ends *)
Definition terminate (p : pvars) (m : mem) : pvars * mem :=
  if offs p <? bsize p then store p m (offs p) 0 else store p m (bsize p - 1) 0.

Definition flags_of (c : list Z) : Z := le32 c O_Flags.
Definition set_flags (c : list Z) (f : Z) : list Z := blit c O_Flags (enc32 f).
Definition flag_set (c : list Z) (mask : Z) (on : bool) : list Z :=
  set_flags c (if on then Z.lor (flags_of c) mask else Z.land (flags_of c) (4294967295 - mask)).

(* ---------- supla_esp_parse_proto_var ---------- *)
(* one iteration at index a; returns (continue?, next a, state) *)
Definition proto_body (fx : fixes) (seg : list Z) (p : pvars) (m : mem) (a : Z) : bool * Z * pvars * mem :=
  let n := len seg in
  let '(p1, m1, a1) :=
    if cur p =? 0 then
      if (4 <=? n - a) && (rd seg (a + 3) =? 61) then
        let p' := if (rd seg a =? 112) && (rd seg (a + 1) =? 114) && (rd seg (a + 2) =? 111)
                  then open_var p VAR_PRO 1 0 INTVAL_SIZE else p in
        (set_offs p' 0, m, a + 4)
      else (p, m, a)
    else (p, m, a) in
  if cur p1 =? VAR_PRO then
    let '(p2, m2) :=
      if fx_pro fx && negb (a1 <? n) then (p1, m1)
      else fill p1 (chk seg a1 m1) (rd seg a1) in
    if (bsize p2 <=? offs p2) || (n - 1 <=? a1) || (rd seg a1 =? 38) then
      let '(p3, m3) := terminate p2 m2 in
      let p4 := close_var p3 in
      let on := nthz (ival p4) 0 =? 49 in
      (false, a1 + 1, p4, set_ncfg m3 (flag_set (ncfg m3) F_MQTT_ENABLED on))
    else (true, a1 + 1, p2, m2)
  else (true, a1 + 1, p1, m1).

Fixpoint proto_loop (fuel : nat) (fx : fixes) (seg : list Z) (p : pvars) (m : mem) (a : Z) : pvars * mem :=
  match fuel with
  | O => (p, m)
  | S f => if a <? len seg then
             let '(go, a', p', m') := proto_body fx seg p m a in
             if go then proto_loop f fx seg p' m' a' else (p', m')
           else (p, m)
  end.

(* ---------- supla_esp_parse_vars ---------- *)
Definition row_match (n0 n1 n2 : Z) (r : list Z) : bool := (nthz r 1 =? n0) && (nthz r 2 =? n1) && (nthz r 3 =? n2).
Definition find_var (n0 n1 n2 : Z) : option (list Z) := find (row_match n0 n1 n2) VARTAB.
Definition guard_ok (r : list Z) (c : list Z) : bool :=
  if nthz r 7 =? 0 then true
  else let on := negb (Z.land (flags_of c) (nthz r 7) =? 0) in if nthz r 8 =? 0 then on else negb on.

(* what happens when the value of variable `v` is complete *)
Definition digit0 (p : pvars) : Z := u8 (nthz (ival p) 0 - 48).
Definition is1 (p : pvars) : bool := nthz (ival p) 0 =? 49.
Definition setb (c : list Z) (off v : Z) : list Z := upd c off v.
Definition bit (c : list Z) (off k : Z) (on : bool) : list Z :=
  upd c off (if on then Z.lor (nthz c off) (2 ^ k) else Z.land (nthz c off) (255 - 2 ^ k)).
(* a value of more than 9 characters cannot be valid (and would overflow int): rejected (docs/fixes/C14_numeric_acceptance.diff) *)
Definition short_num (p : pvars) : bool := strnlen (ival p) INTVAL_SIZE <=? 9.
(* cfg_str2margin: the range is checked before the value is narrowed to signed char *)
Definition margin (c : list Z) (i : Z) (p : pvars) : list Z :=
  let v := str2int (ival p) in
  upd c (O_AdditionalTimeMargin + i) (u8 (if negb (short_num p) || (v <? -1) || (100 <? v) then -1 else v)).
(* the code before that repair: narrowed to signed char first, then checked *)
Definition margin_old (c : list Z) (i : Z) (p : pvars) : list Z :=
  let v := s8 (str2int (ival p)) in
  upd c (O_AdditionalTimeMargin + i) (u8 (if (v <? -1) || (100 <? v) then -1 else v)).

Definition action (sg : bool) (p : pvars) (m : mem) : mem :=
  let v := cur p in let c := ncfg m in
  let cf := fun c' => set_ncfg m c' in
  if v =? VAR_LID then cf (blit c O_LocationID (enc32 (str2int (ival p) mod 4294967296)))
  else if v =? VAR_CFGBTN then cf (setb c O_CfgButtonType (digit0 p))
  else if v =? VAR_BTN1 then cf (setb c O_Button1Type (digit0 p))
  else if v =? VAR_BTN2 then cf (setb c O_Button2Type (digit0 p))
  else if v =? VAR_SBT then cf (setb c O_StaircaseButtonType (digit0 p))
  else if v =? VAR_ICF then cf (setb c O_InputCfgTriggerOff (if is1 p then 1 else 0))
  else if v =? VAR_LED then cf (setb c O_StatusLedOff (digit0 p))
  else if v =? VAR_UPD then cf (setb c O_FirmwareUpdate (digit0 p))
  else if v =? VAR_RBT then set_rb m (digit0 p)
  else if v =? VAR_USD then cf (setb c O_MotorUpsideDown (if is1 p then 1 else 0))
  else if v =? VAR_US0 then cf (bit c O_MotorUpsideDown 0 (is1 p))
  else if v =? VAR_US1 then cf (bit c O_MotorUpsideDown 1 (is1 p))
  else if v =? VAR_US2 then cf (bit c O_MotorUpsideDown 2 (is1 p))
  else if v =? VAR_US3 then cf (bit c O_MotorUpsideDown 3 (is1 p))
  else if v =? VAR_BUD then cf (setb c O_ButtonsUpsideDown (if is1 p then 1 else 0))
  else if v =? VAR_BU0 then cf (bit c O_ButtonsUpsideDown 0 (is1 p))
  else if v =? VAR_BU1 then cf (bit c O_ButtonsUpsideDown 1 (is1 p))
  else if v =? VAR_BU2 then cf (bit c O_ButtonsUpsideDown 2 (is1 p))
  else if v =? VAR_BU3 then cf (bit c O_ButtonsUpsideDown 3 (is1 p))
  else if v =? VAR_TM0 then cf (margin c 0 p)
  else if v =? VAR_TM1 then cf (margin c 1 p)
  else if v =? VAR_TM2 then cf (margin c 2 p)
  else if v =? VAR_TM3 then cf (margin c 3 p)
  else if v =? VAR_TRG then cf (setb c O_Trigger (digit0 p))
  else if v =? VAR_PRT then
    let port := str2int (ival p) in
    if (0 <? port) && (port <=? 65535) && short_num p then cf (blit c O_LocationID (enc32 port)) else m
  else if v =? VAR_TLS then cf (flag_set c F_MQTT_TLS (is1 p))
  else if v =? VAR_QOS then
    let q := nthz (ival p) 0 in
    if (48 <=? q) && (q <=? 50) && (nthz (ival p) 1 =? 0) then cf (setb c O_MqttQoS (q - 48)) else m
  else if v =? VAR_RET then cf (flag_set c F_MQTT_NO_RETAIN (is1 p))
  else if v =? VAR_MAU then cf (flag_set c F_MQTT_NO_AUTH (negb (is1 p)))
  else if v =? VAR_PPD then
    let d := str2int (ival p) in
    if (0 <=? d) && (d <=? PPD_LIMIT) then cf (setb c O_MqttPoolPublicationDelay (u8 d)) else m
  else if v =? VAR_TH1 then cf (blit c O_OvercurrentThreshold1 (enc32 (str2cent (ival p) 2)))
  else if v =? VAR_TH2 then cf (blit c O_OvercurrentThreshold2 (enc32 (str2cent (ival p) 2)))
  else if v =? VAR_BP0 then cf (setb c (O_ButtonType + 0) (digit0 p))
  else if v =? VAR_BP1 then cf (setb c (O_ButtonType + 1) (digit0 p))
  else if v =? VAR_BP2 then cf (setb c (O_ButtonType + 2) (digit0 p))
  else if v =? VAR_BP3 then cf (setb c (O_ButtonType + 3) (digit0 p))
  else if v =? VAR_BM0 then cf (setb c (O_ButtonMode + 0) (digit0 p))
  else if v =? VAR_BM1 then cf (setb c (O_ButtonMode + 1) (digit0 p))
  else if v =? VAR_BM2 then cf (setb c (O_ButtonMode + 2) (digit0 p))
  else if v =? VAR_BM3 then cf (setb c (O_ButtonMode + 3) (digit0 p))
  else if v =? VAR_TC0 then cf (setb c (O_TiltControlType + 0) (digit0 p))
  else if v =? VAR_TC1 then cf (setb c (O_TiltControlType + 1) (digit0 p))
  else if v =? VAR_TC2 then cf (setb c (O_TiltControlType + 2) (digit0 p))
  else if v =? VAR_TC3 then cf (setb c (O_TiltControlType + 3) (digit0 p))
  else m.

(* one iteration of the for loop at index a (a < len), in three parts; `chk` marks every read of
   pdata, in the order and under the short-circuit conditions of the C code *)
(* 1. no variable open: look for `xyz=` *)
Definition vb_open (seg : list Z) (p : pvars) (m : mem) (a : Z) : pvars * mem * Z :=
  let n := len seg in
  if cur p =? 0 then
    if 4 <=? n - a then
      let m := chk seg (a + 3) m in
      if rd seg (a + 3) =? 61 then
        let m := chk seg (a + 2) (chk seg (a + 1) (chk seg a m)) in
        let '(p', m') :=
          match find_var (rd seg a) (rd seg (a + 1)) (rd seg (a + 2)) with
          | Some r =>
            let m0 := if nthz r 5 =? 3 then (match cmd m with None => set_cmd m (Some (zeros CMD_SIZE)) | Some _ => m end) else m in
            if guard_ok r (ncfg m) then (open_var p (nthz r 0) (nthz r 5) (nthz r 6) (nthz r 4), m0) else (p, m0)
          | None => (p, m)
          end in
        (set_offs p' 0, m', a + 4)
      else (p, m, a)
    else (p, m, a)
  else (p, m, a).
(* 2. a variable is open: take one character of its value *)
Definition vb_fill (seg : list Z) (p1 : pvars) (m1 : mem) (a1 : Z) : pvars * mem * Z :=
  let n := len seg in
  if (offs p1 <? bsize p1) && (a1 <? n) then
    let m1 := chk seg a1 m1 in
    if negb (rd seg a1 =? 38) then
      if (rd seg a1 =? 37) && (a1 + 2 <? n) then
        let m1 := chk seg (a1 + 2) (chk seg (a1 + 1) m1) in
        let '(p', m') := fill p1 m1 (u8 (hex2 (rd seg (a1 + 1)) (rd seg (a1 + 2)))) in (p', m', a1 + 2)
      else if rd seg a1 =? 43 then
        let '(p', m') := fill p1 m1 32 in (p', m', a1)
      else
        let '(p', m') := fill p1 m1 (rd seg a1) in (p', m', a1)
    else (p1, m1, a1)
  else (p1, m1, a1).
(* 3. end of the value: buffer full, last byte of the segment, or '&' *)
Definition vb_close (sg : bool) (seg : list Z) (p2 : pvars) (m2 : mem) (a2 : Z) : Z * pvars * mem :=
  let n := len seg in
  let '(cl, m2) :=
    if bsize p2 <=? offs p2 then (true, m2)
    else if n - 1 <=? a2 then (true, m2)
    else let m2 := chk seg a2 m2 in (rd seg a2 =? 38, m2) in
  if cl then
    let '(p3, m3) := terminate p2 m2 in
    (a2 + 1, close_var p3, action sg p3 m3)
  else (a2 + 1, p2, m2).

Definition vars_body (sg : bool) (seg : list Z) (p : pvars) (m : mem) (a : Z) : Z * pvars * mem :=
  let '(p1, m1, a1) := vb_open seg p m a in
  if cur p1 =? 0 then (a1 + 1, p1, m1) else
  let '(p2, m2, a2) := vb_fill seg p1 m1 a1 in
  vb_close sg seg p2 m2 a2.

Fixpoint vars_loop (fuel : nat) (sg : bool) (seg : list Z) (p : pvars) (m : mem) (a : Z) : pvars * mem :=
  match fuel with
  | O => (p, m)
  | S f => if a <? len seg then
             let '(a', p', m') := vars_body sg seg p m a in vars_loop f sg seg p' m' a'
           else (p, m)
  end.

(* reads of tempPassword *)
Definition tget (m : mem) (i : Z) : Z * mem :=
  match nth_error (temp m) (Z.to_nat i) with
  | Some (Some v) => (v, m)
  | _ => (0, fault m 2)
  end.
(* the initialised prefix of tempPassword up to (excluding) its terminator, and whether a terminator was found
   before an uninitialised cell *)
Fixpoint temp_str (t : list (option Z)) : list Z * bool :=
  match t with
  | [] => ([], false)
  | None :: _ => ([], false)
  | Some v :: r => if v =? 0 then ([], true) else let '(s, ok) := temp_str r in (v :: s, ok)
  end.

(* the long-password spill at the end of supla_esp_parse_vars *)
Definition spill (fx : fixes) (m : mem) : mem :=
  let m := if fx_temp fx then
             match temp m with
             | _ :: r => (match nth_error (temp m) 0 with Some (Some _) => m | _ => set_temp m (Some 0 :: r) end)
             | [] => m end
           else m in
  let '(t0, m) := tget m 0 in
  if t0 =? 0 then m else
  let '(s, ok) := temp_str (temp m) in
  let m := if ok then m else fault m 2 in
  let c := ncfg m in
  let newlen := len s in
  let maillen := strnlen (slice c O_Email Z_Email) Z_Email in
  if newlen <? PWD_MAX then set_ncfg m (blit c O_LocationPwd (s ++ [0]))
  else
    let c1 := blit c O_LocationPwd (take PWD_MAX s) in
    let n := Z_Email - maillen - 1 in
    let tail := drop PWD_MAX s in
    (* strncpy(Email + maillen + 1, temp + 33, n): copies, then pads with zeros up to n bytes *)
    let src := take n (tail ++ zeros n) in
    let m := if (0 <=? n) && (maillen + 1 + len src <=? Z_Email) then m else fault m 3 in
    let c2 := blit c1 (O_Email + maillen + 1) src in
    set_ncfg m (upd c2 (O_Email + Z_Email - 1) 0).

Definition fresh_temp : list (option Z) := repeat None (Z.to_nat TEMP_SIZE).

Definition parse_vars (fx : fixes) (sg : bool) (seg : list Z) (p : pvars) (m : mem) : pvars * mem :=
  let m := set_temp m fresh_temp in
  let '(p', m') := vars_loop (S (length seg)) sg seg p m 0 in
  (p', spill fx m').

(* ---------- supla_esp_parse_request ---------- *)
Definition is_prefix (pat s : list Z) : bool := list_eqb (take (len pat) s) pat && (len pat <=? len s).
Definition s_get := [71;69;84]. Definition s_post := [80;79;83;84]. Definition s_url := [32;47;32;72;84;84;80].
Definition s_crlf2 := [13;10;13;10].

(* number of positions a with seg[a..a+4) = CRLFCRLF (fx_hdr: only the first counts) *)
Fixpoint count_hdr_end (fuel : nat) (fx : fixes) (seg : list Z) (a : Z) : Z :=
  match fuel with
  | O => 0
  | S f => if a <? len seg then
             if (4 <=? len seg - a) && list_eqb (slice seg a 4) s_crlf2
             then (if fx_hdr fx then 1 else 1 + count_hdr_end f fx seg (a + 1))
             else count_hdr_end f fx seg (a + 1)
           else 0
  end.

Definition parse_request (fx : fixes) (sg : bool) (seg : list Z) (p : pvars) (m : mem) : pvars * mem :=
  if len seg =? 0 then (p, m) else
  let p :=
    if step p =? STEP_TYPE_ then
      if is_prefix (s_get ++ s_url) seg then set_step p STEP_GET_ TYPE_GET_
      else if is_prefix (s_post ++ s_url) seg then set_step p STEP_POST_ TYPE_POST_
      else p
    else p in
  let k := if step p =? STEP_POST_ then count_hdr_end (S (length seg)) fx seg 0 else 0 in
  let p := if 0 <? k then set_step p STEP_PARSE_VARS_ (typ p) else p in
  let skip := 3 * k in
  if step p =? STEP_PARSE_VARS_ then
    if len seg <? skip then
      (* unsigned short len -= p wraps: the parsers run far beyond the segment *)
      (p, fault m 4)
    else
      let seg' := drop skip seg in
      let '(p1, m1) := proto_loop (S (length seg')) fx seg' p m 0 in
      parse_vars fx sg seg' p1 m1
  else (p, m).

(* ---------- supla_esp_recv_callback ---------- *)
Record dev := { dcfg : list Z; dcmd : option (list Z); dpv : pvars }.
(* result of one segment: responses (status codes), saves, restarts, faults *)
Record res := { codes : list Z; saved : bool; restarts : Z; faults : list Z }.

Definition restore_password (fx : fixes) (old c : list Z) (m : mem) : mem :=
  if negb (nthz c O_LocationPwd =? 0) then m else
  let c1 := blit c O_LocationPwd (slice old O_LocationPwd PWD_MAX) in
  let plen := strnlen (slice old O_LocationPwd PWD_MAX) PWD_MAX in
  if negb (plen =? PWD_MAX) then set_ncfg m c1 else
  let oldmail := strnlen (slice old O_Email Z_Email) Z_Email in
  let newmail := strnlen (slice c1 O_Email Z_Email) Z_Email in
  if (oldmail <? Z_Email) && (newmail <? Z_Email) then
    let part := strnlen (slice old (O_Email + oldmail + 1) (Z_Email - oldmail - 1)) (Z_Email - oldmail - 1) in
    if part <? Z_Email - oldmail - 1 then
      (* the bytes copied behind the new e-mail: the repaired code cuts the tail so that its terminator
         stays inside the field and writes the terminator itself *)
      let room := Z_Email - newmail - 1 in
      let part' := if room <=? part then (if fx_clip fx then room - 1 else room) else part in
      if fx_clip fx && (part' <? 0) then set_ncfg m c1 else
      let bytes := if fx_clip fx then slice old (O_Email + oldmail + 1) part' ++ [0]
                   else slice old (O_Email + oldmail + 1) (part' + 1) in
      let m := if newmail + 1 + len bytes <=? Z_Email then m else fault m 3 in
      set_ncfg m (blit c1 (O_Email + newmail + 1) bytes)
    else if fx_stale fx && (newmail <? Z_Email - 1) then set_ncfg m (blit c1 (O_Email + newmail + 1) [0])
    else set_ncfg m c1
  else set_ncfg m (upd c1 (O_LocationPwd + PWD_MAX - 1) 0).

Definition recv (fx : fixes) (sg : bool) (d : dev) (seg : list Z) : dev * res :=
  let old := dcfg d in
  let m0 := {| ncfg := upd old O_LocationPwd 0; temp := fresh_temp; cmd := dcmd d; rb := 0; flt := [] |} in
  let '(p, m) := parse_request fx sg seg (dpv d) m0 in
  let keep := {| dcfg := old; dcmd := cmd m; dpv := p |} in
  if typ p =? TYPE_UNKNOWN_ then (keep, {| codes := [404]; saved := false; restarts := 0; faults := flt m |})
  else if typ p =? TYPE_POST_ then
    if matched p <? 4 then (keep, {| codes := []; saved := false; restarts := 0; faults := flt m |})
    else
      let r := char_val sg (rb m) in
      if (0 <? r) && negb (r =? 2) then (keep, {| codes := []; saved := false; restarts := 1; faults := flt m |})
      else
        let m1 := restore_password fx old (ncfg m) m in
        let c := ncfg m1 in
        let c := if nthz c O_WIFI_PWD =? 0 then blit c O_WIFI_PWD (slice old O_WIFI_PWD Z_WIFI_PWD) else c in
        ({| dcfg := c; dcmd := cmd m; dpv := p |},
         {| codes := [200]; saved := true; restarts := (if 0 <? r then 1 else 0); faults := flt m1 |})
  else (keep, {| codes := [200]; saved := false; restarts := 0; faults := flt m |}).

(* ---------- wire ---------- *)
Definition HOST_CHAR_SIGNED : bool := negb (CHAR_SIGNED =? 0).
Definition fit (n : Z) (l : list Z) : list Z := take n (l ++ zeros n).
Definition dev0 : dev := {| dcfg := zeros CFG_SIZE; dcmd := None; dpv := pv0 |}.

(* faults are observable on the implementation as sanitizer reports only: the model prints the
   image and parser state when there is none, and a FAULT line otherwise *)
Definition step_wire (fx : fixes) (d : dev) (w : wire) : dev * list wire :=
  let '(k, a, b) := w in
  if k =? 0 then ({| dcfg := fit CFG_SIZE b; dcmd := dcmd d; dpv := dpv d |}, [])
  else if k =? 1 then
    let '(d', r) := recv fx HOST_CHAR_SIGNED d b in
    let p := dpv d' in
    (d', match faults r with
         | [] => mk 0 [nth 0 (codes r) 0; nth 1 (codes r) 0; (if saved r then 1 else 0); 1; restarts r; matched p; step p; typ p; cur p] (dcfg d')
                 :: match dcmd d' with Some c => [mk 1 [] (cstr c)] | None => [] end
         | f => [mk 2 f []]
         end)
  else if k =? 2 then ({| dcfg := dcfg d; dcmd := dcmd d; dpv := pv0 |}, [])
  else (d, []).

Fixpoint run (fx : fixes) (d : dev) (ws : list wire) : list wire :=
  match ws with [] => [] | w :: r => let '(d', o) := step_wire fx d w in o ++ run fx d' r end.
Definition main_wire (ws : list wire) : list wire := run FIXED dev0 ws.
Definition main_wire_unfixed (ws : list wire) : list wire := run UNFIXED dev0 ws.
