From Coq Require Import Extraction ExtrOcamlBasic.
From V Require Import C14.Model.
Extraction Language OCaml.
Extraction "model.ml" main_wire main_wire_unfixed.
