(* C14 — part III: the exact boundary of the known finding `request-split-across-tcp-segments`.
   Headers and body delivered in two TCP segments (what browsers do) give exactly the result of one
   segment; a cut anywhere in the request line, in the header terminator or in the body (even at a `&`)
   can change the saved configuration (witnesses). *)
From Coq Require Import List ZArith Lia Bool.
Import ListNotations.
From V Require Import Base.Bytes Base.Iface Gen.C14Vars C14.Model C14.Proofs.
Local Open Scope Z_scope.

(* ---------- reading a segment behind a prefix ---------- *)
Lemma nthz_app_r (pre s : list Z) x : 0 <= x -> nthz (pre ++ s) (len pre + x) = nthz s x.
Proof.
  intros Hx. unfold nthz, len. rewrite app_nth2 by lia. f_equal. lia.
Qed.
Lemma rd_shift pre s x : 0 <= x -> rd (pre ++ s) (len pre + x) = rd s x.
Proof.
  intros Hx. unfold rd. rewrite len_app. pose proof (len_nonneg pre).
  destruct (Z_lt_dec x (len s)).
  - replace ((0 <=? len pre + x) && (len pre + x <? len pre + len s)) with true
      by (symmetry; apply andb_true_iff; split; [apply Z.leb_le | apply Z.ltb_lt]; lia).
    replace ((0 <=? x) && (x <? len s)) with true by (symmetry; apply andb_true_iff; split; [apply Z.leb_le | apply Z.ltb_lt]; lia).
    apply nthz_app_r. exact Hx.
  - replace ((0 <=? len pre + x) && (len pre + x <? len pre + len s)) with false
      by (symmetry; apply andb_false_iff; right; apply Z.ltb_ge; lia).
    replace ((0 <=? x) && (x <? len s)) with false by (symmetry; apply andb_false_iff; right; apply Z.ltb_ge; lia).
    reflexivity.
Qed.
Lemma chk_shift pre s x m : 0 <= x -> chk (pre ++ s) (len pre + x) m = chk s x m.
Proof.
  intros Hx. unfold chk. rewrite len_app. pose proof (len_nonneg pre).
  replace ((0 <=? len pre + x) && (len pre + x <? len pre + len s)) with ((0 <=? x) && (x <? len s)); [reflexivity|].
  destruct (Z_lt_dec x (len s)).
  - replace ((0 <=? len pre + x) && (len pre + x <? len pre + len s)) with true
      by (symmetry; apply andb_true_iff; split; [apply Z.leb_le | apply Z.ltb_lt]; lia).
    apply andb_true_iff; split; [apply Z.leb_le | apply Z.ltb_lt]; lia.
  - replace ((0 <=? len pre + x) && (len pre + x <? len pre + len s)) with false
      by (symmetry; apply andb_false_iff; right; apply Z.ltb_ge; lia).
    apply andb_false_iff; right; apply Z.ltb_ge; lia.
Qed.
Lemma ltb_shift L a b : (L + a <? L + b) = (a <? b).
Proof. destruct (a <? b) eqn:E; [apply Z.ltb_lt in E; apply Z.ltb_lt; lia | apply Z.ltb_ge in E; apply Z.ltb_ge; lia]. Qed.
Lemma leb_shift L a b : (L + a <=? L + b) = (a <=? b).
Proof. destruct (a <=? b) eqn:E; [apply Z.leb_le in E; apply Z.leb_le; lia | apply Z.leb_gt in E; apply Z.leb_gt; lia]. Qed.

Section Shift.
  Variables (sg : bool) (pre s : list Z).
  Let L := len pre.

  Lemma vb_open_shift p m a : 0 <= a ->
    vb_open (pre ++ s) p m (L + a) = (let '(p1, m1, a1) := vb_open s p m a in (p1, m1, L + a1)).
  Proof.
    intros Ha. unfold vb_open. cbv zeta. rewrite len_app. fold L.
    replace (L + len s - (L + a)) with (len s - a) by lia.
    replace (L + a + 3) with (L + (a + 3)) by lia. replace (L + a + 1) with (L + (a + 1)) by lia.
    replace (L + a + 2) with (L + (a + 2)) by lia.
    unfold L. rewrite !rd_shift, !chk_shift by lia. fold L.
    destruct (cur p =? 0); [|reflexivity]. destruct (4 <=? len s - a); [|reflexivity].
    destruct (rd s (a + 3) =? 61); [|reflexivity].
    destruct (find_var (rd s a) (rd s (a + 1)) (rd s (a + 2))) as [r|].
    - destruct (guard_ok r _); f_equal; lia.
    - f_equal; lia.
  Qed.

  Lemma vb_fill_shift p1 m1 a1 : 0 <= a1 ->
    vb_fill (pre ++ s) p1 m1 (L + a1) = (let '(p2, m2, a2) := vb_fill s p1 m1 a1 in (p2, m2, L + a2)).
  Proof.
    intros Ha. unfold vb_fill. cbv zeta. rewrite len_app. fold L.
    rewrite ltb_shift. replace (L + a1 + 2) with (L + (a1 + 2)) by lia. replace (L + a1 + 1) with (L + (a1 + 1)) by lia.
    rewrite ltb_shift. unfold L. rewrite !rd_shift, !chk_shift by lia. fold L.
    destruct ((offs p1 <? bsize p1) && (a1 <? len s)); [|reflexivity].
    destruct (negb (rd s a1 =? 38)); [|reflexivity].
    destruct ((rd s a1 =? 37) && (a1 + 2 <? len s)).
    - destruct (fill p1 _ _). reflexivity.
    - destruct (rd s a1 =? 43); destruct (fill p1 _ _); reflexivity.
  Qed.

  Lemma vb_close_shift p2 m2 a2 : 0 <= a2 ->
    vb_close sg (pre ++ s) p2 m2 (L + a2) = (let '(a', p', m') := vb_close sg s p2 m2 a2 in (L + a', p', m')).
  Proof.
    intros Ha. unfold vb_close. cbv zeta. rewrite len_app. fold L.
    replace (L + len s - 1 <=? L + a2) with (len s - 1 <=? a2)
      by (replace (L + len s - 1) with (L + (len s - 1)) by lia; rewrite leb_shift; reflexivity).
    unfold L. rewrite !rd_shift, !chk_shift by lia. fold L.
    destruct (bsize p2 <=? offs p2).
    - destruct (terminate p2 m2). f_equal. f_equal. lia.
    - destruct (len s - 1 <=? a2).
      + destruct (terminate p2 m2). f_equal. f_equal. lia.
      + destruct (rd s a2 =? 38).
        * destruct (terminate p2 _). f_equal. f_equal. lia.
        * f_equal. f_equal. lia.
  Qed.
End Shift.

(* ---------- every iteration advances (no invariant needed) ---------- *)
Lemma vb_open_adv s p m a : let '(p1, m1, a1) := vb_open s p m a in a1 = a \/ a1 = a + 4.
Proof.
  unfold vb_open. cbv zeta. destruct (cur p =? 0); [|auto]. destruct (4 <=? len s - a); [|auto].
  destruct (rd s (a + 3) =? 61); [|auto].
  destruct (find_var _ _ _) as [r|]; [destruct (guard_ok r _)|]; auto.
Qed.
Lemma vb_fill_adv s p1 m1 a1 : let '(p2, m2, a2) := vb_fill s p1 m1 a1 in a2 = a1 \/ a2 = a1 + 2.
Proof.
  unfold vb_fill. cbv zeta. destruct ((offs p1 <? bsize p1) && (a1 <? len s)); [|auto].
  destruct (negb (rd s a1 =? 38)); [|auto].
  destruct ((rd s a1 =? 37) && (a1 + 2 <? len s)); [destruct (fill p1 _ _); auto|].
  destruct (rd s a1 =? 43); destruct (fill p1 _ _); auto.
Qed.
Lemma vb_close_adv sg s p2 m2 a2 : let '(a', p', m') := vb_close sg s p2 m2 a2 in a' = a2 + 1.
Proof.
  unfold vb_close. cbv zeta.
  destruct (bsize p2 <=? offs p2); [destruct (terminate p2 m2); reflexivity|].
  destruct (len s - 1 <=? a2); [destruct (terminate p2 m2); reflexivity|].
  destruct (rd s a2 =? 38); [destruct (terminate p2 _); reflexivity | reflexivity].
Qed.
Lemma vars_body_adv sg s p m a : let '(a', p', m') := vars_body sg s p m a in a < a'.
Proof.
  unfold vars_body. pose proof (vb_open_adv s p m a) as O. destruct (vb_open s p m a) as [[p1 m1] a1].
  destruct (cur p1 =? 0); [lia|].
  pose proof (vb_fill_adv s p1 m1 a1) as Fl. destruct (vb_fill s p1 m1 a1) as [[p2 m2] a2].
  pose proof (vb_close_adv sg s p2 m2 a2) as C. destruct (vb_close sg s p2 m2 a2) as [[a' p'] m']. lia.
Qed.

Section Shift2.
  Variables (sg : bool) (pre s : list Z).
  Let L := len pre.

  Lemma vars_body_shift p m a : 0 <= a ->
    vars_body sg (pre ++ s) p m (L + a) = (let '(a', p', m') := vars_body sg s p m a in (L + a', p', m')).
  Proof.
    intros Ha. unfold vars_body. unfold L. rewrite vb_open_shift by exact Ha. fold L.
    pose proof (vb_open_adv s p m a) as O. destruct (vb_open s p m a) as [[p1 m1] a1].
    destruct (cur p1 =? 0); [f_equal; f_equal; lia|].
    unfold L. rewrite vb_fill_shift by lia. fold L.
    pose proof (vb_fill_adv s p1 m1 a1) as Fl. destruct (vb_fill s p1 m1 a1) as [[p2 m2] a2].
    unfold L. rewrite vb_close_shift by lia. reflexivity.
  Qed.

  Lemma vars_loop_shift : forall fuel p m a, 0 <= a ->
    vars_loop fuel sg (pre ++ s) p m (L + a) = vars_loop fuel sg s p m a.
  Proof.
    induction fuel as [|f IH]; intros p m a Ha; cbn [vars_loop]; [reflexivity|].
    rewrite len_app. fold L. rewrite ltb_shift. destruct (a <? len s); [|reflexivity].
    rewrite vars_body_shift by exact Ha. pose proof (vars_body_adv sg s p m a) as Adv.
    destruct (vars_body sg s p m a) as [[a' p'] m']. apply IH. lia.
  Qed.
End Shift2.

(* more fuel than bytes left changes nothing *)
Lemma vars_loop_fuel sg s : forall f1 f2 p m a, len s - a < Z.of_nat f1 -> len s - a < Z.of_nat f2 ->
  vars_loop f1 sg s p m a = vars_loop f2 sg s p m a.
Proof.
  induction f1 as [|f1 IH]; intros f2 p m a H1 H2.
  - cbn [vars_loop]. destruct f2; [reflexivity|]. cbn [vars_loop].
    replace (a <? len s) with false by (symmetry; apply Z.ltb_ge; lia). reflexivity.
  - destruct f2 as [|f2]; cbn [vars_loop].
    + replace (a <? len s) with false by (symmetry; apply Z.ltb_ge; lia). reflexivity.
    + destruct (a <? len s) eqn:E; [|reflexivity].
      pose proof (vars_body_adv sg s p m a) as Adv. destruct (vars_body sg s p m a) as [[a' p'] m'].
      apply IH; lia.
Qed.

(* a position where no `xyz=` can start is passed without any effect *)
Lemma vars_body_skip sg s p m a : cur p = 0 -> 0 <= a -> rd s (a + 3) <> 61 -> vars_body sg s p m a = (a + 1, p, m).
Proof.
  intros Hc Ha Hn. unfold vars_body, vb_open. cbv zeta. rewrite Hc. cbn [Z.eqb].
  destruct (4 <=? len s - a) eqn:E4.
  - apply Z.leb_le in E4. rewrite (chk_in s (a + 3) m) by lia.
    replace (rd s (a + 3) =? 61) with false by (symmetry; apply Z.eqb_neq; exact Hn). rewrite Hc. reflexivity.
  - rewrite Hc. reflexivity.
Qed.

(* the whole loop over `pre ++ s` when nothing can start inside `pre` *)
Lemma vars_loop_prefix sg pre s p m : cur p = 0 ->
  (forall i, 0 <= i < len pre -> rd (pre ++ s) (i + 3) <> 61) ->
  forall f1 f2, len pre + len s < Z.of_nat f1 -> len s < Z.of_nat f2 ->
  vars_loop f1 sg (pre ++ s) p m 0 = vars_loop f2 sg s p m 0.
Proof.
  intros Hc Hn.
  assert (G : forall k i f1 f2, Z.of_nat k = len pre - i -> 0 <= i -> len pre + len s - i < Z.of_nat f1 -> len s < Z.of_nat f2 ->
              vars_loop f1 sg (pre ++ s) p m i = vars_loop f2 sg s p m 0).
  { induction k as [|k IH]; intros i f1 f2 Hk Hi H1 H2.
    - replace i with (len pre + 0) by lia. rewrite vars_loop_shift by lia. apply vars_loop_fuel; lia.
    - destruct f1 as [|f1]; [pose proof (len_nonneg s); lia|]. cbn [vars_loop]. rewrite len_app.
      replace (i <? len pre + len s) with true by (symmetry; apply Z.ltb_lt; pose proof (len_nonneg s); lia).
      rewrite vars_body_skip; [|exact Hc | exact Hi | apply Hn; lia]. apply IH; lia. }
  intros f1 f2 H1 H2. apply (G (Z.to_nat (len pre)) 0 f1 f2); pose proof (len_nonneg pre); lia.
Qed.

(* ---------- the same for supla_esp_parse_proto_var ---------- *)
Definition proto_head (seg : list Z) (p : pvars) (m : mem) (a : Z) : pvars * mem * Z :=
  if cur p =? 0 then
    if (4 <=? len seg - a) && (rd seg (a + 3) =? 61) then
      (set_offs (if (rd seg a =? 112) && (rd seg (a + 1) =? 114) && (rd seg (a + 2) =? 111)
                 then open_var p VAR_PRO 1 0 INTVAL_SIZE else p) 0, m, a + 4)
    else (p, m, a)
  else (p, m, a).
Definition proto_tail (fx : fixes) (seg : list Z) (p1 : pvars) (m1 : mem) (a1 : Z) : bool * Z * pvars * mem :=
  if cur p1 =? VAR_PRO then
    let '(p2, m2) :=
      if fx_pro fx && negb (a1 <? len seg) then (p1, m1) else fill p1 (chk seg a1 m1) (rd seg a1) in
    if (bsize p2 <=? offs p2) || (len seg - 1 <=? a1) || (rd seg a1 =? 38) then
      let '(p3, m3) := terminate p2 m2 in
      let p4 := close_var p3 in
      let on := nthz (ival p4) 0 =? 49 in
      (false, a1 + 1, p4, set_ncfg m3 (flag_set (ncfg m3) F_MQTT_ENABLED on))
    else (true, a1 + 1, p2, m2)
  else (true, a1 + 1, p1, m1).
Lemma proto_body_split fx seg p m a :
  proto_body fx seg p m a = (let '(p1, m1, a1) := proto_head seg p m a in proto_tail fx seg p1 m1 a1).
Proof. reflexivity. Qed.

Lemma proto_head_adv seg p m a : let '(p1, m1, a1) := proto_head seg p m a in (a1 = a \/ a1 = a + 4) /\ m1 = m.
Proof. unfold proto_head. destruct (cur p =? 0); [destruct ((4 <=? len seg - a) && (rd seg (a + 3) =? 61))|]; auto. Qed.
Lemma proto_tail_adv fx seg p1 m1 a1 : let '(go, a', p', m') := proto_tail fx seg p1 m1 a1 in a' = a1 + 1.
Proof.
  unfold proto_tail. destruct (cur p1 =? VAR_PRO); [|reflexivity].
  destruct (if fx_pro fx && negb (a1 <? len seg) then (p1, m1) else fill p1 (chk seg a1 m1) (rd seg a1)) as [p2 m2].
  destruct ((bsize p2 <=? offs p2) || (len seg - 1 <=? a1) || (rd seg a1 =? 38)); [destruct (terminate p2 m2)|]; reflexivity.
Qed.
Lemma proto_body_adv fx seg p m a : let '(go, a', p', m') := proto_body fx seg p m a in a < a'.
Proof.
  rewrite proto_body_split. pose proof (proto_head_adv seg p m a) as H. destruct (proto_head seg p m a) as [[p1 m1] a1].
  pose proof (proto_tail_adv fx seg p1 m1 a1) as T. destruct (proto_tail fx seg p1 m1 a1) as [[[go a'] p'] m']. lia.
Qed.

Section ShiftProto.
  Variables (fx : fixes) (pre s : list Z).
  Let L := len pre.

  Lemma proto_head_shift p m a : 0 <= a ->
    proto_head (pre ++ s) p m (L + a) = (let '(p1, m1, a1) := proto_head s p m a in (p1, m1, L + a1)).
  Proof.
    intros Ha. unfold proto_head. rewrite len_app. fold L.
    replace (L + len s - (L + a)) with (len s - a) by lia.
    replace (L + a + 3) with (L + (a + 3)) by lia. replace (L + a + 1) with (L + (a + 1)) by lia.
    replace (L + a + 2) with (L + (a + 2)) by lia.
    unfold L. rewrite !rd_shift by lia. fold L.
    destruct (cur p =? 0); [|reflexivity]. destruct ((4 <=? len s - a) && (rd s (a + 3) =? 61)); [|reflexivity].
    f_equal. lia.
  Qed.
  Lemma proto_tail_shift p1 m1 a1 : 0 <= a1 ->
    proto_tail fx (pre ++ s) p1 m1 (L + a1) = (let '(go, a', p', m') := proto_tail fx s p1 m1 a1 in (go, L + a', p', m')).
  Proof.
    intros Ha. unfold proto_tail. rewrite len_app. fold L. rewrite ltb_shift.
    replace (L + len s - 1 <=? L + a1) with (len s - 1 <=? a1)
      by (replace (L + len s - 1) with (L + (len s - 1)) by lia; rewrite leb_shift; reflexivity).
    unfold L. rewrite !rd_shift, !chk_shift by lia. fold L.
    destruct (cur p1 =? VAR_PRO); [|f_equal; f_equal; f_equal; lia].
    destruct (if fx_pro fx && negb (a1 <? len s) then (p1, m1) else fill p1 (chk s a1 m1) (rd s a1)) as [p2 m2].
    destruct ((bsize p2 <=? offs p2) || (len s - 1 <=? a1) || (rd s a1 =? 38)).
    - destruct (terminate p2 m2). cbv zeta. f_equal. f_equal. f_equal. lia.
    - f_equal. f_equal. f_equal. lia.
  Qed.
  Lemma proto_body_shift p m a : 0 <= a ->
    proto_body fx (pre ++ s) p m (L + a) = (let '(go, a', p', m') := proto_body fx s p m a in (go, L + a', p', m')).
  Proof.
    intros Ha. rewrite !proto_body_split. unfold L. rewrite proto_head_shift by exact Ha. fold L.
    pose proof (proto_head_adv s p m a) as H. destruct (proto_head s p m a) as [[p1 m1] a1].
    unfold L. rewrite proto_tail_shift by lia. reflexivity.
  Qed.
  Lemma proto_loop_shift : forall fuel p m a, 0 <= a ->
    proto_loop fuel fx (pre ++ s) p m (L + a) = proto_loop fuel fx s p m a.
  Proof.
    induction fuel as [|f IH]; intros p m a Ha; cbn [proto_loop]; [reflexivity|].
    rewrite len_app. fold L. rewrite ltb_shift. destruct (a <? len s); [|reflexivity].
    rewrite proto_body_shift by exact Ha. pose proof (proto_body_adv fx s p m a) as Adv.
    destruct (proto_body fx s p m a) as [[[go a'] p'] m']. destruct go; [apply IH; lia | reflexivity].
  Qed.
End ShiftProto.

Lemma proto_loop_fuel fx s : forall f1 f2 p m a, len s - a < Z.of_nat f1 -> len s - a < Z.of_nat f2 ->
  proto_loop f1 fx s p m a = proto_loop f2 fx s p m a.
Proof.
  induction f1 as [|f1 IH]; intros f2 p m a H1 H2.
  - cbn [proto_loop]. destruct f2; [reflexivity|]. cbn [proto_loop].
    replace (a <? len s) with false by (symmetry; apply Z.ltb_ge; lia). reflexivity.
  - destruct f2 as [|f2]; cbn [proto_loop].
    + replace (a <? len s) with false by (symmetry; apply Z.ltb_ge; lia). reflexivity.
    + destruct (a <? len s) eqn:E; [|reflexivity].
      pose proof (proto_body_adv fx s p m a) as Adv. destruct (proto_body fx s p m a) as [[[go a'] p'] m'].
      destruct go; [apply IH; lia | reflexivity].
Qed.

Lemma proto_body_skip fx s p m a : cur p = 0 -> VAR_PRO <> 0 -> rd s (a + 3) <> 61 -> proto_body fx s p m a = (true, a + 1, p, m).
Proof.
  intros Hc VP Hn. rewrite proto_body_split. unfold proto_head. rewrite Hc. cbn [Z.eqb].
  replace (rd s (a + 3) =? 61) with false by (symmetry; apply Z.eqb_neq; exact Hn). rewrite andb_false_r.
  unfold proto_tail. rewrite Hc. replace (0 =? VAR_PRO) with false by (symmetry; apply Z.eqb_neq; congruence). reflexivity.
Qed.

Lemma proto_loop_prefix fx pre s p m : cur p = 0 ->
  (forall i, 0 <= i < len pre -> rd (pre ++ s) (i + 3) <> 61) ->
  forall f1 f2, len pre + len s < Z.of_nat f1 -> len s < Z.of_nat f2 ->
  proto_loop f1 fx (pre ++ s) p m 0 = proto_loop f2 fx s p m 0.
Proof.
  intros Hc Hn.
  assert (VP : VAR_PRO <> 0).
  { pose proof consts_ok as K. rewrite !andb_true_iff in K. destruct K as [[[_ K] _] _].
    apply negb_true_iff in K. apply Z.eqb_neq in K. exact K. }
  assert (G : forall k i f1 f2, Z.of_nat k = len pre - i -> 0 <= i -> len pre + len s - i < Z.of_nat f1 -> len s < Z.of_nat f2 ->
              proto_loop f1 fx (pre ++ s) p m i = proto_loop f2 fx s p m 0).
  { induction k as [|k IH]; intros i f1 f2 Hk Hi H1 H2.
    - replace i with (len pre + 0) by lia. rewrite proto_loop_shift by lia. apply proto_loop_fuel; lia.
    - destruct f1 as [|f1]; [pose proof (len_nonneg s); lia|]. cbn [proto_loop]. rewrite len_app.
      replace (i <? len pre + len s) with true by (symmetry; apply Z.ltb_lt; pose proof (len_nonneg s); lia).
      rewrite proto_body_skip; [|exact Hc | exact VP | apply Hn; lia]. apply IH; lia. }
  intros f1 f2 H1 H2. apply (G (Z.to_nat (len pre)) 0 f1 f2); pose proof (len_nonneg pre); lia.
Qed.

(* ---------- headers | body ---------- *)
(* the header part: begins with "POST / HTTP", contains no '=' and its only CRLFCRLF is found by the header-end loop *)
Record hdr_ok (H : list Z) : Prop := {
  h_post : is_prefix (s_post ++ s_url) H = true;
  h_get : is_prefix (s_get ++ s_url) H = false;
  h_end : count_hdr_end (S (length H)) FIXED H 0 = 1;
  h_noeq : forall i, 0 <= i < len H -> nthz H i <> 61
}.
(* the body does not begin with '=' in its first three bytes (a form begins with a three-letter name) *)
Definition body_ok (b : list Z) : Prop := 0 < len b /\ rd b 0 <> 61 /\ rd b 1 <> 61 /\ rd b 2 <> 61.

Lemma steps_ok :
  (STEP_TYPE_ =? STEP_TYPE_) = true /\ (STEP_POST_ =? STEP_POST_) = true /\ (STEP_PARSE_VARS_ =? STEP_PARSE_VARS_) = true /\
  (STEP_POST_ =? STEP_TYPE_) = false /\ (STEP_PARSE_VARS_ =? STEP_TYPE_) = false /\ (STEP_PARSE_VARS_ =? STEP_POST_) = false /\
  (TYPE_POST_ =? TYPE_UNKNOWN_) = false /\ (TYPE_POST_ =? TYPE_POST_) = true.
Proof. vm_compute. repeat split. Qed.

Lemma take_app_short {A} n (a b : list A) : 0 <= n <= len a -> take n (a ++ b) = take n a.
Proof. apply take_app_le. Qed.
Lemma is_prefix_app pat H b : len pat <= len H -> is_prefix pat (H ++ b) = is_prefix pat H.
Proof.
  intros Hl. unfold is_prefix. pose proof (len_nonneg pat). pose proof (len_nonneg b).
  rewrite take_app_le by lia. rewrite len_app.
  replace (len pat <=? len H + len b) with true by (symmetry; apply Z.leb_le; lia).
  replace (len pat <=? len H) with true by (symmetry; apply Z.leb_le; lia). reflexivity.
Qed.
Lemma is_prefix_len pat H : is_prefix pat H = true -> len pat <= len H.
Proof. unfold is_prefix. rewrite andb_true_iff, Z.leb_le. tauto. Qed.

Lemma slice_app_l (H b : list Z) a n : 0 <= a -> 0 <= n -> a + n <= len H -> slice (H ++ b) a n = slice H a n.
Proof.
  intros Ha Hn Hl. unfold slice. rewrite drop_app_le by lia. apply take_app_le.
  rewrite len_drop by lia. lia.
Qed.
(* the first header end of H is also the first header end of H ++ b *)
Lemma count_pos H : forall fuel a, 0 <= a -> count_hdr_end fuel FIXED H a = 1 -> a + 4 <= len H.
Proof.
  induction fuel as [|f IH]; intros a Ha Hc; cbn [count_hdr_end] in Hc; [discriminate|].
  destruct (a <? len H); [|discriminate].
  destruct ((4 <=? len H - a) && list_eqb (slice H a 4) s_crlf2) eqn:E.
  - apply andb_true_iff in E. destruct E as [E _]. apply Z.leb_le in E. lia.
  - specialize (IH (a + 1) ltac:(lia) Hc). lia.
Qed.
Lemma count_app H b : forall fuel a, 0 <= a ->
  count_hdr_end fuel FIXED H a = 1 -> forall fuel2, len H + len b - a < Z.of_nat fuel2 ->
  count_hdr_end fuel2 FIXED (H ++ b) a = 1.
Proof.
  induction fuel as [|f IH]; intros a Ha Hc fuel2 Hf; [cbn [count_hdr_end] in Hc; discriminate|].
  pose proof (count_pos H (S f) a Ha Hc) as Hp. cbn [count_hdr_end] in Hc.
  destruct (a <? len H) eqn:El; [|discriminate]. apply Z.ltb_lt in El. pose proof (len_nonneg b).
  destruct fuel2 as [|f2]; [lia|]. cbn [count_hdr_end]. rewrite len_app.
  replace (a <? len H + len b) with true by (symmetry; apply Z.ltb_lt; lia).
  replace (4 <=? len H + len b - a) with true by (symmetry; apply Z.leb_le; lia).
  replace (4 <=? len H - a) with true in Hc by (symmetry; apply Z.leb_le; lia).
  rewrite slice_app_l by lia. cbn [andb] in *.
  destruct (list_eqb (slice H a 4) s_crlf2); [reflexivity|].
  apply (IH (a + 1)); [lia | exact Hc | lia].
Qed.

Definition pb : pvars := set_step (set_step pv0 STEP_POST_ TYPE_POST_) STEP_PARSE_VARS_ TYPE_POST_.
(* parsing of the form body alone, from the state the header part leaves *)
Definition body_parse (sg : bool) (b : list Z) (m : mem) : pvars * mem :=
  let '(p1, m1) := proto_loop (S (length b)) FIXED b pb m 0 in parse_vars FIXED sg b p1 m1.

Definition body3 (b : list Z) : Prop := rd b 0 <> 61 /\ rd b 1 <> 61 /\ rd b 2 <> 61.

Lemma rd_in (l : list Z) x : 0 <= x < len l -> rd l x = nthz l x.
Proof.
  intros H. unfold rd. replace ((0 <=? x) && (x <? len l)) with true; [reflexivity|].
  symmetry. apply andb_true_iff. split; [apply Z.leb_le | apply Z.ltb_lt]; lia.
Qed.
Lemma no_pattern H b : hdr_ok H -> body3 b ->
  forall i, 0 <= i < len (drop 3 H) -> rd (drop 3 H ++ b) (i + 3) <> 61.
Proof.
  intros Hh [B0 [B1 B2]] i Hi. pose proof (is_prefix_len _ _ (h_post H Hh)) as Hl. change (len (s_post ++ s_url)) with 11 in Hl.
  rewrite len_drop in Hi by lia.
  assert (Lp : len (drop 3 H) = len H - 3) by (rewrite len_drop by lia; lia).
  destruct (Z_lt_dec (i + 3) (len (drop 3 H))) as [A|A].
  - pose proof (len_nonneg b). rewrite rd_in by (rewrite len_app; lia). rewrite nthz_app_l by lia.
    rewrite nthz_drop by lia. apply (h_noeq H Hh). lia.
  - replace (i + 3) with (len (drop 3 H) + (i + 3 - len (drop 3 H))) by lia. rewrite rd_shift by lia.
    assert (K : i + 3 - len (drop 3 H) = 0 \/ i + 3 - len (drop 3 H) = 1 \/ i + 3 - len (drop 3 H) = 2) by lia.
    destruct K as [K|[K|K]]; rewrite K; assumption.
Qed.

Lemma inv_pb m : inv pv0 m -> inv pb m.
Proof. intros I. unfold pb. apply inv_set_step. apply inv_set_step. exact I. Qed.

Lemma PR_whole sg H b m : hdr_ok H -> body3 b -> inv pv0 m ->
  parse_request FIXED sg (H ++ b) pv0 m = body_parse sg b m.
Proof.
  intros Hh Hb I. pose proof (is_prefix_len _ _ (h_post H Hh)) as Hl. change (len (s_post ++ s_url)) with 11 in Hl.
  pose proof (len_nonneg b) as Lb0.
  destruct steps_ok as [S1 [S2 [S3 [S4 [S5 [S6 _]]]]]].
  unfold parse_request. rewrite len_app.
  replace (len H + len b =? 0) with false by (symmetry; apply Z.eqb_neq; lia).
  change (step pv0 =? STEP_TYPE_) with (STEP_TYPE_ =? STEP_TYPE_). rewrite S1.
  rewrite (is_prefix_app (s_get ++ s_url) H b) by (change (len (s_get ++ s_url)) with 10; lia). rewrite (h_get H Hh).
  rewrite (is_prefix_app (s_post ++ s_url) H b) by (change (len (s_post ++ s_url)) with 11; lia). rewrite (h_post H Hh).
  cbv zeta. change (step (set_step pv0 STEP_POST_ TYPE_POST_)) with STEP_POST_. rewrite S2.
  rewrite (count_app H b (S (length H)) 0 ltac:(lia) (h_end H Hh)) by (rewrite <- len_app; unfold len; lia).
  change (0 <? 1) with true. cbv iota.
  change (typ (set_step pv0 STEP_POST_ TYPE_POST_)) with TYPE_POST_. fold pb.
  change (step pb) with STEP_PARSE_VARS_. rewrite S3.
  change (3 * 1) with 3.
  replace (len H + len b <? 3) with false by (symmetry; apply Z.ltb_ge; lia).
  rewrite drop_app_le by lia.
  set (pre := drop 3 H).
  assert (Lp : len pre = len H - 3) by (unfold pre; rewrite len_drop by lia; lia).
  pose proof (no_pattern H b Hh Hb) as Np. fold pre in Np.
  unfold body_parse.
  rewrite (proto_loop_prefix FIXED pre b pb m eq_refl Np (S (length (pre ++ b))) (S (length b)))
    by (rewrite <- ?len_app; unfold len; lia).
  pose proof (proto_loop_ok b (S (length b)) pb m 0 (conj (inv_pb m I) (or_introl eq_refl)) ltac:(lia) (or_introl eq_refl) ltac:(unfold len; lia)) as Pk.
  destruct (proto_loop (S (length b)) FIXED b pb m 0) as [p1 m1]. destruct Pk as [_ Hc1].
  unfold parse_vars.
  rewrite (vars_loop_prefix sg pre b p1 (set_temp m1 fresh_temp) Hc1 Np (S (length (pre ++ b))) (S (length b)))
    by (rewrite <- ?len_app; unfold len; lia).
  reflexivity.
Qed.

Lemma PR_body sg b m : 0 < len b -> parse_request FIXED sg b pb m = body_parse sg b m.
Proof.
  intros Hb. destruct steps_ok as [S1 [S2 [S3 [S4 [S5 [S6 _]]]]]].
  unfold parse_request. replace (len b =? 0) with false by (symmetry; apply Z.eqb_neq; lia).
  change (step pb) with STEP_PARSE_VARS_. rewrite S5. cbv zeta. change (step pb) with STEP_PARSE_VARS_. rewrite S6.
  change (0 <? 0) with false. cbv iota.
  change (step pb) with STEP_PARSE_VARS_. rewrite S3. change (3 * 0) with 0.
  replace (len b <? 0) with false by (symmetry; apply Z.ltb_ge; lia). rewrite drop_0. reflexivity.
Qed.

(* supla_esp_recv_callback = parse, then the commit block *)
Definition m0_of (d : dev) : mem :=
  {| ncfg := upd (dcfg d) O_LocationPwd 0; temp := fresh_temp; cmd := dcmd d; rb := 0; flt := [] |}.
Definition finish (fx : fixes) (sg : bool) (old : list Z) (pm : pvars * mem) : dev * res :=
  let '(p, m) := pm in
  let keep := {| dcfg := old; dcmd := cmd m; dpv := p |} in
  if typ p =? TYPE_UNKNOWN_ then (keep, {| codes := [404]; saved := false; restarts := 0; faults := flt m |})
  else if typ p =? TYPE_POST_ then
    if matched p <? 4 then (keep, {| codes := []; saved := false; restarts := 0; faults := flt m |})
    else
      let r := char_val sg (rb m) in
      if (0 <? r) && negb (r =? 2) then (keep, {| codes := []; saved := false; restarts := 1; faults := flt m |})
      else
        let m1 := restore_password fx old (ncfg m) m in
        let c := ncfg m1 in
        let c := if nthz c O_WIFI_PWD =? 0 then blit c O_WIFI_PWD (slice old O_WIFI_PWD Z_WIFI_PWD) else c in
        ({| dcfg := c; dcmd := cmd m; dpv := p |},
         {| codes := [200]; saved := true; restarts := (if 0 <? r then 1 else 0); faults := flt m1 |})
  else (keep, {| codes := [200]; saved := false; restarts := 0; faults := flt m |}).
Lemma recv_finish fx sg d seg : recv fx sg d seg = finish fx sg (dcfg d) (parse_request fx sg seg (dpv d) (m0_of d)).
Proof. reflexivity. Qed.

Lemma spill_rest fx m : cmd (spill fx m) = cmd m /\ flt (spill FIXED (set_temp m fresh_temp)) = flt m.
Proof.
  split.
  - unfold spill.
    set (m1 := if fx_temp fx then match temp m with
                                  | _ :: r => match nth_error (temp m) 0 with Some (Some _) => m | _ => set_temp m (Some 0 :: r) end
                                  | [] => m end else m).
    assert (E1 : cmd m1 = cmd m).
    { unfold m1. destruct (fx_temp fx); [|reflexivity]. destruct (temp m); [reflexivity|].
      destruct (nth_error (o :: l) 0) as [[?|]|]; reflexivity. }
    clearbody m1. unfold tget.
    destruct (nth_error (temp m1) (Z.to_nat 0)) as [[v|]|]; cbv beta iota zeta;
      try (change (0 =? 0) with true; cbv iota; cbn [cmd fault]; exact E1).
    destruct (v =? 0); [exact E1|].
    destruct (temp_str (temp m1)) as [s ok].
    set (m2 := if ok then m1 else fault m1 2).
    assert (E2 : cmd m2 = cmd m) by (unfold m2; destruct ok; cbn [cmd fault]; exact E1).
    clearbody m2.
    destruct (len s <? PWD_MAX); [cbn [cmd set_ncfg]; exact E2|].
    destruct ((0 <=? _) && _); cbn [cmd set_ncfg fault]; exact E2.
  - unfold spill. cbn [fx_temp FIXED temp set_temp]. unfold fresh_temp.
    replace (Z.to_nat TEMP_SIZE) with (S (Z.to_nat TEMP_SIZE - 1)) by (layout; lia). cbn [repeat nth_error].
    unfold tget. cbn [temp set_temp nth_error Z.to_nat]. cbn [Z.eqb]. reflexivity.
Qed.

Lemma inv_m0 d : dev_ok d -> inv (dpv d) (m0_of d).
Proof.
  intros D. assert (F0 : frame_ok (dcfg d) (upd (dcfg d) O_LocationPwd 0))
    by (apply frame_upd; [exact (d_len d D) | layout; lia | layout; lia]).
  constructor; unfold m0_of; cbn [ncfg temp cmd flt].
  - exact (d_ival d D).
  - exact (d_offs d D).
  - intros H. pose proof (d_cur d D). congruence.
  - rewrite (proj1 F0). exact (d_len d D).
  - unfold fresh_temp, len. rewrite repeat_length. layout; lia.
  - exact (d_cmd d D).
  - reflexivity.
  - exists 0. unfold cell; cbn [temp]. split; [layout; lia|]. split; [intros; lia|]. split.
    + intros i Hi. unfold fresh_temp. apply nth_error_repeat. lia.
    + right. split; [left; exact (d_cur d D) | left; reflexivity].
  - right. exact (email_term_frame _ _ F0 (d_email d D)).
Qed.

(* Headers in one TCP segment, the form body in the next one (what browsers do): exactly the result of the
   unsplit request — same stored configuration, same parser state, same response, same everything; the header
   segment itself answers nothing and saves nothing. *)
Theorem C14_split_headers_body_thm : forall sg d H b,
  dev_ok d -> dpv d = pv0 -> hdr_ok H -> body_ok b ->
  let '(d1, r1) := recv FIXED sg d H in
  recv FIXED sg d1 b = recv FIXED sg d (H ++ b) /\
  codes r1 = [] /\ saved r1 = false /\ restarts r1 = 0 /\ dcfg d1 = dcfg d.
Proof.
  intros sg d H b D Hp Hh [Hb0 Hb3].
  pose proof (inv_m0 d D) as I0. rewrite Hp in I0.
  destruct steps_ok as [_ [_ [_ [_ [_ [_ [T1 T2]]]]]]].
  (* the header segment *)
  assert (E1 : recv FIXED sg d H = ({| dcfg := dcfg d; dcmd := dcmd d; dpv := pb |},
                                   {| codes := []; saved := false; restarts := 0; faults := [] |})).
  { rewrite recv_finish, Hp. rewrite <- (app_nil_r H) at 1.
    rewrite (PR_whole sg H [] (m0_of d) Hh) by (try exact I0; repeat split; cbn; discriminate).
    unfold body_parse. cbn [length proto_loop]. change (0 <? len []) with false. cbv iota.
    unfold parse_vars. cbn [length vars_loop]. change (0 <? len []) with false. cbv iota.
    unfold finish. change (typ pb) with TYPE_POST_. rewrite T1, T2. change (matched pb <? 4) with true. cbv iota.
    destruct (spill_rest FIXED (set_temp (m0_of d) fresh_temp)) as [C _].
    destruct (spill_rest FIXED (m0_of d)) as [_ Fl].
    rewrite C, Fl. reflexivity. }
  rewrite E1. split; [|auto].
  rewrite !recv_finish. cbn [dcfg dpv]. rewrite Hp.
  assert (Em : m0_of {| dcfg := dcfg d; dcmd := dcmd d; dpv := pb |} = m0_of d) by reflexivity.
  rewrite Em. rewrite (PR_body sg b (m0_of d) Hb0). rewrite (PR_whole sg H b (m0_of d) Hh Hb3 I0). reflexivity.
Qed.

(* ---------- every other kind of cut can change the saved configuration: witnesses ---------- *)
Definition final_of (segs : list (list Z)) : list Z :=
  dcfg (fst (recv_all FIXED true {| dcfg := zeros CFG_SIZE; dcmd := None; dpv := pv0 |} segs)).
Definition w_req : list Z := req_hdr ++ body4.        (* "POST / HTTP/1.1\r\n\r\nsid=ab&wpw=cd&svr=ef&eml=gh" *)
Definition cut_at (c : Z) : list (list Z) := [take c w_req; drop c w_req].
Definition differs (c : Z) : bool := negb (list_eqb (final_of (cut_at c)) (final_of [w_req])).

Theorem C14_split_refuted_thm :
  differs 2 = true /\                          (* inside "POST": the request line is never recognised, nothing is saved *)
  differs (len req_hdr - 2) = true /\          (* inside CRLFCRLF: the header end is never found *)
  differs (len req_hdr + 5) = true /\          (* inside the value of sid *)
  differs (len req_hdr + 2) = true /\          (* inside the name sid *)
  differs (len req_hdr + 14) = true /\         (* at a token boundary: "sid=ab&wpw=cd&" | "svr=ef&eml=gh" (two fields lost) *)
  differs (len req_hdr) = false /\             (* headers | body: the same (C14_split_headers_body) *)
  differs 13 = false.                          (* inside the '='-free headers *)
Proof. vm_compute. repeat split. Qed.

Lemma w_hdr_ok : hdr_ok req_hdr /\ body_ok body4.
Proof.
  split.
  - constructor; try (vm_compute; reflexivity).
    intros i Hi. assert (H : forallb (fun x => negb (x =? 61)) req_hdr = true) by (vm_compute; reflexivity).
    rewrite forallb_forall in H. unfold nthz. intros E.
    assert (Hin : In (nth (Z.to_nat i) req_hdr 0) req_hdr) by (apply nth_In; unfold len in Hi; lia).
    specialize (H _ Hin). rewrite E in H. discriminate.
  - unfold body_ok. vm_compute. repeat split; discriminate.
Qed.

(* ---------- a cut inside the '='-free headers ---------- *)
Lemma no_pattern' H b : 3 <= len H -> (forall i, 0 <= i < len H -> nthz H i <> 61) -> body3 b ->
  forall i, 0 <= i < len (drop 3 H) -> rd (drop 3 H ++ b) (i + 3) <> 61.
Proof.
  intros Hl Hne [B0 [B1 B2]] i Hi. rewrite len_drop in Hi by lia.
  assert (Lp : len (drop 3 H) = len H - 3) by (rewrite len_drop by lia; lia).
  destruct (Z_lt_dec (i + 3) (len (drop 3 H))) as [A|A].
  - pose proof (len_nonneg b). rewrite rd_in by (rewrite len_app; lia). rewrite nthz_app_l by lia.
    rewrite nthz_drop by lia. apply Hne. lia.
  - replace (i + 3) with (len (drop 3 H) + (i + 3 - len (drop 3 H))) by lia. rewrite rd_shift by lia.
    assert (K : i + 3 - len (drop 3 H) = 0 \/ i + 3 - len (drop 3 H) = 1 \/ i + 3 - len (drop 3 H) = 2) by lia.
    destruct K as [K|[K|K]]; rewrite K; assumption.
Qed.

Definition pa : pvars := set_step pv0 STEP_POST_ TYPE_POST_.

(* first part: begins with the request line, has no complete header end: only the request type is recorded *)
Lemma PR_first sg a m : is_prefix (s_post ++ s_url) a = true -> is_prefix (s_get ++ s_url) a = false ->
  count_hdr_end (S (length a)) FIXED a 0 = 0 -> parse_request FIXED sg a pv0 m = (pa, m).
Proof.
  intros Hp Hg Hc. pose proof (is_prefix_len _ _ Hp) as Hl. change (len (s_post ++ s_url)) with 11 in Hl.
  destruct steps_ok as [S1 [S2 [S3 [S4 [S5 [S6 _]]]]]].
  unfold parse_request. replace (len a =? 0) with false by (symmetry; apply Z.eqb_neq; lia).
  change (step pv0 =? STEP_TYPE_) with (STEP_TYPE_ =? STEP_TYPE_). rewrite S1, Hg, Hp. cbv zeta.
  change (step (set_step pv0 STEP_POST_ TYPE_POST_)) with STEP_POST_. rewrite S2, Hc.
  change (0 <? 0) with false. cbv iota. fold pa. change (step pa) with STEP_POST_.
  replace (STEP_POST_ =? STEP_PARSE_VARS_) with false by (symmetry; rewrite Z.eqb_sym; exact S6). reflexivity.
Qed.

(* second part: the rest of the headers with the complete header end, then the body *)
Lemma PR_rest sg h2 b m : count_hdr_end (S (length h2)) FIXED h2 0 = 1 -> (forall i, 0 <= i < len h2 -> nthz h2 i <> 61) ->
  body3 b -> inv pv0 m -> parse_request FIXED sg (h2 ++ b) pa m = body_parse sg b m.
Proof.
  intros Hc Hne Hb I. pose proof (count_pos h2 (S (length h2)) 0 ltac:(lia) Hc) as Hl. pose proof (len_nonneg b) as Lb0.
  destruct steps_ok as [S1 [S2 [S3 [S4 [S5 [S6 _]]]]]].
  unfold parse_request. rewrite len_app.
  replace (len h2 + len b =? 0) with false by (symmetry; apply Z.eqb_neq; lia).
  change (step pa) with STEP_POST_. rewrite S4. cbv zeta. change (step pa) with STEP_POST_. rewrite S2.
  rewrite (count_app h2 b (S (length h2)) 0 ltac:(lia) Hc) by (rewrite <- len_app; unfold len; lia).
  change (0 <? 1) with true. cbv iota. change (typ pa) with TYPE_POST_. fold pa. change (set_step pa STEP_PARSE_VARS_ TYPE_POST_) with pb.
  change (step pb) with STEP_PARSE_VARS_. rewrite S3. change (3 * 1) with 3.
  replace (len h2 + len b <? 3) with false by (symmetry; apply Z.ltb_ge; lia).
  rewrite drop_app_le by lia.
  set (pre := drop 3 h2).
  pose proof (no_pattern' h2 b ltac:(lia) Hne Hb) as Np. fold pre in Np.
  unfold body_parse.
  rewrite (proto_loop_prefix FIXED pre b pb m eq_refl Np (S (length (pre ++ b))) (S (length b)))
    by (rewrite <- ?len_app; unfold len; unfold pre; rewrite ?len_drop by lia; try (rewrite len_drop by lia); lia).
  pose proof (proto_loop_ok b (S (length b)) pb m 0 (conj (inv_pb m I) (or_introl eq_refl)) ltac:(lia) (or_introl eq_refl) ltac:(unfold len; lia)) as Pk.
  destruct (proto_loop (S (length b)) FIXED b pb m 0) as [p1 m1]. destruct Pk as [_ Hc1].
  unfold parse_vars.
  rewrite (vars_loop_prefix sg pre b p1 (set_temp m1 fresh_temp) Hc1 Np (S (length (pre ++ b))) (S (length b)))
    by (rewrite <- ?len_app; unfold len; lia).
  reflexivity.
Qed.

(* A cut inside the headers (behind the request-line prefix, before the header end, headers '='-free): exactly the
   unsplit request. *)
Theorem C14_split_inside_headers_thm : forall sg d a h2 b,
  dev_ok d -> dpv d = pv0 -> hdr_ok (a ++ h2) ->
  is_prefix (s_post ++ s_url) a = true -> count_hdr_end (S (length a)) FIXED a 0 = 0 ->
  count_hdr_end (S (length h2)) FIXED h2 0 = 1 -> body3 b ->
  let '(d1, r1) := recv FIXED sg d a in
  recv FIXED sg d1 (h2 ++ b) = recv FIXED sg d ((a ++ h2) ++ b) /\
  codes r1 = [] /\ saved r1 = false /\ restarts r1 = 0 /\ dcfg d1 = dcfg d.
Proof.
  intros sg d a h2 b D Hp Hh Hpa Hca Hc2 Hb.
  pose proof (inv_m0 d D) as I0. rewrite Hp in I0.
  destruct steps_ok as [_ [_ [_ [_ [_ [_ [T1 T2]]]]]]].
  pose proof (is_prefix_len _ _ Hpa) as Hl. change (len (s_post ++ s_url)) with 11 in Hl.
  assert (Hga : is_prefix (s_get ++ s_url) a = false).
  { pose proof (h_get _ Hh) as G. rewrite is_prefix_app in G by (change (len (s_get ++ s_url)) with 10; lia). exact G. }
  assert (Hne2 : forall i, 0 <= i < len h2 -> nthz h2 i <> 61).
  { intros i Hi. pose proof (h_noeq _ Hh (len a + i)) as N. rewrite len_app in N. rewrite nthz_app_r in N by lia.
    apply N. pose proof (len_nonneg a). lia. }
  assert (E1 : recv FIXED sg d a = ({| dcfg := dcfg d; dcmd := dcmd d; dpv := pa |},
                                   {| codes := []; saved := false; restarts := 0; faults := [] |})).
  { rewrite recv_finish, Hp. rewrite (PR_first sg a (m0_of d) Hpa Hga Hca).
    unfold finish. change (typ pa) with TYPE_POST_. rewrite T1, T2. change (matched pa <? 4) with true. cbv iota. reflexivity. }
  rewrite E1. split; [|auto].
  rewrite !recv_finish. cbn [dcfg dpv]. rewrite Hp.
  assert (Em : m0_of {| dcfg := dcfg d; dcmd := dcmd d; dpv := pa |} = m0_of d) by reflexivity.
  rewrite Em. rewrite (PR_rest sg h2 b (m0_of d) Hc2 Hne2 Hb I0). rewrite (PR_whole sg (a ++ h2) b (m0_of d) Hh Hb I0). reflexivity.
Qed.
