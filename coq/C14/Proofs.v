(* C14 — proofs about the configuration-form model. *)
From Coq Require Import List ZArith Lia Bool.
Import ListNotations.
From V Require Import Base.Bytes Base.Iface Gen.C14Vars C14.Model.
Local Open Scope Z_scope.

(* ---------- lists ---------- *)
Lemma len_upd {A} (l : list A) i v : 0 <= i < len l -> len (upd l i v) = len l.
Proof.
  intros H. unfold upd. rewrite len_app, len_cons, len_take, len_drop by lia. lia.
Qed.
Lemma len_blit l off b : 0 <= off -> off + len b <= len l -> len (blit l off b) = len l.
Proof.
  intros H1 H2. pose proof (len_nonneg b). unfold blit. rewrite !len_app, len_take, len_drop by lia. lia.
Qed.
Lemma len_zeros n : 0 <= n -> len (zeros n) = n.
Proof. intros. unfold zeros, len. rewrite repeat_length. lia. Qed.
Lemma len_enc32 v : len (enc32 v) = 4.
Proof. reflexivity. Qed.
Lemma len_slice l off n : 0 <= off -> 0 <= n -> off + n <= len l -> len (slice l off n) = n.
Proof. intros. unfold slice. rewrite len_take, len_drop by lia. lia. Qed.
Lemma len_slice_le l off n : 0 <= off -> 0 <= n -> len (slice l off n) <= n.
Proof. intros. unfold slice. rewrite len_take by lia. lia. Qed.

(* ---------- save gate ---------- *)
(* supla_esp_recv_callback changes the stored configuration (and writes flash) only on the path that
   requires type POST and at least four matched fields *)
Lemma recv_save_gate fx sg d seg :
  let '(d', r) := recv fx sg d seg in
  (saved r = true \/ dcfg d' <> dcfg d) -> typ (dpv d') = TYPE_POST_ /\ 4 <= matched (dpv d').
Proof.
  unfold recv.
  destruct (parse_request fx sg seg (dpv d) _) as [p m].
  destruct (typ p =? TYPE_UNKNOWN_) eqn:E1.
  - cbn [saved dcfg]. intros [H|H]; [discriminate | congruence].
  - destruct (typ p =? TYPE_POST_) eqn:E2.
    + destruct (matched p <? 4) eqn:E3.
      * cbn [saved dcfg]. intros [H|H]; [discriminate | congruence].
      * destruct ((0 <? char_val sg (rb m)) && negb (char_val sg (rb m) =? 2)).
        -- cbn [saved dcfg]. intros [H|H]; [discriminate | congruence].
        -- cbn [saved dcfg dpv]. intros _. apply Z.eqb_eq in E2. apply Z.ltb_ge in E3. split; assumption.
    + cbn [saved dcfg]. intros [H|H]; [discriminate | congruence].
Qed.

(* ---------- more list facts ---------- *)
Lemma nth_firstn_lt {A} (d : A) : forall n (l : list A) i, (i < n)%nat -> nth i (firstn n l) d = nth i l d.
Proof. induction n; intros l i H; [lia|]. destruct l, i; cbn [firstn nth]; auto. apply IHn. lia. Qed.
Lemma nth_skipn_add {A} (d : A) n : forall (l : list A) i, nth i (skipn n l) d = nth (n + i) l d.
Proof.
  induction n as [|n IH]; intros l i; [reflexivity|].
  destruct l as [|x l]; cbn [skipn Nat.add nth]; [destruct i; reflexivity | apply IH].
Qed.
Lemma nth_error_firstn_lt {A} : forall n (l : list A) i, (i < n)%nat -> nth_error (firstn n l) i = nth_error l i.
Proof. induction n; intros l i H; [lia|]. destruct l, i; cbn [firstn nth_error]; auto. apply IHn. lia. Qed.
Lemma nth_error_skipn_add {A} n : forall (l : list A) i, nth_error (skipn n l) i = nth_error l (n + i).
Proof.
  induction n as [|n IH]; intros l i; [reflexivity|].
  destruct l as [|x l]; cbn [skipn Nat.add nth_error]; [destruct i; reflexivity | apply IH].
Qed.

Lemma nthz_upd_same (l : list Z) i v : 0 <= i < len l -> nthz (upd l i v) i = v.
Proof.
  intros H. unfold upd, nthz, take, len in *. rewrite app_nth2 by (rewrite firstn_length; lia).
  rewrite firstn_length. replace (Z.to_nat i - Nat.min (Z.to_nat i) (length l))%nat with 0%nat by lia. reflexivity.
Qed.
Lemma nthz_upd_other (l : list Z) i j v : 0 <= i < len l -> 0 <= j -> j <> i -> nthz (upd l i v) j = nthz l j.
Proof.
  intros H Hj Hne. unfold upd, nthz, take, drop, len in *.
  destruct (Z_lt_dec j i).
  - rewrite app_nth1 by (rewrite firstn_length; lia). apply nth_firstn_lt. lia.
  - rewrite app_nth2 by (rewrite firstn_length; lia). rewrite firstn_length.
    replace (Z.to_nat j - Nat.min (Z.to_nat i) (length l))%nat with (S (Z.to_nat j - Z.to_nat i - 1)) by lia.
    cbn [nth]. rewrite nth_skipn_add. f_equal. lia.
Qed.
Lemma nth_error_upd_same {A} (l : list A) i v : 0 <= i < len l -> nth_error (upd l i v) (Z.to_nat i) = Some v.
Proof.
  intros H. unfold upd, take, drop, len in *. rewrite nth_error_app2 by (rewrite firstn_length; lia).
  rewrite firstn_length. replace (Z.to_nat i - Nat.min (Z.to_nat i) (length l))%nat with 0%nat by lia. reflexivity.
Qed.
Lemma nth_error_upd_other {A} (l : list A) i j v :
  0 <= i < len l -> 0 <= j -> j <> i -> nth_error (upd l i v) (Z.to_nat j) = nth_error l (Z.to_nat j).
Proof.
  intros H Hj Hne. unfold upd, take, drop, len in *.
  destruct (Z_lt_dec j i).
  - rewrite nth_error_app1 by (rewrite firstn_length; lia). apply nth_error_firstn_lt. lia.
  - rewrite nth_error_app2 by (rewrite firstn_length; lia). rewrite firstn_length.
    replace (Z.to_nat j - Nat.min (Z.to_nat i) (length l))%nat with (S (Z.to_nat j - Z.to_nat i - 1)) by lia.
    cbn [nth_error]. rewrite nth_error_skipn_add. f_equal. lia.
Qed.
Lemma nthz_blit_other (l b : list Z) off j :
  0 <= off -> off + len b <= len l -> 0 <= j -> (j < off \/ off + len b <= j) -> nthz (blit l off b) j = nthz l j.
Proof.
  intros Ho Hl Hj Hout. pose proof (len_nonneg b) as Hb. unfold blit, nthz, take, drop, len in *.
  destruct Hout as [Hlt|Hge].
  - rewrite app_nth1 by (rewrite firstn_length; lia). apply nth_firstn_lt. lia.
  - rewrite app_nth2 by (rewrite firstn_length; lia). rewrite firstn_length.
    rewrite app_nth2 by lia. rewrite nth_skipn_add. f_equal. lia.
Qed.

(* ---------- layout facts are obtained by unfolding the generated constants ---------- *)
Ltac layout :=
  unfold O_LocationID, O_CfgButtonType, O_Button1Type, O_Button2Type, O_StaircaseButtonType, O_InputCfgTriggerOff,
    O_StatusLedOff, O_FirmwareUpdate, O_MotorUpsideDown, O_ButtonsUpsideDown, O_AdditionalTimeMargin, O_Trigger,
    O_MqttQoS, O_MqttPoolPublicationDelay, O_OvercurrentThreshold1, O_OvercurrentThreshold2, O_ButtonType,
    O_ButtonMode, O_TiltControlType, O_Flags, O_Email, Z_Email, CFG_SIZE, O_LocationPwd, PWD_MAX, O_WIFI_PWD,
    Z_WIFI_PWD, INTVAL_SIZE, TEMP_SIZE, CMD_SIZE in *.

(* an update of the candidate configuration that keeps its size and does not touch the Email field *)
Definition frame_ok (c c' : list Z) : Prop :=
  len c' = len c /\ forall i, O_Email <= i < O_Email + Z_Email -> nthz c' i = nthz c i.
Lemma frame_refl c : frame_ok c c.
Proof. split; auto. Qed.
Lemma frame_upd c off v : len c = CFG_SIZE -> 0 <= off < CFG_SIZE ->
  (off < O_Email \/ O_Email + Z_Email <= off) -> frame_ok c (upd c off v).
Proof.
  intros L H D. split; [apply len_upd; lia|]. intros i Hi. apply nthz_upd_other; [lia | layout; lia | lia].
Qed.
Lemma frame_blit c off b : len c = CFG_SIZE -> 0 <= off -> off + len b <= CFG_SIZE ->
  (off + len b <= O_Email \/ O_Email + Z_Email <= off) -> frame_ok c (blit c off b).
Proof.
  intros L H1 H2 D. split; [apply len_blit; lia|]. intros i Hi.
  apply nthz_blit_other; [lia | lia | layout; lia | lia].
Qed.

Ltac frame_tac :=
  unfold setb, bit, margin, flag_set, set_flags;
  first [ apply frame_refl
        | apply frame_upd; [assumption | layout; lia | layout; lia]
        | apply frame_blit; [assumption | layout; lia | rewrite ?len_enc32; layout; lia | rewrite ?len_enc32; layout; lia] ].

Lemma action_frame sg p m : len (ncfg m) = CFG_SIZE ->
  exists c', frame_ok (ncfg m) c' /\
    (action sg p m = set_ncfg m c' \/ action sg p m = m \/ exists r, action sg p m = set_rb m r).
Proof.
  intros L. unfold action. cbv beta zeta.
  repeat match goal with
  | |- context [if ?b then _ else _] => destruct b
  end;
  lazymatch goal with
  | |- exists c', _ /\ (set_ncfg _ ?X = _ \/ _) => exists X; split; [frame_tac | left; reflexivity]
  | |- exists c', _ /\ (set_rb _ ?r = _ \/ _) => exists (ncfg m); split; [apply frame_refl | right; right; exists r; reflexivity]
  | |- exists c', _ /\ (m = _ \/ _) => exists (ncfg m); split; [apply frame_refl | right; left; reflexivity]
  end.
Qed.

(* ---------- the invariant of the parsing loops ---------- *)
Definition email_term (c : list Z) : Prop := exists k, 0 <= k < Z_Email /\ nthz c (O_Email + k) = 0.
Definition cell (m : mem) (i : Z) : option (option Z) := nth_error (temp m) (Z.to_nat i).

(* pbuff/buff_size describe a live object that is large enough *)
Definition tgt_ok (p : pvars) (m : mem) : Prop :=
  1 <= bsize p /\
  ((tk p = 0 /\ 0 <= toff p /\ toff p + bsize p <= CFG_SIZE /\
    ((toff p = O_Email /\ bsize p <= Z_Email) \/ toff p + bsize p <= O_Email \/ O_Email + Z_Email <= toff p)) \/
   (tk p = 1 /\ bsize p <= INTVAL_SIZE) \/
   (tk p = 2 /\ bsize p <= TEMP_SIZE) \/
   (tk p = 3 /\ bsize p <= CMD_SIZE /\ exists c, cmd m = Some c)).

(* tempPassword: an initialised prefix [0,q); while a password value is being filled the write position is
   inside or right behind it, otherwise the prefix is empty or contains a terminator *)
Definition temp_inv (p : pvars) (m : mem) : Prop :=
  exists q, 0 <= q <= TEMP_SIZE /\
    (forall i, 0 <= i < q -> exists v, cell m i = Some (Some v)) /\
    (forall i, q <= i < TEMP_SIZE -> cell m i = Some None) /\
    ((cur p <> 0 /\ tk p = 2 /\ offs p <= q) \/
     ((cur p = 0 \/ tk p <> 2) /\ (q = 0 \/ exists k, 0 <= k < q /\ cell m k = Some (Some 0)))).

Record inv (p : pvars) (m : mem) : Prop := {
  i_ival : len (ival p) = INTVAL_SIZE;
  i_offs : 0 <= offs p;
  i_tgt : cur p <> 0 -> tgt_ok p m;
  i_ncfg : len (ncfg m) = CFG_SIZE;
  i_temp : len (temp m) = TEMP_SIZE;
  i_cmd : forall c, cmd m = Some c -> len c = CMD_SIZE;
  i_flt : flt m = [];
  i_tinv : temp_inv p m;
  i_email : (cur p <> 0 /\ tk p = 0 /\ toff p = O_Email) \/ email_term (ncfg m)
}.

Lemma email_term_frame c c' : frame_ok c c' -> email_term c -> email_term c'.
Proof.
  intros [_ F] [k [Hk Hz]]. exists k. split; [exact Hk|]. rewrite F by lia. exact Hz.
Qed.

(* store at index i of a well-described target: what it does, case by case *)
Lemma store_spec p m i v : inv p m -> cur p <> 0 -> 0 <= i < bsize p ->
  (tk p = 0 /\ store p m i v = (p, set_ncfg m (upd (ncfg m) (toff p + i) v)) /\ 0 <= toff p + i < CFG_SIZE) \/
  (tk p = 1 /\ store p m i v = (set_ival p (upd (ival p) i v), m) /\ i < INTVAL_SIZE) \/
  (tk p = 2 /\ store p m i v = (p, set_temp m (upd (temp m) i (Some v))) /\ i < TEMP_SIZE) \/
  (tk p = 3 /\ exists c, cmd m = Some c /\ store p m i v = (p, set_cmd m (Some (upd c i v))) /\ i < CMD_SIZE).
Proof.
  intros I Hc Hi. destruct (i_tgt p m I Hc) as [Hb T]. unfold store.
  replace ((0 <=? i) && (i <? bsize p)) with true by (symmetry; apply andb_true_iff; split; [apply Z.leb_le | apply Z.ltb_lt]; lia).
  cbn [negb]. destruct T as [[Tk [T1 [T2 _]]] | [[Tk T1] | [[Tk T1] | [Tk [T1 [c Hcmd]]]]]]; rewrite Tk; cbn [Z.eqb].
  - left. rewrite (i_ncfg p m I).
    replace ((0 <=? toff p) && (toff p + i <? CFG_SIZE)) with true
      by (symmetry; apply andb_true_iff; split; [apply Z.leb_le | apply Z.ltb_lt]; lia).
    repeat split; lia.
  - right; left. rewrite (i_ival p m I). replace (i <? INTVAL_SIZE) with true by (symmetry; apply Z.ltb_lt; lia).
    repeat split; lia.
  - right; right; left. rewrite (i_temp p m I). replace (i <? TEMP_SIZE) with true by (symmetry; apply Z.ltb_lt; lia).
    repeat split; lia.
  - right; right; right. split; [reflexivity|]. exists c. rewrite Hcmd. rewrite (i_cmd p m I c Hcmd).
    replace (i <? CMD_SIZE) with true by (symmetry; apply Z.ltb_lt; lia). repeat split; lia.
Qed.

Ltac simp_rec :=
  cbn [step typ cur matched tk toff bsize offs ival ncfg temp cmd rb flt
       set_offs set_ival set_ncfg set_temp set_cmd set_rb open_var close_var set_step fault] in *.

Lemma tgt_ok_same p p' m m' :
  bsize p' = bsize p -> tk p' = tk p -> toff p' = toff p -> (forall c, cmd m = Some c -> exists c', cmd m' = Some c') ->
  tgt_ok p m -> tgt_ok p' m'.
Proof.
  intros B K O C [H1 H]. unfold tgt_ok. rewrite B, K, O. split; [exact H1|].
  destruct H as [H|[H|[H|[H2 [H3 [c Hc]]]]]]; auto.
  right; right; right. repeat split; auto. exact (C c Hc).
Qed.

Lemma fill_ok p m v : inv p m -> cur p <> 0 -> offs p < bsize p ->
  let '(p', m') := fill p m v in
  inv p' m' /\ cur p' = cur p /\ bsize p' = bsize p /\ offs p' = offs p + 1.
Proof.
  intros I Hc Ho. pose proof (i_offs p m I) as Hoff. unfold fill.
  destruct (store_spec p m (offs p) v I Hc ltac:(lia)) as [[Tk [E R]]|[[Tk [E R]]|[[Tk [E R]]|[Tk [c [Hcmd [E R]]]]]]]; rewrite E.
  - (* new_cfg *)
    split; [|simp_rec; auto]. destruct (i_tgt p m I Hc) as [Hb T].
    destruct T as [[_ [T1 [T2 T3]]]|[[K _]|[[K _]|[K _]]]]; try congruence.
    constructor; simp_rec.
    + exact (i_ival p m I).
    + lia.
    + intros _. apply (tgt_ok_same p _ m _); simp_rec; auto. { intros c0 Hc0; eauto. } exact (i_tgt p m I Hc).
    + rewrite len_upd; [exact (i_ncfg p m I) | rewrite (i_ncfg p m I); lia].
    + exact (i_temp p m I).
    + exact (i_cmd p m I).
    + exact (i_flt p m I).
    + destruct (i_tinv p m I) as [q [Hq [Hcells [Hnone Hd]]]]. exists q. unfold cell in *; simp_rec.
      split; [exact Hq|]. split; [exact Hcells|]. split; [exact Hnone|].
      right. split; [right; lia|]. destruct Hd as [[_ [K _]]|[_ Hd]]; [congruence | exact Hd].
    + destruct T3 as [[Te _]|Td].
      * left. auto.
      * destruct (i_email p m I) as [[_ [_ Te]]|Et]; [layout; lia|]. right.
        apply (email_term_frame (ncfg m)); [|exact Et]. apply frame_upd; [exact (i_ncfg p m I) | lia | lia].
  - (* intval *)
    split; [|simp_rec; auto]. constructor; simp_rec.
    + rewrite len_upd; [exact (i_ival p m I) | rewrite (i_ival p m I); lia].
    + lia.
    + intros _. apply (tgt_ok_same p _ m m); simp_rec; auto. { intros c0 Hc0; eauto. } exact (i_tgt p m I Hc).
    + exact (i_ncfg p m I).
    + exact (i_temp p m I).
    + exact (i_cmd p m I).
    + exact (i_flt p m I).
    + destruct (i_tinv p m I) as [q [Hq [Hcells [Hnone Hd]]]]. exists q. unfold cell in *; simp_rec.
      split; [exact Hq|]. split; [exact Hcells|]. split; [exact Hnone|].
      right. split; [right; lia|]. destruct Hd as [[_ [K _]]|[_ Hd]]; [congruence | exact Hd].
    + destruct (i_email p m I) as [[_ [K _]]|Et]; [congruence | right; exact Et].
  - (* tempPassword *)
    split; [|simp_rec; auto]. constructor; simp_rec.
    + exact (i_ival p m I).
    + lia.
    + intros _. apply (tgt_ok_same p _ m _); simp_rec; auto. { intros c0 Hc0; eauto. } exact (i_tgt p m I Hc).
    + exact (i_ncfg p m I).
    + rewrite len_upd; [exact (i_temp p m I) | rewrite (i_temp p m I); lia].
    + exact (i_cmd p m I).
    + exact (i_flt p m I).
    + destruct (i_tinv p m I) as [q [Hq [Hcells [Hnone Hd]]]].
      destruct Hd as [[_ [_ Hoq]]|[[Hz|Hk] _]]; [|congruence|congruence].
      exists (Z.max q (offs p + 1)). unfold cell in *; simp_rec. split; [lia|]. split; [|split].
      * intros i Hi. destruct (Z.eq_dec i (offs p)) as [->|Hne].
        -- exists v. apply nth_error_upd_same. rewrite (i_temp p m I). lia.
        -- rewrite nth_error_upd_other by (rewrite ?(i_temp p m I); lia). apply Hcells. lia.
      * intros i Hi. rewrite nth_error_upd_other by (rewrite ?(i_temp p m I); lia). apply Hnone. lia.
      * left. repeat split; auto. lia.
    + destruct (i_email p m I) as [[_ [K _]]|Et]; [congruence | right; exact Et].
  - (* user_cmd *)
    split; [|simp_rec; auto]. constructor; simp_rec.
    + exact (i_ival p m I).
    + lia.
    + intros _. apply (tgt_ok_same p _ m _); simp_rec; auto. { intros c0 Hc0; eauto. } exact (i_tgt p m I Hc).
    + exact (i_ncfg p m I).
    + exact (i_temp p m I).
    + intros c0 Hc0. inversion Hc0; subst c0. rewrite len_upd; [exact (i_cmd p m I c Hcmd) | rewrite (i_cmd p m I c Hcmd); lia].
    + exact (i_flt p m I).
    + destruct (i_tinv p m I) as [q [Hq [Hcells [Hnone Hd]]]]. exists q. unfold cell in *; simp_rec.
      split; [exact Hq|]. split; [exact Hcells|]. split; [exact Hnone|].
      right. split; [right; lia|]. destruct Hd as [[_ [K _]]|[_ Hd]]; [congruence | exact Hd].
    + destruct (i_email p m I) as [[_ [K _]]|Et]; [congruence | right; exact Et].
Qed.

Lemma inv_action sg p3 pc m3 : inv pc m3 -> cur pc = 0 -> inv pc (action sg p3 m3).
Proof.
  intros I Hc. destruct (action_frame sg p3 m3 (i_ncfg pc m3 I)) as [c' [F [E|[E|[r E]]]]]; rewrite E.
  - constructor; simp_rec.
    + exact (i_ival pc m3 I).
    + exact (i_offs pc m3 I).
    + intros H; congruence.
    + rewrite (proj1 F). exact (i_ncfg pc m3 I).
    + exact (i_temp pc m3 I).
    + exact (i_cmd pc m3 I).
    + exact (i_flt pc m3 I).
    + exact (i_tinv pc m3 I).
    + destruct (i_email pc m3 I) as [[H _]|Et]; [congruence|]. right. exact (email_term_frame _ _ F Et).
  - exact I.
  - constructor; simp_rec.
    + exact (i_ival pc m3 I).
    + exact (i_offs pc m3 I).
    + intros H; congruence.
    + exact (i_ncfg pc m3 I).
    + exact (i_temp pc m3 I).
    + exact (i_cmd pc m3 I).
    + exact (i_flt pc m3 I).
    + exact (i_tinv pc m3 I).
    + exact (i_email pc m3 I).
Qed.

Lemma term_ok p m : inv p m -> cur p <> 0 ->
  let '(p3, m3) := terminate p m in inv (close_var p3) m3 /\ cur (close_var p3) = 0.
Proof.
  intros I Hc. pose proof (i_offs p m I) as Hoff. destruct (i_tgt p m I Hc) as [Hb T]. unfold terminate.
  set (j := if offs p <? bsize p then offs p else bsize p - 1).
  assert (Hj : 0 <= j < bsize p) by (unfold j; destruct (offs p <? bsize p) eqn:E; [apply Z.ltb_lt in E|]; lia).
  assert (Hjq : j <= offs p) by (unfold j; destruct (offs p <? bsize p) eqn:E; [|apply Z.ltb_ge in E]; lia).
  replace (if offs p <? bsize p then store p m (offs p) 0 else store p m (bsize p - 1) 0) with (store p m j 0)
    by (unfold j; destruct (offs p <? bsize p); reflexivity).
  destruct (store_spec p m j 0 I Hc Hj) as [[Tk [E R]]|[[Tk [E R]]|[[Tk [E R]]|[Tk [c [Hcmd [E R]]]]]]]; rewrite E.
  - split; [|reflexivity].
    destruct T as [[_ [T1 [T2 T3]]]|[[K _]|[[K _]|[K _]]]]; try congruence.
    constructor; simp_rec.
    + exact (i_ival p m I).
    + exact Hoff.
    + intros H; congruence.
    + rewrite len_upd; [exact (i_ncfg p m I) | rewrite (i_ncfg p m I); lia].
    + exact (i_temp p m I).
    + exact (i_cmd p m I).
    + exact (i_flt p m I).
    + destruct (i_tinv p m I) as [q [Hq [Hcells [Hnone Hd]]]]. exists q. unfold cell in *; simp_rec.
      split; [exact Hq|]. split; [exact Hcells|]. split; [exact Hnone|]. right. split; [left; reflexivity|].
      destruct Hd as [[_ [K _]]|[_ Hd]]; [congruence | exact Hd].
    + right. destruct T3 as [[Te Tb]|Td].
      * exists j. split; [lia|]. rewrite <- Te. apply nthz_upd_same. rewrite (i_ncfg p m I). lia.
      * destruct (i_email p m I) as [[_ [_ Te]]|Et]; [layout; lia|].
        apply (email_term_frame (ncfg m)); [|exact Et]. apply frame_upd; [exact (i_ncfg p m I) | lia | lia].
  - split; [|reflexivity]. constructor; simp_rec.
    + rewrite len_upd; [exact (i_ival p m I) | rewrite (i_ival p m I); lia].
    + exact Hoff.
    + intros H; congruence.
    + exact (i_ncfg p m I).
    + exact (i_temp p m I).
    + exact (i_cmd p m I).
    + exact (i_flt p m I).
    + destruct (i_tinv p m I) as [q [Hq [Hcells [Hnone Hd]]]]. exists q. unfold cell in *; simp_rec.
      split; [exact Hq|]. split; [exact Hcells|]. split; [exact Hnone|]. right. split; [left; reflexivity|].
      destruct Hd as [[_ [K _]]|[_ Hd]]; [congruence | exact Hd].
    + destruct (i_email p m I) as [[_ [K _]]|Et]; [congruence | right; exact Et].
  - split; [|reflexivity]. constructor; simp_rec.
    + exact (i_ival p m I).
    + exact Hoff.
    + intros H; congruence.
    + exact (i_ncfg p m I).
    + rewrite len_upd; [exact (i_temp p m I) | rewrite (i_temp p m I); lia].
    + exact (i_cmd p m I).
    + exact (i_flt p m I).
    + destruct (i_tinv p m I) as [q [Hq [Hcells [Hnone Hd]]]].
      destruct Hd as [[_ [_ Hoq]]|[[Hz|Hk] _]]; [|congruence|congruence].
      destruct T as [[K _]|[[K _]|[[_ Tb]|[K _]]]]; try congruence.
      exists (Z.max q (j + 1)). unfold cell in *; simp_rec. split; [lia|]. split; [|split].
      * intros i Hi. destruct (Z.eq_dec i j) as [->|Hne].
        -- exists 0. apply nth_error_upd_same. rewrite (i_temp p m I). lia.
        -- rewrite nth_error_upd_other by (rewrite ?(i_temp p m I); lia). apply Hcells. lia.
      * intros i Hi. rewrite nth_error_upd_other by (rewrite ?(i_temp p m I); lia). apply Hnone. lia.
      * right. split; [left; reflexivity|]. right. exists j. split; [lia|].
        apply nth_error_upd_same. rewrite (i_temp p m I). lia.
    + destruct (i_email p m I) as [[_ [K _]]|Et]; [congruence | right; exact Et].
  - split; [|reflexivity]. constructor; simp_rec.
    + exact (i_ival p m I).
    + exact Hoff.
    + intros H; congruence.
    + exact (i_ncfg p m I).
    + exact (i_temp p m I).
    + intros c0 Hc0. inversion Hc0; subst c0. rewrite len_upd; [exact (i_cmd p m I c Hcmd) | rewrite (i_cmd p m I c Hcmd); lia].
    + exact (i_flt p m I).
    + destruct (i_tinv p m I) as [q [Hq [Hcells [Hnone Hd]]]]. exists q. unfold cell in *; simp_rec.
      split; [exact Hq|]. split; [exact Hcells|]. split; [exact Hnone|]. right. split; [left; reflexivity|].
      destruct Hd as [[_ [K _]]|[_ Hd]]; [congruence | exact Hd].
    + destruct (i_email p m I) as [[_ [K _]]|Et]; [congruence | right; exact Et].
Qed.

Lemma close_ok sg p m : inv p m -> cur p <> 0 ->
  let '(p3, m3) := terminate p m in inv (close_var p3) (action sg p3 m3) /\ cur (close_var p3) = 0.
Proof.
  intros I Hc. pose proof (term_ok p m I Hc) as H. destruct (terminate p m) as [p3 m3].
  destruct H as [H1 H2]. split; [apply inv_action; assumption | exact H2].
Qed.

(* ---------- the variable table ---------- *)
Definition row_okb (r : list Z) : bool :=
  let size := nthz r 4 in let kind := nthz r 5 in let off := nthz r 6 in
  (1 <=? size) && negb (nthz r 0 =? 0) &&
  (((kind =? 0) && (0 <=? off) && (off + size <=? CFG_SIZE) &&
    (((off =? O_Email) && (size <=? Z_Email)) || (off + size <=? O_Email) || (O_Email + Z_Email <=? off)))
   || ((kind =? 1) && (size <=? INTVAL_SIZE)) || ((kind =? 2) && (size <=? TEMP_SIZE)) || ((kind =? 3) && (size <=? CMD_SIZE))).
Lemma vartab_ok : forallb row_okb VARTAB = true.
Proof. vm_compute. reflexivity. Qed.
Lemma consts_ok : (1 <=? INTVAL_SIZE) && negb (VAR_PRO =? 0) && (0 <=? CMD_SIZE) && (0 <=? TEMP_SIZE) = true.
Proof. vm_compute. reflexivity. Qed.

Lemma find_var_ok n0 n1 n2 r : find_var n0 n1 n2 = Some r -> row_okb r = true.
Proof.
  unfold find_var. intros H. apply find_some in H. destruct H as [Hin _].
  pose proof vartab_ok as V. rewrite forallb_forall in V. apply V. exact Hin.
Qed.

Lemma chk_in seg a m : 0 <= a < len seg -> chk seg a m = m.
Proof.
  intros H. unfold chk. replace ((0 <=? a) && (a <? len seg)) with true; [reflexivity|].
  symmetry. apply andb_true_iff. split; [apply Z.leb_le | apply Z.ltb_lt]; lia.
Qed.

Lemma inv_set_offs0 p m : inv p m -> cur p = 0 -> inv (set_offs p 0) m.
Proof.
  intros I Hc. constructor; simp_rec.
  - exact (i_ival p m I).
  - lia.
  - intros H; congruence.
  - exact (i_ncfg p m I).
  - exact (i_temp p m I).
  - exact (i_cmd p m I).
  - exact (i_flt p m I).
  - destruct (i_tinv p m I) as [q [Hq [Hcells [Hnone Hd]]]]. exists q. unfold cell in *; simp_rec.
    split; [exact Hq|]. split; [exact Hcells|]. split; [exact Hnone|]. right. split; [left; exact Hc|].
    destruct Hd as [[K _]|[_ Hd]]; [congruence | exact Hd].
  - destruct (i_email p m I) as [[K _]|Et]; [congruence | right; exact Et].
Qed.

Lemma inv_alloc_cmd p m : inv p m -> cur p = 0 ->
  inv p (match cmd m with None => set_cmd m (Some (zeros CMD_SIZE)) | Some _ => m end).
Proof.
  intros I Hc. destruct (cmd m) eqn:E; [exact I|]. constructor; simp_rec.
  - exact (i_ival p m I).
  - exact (i_offs p m I).
  - intros H; congruence.
  - exact (i_ncfg p m I).
  - exact (i_temp p m I).
  - intros c0 Hc0. inversion Hc0. apply len_zeros.
    pose proof consts_ok as K. rewrite !andb_true_iff in K. destruct K as [[[_ _] K] _]. apply Z.leb_le in K. exact K.
  - exact (i_flt p m I).
  - destruct (i_tinv p m I) as [q [Hq [Hcells [Hnone Hd]]]]. exists q. unfold cell in *; simp_rec. auto.
  - exact (i_email p m I).
Qed.

Lemma inv_open p m r : inv p m -> cur p = 0 -> row_okb r = true -> (nthz r 5 = 3 -> exists c, cmd m = Some c) ->
  let p' := set_offs (open_var p (nthz r 0) (nthz r 5) (nthz r 6) (nthz r 4)) 0 in inv p' m /\ cur p' <> 0.
Proof.
  intros I Hc R Hcmd. unfold row_okb in R. cbv zeta in R.
  rewrite !andb_true_iff in R. destruct R as [[R1 R0] RK]. apply Z.leb_le in R1.
  apply negb_true_iff in R0. apply Z.eqb_neq in R0.
  split; [|simp_rec; exact R0]. constructor; simp_rec.
  - exact (i_ival p m I).
  - lia.
  - intros _. unfold tgt_ok; simp_rec. split; [exact R1|].
    rewrite !orb_true_iff, !andb_true_iff, !orb_true_iff, !andb_true_iff, !Z.eqb_eq, !Z.leb_le in RK.
    destruct RK as [[[RK|RK]|RK]|RK].
    + left. tauto.
    + right; left. tauto.
    + right; right; left. tauto.
    + right; right; right. destruct RK as [K1 K2]. repeat split; auto.
  - exact (i_ncfg p m I).
  - exact (i_temp p m I).
  - exact (i_cmd p m I).
  - exact (i_flt p m I).
  - destruct (i_tinv p m I) as [q [Hq [Hcells [Hnone Hd]]]]. exists q. unfold cell in *; simp_rec.
    split; [exact Hq|]. split; [exact Hcells|]. split; [exact Hnone|].
    destruct (Z.eq_dec (nthz r 5) 2) as [E2|N2].
    + left. repeat split; auto. lia.
    + right. split; [right; exact N2|]. destruct Hd as [[K _]|[_ Hd]]; [congruence | exact Hd].
  - destruct (i_email p m I) as [[K _]|Et]; [congruence | right; exact Et].
Qed.

Lemma vb_open_ok seg p m a : inv p m -> 0 <= a < len seg ->
  let '(p1, m1, a1) := vb_open seg p m a in
  inv p1 m1 /\ a <= a1 <= len seg /\ (cur p = 0 \/ (p1 = p /\ a1 = a)).
Proof.
  intros I Ha. unfold vb_open. destruct (cur p =? 0) eqn:Ec.
  2:{ split; [exact I|]. split; [lia|]. right; auto. }
  apply Z.eqb_eq in Ec.
  destruct (4 <=? len seg - a) eqn:E4.
  2:{ split; [exact I|]. split; [lia|]. left; exact Ec. }
  apply Z.leb_le in E4. cbv zeta. rewrite !chk_in by lia.
  destruct (rd seg (a + 3) =? 61).
  2:{ split; [exact I|]. split; [lia|]. left; exact Ec. }
  destruct (find_var (rd seg a) (rd seg (a + 1)) (rd seg (a + 2))) as [r|] eqn:F.
  - pose proof (find_var_ok _ _ _ _ F) as R.
    set (m0 := if nthz r 5 =? 3 then match cmd m with None => set_cmd m (Some (zeros CMD_SIZE)) | Some _ => m end else m).
    assert (I0 : inv p m0) by (unfold m0; destruct (nthz r 5 =? 3); [apply inv_alloc_cmd; assumption | exact I]).
    assert (C0 : nthz r 5 = 3 -> exists c, cmd m0 = Some c).
    { intros K. unfold m0. rewrite K. change (3 =? 3) with true. cbv iota.
      destruct (cmd m) eqn:E; [rewrite E; eauto | simp_rec; eauto]. }
    destruct (guard_ok r (ncfg m)).
    + destruct (inv_open p m0 r I0 Ec R C0) as [I1 _]. split; [exact I1|]. split; [lia | left; exact Ec].
    + split; [apply inv_set_offs0; assumption|]. split; [lia | left; exact Ec].
  - split; [apply inv_set_offs0; assumption|]. split; [lia | left; exact Ec].
Qed.

Lemma vb_fill_ok seg p1 m1 a1 : inv p1 m1 -> cur p1 <> 0 -> 0 <= a1 <= len seg ->
  let '(p2, m2, a2) := vb_fill seg p1 m1 a1 in
  inv p2 m2 /\ cur p2 = cur p1 /\ a1 <= a2 <= len seg.
Proof.
  intros I Hc Ha. unfold vb_fill.
  destruct ((offs p1 <? bsize p1) && (a1 <? len seg)) eqn:E.
  2:{ split; [exact I|]. split; [reflexivity | lia]. }
  apply andb_true_iff in E. destruct E as [E1 E2]. apply Z.ltb_lt in E1, E2. cbv zeta. rewrite (chk_in seg a1 m1) by lia.
  destruct (negb (rd seg a1 =? 38)).
  2:{ split; [exact I|]. split; [reflexivity | lia]. }
  destruct ((rd seg a1 =? 37) && (a1 + 2 <? len seg)) eqn:E3.
  - apply andb_true_iff in E3. destruct E3 as [_ E3]. apply Z.ltb_lt in E3. rewrite !chk_in by lia.
    pose proof (fill_ok p1 m1 (u8 (hex2 (rd seg (a1 + 1)) (rd seg (a1 + 2)))) I Hc E1) as F.
    destruct (fill p1 m1 _) as [p' m']. destruct F as [F1 [F2 _]]. split; [exact F1|]. split; [exact F2 | lia].
  - destruct (rd seg a1 =? 43).
    + pose proof (fill_ok p1 m1 32 I Hc E1) as F. destruct (fill p1 m1 32) as [p' m'].
      destruct F as [F1 [F2 _]]. split; [exact F1|]. split; [exact F2 | lia].
    + pose proof (fill_ok p1 m1 (rd seg a1) I Hc E1) as F. destruct (fill p1 m1 (rd seg a1)) as [p' m'].
      destruct F as [F1 [F2 _]]. split; [exact F1|]. split; [exact F2 | lia].
Qed.

Lemma vb_close_ok sg seg p2 m2 a2 : inv p2 m2 -> cur p2 <> 0 -> 0 <= a2 ->
  let '(a', p', m') := vb_close sg seg p2 m2 a2 in
  inv p' m' /\ a' = a2 + 1 /\ (cur p' = 0 \/ a' < len seg).
Proof.
  intros I Hc Ha. unfold vb_close.
  assert (Hclose : forall m2', m2' = m2 ->
            let '(p3, m3) := terminate p2 m2' in
            inv (close_var p3) (action sg p3 m3) /\ a2 + 1 = a2 + 1 /\ (cur (close_var p3) = 0 \/ a2 + 1 < len seg)).
  { intros m2' ->. pose proof (close_ok sg p2 m2 I Hc) as H. destruct (terminate p2 m2) as [p3 m3].
    destruct H as [H1 H2]. split; [exact H1|]. split; [reflexivity | left; exact H2]. }
  destruct (bsize p2 <=? offs p2).
  - specialize (Hclose m2 eq_refl). destruct (terminate p2 m2) as [p3 m3]. exact Hclose.
  - destruct (len seg - 1 <=? a2) eqn:E.
    + specialize (Hclose m2 eq_refl). destruct (terminate p2 m2) as [p3 m3]. exact Hclose.
    + apply Z.leb_gt in E. cbv zeta. rewrite chk_in by lia. destruct (rd seg a2 =? 38).
      * specialize (Hclose m2 eq_refl). destruct (terminate p2 m2) as [p3 m3]. exact Hclose.
      * split; [exact I|]. split; [reflexivity | right; lia].
Qed.

Lemma vars_body_ok sg seg p m a : inv p m -> 0 <= a < len seg ->
  let '(a', p', m') := vars_body sg seg p m a in
  inv p' m' /\ a < a' /\ (cur p' = 0 \/ a' < len seg).
Proof.
  intros I Ha. unfold vars_body.
  pose proof (vb_open_ok seg p m a I Ha) as O. destruct (vb_open seg p m a) as [[p1 m1] a1].
  destruct O as [I1 [Ha1 _]].
  destruct (cur p1 =? 0) eqn:Ec.
  - apply Z.eqb_eq in Ec. split; [exact I1|]. split; [lia | left; exact Ec].
  - apply Z.eqb_neq in Ec.
    pose proof (vb_fill_ok seg p1 m1 a1 I1 Ec ltac:(lia)) as F. destruct (vb_fill seg p1 m1 a1) as [[p2 m2] a2].
    destruct F as [I2 [Hc2 Ha2]].
    pose proof (vb_close_ok sg seg p2 m2 a2 I2 ltac:(congruence) ltac:(lia)) as C.
    destruct (vb_close sg seg p2 m2 a2) as [[a' p'] m']. destruct C as [I3 [Ea' Hend]].
    split; [exact I3|]. split; [lia | exact Hend].
Qed.

Lemma vars_loop_ok sg seg : forall fuel p m a,
  inv p m -> 0 <= a -> (cur p = 0 \/ a < len seg) -> len seg - a < Z.of_nat fuel ->
  let '(p', m') := vars_loop fuel sg seg p m a in inv p' m' /\ cur p' = 0.
Proof.
  induction fuel as [|f IH]; intros p m a I Ha Hc Hf.
  - cbn [vars_loop]. split; [exact I|]. destruct Hc; [assumption | lia].
  - cbn [vars_loop]. destruct (a <? len seg) eqn:E.
    + apply Z.ltb_lt in E. pose proof (vars_body_ok sg seg p m a I ltac:(lia)) as B.
      destruct (vars_body sg seg p m a) as [[a' p'] m']. destruct B as [I' [Ha' Hc']].
      apply IH; auto; lia.
    + apply Z.ltb_ge in E. split; [exact I|]. destruct Hc; [assumption | lia].
Qed.

(* ---------- C strings ---------- *)
Lemma nthz_nil i : nthz [] i = 0.
Proof. unfold nthz; destruct (Z.to_nat i); reflexivity. Qed.
Lemma nthz_cons_0 b r : nthz (b :: r) 0 = b.
Proof. reflexivity. Qed.
Lemma nthz_cons_S b r i : 0 <= i -> nthz (b :: r) (i + 1) = nthz r i.
Proof. intros; unfold nthz. replace (Z.to_nat (i + 1)) with (S (Z.to_nat i)) by lia. reflexivity. Qed.
Lemma cstr_len l : len (cstr l) <= len l.
Proof.
  induction l as [|b r IH]; cbn [cstr]; [lia|]. destruct (b =? 0); rewrite ?len_cons, ?len_nil.
  - pose proof (len_nonneg r); lia.
  - lia.
Qed.
Lemma cstr_len_le : forall l k, 0 <= k -> nthz l k = 0 -> len (cstr l) <= k.
Proof.
  induction l as [|b r IH]; intros k Hk Hz; cbn [cstr]; [rewrite len_nil; lia|].
  destruct (b =? 0) eqn:E; [rewrite len_nil; lia|]. apply Z.eqb_neq in E. rewrite len_cons.
  assert (k <> 0) by (intro; subst k; rewrite nthz_cons_0 in Hz; congruence).
  replace k with ((k - 1) + 1) in Hz by lia. rewrite nthz_cons_S in Hz by lia.
  specialize (IH (k - 1) ltac:(lia) Hz). lia.
Qed.
Lemma cstr_nth_zero : forall l, len (cstr l) < len l -> nthz l (len (cstr l)) = 0.
Proof.
  induction l as [|b r IH]; cbn [cstr]; intros H; [rewrite len_nil in H; lia|].
  destruct (b =? 0) eqn:E.
  - apply Z.eqb_eq in E. rewrite len_nil. rewrite nthz_cons_0. exact E.
  - rewrite !len_cons in *. replace (1 + len (cstr r)) with (len (cstr r) + 1) by lia.
    rewrite nthz_cons_S by apply len_nonneg. apply IH. lia.
Qed.
Lemma nthz_take (l : list Z) n k : 0 <= k < n -> nthz (take n l) k = nthz l k.
Proof. intros H. unfold nthz, take. apply nth_firstn_lt. lia. Qed.
Lemma nthz_drop (l : list Z) off k : 0 <= off -> 0 <= k -> nthz (drop off l) k = nthz l (off + k).
Proof. intros. unfold nthz, drop. rewrite nth_skipn_add. f_equal. lia. Qed.
Lemma nthz_slice (l : list Z) off n k : 0 <= off -> 0 <= k < n -> nthz (slice l off n) k = nthz l (off + k).
Proof. intros. unfold slice. rewrite nthz_take by lia. apply nthz_drop; lia. Qed.
Lemma strnlen_le l n : 0 <= n -> 0 <= strnlen l n <= n.
Proof.
  intros. unfold strnlen. pose proof (cstr_len (take n l)). pose proof (len_nonneg (cstr (take n l))).
  rewrite len_take in * by lia. lia.
Qed.
Lemma strnlen_lt l n k : 0 <= k < n -> nthz l k = 0 -> strnlen l n <= k.
Proof. intros Hk Hz. unfold strnlen. apply cstr_len_le; [lia|]. rewrite nthz_take by lia. exact Hz. Qed.
Lemma strnlen_zero l n : 0 <= n <= len l -> strnlen l n < n -> nthz l (strnlen l n) = 0.
Proof.
  intros Hn H. unfold strnlen in *. rewrite <- (nthz_take l n) by (pose proof (len_nonneg (cstr (take n l))); lia).
  apply cstr_nth_zero. rewrite len_take by lia. lia.
Qed.

Lemma email_strnlen c : len c = CFG_SIZE -> email_term c ->
  strnlen (slice c O_Email Z_Email) Z_Email < Z_Email.
Proof.
  intros L [k [Hk Hz]]. pose proof (strnlen_lt (slice c O_Email Z_Email) Z_Email k Hk) as H.
  rewrite nthz_slice in H by (layout; lia). specialize (H Hz). lia.
Qed.
Lemma email_nul_at c : len c = CFG_SIZE -> email_term c ->
  nthz c (O_Email + strnlen (slice c O_Email Z_Email) Z_Email) = 0.
Proof.
  intros L E. pose proof (email_strnlen c L E) as H.
  pose proof (strnlen_le (slice c O_Email Z_Email) Z_Email ltac:(layout; lia)) as B.
  rewrite <- (nthz_slice c O_Email Z_Email) by (layout; lia).
  apply strnlen_zero; [|exact H]. rewrite len_slice by (layout; lia). layout; lia.
Qed.

(* an update outside [O_Email, O_Email + maillen] keeps the e-mail and its terminator *)
Lemma email_term_blit_behind c off b :
  len c = CFG_SIZE -> email_term c -> 0 <= off -> off + len b <= CFG_SIZE ->
  (O_Email + strnlen (slice c O_Email Z_Email) Z_Email < off \/ off + len b <= O_Email) ->
  email_term (blit c off b).
Proof.
  intros L E Ho Hl D. pose proof (email_strnlen c L E) as H. pose proof (email_nul_at c L E) as Z0.
  pose proof (strnlen_le (slice c O_Email Z_Email) Z_Email ltac:(layout; lia)) as B.
  exists (strnlen (slice c O_Email Z_Email) Z_Email). split; [lia|].
  rewrite nthz_blit_other by (layout; lia). exact Z0.
Qed.

Lemma inv_frame pc m3 c' : inv pc m3 -> cur pc = 0 -> len c' = CFG_SIZE -> email_term c' -> inv pc (set_ncfg m3 c').
Proof.
  intros I Hc L E. constructor; simp_rec.
  - exact (i_ival pc m3 I).
  - exact (i_offs pc m3 I).
  - intros H; congruence.
  - exact L.
  - exact (i_temp pc m3 I).
  - exact (i_cmd pc m3 I).
  - exact (i_flt pc m3 I).
  - exact (i_tinv pc m3 I).
  - right; exact E.
Qed.
Lemma inv_email pc m : inv pc m -> cur pc = 0 -> email_term (ncfg m).
Proof. intros I Hc. destruct (i_email pc m I) as [[K _]|E]; [congruence | exact E]. Qed.

(* ---------- supla_esp_parse_proto_var (repaired) ---------- *)
Definition pro_row : list Z := [VAR_PRO; 112; 114; 111; INTVAL_SIZE; 1; 0; 0; 0].
Lemma pro_row_ok : row_okb pro_row = true.
Proof. vm_compute. reflexivity. Qed.

Lemma flag_set_frame c mask on : len c = CFG_SIZE -> frame_ok c (flag_set c mask on).
Proof. intros L. frame_tac. Qed.

Definition pinv (p : pvars) (m : mem) : Prop :=
  inv p m /\ (cur p = 0 \/ (cur p = VAR_PRO /\ offs p < bsize p)).

Lemma proto_body_ok seg p m a : pinv p m -> 0 <= a < len seg ->
  let '(go, a', p', m') := proto_body FIXED seg p m a in
  inv p' m' /\ a < a' /\
  (if go then (cur p' = 0 \/ (cur p' = VAR_PRO /\ offs p' < bsize p' /\ a' < len seg)) else cur p' = 0).
Proof.
  intros [I Hp] Ha. unfold proto_body. cbv zeta.
  assert (VP : VAR_PRO <> 0).
  { pose proof consts_ok as K. rewrite !andb_true_iff in K. destruct K as [[[_ K] _] _].
    apply negb_true_iff in K. apply Z.eqb_neq in K. exact K. }
  (* first part *)
  assert (H1 : exists p1 a1,
     (if cur p =? 0 then
        if (4 <=? len seg - a) && (rd seg (a + 3) =? 61) then
          (set_offs (if (rd seg a =? 112) && (rd seg (a + 1) =? 114) && (rd seg (a + 2) =? 111)
                     then open_var p VAR_PRO 1 0 INTVAL_SIZE else p) 0, m, a + 4)
        else (p, m, a) else (p, m, a)) = (p1, m, a1) /\
     inv p1 m /\ (cur p1 = 0 \/ (cur p1 = VAR_PRO /\ offs p1 < bsize p1)) /\ a <= a1 <= len seg).
  { destruct (cur p =? 0) eqn:Ec.
    - apply Z.eqb_eq in Ec. destruct ((4 <=? len seg - a) && (rd seg (a + 3) =? 61)) eqn:E4.
      + apply andb_true_iff in E4. destruct E4 as [E4 _]. apply Z.leb_le in E4.
        destruct ((rd seg a =? 112) && (rd seg (a + 1) =? 114) && (rd seg (a + 2) =? 111)).
        * eexists _, _. split; [reflexivity|].
          destruct (inv_open p m pro_row I Ec pro_row_ok ltac:(intros K; vm_compute in K; discriminate)) as [I1 _].
          change (nthz pro_row 0) with VAR_PRO in I1. change (nthz pro_row 5) with 1 in I1.
          change (nthz pro_row 6) with 0 in I1. change (nthz pro_row 4) with INTVAL_SIZE in I1.
          split; [exact I1|]. split; [|lia]. right. simp_rec. split; [reflexivity|].
          pose proof consts_ok as K. rewrite !andb_true_iff in K. destruct K as [[[K _] _] _]. apply Z.leb_le in K. lia.
        * eexists _, _. split; [reflexivity|]. split; [apply inv_set_offs0; assumption|]. split; [left; simp_rec; exact Ec | lia].
      + eexists _, _. split; [reflexivity|]. split; [exact I|]. split; [left; exact Ec | lia].
    - eexists _, _. split; [reflexivity|]. split; [exact I|]. split; [exact Hp | lia]. }
  destruct H1 as [p1 [a1 [E1 [I1 [Hp1 Ha1]]]]]. rewrite E1. clear E1.
  destruct (cur p1 =? VAR_PRO) eqn:Ecp.
  2:{ apply Z.eqb_neq in Ecp. split; [exact I1|]. split; [lia|]. left. destruct Hp1 as [K|[K _]]; [exact K | congruence]. }
  apply Z.eqb_eq in Ecp. destruct Hp1 as [K|[_ Hob]]; [congruence|].
  assert (Hc1 : cur p1 <> 0) by congruence.
  (* the store *)
  assert (H2 : exists p2 m2,
     (if fx_pro FIXED && negb (a1 <? len seg) then (p1, m) else fill p1 (chk seg a1 m) (rd seg a1)) = (p2, m2) /\
     inv p2 m2 /\ cur p2 = cur p1 /\ bsize p2 = bsize p1 /\ (a1 < len seg \/ len seg - 1 <= a1)).
  { cbn [fx_pro FIXED andb]. destruct (a1 <? len seg) eqn:El; cbn [negb].
    - apply Z.ltb_lt in El. rewrite chk_in by lia.
      pose proof (fill_ok p1 m (rd seg a1) I1 Hc1 Hob) as F. destruct (fill p1 m (rd seg a1)) as [p2 m2].
      destruct F as [F1 [F2 [F3 _]]]. eexists _, _. split; [reflexivity|].
      split; [exact F1|]. split; [exact F2|]. split; [exact F3 | left; exact El].
    - apply Z.ltb_ge in El. eexists _, _. split; [reflexivity|].
      split; [exact I1|]. split; [reflexivity|]. split; [reflexivity | right; lia]. }
  destruct H2 as [p2 [m2 [E2 [I2 [Hc2 [Hb2 Hal]]]]]]. rewrite E2. clear E2.
  destruct ((bsize p2 <=? offs p2) || (len seg - 1 <=? a1) || (rd seg a1 =? 38)) eqn:Ecl.
  - pose proof (term_ok p2 m2 I2 ltac:(congruence)) as T. destruct (terminate p2 m2) as [p3 m3].
    destruct T as [T1 T2]. split; [|split; [lia | exact T2]].
    apply inv_frame; [exact T1 | exact T2 | |].
    + rewrite (proj1 (flag_set_frame _ _ _ (i_ncfg _ _ T1))). exact (i_ncfg _ _ T1).
    + apply (email_term_frame (ncfg m3)); [apply flag_set_frame; exact (i_ncfg _ _ T1) | exact (inv_email _ _ T1 T2)].
  - rewrite !orb_false_iff in Ecl. destruct Ecl as [[C1 C2] _]. apply Z.leb_gt in C1, C2.
    split; [exact I2|]. split; [lia|]. right. split; [congruence|]. split; lia.
Qed.

Lemma proto_loop_ok seg : forall fuel p m a,
  pinv p m -> 0 <= a -> (cur p = 0 \/ a < len seg) -> len seg - a < Z.of_nat fuel ->
  let '(p', m') := proto_loop fuel FIXED seg p m a in inv p' m' /\ cur p' = 0.
Proof.
  induction fuel as [|f IH]; intros p m a [I Hp] Ha Hc Hf.
  - cbn [proto_loop]. split; [exact I|]. destruct Hc; [assumption | lia].
  - cbn [proto_loop]. destruct (a <? len seg) eqn:E.
    + apply Z.ltb_lt in E. pose proof (proto_body_ok seg p m a (conj I Hp) ltac:(lia)) as B.
      destruct (proto_body FIXED seg p m a) as [[[go a'] p'] m']. destruct B as [I' [Ha' Hg]].
      destruct go.
      * apply IH; [split; [exact I'|]; destruct Hg as [K|[K1 [K2 _]]]; auto | lia | destruct Hg as [K|[_ [_ K]]]; auto | lia].
      * split; assumption.
    + apply Z.ltb_ge in E. split; [exact I|]. destruct Hc; [assumption | lia].
Qed.

(* ---------- the long-password spill (repaired: tempPassword[0] initialised) ---------- *)
Lemma nth_error_cons_S {A} (x : A) r i : 0 <= i -> nth_error (x :: r) (Z.to_nat (i + 1)) = nth_error r (Z.to_nat i).
Proof. intros. replace (Z.to_nat (i + 1)) with (S (Z.to_nat i)) by lia. reflexivity. Qed.

Lemma temp_str_ok : forall t q,
  (forall i, 0 <= i < q -> exists v, nth_error t (Z.to_nat i) = Some (Some v)) ->
  (exists k, 0 <= k < q /\ nth_error t (Z.to_nat k) = Some (Some 0)) ->
  snd (temp_str t) = true /\ len (fst (temp_str t)) < q.
Proof.
  induction t as [|x r IH]; intros q Hc [k [Hk Hz]].
  - destruct (Z.to_nat k); discriminate.
  - destruct (Hc 0 ltac:(lia)) as [v Hv]. cbn in Hv. inversion Hv; subst x. cbn [temp_str].
    destruct (v =? 0) eqn:E; [cbn [fst snd]; rewrite len_nil; split; [reflexivity | lia]|].
    apply Z.eqb_neq in E.
    assert (Hk0 : k <> 0) by (intro; subst k; cbn in Hz; congruence).
    destruct (IH (q - 1)) as [I1 I2].
    + intros i Hi. destruct (Hc (i + 1) ltac:(lia)) as [w Hw]. rewrite nth_error_cons_S in Hw by lia. eauto.
    + exists (k - 1). split; [lia|]. replace k with ((k - 1) + 1) in Hz by lia. rewrite nth_error_cons_S in Hz by lia. exact Hz.
    + destruct (temp_str r) as [s ok]. cbn [fst snd] in *. rewrite len_cons. split; [exact I1 | lia].
Qed.

Lemma pwd_frame c b : len c = CFG_SIZE -> len b <= PWD_MAX -> frame_ok c (blit c O_LocationPwd b).
Proof.
  intros L Hb. pose proof (len_nonneg b). apply frame_blit; [exact L | layout; lia | layout; lia | layout; lia].
Qed.

Lemma spill_ok p m : inv p m -> cur p = 0 -> inv p (spill FIXED m).
Proof.
  intros I Hc. unfold spill. cbn [fx_temp FIXED].
  pose proof (i_temp p m I) as Lt. destruct (i_tinv p m I) as [q [Hq [Hcells [Hnone Hd]]]].
  destruct Hd as [[K _]|[_ Hd]]; [congruence|].
  destruct (temp m) as [|x r] eqn:Et; [rewrite len_nil in Lt; layout; lia|].
  destruct Hd as [Hq0|[k [Hk Hz]]].
  - (* nothing written: the repaired code starts with an empty string *)
    subst q. pose proof (Hnone 0 ltac:(layout; lia)) as H0. unfold cell in H0. rewrite Et in H0. cbn in H0.
    inversion H0; subst x. cbn [nth_error].
    unfold tget. simp_rec. cbn [nth_error Z.to_nat]. cbn [Z.eqb].
    constructor; simp_rec.
    + exact (i_ival p m I).
    + exact (i_offs p m I).
    + intros H; congruence.
    + exact (i_ncfg p m I).
    + rewrite len_cons in *. exact Lt.
    + exact (i_cmd p m I).
    + exact (i_flt p m I).
    + exists 1. unfold cell in *; simp_rec. split; [layout; lia|]. split; [|split].
      * intros i Hi. replace i with 0 by lia. exists 0. reflexivity.
      * intros i Hi. specialize (Hnone i ltac:(lia)). rewrite Et in Hnone.
        replace i with ((i - 1) + 1) in * by lia. rewrite nth_error_cons_S in * by lia. exact Hnone.
      * right. split; [left; exact Hc|]. right. exists 0. split; [lia | reflexivity].
    + exact (i_email p m I).
  - destruct (Hcells 0 ltac:(lia)) as [v Hv]. unfold cell in Hv. rewrite Et in Hv. cbn in Hv. inversion Hv; subst x.
    cbn [nth_error]. unfold tget. rewrite Et. cbn [nth_error Z.to_nat]. cbv beta iota zeta. rewrite Et.
    destruct (v =? 0); [exact I|].
    assert (TS : snd (temp_str (Some v :: r)) = true /\ len (fst (temp_str (Some v :: r))) < q).
    { apply temp_str_ok.
      - intros i Hi. specialize (Hcells i Hi). unfold cell in Hcells. rewrite Et in Hcells. exact Hcells.
      - exists k. split; [exact Hk|]. unfold cell in Hz. rewrite Et in Hz. exact Hz. }
    destruct (temp_str (Some v :: r)) as [s ok]. cbn [fst snd] in TS. destruct TS as [-> Hs].
    pose proof (i_ncfg p m I) as Lc. pose proof (inv_email p m I Hc) as Em.
    pose proof (email_strnlen (ncfg m) Lc Em) as Hml.
    pose proof (strnlen_le (slice (ncfg m) O_Email Z_Email) Z_Email ltac:(layout; lia)) as Hmb.
    set (ml := strnlen (slice (ncfg m) O_Email Z_Email) Z_Email) in *.
    pose proof (len_nonneg s) as Hs0.
    destruct (len s <? PWD_MAX) eqn:Es.
    + apply Z.ltb_lt in Es.
      assert (F : frame_ok (ncfg m) (blit (ncfg m) O_LocationPwd (s ++ [0])))
        by (apply pwd_frame; [exact Lc | rewrite len_app, len_cons, len_nil; lia]).
      apply inv_frame; [exact I | exact Hc | rewrite (proj1 F); exact Lc | exact (email_term_frame _ _ F Em)].
    + apply Z.ltb_ge in Es.
      set (n := Z_Email - ml - 1). set (src := take n (drop PWD_MAX s ++ zeros n)).
      assert (Hn : 0 <= n) by (unfold n; lia).
      assert (Ls : len src = n).
      { unfold src. rewrite len_take by lia. rewrite len_app, len_zeros by lia.
        pose proof (len_nonneg (drop PWD_MAX s)). lia. }
      replace ((0 <=? n) && (ml + 1 + len src <=? Z_Email)) with true
        by (symmetry; apply andb_true_iff; split; [apply Z.leb_le | apply Z.leb_le]; unfold n in *; lia).
      assert (F1 : frame_ok (ncfg m) (blit (ncfg m) O_LocationPwd (take PWD_MAX s)))
        by (apply pwd_frame; [exact Lc | rewrite len_take by (layout; lia); lia]).
      set (c1 := blit (ncfg m) O_LocationPwd (take PWD_MAX s)) in *.
      assert (L1 : len c1 = CFG_SIZE) by (rewrite (proj1 F1); exact Lc).
      assert (L2 : len (blit c1 (O_Email + ml + 1) src) = CFG_SIZE)
        by (rewrite len_blit; [exact L1 | layout; lia | rewrite Ls, L1; unfold n; layout; lia]).
      apply inv_frame; [exact I | exact Hc | |].
      * rewrite len_upd; [exact L2 | rewrite L2; layout; lia].
      * exists (Z_Email - 1). split; [layout; lia|].
        replace (O_Email + (Z_Email - 1)) with (O_Email + Z_Email - 1) by lia.
        apply nthz_upd_same. rewrite L2. layout; lia.
Qed.

(* ---------- supla_esp_parse_vars / supla_esp_parse_request (repaired) ---------- *)
Lemma nth_error_repeat {A} (x : A) : forall n i, (i < n)%nat -> nth_error (repeat x n) i = Some x.
Proof. induction n; intros i H; [lia|]. destruct i; cbn; [reflexivity | apply IHn; lia]. Qed.

Lemma inv_fresh p m : inv p m -> cur p = 0 -> inv p (set_temp m fresh_temp).
Proof.
  intros I Hc. constructor; simp_rec.
  - exact (i_ival p m I).
  - exact (i_offs p m I).
  - intros H; congruence.
  - exact (i_ncfg p m I).
  - unfold fresh_temp, len. rewrite repeat_length. layout; lia.
  - exact (i_cmd p m I).
  - exact (i_flt p m I).
  - exists 0. unfold cell; simp_rec. split; [layout; lia|]. split; [intros; lia|]. split.
    + intros i Hi. unfold fresh_temp. apply nth_error_repeat. lia.
    + right. split; [left; exact Hc | left; reflexivity].
  - exact (i_email p m I).
Qed.

Lemma parse_vars_ok sg seg p m : inv p m -> cur p = 0 ->
  let '(p', m') := parse_vars FIXED sg seg p m in inv p' m' /\ cur p' = 0.
Proof.
  intros I Hc. unfold parse_vars.
  pose proof (vars_loop_ok sg seg (S (length seg)) p (set_temp m fresh_temp) 0 (inv_fresh p m I Hc) ltac:(lia)
                (or_introl Hc) ltac:(unfold len; lia)) as L.
  destruct (vars_loop (S (length seg)) sg seg p (set_temp m fresh_temp) 0) as [p' m'].
  destruct L as [I' Hc']. split; [apply spill_ok; assumption | exact Hc'].
Qed.

Lemma inv_set_step p m s t : inv p m -> inv (set_step p s t) m.
Proof.
  intros I. constructor; simp_rec.
  - exact (i_ival p m I).
  - exact (i_offs p m I).
  - intros H. apply (tgt_ok_same p _ m m); simp_rec; auto. { intros c Hc'; eauto. } exact (i_tgt p m I H).
  - exact (i_ncfg p m I).
  - exact (i_temp p m I).
  - exact (i_cmd p m I).
  - exact (i_flt p m I).
  - exact (i_tinv p m I).
  - exact (i_email p m I).
Qed.

Lemma count_fixed seg : forall fuel a, 0 <= a ->
  count_hdr_end fuel FIXED seg a = 0 \/ (count_hdr_end fuel FIXED seg a = 1 /\ 4 <= len seg).
Proof.
  induction fuel as [|f IH]; intros a Ha; cbn [count_hdr_end]; [left; reflexivity|].
  destruct (a <? len seg); [|left; reflexivity].
  destruct ((4 <=? len seg - a) && list_eqb (slice seg a 4) s_crlf2) eqn:E.
  - cbn [fx_hdr FIXED]. right. split; [reflexivity|]. apply andb_true_iff in E. destruct E as [E _]. apply Z.leb_le in E. lia.
  - apply IH. lia.
Qed.

Lemma parse_request_ok sg seg p m : inv p m -> cur p = 0 ->
  let '(p', m') := parse_request FIXED sg seg p m in inv p' m' /\ cur p' = 0.
Proof.
  intros I Hc. unfold parse_request. destruct (len seg =? 0); [split; assumption|].
  set (pa := if step p =? STEP_TYPE_ then
               if is_prefix (s_get ++ s_url) seg then set_step p STEP_GET_ TYPE_GET_
               else if is_prefix (s_post ++ s_url) seg then set_step p STEP_POST_ TYPE_POST_ else p
             else p).
  assert (Ia : inv pa m /\ cur pa = 0).
  { unfold pa. destruct (step p =? STEP_TYPE_); [|split; assumption].
    destruct (is_prefix (s_get ++ s_url) seg); [split; [apply inv_set_step; exact I | exact Hc]|].
    destruct (is_prefix (s_post ++ s_url) seg); [split; [apply inv_set_step; exact I | exact Hc] | split; assumption]. }
  destruct Ia as [Ia Hca]. cbv zeta.
  set (k := if step pa =? STEP_POST_ then count_hdr_end (S (length seg)) FIXED seg 0 else 0).
  assert (Hk : k = 0 \/ (k = 1 /\ 4 <= len seg)).
  { unfold k. destruct (step pa =? STEP_POST_); [apply count_fixed; lia | left; reflexivity]. }
  set (pb := if 0 <? k then set_step pa STEP_PARSE_VARS_ (typ pa) else pa).
  assert (Ib : inv pb m /\ cur pb = 0).
  { unfold pb. destruct (0 <? k); [split; [apply inv_set_step; exact Ia | exact Hca] | split; assumption]. }
  destruct Ib as [Ib Hcb].
  destruct (step pb =? STEP_PARSE_VARS_); [|split; assumption].
  destruct (len seg <? 3 * k) eqn:El; [apply Z.ltb_lt in El; pose proof (len_nonneg seg); clearbody k; lia|].
  set (seg' := drop (3 * k) seg).
  pose proof (proto_loop_ok seg' (S (length seg')) pb m 0 (conj Ib (or_introl Hcb)) ltac:(lia)
                (or_introl Hcb) ltac:(unfold len; lia)) as P.
  destruct (proto_loop (S (length seg')) FIXED seg' pb m 0) as [p1 m1]. destruct P as [I1 Hc1].
  apply parse_vars_ok; assumption.
Qed.

(* ---------- supla_esp_recv_callback (repaired) ---------- *)
Record dev_ok (d : dev) : Prop := {
  d_len : len (dcfg d) = CFG_SIZE;
  d_email : email_term (dcfg d);
  d_cmd : forall c, dcmd d = Some c -> len c = CMD_SIZE;
  d_ival : len (ival (dpv d)) = INTVAL_SIZE;
  d_offs : 0 <= offs (dpv d);
  d_cur : cur (dpv d) = 0
}.

Lemma restore_password_ok old m :
  len old = CFG_SIZE -> email_term old -> len (ncfg m) = CFG_SIZE -> email_term (ncfg m) ->
  let m1 := restore_password FIXED old (ncfg m) m in
  flt m1 = flt m /\ cmd m1 = cmd m /\ len (ncfg m1) = CFG_SIZE /\ email_term (ncfg m1).
Proof.
  intros Lo Eo Lc Ec. unfold restore_password. cbv zeta.
  destruct (negb (nthz (ncfg m) O_LocationPwd =? 0)); [auto|].
  assert (F1 : frame_ok (ncfg m) (blit (ncfg m) O_LocationPwd (slice old O_LocationPwd PWD_MAX)))
    by (apply pwd_frame; [exact Lc | apply len_slice_le; layout; lia]).
  set (c1 := blit (ncfg m) O_LocationPwd (slice old O_LocationPwd PWD_MAX)) in *.
  assert (L1 : len c1 = CFG_SIZE) by (rewrite (proj1 F1); exact Lc).
  assert (E1 : email_term c1) by exact (email_term_frame _ _ F1 Ec).
  destruct (negb (strnlen (slice old O_LocationPwd PWD_MAX) PWD_MAX =? PWD_MAX)); [simp_rec; auto|].
  set (oldmail := strnlen (slice old O_Email Z_Email) Z_Email).
  set (newmail := strnlen (slice c1 O_Email Z_Email) Z_Email).
  pose proof (strnlen_le (slice old O_Email Z_Email) Z_Email ltac:(layout; lia)) as Bo.
  pose proof (strnlen_le (slice c1 O_Email Z_Email) Z_Email ltac:(layout; lia)) as Bn.
  fold oldmail in Bo. fold newmail in Bn.
  destruct ((oldmail <? Z_Email) && (newmail <? Z_Email)) eqn:Eb.
  - apply andb_true_iff in Eb. destruct Eb as [Eb1 Eb2]. apply Z.ltb_lt in Eb1, Eb2.
    set (part := strnlen (slice old (O_Email + oldmail + 1) (Z_Email - oldmail - 1)) (Z_Email - oldmail - 1)).
    pose proof (strnlen_le (slice old (O_Email + oldmail + 1) (Z_Email - oldmail - 1)) (Z_Email - oldmail - 1) ltac:(lia)) as Bp.
    fold part in Bp.
    destruct (part <? Z_Email - oldmail - 1) eqn:Ep.
    2:{ cbn [fx_stale FIXED andb]. destruct (newmail <? Z_Email - 1) eqn:En; [|simp_rec; auto].
        apply Z.ltb_lt in En. simp_rec. split; [reflexivity|]. split; [reflexivity|]. split.
        - rewrite len_blit; [exact L1 | layout; lia | rewrite L1; cbn [len length Z.of_nat]; layout; lia].
        - apply email_term_blit_behind; [exact L1 | exact E1 | layout; lia | cbn [len length Z.of_nat]; layout; lia | left; fold newmail; lia]. }
    apply Z.ltb_lt in Ep. cbn [fx_clip FIXED andb].
    set (part' := if Z_Email - newmail - 1 <=? part then Z_Email - newmail - 1 - 1 else part).
    assert (Hp' : part' <= Z_Email - newmail - 2).
    { unfold part'. destruct (Z_Email - newmail - 1 <=? part) eqn:Er; [lia | apply Z.leb_gt in Er; lia]. }
    destruct (part' <? 0) eqn:Eneg; [simp_rec; auto|]. apply Z.ltb_ge in Eneg.
    set (bytes := slice old (O_Email + oldmail + 1) part' ++ [0]).
    assert (Lb : len bytes <= part' + 1).
    { unfold bytes. rewrite len_app, len_cons, len_nil.
      pose proof (len_slice_le old (O_Email + oldmail + 1) part' ltac:(layout; lia) Eneg). lia. }
    pose proof (len_nonneg bytes) as Lb0.
    replace (newmail + 1 + len bytes <=? Z_Email) with true by (symmetry; apply Z.leb_le; lia).
    simp_rec. split; [reflexivity|]. split; [reflexivity|]. split.
    + rewrite len_blit; [exact L1 | layout; lia | rewrite L1; layout; lia].
    + apply email_term_blit_behind; [exact L1 | exact E1 | layout; lia | layout; lia | left; fold newmail; lia].
  - simp_rec. split; [reflexivity|]. split; [reflexivity|].
    assert (F2 : frame_ok c1 (upd c1 (O_LocationPwd + PWD_MAX - 1) 0))
      by (apply frame_upd; [exact L1 | layout; lia | layout; lia]).
    split; [rewrite (proj1 F2); exact L1 | exact (email_term_frame _ _ F2 E1)].
Qed.

Lemma recv_ok sg d seg : dev_ok d ->
  let '(d', r) := recv FIXED sg d seg in faults r = [] /\ dev_ok d'.
Proof.
  intros D. unfold recv. cbv zeta.
  set (m0 := {| ncfg := upd (dcfg d) O_LocationPwd 0; temp := fresh_temp; cmd := dcmd d; rb := 0; flt := [] |}).
  assert (F0 : frame_ok (dcfg d) (upd (dcfg d) O_LocationPwd 0))
    by (apply frame_upd; [exact (d_len d D) | layout; lia | layout; lia]).
  assert (I0 : inv (dpv d) m0).
  { constructor; unfold m0; simp_rec.
    - exact (d_ival d D).
    - exact (d_offs d D).
    - intros H. pose proof (d_cur d D). congruence.
    - rewrite (proj1 F0). exact (d_len d D).
    - unfold fresh_temp, len. rewrite repeat_length. layout; lia.
    - exact (d_cmd d D).
    - reflexivity.
    - exists 0. unfold cell; simp_rec. split; [layout; lia|]. split; [intros; lia|]. split.
      + intros i Hi. unfold fresh_temp. apply nth_error_repeat. lia.
      + right. split; [left; exact (d_cur d D) | left; reflexivity].
    - right. exact (email_term_frame _ _ F0 (d_email d D)). }
  pose proof (parse_request_ok sg seg (dpv d) m0 I0 (d_cur d D)) as P.
  destruct (parse_request FIXED sg seg (dpv d) m0) as [p m]. destruct P as [I Hc].
  assert (Keep : dev_ok {| dcfg := dcfg d; dcmd := cmd m; dpv := p |}).
  { constructor; cbn [dcfg dcmd dpv].
    - exact (d_len d D). - exact (d_email d D). - exact (i_cmd p m I). - exact (i_ival p m I).
    - exact (i_offs p m I). - exact Hc. }
  destruct (typ p =? TYPE_UNKNOWN_); [cbn [faults]; split; [exact (i_flt p m I) | exact Keep]|].
  destruct (typ p =? TYPE_POST_); [|cbn [faults]; split; [exact (i_flt p m I) | exact Keep]].
  destruct (matched p <? 4); [cbn [faults]; split; [exact (i_flt p m I) | exact Keep]|].
  destruct ((0 <? char_val sg (rb m)) && negb (char_val sg (rb m) =? 2)); [cbn [faults]; split; [exact (i_flt p m I) | exact Keep]|].
  pose proof (restore_password_ok (dcfg d) m (d_len d D) (d_email d D) (i_ncfg p m I) (inv_email p m I Hc)) as R.
  cbv zeta in R. destruct R as [R1 [R2 [R3 R4]]].
  cbn [faults]. split; [rewrite R1; exact (i_flt p m I)|].
  set (c := ncfg (restore_password FIXED (dcfg d) (ncfg m) m)) in *.
  assert (Fw : frame_ok c (blit c O_WIFI_PWD (slice (dcfg d) O_WIFI_PWD Z_WIFI_PWD))).
  { pose proof (len_slice_le (dcfg d) O_WIFI_PWD Z_WIFI_PWD ltac:(layout; lia) ltac:(layout; lia)) as Hl.
    pose proof (len_nonneg (slice (dcfg d) O_WIFI_PWD Z_WIFI_PWD)).
    apply frame_blit; [exact R3 | layout; lia | layout; lia | layout; lia]. }
  constructor; cbn [dcfg dcmd dpv].
  - destruct (nthz c O_WIFI_PWD =? 0); [rewrite (proj1 Fw); exact R3 | exact R3].
  - destruct (nthz c O_WIFI_PWD =? 0); [exact (email_term_frame _ _ Fw R4) | exact R4].
  - exact (i_cmd p m I).
  - exact (i_ival p m I).
  - exact (i_offs p m I).
  - exact Hc.
Qed.

(* any sequence of segments, starting from a well-formed device *)
Fixpoint recv_all (fx : fixes) (sg : bool) (d : dev) (segs : list (list Z)) : dev * list res :=
  match segs with
  | [] => (d, [])
  | s :: r => let '(d1, x) := recv fx sg d s in let '(d2, xs) := recv_all fx sg d1 r in (d2, x :: xs)
  end.

Theorem C14_no_fault_thm : forall sg segs d, dev_ok d ->
  let '(d', rs) := recv_all FIXED sg d segs in Forall (fun r => faults r = []) rs /\ dev_ok d'.
Proof.
  intros sg segs. induction segs as [|s r IH]; intros d D; cbn [recv_all]; [split; [constructor | exact D]|].
  pose proof (recv_ok sg d s D) as R. destruct (recv FIXED sg d s) as [d1 x]. destruct R as [R1 R2].
  specialize (IH d1 R2). destruct (recv_all FIXED sg d1 r) as [d2 xs]. destruct IH as [I1 I2].
  split; [constructor; assumption | exact I2].
Qed.

(* ---------- numeric settings: what a completed value can store ---------- *)
Definition port_of (c : list Z) : Z := s32 (le32 c O_LocationID).
Lemma nthz_blit_in (l b : list Z) off i :
  0 <= off <= len l -> 0 <= i < len b -> nthz (blit l off b) (off + i) = nthz b i.
Proof.
  intros Ho Hi. unfold blit, nthz, take, len in *.
  rewrite app_nth2 by (rewrite firstn_length; lia). rewrite firstn_length.
  rewrite app_nth1 by lia. f_equal. lia.
Qed.
Lemma le32_blit_enc32 c off v : len c = CFG_SIZE -> 0 <= off -> off + 4 <= CFG_SIZE -> 0 <= v < 4294967296 ->
  le32 (blit c off (enc32 v)) off = v.
Proof.
  intros L Ho Hl Hv. unfold le32.
  replace off with (off + 0) at 2 by lia.
  rewrite !nthz_blit_in by (rewrite ?len_enc32; lia).
  unfold enc32. change (nthz [v mod 256; (v / 256) mod 256; (v / 65536) mod 256; (v / 16777216) mod 256] 0) with (v mod 256).
  change (nthz [v mod 256; (v / 256) mod 256; (v / 65536) mod 256; (v / 16777216) mod 256] 1) with ((v / 256) mod 256).
  change (nthz [v mod 256; (v / 256) mod 256; (v / 65536) mod 256; (v / 16777216) mod 256] 2) with ((v / 65536) mod 256).
  change (nthz [v mod 256; (v / 256) mod 256; (v / 65536) mod 256; (v / 16777216) mod 256] 3) with ((v / 16777216) mod 256).
  pose proof (Z.div_mod v 256 ltac:(lia)). pose proof (Z.div_mod (v / 256) 256 ltac:(lia)).
  pose proof (Z.div_mod (v / 65536) 256 ltac:(lia)).
  assert (v / 65536 = v / 256 / 256) by (rewrite Z.div_div by lia; reflexivity).
  assert (v / 16777216 = v / 65536 / 256) by (rewrite Z.div_div by lia; reflexivity).
  assert (v / 16777216 < 256) by (apply Z.div_lt_upper_bound; lia).
  assert (0 <= v / 16777216) by (apply Z.div_pos; lia).
  rewrite (Z.mod_small (v / 16777216) 256) by lia. lia.
Qed.

(* prt: the stored port is either unchanged or inside 1..65535 *)
Lemma action_port sg p m : len (ncfg m) = CFG_SIZE -> cur p = VAR_PRT ->
  port_of (ncfg (action sg p m)) = port_of (ncfg m) \/ 1 <= port_of (ncfg (action sg p m)) <= 65535.
Proof.
  intros L Hc. unfold action. cbv beta zeta. rewrite Hc.
  repeat match goal with
  | |- context [VAR_PRT =? ?x] => let b := eval vm_compute in (VAR_PRT =? x) in change (VAR_PRT =? x) with b; cbv iota
  end.
  destruct ((0 <? str2int (ival p)) && (str2int (ival p) <=? 65535) && short_num p) eqn:E; [|left; reflexivity].
  rewrite !andb_true_iff in E. destruct E as [[E1 E2] _]. apply Z.ltb_lt in E1. apply Z.leb_le in E2.
  right. simp_rec. unfold port_of. rewrite le32_blit_enc32 by (layout; lia).
  unfold s32. rewrite Z.mod_small by lia. replace (2147483648 <=? str2int (ival p)) with false by (symmetry; apply Z.leb_gt; lia). lia.
Qed.
(* qos: unchanged or inside 0..2 *)
Lemma action_qos sg p m : len (ncfg m) = CFG_SIZE -> cur p = VAR_QOS ->
  nthz (ncfg (action sg p m)) O_MqttQoS = nthz (ncfg m) O_MqttQoS \/ 0 <= nthz (ncfg (action sg p m)) O_MqttQoS <= 2.
Proof.
  intros L Hc. unfold action. cbv beta zeta. rewrite Hc.
  repeat match goal with
  | |- context [VAR_QOS =? ?x] => let b := eval vm_compute in (VAR_QOS =? x) in change (VAR_QOS =? x) with b; cbv iota
  end.
  destruct ((48 <=? nthz (ival p) 0) && (nthz (ival p) 0 <=? 50) && (nthz (ival p) 1 =? 0)) eqn:E; [|left; reflexivity].
  rewrite !andb_true_iff in E. destruct E as [[E1 E2] _]. apply Z.leb_le in E1, E2.
  right. simp_rec. unfold setb. rewrite nthz_upd_same by (rewrite L; layout; lia). lia.
Qed.
(* tm0..tm3: the stored margin is always inside -1..100 *)
Lemma margin_range c i p : len c = CFG_SIZE -> 0 <= i < 4 ->
  -1 <= s8 (nthz (margin c i p) (O_AdditionalTimeMargin + i)) <= 100.
Proof.
  intros L Hi. unfold margin. rewrite nthz_upd_same by (rewrite L; layout; lia).
  set (v := str2int (ival p)).
  destruct (negb (short_num p) || (v <? -1) || (100 <? v)) eqn:E.
  - unfold u8, s8. change (-1 mod 256) with 255. change (255 mod 256) with 255. cbn. lia.
  - rewrite !orb_false_iff in E. destruct E as [[_ E1] E2]. apply Z.ltb_ge in E1, E2.
    unfold u8, s8. rewrite Z.mod_mod by lia.
    destruct (Z_lt_dec v 0).
    + assert (Hm1 : v = -1) by lia. rewrite Hm1. change (-1 mod 256) with 255. cbn. lia.
    + rewrite Z.mod_small by lia. replace (128 <=? v) with false by (symmetry; apply Z.leb_gt; lia). lia.
Qed.
(* what is stored is exactly the submitted value when it is valid, and -1 otherwise *)
Lemma margin_exact c i p : len c = CFG_SIZE -> 0 <= i < 4 ->
  let v := str2int (ival p) in
  s8 (nthz (margin c i p) (O_AdditionalTimeMargin + i)) = (if short_num p && (-1 <=? v) && (v <=? 100) then v else -1).
Proof.
  intros L Hi. cbv zeta. unfold margin. rewrite nthz_upd_same by (rewrite L; layout; lia).
  set (v := str2int (ival p)). destruct (short_num p); cbn [negb orb andb].
  - destruct (v <? -1) eqn:E1; cbn [orb].
    + apply Z.ltb_lt in E1. replace (-1 <=? v) with false by (symmetry; apply Z.leb_gt; lia). reflexivity.
    + apply Z.ltb_ge in E1. replace (-1 <=? v) with true by (symmetry; apply Z.leb_le; lia). cbn [andb].
      destruct (100 <? v) eqn:E2.
      * apply Z.ltb_lt in E2. replace (v <=? 100) with false by (symmetry; apply Z.leb_gt; lia). reflexivity.
      * apply Z.ltb_ge in E2. replace (v <=? 100) with true by (symmetry; apply Z.leb_le; lia).
        unfold u8, s8. rewrite Z.mod_mod by lia. destruct (Z_lt_dec v 0).
        -- assert (Hm1 : v = -1) by lia. rewrite Hm1. reflexivity.
        -- rewrite Z.mod_small by lia. replace (128 <=? v) with false by (symmetry; apply Z.leb_gt; lia). reflexivity.
  - reflexivity.
Qed.
(* the code before the repair accepted out-of-range values: "356" was stored as 100 *)
Definition ival_356 : list Z := [51; 53; 54; 0; 0; 0; 0; 0; 0; 0; 0; 0].
Lemma C14_margin_narrowing_refuted_thm :
  let p := set_ival pv0 ival_356 in
  str2int (ival p) = 356 /\
  s8 (nthz (margin_old (zeros CFG_SIZE) 0 p) O_AdditionalTimeMargin) = 100 /\
  s8 (nthz (margin (zeros CFG_SIZE) 0 p) O_AdditionalTimeMargin) = -1.
Proof. vm_compute. repeat split. Qed.

(* ---------- the code before the repairs: concrete failing requests ---------- *)
Definition bytes_of_ascii (l : list Z) := l.
Definition req_hdr : list Z :=    (* "POST / HTTP/1.1\r\n\r\n" *)
  [80;79;83;84;32;47;32;72;84;84;80;47;49;46;49;13;10;13;10].
Definition body4 : list Z :=      (* "sid=ab&wpw=cd&svr=ef&eml=gh" *)
  [115;105;100;61;97;98;38;119;112;119;61;99;100;38;115;118;114;61;101;102;38;101;109;108;61;103;104].
Definition wit_pro_end : list Z := req_hdr ++ [115;105;100;61;97;38;112;114;111;61].     (* ...sid=a&pro= *)
Definition wit_crlf1 : list Z := [80;79;83;84;32;47;32;72;84;84;80;47;49;46;49].          (* "POST / HTTP/1.1" *)
Definition wit_crlf2 : list Z := [13;10;13;10;13;10;13;10].
(* old long password with 100 bytes behind a short e-mail; the form sets a 200-byte e-mail *)
Definition wit_old_long : list Z :=
  blit (blit (zeros CFG_SIZE) O_LocationPwd (repeat 80 (Z.to_nat PWD_MAX))) O_Email ([97;0] ++ repeat 81 100 ++ [0]).
Definition wit_long_mail : list Z :=
  req_hdr ++ [115;105;100;61;97;38;115;118;114;61;98;38;108;101;100;61;49;38;101;109;108;61] ++ repeat 101 200.

Definition faults_of (fx : fixes) (cfg0 : list Z) (segs : list (list Z)) : list (list Z) :=
  map faults (snd (recv_all fx true {| dcfg := cfg0; dcmd := None; dpv := pv0 |} segs)).

Theorem C14_old_code_refuted_thm :
  faults_of UNFIXED (zeros CFG_SIZE) [wit_pro_end] = [[1; 2]] /\         (* pdata[len] read after "pro=" (and no password: 2) *)
  faults_of UNFIXED (zeros CFG_SIZE) [wit_crlf1; wit_crlf2] = [[]; [4]] /\  (* len -= p wraps *)
  faults_of UNFIXED (zeros CFG_SIZE) [req_hdr ++ body4] = [[2]] /\       (* tempPassword[0] read uninitialised *)
  faults_of UNFIXED wit_old_long [wit_long_mail] = [[2; 3]] /\            (* tail copied one byte past Email *)
  faults_of FIXED (zeros CFG_SIZE) [wit_pro_end] = [[]] /\
  faults_of FIXED (zeros CFG_SIZE) [wit_crlf1; wit_crlf2] = [[]; []] /\
  faults_of FIXED (zeros CFG_SIZE) [req_hdr ++ body4] = [[]] /\
  faults_of FIXED wit_old_long [wit_long_mail] = [[]].
Proof. vm_compute. repeat split. Qed.

(* ---------- segmentation: the same bytes, two segmentations, different saved configuration ---------- *)
Definition final_cfg (segs : list (list Z)) : list Z :=
  dcfg (fst (recv_all FIXED true {| dcfg := zeros CFG_SIZE; dcmd := None; dpv := pv0 |} segs)).
Definition wit_req : list Z := req_hdr ++ body4.
Theorem C14_segmentation_refuted_thm :
  let cut := len req_hdr + 5 in      (* inside the value of sid *)
  take cut wit_req ++ drop cut wit_req = wit_req /\
  slice (final_cfg [wit_req]) O_WIFI_SSID 3 = [97; 98; 0] /\                       (* "ab" *)
  slice (final_cfg [take cut wit_req; drop cut wit_req]) O_WIFI_SSID 3 = [0; 0; 0] /\   (* nothing *)
  final_cfg [wit_req] <> final_cfg [take cut wit_req; drop cut wit_req].
Proof.
  cbv zeta. split; [apply take_drop|]. split; [vm_compute; reflexivity|]. split; [vm_compute; reflexivity|].
  intros E. assert (H : list_eqb (final_cfg [wit_req]) (final_cfg [take (len req_hdr + 5) wit_req; drop (len req_hdr + 5) wit_req]) = true)
    by (apply list_eqb_true; exact E).
  vm_compute in H. discriminate.
Qed.

(* a request that arrives in one segment is, trivially, independent of segmentation; the precise class of
   the known finding is: some cut lies behind the first CRLFCRLF (or no CRLFCRLF is complete in one segment) *)
Definition single_segment (segs : list (list Z)) : Prop := exists s, segs = [s].
Theorem C14_segmentation_independent_except_known_thm : forall s1 s2,
  single_segment s1 -> single_segment s2 -> concat s1 = concat s2 -> final_cfg s1 = final_cfg s2.
Proof.
  intros s1 s2 [a ->] [b ->] H. cbn [concat] in H. rewrite !app_nil_r in H. subst b. reflexivity.
Qed.

(* hypotheses are satisfiable *)
Lemma dev0_ok : dev_ok {| dcfg := zeros CFG_SIZE; dcmd := None; dpv := pv0 |}.
Proof.
  constructor; cbn [dcfg dcmd dpv].
  - apply len_zeros. layout; lia.
  - exists 0. split; [layout; lia|]. vm_compute. reflexivity.
  - intros c H; discriminate.
  - reflexivity.
  - reflexivity.
  - reflexivity.
Qed.

(* ---------- fifth repair: the rest of an old name must not become the overflow part of the password ---------- *)
Definition wit_stale_a : list Z :=    (* pro=1&sid=n&wpw=w&mvr=b&usr=U*255&mwd=p*40 *)
  req_hdr ++ [112;114;111;61;49;38;115;105;100;61;110;38;119;112;119;61;119;38;109;118;114;61;98;38;117;115;114;61] ++ repeat 85 255 ++
  [38;109;119;100;61] ++ repeat 112 40.
Definition wit_stale_b : list Z :=    (* pro=1&sid=m&led=0&mvr=c&usr=bob&mwd= *)
  req_hdr ++ [112;114;111;61;49;38;115;105;100;61;109;38;108;101;100;61;48;38;109;118;114;61;99;38;117;115;114;61;98;111;98;38;109;119;100;61].
Definition two_forms (fx : fixes) : list Z :=
  let d0 := {| dcfg := zeros CFG_SIZE; dcmd := None; dpv := pv0 |} in
  let '(d1, _) := recv fx true d0 wit_stale_a in
  let '(d2, _) := recv fx true {| dcfg := dcfg d1; dcmd := dcmd d1; dpv := pv0 |} wit_stale_b in
  dcfg d2.
Theorem C14_stale_tail_refuted_thm :
  (* before the fifth repair: Password full, and behind "bob\0" the old name continues: read as password tail *)
  slice (two_forms FIXED4) O_Email 6 = [98; 111; 98; 0; 85; 85] /\
  strnlen (slice (two_forms FIXED4) O_LocationPwd PWD_MAX) PWD_MAX = PWD_MAX /\
  (* after it: an empty overflow part *)
  slice (two_forms FIXED) O_Email 6 = [98; 111; 98; 0; 0; 85] /\
  strnlen (slice (two_forms FIXED) O_LocationPwd PWD_MAX) PWD_MAX = PWD_MAX.
Proof. vm_compute. repeat split. Qed.
