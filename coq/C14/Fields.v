(* C14 — part II: every text field the form writes stays NUL-terminated inside its field; which bytes a
   variable can write; numeric ranges and "absent => unchanged" lifted through the parsing loops. *)
From Coq Require Import List ZArith Lia Bool.
Import ListNotations.
From V Require Import Base.Bytes Base.Iface Gen.C14Vars C14.Model C14.Proofs.
Local Open Scope Z_scope.

Ltac layout2 :=
  layout; unfold O_WIFI_SSID, Z_WIFI_SSID, O_Server, Z_Server, O_MqttTopicPrefix, Z_MqttTopicPrefix, Z_LocationPwd,
                 Z_LocationID, Z_Flags in *.

(* ---------- the bytes of new_cfg that the action of a variable may write ---------- *)
Definition act_range (v : Z) : Z * Z :=
  if v =? VAR_LID then (O_LocationID, 4)
  else if v =? VAR_CFGBTN then (O_CfgButtonType, 1)
  else if v =? VAR_BTN1 then (O_Button1Type, 1)
  else if v =? VAR_BTN2 then (O_Button2Type, 1)
  else if v =? VAR_SBT then (O_StaircaseButtonType, 1)
  else if v =? VAR_ICF then (O_InputCfgTriggerOff, 1)
  else if v =? VAR_LED then (O_StatusLedOff, 1)
  else if v =? VAR_UPD then (O_FirmwareUpdate, 1)
  else if v =? VAR_RBT then (0, 0)
  else if v =? VAR_USD then (O_MotorUpsideDown, 1)
  else if v =? VAR_US0 then (O_MotorUpsideDown, 1)
  else if v =? VAR_US1 then (O_MotorUpsideDown, 1)
  else if v =? VAR_US2 then (O_MotorUpsideDown, 1)
  else if v =? VAR_US3 then (O_MotorUpsideDown, 1)
  else if v =? VAR_BUD then (O_ButtonsUpsideDown, 1)
  else if v =? VAR_BU0 then (O_ButtonsUpsideDown, 1)
  else if v =? VAR_BU1 then (O_ButtonsUpsideDown, 1)
  else if v =? VAR_BU2 then (O_ButtonsUpsideDown, 1)
  else if v =? VAR_BU3 then (O_ButtonsUpsideDown, 1)
  else if v =? VAR_TM0 then (O_AdditionalTimeMargin + 0, 1)
  else if v =? VAR_TM1 then (O_AdditionalTimeMargin + 1, 1)
  else if v =? VAR_TM2 then (O_AdditionalTimeMargin + 2, 1)
  else if v =? VAR_TM3 then (O_AdditionalTimeMargin + 3, 1)
  else if v =? VAR_TRG then (O_Trigger, 1)
  else if v =? VAR_PRT then (O_LocationID, 4)
  else if v =? VAR_TLS then (O_Flags, 4)
  else if v =? VAR_QOS then (O_MqttQoS, 1)
  else if v =? VAR_RET then (O_Flags, 4)
  else if v =? VAR_MAU then (O_Flags, 4)
  else if v =? VAR_PPD then (O_MqttPoolPublicationDelay, 1)
  else if v =? VAR_TH1 then (O_OvercurrentThreshold1, 4)
  else if v =? VAR_TH2 then (O_OvercurrentThreshold2, 4)
  else if v =? VAR_BP0 then (O_ButtonType + 0, 1)
  else if v =? VAR_BP1 then (O_ButtonType + 1, 1)
  else if v =? VAR_BP2 then (O_ButtonType + 2, 1)
  else if v =? VAR_BP3 then (O_ButtonType + 3, 1)
  else if v =? VAR_BM0 then (O_ButtonMode + 0, 1)
  else if v =? VAR_BM1 then (O_ButtonMode + 1, 1)
  else if v =? VAR_BM2 then (O_ButtonMode + 2, 1)
  else if v =? VAR_BM3 then (O_ButtonMode + 3, 1)
  else if v =? VAR_TC0 then (O_TiltControlType + 0, 1)
  else if v =? VAR_TC1 then (O_TiltControlType + 1, 1)
  else if v =? VAR_TC2 then (O_TiltControlType + 2, 1)
  else if v =? VAR_TC3 then (O_TiltControlType + 3, 1)
  else (0, 0).

Definition in_rng (r : Z * Z) (i : Z) : Prop := fst r <= i < fst r + snd r.

Ltac leaf_unch L :=
  cbn [fst snd]; intros; simp_rec; unfold setb, bit, margin, flag_set, set_flags;
  first [ reflexivity
        | apply nthz_upd_other; [rewrite L; layout; lia | lia | lia]
        | apply nthz_blit_other; [layout; lia | rewrite L, ?len_enc32; layout; lia | lia | rewrite ?len_enc32; lia] ].

(* the action of the variable that has just been completed leaves every other byte alone *)
Lemma action_unch sg p m i : len (ncfg m) = CFG_SIZE -> 0 <= i ->
  ~ in_rng (act_range (cur p)) i -> nthz (ncfg (action sg p m)) i = nthz (ncfg m) i.
Proof.
  intros L Hi. unfold in_rng, action, act_range. cbv beta zeta.
  repeat match goal with
  | |- context [if ?b then _ else _] => destruct b
  end; leaf_unch L.
Qed.
Lemma action_len sg p m : len (ncfg m) = CFG_SIZE -> len (ncfg (action sg p m)) = CFG_SIZE.
Proof.
  intros L. destruct (action_frame sg p m L) as [c' [[F _] [E|[E|[r E]]]]]; rewrite E; simp_rec; congruence.
Qed.
Lemma action_rest sg p m : temp (action sg p m) = temp m /\ cmd (action sg p m) = cmd m /\ flt (action sg p m) = flt m.
Proof.
  unfold action. cbv beta zeta.
  repeat match goal with
  | |- context [if ?b then _ else _] => destruct b
  end; simp_rec; auto.
Qed.

(* ---------- text fields ---------- *)
(* the text fields besides Email/Username (which Proofs.v treats, with its password tail) *)
Definition TF4 : list (Z * Z) :=
  [(O_WIFI_SSID, Z_WIFI_SSID); (O_WIFI_PWD, Z_WIFI_PWD); (O_Server, Z_Server); (O_MqttTopicPrefix, Z_MqttTopicPrefix)].
Definition fterm (F : Z * Z) (c : list Z) : Prop := exists k, 0 <= k < snd F /\ nthz c (fst F + k) = 0.
Definition outside (F : Z * Z) (off n : Z) : Prop := off + n <= fst F \/ fst F + snd F <= off.

Ltac in_tf4 H := unfold TF4 in H; cbn [In] in H; destruct H as [H|[H|[H|[H|[]]]]]; subst.

Lemma TF4_bounds F : In F TF4 -> 0 <= fst F /\ 1 <= snd F /\ fst F + snd F <= CFG_SIZE.
Proof. intros H. in_tf4 H; cbn [fst snd]; layout2; lia. Qed.

Lemma fterm_unch F c c' : (forall i, fst F <= i < fst F + snd F -> nthz c' i = nthz c i) -> fterm F c -> fterm F c'.
Proof. intros U [k [Hk Hz]]. exists k. split; [exact Hk|]. rewrite U by lia. exact Hz. Qed.
Lemma fterm_upd_outside F c i v : In F TF4 -> len c = CFG_SIZE -> 0 <= i < CFG_SIZE -> outside F i 1 ->
  fterm F c -> fterm F (upd c i v).
Proof.
  intros HF L Hi O. apply fterm_unch. intros j Hj. pose proof (TF4_bounds F HF).
  apply nthz_upd_other; [lia | lia | unfold outside in O; lia].
Qed.
Lemma fterm_blit_outside F c off b : In F TF4 -> len c = CFG_SIZE -> 0 <= off -> off + len b <= CFG_SIZE ->
  outside F off (len b) -> fterm F c -> fterm F (blit c off b).
Proof.
  intros HF L Ho Hl O. apply fterm_unch. intros j Hj. pose proof (TF4_bounds F HF).
  apply nthz_blit_other; [lia | lia | lia | unfold outside in O; lia].
Qed.
Lemma fterm_upd_nul F c j : In F TF4 -> len c = CFG_SIZE -> 0 <= j < snd F -> fterm F (upd c (fst F + j) 0).
Proof.
  intros HF L Hj. pose proof (TF4_bounds F HF). exists j. split; [exact Hj|]. apply nthz_upd_same. lia.
Qed.

(* no action writes into a text field (Email included) *)
Lemma act_range_outside v F : In F ((O_Email, Z_Email) :: TF4) -> outside F (fst (act_range v)) (snd (act_range v)).
Proof.
  intros HF. unfold outside, act_range.
  repeat match goal with
  | |- context [if ?b then _ else _] => destruct b
  end; cbn [fst snd];
  (destruct HF as [HF|HF]; [subst F; cbn [fst snd]; layout2; lia | in_tf4 HF; cbn [fst snd]; layout2; lia]).
Qed.
Lemma action_fterm sg p m F : In F TF4 -> len (ncfg m) = CFG_SIZE -> fterm F (ncfg m) -> fterm F (ncfg (action sg p m)).
Proof.
  intros HF L. apply fterm_unch. intros i Hi. pose proof (TF4_bounds F HF).
  apply action_unch; [exact L | lia |].
  pose proof (act_range_outside (cur p) F (or_intror HF)) as O. unfold outside, in_rng in *. lia.
Qed.

(* the destination of the open variable is one of the text fields or disjoint from all of them *)
Definition tgt2 (p : pvars) : Prop :=
  forall F, In F TF4 -> tk p = 0 -> (toff p = fst F /\ bsize p <= snd F) \/ outside F (toff p) (bsize p).
Record inv2 (p : pvars) (m : mem) : Prop := {
  i2_tgt : cur p <> 0 -> tgt2 p;
  i2_term : forall F, In F TF4 -> (cur p <> 0 /\ tk p = 0 /\ toff p = fst F) \/ fterm F (ncfg m)
}.

Definition row_okb2 (r : list Z) : bool :=
  negb (nthz r 5 =? 0) ||
  forallb (fun F : Z * Z => ((nthz r 6 =? fst F) && (nthz r 4 <=? snd F)) || (nthz r 6 + nthz r 4 <=? fst F) || (fst F + snd F <=? nthz r 6)) TF4.
Lemma vartab_ok2 : forallb row_okb2 VARTAB = true /\ row_okb2 pro_row = true.
Proof. vm_compute. split; reflexivity. Qed.
Lemma row_tgt2 r p : row_okb2 r = true -> tgt2 (set_offs (open_var p (nthz r 0) (nthz r 5) (nthz r 6) (nthz r 4)) 0).
Proof.
  intros R F HF Hk. simp_rec. unfold row_okb2 in R. apply orb_true_iff in R. destruct R as [R|R].
  - apply negb_true_iff in R. apply Z.eqb_neq in R. congruence.
  - rewrite forallb_forall in R. specialize (R F HF).
    rewrite !orb_true_iff, andb_true_iff, Z.eqb_eq, !Z.leb_le in R. unfold outside. tauto.
Qed.

(* ---------- preservation by the pieces of the loop body ---------- *)
Lemma fill_ok2 p m v : inv p m -> inv2 p m -> cur p <> 0 -> offs p < bsize p ->
  inv2 (fst (fill p m v)) (snd (fill p m v)).
Proof.
  intros I I2 Hc Ho. pose proof (i_offs p m I) as Hoff. unfold fill.
  destruct (store_spec p m (offs p) v I Hc ltac:(lia)) as [[Tk [E R]]|[[Tk [E R]]|[[Tk [E R]]|[Tk [c [Hcmd [E R]]]]]]];
    rewrite E; cbn [fst snd]; constructor; simp_rec; try exact (i2_tgt p m I2);
    try (intros F HF; destruct (i2_term p m I2 F HF) as [[_ [K _]]|T]; [congruence | right; exact T]).
  intros F HF. destruct (i2_term p m I2 F HF) as [L|T]; [left; exact L|].
  destruct (i2_tgt p m I2 Hc F HF Tk) as [[Te _]|O]; [left; auto|]. right.
  apply fterm_upd_outside; [exact HF | exact (i_ncfg p m I) | lia | unfold outside in *; lia | exact T].
Qed.

Lemma term_ok2 p m : inv p m -> inv2 p m -> cur p <> 0 ->
  inv2 (close_var (fst (terminate p m))) (snd (terminate p m)).
Proof.
  intros I I2 Hc. pose proof (i_offs p m I) as Hoff. destruct (i_tgt p m I Hc) as [Hb _]. unfold terminate.
  set (j := if offs p <? bsize p then offs p else bsize p - 1).
  assert (Hj : 0 <= j < bsize p) by (unfold j; destruct (offs p <? bsize p) eqn:E; [apply Z.ltb_lt in E|]; lia).
  replace (if offs p <? bsize p then store p m (offs p) 0 else store p m (bsize p - 1) 0) with (store p m j 0)
    by (unfold j; destruct (offs p <? bsize p); reflexivity).
  destruct (store_spec p m j 0 I Hc Hj) as [[Tk [E R]]|[[Tk [E R]]|[[Tk [E R]]|[Tk [c [Hcmd [E R]]]]]]];
    rewrite E; cbn [fst snd]; constructor; simp_rec; try (intros H; congruence);
    try (intros F HF; destruct (i2_term p m I2 F HF) as [[_ [K _]]|T]; [congruence | right; exact T]).
  intros F HF. right. destruct (i2_tgt p m I2 Hc F HF Tk) as [[Te Tb]|O].
  - rewrite Te. apply fterm_upd_nul; [exact HF | exact (i_ncfg p m I) | lia].
  - destruct (i2_term p m I2 F HF) as [[_ [_ Te]]|T].
    + pose proof (TF4_bounds F HF). unfold outside in O. lia.
    + apply fterm_upd_outside; [exact HF | exact (i_ncfg p m I) | lia | unfold outside in *; lia | exact T].
Qed.

Lemma inv2_closed_frame pc m c' : inv2 pc m -> cur pc = 0 -> (forall F, In F TF4 -> fterm F (ncfg m) -> fterm F c') ->
  inv2 pc (set_ncfg m c').
Proof.
  intros I2 Hc Fr. constructor; simp_rec; [intros H; congruence|].
  intros F HF. right. apply (Fr F HF). destruct (i2_term pc m I2 F HF) as [[K _]|T]; [congruence | exact T].
Qed.
Lemma inv2_same_cfg p m m' : inv2 p m -> ncfg m' = ncfg m -> inv2 p m'.
Proof. intros I2 E. constructor; [exact (i2_tgt p m I2) | rewrite E; exact (i2_term p m I2)]. Qed.

Lemma inv2_action sg p3 pc m3 : inv pc m3 -> inv2 pc m3 -> cur pc = 0 -> inv2 pc (action sg p3 m3).
Proof.
  intros I I2 Hc. constructor; [intros H; congruence|].
  intros F HF. right. apply action_fterm; [exact HF | exact (i_ncfg pc m3 I)|].
  destruct (i2_term pc m3 I2 F HF) as [[K _]|T]; [congruence | exact T].
Qed.

Lemma close_ok2 sg p m : inv p m -> inv2 p m -> cur p <> 0 ->
  inv2 (close_var (fst (terminate p m))) (action sg (fst (terminate p m)) (snd (terminate p m))).
Proof.
  intros I I2 Hc. pose proof (term_ok p m I Hc) as T. pose proof (term_ok2 p m I I2 Hc) as T2.
  destruct (terminate p m) as [p3 m3]. cbn [fst snd] in *. destruct T as [T1 Tc]. apply inv2_action; assumption.
Qed.

Lemma find_var_ok2 n0 n1 n2 r : find_var n0 n1 n2 = Some r -> row_okb2 r = true.
Proof.
  unfold find_var. intros H. apply find_some in H. destruct H as [Hin _].
  pose proof (proj1 vartab_ok2) as V. rewrite forallb_forall in V. apply V. exact Hin.
Qed.

Lemma inv2_open p m m0 r : inv2 p m -> cur p = 0 -> row_okb2 r = true -> ncfg m0 = ncfg m ->
  inv2 (set_offs (open_var p (nthz r 0) (nthz r 5) (nthz r 6) (nthz r 4)) 0) m0.
Proof.
  intros I2 Hc R E. constructor.
  - intros _. apply row_tgt2. exact R.
  - intros F HF. right. rewrite E. destruct (i2_term p m I2 F HF) as [[K _]|T]; [congruence | exact T].
Qed.
Lemma inv2_idle p m m0 o : inv2 p m -> cur p = 0 -> ncfg m0 = ncfg m -> inv2 (set_offs p o) m0.
Proof.
  intros I2 Hc E. constructor; simp_rec; [intros H; congruence|].
  intros F HF. right. rewrite E. destruct (i2_term p m I2 F HF) as [[K _]|T]; [congruence | exact T].
Qed.

Lemma vb_open_ok2 seg p m a : inv p m -> inv2 p m -> 0 <= a < len seg ->
  let '(p1, m1, a1) := vb_open seg p m a in inv2 p1 m1.
Proof.
  intros I I2 Ha. unfold vb_open. destruct (cur p =? 0) eqn:Ec; [|exact I2]. apply Z.eqb_eq in Ec.
  destruct (4 <=? len seg - a) eqn:E4; [|exact I2]. apply Z.leb_le in E4. cbv zeta. rewrite !chk_in by lia.
  destruct (rd seg (a + 3) =? 61); [|exact I2].
  destruct (find_var (rd seg a) (rd seg (a + 1)) (rd seg (a + 2))) as [r|] eqn:F.
  - pose proof (find_var_ok2 _ _ _ _ F) as R.
    set (m0 := if nthz r 5 =? 3 then match cmd m with None => set_cmd m (Some (zeros CMD_SIZE)) | Some _ => m end else m).
    assert (E0 : ncfg m0 = ncfg m) by (unfold m0; destruct (nthz r 5 =? 3); [destruct (cmd m)|]; reflexivity).
    destruct (guard_ok r (ncfg m)); [apply (inv2_open p m); assumption | apply (inv2_idle p m); assumption].
  - apply (inv2_idle p m); auto.
Qed.

Lemma vb_fill_ok2 seg p1 m1 a1 : inv p1 m1 -> inv2 p1 m1 -> cur p1 <> 0 -> 0 <= a1 <= len seg ->
  let '(p2, m2, a2) := vb_fill seg p1 m1 a1 in inv2 p2 m2.
Proof.
  intros I I2 Hc Ha. unfold vb_fill.
  destruct ((offs p1 <? bsize p1) && (a1 <? len seg)) eqn:E; [|exact I2].
  apply andb_true_iff in E. destruct E as [E1 E2]. apply Z.ltb_lt in E1, E2. cbv zeta. rewrite (chk_in seg a1 m1) by lia.
  destruct (negb (rd seg a1 =? 38)); [|exact I2].
  destruct ((rd seg a1 =? 37) && (a1 + 2 <? len seg)) eqn:E3.
  - apply andb_true_iff in E3. destruct E3 as [_ E3]. apply Z.ltb_lt in E3. rewrite !chk_in by lia.
    pose proof (fill_ok2 p1 m1 (u8 (hex2 (rd seg (a1 + 1)) (rd seg (a1 + 2)))) I I2 Hc E1) as F.
    destruct (fill p1 m1 _) as [p' m']. exact F.
  - destruct (rd seg a1 =? 43).
    + pose proof (fill_ok2 p1 m1 32 I I2 Hc E1) as F. destruct (fill p1 m1 32) as [p' m']. exact F.
    + pose proof (fill_ok2 p1 m1 (rd seg a1) I I2 Hc E1) as F. destruct (fill p1 m1 (rd seg a1)) as [p' m']. exact F.
Qed.

Lemma vb_close_ok2 sg seg p2 m2 a2 : inv p2 m2 -> inv2 p2 m2 -> cur p2 <> 0 -> 0 <= a2 ->
  let '(a', p', m') := vb_close sg seg p2 m2 a2 in inv2 p' m'.
Proof.
  intros I I2 Hc Ha. unfold vb_close.
  pose proof (close_ok2 sg p2 m2 I I2 Hc) as C.
  destruct (bsize p2 <=? offs p2).
  - destruct (terminate p2 m2) as [p3 m3]. exact C.
  - destruct (len seg - 1 <=? a2) eqn:E.
    + destruct (terminate p2 m2) as [p3 m3]. exact C.
    + apply Z.leb_gt in E. cbv zeta. rewrite chk_in by lia. destruct (rd seg a2 =? 38).
      * destruct (terminate p2 m2) as [p3 m3]. exact C.
      * exact I2.
Qed.

Lemma vars_body_ok2 sg seg p m a : inv p m -> inv2 p m -> 0 <= a < len seg ->
  let '(a', p', m') := vars_body sg seg p m a in inv2 p' m'.
Proof.
  intros I I2 Ha. unfold vars_body.
  pose proof (vb_open_ok seg p m a I Ha) as O. pose proof (vb_open_ok2 seg p m a I I2 Ha) as O2.
  destruct (vb_open seg p m a) as [[p1 m1] a1]. destruct O as [I1 [Ha1 _]].
  destruct (cur p1 =? 0) eqn:Ec; [exact O2|]. apply Z.eqb_neq in Ec.
  pose proof (vb_fill_ok seg p1 m1 a1 I1 Ec ltac:(lia)) as Fl. pose proof (vb_fill_ok2 seg p1 m1 a1 I1 O2 Ec ltac:(lia)) as Fl2.
  destruct (vb_fill seg p1 m1 a1) as [[p2 m2] a2]. destruct Fl as [I2' [Hc2 Ha2]].
  apply vb_close_ok2; [exact I2' | exact Fl2 | congruence | lia].
Qed.

Lemma vars_loop_ok2 sg seg : forall fuel p m a,
  inv p m -> inv2 p m -> 0 <= a ->
  let '(p', m') := vars_loop fuel sg seg p m a in inv2 p' m'.
Proof.
  induction fuel as [|f IH]; intros p m a I I2 Ha; cbn [vars_loop]; [exact I2|].
  destruct (a <? len seg) eqn:E; [|exact I2]. apply Z.ltb_lt in E.
  pose proof (vars_body_ok sg seg p m a I ltac:(lia)) as B. pose proof (vars_body_ok2 sg seg p m a I I2 ltac:(lia)) as B2.
  destruct (vars_body sg seg p m a) as [[a' p'] m']. destruct B as [I' [Ha' _]]. apply IH; [exact I' | exact B2 | lia].
Qed.

(* ---------- supla_esp_parse_proto_var writes only intval and Flags ---------- *)
Lemma ncfg_chk seg a m : ncfg (chk seg a m) = ncfg m.
Proof. unfold chk. destruct ((0 <=? a) && (a <? len seg)); reflexivity. Qed.
Lemma store_tk1 p m i v : tk p = 1 ->
  ncfg (snd (store p m i v)) = ncfg m /\ tk (fst (store p m i v)) = 1 /\ cur (fst (store p m i v)) = cur p.
Proof.
  intros K. unfold store. rewrite K. cbn [Z.eqb].
  destruct (negb ((0 <=? i) && (i <? bsize p))); [cbn [fst snd]; simp_rec; auto|].
  destruct (i <? len (ival p)); cbn [fst snd]; simp_rec; auto.
Qed.
Lemma flags_outside F : In F TF4 -> outside F O_Flags 4.
Proof. intros HF. unfold outside. in_tf4 HF; cbn [fst snd]; layout2; lia. Qed.
Lemma flag_set_fterm F c mask on : In F TF4 -> len c = CFG_SIZE -> fterm F c -> fterm F (flag_set c mask on).
Proof.
  intros HF L. unfold flag_set, set_flags. apply fterm_blit_outside; [exact HF | exact L | layout2; lia | rewrite len_enc32; layout2; lia |].
  rewrite len_enc32. apply flags_outside. exact HF.
Qed.
Lemma flag_set_len c mask on : len c = CFG_SIZE -> len (flag_set c mask on) = CFG_SIZE.
Proof. intros L. rewrite (proj1 (flag_set_frame c mask on L)). exact L. Qed.

Definition keeps (m m' : mem) : Prop :=
  len (ncfg m') = CFG_SIZE /\ forall F, In F TF4 -> fterm F (ncfg m) -> fterm F (ncfg m').

Lemma proto_body_ok2 seg p m a : (cur p = 0 \/ tk p = 1) -> len (ncfg m) = CFG_SIZE ->
  let '(go, a', p', m') := proto_body FIXED seg p m a in (cur p' = 0 \/ tk p' = 1) /\ keeps m m'.
Proof.
  intros Hp L. unfold proto_body. cbv zeta.
  set (q := if cur p =? 0 then
              if (4 <=? len seg - a) && (rd seg (a + 3) =? 61) then
                (set_offs (if (rd seg a =? 112) && (rd seg (a + 1) =? 114) && (rd seg (a + 2) =? 111)
                           then open_var p VAR_PRO 1 0 INTVAL_SIZE else p) 0, m, a + 4)
              else (p, m, a) else (p, m, a)).
  assert (Hq : exists p1 a1, q = (p1, m, a1) /\ (cur p1 = 0 \/ tk p1 = 1)).
  { unfold q. destruct (cur p =? 0) eqn:Ec; [|eexists _, _; split; [reflexivity | exact Hp]].
    apply Z.eqb_eq in Ec.
    destruct ((4 <=? len seg - a) && (rd seg (a + 3) =? 61)); [|eexists _, _; split; [reflexivity | exact Hp]].
    destruct ((rd seg a =? 112) && (rd seg (a + 1) =? 114) && (rd seg (a + 2) =? 111)); eexists _, _; (split; [reflexivity|]); simp_rec; auto. }
  destruct Hq as [p1 [a1 [Eq Hp1]]]. rewrite Eq. clear Eq q.
  assert (K0 : keeps m m) by (split; auto).
  destruct (cur p1 =? VAR_PRO) eqn:Ecp; [|split; assumption].
  apply Z.eqb_eq in Ecp.
  assert (VP : VAR_PRO <> 0).
  { pose proof consts_ok as K. rewrite !andb_true_iff in K. destruct K as [[[_ K] _] _].
    apply negb_true_iff in K. apply Z.eqb_neq in K. exact K. }
  assert (Tk : tk p1 = 1) by (destruct Hp1; congruence).
  set (r := if fx_pro FIXED && negb (a1 <? len seg) then (p1, m) else fill p1 (chk seg a1 m) (rd seg a1)).
  assert (Hr : ncfg (snd r) = ncfg m /\ tk (fst r) = 1).
  { unfold r. destruct (fx_pro FIXED && negb (a1 <? len seg)); [cbn [fst snd]; auto|].
    unfold fill. pose proof (store_tk1 p1 (chk seg a1 m) (offs p1) (rd seg a1) Tk) as S.
    destruct (store p1 (chk seg a1 m) (offs p1) (rd seg a1)) as [p' m']. cbn [fst snd] in *. simp_rec.
    destruct S as [S1 [S2 _]]. rewrite S1, ncfg_chk. auto. }
  destruct r as [p2 m2]. cbn [fst snd] in Hr. destruct Hr as [En Tk2].
  destruct ((bsize p2 <=? offs p2) || (len seg - 1 <=? a1) || (rd seg a1 =? 38)).
  - unfold terminate.
    assert (Ht : forall i, ncfg (snd (store p2 m2 i 0)) = ncfg m /\ tk (fst (store p2 m2 i 0)) = 1).
    { intros i. pose proof (store_tk1 p2 m2 i 0 Tk2) as S. destruct S as [S1 [S2 _]]. rewrite S1. auto. }
    destruct (offs p2 <? bsize p2).
    + specialize (Ht (offs p2)). destruct (store p2 m2 (offs p2) 0) as [p3 m3]. cbn [fst snd] in Ht. destruct Ht as [E3 _].
      split; [left; reflexivity|]. simp_rec. rewrite E3. split; [apply flag_set_len; exact L|].
      intros F HF T. apply flag_set_fterm; assumption.
    + specialize (Ht (bsize p2 - 1)). destruct (store p2 m2 (bsize p2 - 1) 0) as [p3 m3]. cbn [fst snd] in Ht. destruct Ht as [E3 _].
      split; [left; reflexivity|]. simp_rec. rewrite E3. split; [apply flag_set_len; exact L|].
      intros F HF T. apply flag_set_fterm; assumption.
  - split; [right; exact Tk2|]. split; [rewrite En; exact L | intros F HF T; rewrite En; exact T].
Qed.

Lemma keeps_trans m1 m2 m3 : len (ncfg m2) = CFG_SIZE -> keeps m1 m2 -> keeps m2 m3 -> keeps m1 m3.
Proof. intros _ [L1 K1] [L2 K2]. split; [exact L2 | intros F HF T; apply (K2 F HF); apply (K1 F HF); exact T]. Qed.

Lemma proto_loop_ok2 seg : forall fuel p m a, (cur p = 0 \/ tk p = 1) -> len (ncfg m) = CFG_SIZE ->
  let '(p', m') := proto_loop fuel FIXED seg p m a in keeps m m'.
Proof.
  induction fuel as [|f IH]; intros p m a Hp L; cbn [proto_loop]; [split; auto|].
  destruct (a <? len seg); [|split; auto].
  pose proof (proto_body_ok2 seg p m a Hp L) as B. destruct (proto_body FIXED seg p m a) as [[[go a'] p'] m'].
  destruct B as [Hp' K]. destruct go; [|exact K].
  specialize (IH p' m' a' Hp' (proj1 K)). destruct (proto_loop f FIXED seg p' m' a') as [p'' m''].
  apply (keeps_trans m m' m''); [exact (proj1 K) | exact K | exact IH].
Qed.

(* ---------- what the password logic behind the loops may write ---------- *)
Definition pw_area (i : Z) : Prop :=
  (O_LocationPwd <= i < O_LocationPwd + PWD_MAX) \/ (O_Email <= i < O_Email + Z_Email).

Lemma spill_unch fx m i : len (ncfg m) = CFG_SIZE -> 0 <= i -> ~ pw_area i ->
  nthz (ncfg (spill fx m)) i = nthz (ncfg m) i.
Proof.
  intros L Hi Hn. unfold pw_area in Hn. unfold spill.
  set (m1 := if fx_temp fx then match temp m with
                                | _ :: r => match nth_error (temp m) 0 with Some (Some _) => m | _ => set_temp m (Some 0 :: r) end
                                | [] => m end else m).
  assert (E1 : ncfg m1 = ncfg m).
  { unfold m1. destruct (fx_temp fx); [|reflexivity]. destruct (temp m); [reflexivity|].
    destruct (nth_error (o :: l) 0) as [[?|]|]; reflexivity. }
  clearbody m1. unfold tget.
  destruct (nth_error (temp m1) (Z.to_nat 0)) as [[v|]|]; cbv beta iota zeta;
    try (change (0 =? 0) with true; cbv iota; simp_rec; rewrite E1; reflexivity).
  destruct (v =? 0); [rewrite E1; reflexivity|].
  destruct (temp_str (temp m1)) as [s ok].
  set (m2 := if ok then m1 else fault m1 2).
  assert (E2 : ncfg m2 = ncfg m) by (unfold m2; destruct ok; simp_rec; exact E1).
  clearbody m2. rewrite E2.
  pose proof (strnlen_le (slice (ncfg m) O_Email Z_Email) Z_Email ltac:(layout; lia)) as Bm.
  set (ml := strnlen (slice (ncfg m) O_Email Z_Email) Z_Email) in *.
  pose proof (len_nonneg s) as Hs.
  destruct (len s <? PWD_MAX) eqn:Es.
  - apply Z.ltb_lt in Es. simp_rec.
    apply nthz_blit_other; [layout; lia | rewrite L, len_app, len_cons, len_nil; layout; lia | lia |].
    rewrite len_app, len_cons, len_nil. layout; lia.
  - apply Z.ltb_ge in Es.
    set (n := Z_Email - ml - 1). set (src := take n (drop PWD_MAX s ++ zeros n)).
    assert (Ls : 0 <= len src <= Z.max 0 n).
    { unfold src. pose proof (len_nonneg (take n (drop PWD_MAX s ++ zeros n))).
      destruct (Z_lt_dec n 0); [unfold take; replace (Z.to_nat n) with 0%nat by lia; cbn; lia|].
      rewrite len_take by lia. pose proof (len_nonneg (drop PWD_MAX s ++ zeros n)). lia. }
    set (c1 := blit (ncfg m) O_LocationPwd (take PWD_MAX s)).
    assert (Lt : len (take PWD_MAX s) = PWD_MAX) by (rewrite len_take by (layout; lia); lia).
    assert (L1 : len c1 = CFG_SIZE) by (unfold c1; rewrite len_blit; [exact L | layout; lia | rewrite Lt, L; layout; lia]).
    assert (L2 : len (blit c1 (O_Email + ml + 1) src) = CFG_SIZE)
      by (rewrite len_blit; [exact L1 | layout; lia | rewrite L1; unfold n in Ls; layout; lia]).
    destruct ((0 <=? n) && (ml + 1 + len src <=? Z_Email)); simp_rec;
      (rewrite nthz_upd_other; [| rewrite L2; layout; lia | lia | layout; lia];
       rewrite nthz_blit_other; [| layout; lia | rewrite L1; unfold n in Ls; layout; lia | lia | unfold n in Ls; layout; lia];
       unfold c1; apply nthz_blit_other; [layout; lia | rewrite Lt, L; layout; lia | lia | rewrite Lt; layout; lia]).
Qed.

Lemma restore_unch old m i :
  len old = CFG_SIZE -> len (ncfg m) = CFG_SIZE -> 0 <= i -> ~ pw_area i ->
  nthz (ncfg (restore_password FIXED old (ncfg m) m)) i = nthz (ncfg m) i.
Proof.
  intros Lo Lc Hi Hn. unfold pw_area in Hn. unfold restore_password. cbv zeta.
  destruct (negb (nthz (ncfg m) O_LocationPwd =? 0)); [reflexivity|].
  pose proof (len_slice_le old O_LocationPwd PWD_MAX ltac:(layout; lia) ltac:(layout; lia)) as Ls.
  pose proof (len_nonneg (slice old O_LocationPwd PWD_MAX)) as Ls0.
  set (c1 := blit (ncfg m) O_LocationPwd (slice old O_LocationPwd PWD_MAX)).
  assert (L1 : len c1 = CFG_SIZE) by (unfold c1; rewrite len_blit; [exact Lc | layout; lia | rewrite Lc; layout; lia]).
  assert (U1 : nthz c1 i = nthz (ncfg m) i)
    by (unfold c1; apply nthz_blit_other; [layout; lia | rewrite Lc; layout; lia | lia | layout; lia]).
  destruct (negb (strnlen (slice old O_LocationPwd PWD_MAX) PWD_MAX =? PWD_MAX)); [simp_rec; exact U1|].
  set (oldmail := strnlen (slice old O_Email Z_Email) Z_Email).
  set (newmail := strnlen (slice c1 O_Email Z_Email) Z_Email).
  pose proof (strnlen_le (slice old O_Email Z_Email) Z_Email ltac:(layout; lia)) as Bo. fold oldmail in Bo.
  pose proof (strnlen_le (slice c1 O_Email Z_Email) Z_Email ltac:(layout; lia)) as Bn. fold newmail in Bn.
  destruct ((oldmail <? Z_Email) && (newmail <? Z_Email)) eqn:Eb.
  - apply andb_true_iff in Eb. destruct Eb as [Eb1 Eb2]. apply Z.ltb_lt in Eb1, Eb2.
    set (part := strnlen (slice old (O_Email + oldmail + 1) (Z_Email - oldmail - 1)) (Z_Email - oldmail - 1)).
    pose proof (strnlen_le (slice old (O_Email + oldmail + 1) (Z_Email - oldmail - 1)) (Z_Email - oldmail - 1) ltac:(lia)) as Bp.
    fold part in Bp.
    destruct (part <? Z_Email - oldmail - 1) eqn:Ep.
    + apply Z.ltb_lt in Ep. cbn [fx_clip FIXED andb].
      set (part' := if Z_Email - newmail - 1 <=? part then Z_Email - newmail - 1 - 1 else part).
      assert (Hp' : part' <= Z_Email - newmail - 2).
      { unfold part'. destruct (Z_Email - newmail - 1 <=? part) eqn:Er; [lia | apply Z.leb_gt in Er; lia]. }
      destruct (part' <? 0) eqn:Eneg; [simp_rec; exact U1|]. apply Z.ltb_ge in Eneg.
      set (bytes := slice old (O_Email + oldmail + 1) part' ++ [0]).
      assert (Lb : 0 <= len bytes <= part' + 1).
      { unfold bytes. rewrite len_app. change (len [0]) with 1.
        pose proof (len_slice_le old (O_Email + oldmail + 1) part' ltac:(layout; lia) Eneg).
        pose proof (len_nonneg (slice old (O_Email + oldmail + 1) part')). lia. }
      destruct (newmail + 1 + len bytes <=? Z_Email); simp_rec;
        (etransitivity; [apply nthz_blit_other; [layout; lia | rewrite L1; layout; lia | lia | layout; lia] | exact U1]).
    + cbn [fx_stale FIXED andb]. destruct (newmail <? Z_Email - 1) eqn:En; [|simp_rec; exact U1].
      apply Z.ltb_lt in En. simp_rec.
      etransitivity; [apply nthz_blit_other; [layout; lia | rewrite L1; cbn [len length Z.of_nat]; layout; lia | lia | cbn [len length Z.of_nat]; layout; lia] | exact U1].
  - simp_rec. etransitivity; [apply nthz_upd_other; [rewrite L1; layout; lia | lia | layout; lia] | exact U1].
Qed.

Lemma TF4_not_pw F i : In F TF4 -> fst F <= i < fst F + snd F -> ~ pw_area i.
Proof. intros HF Hi. unfold pw_area. in_tf4 HF; cbn [fst snd] in Hi; layout2; lia. Qed.

Lemma inv2_set_step p m s t : inv2 p m -> inv2 (set_step p s t) m.
Proof. intros I2. constructor; [exact (i2_tgt p m I2) | exact (i2_term p m I2)]. Qed.

Lemma inv2_of_keeps p m p1 m1 : inv2 p m -> cur p = 0 -> cur p1 = 0 -> keeps m m1 -> inv2 p1 m1.
Proof.
  intros I2 Hc Hc1 [_ K]. constructor; [intros H; congruence|].
  intros F HF. right. apply (K F HF). destruct (i2_term p m I2 F HF) as [[X _]|T]; [congruence | exact T].
Qed.

Lemma parse_vars_ok2 sg seg p m : inv p m -> inv2 p m -> cur p = 0 ->
  let '(p', m') := parse_vars FIXED sg seg p m in inv2 p' m'.
Proof.
  intros I I2 Hc. unfold parse_vars.
  pose proof (inv_fresh p m I Hc) as If.
  assert (I2f : inv2 p (set_temp m fresh_temp)) by (apply (inv2_same_cfg p m); [exact I2 | reflexivity]).
  pose proof (vars_loop_ok sg seg (S (length seg)) p (set_temp m fresh_temp) 0 If ltac:(lia) (or_introl Hc) ltac:(unfold len; lia)) as L.
  pose proof (vars_loop_ok2 sg seg (S (length seg)) p (set_temp m fresh_temp) 0 If I2f ltac:(lia)) as L2.
  destruct (vars_loop (S (length seg)) sg seg p (set_temp m fresh_temp) 0) as [p' m']. destruct L as [I' Hc'].
  constructor; [intros H; congruence|]. intros F HF. right.
  destruct (i2_term p' m' L2 F HF) as [[X _]|T]; [congruence|].
  revert T. apply fterm_unch. intros i Hi. pose proof (TF4_bounds F HF).
  apply spill_unch; [exact (i_ncfg p' m' I') | lia | apply (TF4_not_pw F); assumption].
Qed.

Lemma parse_request_ok2 sg seg p m : inv p m -> inv2 p m -> cur p = 0 ->
  let '(p', m') := parse_request FIXED sg seg p m in inv2 p' m'.
Proof.
  intros I I2 Hc. unfold parse_request. destruct (len seg =? 0); [exact I2|].
  set (pa := if step p =? STEP_TYPE_ then
               if is_prefix (s_get ++ s_url) seg then set_step p STEP_GET_ TYPE_GET_
               else if is_prefix (s_post ++ s_url) seg then set_step p STEP_POST_ TYPE_POST_ else p
             else p).
  assert (Ia : inv pa m /\ inv2 pa m /\ cur pa = 0).
  { unfold pa. destruct (step p =? STEP_TYPE_); [|auto].
    destruct (is_prefix (s_get ++ s_url) seg); [split; [apply inv_set_step; exact I | split; [apply inv2_set_step; exact I2 | exact Hc]]|].
    destruct (is_prefix (s_post ++ s_url) seg); [split; [apply inv_set_step; exact I | split; [apply inv2_set_step; exact I2 | exact Hc]] | auto]. }
  destruct Ia as [Ia [Ia2 Hca]]. cbv zeta.
  set (k := if step pa =? STEP_POST_ then count_hdr_end (S (length seg)) FIXED seg 0 else 0).
  set (pb := if 0 <? k then set_step pa STEP_PARSE_VARS_ (typ pa) else pa).
  assert (Ib : inv pb m /\ inv2 pb m /\ cur pb = 0).
  { unfold pb. destruct (0 <? k); [split; [apply inv_set_step; exact Ia | split; [apply inv2_set_step; exact Ia2 | exact Hca]] | auto]. }
  destruct Ib as [Ib [Ib2 Hcb]].
  destruct (step pb =? STEP_PARSE_VARS_); [|exact Ib2].
  destruct (len seg <? 3 * k); [constructor; simp_rec; [exact (i2_tgt pb m Ib2) | exact (i2_term pb m Ib2)]|].
  set (seg' := drop (3 * k) seg).
  pose proof (proto_loop_ok seg' (S (length seg')) pb m 0 (conj Ib (or_introl Hcb)) ltac:(lia) (or_introl Hcb) ltac:(unfold len; lia)) as P.
  pose proof (proto_loop_ok2 seg' (S (length seg')) pb m 0 (or_introl Hcb) (i_ncfg pb m Ib)) as P2.
  destruct (proto_loop (S (length seg')) FIXED seg' pb m 0) as [p1 m1]. destruct P as [I1 Hc1].
  apply parse_vars_ok2; [exact I1 | exact (inv2_of_keeps pb m p1 m1 Ib2 Hcb Hc1 P2) | exact Hc1].
Qed.

(* ---------- supla_esp_recv_callback: all text fields ---------- *)
Definition dev_ok2 (d : dev) : Prop := forall F, In F TF4 -> fterm F (dcfg d).

Lemma wifi_restore_fterm F c old : In F TF4 -> len c = CFG_SIZE -> len old = CFG_SIZE ->
  fterm F old -> fterm F c ->
  fterm F (if nthz c O_WIFI_PWD =? 0 then blit c O_WIFI_PWD (slice old O_WIFI_PWD Z_WIFI_PWD) else c).
Proof.
  intros HF Lc Lo To Tc. destruct (nthz c O_WIFI_PWD =? 0); [|exact Tc].
  assert (Ls : len (slice old O_WIFI_PWD Z_WIFI_PWD) = Z_WIFI_PWD) by (apply len_slice; rewrite ?Lo; layout; lia).
  destruct (Z.eq_dec (fst F) O_WIFI_PWD) as [E|N].
  - (* the Wi-Fi password itself: the whole field is the old one *)
    assert (EF : F = (O_WIFI_PWD, Z_WIFI_PWD)) by (in_tf4 HF; cbn [fst] in E; try reflexivity; exfalso; revert E; layout2; lia).
    subst F. destruct To as [k [Hk Hz]]. exists k. cbn [fst snd] in *. split; [exact Hk|].
    rewrite nthz_blit_in by (rewrite ?Lc, ?Ls; layout; lia). rewrite nthz_slice by (layout; lia). exact Hz.
  - apply fterm_blit_outside; [exact HF | exact Lc | layout; lia | rewrite Ls; layout; lia | | exact Tc].
    rewrite Ls. unfold outside. in_tf4 HF; cbn [fst snd] in *; layout2; lia.
Qed.

Lemma recv_ok2 sg d seg : dev_ok d -> dev_ok2 d -> dev_ok2 (fst (recv FIXED sg d seg)).
Proof.
  intros D D2. unfold recv. cbv zeta.
  set (m0 := {| ncfg := upd (dcfg d) O_LocationPwd 0; temp := fresh_temp; cmd := dcmd d; rb := 0; flt := [] |}).
  assert (F0 : frame_ok (dcfg d) (upd (dcfg d) O_LocationPwd 0))
    by (apply frame_upd; [exact (d_len d D) | layout; lia | layout; lia]).
  assert (I0 : inv (dpv d) m0).
  { constructor; unfold m0; simp_rec.
    - exact (d_ival d D).
    - exact (d_offs d D).
    - intros H. pose proof (d_cur d D). congruence.
    - rewrite (proj1 F0). exact (d_len d D).
    - unfold fresh_temp, len. rewrite repeat_length. layout; lia.
    - exact (d_cmd d D).
    - reflexivity.
    - exists 0. unfold cell; simp_rec. split; [layout; lia|]. split; [intros; lia|]. split.
      + intros i Hi. unfold fresh_temp. apply nth_error_repeat. lia.
      + right. split; [left; exact (d_cur d D) | left; reflexivity].
    - right. exact (email_term_frame _ _ F0 (d_email d D)). }
  assert (I20 : inv2 (dpv d) m0).
  { constructor; [intros H; pose proof (d_cur d D); congruence|]. intros F HF. right. unfold m0; simp_rec.
    apply fterm_upd_outside; [exact HF | exact (d_len d D) | layout; lia | | exact (D2 F HF)].
    unfold outside. in_tf4 HF; cbn [fst snd]; layout2; lia. }
  pose proof (parse_request_ok sg seg (dpv d) m0 I0 (d_cur d D)) as P.
  pose proof (parse_request_ok2 sg seg (dpv d) m0 I0 I20 (d_cur d D)) as P2.
  destruct (parse_request FIXED sg seg (dpv d) m0) as [p m]. destruct P as [I Hc].
  destruct (typ p =? TYPE_UNKNOWN_); [exact D2|].
  destruct (typ p =? TYPE_POST_); [|exact D2].
  destruct (matched p <? 4); [exact D2|].
  destruct ((0 <? char_val sg (rb m)) && negb (char_val sg (rb m) =? 2)); [exact D2|].
  cbn [fst dcfg]. intros F HF.
  pose proof (restore_password_ok (dcfg d) m (d_len d D) (d_email d D) (i_ncfg p m I) (inv_email p m I Hc)) as R.
  cbv zeta in R. destruct R as [_ [_ [R3 _]]].
  apply wifi_restore_fterm; [exact HF | exact R3 | exact (d_len d D) | exact (D2 F HF)|].
  destruct (i2_term p m P2 F HF) as [[X _]|T]; [congruence|].
  revert T. apply fterm_unch. intros i Hi. pose proof (TF4_bounds F HF).
  apply restore_unch; [exact (d_len d D) | exact (i_ncfg p m I) | lia | apply (TF4_not_pw F); assumption].
Qed.

Theorem C14_text_fields_thm : forall sg segs d, dev_ok d -> dev_ok2 d ->
  let d' := fst (recv_all FIXED sg d segs) in dev_ok d' /\ dev_ok2 d'.
Proof.
  intros sg segs. induction segs as [|s r IH]; intros d D D2; cbn [recv_all]; [cbn [fst]; split; assumption|].
  pose proof (recv_ok sg d s D) as R. pose proof (recv_ok2 sg d s D D2) as R2.
  destruct (recv FIXED sg d s) as [d1 x]. cbn [fst] in R2. destruct R as [_ R1].
  specialize (IH d1 R1 R2). destruct (recv_all FIXED sg d1 r) as [d2 xs]. exact IH.
Qed.

(* ====================================================================================== *)
(* A generic way to carry a predicate through supla_esp_parse_vars' loop                   *)
(* ====================================================================================== *)
Section Generic.
  Variables (sg : bool) (seg : list Z) (Q : pvars -> mem -> Prop).
  Hypothesis q_mem : forall p m m', Q p m -> ncfg m' = ncfg m -> temp m' = temp m -> Q p m'.
  Hypothesis q_offs : forall p m o, cur p = 0 -> Q p m -> Q (set_offs p o) m.
  Hypothesis q_open : forall p m a r, cur p = 0 -> 0 <= a -> 4 <= len seg - a -> rd seg (a + 3) = 61 ->
    find_var (rd seg a) (rd seg (a + 1)) (rd seg (a + 2)) = Some r -> guard_ok r (ncfg m) = true -> Q p m ->
    Q (set_offs (open_var p (nthz r 0) (nthz r 5) (nthz r 6) (nthz r 4)) 0) m.
  Hypothesis q_fill : forall p m v, inv p m -> cur p <> 0 -> offs p < bsize p -> Q p m ->
    Q (fst (fill p m v)) (snd (fill p m v)).
  Hypothesis q_close : forall p m, inv p m -> cur p <> 0 -> Q p m ->
    Q (close_var (fst (terminate p m))) (action sg (fst (terminate p m)) (snd (terminate p m))).

  Lemma g_open p m a : inv p m -> Q p m -> 0 <= a < len seg ->
    let '(p1, m1, a1) := vb_open seg p m a in Q p1 m1.
  Proof.
    intros I Hq Ha. unfold vb_open. destruct (cur p =? 0) eqn:Ec; [|exact Hq]. apply Z.eqb_eq in Ec.
    destruct (4 <=? len seg - a) eqn:E4; [|exact Hq]. apply Z.leb_le in E4. cbv zeta. rewrite !chk_in by lia.
    destruct (rd seg (a + 3) =? 61) eqn:E61; [|exact Hq]. apply Z.eqb_eq in E61.
    destruct (find_var (rd seg a) (rd seg (a + 1)) (rd seg (a + 2))) as [r|] eqn:F.
    - set (m0 := if nthz r 5 =? 3 then match cmd m with None => set_cmd m (Some (zeros CMD_SIZE)) | Some _ => m end else m).
      assert (E0 : ncfg m0 = ncfg m /\ temp m0 = temp m) by (unfold m0; destruct (nthz r 5 =? 3); [destruct (cmd m)|]; split; reflexivity).
      destruct E0 as [E0 E0t].
      destruct (guard_ok r (ncfg m)) eqn:G.
      + apply (q_mem _ m); [|exact E0 | exact E0t]. apply (q_open p m a r); auto. lia.
      + apply (q_mem _ m); [|exact E0 | exact E0t]. apply q_offs; assumption.
    - apply q_offs; assumption.
  Qed.

  Lemma g_fill p1 m1 a1 : inv p1 m1 -> Q p1 m1 -> cur p1 <> 0 -> 0 <= a1 <= len seg ->
    let '(p2, m2, a2) := vb_fill seg p1 m1 a1 in Q p2 m2.
  Proof.
    intros I Hq Hc Ha. unfold vb_fill.
    destruct ((offs p1 <? bsize p1) && (a1 <? len seg)) eqn:E; [|exact Hq].
    apply andb_true_iff in E. destruct E as [E1 E2]. apply Z.ltb_lt in E1, E2. cbv zeta. rewrite (chk_in seg a1 m1) by lia.
    destruct (negb (rd seg a1 =? 38)); [|exact Hq].
    destruct ((rd seg a1 =? 37) && (a1 + 2 <? len seg)) eqn:E3.
    - apply andb_true_iff in E3. destruct E3 as [_ E3]. apply Z.ltb_lt in E3. rewrite !chk_in by lia.
      pose proof (q_fill p1 m1 (u8 (hex2 (rd seg (a1 + 1)) (rd seg (a1 + 2)))) I Hc E1 Hq) as F.
      destruct (fill p1 m1 _) as [p' m']. exact F.
    - destruct (rd seg a1 =? 43).
      + pose proof (q_fill p1 m1 32 I Hc E1 Hq) as F. destruct (fill p1 m1 32) as [p' m']. exact F.
      + pose proof (q_fill p1 m1 (rd seg a1) I Hc E1 Hq) as F. destruct (fill p1 m1 (rd seg a1)) as [p' m']. exact F.
  Qed.

  Lemma g_close p2 m2 a2 : inv p2 m2 -> Q p2 m2 -> cur p2 <> 0 -> 0 <= a2 ->
    let '(a', p', m') := vb_close sg seg p2 m2 a2 in Q p' m'.
  Proof.
    intros I Hq Hc Ha. unfold vb_close. pose proof (q_close p2 m2 I Hc Hq) as C.
    destruct (bsize p2 <=? offs p2).
    - destruct (terminate p2 m2) as [p3 m3]. exact C.
    - destruct (len seg - 1 <=? a2) eqn:E.
      + destruct (terminate p2 m2) as [p3 m3]. exact C.
      + apply Z.leb_gt in E. cbv zeta. rewrite chk_in by lia. destruct (rd seg a2 =? 38).
        * destruct (terminate p2 m2) as [p3 m3]. exact C.
        * exact Hq.
  Qed.

  Lemma g_body p m a : inv p m -> Q p m -> 0 <= a < len seg ->
    let '(a', p', m') := vars_body sg seg p m a in Q p' m'.
  Proof.
    intros I Hq Ha. unfold vars_body.
    pose proof (vb_open_ok seg p m a I Ha) as O. pose proof (g_open p m a I Hq Ha) as O2.
    destruct (vb_open seg p m a) as [[p1 m1] a1]. destruct O as [I1 [Ha1 _]].
    destruct (cur p1 =? 0) eqn:Ec; [exact O2|]. apply Z.eqb_neq in Ec.
    pose proof (vb_fill_ok seg p1 m1 a1 I1 Ec ltac:(lia)) as Fl. pose proof (g_fill p1 m1 a1 I1 O2 Ec ltac:(lia)) as Fl2.
    destruct (vb_fill seg p1 m1 a1) as [[p2 m2] a2]. destruct Fl as [I2' [Hc2 Ha2]].
    apply g_close; [exact I2' | exact Fl2 | congruence | lia].
  Qed.

  Lemma g_vars_loop : forall fuel p m a, inv p m -> Q p m -> 0 <= a ->
    let '(p', m') := vars_loop fuel sg seg p m a in Q p' m'.
  Proof.
    induction fuel as [|f IH]; intros p m a I Hq Ha; cbn [vars_loop]; [exact Hq|].
    destruct (a <? len seg) eqn:E; [|exact Hq]. apply Z.ltb_lt in E.
    pose proof (vars_body_ok sg seg p m a I ltac:(lia)) as B. pose proof (g_body p m a I Hq ltac:(lia)) as B2.
    destruct (vars_body sg seg p m a) as [[a' p'] m']. destruct B as [I' [Ha' _]]. apply IH; [exact I' | exact B2 | lia].
  Qed.
End Generic.

(* ---------- a byte of new_cfg that no recognised field of the segment can write ---------- *)
Definition opens_at (seg : list Z) (a : Z) (r : list Z) : Prop :=
  0 <= a /\ 4 <= len seg - a /\ rd seg (a + 3) = 61 /\ find_var (rd seg a) (rd seg (a + 1)) (rd seg (a + 2)) = Some r.
Definition safe_row (i : Z) (r : list Z) : Prop :=
  (nthz r 5 = 0 -> ~ (nthz r 6 <= i < nthz r 6 + nthz r 4)) /\ ~ in_rng (act_range (nthz r 0)) i.
Definition safe_cur (p : pvars) (i : Z) : Prop :=
  (tk p = 0 -> ~ (toff p <= i < toff p + bsize p)) /\ ~ in_rng (act_range (cur p)) i.

Lemma store_keep p m j v i : inv p m -> cur p <> 0 -> 0 <= j < bsize p -> 0 <= i ->
  (tk p = 0 -> ~ (toff p <= i < toff p + bsize p)) ->
  nthz (ncfg (snd (store p m j v))) i = nthz (ncfg m) i /\
  (let p' := fst (store p m j v) in cur p' = cur p /\ tk p' = tk p /\ toff p' = toff p /\ bsize p' = bsize p).
Proof.
  intros I Hc Hj Hi Hs.
  destruct (store_spec p m j v I Hc Hj) as [[Tk [E R]]|[[Tk [E R]]|[[Tk [E R]]|[Tk [c [Hcmd [E R]]]]]]];
    rewrite E; cbn [fst snd]; simp_rec; (split; [|auto]); try reflexivity.
  apply nthz_upd_other; [rewrite (i_ncfg p m I); lia | lia | specialize (Hs Tk); lia].
Qed.

Definition J (i : Z) (c0 : list Z) (p : pvars) (m : mem) : Prop :=
  nthz (ncfg m) i = nthz c0 i /\ (cur p <> 0 -> safe_cur p i).

Section Unchanged.
  Variables (sg : bool) (seg : list Z) (i : Z) (c0 : list Z).
  Hypothesis Hi : 0 <= i.
  Hypothesis Hseg : forall a r, opens_at seg a r -> safe_row i r.

  Lemma J_fill p m v : inv p m -> cur p <> 0 -> offs p < bsize p -> J i c0 p m ->
    J i c0 (fst (fill p m v)) (snd (fill p m v)).
  Proof.
    intros I Hc Ho [Jb Js]. pose proof (i_offs p m I). specialize (Js Hc). unfold fill.
    pose proof (store_keep p m (offs p) v i I Hc ltac:(lia) Hi (proj1 Js)) as [S1 S2].
    destruct (store p m (offs p) v) as [p' m']. cbn [fst snd] in *. destruct S2 as [A [B [C D]]].
    split; [rewrite S1; exact Jb|]. intros _. unfold safe_cur in *. simp_rec. rewrite A, B, C, D. exact Js.
  Qed.
  Lemma J_close p m : inv p m -> cur p <> 0 -> J i c0 p m ->
    J i c0 (close_var (fst (terminate p m))) (action sg (fst (terminate p m)) (snd (terminate p m))).
  Proof.
    intros I Hc [Jb Js]. pose proof (i_offs p m I) as Hoff. destruct (i_tgt p m I Hc) as [Hb _]. specialize (Js Hc).
    pose proof (term_ok p m I Hc) as T. unfold terminate in *.
    set (j := if offs p <? bsize p then offs p else bsize p - 1).
    assert (Hj : 0 <= j < bsize p) by (unfold j; destruct (offs p <? bsize p) eqn:E; [apply Z.ltb_lt in E|]; lia).
    replace (if offs p <? bsize p then store p m (offs p) 0 else store p m (bsize p - 1) 0) with (store p m j 0) in *
      by (unfold j; destruct (offs p <? bsize p); reflexivity).
    pose proof (store_keep p m j 0 i I Hc Hj Hi (proj1 Js)) as [S1 S2].
    destruct (store p m j 0) as [p3 m3]. cbn [fst snd] in *. destruct S2 as [A _]. destruct T as [T1 _].
    split; [|intros H; simp_rec; congruence].
    rewrite action_unch; [rewrite S1; exact Jb | exact (i_ncfg _ _ T1) | exact Hi | rewrite A; exact (proj2 Js)].
  Qed.
  Lemma J_loop : forall fuel p m a, inv p m -> J i c0 p m -> 0 <= a ->
    let '(p', m') := vars_loop fuel sg seg p m a in J i c0 p' m'.
  Proof.
    apply g_vars_loop.
    - intros p m m' [Jb Js] E _. split; [rewrite E; exact Jb | exact Js].
    - intros p m o Hc [Jb Js]. split; [exact Jb | intros H; simp_rec; congruence].
    - intros p m a r Hc Ha H4 H61 F _ [Jb _]. split; [exact Jb|]. intros _.
      destruct (Hseg a r (conj Ha (conj H4 (conj H61 F)))) as [S1 S2]. unfold safe_cur; simp_rec. split; assumption.
    - exact J_fill.
    - exact J_close.
  Qed.
End Unchanged.

(* ---------- supla_esp_parse_proto_var: at most one update of Flags; none without `pro=` ---------- *)
Definition same_mem (m m' : mem) : Prop := ncfg m' = ncfg m /\ temp m' = temp m.
Lemma store_tk1_mem p m i v : tk p = 1 -> same_mem m (snd (store p m i v)).
Proof.
  intros K. unfold store, same_mem. rewrite K. cbn [Z.eqb].
  destruct (negb ((0 <=? i) && (i <? bsize p))); [cbn [snd]; simp_rec; auto|].
  destruct (i <? len (ival p)); cbn [snd]; simp_rec; auto.
Qed.
Definition pro_at (seg : list Z) (a : Z) : Prop :=
  4 <= len seg - a /\ rd seg (a + 3) = 61 /\ rd seg a = 112 /\ rd seg (a + 1) = 114 /\ rd seg (a + 2) = 111.

Definition proto_post (m m' : mem) : Prop :=
  temp m' = temp m /\ (ncfg m' = ncfg m \/ exists on, ncfg m' = flag_set (ncfg m) F_MQTT_ENABLED on).

Lemma proto_body_shape seg p m a : (cur p = 0 \/ tk p = 1) ->
  let '(go, a', p', m') := proto_body FIXED seg p m a in
  (cur p' = 0 \/ tk p' = 1) /\ proto_post m m' /\ (go = true -> ncfg m' = ncfg m) /\
  ((cur p = 0 /\ ~ pro_at seg a) -> cur p' = 0 /\ go = true).
Proof.
  intros Hp. unfold proto_body. cbv zeta.
  assert (VP : VAR_PRO <> 0).
  { pose proof consts_ok as K. rewrite !andb_true_iff in K. destruct K as [[[_ K] _] _].
    apply negb_true_iff in K. apply Z.eqb_neq in K. exact K. }
  set (q := if cur p =? 0 then
              if (4 <=? len seg - a) && (rd seg (a + 3) =? 61) then
                (set_offs (if (rd seg a =? 112) && (rd seg (a + 1) =? 114) && (rd seg (a + 2) =? 111)
                           then open_var p VAR_PRO 1 0 INTVAL_SIZE else p) 0, m, a + 4)
              else (p, m, a) else (p, m, a)).
  assert (Hq : exists p1 a1, q = (p1, m, a1) /\ (cur p1 = 0 \/ tk p1 = 1) /\ ((cur p = 0 /\ ~ pro_at seg a) -> cur p1 = 0)).
  { unfold q. destruct (cur p =? 0) eqn:Ec; [|eexists _, _; split; [reflexivity | split; [exact Hp | intros [X _]; apply Z.eqb_neq in Ec; congruence]]].
    apply Z.eqb_eq in Ec.
    destruct ((4 <=? len seg - a) && (rd seg (a + 3) =? 61)) eqn:E4; [|eexists _, _; split; [reflexivity | split; [exact Hp | intros _; exact Ec]]].
    apply andb_true_iff in E4. destruct E4 as [E4 E61]. apply Z.leb_le in E4. apply Z.eqb_eq in E61.
    destruct ((rd seg a =? 112) && (rd seg (a + 1) =? 114) && (rd seg (a + 2) =? 111)) eqn:En;
      eexists _, _; (split; [reflexivity|]); simp_rec; (split; [auto|]).
    - intros [_ N]. exfalso. apply N. rewrite !andb_true_iff, !Z.eqb_eq in En. unfold pro_at. tauto.
    - intros _. exact Ec. }
  destruct Hq as [p1 [a1 [Eq [Hp1 Hn1]]]]. rewrite Eq. clear Eq q.
  assert (P0 : proto_post m m) by (split; auto).
  destruct (cur p1 =? VAR_PRO) eqn:Ecp.
  2:{ split; [exact Hp1|]. split; [exact P0|]. split; [auto|]. intros H. split; [exact (Hn1 H) | reflexivity]. }
  apply Z.eqb_eq in Ecp.
  assert (Tk : tk p1 = 1) by (destruct Hp1; congruence).
  set (r := if fx_pro FIXED && negb (a1 <? len seg) then (p1, m) else fill p1 (chk seg a1 m) (rd seg a1)).
  assert (Hr : same_mem m (snd r) /\ tk (fst r) = 1).
  { unfold r. destruct (fx_pro FIXED && negb (a1 <? len seg)); [cbn [fst snd]; unfold same_mem; auto|].
    unfold fill. pose proof (store_tk1_mem p1 (chk seg a1 m) (offs p1) (rd seg a1) Tk) as S.
    pose proof (store_tk1 p1 (chk seg a1 m) (offs p1) (rd seg a1) Tk) as S'.
    destruct (store p1 (chk seg a1 m) (offs p1) (rd seg a1)) as [p' m']. cbn [fst snd] in *. simp_rec.
    destruct S as [S1 S2]. destruct S' as [_ [S3 _]]. split; [|exact S3]. unfold same_mem. rewrite S1, S2, ncfg_chk.
    unfold chk. destruct ((0 <=? a1) && (a1 <? len seg)); auto. }
  destruct r as [p2 m2]. cbn [fst snd] in Hr. destruct Hr as [[En Et] Tk2].
  destruct ((bsize p2 <=? offs p2) || (len seg - 1 <=? a1) || (rd seg a1 =? 38)).
  - unfold terminate.
    assert (Ht : forall i, same_mem m (snd (store p2 m2 i 0))).
    { intros i. pose proof (store_tk1_mem p2 m2 i 0 Tk2) as [S1 S2]. unfold same_mem. rewrite S1, S2. auto. }
    assert (Hfin : forall i, let '(p3, m3) := store p2 m2 i 0 in
              (cur (close_var p3) = 0 \/ tk (close_var p3) = 1) /\
              proto_post m (set_ncfg m3 (flag_set (ncfg m3) F_MQTT_ENABLED (nthz (ival (close_var p3)) 0 =? 49))) /\
              (false = true -> ncfg (set_ncfg m3 (flag_set (ncfg m3) F_MQTT_ENABLED (nthz (ival (close_var p3)) 0 =? 49))) = ncfg m) /\
              ((cur p = 0 /\ ~ pro_at seg a) -> cur (close_var p3) = 0 /\ false = true)).
    { intros i. specialize (Ht i). destruct (store p2 m2 i 0) as [p3 m3]. cbn [snd] in Ht. destruct Ht as [E3 E3t].
      split; [left; reflexivity|]. split; [split; simp_rec; [exact E3t | right; rewrite E3; eauto]|].
      split; [intros X; discriminate|]. intros H. specialize (Hn1 H). congruence. }
    destruct (offs p2 <? bsize p2).
    + pose proof (Hfin (offs p2)) as Hf. destruct (store p2 m2 (offs p2) 0) as [p3 m3]. exact Hf.
    + pose proof (Hfin (bsize p2 - 1)) as Hf. destruct (store p2 m2 (bsize p2 - 1) 0) as [p3 m3]. exact Hf.
  - split; [right; exact Tk2|]. split; [split; [exact Et | left; exact En]|]. split; [intros _; exact En|].
    intros H. specialize (Hn1 H). congruence.
Qed.

Lemma proto_loop_shape seg : forall fuel p m a, (cur p = 0 \/ tk p = 1) ->
  let '(p', m') := proto_loop fuel FIXED seg p m a in proto_post m m'.
Proof.
  induction fuel as [|f IH]; intros p m a Hp; cbn [proto_loop]; [split; auto|].
  destruct (a <? len seg); [|split; auto].
  pose proof (proto_body_shape seg p m a Hp) as B. destruct (proto_body FIXED seg p m a) as [[[go a'] p'] m'].
  destruct B as [Hp' [Pp [Hgo _]]]. destruct go; [|exact Pp].
  specialize (IH p' m' a' Hp'). destruct (proto_loop f FIXED seg p' m' a') as [p'' m''].
  destruct IH as [T1 T2]. destruct Pp as [T0 _]. specialize (Hgo eq_refl).
  split; [congruence|]. rewrite Hgo in T2. exact T2.
Qed.

Lemma proto_loop_noop seg : (forall a, 0 <= a -> ~ pro_at seg a) -> forall fuel p m a, inv p m -> cur p = 0 -> 0 <= a ->
  let '(p', m') := proto_loop fuel FIXED seg p m a in ncfg m' = ncfg m.
Proof.
  intros N. induction fuel as [|f IH]; intros p m a I Hc Ha; cbn [proto_loop]; [reflexivity|].
  destruct (a <? len seg) eqn:El; [|reflexivity]. apply Z.ltb_lt in El.
  pose proof (proto_body_shape seg p m a (or_introl Hc)) as B.
  pose proof (proto_body_ok seg p m a (conj I (or_introl Hc)) ltac:(lia)) as Bo.
  destruct (proto_body FIXED seg p m a) as [[[go a'] p'] m'].
  destruct B as [_ [_ [Hgo Hn]]]. destruct (Hn (conj Hc (N a Ha))) as [Hc' ->]. specialize (Hgo eq_refl).
  destruct Bo as [I' [Adv _]].
  specialize (IH p' m' a' I' Hc' ltac:(lia)). destruct (proto_loop f FIXED seg p' m' a') as [p'' m'']. congruence.
Qed.

(* ---------- "settings that do not appear keep their previous values" for one (unsplit) request ---------- *)
Lemma rd_drop seg k a : 0 <= k -> 0 <= a -> rd (drop k seg) a = rd seg (k + a).
Proof.
  intros Hk Ha. unfold rd. rewrite len_drop by lia.
  destruct (Z_lt_dec (k + a) (len seg)).
  - replace ((0 <=? a) && (a <? Z.max 0 (len seg - k))) with true by (symmetry; apply andb_true_iff; split; [apply Z.leb_le | apply Z.ltb_lt]; lia).
    replace ((0 <=? k + a) && (k + a <? len seg)) with true by (symmetry; apply andb_true_iff; split; [apply Z.leb_le | apply Z.ltb_lt]; lia).
    apply nthz_drop; lia.
  - replace ((0 <=? a) && (a <? Z.max 0 (len seg - k))) with false by (symmetry; apply andb_false_iff; right; apply Z.ltb_ge; lia).
    replace ((0 <=? k + a) && (k + a <? len seg)) with false by (symmetry; apply andb_false_iff; right; apply Z.ltb_ge; lia).
    reflexivity.
Qed.
Lemma opens_at_drop seg k a r : 0 <= k <= len seg -> opens_at (drop k seg) a r -> opens_at seg (k + a) r.
Proof.
  intros Hk [Ha [H4 [H61 F]]]. rewrite len_drop in H4 by lia. unfold opens_at.
  rewrite !rd_drop in * by lia. replace (k + a + 3) with (k + (a + 3)) by lia.
  replace (k + a + 1) with (k + (a + 1)) by lia. replace (k + a + 2) with (k + (a + 2)) by lia.
  repeat split; try assumption; lia.
Qed.
Lemma pro_at_drop seg k a : 0 <= k <= len seg -> 0 <= a -> pro_at (drop k seg) a -> pro_at seg (k + a).
Proof.
  intros Hk Ha [H4 [H61 [A [B C]]]]. rewrite len_drop in H4 by lia. unfold pro_at.
  rewrite !rd_drop in * by lia. replace (k + a + 3) with (k + (a + 3)) by lia.
  replace (k + a + 1) with (k + (a + 1)) by lia. replace (k + a + 2) with (k + (a + 2)) by lia.
  repeat split; try assumption; lia.
Qed.

Lemma classic_flags i : (O_Flags <= i < O_Flags + 4) \/ ~ (O_Flags <= i < O_Flags + 4).
Proof. lia. Qed.

Section AbsentRequest.
  Variables (sg : bool) (seg : list Z) (i : Z).
  Hypothesis Hi : 0 <= i < CFG_SIZE.
  Hypothesis Hrows : forall a r, opens_at seg a r -> safe_row i r.
  Hypothesis Hpro : (exists a, 0 <= a /\ pro_at seg a) -> ~ (O_Flags <= i < O_Flags + 4).

  Lemma parse_vars_unch s p m : (forall a r, opens_at s a r -> safe_row i r) -> ~ pw_area i ->
    inv p m -> cur p = 0 ->
    let '(p', m') := parse_vars FIXED sg s p m in nthz (ncfg m') i = nthz (ncfg m) i.
  Proof.
    intros Hs Hn I Hc. unfold parse_vars.
    pose proof (inv_fresh p m I Hc) as If.
    pose proof (vars_loop_ok sg s (S (length s)) p (set_temp m fresh_temp) 0 If ltac:(lia) (or_introl Hc) ltac:(unfold len; lia)) as L.
    pose proof (J_loop sg s i (ncfg m) ltac:(lia) Hs (S (length s)) p (set_temp m fresh_temp) 0 If) as L2.
    destruct (vars_loop (S (length s)) sg s p (set_temp m fresh_temp) 0) as [p' m']. destruct L as [I' Hc'].
    destruct (L2 (conj eq_refl (fun H => False_ind _ (H Hc))) ltac:(lia)) as [Jb _].
    rewrite spill_unch; [exact Jb | exact (i_ncfg p' m' I') | lia | exact Hn].
  Qed.

  Lemma parse_request_unch p m : ~ pw_area i -> inv p m -> cur p = 0 ->
    let '(p', m') := parse_request FIXED sg seg p m in nthz (ncfg m') i = nthz (ncfg m) i.
  Proof.
    intros Hn I Hc. unfold parse_request. destruct (len seg =? 0); [reflexivity|].
    set (pa := if step p =? STEP_TYPE_ then
                 if is_prefix (s_get ++ s_url) seg then set_step p STEP_GET_ TYPE_GET_
                 else if is_prefix (s_post ++ s_url) seg then set_step p STEP_POST_ TYPE_POST_ else p
               else p).
    assert (Ia : inv pa m /\ cur pa = 0).
    { unfold pa. destruct (step p =? STEP_TYPE_); [|auto].
      destruct (is_prefix (s_get ++ s_url) seg); [split; [apply inv_set_step; exact I | exact Hc]|].
      destruct (is_prefix (s_post ++ s_url) seg); [split; [apply inv_set_step; exact I | exact Hc] | auto]. }
    destruct Ia as [Ia Hca]. cbv zeta.
    set (k := if step pa =? STEP_POST_ then count_hdr_end (S (length seg)) FIXED seg 0 else 0).
    assert (Hk : k = 0 \/ (k = 1 /\ 4 <= len seg)).
    { unfold k. destruct (step pa =? STEP_POST_); [apply count_fixed; lia | left; reflexivity]. }
    set (pb := if 0 <? k then set_step pa STEP_PARSE_VARS_ (typ pa) else pa).
    assert (Ib : inv pb m /\ cur pb = 0).
    { unfold pb. destruct (0 <? k); [split; [apply inv_set_step; exact Ia | exact Hca] | auto]. }
    destruct Ib as [Ib Hcb].
    destruct (step pb =? STEP_PARSE_VARS_); [|reflexivity].
    destruct (len seg <? 3 * k) eqn:El; [reflexivity|]. apply Z.ltb_ge in El.
    assert (Hk3 : 0 <= 3 * k <= len seg) by (pose proof (len_nonneg seg); clearbody k; lia).
    set (seg' := drop (3 * k) seg).
    pose proof (proto_loop_ok seg' (S (length seg')) pb m 0 (conj Ib (or_introl Hcb)) ltac:(lia) (or_introl Hcb) ltac:(unfold len; lia)) as P.
    pose proof (proto_loop_shape seg' (S (length seg')) pb m 0 (or_introl Hcb)) as Ps.
    pose proof (fun N => proto_loop_noop seg' N (S (length seg')) pb m 0 Ib Hcb ltac:(lia)) as Pn.
    destruct (proto_loop (S (length seg')) FIXED seg' pb m 0) as [p1 m1]. destruct P as [I1 Hc1].
    assert (E1 : nthz (ncfg m1) i = nthz (ncfg m) i).
    { destruct (classic_flags i) as [Hf|Hf].
      - (* a Flags byte: then no pro= opens, the protocol pass does nothing *)
        rewrite Pn; [reflexivity|]. intros a Ha Hp. apply Hpro; [|exact Hf].
        exists (3 * k + a). split; [lia|]. apply pro_at_drop; assumption.
      - destruct Ps as [_ [E|[on E]]]; rewrite E; [reflexivity|].
        unfold flag_set, set_flags. apply nthz_blit_other; [layout; lia | rewrite (i_ncfg pb m Ib), len_enc32; layout; lia | lia | rewrite len_enc32; lia]. }
    pose proof (parse_vars_unch seg' p1 m1 (fun a r H => Hrows _ r (opens_at_drop seg (3 * k) a r Hk3 H)) Hn I1 Hc1) as V.
    destruct (parse_vars FIXED sg seg' p1 m1) as [p' m']. congruence.
  Qed.
End AbsentRequest.

(* one call of supla_esp_recv_callback with a whole request: a byte outside Password/Email that no recognised
   field of the request can write keeps its value (Wi-Fi password bytes included) *)
Theorem C14_absent_unchanged_thm : forall sg d seg i,
  dev_ok d -> 0 <= i < CFG_SIZE -> ~ pw_area i ->
  (forall a r, opens_at seg a r -> safe_row i r) ->
  ((exists a, 0 <= a /\ pro_at seg a) -> ~ (O_Flags <= i < O_Flags + 4)) ->
  nthz (dcfg (fst (recv FIXED sg d seg))) i = nthz (dcfg d) i.
Proof.
  intros sg d seg i D Hi Hn Hrows Hpro. unfold recv. cbv zeta.
  set (m0 := {| ncfg := upd (dcfg d) O_LocationPwd 0; temp := fresh_temp; cmd := dcmd d; rb := 0; flt := [] |}).
  assert (F0 : frame_ok (dcfg d) (upd (dcfg d) O_LocationPwd 0))
    by (apply frame_upd; [exact (d_len d D) | layout; lia | layout; lia]).
  assert (I0 : inv (dpv d) m0).
  { constructor; unfold m0; simp_rec.
    - exact (d_ival d D).
    - exact (d_offs d D).
    - intros H. pose proof (d_cur d D). congruence.
    - rewrite (proj1 F0). exact (d_len d D).
    - unfold fresh_temp, len. rewrite repeat_length. layout; lia.
    - exact (d_cmd d D).
    - reflexivity.
    - exists 0. unfold cell; simp_rec. split; [layout; lia|]. split; [intros; lia|]. split.
      + intros j Hj. unfold fresh_temp. apply nth_error_repeat. lia.
      + right. split; [left; exact (d_cur d D) | left; reflexivity].
    - right. exact (email_term_frame _ _ F0 (d_email d D)). }
  pose proof (parse_request_ok sg seg (dpv d) m0 I0 (d_cur d D)) as P.
  pose proof (parse_request_unch sg seg i Hi Hrows Hpro (dpv d) m0 Hn I0 (d_cur d D)) as U.
  destruct (parse_request FIXED sg seg (dpv d) m0) as [p m]. destruct P as [I Hc].
  destruct (typ p =? TYPE_UNKNOWN_); [reflexivity|].
  destruct (typ p =? TYPE_POST_); [|reflexivity].
  destruct (matched p <? 4); [reflexivity|].
  destruct ((0 <? char_val sg (rb m)) && negb (char_val sg (rb m) =? 2)); [reflexivity|].
  cbn [fst dcfg].
  assert (U0 : nthz (ncfg m0) i = nthz (dcfg d) i).
  { unfold m0; simp_rec. apply nthz_upd_other; [rewrite (d_len d D); layout; lia | lia | unfold pw_area in Hn; layout; lia]. }
  pose proof (restore_unch (dcfg d) m i (d_len d D) (i_ncfg p m I) ltac:(lia) Hn) as R.
  pose proof (restore_password_ok (dcfg d) m (d_len d D) (d_email d D) (i_ncfg p m I) (inv_email p m I Hc)) as Rk.
  cbv zeta in Rk. destruct Rk as [_ [_ [R3 _]]].
  set (c := ncfg (restore_password FIXED (dcfg d) (ncfg m) m)) in *.
  assert (Ec : nthz c i = nthz (dcfg d) i) by congruence.
  destruct (nthz c O_WIFI_PWD =? 0); [|exact Ec].
  assert (Ls : len (slice (dcfg d) O_WIFI_PWD Z_WIFI_PWD) = Z_WIFI_PWD) by (apply len_slice; rewrite ?(d_len d D); layout; lia).
  destruct (Z_le_dec O_WIFI_PWD i) as [A|A]; [destruct (Z_lt_dec i (O_WIFI_PWD + Z_WIFI_PWD)) as [B|B]|].
  - replace i with (O_WIFI_PWD + (i - O_WIFI_PWD)) at 1 by lia.
    rewrite nthz_blit_in by (rewrite ?R3, ?Ls; layout; lia). rewrite nthz_slice by (layout; lia). f_equal. lia.
  - rewrite nthz_blit_other; [exact Ec | layout; lia | rewrite Ls, R3; layout; lia | lia | rewrite Ls; lia].
  - rewrite nthz_blit_other; [exact Ec | layout; lia | rewrite Ls, R3; layout; lia | lia | rewrite Ls; lia].
Qed.

(* ====================================================================================== *)
(* A predicate on a few bytes of the record (a numeric setting) through one whole request  *)
(* ====================================================================================== *)
Lemma store_same_p p m j v : inv p m -> cur p <> 0 -> 0 <= j < bsize p ->
  let p' := fst (store p m j v) in cur p' = cur p /\ tk p' = tk p /\ toff p' = toff p /\ bsize p' = bsize p.
Proof.
  intros I Hc Hj.
  destruct (store_spec p m j v I Hc Hj) as [[_ [E _]]|[[_ [E _]]|[[_ [E _]]|[_ [c [_ [E _]]]]]]]; rewrite E; cbn [fst]; simp_rec; auto.
Qed.

Section Numeric.
  Variables (ro rn : Z) (P : list Z -> Prop) (spec : Z -> Prop) (sg : bool).
  Definition inR (j : Z) : Prop := ro <= j < ro + rn.
  Hypothesis R_ok : forall j, inR j ->
    0 <= j < CFG_SIZE /\ ~ pw_area j /\ ~ (O_WIFI_PWD <= j < O_WIFI_PWD + Z_WIFI_PWD) /\ ~ (O_Flags <= j < O_Flags + 4).
  Hypothesis P_ext : forall c c', (forall j, inR j -> nthz c' j = nthz c j) -> P c -> P c'.
  Hypothesis P_act : forall p m, len (ncfg m) = CFG_SIZE -> spec (cur p) -> P (ncfg m) -> P (ncfg (action sg p m)).

  Definition row_num (r : list Z) : Prop :=
    (nthz r 5 = 0 -> forall j, inR j -> ~ (nthz r 6 <= j < nthz r 6 + nthz r 4)) /\
    (spec (nthz r 0) \/ forall j, inR j -> ~ in_rng (act_range (nthz r 0)) j).
  Definition safeN (p : pvars) : Prop :=
    (tk p = 0 -> forall j, inR j -> ~ (toff p <= j < toff p + bsize p)) /\
    (spec (cur p) \/ forall j, inR j -> ~ in_rng (act_range (cur p)) j).
  Definition QN (p : pvars) (m : mem) : Prop := P (ncfg m) /\ (cur p <> 0 -> safeN p).

  Lemma N_store p m j v : inv p m -> cur p <> 0 -> 0 <= j < bsize p -> safeN p -> P (ncfg m) ->
    P (ncfg (snd (store p m j v))) /\ safeN (set_offs (fst (store p m j v)) (offs p + 1)) /\ safeN (fst (store p m j v)).
  Proof.
    intros I Hc Hj Sn Pp.
    assert (S : forall k, inR k -> nthz (ncfg (snd (store p m j v))) k = nthz (ncfg m) k).
    { intros k Hk. apply store_keep; [exact I | exact Hc | exact Hj | destruct (R_ok k Hk); lia | intros K; exact (proj1 Sn K k Hk)]. }
    pose proof (store_same_p p m j v I Hc Hj) as E. cbv zeta in E.
    destruct (store p m j v) as [p' m']. cbn [fst snd] in *. destruct E as [A [B [C D]]].
    split; [apply (P_ext (ncfg m)); assumption|]. unfold safeN; simp_rec. rewrite A, B, C, D. split; exact Sn.
  Qed.

  Lemma N_fill p m v : inv p m -> cur p <> 0 -> offs p < bsize p -> QN p m -> QN (fst (fill p m v)) (snd (fill p m v)).
  Proof.
    intros I Hc Ho [Qp Qs]. pose proof (i_offs p m I). unfold fill.
    pose proof (N_store p m (offs p) v I Hc ltac:(lia) (Qs Hc) Qp) as [A [B _]].
    destruct (store p m (offs p) v) as [p' m']. cbn [fst snd] in *. split; [exact A | intros _; exact B].
  Qed.

  Lemma N_close p m : inv p m -> cur p <> 0 -> QN p m ->
    QN (close_var (fst (terminate p m))) (action sg (fst (terminate p m)) (snd (terminate p m))).
  Proof.
    intros I Hc [Qp Qs]. pose proof (i_offs p m I) as Hoff. destruct (i_tgt p m I Hc) as [Hb _]. specialize (Qs Hc).
    pose proof (term_ok p m I Hc) as T. unfold terminate in *.
    set (j := if offs p <? bsize p then offs p else bsize p - 1).
    assert (Hj : 0 <= j < bsize p) by (unfold j; destruct (offs p <? bsize p) eqn:E; [apply Z.ltb_lt in E|]; lia).
    replace (if offs p <? bsize p then store p m (offs p) 0 else store p m (bsize p - 1) 0) with (store p m j 0) in *
      by (unfold j; destruct (offs p <? bsize p); reflexivity).
    pose proof (N_store p m j 0 I Hc Hj Qs Qp) as [A [_ B]].
    pose proof (store_same_p p m j 0 I Hc Hj) as E. cbv zeta in E.
    destruct (store p m j 0) as [p3 m3]. cbn [fst snd] in *. destruct T as [T1 _]. destruct E as [Ec _].
    split; [|intros H; simp_rec; congruence].
    destruct (proj2 B) as [Sp|So].
    - apply P_act; [exact (i_ncfg _ _ T1) | exact Sp | exact A].
    - apply (P_ext (ncfg m3)); [|exact A]. intros k Hk. destruct (R_ok k Hk) as [Hk0 _].
      apply action_unch; [exact (i_ncfg _ _ T1) | lia | exact (So k Hk)].
  Qed.

  Lemma N_loop s : (forall a r, opens_at s a r -> row_num r) -> forall fuel p m a, inv p m -> QN p m -> 0 <= a ->
    let '(p', m') := vars_loop fuel sg s p m a in QN p' m'.
  Proof.
    intros Hs. apply g_vars_loop.
    - intros p m m' [Qp Qs] E _. split; [rewrite E; exact Qp | exact Qs].
    - intros p m o Hc [Qp Qs]. split; [exact Qp | intros H; simp_rec; congruence].
    - intros p m a r Hc Ha H4 H61 F _ [Qp _]. split; [exact Qp|]. intros _.
      destruct (Hs a r (conj Ha (conj H4 (conj H61 F)))) as [S1 S2]. unfold safeN; simp_rec. split; assumption.
    - exact N_fill.
    - exact N_close.
  Qed.

  Variable seg : list Z.
  Hypothesis Hrows : forall a r, opens_at seg a r -> row_num r.

  Lemma N_parse_request p m : inv p m -> cur p = 0 -> P (ncfg m) ->
    let '(p', m') := parse_request FIXED sg seg p m in P (ncfg m').
  Proof.
    intros I Hc Pp. unfold parse_request. destruct (len seg =? 0); [exact Pp|].
    set (pa := if step p =? STEP_TYPE_ then
                 if is_prefix (s_get ++ s_url) seg then set_step p STEP_GET_ TYPE_GET_
                 else if is_prefix (s_post ++ s_url) seg then set_step p STEP_POST_ TYPE_POST_ else p
               else p).
    assert (Ia : inv pa m /\ cur pa = 0).
    { unfold pa. destruct (step p =? STEP_TYPE_); [|auto].
      destruct (is_prefix (s_get ++ s_url) seg); [split; [apply inv_set_step; exact I | exact Hc]|].
      destruct (is_prefix (s_post ++ s_url) seg); [split; [apply inv_set_step; exact I | exact Hc] | auto]. }
    destruct Ia as [Ia Hca]. cbv zeta.
    set (k := if step pa =? STEP_POST_ then count_hdr_end (S (length seg)) FIXED seg 0 else 0).
    assert (Hk : k = 0 \/ (k = 1 /\ 4 <= len seg)).
    { unfold k. destruct (step pa =? STEP_POST_); [apply count_fixed; lia | left; reflexivity]. }
    set (pb := if 0 <? k then set_step pa STEP_PARSE_VARS_ (typ pa) else pa).
    assert (Ib : inv pb m /\ cur pb = 0).
    { unfold pb. destruct (0 <? k); [split; [apply inv_set_step; exact Ia | exact Hca] | auto]. }
    destruct Ib as [Ib Hcb].
    destruct (step pb =? STEP_PARSE_VARS_); [|exact Pp].
    destruct (len seg <? 3 * k) eqn:El; [simp_rec; exact Pp|]. apply Z.ltb_ge in El.
    assert (Hk3 : 0 <= 3 * k <= len seg) by (pose proof (len_nonneg seg); clearbody k; lia).
    set (seg' := drop (3 * k) seg).
    pose proof (proto_loop_ok seg' (S (length seg')) pb m 0 (conj Ib (or_introl Hcb)) ltac:(lia) (or_introl Hcb) ltac:(unfold len; lia)) as Pk.
    pose proof (proto_loop_shape seg' (S (length seg')) pb m 0 (or_introl Hcb)) as Ps.
    destruct (proto_loop (S (length seg')) FIXED seg' pb m 0) as [p1 m1]. destruct Pk as [I1 Hc1].
    assert (P1 : P (ncfg m1)).
    { apply (P_ext (ncfg m)); [|exact Pp]. intros j Hj. destruct (R_ok j Hj) as [Hj0 [_ [_ Hf]]].
      destruct Ps as [_ [E|[on E]]]; rewrite E; [reflexivity|].
      unfold flag_set, set_flags. apply nthz_blit_other; [layout; lia | rewrite (i_ncfg pb m Ib), len_enc32; layout; lia | lia | rewrite len_enc32; lia]. }
    unfold parse_vars.
    pose proof (inv_fresh p1 m1 I1 Hc1) as If.
    pose proof (vars_loop_ok sg seg' (S (length seg')) p1 (set_temp m1 fresh_temp) 0 If ltac:(lia) (or_introl Hc1) ltac:(unfold len; lia)) as L.
    pose proof (N_loop seg' (fun a r H => Hrows _ r (opens_at_drop seg (3 * k) a r Hk3 H)) (S (length seg')) p1 (set_temp m1 fresh_temp) 0 If) as L2.
    destruct (vars_loop (S (length seg')) sg seg' p1 (set_temp m1 fresh_temp) 0) as [p' m']. destruct L as [I' Hc'].
    destruct (L2 (conj P1 (fun H => False_ind _ (H Hc1))) ltac:(lia)) as [Pl _].
    apply (P_ext (ncfg m')); [|exact Pl]. intros j Hj. destruct (R_ok j Hj) as [Hj0 [Hpw _]].
    apply spill_unch; [exact (i_ncfg p' m' I') | lia | exact Hpw].
  Qed.

  Lemma N_recv d : dev_ok d -> P (dcfg d) -> P (dcfg (fst (recv FIXED sg d seg))).
  Proof.
    intros D Pd. unfold recv. cbv zeta.
    set (m0 := {| ncfg := upd (dcfg d) O_LocationPwd 0; temp := fresh_temp; cmd := dcmd d; rb := 0; flt := [] |}).
    assert (F0 : frame_ok (dcfg d) (upd (dcfg d) O_LocationPwd 0))
      by (apply frame_upd; [exact (d_len d D) | layout; lia | layout; lia]).
    assert (I0 : inv (dpv d) m0).
    { constructor; unfold m0; simp_rec.
      - exact (d_ival d D).
      - exact (d_offs d D).
      - intros H. pose proof (d_cur d D). congruence.
      - rewrite (proj1 F0). exact (d_len d D).
      - unfold fresh_temp, len. rewrite repeat_length. layout; lia.
      - exact (d_cmd d D).
      - reflexivity.
      - exists 0. unfold cell; simp_rec. split; [layout; lia|]. split; [intros; lia|]. split.
        + intros j Hj. unfold fresh_temp. apply nth_error_repeat. lia.
        + right. split; [left; exact (d_cur d D) | left; reflexivity].
      - right. exact (email_term_frame _ _ F0 (d_email d D)). }
    assert (P0 : P (ncfg m0)).
    { apply (P_ext (dcfg d)); [|exact Pd]. intros j Hj. destruct (R_ok j Hj) as [Hj0 [Hpw _]]. unfold m0; simp_rec.
      apply nthz_upd_other; [rewrite (d_len d D); layout; lia | lia | unfold pw_area in Hpw; layout; lia]. }
    pose proof (parse_request_ok sg seg (dpv d) m0 I0 (d_cur d D)) as Pk.
    pose proof (N_parse_request (dpv d) m0 I0 (d_cur d D) P0) as Pn.
    destruct (parse_request FIXED sg seg (dpv d) m0) as [p m]. destruct Pk as [I Hc].
    destruct (typ p =? TYPE_UNKNOWN_); [exact Pd|].
    destruct (typ p =? TYPE_POST_); [|exact Pd].
    destruct (matched p <? 4); [exact Pd|].
    destruct ((0 <? char_val sg (rb m)) && negb (char_val sg (rb m) =? 2)); [exact Pd|].
    cbn [fst dcfg].
    pose proof (restore_password_ok (dcfg d) m (d_len d D) (d_email d D) (i_ncfg p m I) (inv_email p m I Hc)) as Rk.
    cbv zeta in Rk. destruct Rk as [_ [_ [R3 _]]].
    assert (Pr : P (ncfg (restore_password FIXED (dcfg d) (ncfg m) m))).
    { apply (P_ext (ncfg m)); [|exact Pn]. intros j Hj. destruct (R_ok j Hj) as [Hj0 [Hpw _]].
      apply restore_unch; [exact (d_len d D) | exact (i_ncfg p m I) | lia | exact Hpw]. }
    set (c := ncfg (restore_password FIXED (dcfg d) (ncfg m) m)) in *.
    destruct (nthz c O_WIFI_PWD =? 0); [|exact Pr].
    apply (P_ext c); [|exact Pr]. intros j Hj. destruct (R_ok j Hj) as [Hj0 [_ [Hw _]]].
    pose proof (len_slice_le (dcfg d) O_WIFI_PWD Z_WIFI_PWD ltac:(layout; lia) ltac:(layout; lia)).
    pose proof (len_nonneg (slice (dcfg d) O_WIFI_PWD Z_WIFI_PWD)).
    assert (Ls : len (slice (dcfg d) O_WIFI_PWD Z_WIFI_PWD) = Z_WIFI_PWD) by (apply len_slice; rewrite ?(d_len d D); layout; lia).
    apply nthz_blit_other; [layout; lia | rewrite Ls, R3; layout; lia | lia | rewrite Ls; lia].
  Qed.
End Numeric.

(* ---------- instances: port, QoS, time margins ---------- *)
Definition rowb (ro rn : Z) (sp : Z -> bool) (r : list Z) : bool :=
  (negb (nthz r 5 =? 0) || (nthz r 6 + nthz r 4 <=? ro) || (ro + rn <=? nthz r 6)) &&
  (sp (nthz r 0) || (fst (act_range (nthz r 0)) + snd (act_range (nthz r 0)) <=? ro) || (ro + rn <=? fst (act_range (nthz r 0)))).
Lemma rowb_num ro rn sp (spec : Z -> Prop) r : rowb ro rn sp r = true -> (forall v, sp v = true -> spec v) -> row_num ro rn spec r.
Proof.
  unfold rowb, row_num, inR, in_rng. rewrite andb_true_iff, !orb_true_iff, negb_true_iff, Z.eqb_neq, !Z.leb_le.
  intros [A B] S. split.
  - intros K j Hj. destruct A as [[A|A]|A]; [congruence | lia | lia].
  - destruct B as [[B|B]|B]; [left; apply S; exact B | right; intros j Hj; lia | right; intros j Hj; lia].
Qed.
Lemma opens_in seg a r : opens_at seg a r -> In r VARTAB.
Proof. intros [_ [_ [_ F]]]. unfold find_var in F. apply find_some in F. tauto. Qed.

(* port *)
Lemma port_rows : forallb (fun r => (nthz r 0 =? VAR_LID) || rowb O_LocationID 4 (fun v => v =? VAR_PRT) r) VARTAB = true.
Proof. vm_compute. reflexivity. Qed.
Lemma port_ext c c' : (forall j, inR O_LocationID 4 j -> nthz c' j = nthz c j) -> port_of c' = port_of c.
Proof.
  intros H. unfold port_of, le32. unfold inR in H.
  rewrite (H O_LocationID), (H (O_LocationID + 1)), (H (O_LocationID + 2)), (H (O_LocationID + 3)) by lia. reflexivity.
Qed.
Theorem C14_port_range_thm : forall sg d seg, dev_ok d ->
  (forall a r, opens_at seg a r -> nthz r 0 <> VAR_LID) ->
  let c' := dcfg (fst (recv FIXED sg d seg)) in
  port_of c' = port_of (dcfg d) \/ 1 <= port_of c' <= 65535.
Proof.
  intros sg d seg D Hl. cbv zeta.
  apply (N_recv O_LocationID 4 (fun c => port_of c = port_of (dcfg d) \/ 1 <= port_of c <= 65535) (fun v => v = VAR_PRT) sg).
  - intros j Hj. unfold inR, pw_area in *. layout2; lia.
  - intros c c' E [H|H]; rewrite (port_ext c c' E); auto.
  - intros p m L Hc [H|H].
    + destruct (action_port sg p m L Hc) as [A|A]; [left; congruence | right; exact A].
    + destruct (action_port sg p m L Hc) as [A|A]; [right; rewrite A; exact H | right; exact A].
  - intros a r Ho. pose proof port_rows as R. rewrite forallb_forall in R. specialize (R r (opens_in seg a r Ho)).
    apply orb_true_iff in R. destruct R as [R|R]; [apply Z.eqb_eq in R; exfalso; exact (Hl a r Ho R)|].
    apply (rowb_num _ _ _ _ r R). intros v Hv. apply Z.eqb_eq. exact Hv.
  - exact D.
  - left; reflexivity.
Qed.

(* QoS *)
Lemma qos_rows : forallb (rowb O_MqttQoS 1 (fun v => v =? VAR_QOS)) VARTAB = true.
Proof. vm_compute. reflexivity. Qed.
Theorem C14_qos_range_thm : forall sg d seg, dev_ok d ->
  let c' := dcfg (fst (recv FIXED sg d seg)) in
  nthz c' O_MqttQoS = nthz (dcfg d) O_MqttQoS \/ 0 <= nthz c' O_MqttQoS <= 2.
Proof.
  intros sg d seg D. cbv zeta.
  apply (N_recv O_MqttQoS 1 (fun c => nthz c O_MqttQoS = nthz (dcfg d) O_MqttQoS \/ 0 <= nthz c O_MqttQoS <= 2) (fun v => v = VAR_QOS) sg).
  - intros j Hj. unfold inR, pw_area in *. layout2; lia.
  - intros c c' E [H|H]; rewrite (E O_MqttQoS) by (unfold inR; lia); auto.
  - intros p m L Hc [H|H].
    + destruct (action_qos sg p m L Hc) as [A|A]; [left; congruence | right; exact A].
    + destruct (action_qos sg p m L Hc) as [A|A]; [right; rewrite A; exact H | right; exact A].
  - intros a r Ho. pose proof qos_rows as R. rewrite forallb_forall in R. specialize (R r (opens_in seg a r Ho)).
    apply (rowb_num _ _ _ _ r R). intros v Hv. apply Z.eqb_eq. exact Hv.
  - exact D.
  - left; reflexivity.
Qed.

(* time margins *)
Definition tm_var (k : Z) : Z := if k =? 0 then VAR_TM0 else if k =? 1 then VAR_TM1 else if k =? 2 then VAR_TM2 else VAR_TM3.
Lemma action_margin sg p m k : 0 <= k < 4 -> cur p = tm_var k -> ncfg (action sg p m) = margin (ncfg m) k p.
Proof.
  intros Hk Hc. assert (K : k = 0 \/ k = 1 \/ k = 2 \/ k = 3) by lia.
  unfold action. cbv beta zeta. rewrite Hc.
  destruct K as [ -> | [ -> | [ -> | -> ]]]; unfold tm_var; cbn [Z.eqb];
  repeat match goal with
  | |- context [?a =? ?b] =>
      let t := eval vm_compute in (a =? b) in
      lazymatch t with true => change (a =? b) with true | false => change (a =? b) with false end; cbv iota
  end; reflexivity.
Qed.
Lemma tm_rows : forallb (fun k => forallb (rowb (O_AdditionalTimeMargin + k) 1 (fun v => v =? tm_var k)) VARTAB) [0; 1; 2; 3] = true.
Proof. vm_compute. reflexivity. Qed.
Theorem C14_margin_range_thm : forall sg d seg k, dev_ok d -> 0 <= k < 4 ->
  let c' := dcfg (fst (recv FIXED sg d seg)) in
  nthz c' (O_AdditionalTimeMargin + k) = nthz (dcfg d) (O_AdditionalTimeMargin + k) \/
  -1 <= s8 (nthz c' (O_AdditionalTimeMargin + k)) <= 100.
Proof.
  intros sg d seg k D Hk. cbv zeta.
  apply (N_recv (O_AdditionalTimeMargin + k) 1
           (fun c => nthz c (O_AdditionalTimeMargin + k) = nthz (dcfg d) (O_AdditionalTimeMargin + k) \/
                     -1 <= s8 (nthz c (O_AdditionalTimeMargin + k)) <= 100) (fun v => v = tm_var k) sg).
  - intros j Hj. unfold inR, pw_area in *. layout2; lia.
  - intros c c' E [H|H]; rewrite (E (O_AdditionalTimeMargin + k)) by (unfold inR; lia); auto.
  - intros p m L Hc _. right. rewrite (action_margin sg p m k Hk Hc). apply margin_range; assumption.
  - intros a r Ho. pose proof tm_rows as R. rewrite forallb_forall in R.
    assert (Hin : In k [0; 1; 2; 3]) by (cbn; lia). specialize (R k Hin). rewrite forallb_forall in R.
    specialize (R r (opens_in seg a r Ho)). apply (rowb_num _ _ _ _ r R). intros v Hv. apply Z.eqb_eq. exact Hv.
  - exact D.
  - left; reflexivity.
Qed.

(* ====================================================================================== *)
(* The password: terminated inside the Password field, or (long password, field full) its  *)
(* rest behind the name terminator is terminated inside the Email field / has no room      *)
(* ====================================================================================== *)
Definition pwd_ok (c : list Z) : Prop :=
  (exists k, 0 <= k < PWD_MAX /\ nthz c (O_LocationPwd + k) = 0) \/
  (exists j k, 0 <= j <= k /\ k < Z_Email /\ nthz c (O_Email + j) = 0 /\ nthz c (O_Email + k) = 0 /\ (j < k \/ k = Z_Email - 1)).

Lemma pwd_ext c c' : (forall i, pw_area i -> nthz c' i = nthz c i) -> pwd_ok c -> pwd_ok c'.
Proof.
  intros E [[k [Hk Hz]]|[j [k [Hj [Hk [Zj [Zk Hd]]]]]]].
  - left. exists k. split; [exact Hk|]. rewrite E; [exact Hz | left; lia].
  - right. exists j, k. repeat split; try assumption; try lia; rewrite E; try assumption; right; lia.
Qed.
Lemma nthz_snoc (s : list Z) v : nthz (s ++ [v]) (len s) = v.
Proof. unfold nthz, len. rewrite Nat2Z.id, app_nth2 by lia. rewrite Nat.sub_diag. reflexivity. Qed.

Lemma spill_pwd fx m : len (ncfg m) = CFG_SIZE -> nthz (ncfg m) O_LocationPwd = 0 -> pwd_ok (ncfg (spill fx m)).
Proof.
  intros L Hz.
  assert (P0 : forall c, c = ncfg m -> pwd_ok c) by (intros c ->; left; exists 0; split; [layout; lia | rewrite Z.add_0_r; exact Hz]).
  unfold spill.
  set (m1 := if fx_temp fx then match temp m with
                                | _ :: r => match nth_error (temp m) 0 with Some (Some _) => m | _ => set_temp m (Some 0 :: r) end
                                | [] => m end else m).
  assert (E1 : ncfg m1 = ncfg m).
  { unfold m1. destruct (fx_temp fx); [|reflexivity]. destruct (temp m); [reflexivity|].
    destruct (nth_error (o :: l) 0) as [[?|]|]; reflexivity. }
  clearbody m1. unfold tget.
  destruct (nth_error (temp m1) (Z.to_nat 0)) as [[v|]|]; cbv beta iota zeta;
    try (change (0 =? 0) with true; cbv iota; simp_rec; apply P0; exact E1).
  destruct (v =? 0); [apply P0; exact E1|].
  destruct (temp_str (temp m1)) as [s ok].
  set (m2 := if ok then m1 else fault m1 2).
  assert (E2 : ncfg m2 = ncfg m) by (unfold m2; destruct ok; simp_rec; exact E1).
  clearbody m2. rewrite E2.
  pose proof (strnlen_le (slice (ncfg m) O_Email Z_Email) Z_Email ltac:(layout; lia)) as Bm.
  set (ml := strnlen (slice (ncfg m) O_Email Z_Email) Z_Email) in *.
  pose proof (len_nonneg s) as Hs.
  destruct (len s <? PWD_MAX) eqn:Es.
  - apply Z.ltb_lt in Es. simp_rec. left. exists (len s). split; [lia|].
    rewrite nthz_blit_in; [apply nthz_snoc | rewrite L; layout; lia | rewrite len_app; change (len [0]) with 1; lia].
  - apply Z.ltb_ge in Es.
    set (n := Z_Email - ml - 1). set (src := take n (drop PWD_MAX s ++ zeros n)).
    assert (Ls : 0 <= len src <= Z.max 0 n).
    { unfold src. pose proof (len_nonneg (take n (drop PWD_MAX s ++ zeros n))).
      destruct (Z_lt_dec n 0); [unfold take; replace (Z.to_nat n) with 0%nat by lia; cbn; lia|].
      rewrite len_take by lia. pose proof (len_nonneg (drop PWD_MAX s ++ zeros n)). lia. }
    set (c1 := blit (ncfg m) O_LocationPwd (take PWD_MAX s)).
    assert (Lt : len (take PWD_MAX s) = PWD_MAX) by (rewrite len_take by (layout; lia); lia).
    assert (L1 : len c1 = CFG_SIZE) by (unfold c1; rewrite len_blit; [exact L | layout; lia | rewrite Lt, L; layout; lia]).
    assert (L2 : len (blit c1 (O_Email + ml + 1) src) = CFG_SIZE)
      by (rewrite len_blit; [exact L1 | layout; lia | rewrite L1; unfold n in Ls; layout; lia]).
    assert (Hlast : forall m3, pwd_ok (ncfg (set_ncfg m3 (upd (blit c1 (O_Email + ml + 1) src) (O_Email + Z_Email - 1) 0)))).
    { intros m3. simp_rec. right. exists (Z_Email - 1), (Z_Email - 1).
      replace (O_Email + (Z_Email - 1)) with (O_Email + Z_Email - 1) by lia.
      rewrite nthz_upd_same by (rewrite L2; layout; lia). repeat split; try (layout; lia); try (right; reflexivity). }
    destruct ((0 <=? n) && (ml + 1 + len src <=? Z_Email)); apply Hlast.
Qed.

Lemma restore_pwd old m : len old = CFG_SIZE -> len (ncfg m) = CFG_SIZE -> email_term (ncfg m) -> pwd_ok (ncfg m) ->
  pwd_ok (ncfg (restore_password FIXED old (ncfg m) m)).
Proof.
  intros Lo Lc Ec Pk. unfold restore_password. cbv zeta.
  destruct (negb (nthz (ncfg m) O_LocationPwd =? 0)); [exact Pk|].
  pose proof (len_slice old O_LocationPwd PWD_MAX ltac:(layout; lia) ltac:(layout; lia) ltac:(rewrite Lo; layout; lia)) as Ls.
  assert (F1 : frame_ok (ncfg m) (blit (ncfg m) O_LocationPwd (slice old O_LocationPwd PWD_MAX)))
    by (apply pwd_frame; [exact Lc | lia]).
  set (c1 := blit (ncfg m) O_LocationPwd (slice old O_LocationPwd PWD_MAX)) in *.
  assert (L1 : len c1 = CFG_SIZE) by (rewrite (proj1 F1); exact Lc).
  assert (E1 : email_term c1) by exact (email_term_frame _ _ F1 Ec).
  assert (Hp1 : forall k, 0 <= k < PWD_MAX -> nthz c1 (O_LocationPwd + k) = nthz old (O_LocationPwd + k)).
  { intros k Hk. unfold c1. rewrite nthz_blit_in by (rewrite ?Lc, ?Ls; layout; lia). apply nthz_slice; layout; lia. }
  destruct (negb (strnlen (slice old O_LocationPwd PWD_MAX) PWD_MAX =? PWD_MAX)) eqn:Ep.
  - (* the old password is terminated inside its field *)
    apply negb_true_iff in Ep. apply Z.eqb_neq in Ep. simp_rec.
    pose proof (strnlen_le (slice old O_LocationPwd PWD_MAX) PWD_MAX ltac:(layout; lia)) as B.
    left. exists (strnlen (slice old O_LocationPwd PWD_MAX) PWD_MAX). split; [lia|].
    rewrite Hp1 by lia. rewrite <- (nthz_slice old O_LocationPwd PWD_MAX) by (layout; lia).
    apply strnlen_zero; [rewrite Ls; layout; lia | lia].
  - set (oldmail := strnlen (slice old O_Email Z_Email) Z_Email).
    set (newmail := strnlen (slice c1 O_Email Z_Email) Z_Email).
    pose proof (strnlen_le (slice old O_Email Z_Email) Z_Email ltac:(layout; lia)) as Bo. fold oldmail in Bo.
    pose proof (email_strnlen c1 L1 E1) as Bn1. pose proof (email_nul_at c1 L1 E1) as Zn.
    pose proof (strnlen_le (slice c1 O_Email Z_Email) Z_Email ltac:(layout; lia)) as Bn. fold newmail in Bn, Bn1, Zn.
    assert (Hfull : newmail = Z_Email - 1 -> forall c2, (forall i, pw_area i -> nthz c2 i = nthz c1 i) -> pwd_ok c2).
    { intros En c2 E. right. exists (Z_Email - 1), (Z_Email - 1). rewrite E by (right; layout; lia).
      rewrite <- En. rewrite Zn. repeat split; try lia; try (right; reflexivity). }
    destruct ((oldmail <? Z_Email) && (newmail <? Z_Email)) eqn:Eb.
    + apply andb_true_iff in Eb. destruct Eb as [Eb1 Eb2]. apply Z.ltb_lt in Eb1, Eb2.
      set (part := strnlen (slice old (O_Email + oldmail + 1) (Z_Email - oldmail - 1)) (Z_Email - oldmail - 1)).
      pose proof (strnlen_le (slice old (O_Email + oldmail + 1) (Z_Email - oldmail - 1)) (Z_Email - oldmail - 1) ltac:(lia)) as Bp.
      fold part in Bp.
      destruct (part <? Z_Email - oldmail - 1) eqn:Epp.
      * apply Z.ltb_lt in Epp. cbn [fx_clip FIXED andb].
        set (part' := if Z_Email - newmail - 1 <=? part then Z_Email - newmail - 1 - 1 else part).
        assert (Hp' : part' <= Z_Email - newmail - 2).
        { unfold part'. destruct (Z_Email - newmail - 1 <=? part) eqn:Er; [lia | apply Z.leb_gt in Er; lia]. }
        destruct (part' <? 0) eqn:Eneg.
        -- apply Z.ltb_lt in Eneg. simp_rec. apply (Hfull ltac:(unfold part' in Eneg; destruct (Z_Email - newmail - 1 <=? part); lia) c1). auto.
        -- apply Z.ltb_ge in Eneg.
           set (sl := slice old (O_Email + oldmail + 1) part').
           pose proof (len_slice_le old (O_Email + oldmail + 1) part' ltac:(layout; lia) Eneg) as Lsl. fold sl in Lsl.
           pose proof (len_nonneg sl) as Lsl0.
           assert (Lb : len (sl ++ [0]) = len sl + 1) by (rewrite len_app; reflexivity).
           assert (Hres : forall m3, pwd_ok (ncfg (set_ncfg m3 (blit c1 (O_Email + newmail + 1) (sl ++ [0]))))).
           { intros m3. simp_rec. right. exists newmail, (newmail + 1 + len sl).
             split; [lia|]. split; [lia|]. split; [|split; [|left; lia]].
             - rewrite nthz_blit_other; [exact Zn | layout; lia | rewrite L1, Lb; layout; lia | layout; lia | left; lia].
             - replace (O_Email + (newmail + 1 + len sl)) with (O_Email + newmail + 1 + len sl) by lia.
               rewrite nthz_blit_in by (rewrite ?L1, ?Lb; layout; lia). apply nthz_snoc. }
           destruct (newmail + 1 + len (sl ++ [0]) <=? Z_Email); apply Hres.
      * cbn [fx_stale FIXED andb]. destruct (newmail <? Z_Email - 1) eqn:En.
        -- apply Z.ltb_lt in En. simp_rec. right. exists newmail, (newmail + 1).
           split; [lia|]. split; [lia|]. split; [|split; [|left; lia]].
           ++ rewrite nthz_blit_other; [exact Zn | layout; lia | rewrite L1; cbn [len length Z.of_nat]; layout; lia | layout; lia | left; lia].
           ++ replace (O_Email + (newmail + 1)) with (O_Email + newmail + 1 + 0) by lia.
              rewrite nthz_blit_in by (rewrite ?L1; cbn [len length Z.of_nat]; layout; lia). reflexivity.
        -- apply Z.ltb_ge in En. simp_rec. apply (Hfull ltac:(lia) c1). auto.
    + simp_rec. left. exists (PWD_MAX - 1). split; [layout; lia|].
      replace (O_LocationPwd + (PWD_MAX - 1)) with (O_LocationPwd + PWD_MAX - 1) by lia.
      apply nthz_upd_same. rewrite L1. layout; lia.
Qed.

Lemma pwd0_rows : forallb (rowb O_LocationPwd 1 (fun _ => false)) VARTAB = true.
Proof. vm_compute. reflexivity. Qed.
Lemma pwd0_safe seg a r : opens_at seg a r -> safe_row O_LocationPwd r.
Proof.
  intros Ho. pose proof pwd0_rows as R. rewrite forallb_forall in R. specialize (R r (opens_in seg a r Ho)).
  destruct (rowb_num _ _ _ (fun _ => False) r R ltac:(intros v Hv; discriminate)) as [A B]. unfold inR in *.
  split; [intros K; apply (A K); lia | destruct B as [[]|B]; apply B; lia].
Qed.

Lemma parse_request_pwd sg seg p m : inv p m -> cur p = 0 -> nthz (ncfg m) O_LocationPwd = 0 ->
  let '(p', m') := parse_request FIXED sg seg p m in pwd_ok (ncfg m').
Proof.
  intros I Hc Hz.
  assert (P0 : forall c, nthz c O_LocationPwd = 0 -> pwd_ok c)
    by (intros c H; left; exists 0; split; [layout; lia | rewrite Z.add_0_r; exact H]).
  unfold parse_request. destruct (len seg =? 0); [apply P0; exact Hz|].
  set (pa := if step p =? STEP_TYPE_ then
               if is_prefix (s_get ++ s_url) seg then set_step p STEP_GET_ TYPE_GET_
               else if is_prefix (s_post ++ s_url) seg then set_step p STEP_POST_ TYPE_POST_ else p
             else p).
  assert (Ia : inv pa m /\ cur pa = 0).
  { unfold pa. destruct (step p =? STEP_TYPE_); [|auto].
    destruct (is_prefix (s_get ++ s_url) seg); [split; [apply inv_set_step; exact I | exact Hc]|].
    destruct (is_prefix (s_post ++ s_url) seg); [split; [apply inv_set_step; exact I | exact Hc] | auto]. }
  destruct Ia as [Ia Hca]. cbv zeta.
  set (k := if step pa =? STEP_POST_ then count_hdr_end (S (length seg)) FIXED seg 0 else 0).
  set (pb := if 0 <? k then set_step pa STEP_PARSE_VARS_ (typ pa) else pa).
  assert (Ib : inv pb m /\ cur pb = 0).
  { unfold pb. destruct (0 <? k); [split; [apply inv_set_step; exact Ia | exact Hca] | auto]. }
  destruct Ib as [Ib Hcb].
  destruct (step pb =? STEP_PARSE_VARS_); [|apply P0; exact Hz].
  destruct (len seg <? 3 * k); [simp_rec; apply P0; exact Hz|].
  set (seg' := drop (3 * k) seg).
  pose proof (proto_loop_ok seg' (S (length seg')) pb m 0 (conj Ib (or_introl Hcb)) ltac:(lia) (or_introl Hcb) ltac:(unfold len; lia)) as Pk.
  pose proof (proto_loop_shape seg' (S (length seg')) pb m 0 (or_introl Hcb)) as Ps.
  destruct (proto_loop (S (length seg')) FIXED seg' pb m 0) as [p1 m1]. destruct Pk as [I1 Hc1].
  assert (Z1 : nthz (ncfg m1) O_LocationPwd = 0).
  { destruct Ps as [_ [E|[on E]]]; rewrite E; [exact Hz|].
    unfold flag_set, set_flags. rewrite nthz_blit_other; [exact Hz | layout; lia | rewrite (i_ncfg pb m Ib), len_enc32; layout; lia | layout; lia | rewrite len_enc32; layout; lia]. }
  unfold parse_vars.
  pose proof (inv_fresh p1 m1 I1 Hc1) as If.
  pose proof (vars_loop_ok sg seg' (S (length seg')) p1 (set_temp m1 fresh_temp) 0 If ltac:(lia) (or_introl Hc1) ltac:(unfold len; lia)) as L.
  pose proof (J_loop sg seg' O_LocationPwd (ncfg m1) ltac:(layout; lia) (pwd0_safe seg') (S (length seg')) p1 (set_temp m1 fresh_temp) 0 If) as L2.
  destruct (vars_loop (S (length seg')) sg seg' p1 (set_temp m1 fresh_temp) 0) as [p' m']. destruct L as [I' Hc'].
  destruct (L2 (conj eq_refl (fun H => False_ind _ (H Hc1))) ltac:(lia)) as [Jb _].
  apply spill_pwd; [exact (i_ncfg p' m' I') | rewrite Jb; exact Z1].
Qed.

Theorem C14_password_terminated_step sg d seg : dev_ok d -> pwd_ok (dcfg d) -> pwd_ok (dcfg (fst (recv FIXED sg d seg))).
Proof.
  intros D Pd. unfold recv. cbv zeta.
  set (m0 := {| ncfg := upd (dcfg d) O_LocationPwd 0; temp := fresh_temp; cmd := dcmd d; rb := 0; flt := [] |}).
  assert (F0 : frame_ok (dcfg d) (upd (dcfg d) O_LocationPwd 0))
    by (apply frame_upd; [exact (d_len d D) | layout; lia | layout; lia]).
  assert (I0 : inv (dpv d) m0).
  { constructor; unfold m0; simp_rec.
    - exact (d_ival d D).
    - exact (d_offs d D).
    - intros H. pose proof (d_cur d D). congruence.
    - rewrite (proj1 F0). exact (d_len d D).
    - unfold fresh_temp, len. rewrite repeat_length. layout; lia.
    - exact (d_cmd d D).
    - reflexivity.
    - exists 0. unfold cell; simp_rec. split; [layout; lia|]. split; [intros; lia|]. split.
      + intros j Hj. unfold fresh_temp. apply nth_error_repeat. lia.
      + right. split; [left; exact (d_cur d D) | left; reflexivity].
    - right. exact (email_term_frame _ _ F0 (d_email d D)). }
  assert (Z0 : nthz (ncfg m0) O_LocationPwd = 0) by (unfold m0; simp_rec; apply nthz_upd_same; rewrite (d_len d D); layout; lia).
  pose proof (parse_request_ok sg seg (dpv d) m0 I0 (d_cur d D)) as Pk.
  pose proof (parse_request_pwd sg seg (dpv d) m0 I0 (d_cur d D) Z0) as Pp.
  destruct (parse_request FIXED sg seg (dpv d) m0) as [p m]. destruct Pk as [I Hc].
  destruct (typ p =? TYPE_UNKNOWN_); [exact Pd|].
  destruct (typ p =? TYPE_POST_); [|exact Pd].
  destruct (matched p <? 4); [exact Pd|].
  destruct ((0 <? char_val sg (rb m)) && negb (char_val sg (rb m) =? 2)); [exact Pd|].
  cbn [fst dcfg].
  pose proof (restore_pwd (dcfg d) m (d_len d D) (i_ncfg p m I) (inv_email p m I Hc) Pp) as Pr.
  pose proof (restore_password_ok (dcfg d) m (d_len d D) (d_email d D) (i_ncfg p m I) (inv_email p m I Hc)) as Rk.
  cbv zeta in Rk. destruct Rk as [_ [_ [R3 _]]].
  set (c := ncfg (restore_password FIXED (dcfg d) (ncfg m) m)) in *.
  destruct (nthz c O_WIFI_PWD =? 0); [|exact Pr].
  apply (pwd_ext c); [|exact Pr]. intros j Hj.
  assert (Ls : len (slice (dcfg d) O_WIFI_PWD Z_WIFI_PWD) = Z_WIFI_PWD) by (apply len_slice; rewrite ?(d_len d D); layout; lia).
  apply nthz_blit_other; [layout; lia | rewrite Ls, R3; layout; lia | unfold pw_area in Hj; layout; lia | rewrite Ls; unfold pw_area in Hj; layout; lia].
Qed.

Theorem C14_password_terminated_thm : forall sg segs d, dev_ok d -> pwd_ok (dcfg d) ->
  pwd_ok (dcfg (fst (recv_all FIXED sg d segs))).
Proof.
  intros sg segs. induction segs as [|s r IH]; intros d D Pd; cbn [recv_all]; [exact Pd|].
  pose proof (recv_ok sg d s D) as R. pose proof (C14_password_terminated_step sg d s D Pd) as R2.
  destruct (recv FIXED sg d s) as [d1 x]. cbn [fst] in R2. destruct R as [_ R1].
  specialize (IH d1 R1 R2). destruct (recv_all FIXED sg d1 r) as [d2 xs]. exact IH.
Qed.

(* ====================================================================================== *)
(* A request without pwd= / mwd= keeps the Password field                                  *)
(* ====================================================================================== *)
Definition temp_none (m : mem) : Prop := forall i, 0 <= i < TEMP_SIZE -> cell m i = Some None.
Definition K0 (p : pvars) (m : mem) : Prop := temp_none m /\ (cur p <> 0 -> tk p <> 2).

Lemma K0_store p m j v : inv p m -> cur p <> 0 -> 0 <= j < bsize p -> tk p <> 2 ->
  temp (snd (store p m j v)) = temp m.
Proof.
  intros I Hc Hj Hk.
  destruct (store_spec p m j v I Hc Hj) as [[_ [E _]]|[[_ [E _]]|[[K _]|[_ [c [_ [E _]]]]]]]; try congruence; rewrite E; reflexivity.
Qed.

Lemma K0_loop sg s : (forall a r, opens_at s a r -> nthz r 5 <> 2) -> forall fuel p m a, inv p m -> K0 p m -> 0 <= a ->
  let '(p', m') := vars_loop fuel sg s p m a in K0 p' m'.
Proof.
  intros Hs. apply g_vars_loop.
  - intros p m m' [Kt Kc] _ E. split; [unfold temp_none, cell in *; rewrite E; exact Kt | exact Kc].
  - intros p m o Hc [Kt Kc]. split; [exact Kt | intros H; simp_rec; congruence].
  - intros p m a r Hc Ha H4 H61 F _ [Kt _]. split; [exact Kt|]. intros _. simp_rec.
    exact (Hs a r (conj Ha (conj H4 (conj H61 F)))).
  - intros p m v I Hc Ho [Kt Kc]. pose proof (i_offs p m I). specialize (Kc Hc). unfold fill.
    pose proof (K0_store p m (offs p) v I Hc ltac:(lia) Kc) as E.
    pose proof (store_same_p p m (offs p) v I Hc ltac:(lia)) as Sp. cbv zeta in Sp.
    destruct (store p m (offs p) v) as [p' m']. cbn [fst snd] in *. destruct Sp as [_ [B _]].
    split; [unfold temp_none, cell in *; rewrite E; exact Kt | intros _; simp_rec; congruence].
  - intros p m I Hc [Kt Kc]. pose proof (i_offs p m I) as Hoff. destruct (i_tgt p m I Hc) as [Hb _]. specialize (Kc Hc).
    unfold terminate.
    set (j := if offs p <? bsize p then offs p else bsize p - 1).
    assert (Hj : 0 <= j < bsize p) by (unfold j; destruct (offs p <? bsize p) eqn:E; [apply Z.ltb_lt in E|]; lia).
    replace (if offs p <? bsize p then store p m (offs p) 0 else store p m (bsize p - 1) 0) with (store p m j 0)
      by (unfold j; destruct (offs p <? bsize p); reflexivity).
    pose proof (K0_store p m j 0 I Hc Hj Kc) as E.
    destruct (store p m j 0) as [p3 m3]. cbn [fst snd] in *.
    split; [|intros H; simp_rec; congruence].
    unfold temp_none, cell in *. rewrite (proj1 (action_rest sg p3 m3)), E. exact Kt.
Qed.

Lemma spill_noop m : temp_none m -> len (temp m) = TEMP_SIZE -> ncfg (spill FIXED m) = ncfg m.
Proof.
  intros Kt Lt. unfold spill. cbn [fx_temp FIXED].
  destruct (temp m) as [|x r] eqn:Et; [rewrite len_nil in Lt; layout; lia|].
  pose proof (Kt 0 ltac:(layout; lia)) as H0. unfold cell in H0. rewrite Et in H0. cbn in H0. inversion H0; subst x.
  cbn [nth_error]. unfold tget. simp_rec. cbn [nth_error Z.to_nat]. cbn [Z.eqb]. reflexivity.
Qed.

(* ====================================================================================== *)
(* pwd= / mwd= submitted empty keeps the Password field                                    *)
(* ====================================================================================== *)
(* every recognised pwd=/mwd= of the segment has an empty value: end of the segment or '&' follows *)
Definition empty_pwds (s : list Z) : Prop :=
  forall a r, opens_at s a r -> nthz r 5 = 2 -> (len s <= a + 4 \/ rd s (a + 4) = 38).
Definition K1 (p : pvars) (m : mem) : Prop :=
  ((cell m 0 = Some None \/ cell m 0 = Some (Some 0)) /\ forall i, 1 <= i < TEMP_SIZE -> cell m i = Some None) /\
  (cur p <> 0 -> tk p <> 2).

Lemma K1_mem p m m' : K1 p m -> temp m' = temp m -> K1 p m'.
Proof. intros [[A B] C] E. unfold K1, cell in *. rewrite E. auto. Qed.

Section EmptyPwd.
  Variables (sg : bool) (s : list Z).
  Hypothesis Hs : empty_pwds s.

  (* the parts of the generic framework that hold for K1 as long as no tempPassword variable is open *)
  Lemma K1_fill p m v : inv p m -> cur p <> 0 -> offs p < bsize p -> K1 p m -> K1 (fst (fill p m v)) (snd (fill p m v)).
  Proof.
    intros I Hc Ho [Kt Kc]. pose proof (i_offs p m I). specialize (Kc Hc). unfold fill.
    pose proof (K0_store p m (offs p) v I Hc ltac:(lia) Kc) as E.
    pose proof (store_same_p p m (offs p) v I Hc ltac:(lia)) as Sp. cbv zeta in Sp.
    destruct (store p m (offs p) v) as [p' m']. cbn [fst snd] in *. destruct Sp as [_ [B _]].
    split; [unfold cell in *; rewrite E; exact Kt | intros _; simp_rec; congruence].
  Qed.
  Lemma K1_close p m : inv p m -> cur p <> 0 -> K1 p m ->
    K1 (close_var (fst (terminate p m))) (action sg (fst (terminate p m)) (snd (terminate p m))).
  Proof.
    intros I Hc [Kt Kc]. pose proof (i_offs p m I) as Hoff. destruct (i_tgt p m I Hc) as [Hb _]. specialize (Kc Hc).
    unfold terminate.
    set (j := if offs p <? bsize p then offs p else bsize p - 1).
    assert (Hj : 0 <= j < bsize p) by (unfold j; destruct (offs p <? bsize p) eqn:E; [apply Z.ltb_lt in E|]; lia).
    replace (if offs p <? bsize p then store p m (offs p) 0 else store p m (bsize p - 1) 0) with (store p m j 0)
      by (unfold j; destruct (offs p <? bsize p); reflexivity).
    pose proof (K0_store p m j 0 I Hc Hj Kc) as E.
    destruct (store p m j 0) as [p3 m3]. cbn [fst snd] in *.
    split; [|intros H; simp_rec; congruence].
    unfold cell in *. rewrite (proj1 (action_rest sg p3 m3)), E. exact Kt.
  Qed.

  (* a tempPassword variable that opens with an empty value is closed in the same iteration: only its terminator is written *)
  Lemma K1_body p m a : inv p m -> K1 p m -> 0 <= a < len s ->
    let '(a', p', m') := vars_body sg s p m a in K1 p' m'.
  Proof.
    intros I Hk Ha. unfold vars_body.
    pose proof (vb_open_ok s p m a I Ha) as O.
    (* what vb_open did *)
    assert (Ho : let '(p1, m1, a1) := vb_open s p m a in
                 K1 p1 m1 \/
                 (cur p1 <> 0 /\ tk p1 = 2 /\ offs p1 = 0 /\ a1 = a + 4 /\ (len s <= a1 \/ rd s a1 = 38) /\
                  temp m1 = temp m)).
    { unfold vb_open. destruct (cur p =? 0) eqn:Ec; [|left; exact Hk]. apply Z.eqb_eq in Ec.
      destruct (4 <=? len s - a) eqn:E4; [|left; exact Hk]. apply Z.leb_le in E4. cbv zeta. rewrite !chk_in by lia.
      destruct (rd s (a + 3) =? 61) eqn:E61; [|left; exact Hk]. apply Z.eqb_eq in E61.
      destruct (find_var (rd s a) (rd s (a + 1)) (rd s (a + 2))) as [r|] eqn:F.
      - set (m0 := if nthz r 5 =? 3 then match cmd m with None => set_cmd m (Some (zeros CMD_SIZE)) | Some _ => m end else m).
        assert (E0 : temp m0 = temp m) by (unfold m0; destruct (nthz r 5 =? 3); [destruct (cmd m)|]; reflexivity).
        destruct (guard_ok r (ncfg m)).
        + destruct (Z.eq_dec (nthz r 5) 2) as [K2|K2].
          * right. simp_rec. pose proof (find_var_ok _ _ _ _ F) as R. unfold row_okb in R. cbv zeta in R.
            rewrite !andb_true_iff in R. destruct R as [[_ R0] _]. apply negb_true_iff in R0. apply Z.eqb_neq in R0.
            repeat split; auto. exact (Hs a r (conj (proj1 Ha) (conj E4 (conj E61 F))) K2).
          * left. destruct Hk as [Kt _]. split; [unfold cell in *; rewrite E0; exact Kt | intros _; simp_rec; exact K2].
        + left. destruct Hk as [Kt _]. split; [unfold cell in *; rewrite E0; exact Kt | intros H; simp_rec; congruence].
      - left. destruct Hk as [Kt _]. split; [exact Kt | intros H; simp_rec; congruence]. }
    destruct (vb_open s p m a) as [[p1 m1] a1]. destruct O as [I1 [Ha1 _]].
    destruct (cur p1 =? 0) eqn:Ec.
    { destruct Ho as [Ho|[Hc1 _]]; [exact Ho | apply Z.eqb_eq in Ec; congruence]. }
    apply Z.eqb_neq in Ec.
    destruct Ho as [Ho|[_ [Tk [Of [Ea [Hem Et]]]]]].
    - (* the ordinary case: the generic lemmas *)
      pose proof (vb_fill_ok s p1 m1 a1 I1 Ec ltac:(lia)) as Fl.
      pose proof (g_fill s K1 K1_fill p1 m1 a1 I1 Ho Ec ltac:(lia)) as Fl2.
      destruct (vb_fill s p1 m1 a1) as [[p2 m2] a2]. destruct Fl as [I2' [Hc2 Ha2]].
      apply (g_close sg s K1 K1_close); [exact I2' | exact Fl2 | congruence | lia].
    - (* a password variable with an empty value *)
      destruct (i_tgt p1 m1 I1 Ec) as [Hb1 T1].
      assert (B1 : bsize p1 <= TEMP_SIZE) by (destruct T1 as [[K _]|[[K _]|[[_ B]|[K _]]]]; try congruence; exact B).
      assert (Efill : vb_fill s p1 m1 a1 = (p1, m1, a1)).
      { unfold vb_fill. destruct ((offs p1 <? bsize p1) && (a1 <? len s)) eqn:E; [|reflexivity].
        apply andb_true_iff in E. destruct E as [_ E]. apply Z.ltb_lt in E. cbv zeta. rewrite (chk_in s a1 m1) by lia.
        destruct Hem as [Hem|Hem]; [lia|]. rewrite Hem. reflexivity. }
      rewrite Efill.
      assert (Ecl : vb_close sg s p1 m1 a1 = (let '(p3, m3) := terminate p1 m1 in (a1 + 1, close_var p3, action sg p3 m3))).
      { unfold vb_close. replace (bsize p1 <=? offs p1) with false by (symmetry; apply Z.leb_gt; lia).
        destruct (len s - 1 <=? a1) eqn:E; [reflexivity|]. apply Z.leb_gt in E. cbv zeta. rewrite chk_in by lia.
        destruct Hem as [Hem|Hem]; [lia|]. rewrite Hem. reflexivity. }
      rewrite Ecl.
      pose proof (term_ok p1 m1 I1 Ec) as T. unfold terminate in *.
      replace (offs p1 <? bsize p1) with true in * by (symmetry; apply Z.ltb_lt; lia).
      destruct (store_spec p1 m1 (offs p1) 0 I1 Ec ltac:(lia)) as [[K _]|[[K _]|[[_ [E _]]|[K _]]]]; try congruence.
      rewrite E in *. destruct T as [T1' _].
      split; [|intros H; simp_rec; congruence].
      destruct Hk as [[K0a K0b] _]. unfold cell in *. rewrite (proj1 (action_rest sg p1 _)). simp_rec. rewrite Of, Et.
      pose proof (i_temp p m I) as Lt.
      split.
      + right. apply nth_error_upd_same. rewrite Lt. layout; lia.
      + intros i Hi. rewrite nth_error_upd_other by (rewrite ?Lt; layout; lia). apply K0b. exact Hi.
  Qed.

  Lemma K1_loop : forall fuel p m a, inv p m -> K1 p m -> 0 <= a ->
    let '(p', m') := vars_loop fuel sg s p m a in K1 p' m'.
  Proof.
    induction fuel as [|f IH]; intros p m a I Hk Ha; cbn [vars_loop]; [exact Hk|].
    destruct (a <? len s) eqn:E; [|exact Hk]. apply Z.ltb_lt in E.
    pose proof (vars_body_ok sg s p m a I ltac:(lia)) as B. pose proof (K1_body p m a I Hk ltac:(lia)) as B2.
    destruct (vars_body sg s p m a) as [[a' p'] m']. destruct B as [I' [Ha' _]]. apply IH; [exact I' | exact B2 | lia].
  Qed.
End EmptyPwd.

Lemma spill_noop1 p m : K1 p m -> len (temp m) = TEMP_SIZE -> ncfg (spill FIXED m) = ncfg m.
Proof.
  intros [[K0a _] _] Lt. unfold spill. cbn [fx_temp FIXED].
  destruct (temp m) as [|x r] eqn:Et; [rewrite len_nil in Lt; layout; lia|].
  unfold cell in K0a. rewrite Et in K0a. cbn in K0a.
  destruct K0a as [H0|H0]; inversion H0; subst x; cbn [nth_error]; unfold tget; simp_rec; rewrite ?Et;
    cbn [nth_error Z.to_nat]; cbn [Z.eqb]; reflexivity.
Qed.

Lemma empty_pwds_drop seg k : 0 <= k <= len seg -> empty_pwds seg -> empty_pwds (drop k seg).
Proof.
  intros Hk H a r Ho K2. pose proof (H (k + a) r (opens_at_drop seg k a r Hk Ho) K2) as E.
  destruct Ho as [Ha _]. rewrite len_drop by lia. rewrite rd_drop by lia.
  replace (k + (a + 4)) with (k + a + 4) by lia. lia.
Qed.

Theorem C14_empty_password_kept_thm : forall sg d seg i,
  dev_ok d -> O_LocationPwd <= i < O_LocationPwd + PWD_MAX ->
  empty_pwds seg ->
  nthz (dcfg (fst (recv FIXED sg d seg))) i = nthz (dcfg d) i.
Proof.
  intros sg d seg i D Hi Hrows. unfold recv. cbv zeta.
  set (m0 := {| ncfg := upd (dcfg d) O_LocationPwd 0; temp := fresh_temp; cmd := dcmd d; rb := 0; flt := [] |}).
  assert (F0 : frame_ok (dcfg d) (upd (dcfg d) O_LocationPwd 0))
    by (apply frame_upd; [exact (d_len d D) | layout; lia | layout; lia]).
  assert (I0 : inv (dpv d) m0).
  { constructor; unfold m0; simp_rec.
    - exact (d_ival d D).
    - exact (d_offs d D).
    - intros H. pose proof (d_cur d D). congruence.
    - rewrite (proj1 F0). exact (d_len d D).
    - unfold fresh_temp, len. rewrite repeat_length. layout; lia.
    - exact (d_cmd d D).
    - reflexivity.
    - exists 0. unfold cell; simp_rec. split; [layout; lia|]. split; [intros; lia|]. split.
      + intros j Hj. unfold fresh_temp. apply nth_error_repeat. lia.
      + right. split; [left; exact (d_cur d D) | left; reflexivity].
    - right. exact (email_term_frame _ _ F0 (d_email d D)). }
  assert (Z0 : nthz (ncfg m0) O_LocationPwd = 0) by (unfold m0; simp_rec; apply nthz_upd_same; rewrite (d_len d D); layout; lia).
  (* through the request: the first byte of the candidate Password stays 0 *)
  assert (Zm : let '(p, m) := parse_request FIXED sg seg (dpv d) m0 in nthz (ncfg m) O_LocationPwd = 0).
  { clear Hi. unfold parse_request. destruct (len seg =? 0); [exact Z0|].
    set (pa := if step (dpv d) =? STEP_TYPE_ then
                 if is_prefix (s_get ++ s_url) seg then set_step (dpv d) STEP_GET_ TYPE_GET_
                 else if is_prefix (s_post ++ s_url) seg then set_step (dpv d) STEP_POST_ TYPE_POST_ else dpv d
               else dpv d).
    assert (Ia : inv pa m0 /\ cur pa = 0).
    { unfold pa. destruct (step (dpv d) =? STEP_TYPE_); [|split; [exact I0 | exact (d_cur d D)]].
      destruct (is_prefix (s_get ++ s_url) seg); [split; [apply inv_set_step; exact I0 | exact (d_cur d D)]|].
      destruct (is_prefix (s_post ++ s_url) seg); [split; [apply inv_set_step; exact I0 | exact (d_cur d D)] | split; [exact I0 | exact (d_cur d D)]]. }
    destruct Ia as [Ia Hca]. cbv zeta.
    set (k := if step pa =? STEP_POST_ then count_hdr_end (S (length seg)) FIXED seg 0 else 0).
    assert (Hk : k = 0 \/ (k = 1 /\ 4 <= len seg)).
    { unfold k. destruct (step pa =? STEP_POST_); [apply count_fixed; lia | left; reflexivity]. }
    set (pb := if 0 <? k then set_step pa STEP_PARSE_VARS_ (typ pa) else pa).
    assert (Ib : inv pb m0 /\ cur pb = 0).
    { unfold pb. destruct (0 <? k); [split; [apply inv_set_step; exact Ia | exact Hca] | auto]. }
    destruct Ib as [Ib Hcb].
    destruct (step pb =? STEP_PARSE_VARS_); [|exact Z0].
    destruct (len seg <? 3 * k) eqn:El; [simp_rec; exact Z0|]. apply Z.ltb_ge in El.
    assert (Hk3 : 0 <= 3 * k <= len seg) by (pose proof (len_nonneg seg); clearbody k; lia).
    set (seg' := drop (3 * k) seg).
    pose proof (proto_loop_ok seg' (S (length seg')) pb m0 0 (conj Ib (or_introl Hcb)) ltac:(lia) (or_introl Hcb) ltac:(unfold len; lia)) as Pk.
    pose proof (proto_loop_shape seg' (S (length seg')) pb m0 0 (or_introl Hcb)) as Ps.
    destruct (proto_loop (S (length seg')) FIXED seg' pb m0 0) as [p1 m1]. destruct Pk as [I1 Hc1].
    assert (Z1 : nthz (ncfg m1) O_LocationPwd = 0).
    { destruct Ps as [_ [E|[on E]]]; rewrite E; [exact Z0|].
      unfold flag_set, set_flags. rewrite nthz_blit_other; [exact Z0 | layout; lia | rewrite (i_ncfg pb m0 Ib), len_enc32; layout; lia | layout; lia | rewrite len_enc32; layout; lia]. }
    unfold parse_vars.
    pose proof (inv_fresh p1 m1 I1 Hc1) as If.
    pose proof (vars_loop_ok sg seg' (S (length seg')) p1 (set_temp m1 fresh_temp) 0 If ltac:(lia) (or_introl Hc1) ltac:(unfold len; lia)) as L.
    pose proof (J_loop sg seg' O_LocationPwd (ncfg m1) ltac:(layout; lia) (pwd0_safe seg') (S (length seg')) p1 (set_temp m1 fresh_temp) 0 If) as L2.
    pose proof (K1_loop sg seg' (empty_pwds_drop seg (3 * k) Hk3 Hrows) (S (length seg')) p1 (set_temp m1 fresh_temp) 0 If) as L3.
    destruct (vars_loop (S (length seg')) sg seg' p1 (set_temp m1 fresh_temp) 0) as [p' m']. destruct L as [I' Hc'].
    destruct (L2 (conj eq_refl (fun H => False_ind _ (H Hc1))) ltac:(lia)) as [Jb _].
    assert (K00 : K1 p1 (set_temp m1 fresh_temp)).
    { split; [|intros H; congruence]. unfold cell; simp_rec. unfold fresh_temp.
      split; [left; apply nth_error_repeat; layout; lia | intros j Hj; apply nth_error_repeat; lia]. }
    pose proof (L3 K00 ltac:(lia)) as Kt.
    rewrite (spill_noop1 p' m' Kt (i_temp p' m' I')). rewrite Jb. exact Z1. }
  pose proof (parse_request_ok sg seg (dpv d) m0 I0 (d_cur d D)) as Pk.
  destruct (parse_request FIXED sg seg (dpv d) m0) as [p m]. destruct Pk as [I Hc].
  destruct (typ p =? TYPE_UNKNOWN_); [reflexivity|].
  destruct (typ p =? TYPE_POST_); [|reflexivity].
  destruct (matched p <? 4); [reflexivity|].
  destruct ((0 <? char_val sg (rb m)) && negb (char_val sg (rb m) =? 2)); [reflexivity|].
  cbn [fst dcfg].
  pose proof (restore_password_ok (dcfg d) m (d_len d D) (d_email d D) (i_ncfg p m I) (inv_email p m I Hc)) as Rk.
  cbv zeta in Rk. destruct Rk as [_ [_ [R3 _]]].
  assert (Er : nthz (ncfg (restore_password FIXED (dcfg d) (ncfg m) m)) i = nthz (dcfg d) i).
  { unfold restore_password. cbv zeta. rewrite Zm. change (negb (0 =? 0)) with false. cbv iota.
    pose proof (len_slice (dcfg d) O_LocationPwd PWD_MAX ltac:(layout; lia) ltac:(layout; lia) ltac:(rewrite (d_len d D); layout; lia)) as Ls.
    pose proof (i_ncfg p m I) as Lc.
    assert (F1 : frame_ok (ncfg m) (blit (ncfg m) O_LocationPwd (slice (dcfg d) O_LocationPwd PWD_MAX)))
      by (apply pwd_frame; [exact Lc | lia]).
    set (c1 := blit (ncfg m) O_LocationPwd (slice (dcfg d) O_LocationPwd PWD_MAX)) in *.
    assert (L1 : len c1 = CFG_SIZE) by (rewrite (proj1 F1); exact Lc).
    assert (E1 : email_term c1) by exact (email_term_frame _ _ F1 (inv_email p m I Hc)).
    assert (Hp1 : nthz c1 i = nthz (dcfg d) i).
    { unfold c1. replace i with (O_LocationPwd + (i - O_LocationPwd)) at 1 by lia.
      rewrite nthz_blit_in by (rewrite ?Lc, ?Ls; layout; lia). rewrite nthz_slice by (layout; lia). f_equal. lia. }
    destruct (negb (strnlen (slice (dcfg d) O_LocationPwd PWD_MAX) PWD_MAX =? PWD_MAX)); [simp_rec; exact Hp1|].
    pose proof (email_strnlen (dcfg d) (d_len d D) (d_email d D)) as Bo1. pose proof (email_strnlen c1 L1 E1) as Bn1.
    set (oldmail := strnlen (slice (dcfg d) O_Email Z_Email) Z_Email) in *.
    set (newmail := strnlen (slice c1 O_Email Z_Email) Z_Email) in *.
    pose proof (strnlen_le (slice (dcfg d) O_Email Z_Email) Z_Email ltac:(layout; lia)) as Bo. fold oldmail in Bo.
    pose proof (strnlen_le (slice c1 O_Email Z_Email) Z_Email ltac:(layout; lia)) as Bn. fold newmail in Bn.
    replace ((oldmail <? Z_Email) && (newmail <? Z_Email)) with true
      by (symmetry; apply andb_true_iff; split; apply Z.ltb_lt; lia).
    set (part := strnlen (slice (dcfg d) (O_Email + oldmail + 1) (Z_Email - oldmail - 1)) (Z_Email - oldmail - 1)).
    pose proof (strnlen_le (slice (dcfg d) (O_Email + oldmail + 1) (Z_Email - oldmail - 1)) (Z_Email - oldmail - 1) ltac:(lia)) as Bp.
    fold part in Bp.
    destruct (part <? Z_Email - oldmail - 1) eqn:Epp.
    - apply Z.ltb_lt in Epp. cbn [fx_clip FIXED andb].
      set (part' := if Z_Email - newmail - 1 <=? part then Z_Email - newmail - 1 - 1 else part).
      assert (Hp' : part' <= Z_Email - newmail - 2).
      { unfold part'. destruct (Z_Email - newmail - 1 <=? part) eqn:Er; [lia | apply Z.leb_gt in Er; lia]. }
      destruct (part' <? 0) eqn:Eneg; [simp_rec; exact Hp1|]. apply Z.ltb_ge in Eneg.
      set (sl := slice (dcfg d) (O_Email + oldmail + 1) part').
      pose proof (len_slice_le (dcfg d) (O_Email + oldmail + 1) part' ltac:(layout; lia) Eneg) as Lsl. fold sl in Lsl.
      pose proof (len_nonneg sl) as Lsl0.
      assert (Lb : len (sl ++ [0]) = len sl + 1) by (rewrite len_app; reflexivity).
      destruct (newmail + 1 + len (sl ++ [0]) <=? Z_Email); simp_rec;
        (etransitivity; [apply nthz_blit_other; [layout; lia | rewrite L1, Lb; layout; lia | layout; lia | right; rewrite Lb; layout; lia] | exact Hp1]).
    - cbn [fx_stale FIXED andb]. destruct (newmail <? Z_Email - 1) eqn:En; [|simp_rec; exact Hp1].
      apply Z.ltb_lt in En. simp_rec.
      etransitivity; [apply nthz_blit_other; [layout; lia | rewrite L1; cbn [len length Z.of_nat]; layout; lia | layout; lia | right; cbn [len length Z.of_nat]; layout; lia] | exact Hp1]. }
  set (c := ncfg (restore_password FIXED (dcfg d) (ncfg m) m)) in *.
  destruct (nthz c O_WIFI_PWD =? 0); [|exact Er].
  assert (Ls : len (slice (dcfg d) O_WIFI_PWD Z_WIFI_PWD) = Z_WIFI_PWD) by (apply len_slice; rewrite ?(d_len d D); layout; lia).
  rewrite nthz_blit_other; [exact Er | layout; lia | rewrite Ls, R3; layout; lia | layout; lia | rewrite Ls; layout; lia].
Qed.


(* the special case: no pwd=/mwd= is recognised at all *)
Theorem C14_absent_password_kept_thm : forall sg d seg i,
  dev_ok d -> O_LocationPwd <= i < O_LocationPwd + PWD_MAX ->
  (forall a r, opens_at seg a r -> nthz r 5 <> 2) ->
  nthz (dcfg (fst (recv FIXED sg d seg))) i = nthz (dcfg d) i.
Proof.
  intros sg d seg i D Hi H. apply C14_empty_password_kept_thm; [exact D | exact Hi|].
  intros a r Ho K2. exfalso. exact (H a r Ho K2).
Qed.

(* ---------- statements used by Properties_C14.v ---------- *)
Theorem C14_writes_inside_record_thm : forall sg segs d, dev_ok d ->
  Forall (fun r => ~ In 3 (faults r)) (snd (recv_all FIXED sg d segs)) /\
  len (dcfg (fst (recv_all FIXED sg d segs))) = CFG_SIZE.
Proof.
  intros sg segs d D. pose proof (C14_no_fault_thm sg segs d D) as H.
  destruct (recv_all FIXED sg d segs) as [d' rs]. destruct H as [H1 H2]. cbn [fst snd]. split; [|exact (d_len d' H2)].
  apply Forall_forall. intros r Hr. rewrite Forall_forall in H1. rewrite (H1 r Hr). intros [].
Qed.
Theorem C14_numeric_ranges_thm : forall sg d seg, dev_ok d ->
  let c' := dcfg (fst (recv FIXED sg d seg)) in
  ((forall a r, opens_at seg a r -> nthz r 0 <> VAR_LID) -> port_of c' = port_of (dcfg d) \/ 1 <= port_of c' <= 65535) /\
  (nthz c' O_MqttQoS = nthz (dcfg d) O_MqttQoS \/ 0 <= nthz c' O_MqttQoS <= 2) /\
  (forall k, 0 <= k < 4 ->
     nthz c' (O_AdditionalTimeMargin + k) = nthz (dcfg d) (O_AdditionalTimeMargin + k) \/
     -1 <= s8 (nthz c' (O_AdditionalTimeMargin + k)) <= 100).
Proof.
  intros sg d seg D. cbv zeta. split; [intros H; exact (C14_port_range_thm sg d seg D H)|].
  split; [exact (C14_qos_range_thm sg d seg D) | intros k Hk; exact (C14_margin_range_thm sg d seg k D Hk)].
Qed.

(* the additional hypotheses are satisfiable: the blank device *)
Lemma dev0_ok2 : dev_ok2 {| dcfg := zeros CFG_SIZE; dcmd := None; dpv := pv0 |} /\ pwd_ok (zeros CFG_SIZE).
Proof.
  split.
  - intros F HF. exists 0. pose proof (TF4_bounds F HF). split; [lia|]. cbn [dcfg]. in_tf4 HF; vm_compute; reflexivity.
  - left. exists 0. split; [layout; lia | vm_compute; reflexivity].
Qed.

(* ====================================================================================== *)
(* wpw= submitted empty keeps the Wi-Fi password                                           *)
(* ====================================================================================== *)
Definition in_wifi (i : Z) : Prop := O_WIFI_PWD <= i < O_WIFI_PWD + Z_WIFI_PWD.
Definition hits_wifi (r : list Z) : Prop :=
  nthz r 5 = 0 /\ ~ (nthz r 6 + nthz r 4 <= O_WIFI_PWD \/ O_WIFI_PWD + Z_WIFI_PWD <= nthz r 6).
(* every recognised field whose destination is WIFI_PWD (that is: wpw=) has an empty value *)
Definition empty_wifi (s : list Z) : Prop :=
  forall a r, opens_at s a r -> hits_wifi r -> (len s <= a + 4 \/ rd s (a + 4) = 38).
Definition safeW (p : pvars) : Prop := tk p = 0 -> (toff p + bsize p <= O_WIFI_PWD \/ O_WIFI_PWD + Z_WIFI_PWD <= toff p).
Definition Wk (c0 : list Z) (m : mem) : Prop :=
  (forall i, in_wifi i -> i <> O_WIFI_PWD -> nthz (ncfg m) i = nthz c0 i) /\
  (nthz (ncfg m) O_WIFI_PWD = nthz c0 O_WIFI_PWD \/ nthz (ncfg m) O_WIFI_PWD = 0).
Definition W (c0 : list Z) (p : pvars) (m : mem) : Prop := Wk c0 m /\ (cur p <> 0 -> safeW p).

Lemma wifi_rows : forallb (fun r => negb (nthz r 5 =? 0) || (nthz r 6 + nthz r 4 <=? O_WIFI_PWD) || (O_WIFI_PWD + Z_WIFI_PWD <=? nthz r 6)
                                  || ((nthz r 6 =? O_WIFI_PWD) && (nthz r 4 =? Z_WIFI_PWD))) VARTAB = true.
Proof. vm_compute. reflexivity. Qed.
Lemma hits_wifi_row r : In r VARTAB -> hits_wifi r -> nthz r 6 = O_WIFI_PWD /\ nthz r 4 = Z_WIFI_PWD.
Proof.
  intros Hin [K N]. pose proof wifi_rows as R. rewrite forallb_forall in R. specialize (R r Hin).
  rewrite !orb_true_iff, negb_true_iff, Z.eqb_neq, !Z.leb_le, andb_true_iff, !Z.eqb_eq in R. 
  destruct R as [[[R|R]|R]|R]; [congruence | exfalso; apply N; auto | exfalso; apply N; auto | exact R].
Qed.

Lemma Wk_same c0 m m' : ncfg m' = ncfg m -> Wk c0 m -> Wk c0 m'.
Proof. intros E [A B]. unfold Wk. rewrite E. auto. Qed.
Lemma Wk_unch c0 m m' : (forall i, in_wifi i -> nthz (ncfg m') i = nthz (ncfg m) i) -> Wk c0 m -> Wk c0 m'.
Proof.
  intros E [A B]. split.
  - intros i Hi Hn. rewrite E by exact Hi. auto.
  - rewrite E by (unfold in_wifi; layout; lia). exact B.
Qed.

Section EmptyWifi.
  Variables (sg : bool) (s : list Z) (c0 : list Z).
  Hypothesis Hs : empty_wifi s.

  Lemma W_fill p m v : inv p m -> cur p <> 0 -> offs p < bsize p -> W c0 p m -> W c0 (fst (fill p m v)) (snd (fill p m v)).
  Proof.
    intros I Hc Ho [Wm Ws]. pose proof (i_offs p m I). specialize (Ws Hc). unfold fill.
    assert (S : forall i, in_wifi i -> nthz (ncfg (snd (store p m (offs p) v))) i = nthz (ncfg m) i).
    { intros i Hi. apply store_keep; [exact I | exact Hc | lia | unfold in_wifi in Hi; layout; lia |].
      intros K. specialize (Ws K). unfold in_wifi in Hi. lia. }
    pose proof (store_same_p p m (offs p) v I Hc ltac:(lia)) as E. cbv zeta in E.
    destruct (store p m (offs p) v) as [p' m']. cbn [fst snd] in *. destruct E as [_ [B [C D]]].
    split; [apply (Wk_unch c0 m); assumption|]. intros _. unfold safeW in *. simp_rec. rewrite B, C, D. exact Ws.
  Qed.
  Lemma W_close p m : inv p m -> cur p <> 0 -> W c0 p m ->
    W c0 (close_var (fst (terminate p m))) (action sg (fst (terminate p m)) (snd (terminate p m))).
  Proof.
    intros I Hc [Wm Ws]. pose proof (i_offs p m I) as Hoff. destruct (i_tgt p m I Hc) as [Hb _]. specialize (Ws Hc).
    pose proof (term_ok p m I Hc) as T. unfold terminate in *.
    set (j := if offs p <? bsize p then offs p else bsize p - 1).
    assert (Hj : 0 <= j < bsize p) by (unfold j; destruct (offs p <? bsize p) eqn:E; [apply Z.ltb_lt in E|]; lia).
    replace (if offs p <? bsize p then store p m (offs p) 0 else store p m (bsize p - 1) 0) with (store p m j 0) in *
      by (unfold j; destruct (offs p <? bsize p); reflexivity).
    assert (S : forall i, in_wifi i -> nthz (ncfg (snd (store p m j 0))) i = nthz (ncfg m) i).
    { intros i Hi. apply store_keep; [exact I | exact Hc | exact Hj | unfold in_wifi in Hi; layout; lia |].
      intros K. specialize (Ws K). unfold in_wifi in Hi. lia. }
    destruct (store p m j 0) as [p3 m3]. cbn [fst snd] in *. destruct T as [T1 _].
    split; [|intros H; simp_rec; congruence].
    apply (Wk_unch c0 m); [|exact Wm]. intros i Hi. rewrite <- (S i Hi).
    apply action_unch; [exact (i_ncfg _ _ T1) | unfold in_wifi in Hi; layout; lia |].
    pose proof (act_range_outside (cur p3) (O_WIFI_PWD, Z_WIFI_PWD) ltac:(right; cbn; auto)) as O.
    unfold outside, in_rng, in_wifi in *. cbn [fst snd] in O. lia.
  Qed.
End EmptyWifi.

Section EmptyWifi2.
  Variables (sg : bool) (s : list Z) (c0 : list Z).
  Hypothesis Hs : empty_wifi s.

  Lemma W_body p m a : inv p m -> W c0 p m -> 0 <= a < len s ->
    let '(a', p', m') := vars_body sg s p m a in W c0 p' m'.
  Proof.
    intros I Hw Ha. unfold vars_body.
    pose proof (vb_open_ok s p m a I Ha) as O.
    assert (Ho : let '(p1, m1, a1) := vb_open s p m a in
                 W c0 p1 m1 \/
                 (cur p1 <> 0 /\ tk p1 = 0 /\ toff p1 = O_WIFI_PWD /\ offs p1 = 0 /\ a1 = a + 4 /\
                  (len s <= a1 \/ rd s a1 = 38) /\ ncfg m1 = ncfg m)).
    { unfold vb_open. destruct (cur p =? 0) eqn:Ec; [|left; exact Hw]. apply Z.eqb_eq in Ec.
      destruct (4 <=? len s - a) eqn:E4; [|left; exact Hw]. apply Z.leb_le in E4. cbv zeta. rewrite !chk_in by lia.
      destruct (rd s (a + 3) =? 61) eqn:E61; [|left; exact Hw]. apply Z.eqb_eq in E61.
      destruct Hw as [Wm _].
      destruct (find_var (rd s a) (rd s (a + 1)) (rd s (a + 2))) as [r|] eqn:F.
      - set (m0 := if nthz r 5 =? 3 then match cmd m with None => set_cmd m (Some (zeros CMD_SIZE)) | Some _ => m end else m).
        assert (E0 : ncfg m0 = ncfg m) by (unfold m0; destruct (nthz r 5 =? 3); [destruct (cmd m)|]; reflexivity).
        pose proof (conj (proj1 Ha) (conj E4 (conj E61 F))) as Hop.
        destruct (guard_ok r (ncfg m)).
        + destruct (Z.eq_dec (nthz r 5) 0) as [K0|K0].
          * destruct (Z_le_dec (nthz r 6 + nthz r 4) O_WIFI_PWD) as [D1|D1];
              [left; split; [apply (Wk_same c0 m); assumption | intros _; unfold safeW; simp_rec; auto]|].
            destruct (Z_le_dec (O_WIFI_PWD + Z_WIFI_PWD) (nthz r 6)) as [D2|D2];
              [left; split; [apply (Wk_same c0 m); assumption | intros _; unfold safeW; simp_rec; auto]|].
            assert (Hh : hits_wifi r) by (split; [exact K0 | lia]).
            destruct (hits_wifi_row r (opens_in s a r Hop) Hh) as [Eo _].
            right. simp_rec. pose proof (find_var_ok _ _ _ _ F) as R. unfold row_okb in R. cbv zeta in R.
            rewrite !andb_true_iff in R. destruct R as [[_ R0] _]. apply negb_true_iff in R0. apply Z.eqb_neq in R0.
            repeat split; auto. exact (Hs a r Hop Hh).
          * left. split; [apply (Wk_same c0 m); assumption | intros _; unfold safeW; simp_rec; intros K; congruence].
        + left. split; [apply (Wk_same c0 m); assumption | intros H; simp_rec; congruence].
      - left. split; [exact Wm | intros H; simp_rec; congruence]. }
    destruct (vb_open s p m a) as [[p1 m1] a1]. destruct O as [I1 [Ha1 _]].
    destruct (cur p1 =? 0) eqn:Ec.
    { destruct Ho as [Ho|[Hc1 _]]; [exact Ho | apply Z.eqb_eq in Ec; congruence]. }
    apply Z.eqb_neq in Ec.
    destruct Ho as [Ho|[_ [Tk [To [Of [Ea [Hem En]]]]]]].
    - pose proof (vb_fill_ok s p1 m1 a1 I1 Ec ltac:(lia)) as Fl.
      pose proof (g_fill s (W c0) (W_fill c0) p1 m1 a1 I1 Ho Ec ltac:(lia)) as Fl2.
      destruct (vb_fill s p1 m1 a1) as [[p2 m2] a2]. destruct Fl as [I2' [Hc2 Ha2]].
      apply (g_close sg s (W c0) (W_close sg c0)); [exact I2' | exact Fl2 | congruence | lia].
    - (* wpw= with an empty value: only the terminator at WIFI_PWD[0] is written *)
      destruct (i_tgt p1 m1 I1 Ec) as [Hb1 _].
      assert (Efill : vb_fill s p1 m1 a1 = (p1, m1, a1)).
      { unfold vb_fill. destruct ((offs p1 <? bsize p1) && (a1 <? len s)) eqn:E; [|reflexivity].
        apply andb_true_iff in E. destruct E as [_ E]. apply Z.ltb_lt in E. cbv zeta. rewrite (chk_in s a1 m1) by lia.
        destruct Hem as [Hem|Hem]; [lia|]. rewrite Hem. reflexivity. }
      rewrite Efill.
      assert (Ecl : vb_close sg s p1 m1 a1 = (let '(p3, m3) := terminate p1 m1 in (a1 + 1, close_var p3, action sg p3 m3))).
      { unfold vb_close. replace (bsize p1 <=? offs p1) with false by (symmetry; apply Z.leb_gt; lia).
        destruct (len s - 1 <=? a1) eqn:E; [reflexivity|]. apply Z.leb_gt in E. cbv zeta. rewrite chk_in by lia.
        destruct Hem as [Hem|Hem]; [lia|]. rewrite Hem. reflexivity. }
      rewrite Ecl.
      pose proof (term_ok p1 m1 I1 Ec) as T. unfold terminate in *.
      replace (offs p1 <? bsize p1) with true in * by (symmetry; apply Z.ltb_lt; lia).
      destruct (store_spec p1 m1 (offs p1) 0 I1 Ec ltac:(lia)) as [[_ [E _]]|[[K _]|[[K _]|[K _]]]]; try congruence.
      rewrite E in *. destruct T as [T1 _].
      split; [|intros H; simp_rec; congruence].
      destruct Hw as [[Wa Wb] _]. pose proof (i_ncfg p1 m1 I1) as L1.
      assert (Eidx : toff p1 + offs p1 = O_WIFI_PWD) by lia.
      apply (Wk_unch c0 (set_ncfg m1 (upd (ncfg m1) (toff p1 + offs p1) 0))).
      + intros i Hi. apply action_unch; [exact (i_ncfg _ _ T1) | unfold in_wifi in Hi; layout; lia |].
        pose proof (act_range_outside (cur p1) (O_WIFI_PWD, Z_WIFI_PWD) ltac:(right; cbn; auto)) as Oa.
        unfold outside, in_rng, in_wifi in *. cbn [fst snd] in Oa. lia.
      + unfold Wk. simp_rec. rewrite Eidx. split.
        * intros i Hi Hn. rewrite nthz_upd_other by (rewrite ?L1; unfold in_wifi in Hi; layout; lia). rewrite En. apply Wa; assumption.
        * right. apply nthz_upd_same. rewrite L1. layout; lia.
  Qed.

  Lemma W_loop : forall fuel p m a, inv p m -> W c0 p m -> 0 <= a ->
    let '(p', m') := vars_loop fuel sg s p m a in W c0 p' m'.
  Proof.
    induction fuel as [|f IH]; intros p m a I Hw Ha; cbn [vars_loop]; [exact Hw|].
    destruct (a <? len s) eqn:E; [|exact Hw]. apply Z.ltb_lt in E.
    pose proof (vars_body_ok sg s p m a I ltac:(lia)) as B. pose proof (W_body p m a I Hw ltac:(lia)) as B2.
    destruct (vars_body sg s p m a) as [[a' p'] m']. destruct B as [I' [Ha' _]]. apply IH; [exact I' | exact B2 | lia].
  Qed.
End EmptyWifi2.

Lemma empty_wifi_drop seg k : 0 <= k <= len seg -> empty_wifi seg -> empty_wifi (drop k seg).
Proof.
  intros Hk H a r Ho Hh. pose proof (H (k + a) r (opens_at_drop seg k a r Hk Ho) Hh) as E.
  destruct Ho as [Ha _]. rewrite len_drop by lia. rewrite rd_drop by lia.
  replace (k + (a + 4)) with (k + a + 4) by lia. lia.
Qed.
Lemma wifi_not_pw i : in_wifi i -> ~ pw_area i.
Proof. unfold in_wifi, pw_area. layout; lia. Qed.

Theorem C14_empty_wifi_password_kept_thm : forall sg d seg i,
  dev_ok d -> in_wifi i -> empty_wifi seg ->
  nthz (dcfg (fst (recv FIXED sg d seg))) i = nthz (dcfg d) i.
Proof.
  intros sg d seg i D Hi Hrows. unfold recv. cbv zeta.
  set (m0 := {| ncfg := upd (dcfg d) O_LocationPwd 0; temp := fresh_temp; cmd := dcmd d; rb := 0; flt := [] |}).
  assert (F0 : frame_ok (dcfg d) (upd (dcfg d) O_LocationPwd 0))
    by (apply frame_upd; [exact (d_len d D) | layout; lia | layout; lia]).
  assert (I0 : inv (dpv d) m0).
  { constructor; unfold m0; simp_rec.
    - exact (d_ival d D).
    - exact (d_offs d D).
    - intros H. pose proof (d_cur d D). congruence.
    - rewrite (proj1 F0). exact (d_len d D).
    - unfold fresh_temp, len. rewrite repeat_length. layout; lia.
    - exact (d_cmd d D).
    - reflexivity.
    - exists 0. unfold cell; simp_rec. split; [layout; lia|]. split; [intros; lia|]. split.
      + intros j Hj. unfold fresh_temp. apply nth_error_repeat. lia.
      + right. split; [left; exact (d_cur d D) | left; reflexivity].
    - right. exact (email_term_frame _ _ F0 (d_email d D)). }
  assert (U0 : forall j, in_wifi j -> nthz (ncfg m0) j = nthz (dcfg d) j).
  { intros j Hj. unfold m0; simp_rec. unfold in_wifi in Hj.
    apply nthz_upd_other; [rewrite (d_len d D); layout; lia | layout; lia | layout; lia]. }
  (* through the request *)
  assert (Wm : let '(p, m) := parse_request FIXED sg seg (dpv d) m0 in Wk (ncfg m0) m).
  { assert (W0 : Wk (ncfg m0) m0) by (split; auto).
    unfold parse_request. destruct (len seg =? 0); [exact W0|].
    set (pa := if step (dpv d) =? STEP_TYPE_ then
                 if is_prefix (s_get ++ s_url) seg then set_step (dpv d) STEP_GET_ TYPE_GET_
                 else if is_prefix (s_post ++ s_url) seg then set_step (dpv d) STEP_POST_ TYPE_POST_ else dpv d
               else dpv d).
    assert (Ia : inv pa m0 /\ cur pa = 0).
    { unfold pa. destruct (step (dpv d) =? STEP_TYPE_); [|split; [exact I0 | exact (d_cur d D)]].
      destruct (is_prefix (s_get ++ s_url) seg); [split; [apply inv_set_step; exact I0 | exact (d_cur d D)]|].
      destruct (is_prefix (s_post ++ s_url) seg); [split; [apply inv_set_step; exact I0 | exact (d_cur d D)] | split; [exact I0 | exact (d_cur d D)]]. }
    destruct Ia as [Ia Hca]. cbv zeta.
    set (k := if step pa =? STEP_POST_ then count_hdr_end (S (length seg)) FIXED seg 0 else 0).
    assert (Hk : k = 0 \/ (k = 1 /\ 4 <= len seg)).
    { unfold k. destruct (step pa =? STEP_POST_); [apply count_fixed; lia | left; reflexivity]. }
    set (pb := if 0 <? k then set_step pa STEP_PARSE_VARS_ (typ pa) else pa).
    assert (Ib : inv pb m0 /\ cur pb = 0).
    { unfold pb. destruct (0 <? k); [split; [apply inv_set_step; exact Ia | exact Hca] | auto]. }
    destruct Ib as [Ib Hcb].
    destruct (step pb =? STEP_PARSE_VARS_); [|exact W0].
    destruct (len seg <? 3 * k) eqn:El; [apply (Wk_same (ncfg m0) m0); [reflexivity | exact W0]|]. apply Z.ltb_ge in El.
    assert (Hk3 : 0 <= 3 * k <= len seg) by (pose proof (len_nonneg seg); clearbody k; lia).
    set (seg' := drop (3 * k) seg).
    pose proof (proto_loop_ok seg' (S (length seg')) pb m0 0 (conj Ib (or_introl Hcb)) ltac:(lia) (or_introl Hcb) ltac:(unfold len; lia)) as Pk.
    pose proof (proto_loop_shape seg' (S (length seg')) pb m0 0 (or_introl Hcb)) as Ps.
    destruct (proto_loop (S (length seg')) FIXED seg' pb m0 0) as [p1 m1]. destruct Pk as [I1 Hc1].
    assert (W1 : Wk (ncfg m0) m1).
    { apply (Wk_unch (ncfg m0) m0); [|exact W0]. intros j Hj. unfold in_wifi in Hj.
      destruct Ps as [_ [E|[on E]]]; rewrite E; [reflexivity|].
      unfold flag_set, set_flags. apply nthz_blit_other; [layout; lia | rewrite (i_ncfg pb m0 Ib), len_enc32; layout; lia | layout; lia | rewrite len_enc32; layout; lia]. }
    unfold parse_vars.
    pose proof (inv_fresh p1 m1 I1 Hc1) as If.
    pose proof (vars_loop_ok sg seg' (S (length seg')) p1 (set_temp m1 fresh_temp) 0 If ltac:(lia) (or_introl Hc1) ltac:(unfold len; lia)) as L.
    pose proof (W_loop sg seg' (ncfg m0) (empty_wifi_drop seg (3 * k) Hk3 Hrows) (S (length seg')) p1 (set_temp m1 fresh_temp) 0 If) as L3.
    destruct (vars_loop (S (length seg')) sg seg' p1 (set_temp m1 fresh_temp) 0) as [p' m']. destruct L as [I' Hc'].
    assert (W00 : W (ncfg m0) p1 (set_temp m1 fresh_temp)) by (split; [apply (Wk_same _ m1); [reflexivity | exact W1] | intros H; congruence]).
    destruct (L3 W00 ltac:(lia)) as [Wl _].
    apply (Wk_unch (ncfg m0) m'); [|exact Wl]. intros j Hj.
    apply spill_unch; [exact (i_ncfg p' m' I') | unfold in_wifi in Hj; layout; lia | apply wifi_not_pw; exact Hj]. }
  pose proof (parse_request_ok sg seg (dpv d) m0 I0 (d_cur d D)) as Pk.
  destruct (parse_request FIXED sg seg (dpv d) m0) as [p m]. destruct Pk as [I Hc].
  destruct (typ p =? TYPE_UNKNOWN_); [reflexivity|].
  destruct (typ p =? TYPE_POST_); [|reflexivity].
  destruct (matched p <? 4); [reflexivity|].
  destruct ((0 <? char_val sg (rb m)) && negb (char_val sg (rb m) =? 2)); [reflexivity|].
  cbn [fst dcfg].
  pose proof (restore_password_ok (dcfg d) m (d_len d D) (d_email d D) (i_ncfg p m I) (inv_email p m I Hc)) as Rk.
  cbv zeta in Rk. destruct Rk as [_ [_ [R3 _]]].
  assert (Wr : Wk (ncfg m0) (restore_password FIXED (dcfg d) (ncfg m) m)).
  { apply (Wk_unch (ncfg m0) m); [|exact Wm]. intros j Hj.
    apply restore_unch; [exact (d_len d D) | exact (i_ncfg p m I) | unfold in_wifi in Hj; layout; lia | apply wifi_not_pw; exact Hj]. }
  set (c := ncfg (restore_password FIXED (dcfg d) (ncfg m) m)) in *.
  assert (Ls : len (slice (dcfg d) O_WIFI_PWD Z_WIFI_PWD) = Z_WIFI_PWD) by (apply len_slice; rewrite ?(d_len d D); layout; lia).
  destruct Wr as [Wa Wb]. change (ncfg (restore_password FIXED (dcfg d) (ncfg m) m)) with c in Wa, Wb. unfold in_wifi in Hi.
  destruct (nthz c O_WIFI_PWD =? 0) eqn:Ez.
  - replace i with (O_WIFI_PWD + (i - O_WIFI_PWD)) at 1 by lia.
    rewrite nthz_blit_in by (rewrite ?R3, ?Ls; layout; lia). rewrite nthz_slice by (layout; lia). f_equal. lia.
  - apply Z.eqb_neq in Ez. destruct (Z.eq_dec i O_WIFI_PWD) as [->|Hn].
    + destruct Wb as [Wb|Wb]; [rewrite Wb; apply U0; unfold in_wifi; layout; lia | congruence].
    + rewrite Wa by (unfold in_wifi; auto). apply U0. unfold in_wifi. lia.
Qed.
