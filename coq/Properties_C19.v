(* placeholder while the proofs are being written *)
From V Require Import C19.Model.
