(* C19 — Behaviour is independent of the absolute value of the microsecond counter.
   Property theorems only: each is closed by `exact` of a lemma proved in C19/Proofs.v or C19/Shift.v.

   What is PROVED here: (a) uptime.c (usec / msec / sec) for arbitrary poll sequences and arbitrary cycle
   counts; (b) shift invariance of the shutter start/stop stamp logic (model of C08); (c) shift invariance of
   the whole input model of C11 (sampler, silent period, click chaining, hold, action triggers, relay actions);
   (d) statements of narrower scope on the models of C07 (countdown: same switch-back window for every boot),
   C12 (every time decision of the configuration button is a function of true-time gaps) and C04 (second
   arithmetic under a whole-second boot shift; phase slip of 1 us per wrap).  Whole-trace boot independence of
   the countdown, configuration-mode and devconn models is NOT proved (trace comparison of corr/c19.py only). *)
From Coq Require Import List ZArith Bool.
Import ListNotations.
From V Require Import Base.U32 Gen.UptimeConsts C08.Model C08.Proofs C19.Model C19.Proofs C19.Shift.
From V Require C11.Model C07.Model C07.Proofs C12.Model C04.Model C04.Keepalive C05.Model C19.ShiftInputs C19.ShiftOthers C19.ShiftDevconn.
Local Open Scope Z_scope.

(* (a) uptime_usec: for ANY sequence of polls (no condition on the time between polls), from any state with
   32-bit fields, the returned 64-bit values never decrease — and so do milliseconds and, while the uptime is
   below 2^32 s (136 years), the 32-bit seconds.  The only limit is the 32-bit cycle counter itself
   (2^32 wrap-arounds = 584 000 years); the 64-bit expression cycles * 0xFFFFFFFF + time cannot wrap at all. *)
Theorem C19_uptime_monotone : forall ts boot u, wf u ->
  ucycles u + Z.of_nat (length ts) < 4294967296 ->
  let vs := usec_of u :: polls boot u ts in
  nondecreasing vs /\ nondecreasing (map to_msec vs) /\
  (List.last vs 0 / UPTIME_MS_DIV / UPTIME_S_DIV < 4294967296 -> nondecreasing (map to_sec vs)).
Proof. exact C19_uptime_monotone_thm. Qed.
Print Assumptions C19_uptime_monotone.

Theorem C19_no_64bit_wrap : forall c t, 0 <= c < 4294967296 -> 0 <= t < 4294967296 ->
  0 <= c * UPTIME_MULT + t < 18446744073709551616.
Proof. exact (fun c t => no_u64_wrap c t consts_ok). Qed.
Print Assumptions C19_no_64bit_wrap.

(* accuracy: when every poll comes less than one counter period (2^32 us) after the previous one, the uptime
   advances by the true elapsed time minus (2^32 - UPTIME_MULT) = 1 us per wrap-around *)
Theorem C19_uptime_accurate : forall ts boot u p, wf u ->
  ucycles u + Z.of_nat (length ts) < 4294967296 ->
  ulast u = u32 (boot + p) -> gaps_ok p ts ->
  let u' := final boot u ts in
  usec_of u' = usec_of u + (last_time p ts - p) - (4294967296 - UPTIME_MULT) * (ucycles u' - ucycles u) /\
  0 <= ucycles u' - ucycles u <= Z.of_nat (length ts).
Proof. exact C19_uptime_accurate_thm. Qed.
Print Assumptions C19_uptime_accurate.

(* uptime_msec / uptime_sec are the same poll followed by the divisions of to_msec / to_sec *)
Theorem C19_units : forall u time,
  msec_at u time = (fst (usec_at u time), to_msec (snd (usec_at u time))) /\
  sec_at u time = (fst (usec_at u time), to_sec (snd (usec_at u time))).
Proof. exact (fun u time => conj (msec_at_spec u time) (sec_at_spec u time)). Qed.
Print Assumptions C19_units.

(* (b) shutter stamps: same events, two boot values => same outputs at the same true times *)
Theorem C19_shutter_shift_invariance : forall bootA bootB n t0 evs,
  no_zero (run bootA n t0 evs) -> no_zero (run bootB n t0 evs) ->
  run bootB n t0 evs = run bootA n t0 evs.
Proof. exact C19_shutter_shift_invariance_thm. Qed.
Print Assumptions C19_shutter_shift_invariance.

(* the unchanged code (ordering comparison t >= stop_time) is not shift invariant *)
Theorem C19_old_code_not_shift_invariant :
  no_zero (run_og true 1 1 0 witness_evs) /\ no_zero (run_og true witness_boot 1 0 witness_evs) /\
  run_og true 1 1 0 witness_evs <> run_og true witness_boot 1 0 witness_evs.
Proof. exact C19_old_code_not_shift_invariant_thm. Qed.
Print Assumptions C19_old_code_not_shift_invariant.

(* non-vacuity and boundary examples: polls straddling 2^32 us, 2^32 ms (cycles = 1000) and a gap of more than
   one period (still monotone, no longer accurate); a plausible regression that truncates before dividing *)
Example C19_nonvacuous :
  let u := mkUt 999 4294966000 in
  let vs := polls 4294967000 u [0; 500; 30000500] in
  wf u /\ vs = [4294967294705; 4294967295204; 4294997295204] /\
  map to_msec vs = [4294967294; 4294967295; 4294997295] /\     (* crosses 2^32 ms *)
  map to_sec vs = [4294967; 4294967; 4294997] /\
  gaps_ok (-1000) [0; 500; 30000500] /\
  polls 0 (mkUt 0 100) [200; 200 + 3 * 4294967296] = [200; 200].  (* three periods missed: monotone, not accurate *)
Proof. vm_compute. repeat split; try reflexivity; try discriminate. Qed.
Print Assumptions C19_nonvacuous.

Example C19_trunc_before_div_not_monotone :
  let bad v := u32 (v / 1000) / 1000 in
  let u := mkUt 1000 0 in
  let vs := polls 0 u [999; 1000] in
  vs = [4294967295999; 4294967296000] /\ bad 4294967295999 = 4294967 /\ bad 4294967296000 = 0 /\
  to_sec 4294967295999 = 4294967 /\ to_sec 4294967296000 = 4294967.
Proof. exact trunc_before_div_not_monotone. Qed.
Print Assumptions C19_trunc_before_div_not_monotone.

(* ---------- (c) inputs: model of C11, imported ---------- *)
(* From any pair of states whose last_state_change stamps differ by d modulo 2^32 (everything else equal), every
   schedule of micro-steps (time passing, pin changes, each timer callback, trigger configuration) and every event
   list of the harness scheduler keeps the states related: B = A with lsc shifted.  No exclusion is needed:
   this module has no "0 = unset" stamp. *)
Theorem C19_input_shift_micro : forall d c ms s,
  C11.Model.mrun (ShiftInputs.cB d c) ms (ShiftInputs.sh d s) = ShiftInputs.sh d (C11.Model.mrun c ms s).
Proof. exact ShiftInputs.input_shift_micro. Qed.
Print Assumptions C19_input_shift_micro.

Theorem C19_input_shift_events : forall d c evs s,
  C11.Model.run_from (ShiftInputs.cB d c) (ShiftInputs.sh d s) evs = ShiftInputs.sh d (C11.Model.run_from c s evs).
Proof. exact ShiftInputs.input_shift_events. Qed.
Print Assumptions C19_input_shift_events.

(* Two devices that differ only in the boot value of the counter, same initial pin level, same event list: identical
   outputs (notifies, active/inactive, GPIO edges, value reports, action triggers, trigger configuration, config-mode
   entry — each with its true time), identical relay, clock and halted flag; the final states differ at most in lsc.
   Hypothesis: the input is not a configuration button (for a configuration button the first evaluation of the 2 s click
   window reads lsc = 0, i.e. the raw counter: see C19_cfg_first_window_reads_raw_counter). *)
Theorem C19_input_shift_invariance : forall c bootB l0 evs, C11.Model.cfg_btn c = false ->
  let a := C11.Model.run c l0 evs in
  let b := C11.Model.run (ShiftInputs.wb bootB c) l0 evs in
  C11.Model.outs b = C11.Model.outs a /\ C11.Model.relay b = C11.Model.relay a /\
  C11.Model.halted b = C11.Model.halted a /\ C11.Model.now b = C11.Model.now a /\
  exists v, b = C11.Model.set_lsc v a.
Proof. exact ShiftInputs.C19_input_shift_invariance_thm. Qed.
Print Assumptions C19_input_shift_invariance.

(* ---------- (d) countdown (C07), configuration button (C12), devconn seconds (C04) ---------- *)
Theorem C19_countdown_window_any_boot : forall (wr : C07.Proofs.Wraps) c b evs S,
  C07.Proofs.wf_cfg (ShiftOthers.CD.with_boot b c) -> Forall C07.Proofs.wf_ev evs ->
  C07.Proofs.NWwrun true (ShiftOthers.CD.with_boot b c) (C07.Model.start true (ShiftOthers.CD.with_boot b c)) evs -> 0 <= S ->
  C07.Proofs.Slack S (C07.Model.outs (C07.Model.run_from true (ShiftOthers.CD.with_boot b c) (C07.Model.start true (ShiftOthers.CD.with_boot b c)) evs)) ->
  forall tcb ch tg t0 dur u0 u, In (C07.Model.GFinish tcb ch tg t0 dur u0 u) (C07.Model.run true (ShiftOthers.CD.with_boot b c) evs) ->
    (dur - 1) * 1000 < tcb - t0 < dur * 1000 + Gen.RelayConsts.CD_MIN * 1000 + S + 2 * (8 * C07.Proofs.OP) + C07.Proofs.WB /\
    In (C07.Model.GArm t0 ch dur tg) (C07.Model.run true (ShiftOthers.CD.with_boot b c) evs).
Proof. exact ShiftOthers.CD.countdown_window_any_boot. Qed.
Print Assumptions C19_countdown_window_any_boot.

Theorem C19_cfg_toggle_count_boot_independent : forall b b' t1 t2 s x stt,
  C12.Model.legacy_count (ShiftOthers.CB.with_clock b t2 s) (ShiftOthers.CB.with_lsc x (ShiftOthers.CB.stamp_at b t1)) stt =
  C12.Model.legacy_count (ShiftOthers.CB.with_clock b' t2 s) (ShiftOthers.CB.with_lsc x (ShiftOthers.CB.stamp_at b' t1)) stt.
Proof. exact ShiftOthers.CB.toggle_count_boot_independent. Qed.
Print Assumptions C19_cfg_toggle_count_boot_independent.

(* the known finding toggle-gap-u32-wrap of C12 is about the gap (k periods + g behaves like g), for every boot alike *)
Theorem C19_cfg_toggle_gap_class_is_about_gaps : forall b t1 g k s x stt,
  C12.Model.legacy_count (ShiftOthers.CB.with_clock b (t1 + g + k * 4294967296) s) (ShiftOthers.CB.with_lsc x (ShiftOthers.CB.stamp_at b t1)) stt =
  C12.Model.legacy_count (ShiftOthers.CB.with_clock b (t1 + g) s) (ShiftOthers.CB.with_lsc x (ShiftOthers.CB.stamp_at b t1)) stt.
Proof. exact ShiftOthers.CB.toggle_gap_class_is_about_gaps. Qed.
Print Assumptions C19_cfg_toggle_gap_class_is_about_gaps.

Theorem C19_cfg_hold_and_exit_decisions : forall b b' t1 t2 limit,
  (limit <=? u32 (u32 (b + t2) - ShiftOthers.CB.stamp_at b t1)) = (limit <=? u32 (u32 (b' + t2) - ShiftOthers.CB.stamp_at b' t1)) /\
  (3000000 <? u32 (u32 (b + t2) - ShiftOthers.CB.stamp_at b t1)) = (3000000 <? u32 (u32 (b' + t2) - ShiftOthers.CB.stamp_at b' t1)).
Proof. exact (fun b b' t1 t2 limit => conj (ShiftOthers.CB.hold_decision_boot_independent b b' t1 t2 limit) (ShiftOthers.CB.exit_decision_boot_independent b b' t1 t2)). Qed.
Print Assumptions C19_cfg_hold_and_exit_decisions.

(* a genuine (harmless) dependence on the raw counter: last_state_change starts at 0, not at a sampled stamp *)
Theorem C19_cfg_first_window_reads_raw_counter : forall b t s x stt, C12.Model.i_lsc x = 0 ->
  C12.Model.legacy_count (ShiftOthers.CB.with_clock b t s) x stt =
  if 2000000 <=? u32 (b + t) then 1 else if C12.Model.counted_legacy x stt then s8 (C12.Model.i_cnt x + 1) else C12.Model.i_cnt x.
Proof. exact ShiftOthers.CB.first_window_reads_raw_counter. Qed.
Print Assumptions C19_cfg_first_window_reads_raw_counter.

(* devconn seconds: what the trace comparison of corr/c19.py assumes (boots of one case are equal modulo 10^6) *)
Theorem C19_devconn_second_phase : forall b K s,
  0 <= b + C04.Model.now s -> b + K * 1000000 + C04.Model.now s < 4294967296 -> 0 <= K ->
  C04.Model.uptime_usec (ShiftOthers.DC.with_boot (b + K * 1000000) s) = C04.Model.uptime_usec (ShiftOthers.DC.with_boot b s) + K * 1000000 /\
  C04.Model.uptime_usec (ShiftOthers.DC.with_boot b s) / 1000 / 1000 + K =
  C04.Model.uptime_usec (ShiftOthers.DC.with_boot (b + K * 1000000) s) / 1000 / 1000.
Proof. exact ShiftOthers.DC.uptime_phase. Qed.
Print Assumptions C19_devconn_second_phase.

Theorem C19_devconn_second_comparisons : forall u l K,
  u32 (u32 (u + K) - u32 (l + K)) = u32 (u - l) /\
  (0 <= l -> 0 <= u -> 0 <= K -> u + K < 4294967296 -> l + K < 4294967296 -> (u32 (l + K) <? u32 (u + K)) = (l <? u)).
Proof. exact (fun u l K => conj (ShiftOthers.DC.second_diff_shift u l K) (ShiftOthers.DC.second_order_shift u l K)). Qed.
Print Assumptions C19_devconn_second_comparisons.

Example C19_devconn_phase_slips_one_us_per_wrap : forall s, C04.Model.now s = 2000000 -> C04.Model.cycles0 s = 0 ->
  C04.Model.uptime_usec (ShiftOthers.DC.with_boot (4294967296 - 1000000) s) = 4294967296 - 1000000 + 2000000 - 1 /\
  C04.Model.uptime_usec (ShiftOthers.DC.with_boot 0 s) = 2000000.
Proof. exact ShiftOthers.DC.phase_slips_one_us_per_wrap. Qed.
Print Assumptions C19_devconn_phase_slips_one_us_per_wrap.

(* ---------- (e) round 5: keep-alive machine (C04/C05), countdown clock phase (C07), cfg-button corner (C11) ---------- *)
(* Whole-trace shift invariance over the keep-alive machine the C04 automaton is proved to follow (kstep / krun of
   C04/Keepalive.v): all uptime seconds shifted by K => same decisions at every tick, state = image under +K *)
Theorem C19_keepalive_shift_invariance : forall K tmo l s,
  C05.Model.krun tmo (ShiftDevconn.kshift K s) (map (ShiftDevconn.evshift K) l) = ShiftDevconn.kshift K (C05.Model.krun tmo s l).
Proof. exact ShiftDevconn.krun_shift. Qed.
Print Assumptions C19_keepalive_shift_invariance.

Theorem C19_keepalive_verdict_boot_independent : forall K tmo l s,
  C04.Keepalive.k_bad (C05.Model.krun tmo (ShiftDevconn.kshift K s) (map (ShiftDevconn.evshift K) l)) =
  C04.Keepalive.k_bad (C05.Model.krun tmo s l).
Proof. exact ShiftDevconn.krun_shift_verdict. Qed.
Print Assumptions C19_keepalive_verdict_boot_independent.

(* the two timer decisions of supla_esp_devconn_timer1_cb / _watchdog_cb (C05/Proofs: timer1_cb_decide, watchdog_cb_decide) *)
Theorem C19_devconn_decisions_shift : forall K up ls lr tmo nw,
  C04.Keepalive.t1_decide (up + K) (ls + K) (lr + K) tmo = C04.Keepalive.t1_decide up ls lr tmo /\
  C05.Model.wd_decide (up + K) (lr + K) tmo (nw + K) = C05.Model.wd_decide up lr tmo nw.
Proof. exact (fun K up ls lr tmo nw => conj (ShiftDevconn.t1_decide_shift K up ls lr tmo) (ShiftDevconn.wd_decide_shift K up lr tmo nw)). Qed.
Print Assumptions C19_devconn_decisions_shift.

(* countdown: same sub-millisecond phase => every ideal reading differs by exactly k ms *)
Theorem C19_countdown_clock_phase : forall s s' t k,
  C07.Model.tb s' = C07.Model.tb s -> C07.Model.cnt0 s' = C07.Model.cnt0 s + 1000 * k ->
  let a := C07.Model.cnt0 s + (t - C07.Model.tb s) in let a' := C07.Model.cnt0 s' + (t - C07.Model.tb s') in
  0 <= a -> 0 <= a' -> a / 4294967296 <= a mod 1000 -> a' / 4294967296 <= a' mod 1000 ->
  C07.Proofs.rd s' t = C07.Proofs.rd s t + k.
Proof. exact ShiftOthers.CD.countdown_clock_phase. Qed.
Print Assumptions C19_countdown_clock_phase.

(* the hypothesis cfg_btn = false of C19_input_shift_invariance is necessary (from the INITIAL state only: from stamped
   states C19_input_shift_events covers configuration buttons, hold and ten-toggle rule included) *)
Example C19_input_cfgbtn_initial_window_depends_on_boot :
  rev (C11.Model.outs (C11.Model.run (ShiftInputs.cfgbtn_cfg 1) 1 ShiftInputs.cfgbtn_evs)) <>
  rev (C11.Model.outs (C11.Model.run (ShiftInputs.cfgbtn_cfg 5000001) 1 ShiftInputs.cfgbtn_evs)).
Proof. destruct ShiftInputs.cfgbtn_initial_window_depends_on_boot as [-> ->]. intro H; discriminate H. Qed.
Print Assumptions C19_input_cfgbtn_initial_window_depends_on_boot.
