(* C19 — Behaviour is independent of the absolute value of the microsecond counter.
   Property theorems only: each is closed by `exact` of a lemma proved in C19/Proofs.v or C19/Shift.v.

   What is PROVED here: (a) uptime.c (usec / msec / sec) for arbitrary poll sequences and arbitrary cycle
   counts; (b) shift invariance of the shutter start/stop stamp logic (model of C08, code after
   docs/fixes/C08_rs_wrap.diff).  The other stamp-carrying modules (inputs, countdown, devconn timing,
   cfg mode) are covered by the trace comparison of corr/c19.py only. *)
From Coq Require Import List ZArith Bool.
Import ListNotations.
From V Require Import Base.U32 Gen.UptimeConsts C08.Model C08.Proofs C19.Model C19.Proofs C19.Shift.
Local Open Scope Z_scope.

(* (a) uptime_usec: for ANY sequence of polls (no condition on the time between polls), from any state with
   32-bit fields, the returned 64-bit values never decrease — and so do milliseconds and, while the uptime is
   below 2^32 s (136 years), the 32-bit seconds.  The only limit is the 32-bit cycle counter itself
   (2^32 wrap-arounds = 584 000 years); the 64-bit expression cycles * 0xFFFFFFFF + time cannot wrap at all. *)
Theorem C19_uptime_monotone : forall ts boot u, wf u ->
  ucycles u + Z.of_nat (length ts) < 4294967296 ->
  let vs := usec_of u :: polls boot u ts in
  nondecreasing vs /\ nondecreasing (map to_msec vs) /\
  (List.last vs 0 / UPTIME_MS_DIV / UPTIME_S_DIV < 4294967296 -> nondecreasing (map to_sec vs)).
Proof. exact C19_uptime_monotone_thm. Qed.
Print Assumptions C19_uptime_monotone.

Theorem C19_no_64bit_wrap : forall c t, 0 <= c < 4294967296 -> 0 <= t < 4294967296 ->
  0 <= c * UPTIME_MULT + t < 18446744073709551616.
Proof. exact (fun c t => no_u64_wrap c t consts_ok). Qed.
Print Assumptions C19_no_64bit_wrap.

(* accuracy: when every poll comes less than one counter period (2^32 us) after the previous one, the uptime
   advances by the true elapsed time minus (2^32 - UPTIME_MULT) = 1 us per wrap-around *)
Theorem C19_uptime_accurate : forall ts boot u p, wf u ->
  ucycles u + Z.of_nat (length ts) < 4294967296 ->
  ulast u = u32 (boot + p) -> gaps_ok p ts ->
  let u' := final boot u ts in
  usec_of u' = usec_of u + (last_time p ts - p) - (4294967296 - UPTIME_MULT) * (ucycles u' - ucycles u) /\
  0 <= ucycles u' - ucycles u <= Z.of_nat (length ts).
Proof. exact C19_uptime_accurate_thm. Qed.
Print Assumptions C19_uptime_accurate.

(* uptime_msec / uptime_sec are the same poll followed by the divisions of to_msec / to_sec *)
Theorem C19_units : forall u time,
  msec_at u time = (fst (usec_at u time), to_msec (snd (usec_at u time))) /\
  sec_at u time = (fst (usec_at u time), to_sec (snd (usec_at u time))).
Proof. exact (fun u time => conj (msec_at_spec u time) (sec_at_spec u time)). Qed.
Print Assumptions C19_units.

(* (b) shutter stamps: same events, two boot values => same outputs at the same true times *)
Theorem C19_shutter_shift_invariance : forall bootA bootB n t0 evs,
  no_zero (run bootA n t0 evs) -> no_zero (run bootB n t0 evs) ->
  run bootB n t0 evs = run bootA n t0 evs.
Proof. exact C19_shutter_shift_invariance_thm. Qed.
Print Assumptions C19_shutter_shift_invariance.

(* the unchanged code (ordering comparison t >= stop_time) is not shift invariant *)
Theorem C19_old_code_not_shift_invariant :
  no_zero (run_og true 1 1 0 witness_evs) /\ no_zero (run_og true witness_boot 1 0 witness_evs) /\
  run_og true 1 1 0 witness_evs <> run_og true witness_boot 1 0 witness_evs.
Proof. exact C19_old_code_not_shift_invariant_thm. Qed.
Print Assumptions C19_old_code_not_shift_invariant.

(* non-vacuity and boundary examples: polls straddling 2^32 us, 2^32 ms (cycles = 1000) and a gap of more than
   one period (still monotone, no longer accurate); a plausible regression that truncates before dividing *)
Example C19_nonvacuous :
  let u := mkUt 999 4294966000 in
  let vs := polls 4294967000 u [0; 500; 30000500] in
  wf u /\ vs = [4294967294705; 4294967295204; 4294997295204] /\
  map to_msec vs = [4294967294; 4294967295; 4294997295] /\     (* crosses 2^32 ms *)
  map to_sec vs = [4294967; 4294967; 4294997] /\
  gaps_ok (-1000) [0; 500; 30000500] /\
  polls 0 (mkUt 0 100) [200; 200 + 3 * 4294967296] = [200; 200].  (* three periods missed: monotone, not accurate *)
Proof. vm_compute. repeat split; try reflexivity; try discriminate. Qed.
Print Assumptions C19_nonvacuous.

Example C19_trunc_before_div_not_monotone :
  let bad v := u32 (v / 1000) / 1000 in
  let u := mkUt 1000 0 in
  let vs := polls 0 u [999; 1000] in
  vs = [4294967295999; 4294967296000] /\ bad 4294967295999 = 4294967 /\ bad 4294967296000 = 0 /\
  to_sec 4294967295999 = 4294967 /\ to_sec 4294967296000 = 4294967.
Proof. exact trunc_before_div_not_monotone. Qed.
Print Assumptions C19_trunc_before_div_not_monotone.
