(* C11 — executable model of the input path of klew/supla-espressif-esp:
   supla_esp_gpio_intr_handler / supla_esp_input_start_debounce_timer / _debounce_timer_cb /
   _notify_state_change (silent start-up period) / legacy and advanced state-change handlers and
   their timers / _send_action_trigger / _set_active_triggers (supla_esp_input.c),
   supla_esp_gpio_on_input_active / _inactive / relay_switch / relay_hi timing /
   set_motion_sensor_state (supla_esp_gpio.c), for ONE input wired (or not) to ONE plain relay
   (no roller shutter), together with the SDK software timers (due, seq) of DESIGN §3.
   Definitions only; proofs are in Proofs.v.

   Two layers:
   * micro-steps (`mstep`): time passes / the pin changes / one timer callback runs / the server
     enables triggers.  ANY list of micro-steps is a schedule; steps whose precondition does not
     hold (timer not armed or not yet due, time going backwards) do nothing.  The ghost field
     `late` records the largest amount by which any armed timer was ever overdue, so
     "every timer callback ran at most J late" is the hypothesis `late s <= J` of the theorems.
   * the deterministic scheduler of the harness double (`run`: ADV fires due timers in (due, seq)
     order, BUSY lets time pass without firing) which only composes micro-steps (field `tr`
     records them) and is what the correspondence check runs against the C code. *)
From Coq Require Import List ZArith Bool.
Import ListNotations.
From V Require Import Base.U32 Base.Iface Gen.InputConsts.
Local Open Scope Z_scope.

(* ---------- constants derived from the generated ones ---------- *)
Definition CYCLE_US : Z := CYCLE_MS * 1000.
Definition SILENT_US : Z := SILENT_MS * 1000.
Definition HOLD_US : Z := HOLD_MS * 1000.
Definition MULTICLICK_US : Z := MULTICLICK_MS * 1000.
Definition CFG_PRESS_US : Z := CFG_PRESS_MS * 1000.
Definition MOTION_INIT_US : Z := MOTION_INIT_MS * 1000.
Definition CFG_COUNT_RESET_US : Z := CFG_COUNT_RESET_US_.   (* literal 2000 * 1000 in legacy_state_change_handling, read by gen/grp_c11.py *)
Definition RELAY_D1 : Z := RELAY_D1_US.              (* the two literal os_delay_us(N) of supla_esp_gpio_relay_hi, read by gen/grp_c11.py *)
Definition RELAY_D2 : Z := RELAY_D2_US.
Definition RELAY_CH : Z := 0.                        (* channel of the relay in the harness board *)
Definition NOREL : Z := 255.
Definition RELAY_GPIO : Z := 4.                      (* GPIO of the relay in the harness board *)

Record cfgT := { boot : Z; typ : Z; flags : Z; rel : bool; chan : Z; cap : Z; rst : bool }.

Inductive out :=
| ONotify (t st_ prev c : Z) | OActive (t : Z) | OInactive (t : Z) | OGpio (t l : Z)
| OTrig (t ch a : Z) | OValue (t ch v : Z) | OTrigset (t a m r : Z) | OCfgmode (t : Z)
| OFinal (t la c ds r : Z) | OFault.

Inductive micro := MTime (t : Z) | MIn (l : Z) | MDeb | MTim | MMot | MTrig (mask : Z) | MFault.

Record st := mkst {
  now : Z;
  lvl : Z;
  dstep : Z;
  dval : Z;
  d_on : bool;
  d_due : Z;
  d_seq : Z;
  last : Z;
  cc : Z;
  maxc : Z;
  act : Z;
  relg : Z;
  disg : Z;
  lsc : Z;
  silent : bool;
  t_on : bool;
  t_due : Z;
  t_seq : Z;
  t_adv : bool;
  m_on : bool;
  m_due : Z;
  m_seq : Z;
  relay : Z;
  seqc : Z;
  halted : bool;
  late : Z;
  outs : list out;
  tr : list micro
}.

Definition set_now (v : Z) (s : st) : st := mkst v (lvl s) (dstep s) (dval s) (d_on s) (d_due s) (d_seq s) (last s) (cc s) (maxc s) (act s) (relg s) (disg s) (lsc s) (silent s) (t_on s) (t_due s) (t_seq s) (t_adv s) (m_on s) (m_due s) (m_seq s) (relay s) (seqc s) (halted s) (late s) (outs s) (tr s).
Definition set_lvl (v : Z) (s : st) : st := mkst (now s) v (dstep s) (dval s) (d_on s) (d_due s) (d_seq s) (last s) (cc s) (maxc s) (act s) (relg s) (disg s) (lsc s) (silent s) (t_on s) (t_due s) (t_seq s) (t_adv s) (m_on s) (m_due s) (m_seq s) (relay s) (seqc s) (halted s) (late s) (outs s) (tr s).
Definition set_dstep (v : Z) (s : st) : st := mkst (now s) (lvl s) v (dval s) (d_on s) (d_due s) (d_seq s) (last s) (cc s) (maxc s) (act s) (relg s) (disg s) (lsc s) (silent s) (t_on s) (t_due s) (t_seq s) (t_adv s) (m_on s) (m_due s) (m_seq s) (relay s) (seqc s) (halted s) (late s) (outs s) (tr s).
Definition set_dval (v : Z) (s : st) : st := mkst (now s) (lvl s) (dstep s) v (d_on s) (d_due s) (d_seq s) (last s) (cc s) (maxc s) (act s) (relg s) (disg s) (lsc s) (silent s) (t_on s) (t_due s) (t_seq s) (t_adv s) (m_on s) (m_due s) (m_seq s) (relay s) (seqc s) (halted s) (late s) (outs s) (tr s).
Definition set_d_on (v : bool) (s : st) : st := mkst (now s) (lvl s) (dstep s) (dval s) v (d_due s) (d_seq s) (last s) (cc s) (maxc s) (act s) (relg s) (disg s) (lsc s) (silent s) (t_on s) (t_due s) (t_seq s) (t_adv s) (m_on s) (m_due s) (m_seq s) (relay s) (seqc s) (halted s) (late s) (outs s) (tr s).
Definition set_d_due (v : Z) (s : st) : st := mkst (now s) (lvl s) (dstep s) (dval s) (d_on s) v (d_seq s) (last s) (cc s) (maxc s) (act s) (relg s) (disg s) (lsc s) (silent s) (t_on s) (t_due s) (t_seq s) (t_adv s) (m_on s) (m_due s) (m_seq s) (relay s) (seqc s) (halted s) (late s) (outs s) (tr s).
Definition set_d_seq (v : Z) (s : st) : st := mkst (now s) (lvl s) (dstep s) (dval s) (d_on s) (d_due s) v (last s) (cc s) (maxc s) (act s) (relg s) (disg s) (lsc s) (silent s) (t_on s) (t_due s) (t_seq s) (t_adv s) (m_on s) (m_due s) (m_seq s) (relay s) (seqc s) (halted s) (late s) (outs s) (tr s).
Definition set_last (v : Z) (s : st) : st := mkst (now s) (lvl s) (dstep s) (dval s) (d_on s) (d_due s) (d_seq s) v (cc s) (maxc s) (act s) (relg s) (disg s) (lsc s) (silent s) (t_on s) (t_due s) (t_seq s) (t_adv s) (m_on s) (m_due s) (m_seq s) (relay s) (seqc s) (halted s) (late s) (outs s) (tr s).
Definition set_cc (v : Z) (s : st) : st := mkst (now s) (lvl s) (dstep s) (dval s) (d_on s) (d_due s) (d_seq s) (last s) v (maxc s) (act s) (relg s) (disg s) (lsc s) (silent s) (t_on s) (t_due s) (t_seq s) (t_adv s) (m_on s) (m_due s) (m_seq s) (relay s) (seqc s) (halted s) (late s) (outs s) (tr s).
Definition set_maxc (v : Z) (s : st) : st := mkst (now s) (lvl s) (dstep s) (dval s) (d_on s) (d_due s) (d_seq s) (last s) (cc s) v (act s) (relg s) (disg s) (lsc s) (silent s) (t_on s) (t_due s) (t_seq s) (t_adv s) (m_on s) (m_due s) (m_seq s) (relay s) (seqc s) (halted s) (late s) (outs s) (tr s).
Definition set_act (v : Z) (s : st) : st := mkst (now s) (lvl s) (dstep s) (dval s) (d_on s) (d_due s) (d_seq s) (last s) (cc s) (maxc s) v (relg s) (disg s) (lsc s) (silent s) (t_on s) (t_due s) (t_seq s) (t_adv s) (m_on s) (m_due s) (m_seq s) (relay s) (seqc s) (halted s) (late s) (outs s) (tr s).
Definition set_relg (v : Z) (s : st) : st := mkst (now s) (lvl s) (dstep s) (dval s) (d_on s) (d_due s) (d_seq s) (last s) (cc s) (maxc s) (act s) v (disg s) (lsc s) (silent s) (t_on s) (t_due s) (t_seq s) (t_adv s) (m_on s) (m_due s) (m_seq s) (relay s) (seqc s) (halted s) (late s) (outs s) (tr s).
Definition set_disg (v : Z) (s : st) : st := mkst (now s) (lvl s) (dstep s) (dval s) (d_on s) (d_due s) (d_seq s) (last s) (cc s) (maxc s) (act s) (relg s) v (lsc s) (silent s) (t_on s) (t_due s) (t_seq s) (t_adv s) (m_on s) (m_due s) (m_seq s) (relay s) (seqc s) (halted s) (late s) (outs s) (tr s).
Definition set_lsc (v : Z) (s : st) : st := mkst (now s) (lvl s) (dstep s) (dval s) (d_on s) (d_due s) (d_seq s) (last s) (cc s) (maxc s) (act s) (relg s) (disg s) v (silent s) (t_on s) (t_due s) (t_seq s) (t_adv s) (m_on s) (m_due s) (m_seq s) (relay s) (seqc s) (halted s) (late s) (outs s) (tr s).
Definition set_silent (v : bool) (s : st) : st := mkst (now s) (lvl s) (dstep s) (dval s) (d_on s) (d_due s) (d_seq s) (last s) (cc s) (maxc s) (act s) (relg s) (disg s) (lsc s) v (t_on s) (t_due s) (t_seq s) (t_adv s) (m_on s) (m_due s) (m_seq s) (relay s) (seqc s) (halted s) (late s) (outs s) (tr s).
Definition set_t_on (v : bool) (s : st) : st := mkst (now s) (lvl s) (dstep s) (dval s) (d_on s) (d_due s) (d_seq s) (last s) (cc s) (maxc s) (act s) (relg s) (disg s) (lsc s) (silent s) v (t_due s) (t_seq s) (t_adv s) (m_on s) (m_due s) (m_seq s) (relay s) (seqc s) (halted s) (late s) (outs s) (tr s).
Definition set_t_due (v : Z) (s : st) : st := mkst (now s) (lvl s) (dstep s) (dval s) (d_on s) (d_due s) (d_seq s) (last s) (cc s) (maxc s) (act s) (relg s) (disg s) (lsc s) (silent s) (t_on s) v (t_seq s) (t_adv s) (m_on s) (m_due s) (m_seq s) (relay s) (seqc s) (halted s) (late s) (outs s) (tr s).
Definition set_t_seq (v : Z) (s : st) : st := mkst (now s) (lvl s) (dstep s) (dval s) (d_on s) (d_due s) (d_seq s) (last s) (cc s) (maxc s) (act s) (relg s) (disg s) (lsc s) (silent s) (t_on s) (t_due s) v (t_adv s) (m_on s) (m_due s) (m_seq s) (relay s) (seqc s) (halted s) (late s) (outs s) (tr s).
Definition set_t_adv (v : bool) (s : st) : st := mkst (now s) (lvl s) (dstep s) (dval s) (d_on s) (d_due s) (d_seq s) (last s) (cc s) (maxc s) (act s) (relg s) (disg s) (lsc s) (silent s) (t_on s) (t_due s) (t_seq s) v (m_on s) (m_due s) (m_seq s) (relay s) (seqc s) (halted s) (late s) (outs s) (tr s).
Definition set_m_on (v : bool) (s : st) : st := mkst (now s) (lvl s) (dstep s) (dval s) (d_on s) (d_due s) (d_seq s) (last s) (cc s) (maxc s) (act s) (relg s) (disg s) (lsc s) (silent s) (t_on s) (t_due s) (t_seq s) (t_adv s) v (m_due s) (m_seq s) (relay s) (seqc s) (halted s) (late s) (outs s) (tr s).
Definition set_m_due (v : Z) (s : st) : st := mkst (now s) (lvl s) (dstep s) (dval s) (d_on s) (d_due s) (d_seq s) (last s) (cc s) (maxc s) (act s) (relg s) (disg s) (lsc s) (silent s) (t_on s) (t_due s) (t_seq s) (t_adv s) (m_on s) v (m_seq s) (relay s) (seqc s) (halted s) (late s) (outs s) (tr s).
Definition set_m_seq (v : Z) (s : st) : st := mkst (now s) (lvl s) (dstep s) (dval s) (d_on s) (d_due s) (d_seq s) (last s) (cc s) (maxc s) (act s) (relg s) (disg s) (lsc s) (silent s) (t_on s) (t_due s) (t_seq s) (t_adv s) (m_on s) (m_due s) v (relay s) (seqc s) (halted s) (late s) (outs s) (tr s).
Definition set_relay (v : Z) (s : st) : st := mkst (now s) (lvl s) (dstep s) (dval s) (d_on s) (d_due s) (d_seq s) (last s) (cc s) (maxc s) (act s) (relg s) (disg s) (lsc s) (silent s) (t_on s) (t_due s) (t_seq s) (t_adv s) (m_on s) (m_due s) (m_seq s) v (seqc s) (halted s) (late s) (outs s) (tr s).
Definition set_seqc (v : Z) (s : st) : st := mkst (now s) (lvl s) (dstep s) (dval s) (d_on s) (d_due s) (d_seq s) (last s) (cc s) (maxc s) (act s) (relg s) (disg s) (lsc s) (silent s) (t_on s) (t_due s) (t_seq s) (t_adv s) (m_on s) (m_due s) (m_seq s) (relay s) v (halted s) (late s) (outs s) (tr s).
Definition set_halted (v : bool) (s : st) : st := mkst (now s) (lvl s) (dstep s) (dval s) (d_on s) (d_due s) (d_seq s) (last s) (cc s) (maxc s) (act s) (relg s) (disg s) (lsc s) (silent s) (t_on s) (t_due s) (t_seq s) (t_adv s) (m_on s) (m_due s) (m_seq s) (relay s) (seqc s) v (late s) (outs s) (tr s).
Definition set_late (v : Z) (s : st) : st := mkst (now s) (lvl s) (dstep s) (dval s) (d_on s) (d_due s) (d_seq s) (last s) (cc s) (maxc s) (act s) (relg s) (disg s) (lsc s) (silent s) (t_on s) (t_due s) (t_seq s) (t_adv s) (m_on s) (m_due s) (m_seq s) (relay s) (seqc s) (halted s) v (outs s) (tr s).
Definition set_outs (v : list out) (s : st) : st := mkst (now s) (lvl s) (dstep s) (dval s) (d_on s) (d_due s) (d_seq s) (last s) (cc s) (maxc s) (act s) (relg s) (disg s) (lsc s) (silent s) (t_on s) (t_due s) (t_seq s) (t_adv s) (m_on s) (m_due s) (m_seq s) (relay s) (seqc s) (halted s) (late s) v (tr s).
Definition set_tr (v : list micro) (s : st) : st := mkst (now s) (lvl s) (dstep s) (dval s) (d_on s) (d_due s) (d_seq s) (last s) (cc s) (maxc s) (act s) (relg s) (disg s) (lsc s) (silent s) (t_on s) (t_due s) (t_seq s) (t_adv s) (m_on s) (m_due s) (m_seq s) (relay s) (seqc s) (halted s) (late s) (outs s) v.

Definition relc (s : st) : bool := negb (relg s =? NOREL).   (* relay_gpio_id != 255 *)

(* ---------- configuration predicates ---------- *)
Definition hasb (x f : Z) : bool := negb (Z.land x f =? 0).
Definition is_sensor (c : cfgT) := typ c =? TYPE_SENSOR.
Definition is_mono (c : cfgT) := typ c =? TYPE_MONOSTABLE.
Definition is_bi (c : cfgT) := typ c =? TYPE_BISTABLE.
Definition is_motion (c : cfgT) := typ c =? TYPE_MOTION.
Definition active_level (c : cfgT) : Z := if hasb (flags c) FLAG_PULLUP then 0 else 1.
(* supla_esp_input_is_cfg_button_enabled (the configuration of the harness is ready to connect) *)
Definition cfg_btn (c : cfgT) := hasb (flags c) FLAG_CFG_BTN.
Definition on_hold_en (c : cfgT) :=
  cfg_btn c && is_mono c && (negb (hasb (flags c) FLAG_CFG_ON_TOGGLE) || hasb (flags c) FLAG_CFG_ON_HOLD).
Definition on_toggle_en (c : cfgT) :=
  cfg_btn c && (is_bi c || is_motion c || hasb (flags c) FLAG_CFG_ON_TOGGLE).

Definition now32 (c : cfgT) (s : st) : Z := u32 (boot c + now s).
Definition init32 (c : cfgT) : Z := u32 (boot c).
Definition emit (o : out) (s : st) : st := set_outs (o :: outs s) s.
Definition halt (s : st) : st := set_halted true (emit (OCfgmode (now s)) s).
Definition arm_d (s : st) : st :=
  set_seqc (seqc s + 1) (set_d_seq (seqc s + 1) (set_d_due (now s + CYCLE_US) (set_d_on true s))).
Definition arm_t (s : st) : st :=
  set_seqc (seqc s + 1) (set_t_seq (seqc s + 1) (set_t_due (now s + CYCLE_US) (set_t_on true s))).

(* ---------- relay side (supla_esp_gpio.c) ---------- *)
(* supla_esp_gpio_relay_switch + relay_hi: 10 us, pin, RELAY_DOUBLE_TRY, pin again, 10 us, then the
   channel value is reported; hi = 255 toggles *)
Definition relay_switch (hi : Z) (s : st) : st :=
  let h := if hi =? 255 then (if relay s =? 1 then 0 else 1) else hi in
  let s1 := set_now (now s + RELAY_D1) s in
  let s2 := if h =? relay s1 then s1 else emit (OGpio (now s1) h) s1 in
  let s3 := set_relay h (set_now (now s2 + RELAY_DOUBLE_TRY_US + RELAY_D2) s2) in
  emit (OValue (now s3) RELAY_CH h) s3.

(* supla_esp_gpio_on_input_active; `logged` = called from supla_esp_input.c *)
Definition on_active (c : cfgT) (logged : bool) (s0 : st) : st :=
  let s := if logged then emit (OActive (now s0)) s0 else s0 in
  let adv := negb (act s =? 0) in
  if ((is_mono c && hasb (flags c) FLAG_TRIGGER_ON_PRESS) || is_bi c || is_motion c || adv) && relc s then
    if is_motion c then
      if hasb (act s) CAP_TURN_ON then s else relay_switch 1 s
    else relay_switch 255 s
  else if is_sensor c && negb (chan c =? 255) then emit (OValue (now s) (chan c) 1) s
  else s.

Definition on_inactive (c : cfgT) (logged : bool) (s0 : st) : st :=
  let s := if logged then emit (OInactive (now s0)) s0 else s0 in
  if ((is_mono c && negb (hasb (flags c) FLAG_TRIGGER_ON_PRESS)) || is_bi c || is_motion c) && relc s then
    if is_motion c then
      if hasb (act s) CAP_TURN_OFF then s else relay_switch 0 s
    else relay_switch 255 s
  else if is_sensor c && negb (chan c =? 255) then emit (OValue (now s) (chan c) 0) s
  else s.

(* ---------- action triggers ---------- *)
Definition click_action (c : cfgT) (n : Z) : Z :=
  if is_mono c then
    (if n =? 1 then CAP_PRESS_x1 else if n =? 2 then CAP_PRESS_x2 else if n =? 3 then CAP_PRESS_x3
     else if n =? 4 then CAP_PRESS_x4 else if n =? 5 then CAP_PRESS_x5 else 0)
  else if is_bi c then
    (if n =? 1 then CAP_TOGGLE_x1 else if n =? 2 then CAP_TOGGLE_x2 else if n =? 3 then CAP_TOGGLE_x3
     else if n =? 4 then CAP_TOGGLE_x4 else if n =? 5 then CAP_TOGGLE_x5 else 0)
  else 0.

Definition emit_trigger (c : cfgT) (a : Z) (s : st) : st :=
  if Z.land a (act s) =? 0 then s
  else if chan c =? 255 then s
  else emit (OTrig (now s) (chan c) a) s.

(* supla_esp_input_send_action_trigger (no roller shutter) *)
Definition send_trigger (c : cfgT) (action : Z) (s : st) : st :=
  if action =? 0 then
    if cc s =? -1 then s
    else if (cc s =? 1) && relc s then
      (if is_motion c then s else on_active c true s)
    else emit_trigger c (click_action c (cc s)) s
  else emit_trigger c action s.

(* supla_esp_input_set_active_triggers *)
Definition max_from_actions (a : Z) : Z :=
  if hasb a CAP_PRESS_x5 || hasb a CAP_TOGGLE_x5 then 5
  else if hasb a CAP_PRESS_x4 || hasb a CAP_TOGGLE_x4 then 4
  else if hasb a CAP_PRESS_x3 || hasb a CAP_TOGGLE_x3 then 3
  else if hasb a CAP_PRESS_x2 || hasb a CAP_TOGGLE_x2 then 2
  else if hasb a CAP_PRESS_x1 || hasb a CAP_TOGGLE_x1 then 1
  else 0.
Definition disconnects (c : cfgT) (a : Z) : bool :=
  (is_mono c && hasb a CAP_PRESS_x1) || (is_bi c && hasb a CAP_TOGGLE_x1) ||
  (is_motion c && hasb a CAP_TURN_ON && hasb a CAP_TURN_OFF).
Definition set_triggers (c : cfgT) (mask : Z) (s : st) : st :=
  let a := Z.land (cap c) mask in
  let m0 := if on_toggle_en c then CFG_PRESS_COUNT else 0 in
  let m := Z.max m0 (max_from_actions a) in
  let s1 := set_maxc m (set_act a s) in
  let s2 := if act s =? a then s1 else set_cc 0 (set_t_on false s1) in
  let s3 :=
    if disconnects c a then      (* supla_esp_input_disable_relay_connection *)
      (if disg s2 =? NOREL then set_relg NOREL (set_disg (relg s2) s2) else s2)
    else                         (* supla_esp_input_enable_relay_connection *)
      (if disg s2 =? NOREL then s2 else set_disg NOREL (set_relg (disg s2) s2)) in
  emit (OTrigset (now s3) a m (if relc s3 then 1 else 0)) s3.

(* ---------- state-change handlers (supla_esp_input.c) ---------- *)
Definition counts_click (c : cfgT) (st_ : Z) : bool := (is_mono c && (st_ =? ST_ACTIVE)) || is_bi c || is_motion c.

Definition legacy_handler (c : cfgT) (st_ : Z) (s0 : st) : st :=
  let s := set_t_on false s0 in
  let s1 :=
    if cfg_btn c then
      let s' := if CFG_COUNT_RESET_US <=? u32 (now32 c s - lsc s) then set_cc 1 s
                else if counts_click c st_ then set_cc (s8 (cc s + 1)) s else s in
      if on_toggle_en c && (CFG_PRESS_COUNT <=? cc s') then halt (set_cc 0 s') else s'
    else s in
  if halted s1 then s1
  else if st_ =? ST_ACTIVE then
    let s2 := if on_hold_en c then arm_t s1 else s1 in
    on_active c true (set_lsc (now32 c s2) s2)
  else on_inactive c true s1.

Definition adv_handler (c : cfgT) (st_ : Z) (s0 : st) : st :=
  let s := set_t_on false s0 in
  let s1 :=
    if negb (cc s =? -1) && counts_click c st_ then
      let sa := set_cc (s8 (cc s + 1)) s in
      let sb := if (is_bi c || is_motion c) && (st_ =? ST_ACTIVE) then
                  let sb' := emit_trigger c CAP_TURN_ON sa in
                  if is_motion c then on_active c true sb' else sb'
                else sa in
      if on_toggle_en c && (CFG_PRESS_COUNT <=? cc sb) then halt (set_cc 0 sb) else sb
    else s in
  if halted s1 then s1
  else
    let s2 := if st_ =? ST_INACTIVE then
                let s2' := emit_trigger c CAP_TURN_OFF s1 in
                if is_motion c then on_inactive c true s2' else s2'
              else s1 in
    arm_t (set_lsc (now32 c s2) s2).

(* supla_esp_input_notify_state_change *)
Definition notify (c : cfgT) (st_ : Z) (s0 : st) : st :=
  let s := emit (ONotify (now s0) st_ (last s0) (cc s0)) s0 in
  if silent s && (u32 (now32 c s - init32 c) <? SILENT_US) then set_last st_ s
  else
    let s := set_silent false s in
    if last s =? st_ then s
    else
      let s1 := set_last st_ (set_t_on false s) in
      if negb (act s1 =? 0) then adv_handler c st_ (set_t_adv true s1)
      else legacy_handler c st_ (set_t_adv false s1).

(* ---------- timer callbacks ---------- *)
(* supla_esp_input_debounce_timer_cb *)
Definition deb_cb (c : cfgT) (s : st) : st :=
  let cur := lvl s in
  if (dstep s =? 1) || negb (dval s =? cur) then set_dstep 2 (set_dval cur s)
  else if MIN_CYCLE_COUNT <? dstep s then
    let s1 := notify c (if cur =? active_level c then ST_ACTIVE else ST_INACTIVE) s in
    if halted s1 then s1 else set_dstep 0 (set_d_on false s1)
  else set_dstep (dstep s + 1) s.

(* supla_esp_input_legacy_timer_cb *)
Definition legacy_timer (c : cfgT) (s : st) : st :=
  if (last s =? ST_ACTIVE) && on_hold_en c && (CFG_PRESS_US <=? u32 (now32 c s - lsc s))
  then halt (set_cc 0 (set_t_on false s)) else s.

(* supla_esp_input_advanced_timer_cb *)
Definition adv_timer (c : cfgT) (s : st) : st :=
  let delta := u32 (now32 c s - lsc s) in
  let s1 :=
    if is_mono c && (last s =? ST_ACTIVE) && negb (cc s =? -1) then
      let sa := if on_hold_en c && (CFG_PRESS_US <=? delta) then halt (set_cc 0 (set_t_on false s)) else s in
      if halted sa then sa
      else if (cc sa =? 1) && (HOLD_US <=? delta) then
        let sb := set_cc 0 (emit_trigger c CAP_HOLD sa) in
        if on_hold_en c then sb else set_t_on false sb
      else sa
    else s in
  if halted s1 then s1
  else if (last s1 =? ST_INACTIVE) || is_bi c || is_motion c then
    if MULTICLICK_US <=? delta then set_cc 0 (send_trigger c 0 (set_t_on false s1))
    else if maxc s1 <=? cc s1 then
      let s2 := set_cc (-1) (send_trigger c 0 s1) in
      if maxc s2 <=? 1 then set_cc 0 (set_t_on false s2) else s2
    else s1
  else s1.

(* supla_esp_gpio_set_motion_sensor_state *)
Definition mot_cb (c : cfgT) (s : st) : st :=
  if relc s && is_motion c then
    if last s =? ST_ACTIVE then on_active c false s
    else if last s =? ST_INACTIVE then on_inactive c false s else s
  else s.

(* supla_esp_gpio_intr_handler -> supla_esp_input_start_debounce_timer *)
(* rst c = true: the repaired code (docs/fixes/C11_debounce_restart.diff) — an edge that arrives while the
   sampler runs restarts the count; rst c = false: the code as it is, such an edge is ignored *)
Definition isr (c : cfgT) (s : st) : st :=
  if dstep s =? 0 then arm_d (set_dstep 1 s) else if rst c then set_dstep 1 s else s.

(* ---------- micro-steps ---------- *)
(* largest overdue amount of an armed timer (negative when none is due) *)
Definition pend (s : st) : Z :=
  Z.max (if d_on s then now s - d_due s else -1)
        (Z.max (if t_on s then now s - t_due s else -1) (if m_on s then now s - m_due s else -1)).

Definition mact (c : cfgT) (m : micro) (s : st) : st :=
  if halted s then s else
  match m with
  | MTime t => if now s <=? t then set_now t s else s
  | MIn l => if l =? lvl s then s else isr c (set_lvl l s)
  | MDeb => if d_on s && (d_due s <=? now s)
            then deb_cb c (set_seqc (seqc s + 1) (set_d_seq (seqc s + 1) (set_d_due (d_due s + CYCLE_US) s)))
            else s
  | MTim => if t_on s && (t_due s <=? now s)
            then let s1 := set_seqc (seqc s + 1) (set_t_seq (seqc s + 1) (set_t_due (t_due s + CYCLE_US) s)) in
                 if t_adv s then adv_timer c s1 else legacy_timer c s1
            else s
  | MMot => if m_on s && (m_due s <=? now s) then mot_cb c (set_m_on false s) else s
  | MTrig mask => set_triggers c mask s
  | MFault => emit OFault s          (* the scheduler below ran out of fuel: never happens in the checked runs *)
  end.

Definition mstep (c : cfgT) (m : micro) (s : st) : st :=
  let s1 := mact c m s in
  set_tr (m :: tr s1) (set_late (Z.max (late s1) (pend s1)) s1).

Definition mrun (c : cfgT) (ms : list micro) (s : st) : st := fold_left (fun s m => mstep c m s) ms s.

(* state right after supla_esp_gpio_init() at true time 0 with the pin at level l0 *)
Definition init (c : cfgT) (l0 : Z) : st :=
  let motion := is_motion c && rel c in
  mkst 0 l0 1 0 true CYCLE_US 1
       ST_INACTIVE 0 0 0 (if rel c then RELAY_GPIO else NOREL) NOREL 0 true
       false 0 0 false motion MOTION_INIT_US 2
       0 2 false (-1) [] [].

(* ---------- the scheduler of the harness double ---------- *)
Inductive tmr := TD | TT | TM.
Definition better (a b : option (Z * Z * tmr)) : option (Z * Z * tmr) :=
  match a, b with
  | None, _ => b | _, None => a
  | Some (da, sa, _), Some (db, sb, _) => if (da <? db) || ((da =? db) && (sa <? sb)) then a else b
  end.
Definition pick (s : st) (e : Z) : option (Z * Z * tmr) :=
  let d := if d_on s && (d_due s <=? e) then Some (d_due s, d_seq s, TD) else None in
  let t := if t_on s && (t_due s <=? e) then Some (t_due s, t_seq s, TT) else None in
  let m := if m_on s && (m_due s <=? e) then Some (m_due s, m_seq s, TM) else None in
  better d (better t m).
Definition micro_of (k : tmr) : micro := match k with TD => MDeb | TT => MTim | TM => MMot end.

Fixpoint fire_due (c : cfgT) (fuel : nat) (e : Z) (s : st) : st :=
  match fuel with
  | O => match pick s e with None => s | Some _ => mstep c MFault s end
  | S f =>
    match pick s e with
    | None => s
    | Some (due, _, k) =>
      let s1 := mstep c (MTime (Z.max (now s) due)) s in
      let s2 := mstep c (micro_of k) s1 in
      if halted s2 then s2 else fire_due c f e s2
    end
  end.

Inductive event := EAdv (dt : Z) | EBusy (dt : Z) | EIn (l : Z) | ETrig (mask : Z) | ENop.

Definition estep (c : cfgT) (s : st) (ev : event) : st :=
  if halted s then s else
  match ev with
  | EAdv dt =>
    let e := now s + dt in
    let s1 := fire_due c (Z.to_nat (dt / 5000) + 100) e s in
    if halted s1 then s1 else mstep c (MTime (Z.max (now s1) e)) s1
  | EBusy dt => mstep c (MTime (now s + dt)) s
  | EIn l => mstep c (MIn l) s
  | ETrig mask => mstep c (MTrig mask) s
  | ENop => s
  end.
Definition run_from (c : cfgT) (s : st) (evs : list event) : st := fold_left (estep c) evs s.
Definition run (c : cfgT) (l0 : Z) (evs : list event) : st := run_from c (init c l0) evs.

(* ---------- wire interface ---------- *)
(* which variant of the C code the correspondence check runs against *)
Definition CURRENT_RESTART : bool := true.
Definition default_cfg : cfgT := {| boot := 1; typ := TYPE_MONOSTABLE; flags := 0; rel := true; chan := 255; cap := 0; rst := CURRENT_RESTART |}.
Definition nthd (l : list Z) (n : nat) : Z := nth n l 0.
Definition cfg_of_wire (a : list Z) : cfgT * Z :=
  ({| boot := nthd a 0; typ := nthd a 1; flags := nthd a 2; rel := negb (nthd a 3 =? 0);
      chan := nthd a 4; cap := nthd a 5;
      (* 8th integer: 0 = the current variant, 1 = the code without the fix, 2 = the code with the fix *)
      rst := if nthd a 7 =? 1 then false else if nthd a 7 =? 2 then true else CURRENT_RESTART |},
   if nthd a 6 =? 0 then 0 else 1).
Definition event_of_wire (w : wire) : event :=
  match w with
  | (k, a, _) =>
    if k =? 1 then EAdv (nthd a 0) else if k =? 2 then EBusy (nthd a 0)
    else if k =? 3 then EIn (if nthd a 0 =? 0 then 0 else 1) else if k =? 4 then ETrig (nthd a 0) else ENop
  end.
Definition wire_of_out (o : out) : wire :=
  match o with
  | ONotify t a b c => mk 0 [t; a; b; c] []
  | OActive t => mk 1 [t] []
  | OInactive t => mk 2 [t] []
  | OGpio t l => mk 3 [t; l] []
  | OTrig t ch a => mk 4 [t; ch; a] []
  | OValue t ch v => mk 5 [t; ch; v] []
  | OTrigset t a m r => mk 6 [t; a; m; r] []
  | OCfgmode t => mk 7 [t] []
  | OFinal t la c ds r => mk 8 [t; la; c; ds; r] []
  | OFault => mk 9 [] []
  end.
Definition final_out (s : st) : list out :=
  if halted s then [] else [OFinal (now s) (last s) (cc s) (dstep s) (relay s)].
(* the first wire must be CFG (kind 0) *)
Definition main_wire (ws : list wire) : list wire :=
  match ws with
  | (k, a, _) :: rest =>
    let '(c, l0) := if k =? 0 then cfg_of_wire a else (default_cfg, 0) in
    let s := run c l0 (map event_of_wire (if k =? 0 then rest else ws)) in
    map wire_of_out (rev (outs s) ++ final_out s)
  | [] => []
  end.
