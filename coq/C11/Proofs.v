(* C11 — proofs about the model of C11/Model.v. *)
From Coq Require Import List ZArith Bool Lia.
Import ListNotations.
From V Require Import Base.U32 Base.Iface Gen.InputConsts C11.Model.
Local Open Scope Z_scope.

(* ---------- the generated constants the proofs depend on ---------- *)
Record consts_facts : Prop := {
  cf_cycle : CYCLE_US = 20000;
  cf_min : MIN_CYCLE_COUNT = 5;
  cf_act : ST_ACTIVE = 1;
  cf_inact : ST_INACTIVE = 0;
  cf_d1 : RELAY_D1 = 10; cf_d2 : RELAY_D2 = 10; cf_dt : 0 <= RELAY_DOUBLE_TRY_US
}.
Lemma CF : consts_facts.
Proof. split; vm_compute; try reflexivity; discriminate. Qed.

Definition ACCEPT_US : Z := CYCLE_US * (MIN_CYCLE_COUNT + 1).
Lemma accept_us : ACCEPT_US = 120000. Proof. reflexivity. Qed.
(* keep cbn/simpl from unfolding the constants into binary numerals *)
Arguments CYCLE_US : simpl never.
Arguments MIN_CYCLE_COUNT : simpl never.
Arguments ACCEPT_US : simpl never.
Arguments SILENT_US : simpl never.
Arguments HOLD_US : simpl never.
Arguments MULTICLICK_US : simpl never.
Arguments CFG_PRESS_US : simpl never.
Arguments CFG_COUNT_RESET_US : simpl never.
Arguments MOTION_INIT_US : simpl never.
Arguments RELAY_D1 : simpl never.
Arguments RELAY_D2 : simpl never.
Arguments RELAY_DOUBLE_TRY_US : simpl never.
Arguments ST_ACTIVE : simpl never.
Arguments ST_INACTIVE : simpl never.
Arguments CFG_PRESS_COUNT : simpl never.
Arguments u32 : simpl never.
Arguments s8 : simpl never.
Arguments Z.mul : simpl never.
Arguments Z.add : simpl never.
Arguments Z.sub : simpl never.
Arguments Z.max : simpl never.
Arguments Z.land : simpl never.

(* ---------- observations on the output list ---------- *)
(* a "changing" notify: supla_esp_input_notify_state_change called with a state different from last_state *)
Definition chgb (o : out) : bool := match o with ONotify _ a b _ => negb (a =? b) | _ => false end.
Definition chg (l : list out) : nat := length (filter chgb l).
Definition stl (c : cfgT) (l : Z) : Z := if l =? active_level c then ST_ACTIVE else ST_INACTIVE.
Definition is_in (m : micro) : bool := match m with MIn _ => true | _ => false end.
Definition no_in (ms : list micro) : Prop := forallb (fun m => negb (is_in m)) ms = true.

Lemma chg_cons o l : chg (o :: l) = (if chgb o then S (chg l) else chg l).
Proof. unfold chg; simpl; destruct (chgb o); reflexivity. Qed.

(* ---------- frame: what everything except the sampler leaves alone ---------- *)
Record frame (s s' : st) : Prop := {
  f_lvl : lvl s' = lvl s; f_dstep : dstep s' = dstep s; f_dval : dval s' = dval s; f_don : d_on s' = d_on s;
  f_ddue : d_due s' = d_due s; f_last : last s' = last s; f_chg : chg (outs s') = chg (outs s);
  f_late : late s' = late s; f_tr : tr s' = tr s; f_now : now s <= now s' }.

Lemma frame_refl s : frame s s.
Proof. constructor; reflexivity || lia. Qed.
Lemma frame_trans a b d : frame a b -> frame b d -> frame a d.
Proof. intros [] []; constructor; try congruence; lia. Qed.

Ltac fr_set := intros s x v H; eapply frame_trans; [exact H|]; destruct x; constructor; cbn; reflexivity || lia.
Lemma fr_set_cc : forall s x v, frame s x -> frame s (set_cc v x). Proof. fr_set. Qed.
Lemma fr_set_maxc : forall s x v, frame s x -> frame s (set_maxc v x). Proof. fr_set. Qed.
Lemma fr_set_act : forall s x v, frame s x -> frame s (set_act v x). Proof. fr_set. Qed.
Lemma fr_set_relg : forall s x v, frame s x -> frame s (set_relg v x). Proof. fr_set. Qed.
Lemma fr_set_disg : forall s x v, frame s x -> frame s (set_disg v x). Proof. fr_set. Qed.
Lemma fr_set_lsc : forall s x v, frame s x -> frame s (set_lsc v x). Proof. fr_set. Qed.
Lemma fr_set_silent : forall s x v, frame s x -> frame s (set_silent v x). Proof. fr_set. Qed.
Lemma fr_set_t_on : forall s x v, frame s x -> frame s (set_t_on v x). Proof. fr_set. Qed.
Lemma fr_set_t_due : forall s x v, frame s x -> frame s (set_t_due v x). Proof. fr_set. Qed.
Lemma fr_set_t_seq : forall s x v, frame s x -> frame s (set_t_seq v x). Proof. fr_set. Qed.
Lemma fr_set_t_adv : forall s x v, frame s x -> frame s (set_t_adv v x). Proof. fr_set. Qed.
Lemma fr_set_m_on : forall s x v, frame s x -> frame s (set_m_on v x). Proof. fr_set. Qed.
Lemma fr_set_relay : forall s x v, frame s x -> frame s (set_relay v x). Proof. fr_set. Qed.
Lemma fr_set_seqc : forall s x v, frame s x -> frame s (set_seqc v x). Proof. fr_set. Qed.
Lemma fr_set_halted : forall s x v, frame s x -> frame s (set_halted v x). Proof. fr_set. Qed.
Lemma fr_set_now : forall s x v, now x <= v -> frame s x -> frame s (set_now v x).
Proof. intros s x v Hv H; eapply frame_trans; [exact H|]; destruct x; constructor; cbn in *; reflexivity || lia. Qed.
Lemma fr_emit : forall s x o, chgb o = false -> frame s x -> frame s (emit o x).
Proof.
  intros s x o Ho H; eapply frame_trans; [exact H|].
  assert (E : outs (emit o x) = o :: outs x) by (destruct x; reflexivity).
  constructor; try (destruct x; cbn; reflexivity || lia).
  rewrite E, chg_cons, Ho; reflexivity.
Qed.

Ltac fr :=
  repeat first
    [ assumption | apply frame_refl
    | apply fr_set_cc | apply fr_set_maxc | apply fr_set_act | apply fr_set_relg | apply fr_set_disg | apply fr_set_lsc
    | apply fr_set_silent | apply fr_set_t_on | apply fr_set_t_due | apply fr_set_t_seq | apply fr_set_t_adv
    | apply fr_set_m_on | apply fr_set_relay | apply fr_set_seqc | apply fr_set_halted
    | apply fr_emit; [reflexivity|]
    | match goal with |- frame _ (if ?b then _ else _) => destruct b end ].

Lemma fr_halt s x : frame s x -> frame s (halt x).
Proof. intros; unfold halt; fr. Qed.
Lemma fr_arm_t s x : frame s x -> frame s (arm_t x).
Proof. intros; unfold arm_t; fr. Qed.

Lemma fr_relay_switch s x hi : frame s x -> frame s (relay_switch hi x).
Proof.
  intros H. pose proof CF as [_ _ _ _ D1 D2 DT]. unfold relay_switch. cbv zeta.
  apply fr_emit; [reflexivity|]. apply fr_set_relay.
  apply fr_set_now.
  - destruct (_ =? relay _); [|unfold emit]; destruct x; cbn; lia.
  - destruct (_ =? relay _).
    + apply fr_set_now; [lia|assumption].
    + apply fr_emit; [reflexivity|]. apply fr_set_now; [lia|assumption].
Qed.

Lemma fr_on_active c lg s x : frame s x -> frame s (on_active c lg x).
Proof.
  intros H. unfold on_active. cbv zeta.
  assert (H1 : frame s (if lg then emit (OActive (now x)) x else x)) by (destruct lg; fr).
  set (y := if lg then _ else x) in *. clearbody y.
  repeat first [ assumption | apply fr_relay_switch | apply fr_emit; [reflexivity|]
               | match goal with |- frame _ (if ?b then _ else _) => destruct b end ].
Qed.
Lemma fr_on_inactive c lg s x : frame s x -> frame s (on_inactive c lg x).
Proof.
  intros H. unfold on_inactive. cbv zeta.
  assert (H1 : frame s (if lg then emit (OInactive (now x)) x else x)) by (destruct lg; fr).
  set (y := if lg then _ else x) in *. clearbody y.
  repeat first [ assumption | apply fr_relay_switch | apply fr_emit; [reflexivity|]
               | match goal with |- frame _ (if ?b then _ else _) => destruct b end ].
Qed.
Lemma fr_emit_trigger c a s x : frame s x -> frame s (emit_trigger c a x).
Proof. intros; unfold emit_trigger; fr. Qed.
Lemma fr_send_trigger c a s x : frame s x -> frame s (send_trigger c a x).
Proof.
  intros; unfold send_trigger.
  repeat first [ assumption | apply fr_on_active | apply fr_emit_trigger
               | match goal with |- frame _ (if ?b then _ else _) => destruct b end ].
Qed.
Lemma fr_set_triggers c m s x : frame s x -> frame s (set_triggers c m x).
Proof. intros; unfold set_triggers; cbv zeta; fr. Qed.

Ltac fr2 :=
  repeat first
    [ assumption | apply frame_refl
    | apply fr_set_cc | apply fr_set_maxc | apply fr_set_act | apply fr_set_relg | apply fr_set_disg | apply fr_set_lsc
    | apply fr_set_silent | apply fr_set_t_on | apply fr_set_t_due | apply fr_set_t_seq | apply fr_set_t_adv
    | apply fr_set_m_on | apply fr_set_relay | apply fr_set_seqc | apply fr_set_halted
    | apply fr_emit; [reflexivity|]
    | apply fr_halt | apply fr_arm_t | apply fr_on_active | apply fr_on_inactive
    | apply fr_emit_trigger | apply fr_send_trigger
    | match goal with |- frame _ (if ?b then _ else _) => destruct b end
    | match goal with |- frame _ (let _ := _ in _) => cbv zeta end ].

Lemma fr_legacy_handler c st_ s x : frame s x -> frame s (legacy_handler c st_ x).
Proof. intros; unfold legacy_handler; cbv zeta; fr2. Qed.
Lemma fr_adv_handler c st_ s x : frame s x -> frame s (adv_handler c st_ x).
Proof. intros; unfold adv_handler; cbv zeta; fr2. Qed.
Lemma fr_legacy_timer c s x : frame s x -> frame s (legacy_timer c x).
Proof. intros; unfold legacy_timer; fr2. Qed.
Lemma fr_adv_timer c s x : frame s x -> frame s (adv_timer c x).
Proof. intros; unfold adv_timer; cbv zeta; fr2. Qed.
Lemma fr_mot_cb c s x : frame s x -> frame s (mot_cb c x).
Proof. intros; unfold mot_cb; fr2. Qed.

(* ---------- the sampler is touched only by the interrupt and by its own timer ---------- *)

Lemma mact_frame c m s : is_in m = false -> m <> MDeb -> frame s (mact c m s).
Proof.
  intros Hi Hd. unfold mact. destruct (halted s); [apply frame_refl|].
  destruct m; try discriminate; try congruence.
  - destruct (now s <=? t) eqn:E; [|apply frame_refl]. apply Z.leb_le in E. apply fr_set_now; [exact E|apply frame_refl].
  - destruct (t_on s && (t_due s <=? now s)); [|apply frame_refl]. cbv zeta.
    destruct (t_adv s); [apply fr_adv_timer|apply fr_legacy_timer]; fr.
  - destruct (m_on s && (m_due s <=? now s)); [|apply frame_refl]. apply fr_mot_cb; fr.
  - apply fr_set_triggers; apply frame_refl.
  - apply fr_emit; [reflexivity|apply frame_refl].
Qed.

Lemma mstep_proj c m s :
  let a := mact c m s in let b := mstep c m s in
  lvl b = lvl a /\ dstep b = dstep a /\ dval b = dval a /\ d_on b = d_on a /\ d_due b = d_due a /\
  last b = last a /\ outs b = outs a /\ now b = now a /\ halted b = halted a.
Proof. unfold mstep; cbv zeta; destruct (mact c m s); cbn; repeat split. Qed.
Lemma halted_mstep c m s : halted (mstep c m s) = halted (mact c m s).
Proof. unfold mstep; cbv zeta; destruct (mact c m s); reflexivity. Qed.
Lemma late_mstep c m s : late (mstep c m s) = Z.max (late (mact c m s)) (pend (mact c m s)).
Proof. unfold mstep; cbv zeta; destruct (mact c m s); reflexivity. Qed.
Lemma pend_mstep c m s : pend (mstep c m s) = pend (mact c m s).
Proof. unfold mstep; cbv zeta; destruct (mact c m s); reflexivity. Qed.
Lemma mact_halted c m s : halted s = true -> mact c m s = s.
Proof. intros H; unfold mact; rewrite H; reflexivity. Qed.

(* notify: only last_state, the silent flag, the machine and the outputs change *)
Record sframe (s s' : st) : Prop := {
  sf_lvl : lvl s' = lvl s; sf_dstep : dstep s' = dstep s; sf_dval : dval s' = dval s; sf_don : d_on s' = d_on s;
  sf_ddue : d_due s' = d_due s; sf_late : late s' = late s; sf_tr : tr s' = tr s; sf_now : now s <= now s' }.
Lemma frame_sframe s s' : frame s s' -> sframe s s'.
Proof. intros []; constructor; assumption. Qed.

Lemma notify_spec c st_ s :
  sframe s (notify c st_ s) /\ last (notify c st_ s) = st_ /\
  chg (outs (notify c st_ s)) = (if last s =? st_ then chg (outs s) else S (chg (outs s))).
Proof.
  unfold notify. cbv zeta.
  set (s1 := emit (ONotify (now s) st_ (last s) (cc s)) s).
  assert (E1 : outs s1 = ONotify (now s) st_ (last s) (cc s) :: outs s) by (destruct s; reflexivity).
  assert (C1 : chg (outs s1) = (if last s =? st_ then chg (outs s) else S (chg (outs s)))).
  { rewrite E1, chg_cons. cbn. rewrite Z.eqb_sym. destruct (last s =? st_); reflexivity. }
  assert (L1 : last s1 = last s) by (destruct s; reflexivity).
  assert (F1 : sframe s s1) by (destruct s; constructor; cbn; reflexivity || lia).
  destruct (silent s1 && _).
  - split; [|split].
    + destruct F1; destruct s1; constructor; cbn in *; congruence || lia.
    + destruct s1; reflexivity.
    + rewrite <- C1. destruct s1; reflexivity.
  - assert (L2 : last (set_silent false s1) = last s1) by (destruct s1; reflexivity).
    destruct (last (set_silent false s1) =? st_) eqn:E.
    + apply Z.eqb_eq in E. split; [|split].
      * destruct F1; destruct s1; constructor; cbn in *; congruence || lia.
      * exact E.
      * rewrite <- C1. destruct s1; reflexivity.
    + set (s2 := set_last st_ (set_t_on false (set_silent false s1))).
      assert (F2 : sframe s s2) by (destruct F1; destruct s1; constructor; cbn in *; congruence || lia).
      assert (L3 : last s2 = st_) by (destruct s1; reflexivity).
      assert (C2 : chg (outs s2) = chg (outs s1)) by (destruct s1; reflexivity).
      assert (F3 : frame s2 (if negb (act s2 =? 0) then adv_handler c st_ (set_t_adv true s2)
                             else legacy_handler c st_ (set_t_adv false s2))).
      { destruct (negb _); [apply fr_adv_handler|apply fr_legacy_handler]; fr. }
      destruct F3 as [a1 a2 a3 a4 a5 a6 a7 a9 a10 a8]. destruct F2 as [b1 b2 b3 b4 b5 b7 b8 b6].
      split; [|split].
      * constructor; try congruence; lia.
      * congruence.
      * rewrite a7, C2. exact C1.
Qed.

(* ---------- well-formedness of the sampler in every reachable state ---------- *)
Record WF (c : cfgT) (s : st) : Prop := {
  wf_range : 0 <= dstep s <= MIN_CYCLE_COUNT + 1;
  wf_on : d_on s = true <-> dstep s <> 0;
  wf_idle : dstep s = 0 -> last s = stl c (lvl s);
  wf_due : d_on s = true -> d_due s <= now s + CYCLE_US }.

Lemma WF_frame c s s' : frame s s' -> WF c s -> WF c s'.
Proof.
  intros [a1 a2 a3 a4 a5 a6 a7 a9 a10 a8] [w1 w2 w3 w4]. constructor.
  - rewrite a2; exact w1.
  - rewrite a4, a2; exact w2.
  - rewrite a2, a6, a1; exact w3.
  - rewrite a4, a5; intros H; specialize (w4 H); lia.
Qed.

(* the debounce callback, case by case; s is the state after the repeating timer was re-armed *)
Definition caseA (s : st) : bool := (dstep s =? 1) || negb (dval s =? lvl s).
Definition caseB (s : st) : bool := negb (caseA s) && (MIN_CYCLE_COUNT <? dstep s).
Lemma deb_cb_A c s : caseA s = true -> deb_cb c s = set_dstep 2 (set_dval (lvl s) s).
Proof. unfold caseA, deb_cb; cbv zeta; intros ->; reflexivity. Qed.
Lemma deb_cb_B c s : caseB s = true ->
  deb_cb c s = let s1 := notify c (stl c (lvl s)) s in if halted s1 then s1 else set_dstep 0 (set_d_on false s1).
Proof.
  unfold caseB, caseA, deb_cb, stl; cbv zeta; intros H. apply andb_prop in H as [H1 H2].
  apply negb_true_iff in H1. rewrite H1, H2. reflexivity.
Qed.
Lemma deb_cb_C c s : caseA s = false -> caseB s = false -> deb_cb c s = set_dstep (dstep s + 1) s.
Proof.
  unfold caseB, caseA, deb_cb; cbv zeta; intros H1 H2. rewrite H1 in *. cbn in H2. rewrite H2. reflexivity.
Qed.

Definition rearm_d (s : st) : st := set_seqc (seqc s + 1) (set_d_seq (seqc s + 1) (set_d_due (d_due s + CYCLE_US) s)).
Lemma mact_deb c s : halted s = false ->
  mact c MDeb s = if d_on s && (d_due s <=? now s) then deb_cb c (rearm_d s) else s.
Proof. intros H; unfold mact; rewrite H; reflexivity. Qed.

Lemma micro_eq_deb (m : micro) : {m = MDeb} + {m <> MDeb}.
Proof. destruct m; (left; reflexivity) || (right; discriminate). Qed.

Ltac wfin := try lia; try assumption; try reflexivity; try discriminate; try congruence;
  try (split; intros; (lia || congruence || assumption || reflexivity || discriminate)).

Lemma WF_mact c m s : WF c s -> halted (mact c m s) = false -> WF c (mact c m s).
Proof.
  intros W Hh. destruct (halted s) eqn:Hs; [rewrite mact_halted in * by assumption; exact W|].
  pose proof CF as [Cy Mi _ _ _ _ _].
  destruct (is_in m) eqn:Ei.
  { destruct m; try discriminate. unfold mact in *. rewrite Hs in *.
    destruct (l =? lvl s) eqn:El; [exact W|]. destruct W as [w1 w2 w3 w4]. unfold isr.
    assert (E0 : dstep (set_lvl l s) = dstep s) by (destruct s; reflexivity). rewrite E0.
    destruct (dstep s =? 0) eqn:E; [|destruct (rst c)].
    - apply Z.eqb_eq in E. destruct s; cbn in *; constructor; cbn; wfin.
    - apply Z.eqb_neq in E. assert (Don : d_on s = true) by (apply w2; exact E).
      destruct s; cbn in *; constructor; cbn; wfin.
    - apply Z.eqb_neq in E. destruct s; cbn in *; constructor; cbn; wfin. }
  destruct (micro_eq_deb m) as [->|Hd].
  2:{ eapply WF_frame; [apply mact_frame; assumption|exact W]. }
  rewrite mact_deb in * by assumption.
  destruct (d_on s && (d_due s <=? now s)) eqn:Ep; [|exact W].
  apply andb_prop in Ep as [Ep1 Ep2]. apply Z.leb_le in Ep2.
  destruct W as [w1 w2 w3 w4].
  assert (R1 : dstep (rearm_d s) = dstep s /\ dval (rearm_d s) = dval s /\ lvl (rearm_d s) = lvl s /\
               d_on (rearm_d s) = d_on s /\ d_due (rearm_d s) = d_due s + CYCLE_US /\ now (rearm_d s) = now s /\
               last (rearm_d s) = last s) by (destruct s; cbn; repeat split).
  destruct R1 as (r1 & r2 & r3 & r4 & r5 & r6 & r7). specialize (w4 Ep1).
  destruct (caseA (rearm_d s)) eqn:EA.
  - rewrite deb_cb_A by assumption. set (x := rearm_d s) in *.
    destruct x; cbn in *; constructor; cbn; wfin.
  - destruct (caseB (rearm_d s)) eqn:EB.
    + rewrite deb_cb_B in * by assumption. cbv zeta in *.
      destruct (notify_spec c (stl c (lvl (rearm_d s))) (rearm_d s)) as ([n1 n2 n3 n4 n5 n7 n8 n6] & nl & _).
      set (y := notify c _ _) in *. destruct (halted y) eqn:Hy; [congruence|].
      destruct y; cbn in *; constructor; cbn; wfin.
    + rewrite deb_cb_C by assumption. unfold caseB in EB. rewrite EA in EB. cbn in EB. apply Z.ltb_ge in EB.
      set (x := rearm_d s) in *. unfold caseA in EA. apply orb_false_iff in EA as [EA1 EA2]. apply Z.eqb_neq in EA1.
      destruct x; cbn in *; constructor; cbn; wfin.
Qed.

(* ---------- halted is absorbing, time never goes back ---------- *)
Lemma halted_sticky c m s : halted s = true -> halted (mstep c m s) = true.
Proof. intros H. rewrite halted_mstep, mact_halted; assumption. Qed.
Lemma mstep_halted_id c m s : halted s = true ->
  lvl (mstep c m s) = lvl s /\ dstep (mstep c m s) = dstep s /\ last (mstep c m s) = last s /\
  outs (mstep c m s) = outs s /\ now (mstep c m s) = now s.
Proof. intros H. unfold mstep. rewrite mact_halted by assumption. destruct s; cbn; repeat split. Qed.

Lemma deb_fields c s : halted s = false -> d_on s = true -> d_due s <= now s ->
  let x := rearm_d s in let r := mact c MDeb s in
  (caseA x = true /\ dstep r = 2 /\ dval r = lvl s /\ lvl r = lvl s /\ d_on r = true /\ d_due r = d_due s + CYCLE_US /\
     last r = last s /\ outs r = outs s /\ now r = now s /\ halted r = false) \/
  (caseA x = false /\ caseB x = true /\ lvl r = lvl s /\ last r = stl c (lvl s) /\ now s <= now r /\
     chg (outs r) = (if last s =? stl c (lvl s) then chg (outs s) else S (chg (outs s))) /\
     (halted r = false -> dstep r = 0 /\ d_on r = false)) \/
  (caseA x = false /\ caseB x = false /\ dstep r = dstep s + 1 /\ dval r = dval s /\ lvl r = lvl s /\ d_on r = true /\
     d_due r = d_due s + CYCLE_US /\ last r = last s /\ outs r = outs s /\ now r = now s /\ halted r = false).
Proof.
  intros Hs Hon Hdue. cbv zeta. rewrite mact_deb by assumption.
  rewrite Hon. replace (d_due s <=? now s) with true by (symmetry; apply Z.leb_le; assumption). cbn [andb].
  assert (R1 : dstep (rearm_d s) = dstep s /\ dval (rearm_d s) = dval s /\ lvl (rearm_d s) = lvl s /\
               d_on (rearm_d s) = d_on s /\ d_due (rearm_d s) = d_due s + CYCLE_US /\ now (rearm_d s) = now s /\
               last (rearm_d s) = last s /\ outs (rearm_d s) = outs s /\ halted (rearm_d s) = halted s)
    by (destruct s; cbn; repeat split).
  destruct R1 as (r1 & r2 & r3 & r4 & r5 & r6 & r7 & r8 & r9).
  destruct (caseA (rearm_d s)) eqn:EA.
  - left. rewrite deb_cb_A by assumption. set (x := rearm_d s) in *.
    destruct x; cbn in *. repeat split; congruence.
  - destruct (caseB (rearm_d s)) eqn:EB.
    + right; left. rewrite deb_cb_B by assumption. cbv zeta.
      destruct (notify_spec c (stl c (lvl (rearm_d s))) (rearm_d s)) as ([n1 n2 n3 n4 n5 n7 n8 n6] & nl & nc).
      set (y := notify c _ _) in *. rewrite r3, r7, r8 in *.
      destruct (halted y) eqn:Hy.
      * repeat split; try congruence; try lia; intros; discriminate.
      * destruct y; cbn in *. repeat split; try congruence; try lia.
    + right; right. rewrite deb_cb_C by assumption. set (x := rearm_d s) in *.
      destruct x; cbn in *. repeat split; congruence.
Qed.

Lemma mact_now c m s : now s <= now (mact c m s).
Proof.
  destruct (halted s) eqn:Hs; [rewrite mact_halted by assumption; lia|].
  destruct (is_in m) eqn:Ei.
  { destruct m; try discriminate. unfold mact. rewrite Hs. destruct (l =? lvl s); [lia|].
    unfold isr, arm_d. repeat match goal with |- context[if ?b then _ else _] => destruct b end; destruct s; cbn; lia. }
  destruct (micro_eq_deb m) as [->|Hd]; [|apply (mact_frame c m s Ei Hd)].
  destruct (d_on s && (d_due s <=? now s)) eqn:Ep.
  - apply andb_prop in Ep as [Ep1 Ep2]. apply Z.leb_le in Ep2.
    destruct (deb_fields c s Hs Ep1 Ep2) as [H|[H|H]]; cbv zeta in H; intuition lia.
  - rewrite mact_deb by assumption. rewrite Ep. lia.
Qed.
Lemma mstep_now c m s : now s <= now (mstep c m s).
Proof. pose proof (mact_now c m s). destruct (mstep_proj c m s) as (_&_&_&_&_&_&_&E&_). cbv zeta in E. lia. Qed.
Lemma mrun_cons c m ms s : mrun c (m :: ms) s = mrun c ms (mstep c m s).
Proof. reflexivity. Qed.
Lemma mrun_app c a b s : mrun c (a ++ b) s = mrun c b (mrun c a s).
Proof. unfold mrun. apply fold_left_app. Qed.
Lemma mrun_now c ms : forall s, now s <= now (mrun c ms s).
Proof. induction ms as [|m ms IH]; intros s; [cbn; lia|]. rewrite mrun_cons. specialize (IH (mstep c m s)). pose proof (mstep_now c m s). lia. Qed.
Lemma mact_late c m s : late (mact c m s) = late s.
Proof.
  destruct (halted s) eqn:Hs; [rewrite mact_halted by assumption; reflexivity|].
  destruct (is_in m) eqn:Ei.
  { destruct m; try discriminate. unfold mact. rewrite Hs. destruct (l =? lvl s); [reflexivity|].
    unfold isr, arm_d. repeat match goal with |- context[if ?b then _ else _] => destruct b end; destruct s; reflexivity. }
  destruct (micro_eq_deb m) as [->|Hd]; [|apply (f_late _ _ (mact_frame c m s Ei Hd))].
  rewrite mact_deb by assumption. destruct (d_on s && _); [|reflexivity].
  assert (R : late (rearm_d s) = late s) by (destruct s; reflexivity).
  destruct (caseA (rearm_d s)) eqn:EA; [|destruct (caseB (rearm_d s)) eqn:EB].
  - rewrite deb_cb_A by assumption. rewrite <- R. set (x := rearm_d s). destruct x; reflexivity.
  - rewrite deb_cb_B by assumption. cbv zeta. rewrite <- R.
    pose proof (sf_late _ _ (proj1 (notify_spec c (stl c (lvl (rearm_d s))) (rearm_d s)))) as E.
    set (y := notify c _ _) in *. destruct (halted y); [exact E|]. rewrite <- E. destruct y; reflexivity.
  - rewrite deb_cb_C by assumption. rewrite <- R. set (x := rearm_d s). destruct x; reflexivity.
Qed.
Lemma mstep_late c m s : late s <= late (mstep c m s).
Proof. rewrite late_mstep, mact_late. lia. Qed.
Lemma mrun_late c ms : forall s, late s <= late (mrun c ms s).
Proof. induction ms as [|m ms IH]; intros s; [cbn; lia|]. rewrite mrun_cons. specialize (IH (mstep c m s)). pose proof (mstep_late c m s). lia. Qed.
Lemma mstep_pend c m s : pend (mstep c m s) <= late (mstep c m s).
Proof. rewrite late_mstep, pend_mstep. lia. Qed.

(* ---------- a quiet window: the pin stays at level L from time q on ---------- *)
(* number of further sampler ticks until the notify, if every tick reads L *)
Definition rem (L : Z) (s : st) : Z :=
  if dstep s =? 0 then 0 else if dstep s =? 1 then 6 else if dval s =? L then 7 - dstep s else 6.

Definition once (a t : Z) : nat := if a =? t then 0%nat else 1%nat.
Definition bump (a b t : Z) : nat := if (a =? t) && negb (b =? t) then 1%nat else 0%nat.

Record Q (c : cfgT) (q L l0 : Z) (n0 : nat) (s : st) : Prop := {
  q_wf : WF c s;
  q_lvl : lvl s = L;
  q_due : dstep s <> 0 -> d_due s + CYCLE_US * (rem L s - 1) <= q + ACCEPT_US;
  q_last : last s = l0 \/ last s = stl c L;
  q_cnt : chg (outs s) = (n0 + bump (last s) l0 (stl c L))%nat }.

Lemma Q_ext c q L l0 n0 a b :
  lvl b = lvl a -> dstep b = dstep a -> dval b = dval a -> d_on b = d_on a -> d_due b = d_due a ->
  last b = last a -> chg (outs b) = chg (outs a) -> now a <= now b -> Q c q L l0 n0 a -> Q c q L l0 n0 b.
Proof.
  intros e1 e2 e3 e4 e5 e6 e7 e8 [[w1 w2 w3 w4] q2 q3 q4 q5]. constructor.
  - constructor; rewrite ?e1, ?e2, ?e4, ?e5, ?e6; try assumption. intros H; specialize (w4 H); lia.
  - congruence.
  - unfold rem in *. rewrite e2, e3, e5. exact q3.
  - rewrite e6; exact q4.
  - rewrite e7, e6; exact q5.
Qed.

Lemma Q_mact c q L l0 n0 m s :
  Q c q L l0 n0 s -> is_in m = false -> halted s = false -> halted (mact c m s) = false -> Q c q L l0 n0 (mact c m s).
Proof.
  intros HQ Ei Hs Hh.
  destruct (micro_eq_deb m) as [->|Hd].
  2:{ destruct (mact_frame c m s Ei Hd) as [a1 a2 a3 a4 a5 a6 a7 a9 a10 a8]. eapply Q_ext; eauto. }
  destruct (d_on s && (d_due s <=? now s)) eqn:Ep.
  2:{ rewrite mact_deb by assumption. rewrite Ep. exact HQ. }
  apply andb_prop in Ep as [Ep1 Ep2]. apply Z.leb_le in Ep2.
  pose proof CF as [Cy Mi Sa Si _ _ _].
  destruct HQ as [[w1 w2 w3 w4] q2 q3 q4 q5].
  assert (Dn : dstep s <> 0) by (apply w2; exact Ep1). specialize (q3 Dn). specialize (w4 Ep1).
  assert (RX : dstep (rearm_d s) = dstep s /\ dval (rearm_d s) = dval s /\ lvl (rearm_d s) = lvl s)
    by (destruct s; cbn; repeat split).
  destruct RX as (x1 & x2 & x3).
  destruct (deb_fields c s Hs Ep1 Ep2) as [H|[H|H]]; cbv zeta in H.
  - destruct H as (EA & h1 & h2 & h3 & h4 & h5 & h6 & h7 & h8 & h9).
    unfold caseA in EA. rewrite x1, x2, x3 in EA.
    constructor.
    + constructor; rewrite ?h1, ?h3, ?h4, ?h5, ?h6, ?h8; wfin.
    + congruence.
    + intros _. unfold rem in *. rewrite h1, h2, h5, q2, Z.eqb_refl.
      change (2 =? 0) with false. change (2 =? 1) with false. cbv iota. rewrite accept_us, Cy in *.
      destruct (dstep s =? 0) eqn:E0; [apply Z.eqb_eq in E0; lia|].
      destruct (dstep s =? 1) eqn:E1; [lia|]. cbn [orb] in EA. apply negb_true_iff in EA. rewrite q2 in EA. rewrite EA in q3. lia.
    + rewrite h6; exact q4.
    + rewrite h7, h6; exact q5.
  - destruct H as (EA & EB & h3 & h6 & h8 & hc & hd). specialize (hd Hh) as [hd1 hd2].
    constructor.
    + constructor; rewrite ?hd1, ?hd2, ?h3, ?h6; wfin.
    + congruence.
    + congruence.
    + right. rewrite h6, q2. reflexivity.
    + rewrite hc, h6, q2. unfold bump in *. rewrite Z.eqb_refl. cbn [andb].
      destruct q4 as [q4|q4]; rewrite q4 in *.
      * destruct (l0 =? stl c L) eqn:E; cbn in *; lia.
      * rewrite Z.eqb_refl in *. cbn [andb] in q5. destruct (negb (l0 =? stl c L)); lia.
  - destruct H as (EA & EB & h1 & h2 & h3 & h4 & h5 & h6 & h7 & h8 & h9).
    unfold caseB in EB. rewrite EA in EB. cbn [negb andb] in EB. apply Z.ltb_ge in EB. rewrite x1 in EB.
    unfold caseA in EA. rewrite x1, x2, x3 in EA. apply orb_false_iff in EA as [EA1 EA2].
    apply Z.eqb_neq in EA1. apply negb_false_iff in EA2. rewrite q2 in EA2.
    constructor.
    + constructor; rewrite ?h1, ?h3, ?h4, ?h5, ?h6, ?h8; wfin.
    + congruence.
    + intros _. unfold rem in *. rewrite h1, h2, h5. rewrite EA2 in *. rewrite accept_us, Cy in *.
      destruct (dstep s =? 0) eqn:E0; [apply Z.eqb_eq in E0; lia|].
      destruct (dstep s =? 1) eqn:E1; [apply Z.eqb_eq in E1; lia|].
      destruct (dstep s + 1 =? 0) eqn:E2; [apply Z.eqb_eq in E2; lia|].
      destruct (dstep s + 1 =? 1) eqn:E3; [apply Z.eqb_eq in E3; lia|]. lia.
    + rewrite h6; exact q4.
    + rewrite h7, h6; exact q5.
Qed.

Lemma Q_mstep c q L l0 n0 m s :
  Q c q L l0 n0 s -> is_in m = false -> halted (mstep c m s) = false -> Q c q L l0 n0 (mstep c m s).
Proof.
  intros HQ Ei Hh. destruct (halted s) eqn:Hs; [rewrite halted_sticky in Hh by assumption; discriminate|].
  destruct (mstep_proj c m s) as (e1&e2&e3&e4&e5&e6&e7&e8&e9). cbv zeta in *.
  rewrite e9 in Hh. eapply Q_ext; try eassumption; try lia; [congruence|].
  apply Q_mact; assumption.
Qed.

Lemma Q_mrun c q L l0 n0 ms : forall s,
  Q c q L l0 n0 s -> no_in ms -> halted (mrun c ms s) = false -> Q c q L l0 n0 (mrun c ms s).
Proof.
  induction ms as [|m ms IH]; intros s HQ Hn Hh; [exact HQ|].
  rewrite mrun_cons in *. unfold no_in in Hn. cbn in Hn. apply andb_prop in Hn as [Hn1 Hn2]. apply negb_true_iff in Hn1.
  apply IH; try assumption. apply Q_mstep; try assumption.
  destruct (halted (mstep c m s)) eqn:E; [|reflexivity].
  exfalso. clear - E Hh. revert Hh. generalize (mstep c m s) E. clear. induction ms as [|m' ms IH]; intros x E Hh; cbn in *; [congruence|].
  apply (IH (mstep c m' x)); [apply halted_sticky; exact E|exact Hh].
Qed.

(* ---------- reachable states ---------- *)
Lemma WF_ext c a b :
  lvl b = lvl a -> dstep b = dstep a -> d_on b = d_on a -> d_due b = d_due a -> last b = last a -> now a <= now b ->
  WF c a -> WF c b.
Proof.
  intros e1 e2 e4 e5 e6 e8 [w1 w2 w3 w4]. constructor; rewrite ?e1, ?e2, ?e4, ?e5, ?e6; try assumption.
  intros H; specialize (w4 H); lia.
Qed.
Lemma WF_mstep c m s : WF c s -> halted (mstep c m s) = false -> WF c (mstep c m s).
Proof.
  intros W Hh. destruct (mstep_proj c m s) as (e1&e2&e3&e4&e5&e6&e7&e8&e9). cbv zeta in *. rewrite e9 in Hh.
  eapply WF_ext; try eassumption; try lia. apply WF_mact; assumption.
Qed.
Lemma mrun_halted_back c ms : forall s, halted (mrun c ms s) = false -> halted s = false.
Proof.
  induction ms as [|m ms IH]; intros s H; [exact H|]. rewrite mrun_cons in H. apply IH in H.
  destruct (halted s) eqn:E; [|reflexivity]. rewrite halted_sticky in H by assumption. discriminate.
Qed.
Lemma WF_mrun c ms : forall s, WF c s -> halted (mrun c ms s) = false -> WF c (mrun c ms s).
Proof.
  induction ms as [|m ms IH]; intros s W H; [exact W|]. rewrite mrun_cons in *. apply IH; [|exact H].
  apply WF_mstep; [exact W|]. eapply mrun_halted_back; exact H.
Qed.
Lemma WF_init c l0 : WF c (init c l0).
Proof. pose proof CF as [Cy Mi _ _ _ _ _]. unfold init. constructor; cbn; wfin. Qed.

Lemma pend_d_on s : d_on s = true -> now s - d_due s <= pend s.
Proof. intros H. unfold pend. rewrite H. lia. Qed.
Lemma mrun_pend c ms s : ms <> [] -> pend (mrun c ms s) <= late (mrun c ms s).
Proof.
  intros H. destruct (exists_last H) as (ms' & m & ->). rewrite mrun_app. cbn. apply mstep_pend.
Qed.

Lemma Q_start c s : WF c s -> Q c (now s) (lvl s) (last s) (chg (outs s)) s.
Proof.
  intros W. pose proof CF as [Cy Mi _ _ _ _ _]. destruct W as [w1 w2 w3 w4]. constructor.
  - constructor; assumption.
  - reflexivity.
  - intros Dn. assert (Don : d_on s = true) by (apply w2; exact Dn). specialize (w4 Don).
    unfold rem. rewrite accept_us, Cy in *.
    destruct (dstep s =? 0) eqn:E0; [apply Z.eqb_eq in E0; lia|]. apply Z.eqb_neq in E0.
    destruct (dstep s =? 1); [lia|]. destruct (dval s =? lvl s); lia.
  - left; reflexivity.
  - unfold bump. destruct (last s =? stl c (lvl s)); cbn; lia.
Qed.

(* a level that stays: after more than ACCEPT_US + J the sampler has stopped, the level is the recognised
   state, and exactly the one notify that was needed has changed last_state *)
Lemma quiet_settles c J s ms :
  0 <= J -> WF c s -> no_in ms -> late (mrun c ms s) <= J -> now (mrun c ms s) - now s > ACCEPT_US + J ->
  halted (mrun c ms s) = false ->
  dstep (mrun c ms s) = 0 /\ last (mrun c ms s) = stl c (lvl s) /\ lvl (mrun c ms s) = lvl s /\
  chg (outs (mrun c ms s)) = (chg (outs s) + once (last s) (stl c (lvl s)))%nat.
Proof.
  intros HJ W Hn Hl Hd Hh. pose proof CF as [Cy Mi _ _ _ _ _]. pose proof accept_us as Ha.
  pose proof (Q_mrun c _ _ _ _ ms s (Q_start c s W) Hn Hh) as [[w1 w2 w3 w4] q2 q3 q4 q5].
  set (s' := mrun c ms s) in *.
  assert (D0 : dstep s' = 0).
  { destruct (Z.eq_dec (dstep s') 0) as [|Dn]; [assumption|exfalso].
    specialize (q3 Dn). assert (Don : d_on s' = true) by (apply w2; exact Dn).
    assert (Hne : ms <> []) by (intros ->; unfold s' in Hd; change (mrun c [] s) with s in Hd; lia).
    pose proof (mrun_pend c ms s Hne). pose proof (pend_d_on s' Don). fold s' in H.
    assert (1 <= rem (lvl s) s').
    { unfold rem. destruct (dstep s' =? 0) eqn:E0; [apply Z.eqb_eq in E0; lia|].
      destruct (dstep s' =? 1); [lia|]. destruct (dval s' =? lvl s); lia. }
    rewrite Cy in q3. nia. }
  split; [exact D0|]. split; [rewrite (w3 D0), q2; reflexivity|]. split; [exact q2|].
  rewrite q5. f_equal. unfold bump, once. rewrite (w3 D0), q2, Z.eqb_refl. cbn [andb].
  destruct (last s =? stl c (lvl s)); reflexivity.
Qed.

(* ---------- C11_accept_once ---------- *)
Lemma mstep_in_fields c v s : halted s = false ->
  let s1 := mstep c (MIn v) s in
  lvl s1 = v /\ last s1 = last s /\ outs s1 = outs s /\ halted s1 = false /\ now s1 = now s.
Proof.
  intros Hs. cbv zeta. destruct (mstep_proj c (MIn v) s) as (e1&e2&e3&e4&e5&e6&e7&e8&e9). cbv zeta in *.
  rewrite e1, e6, e7, e8, e9. unfold mact. rewrite Hs.
  destruct (v =? lvl s) eqn:E; [apply Z.eqb_eq in E; repeat split; congruence|].
  unfold isr, arm_d. repeat match goal with |- context[if ?b then _ else _] => destruct b end; destruct s; cbn in *; repeat split; congruence.
Qed.

Theorem accept_once_thm : forall c l0 J pre v qw,
  let s0 := mrun c pre (init c l0) in
  let s1 := mstep c (MIn v) s0 in
  let s2 := mrun c qw s1 in
  0 <= J -> no_in qw -> late s2 <= J -> now s2 - now s1 > ACCEPT_US + J -> halted s2 = false ->
  last s2 = stl c v /\ dstep s2 = 0 /\ lvl s2 = v /\
  chg (outs s2) = (chg (outs s0) + once (last s0) (stl c v))%nat.
Proof.
  intros c l0 J pre v qw s0 s1 s2 HJ Hn Hl Hd Hh.
  assert (H1 : halted s1 = false) by (eapply mrun_halted_back; exact Hh).
  assert (H0 : halted s0 = false).
  { destruct (halted s0) eqn:E; [|reflexivity]. unfold s1 in H1. rewrite halted_sticky in H1 by assumption. discriminate. }
  assert (W1 : WF c s1) by (apply WF_mstep; [apply WF_mrun; [apply WF_init|exact H0]|exact H1]).
  destruct (mstep_in_fields c v s0 H0) as (f1 & f2 & f3 & f4 & f5). fold s1 in f1, f2, f3, f4, f5.
  destruct (quiet_settles c J s1 qw HJ W1 Hn Hl Hd Hh) as (a1 & a2 & a3 & a4). fold s2 in a1, a2, a3, a4.
  rewrite f1 in *. rewrite f2, f3 in a4. repeat split; assumption.
Qed.

(* ---------- while the recognised state equals the level, no notify changes anything ---------- *)
Lemma NC_mstep c m s : is_in m = false -> last s = stl c (lvl s) ->
  chg (outs (mstep c m s)) = chg (outs s) /\ last (mstep c m s) = stl c (lvl (mstep c m s)) /\ lvl (mstep c m s) = lvl s.
Proof.
  intros Ei HL. destruct (halted s) eqn:Hs.
  { destruct (mstep_halted_id c m s Hs) as (a1&a2&a3&a4&a5). rewrite a1, a3, a4. auto. }
  destruct (mstep_proj c m s) as (e1&e2&e3&e4&e5&e6&e7&e8&e9). cbv zeta in *. rewrite e1, e6, e7.
  destruct (micro_eq_deb m) as [->|Hd].
  2:{ destruct (mact_frame c m s Ei Hd) as [a1 a2 a3 a4 a5 a6 a7 a9 a10 a8]. rewrite a1, a6, a7. auto. }
  destruct (d_on s && (d_due s <=? now s)) eqn:Ep.
  2:{ rewrite mact_deb by assumption. rewrite Ep. auto. }
  apply andb_prop in Ep as [Ep1 Ep2]. apply Z.leb_le in Ep2.
  destruct (deb_fields c s Hs Ep1 Ep2) as [H|[H|H]]; cbv zeta in H.
  - destruct H as (EA & h1 & h2 & h3 & h4 & h5 & h6 & h7 & h8 & h9). rewrite h3, h6, h7. auto.
  - destruct H as (EA & EB & h3 & h6 & h8 & hc & hd). rewrite h3, h6, hc, HL, Z.eqb_refl. auto.
  - destruct H as (EA & EB & h1 & h2 & h3 & h4 & h5 & h6 & h7 & h8 & h9). rewrite h3, h6, h7. auto.
Qed.
Lemma NC_mrun c ms : forall s, no_in ms -> last s = stl c (lvl s) ->
  chg (outs (mrun c ms s)) = chg (outs s) /\ last (mrun c ms s) = stl c (lvl (mrun c ms s)) /\ lvl (mrun c ms s) = lvl s.
Proof.
  induction ms as [|m ms IH]; intros s Hn HL; [auto|].
  rewrite mrun_cons. unfold no_in in Hn. cbn in Hn. apply andb_prop in Hn as [Hn1 Hn2]. apply negb_true_iff in Hn1.
  destruct (NC_mstep c m s Hn1 HL) as (a1 & a2 & a3).
  destruct (IH (mstep c m s) Hn2 a2) as (b1 & b2 & b3). repeat split; congruence.
Qed.

(* ---------- a lower bound `a` on the due time of the tick that could notify ---------- *)
Definition LBI (a : Z) (s : st) : Prop :=
  dstep s <> 0 -> d_due s + CYCLE_US * (MIN_CYCLE_COUNT + 1 - dstep s) >= a.
Definition WFh (c : cfgT) (s : st) : Prop := halted s = false -> WF c s.

Lemma WFh_mstep c m s : WFh c s -> WFh c (mstep c m s).
Proof.
  intros W H. apply WF_mstep; [|exact H]. apply W.
  destruct (halted s) eqn:E; [|reflexivity]. rewrite halted_sticky in H by assumption. discriminate.
Qed.

Lemma LBI_mstep c a m s :
  WFh c s -> LBI a s -> now s < a -> a <= now s + ACCEPT_US ->
  LBI a (mstep c m s) /\ chg (outs (mstep c m s)) = chg (outs s) /\ last (mstep c m s) = last s.
Proof.
  intros W HL Hnow Ha. destruct (halted s) eqn:Hs.
  { destruct (mstep_halted_id c m s Hs) as (a1&a2&a3&a4&a5).
    destruct (mstep_proj c m s) as (e1&e2&e3&e4&e5&e6&e7&e8&e9). cbv zeta in *.
    rewrite a3, a4. split; [|auto]. unfold LBI in *. rewrite mact_halted in * by assumption. rewrite e2, e5. exact HL. }
  specialize (W Hs). destruct W as [w1 w2 w3 w4]. pose proof CF as [Cy Mi _ _ _ _ _]. pose proof accept_us as Hacc.
  destruct (mstep_proj c m s) as (e1&e2&e3&e4&e5&e6&e7&e8&e9). cbv zeta in *.
  unfold LBI in *. rewrite e2, e5, e6, e7.
  destruct (is_in m) eqn:Ei.
  { destruct m; try discriminate. unfold mact. rewrite Hs. destruct (l =? lvl s); [auto|].
    unfold isr. assert (E0 : dstep (set_lvl l s) = dstep s) by (destruct s; reflexivity). rewrite E0.
    destruct (dstep s =? 0) eqn:E; [|destruct (rst c)].
    - apply Z.eqb_eq in E. destruct s; cbn in *. repeat split; try reflexivity. intros _. lia.
    - apply Z.eqb_neq in E. specialize (HL E). destruct s; cbn in *. repeat split; try reflexivity. intros _. lia.
    - destruct s; cbn in *. auto. }
  destruct (micro_eq_deb m) as [->|Hd].
  2:{ destruct (mact_frame c m s Ei Hd) as [a1 a2 a3 a4 a5 a6 a7 a9 a10 a8]. rewrite a2, a5, a6, a7. auto. }
  destruct (d_on s && (d_due s <=? now s)) eqn:Ep.
  2:{ rewrite mact_deb by assumption. rewrite Ep. auto. }
  apply andb_prop in Ep as [Ep1 Ep2]. apply Z.leb_le in Ep2.
  assert (Dn : dstep s <> 0) by (apply w2; exact Ep1). specialize (HL Dn).
  assert (RX : dstep (rearm_d s) = dstep s) by (destruct s; reflexivity).
  destruct (deb_fields c s Hs Ep1 Ep2) as [H|[H|H]]; cbv zeta in H.
  - destruct H as (EA & h1 & h2 & h3 & h4 & h5 & h6 & h7 & h8 & h9). rewrite h1, h5, h6, h7.
    repeat split; try reflexivity. intros _. lia.
  - destruct H as (EA & EB & _). exfalso. unfold caseB in EB. rewrite EA in EB. cbn [negb andb] in EB.
    apply Z.ltb_lt in EB. rewrite RX in EB. lia.
  - destruct H as (EA & EB & h1 & h2 & h3 & h4 & h5 & h6 & h7 & h8 & h9). rewrite h1, h5, h6, h7.
    repeat split; try reflexivity. intros _. lia.
Qed.

Lemma LBI_mrun c a ms : forall s,
  WFh c s -> LBI a s -> now (mrun c ms s) < a -> a <= now s + ACCEPT_US ->
  LBI a (mrun c ms s) /\ chg (outs (mrun c ms s)) = chg (outs s) /\ last (mrun c ms s) = last s /\ WFh c (mrun c ms s).
Proof.
  induction ms as [|m ms IH]; intros s W HL Hnow Ha; [auto|].
  rewrite mrun_cons in *.
  pose proof (mrun_now c ms (mstep c m s)). pose proof (mstep_now c m s).
  destruct (LBI_mstep c a m s W HL ltac:(lia) Ha) as (a1 & a2 & a3).
  destruct (IH (mstep c m s) (WFh_mstep c m s W) a1 Hnow ltac:(lia)) as (b1 & b2 & b3 & b4).
  split; [exact b1|]. split; [congruence|]. split; [congruence|exact b4].
Qed.

(* ---------- C11_glitch_rejected, form that holds with and without the fix:
   after a quiet time (old level) any burst of edges that spans less than ACCEPT_US is ignored ---------- *)
Theorem glitch_idle_thm : forall c l0 J pre qa bu qb,
  let s0 := mrun c pre (init c l0) in
  let s1 := mrun c qa s0 in
  let s2 := mrun c bu s1 in
  let s3 := mrun c qb s2 in
  0 <= J -> late s3 <= J ->
  no_in qa -> now s1 - now s0 > ACCEPT_US + J ->          (* the old level has lasted *)
  now s2 - now s1 < ACCEPT_US -> lvl s2 = lvl s0 ->        (* burst: any edges, back at the old level *)
  no_in qb ->                                               (* and it stays there *)
  chg (outs s3) = chg (outs s1) /\ last s3 = last s1 /\
  (halted s3 = false -> last s3 = stl c (lvl s0) /\
     (now s3 - now s2 > ACCEPT_US + J -> dstep s3 = 0)).
Proof.
  intros c l0 J pre qa bu qb s0 s1 s2 s3 HJ Hl Hqa Hda Hdb Hlv Hqb.
  assert (Wh0 : WFh c s0) by (intros H; apply WF_mrun; [apply WF_init|exact H]).
  assert (Wh1 : WFh c s1) by (intros H; apply WF_mrun; [apply Wh0; eapply mrun_halted_back; exact H|exact H]).
  pose proof (mrun_late c qb s2) as L2. pose proof (mrun_late c bu s1) as L1. fold s3 in L2. fold s2 in L1.
  destruct (halted s1) eqn:H1.
  { (* already halted: nothing moves any more *)
    assert (F : forall ms s, halted s = true -> chg (outs (mrun c ms s)) = chg (outs s) /\ last (mrun c ms s) = last s /\ halted (mrun c ms s) = true).
    { induction ms as [|m ms IH]; intros s H; [auto|]. rewrite mrun_cons.
      destruct (mstep_halted_id c m s H) as (a1&a2&a3&a4&a5). destruct (IH _ (halted_sticky c m s H)) as (b1&b2&b3).
      rewrite b1, b2, a3, a4. auto. }
    destruct (F bu s1 H1) as (a1&a2&a3). destruct (F qb s2 a3) as (b1&b2&b3). fold s2 in a1, a2, a3. fold s3 in b1, b2, b3.
    split; [congruence|]. split; [congruence|]. intros; congruence. }
  assert (H0 : halted s0 = false) by (eapply mrun_halted_back; exact H1).
  destruct (quiet_settles c J s0 qa HJ (Wh0 H0) Hqa ltac:(fold s1; lia) Hda H1) as (q1 & q2 & q3 & q4).
  fold s1 in q1, q2, q3, q4.
  (* burst *)
  assert (LB1 : LBI (now s1 + ACCEPT_US) s1) by (intros D; congruence).
  destruct (LBI_mrun c (now s1 + ACCEPT_US) bu s1 Wh1 LB1 ltac:(fold s2; lia) ltac:(lia)) as (b1 & b2 & b3 & b4).
  fold s2 in b1, b2, b3, b4.
  (* quiet again *)
  assert (HL2 : last s2 = stl c (lvl s2)) by (rewrite b3, q2, Hlv; reflexivity).
  destruct (NC_mrun c qb s2 Hqb HL2) as (c1 & c2 & c3). fold s3 in c1, c2, c3.
  assert (E3 : last s3 = last s1) by (rewrite c2, c3, Hlv, q2; reflexivity).
  split; [congruence|]. split; [exact E3|]. intros H3. split; [rewrite E3, q2; reflexivity|].
  intros Hdc. assert (H2 : halted s2 = false) by (eapply mrun_halted_back; exact H3).
  destruct (quiet_settles c J s2 qb HJ (b4 H2) Hqb Hl Hdc H3) as (d1 & _). exact d1.
Qed.

(* ---------- the repaired code: after ANY edge nothing is notified for MIN_CYCLE_COUNT * CYCLE_US - J ---------- *)
Definition STABLE_US : Z := MIN_CYCLE_COUNT * CYCLE_US.
Lemma stable_us : STABLE_US = 100000. Proof. reflexivity. Qed.
Arguments STABLE_US : simpl never.

Lemma halted_mrun c ms : forall s, halted s = true ->
  chg (outs (mrun c ms s)) = chg (outs s) /\ last (mrun c ms s) = last s /\ halted (mrun c ms s) = true.
Proof.
  induction ms as [|m ms IH]; intros s H; [auto|]. rewrite mrun_cons.
  destruct (mstep_halted_id c m s H) as (a1&a2&a3&a4&a5). destruct (IH _ (halted_sticky c m s H)) as (b1&b2&b3).
  split; [congruence|]. split; [congruence|exact b3].
Qed.
Lemma WFh_mrun c ms : forall s, WFh c s -> WFh c (mrun c ms s).
Proof. induction ms as [|m ms IH]; intros s W; [exact W|]. rewrite mrun_cons. apply IH, WFh_mstep, W. Qed.

Lemma isr_fields c x :
  last (isr c x) = last x /\ outs (isr c x) = outs x /\ lvl (isr c x) = lvl x /\ now (isr c x) = now x /\
  (dstep x = 0 -> dstep (isr c x) = 1 /\ d_due (isr c x) = now x + CYCLE_US /\ d_on (isr c x) = true) /\
  (dstep x <> 0 -> rst c = true -> dstep (isr c x) = 1 /\ d_due (isr c x) = d_due x /\ d_on (isr c x) = d_on x).
Proof.
  unfold isr, arm_d. destruct (dstep x =? 0) eqn:E; [|destruct (rst c)].
  - apply Z.eqb_eq in E. destruct x; cbn in *. repeat split; try reflexivity; intros; try lia.
  - apply Z.eqb_neq in E. destruct x; cbn in *. repeat split; try reflexivity; intros; try lia.
  - apply Z.eqb_neq in E. repeat split; try reflexivity; intros; try lia; discriminate.
Qed.

Theorem strict_thm : forall c l0 J pre v w,
  rst c = true ->
  let s0 := mrun c pre (init c l0) in
  let s1 := mstep c (MIn v) s0 in
  let s2 := mrun c w s1 in
  lvl s0 <> v -> 0 <= J -> late s2 <= J -> now s2 - now s1 < STABLE_US - J ->
  chg (outs s2) = chg (outs s0) /\ last s2 = last s0.
Proof.
  intros c l0 J pre v w Hr s0 s1 s2 Hv HJ Hl Hd.
  pose proof CF as [Cy Mi _ _ _ _ _]. pose proof accept_us as Hacc. pose proof stable_us as Hst.
  assert (Wh0 : WFh c s0) by (intros H; apply WF_mrun; [apply WF_init|exact H]).
  destruct (halted s0) eqn:H0.
  { destruct (halted_mrun c (MIn v :: w) s0 H0) as (a1 & a2 & _). rewrite mrun_cons in a1, a2. auto. }
  destruct (mstep_in_fields c v s0 H0) as (f1 & f2 & f3 & f4 & f5). fold s1 in f1, f2, f3, f4, f5.
  assert (Wh1 : WFh c s1) by (apply WFh_mstep; exact Wh0).
  assert (LB1 : LBI (now s1 + STABLE_US - J) s1).
  { intros _. destruct (mstep_proj c (MIn v) s0) as (e1&e2&e3&e4&e5&e6&e7&e8&e9). cbv zeta in *. fold s1 in e1,e2,e3,e4,e5,e6,e7,e8,e9.
    assert (E : mact c (MIn v) s0 = isr c (set_lvl v s0)).
    { unfold mact. rewrite H0. destruct (v =? lvl s0) eqn:E; [apply Z.eqb_eq in E; congruence|reflexivity]. }
    rewrite E in *. destruct (isr_fields c (set_lvl v s0)) as (i1&i2&i3&i4&i5&i6).
    assert (X : dstep (set_lvl v s0) = dstep s0 /\ now (set_lvl v s0) = now s0 /\ d_due (set_lvl v s0) = d_due s0 /\ d_on (set_lvl v s0) = d_on s0)
      by (destruct s0; cbn; auto). destruct X as (x1&x2&x3&x4).
    destruct (Z.eq_dec (dstep s0) 0) as [D0|Dn].
    - destruct (i5 ltac:(congruence)) as (j1&j2&j3). rewrite e2, e5, e8, j1, j2, i4, x2. lia.
    - destruct (i6 ltac:(congruence) Hr) as (j1&j2&j3). rewrite e2, e5, e8, j1, j2, i4, x2, x3.
      assert (Don : d_on s1 = true) by (rewrite e4, j3, x4; apply (Wh0 H0); exact Dn).
      pose proof (pend_d_on s1 Don). pose proof (mstep_pend c (MIn v) s0). fold s1 in H1.
      pose proof (mrun_late c w s1). fold s2 in H2. rewrite e5, j2, x3, e8, i4, x2 in H. lia. }
  destruct (LBI_mrun c (now s1 + STABLE_US - J) w s1 Wh1 LB1 ltac:(fold s2; lia) ltac:(lia)) as (b1 & b2 & b3 & b4).
  fold s2 in b2, b3. split; congruence.
Qed.

(* any number of short excursions, however close together *)
Inductive glitches (c : cfgT) (J old : Z) : st -> list micro -> Prop :=
| gl_nil s : glitches c J old s []
| gl_quiet s q rest : no_in q -> glitches c J old (mrun c q s) rest -> glitches c J old s (q ++ rest)
| gl_exc s v w rest : v <> old ->
    now (mrun c w (mstep c (MIn v) s)) - now (mstep c (MIn v) s) < STABLE_US - J ->
    glitches c J old (mstep c (MIn old) (mrun c w (mstep c (MIn v) s))) rest ->
    glitches c J old s (MIn v :: w ++ MIn old :: rest).

Lemma excursion_lemma c J s v w :
  rst c = true -> WFh c s -> halted s = false -> lvl s <> v -> 0 <= J ->
  let s1 := mstep c (MIn v) s in let s2 := mrun c w s1 in
  late s2 <= J -> now s2 - now s1 < STABLE_US - J ->
  chg (outs s2) = chg (outs s) /\ last s2 = last s /\ WFh c s2.
Proof.
  intros Hr Wh0 H0 Hv HJ s1 s2 Hl Hd.
  pose proof CF as [Cy Mi _ _ _ _ _]. pose proof accept_us as Hacc. pose proof stable_us as Hst.
  destruct (mstep_in_fields c v s H0) as (f1 & f2 & f3 & f4 & f5). fold s1 in f1, f2, f3, f4, f5.
  assert (Wh1 : WFh c s1) by (apply WFh_mstep; exact Wh0).
  assert (LB1 : LBI (now s1 + STABLE_US - J) s1).
  { intros _. destruct (mstep_proj c (MIn v) s) as (e1&e2&e3&e4&e5&e6&e7&e8&e9). cbv zeta in *. fold s1 in e1,e2,e3,e4,e5,e6,e7,e8,e9.
    assert (E : mact c (MIn v) s = isr c (set_lvl v s)).
    { unfold mact. rewrite H0. destruct (v =? lvl s) eqn:E; [apply Z.eqb_eq in E; congruence|reflexivity]. }
    rewrite E in *. destruct (isr_fields c (set_lvl v s)) as (i1&i2&i3&i4&i5&i6).
    assert (X : dstep (set_lvl v s) = dstep s /\ now (set_lvl v s) = now s /\ d_due (set_lvl v s) = d_due s /\ d_on (set_lvl v s) = d_on s)
      by (destruct s; cbn; auto). destruct X as (x1&x2&x3&x4).
    destruct (Z.eq_dec (dstep s) 0) as [D0|Dn].
    - destruct (i5 ltac:(congruence)) as (j1&j2&j3). rewrite e2, e5, e8, j1, j2, i4, x2. lia.
    - destruct (i6 ltac:(congruence) Hr) as (j1&j2&j3). rewrite e2, e5, e8, j1, j2, i4, x2, x3.
      assert (Don : d_on s1 = true) by (rewrite e4, j3, x4; apply (Wh0 H0); exact Dn).
      pose proof (pend_d_on s1 Don). pose proof (mstep_pend c (MIn v) s). fold s1 in H1.
      pose proof (mrun_late c w s1). fold s2 in H2. rewrite e5, j2, x3, e8, i4, x2 in H. lia. }
  destruct (LBI_mrun c (now s1 + STABLE_US - J) w s1 Wh1 LB1 ltac:(fold s2; lia) ltac:(lia)) as (b1 & b2 & b3 & b4).
  fold s2 in b2, b3, b4. split; [congruence|]. split; [congruence|exact b4].
Qed.

Theorem glitches_thm : forall c J old s ms,
  rst c = true -> 0 <= J -> WFh c s -> (halted s = false -> lvl s = old /\ last s = stl c old) ->
  glitches c J old s ms -> late (mrun c ms s) <= J ->
  chg (outs (mrun c ms s)) = chg (outs s) /\ last (mrun c ms s) = last s.
Proof.
  intros c J old s ms Hr HJ Wh Hinv G. revert Wh Hinv.
  induction G as [s | s q rest Hq G IH | s v w rest Hv Hd G IH]; intros Wh Hinv Hl.
  - auto.
  - rewrite mrun_app in *. destruct (halted s) eqn:H0.
    { destruct (halted_mrun c q s H0) as (a1 & a2 & a3). destruct (halted_mrun c rest _ a3) as (b1 & b2 & _). split; congruence. }
    destruct (Hinv eq_refl) as (i1 & i2).
    destruct (NC_mrun c q s Hq ltac:(congruence)) as (a1 & a2 & a3).
    destruct (IH (WFh_mrun c q s Wh) ltac:(intros _; split; congruence) Hl) as (b1 & b2).
    split; [congruence|]. rewrite b2, a2, a3, i1, i2. reflexivity.
  - change (MIn v :: w ++ MIn old :: rest) with ([MIn v] ++ w ++ [MIn old] ++ rest) in *.
    rewrite !mrun_app in *. change (mrun c [MIn v] s) with (mstep c (MIn v) s) in *.
    set (s1 := mstep c (MIn v) s) in *. set (s2 := mrun c w s1) in *.
    change (mrun c [MIn old] s2) with (mstep c (MIn old) s2) in *. set (s3 := mstep c (MIn old) s2) in *.
    destruct (halted s) eqn:H0.
    { destruct (halted_mrun c ([MIn v] ++ w ++ [MIn old] ++ rest) s H0) as (a1 & a2 & _).
      rewrite !mrun_app in a1, a2. exact (conj a1 a2). }
    destruct (Hinv eq_refl) as (i1 & i2).
    pose proof (mrun_late c rest s3) as L3. pose proof (mstep_late c (MIn old) s2) as L2. fold s3 in L2.
    destruct (excursion_lemma c J s v w Hr Wh H0 ltac:(congruence) HJ ltac:(fold s1 s2; lia) Hd) as (e1 & e2 & e3).
    fold s1 s2 in e1, e2, e3.
    assert (Wh3 : WFh c s3) by (apply WFh_mstep; exact e3).
    destruct (halted s2) eqn:H2.
    { destruct (halted_mrun c ([MIn old] ++ rest) s2 H2) as (a1 & a2 & _). rewrite mrun_app in a1, a2.
      change (mrun c [MIn old] s2) with s3 in a1, a2. split; congruence. }
    destruct (mstep_in_fields c old s2 H2) as (f1 & f2 & f3 & f4 & f5). fold s3 in f1, f2, f3, f4, f5.
    destruct (IH Wh3 ltac:(intros _; split; congruence) Hl) as (b1 & b2).
    split; congruence.
Qed.

(* ---------- the scheduler of the double only composes micro-steps ---------- *)
Lemma mact_tr c m s : tr (mact c m s) = tr s.
Proof.
  destruct (halted s) eqn:Hs; [rewrite mact_halted by assumption; reflexivity|].
  destruct (is_in m) eqn:Ei.
  { destruct m; try discriminate. unfold mact. rewrite Hs. destruct (l =? lvl s); [reflexivity|].
    unfold isr, arm_d. repeat match goal with |- context[if ?b then _ else _] => destruct b end; destruct s; reflexivity. }
  destruct (micro_eq_deb m) as [->|Hd]; [|apply (f_tr _ _ (mact_frame c m s Ei Hd))].
  rewrite mact_deb by assumption. destruct (d_on s && _); [|reflexivity].
  assert (R : tr (rearm_d s) = tr s) by (destruct s; reflexivity).
  destruct (caseA (rearm_d s)) eqn:EA; [|destruct (caseB (rearm_d s)) eqn:EB].
  - rewrite deb_cb_A by assumption. rewrite <- R. set (x := rearm_d s). destruct x; reflexivity.
  - rewrite deb_cb_B by assumption. cbv zeta. rewrite <- R.
    pose proof (sf_tr _ _ (proj1 (notify_spec c (stl c (lvl (rearm_d s))) (rearm_d s)))) as E.
    set (y := notify c _ _) in *. destruct (halted y); [exact E|]. rewrite <- E. destruct y; reflexivity.
  - rewrite deb_cb_C by assumption. rewrite <- R. set (x := rearm_d s). destruct x; reflexivity.
Qed.
Lemma tr_mstep c m s : tr (mstep c m s) = m :: tr s.
Proof. unfold mstep; cbv zeta. rewrite <- (mact_tr c m s). destruct (mact c m s); reflexivity. Qed.

Definition replays (c : cfgT) (l0 : Z) (s : st) : Prop := s = mrun c (rev (tr s)) (init c l0).
Lemma replays_mstep c l0 m s : replays c l0 s -> replays c l0 (mstep c m s).
Proof.
  unfold replays. intros H. rewrite tr_mstep. cbn [rev]. rewrite mrun_app. rewrite <- H. reflexivity.
Qed.
Lemma replays_fire_due c l0 fuel e : forall s, replays c l0 s -> replays c l0 (fire_due c fuel e s).
Proof.
  induction fuel as [|f IH]; intros s H; cbn [fire_due].
  - destruct (pick s e); [apply replays_mstep|]; exact H.
  - destruct (pick s e) as [[[due sq] k]|]; [|exact H].
    cbv zeta. destruct (halted _); [|apply IH]; repeat apply replays_mstep; exact H.
Qed.
Lemma replays_estep c l0 s ev : replays c l0 s -> replays c l0 (estep c s ev).
Proof.
  intros H. unfold estep. destruct (halted s); [exact H|].
  destruct ev; try (apply replays_mstep; exact H); try exact H.
  cbv zeta. destruct (halted _); [|apply replays_mstep]; apply replays_fire_due; exact H.
Qed.
Theorem run_is_mrun : forall c l0 evs, run c l0 evs = mrun c (rev (tr (run c l0 evs))) (init c l0).
Proof.
  intros c l0 evs. unfold run, run_from.
  assert (G : forall evs s, replays c l0 s -> replays c l0 (fold_left (estep c) evs s)).
  { induction evs0 as [|ev evs0 IH]; intros s H; [exact H|]. cbn. apply IH, replays_estep, H. }
  apply G. reflexivity.
Qed.

(* ---------- the code before the fix is refuted: in-phase 1 ms spikes are recognised as a press ---------- *)
Definition cfg_demo (r : bool) : cfgT :=
  {| boot := 1; typ := TYPE_MONOSTABLE; flags := FLAG_TRIGGER_ON_PRESS; rel := true; chan := 1; cap := 0; rst := r |}.
Definition spike : list event := [EIn 1; EAdv 1000; EIn 0; EAdv 19000].
Definition alias_evs : list event :=
  [EAdv 700000; EIn 1; EAdv 1000; EIn 0; EAdv 18500] ++ spike ++ spike ++ spike ++ spike ++ spike ++ spike ++ [EAdv 900000].
Definition is_gpio (o : out) : bool := match o with OGpio _ _ => true | _ => false end.
Lemma old_code_refuted_thm :
  (* seven spikes of 1 ms, 7 ms in total at the active level: the unrepaired code toggles the relay ... *)
  filter is_gpio (outs (run (cfg_demo false) 0 alias_evs)) = [OGpio 820010 1] /\
  chg (outs (run (cfg_demo false) 0 alias_evs)) = 2%nat /\
  (* ... the repaired code does not react at all *)
  filter is_gpio (outs (run (cfg_demo true) 0 alias_evs)) = [] /\
  chg (outs (run (cfg_demo true) 0 alias_evs)) = 0%nat /\
  late (run (cfg_demo false) 0 alias_evs) = 0 /\ late (run (cfg_demo true) 0 alias_evs) = 0.
Proof. vm_compute. repeat split; reflexivity. Qed.


(* ---------- the scheduler is complete unless it says so ----------
   `fire_due` carries a fuel only to be structurally recursive.  It stops for one of three reasons: the device entered
   configuration mode, no armed timer is due any more (exactly the harness double's v_advance), or the fuel ran out and
   then the very last thing it did was to emit OFault.  So a run without FAULT in its output IS the double's
   schedule; the theorems do not depend on the fuel at all (they hold for every list of micro-steps, and
   run_is_mrun holds whatever the fuel). *)
Lemma mstep_outs c m s : outs (mstep c m s) = outs (mact c m s).
Proof. unfold mstep; cbv zeta; destruct (mact c m s); reflexivity. Qed.
Lemma fire_due_complete c fuel e : forall s,
  let s' := fire_due c fuel e s in
  halted s' = true \/ pick s' e = None \/ (halted s = false /\ exists l, outs s' = OFault :: l).
Proof.
  induction fuel as [|f IH]; intros s; cbn [fire_due].
  - destruct (pick s e) eqn:E; [|right; left; exact E].
    destruct (halted s) eqn:Hs; [left; apply halted_sticky; exact Hs|].
    right; right. split; [reflexivity|]. exists (outs s). rewrite mstep_outs. unfold mact. rewrite Hs. destruct s; reflexivity.
  - destruct (pick s e) as [[[due sq] k]|] eqn:E; [|right; left; exact E].
    cbv zeta. set (s2 := mstep c (micro_of k) (mstep c (MTime (Z.max (now s) due)) s)).
    destruct (halted s2) eqn:H2; [left; exact H2|].
    destruct (IH s2) as [H|[H|[_ H]]]; [left; exact H|right; left; exact H|].
    right; right. split; [|exact H].
    destruct (halted s) eqn:Hs; [|reflexivity]. subst s2. rewrite !halted_sticky in H2 by (try apply halted_sticky; assumption). discriminate.
Qed.

Lemma pick_now t s e : pick (set_now t s) e = pick s e.
Proof. destruct s; reflexivity. Qed.

Theorem adv_complete c s dt :
  let s' := estep c s (EAdv dt) in
  halted s' = true \/ pick s' (now s + dt) = None \/ exists l, outs s' = OFault :: l.
Proof.
  cbv zeta. unfold estep. destruct (halted s) eqn:Hs; [left; exact Hs|]. cbv zeta.
  set (s1 := fire_due c _ (now s + dt) s).
  destruct (halted s1) eqn:H1; [left; exact H1|].
  destruct (fire_due_complete c (Z.to_nat (dt / 5000) + 100) (now s + dt) s) as [H|[H|[_ [l H]]]]; fold s1 in H.
  - congruence.
  - right; left. unfold mstep. cbv zeta. unfold mact. rewrite H1.
    destruct (now s1 <=? Z.max (now s1) (now s + dt)); destruct s1; exact H.
  - right; right. exists l. rewrite mstep_outs. unfold mact. rewrite H1.
    destruct (now s1 <=? Z.max (now s1) (now s + dt)); destruct s1; exact H.
Qed.
