(* C11 — the button machine of supla_esp_input.c on a small record ("view"), for inputs that are not the
   configuration button (cfg_btn c = false): notify / legacy and advanced handlers / advanced timer /
   send_action_trigger / on_input_active / _inactive / relay_switch, and the proof that the model of
   Model.v, seen through `view`, is exactly this machine (simulation lemmas `*_view`). *)
From Coq Require Import List ZArith Bool Lia.
Import ListNotations.
From V Require Import Base.U32 Base.Iface Gen.InputConsts C11.Model C11.Proofs.
Local Open Scope Z_scope.

Ltac gs := cbn [now lvl dstep dval d_on d_due d_seq last cc maxc act relg disg lsc silent t_on t_due t_seq t_adv
                m_on m_due m_seq relay seqc halted late outs tr
                set_now set_lvl set_dstep set_dval set_d_on set_d_due set_d_seq set_last set_cc set_maxc set_act
                set_relg set_disg set_lsc set_silent set_t_on set_t_due set_t_seq set_t_adv set_m_on set_m_due
                set_m_seq set_relay set_seqc set_halted set_late set_outs set_tr emit andb orb negb].

Record mv := mkmv {
  a_now : Z; a_last : Z; a_cc : Z; a_maxc : Z; a_act : Z; a_relg : Z; a_lsc : Z; a_silent : bool;
  a_ton : bool; a_tdue : Z; a_tadv : bool; a_relay : Z; a_halted : bool; a_outs : list out }.

Definition view (s : st) : mv :=
  mkmv (now s) (last s) (cc s) (maxc s) (act s) (relg s) (lsc s) (silent s) (t_on s) (t_due s) (t_adv s) (relay s)
       (halted s) (outs s).

Definition aemit (o : out) (v : mv) : mv :=
  mkmv (a_now v) (a_last v) (a_cc v) (a_maxc v) (a_act v) (a_relg v) (a_lsc v) (a_silent v) (a_ton v) (a_tdue v) (a_tadv v)
       (a_relay v) (a_halted v) (o :: a_outs v).
Definition arelc (v : mv) : bool := negb (a_relg v =? NOREL).

(* supla_esp_gpio_relay_switch *)
Definition sw (hi : Z) (v : mv) : mv :=
  let h := if hi =? 255 then (if a_relay v =? 1 then 0 else 1) else hi in
  let t1 := a_now v + RELAY_D1 in let t2 := t1 + RELAY_DOUBLE_TRY_US + RELAY_D2 in
  mkmv t2 (a_last v) (a_cc v) (a_maxc v) (a_act v) (a_relg v) (a_lsc v) (a_silent v) (a_ton v) (a_tdue v) (a_tadv v)
       h (a_halted v)
       (OValue t2 RELAY_CH h :: (if h =? a_relay v then a_outs v else OGpio t1 h :: a_outs v)).

Definition onA (c : cfgT) (lg : bool) (v0 : mv) : mv :=
  let v := if lg then aemit (OActive (a_now v0)) v0 else v0 in
  if ((is_mono c && hasb (flags c) FLAG_TRIGGER_ON_PRESS) || is_bi c || is_motion c || negb (a_act v =? 0)) && arelc v then
    if is_motion c then (if hasb (a_act v) CAP_TURN_ON then v else sw 1 v) else sw 255 v
  else if is_sensor c && negb (chan c =? 255) then aemit (OValue (a_now v) (chan c) 1) v
  else v.
Definition onI (c : cfgT) (lg : bool) (v0 : mv) : mv :=
  let v := if lg then aemit (OInactive (a_now v0)) v0 else v0 in
  if ((is_mono c && negb (hasb (flags c) FLAG_TRIGGER_ON_PRESS)) || is_bi c || is_motion c) && arelc v then
    if is_motion c then (if hasb (a_act v) CAP_TURN_OFF then v else sw 0 v) else sw 255 v
  else if is_sensor c && negb (chan c =? 255) then aemit (OValue (a_now v) (chan c) 0) v
  else v.

Definition etrig (c : cfgT) (a : Z) (v : mv) : mv :=
  if Z.land a (a_act v) =? 0 then v else if chan c =? 255 then v else aemit (OTrig (a_now v) (chan c) a) v.
Definition strig (c : cfgT) (action : Z) (v : mv) : mv :=
  if action =? 0 then
    if a_cc v =? -1 then v
    else if (a_cc v =? 1) && arelc v then (if is_motion c then v else onA c true v)
    else etrig c (click_action c (a_cc v)) v
  else etrig c action v.

Definition set_cc_v (x : Z) (v : mv) : mv :=
  mkmv (a_now v) (a_last v) x (a_maxc v) (a_act v) (a_relg v) (a_lsc v) (a_silent v) (a_ton v) (a_tdue v) (a_tadv v)
       (a_relay v) (a_halted v) (a_outs v).
Definition set_ton_v (x : bool) (v : mv) : mv :=
  mkmv (a_now v) (a_last v) (a_cc v) (a_maxc v) (a_act v) (a_relg v) (a_lsc v) (a_silent v) x (a_tdue v) (a_tadv v)
       (a_relay v) (a_halted v) (a_outs v).
Definition arm_v (lscv : Z) (v : mv) : mv :=     (* last_state_change := now; os_timer_arm(timer, 20 ms, repeat) *)
  mkmv (a_now v) (a_last v) (a_cc v) (a_maxc v) (a_act v) (a_relg v) lscv (a_silent v) true (a_now v + CYCLE_US) (a_tadv v)
       (a_relay v) (a_halted v) (a_outs v).
Definition set_lsc_v (x : Z) (v : mv) : mv :=
  mkmv (a_now v) (a_last v) (a_cc v) (a_maxc v) (a_act v) (a_relg v) x (a_silent v) (a_ton v) (a_tdue v) (a_tadv v)
       (a_relay v) (a_halted v) (a_outs v).
Definition anow32 (c : cfgT) (v : mv) : Z := u32 (boot c + a_now v).

(* legacy handler, input is not the configuration button *)
Definition legH (c : cfgT) (st_ : Z) (v0 : mv) : mv :=
  let v := set_ton_v false v0 in
  if a_halted v then v
  else if st_ =? ST_ACTIVE then onA c true (set_lsc_v (anow32 c v) v) else onI c true v.

(* advanced handler, input is not the configuration button *)
Definition advH (c : cfgT) (st_ : Z) (v0 : mv) : mv :=
  let v := set_ton_v false v0 in
  let v1 :=
    if negb (a_cc v =? -1) && counts_click c st_ then
      let va := set_cc_v (s8 (a_cc v + 1)) v in
      if (is_bi c || is_motion c) && (st_ =? ST_ACTIVE) then
        let vb := etrig c CAP_TURN_ON va in if is_motion c then onA c true vb else vb
      else va
    else v in
  if a_halted v1 then v1
  else
    let v2 := if st_ =? ST_INACTIVE then
                let v2' := etrig c CAP_TURN_OFF v1 in if is_motion c then onI c true v2' else v2'
              else v1 in
    arm_v (anow32 c v2) v2.

Definition asilent_ret (c : cfgT) (v : mv) : bool := a_silent v && (u32 (anow32 c v - init32 c) <? SILENT_US).
Definition notifyV (c : cfgT) (st_ : Z) (v0 : mv) : mv :=
  let v := aemit (ONotify (a_now v0) st_ (a_last v0) (a_cc v0)) v0 in
  if asilent_ret c v then
    mkmv (a_now v) st_ (a_cc v) (a_maxc v) (a_act v) (a_relg v) (a_lsc v) (a_silent v) (a_ton v) (a_tdue v) (a_tadv v)
         (a_relay v) (a_halted v) (a_outs v)
  else if a_last v =? st_ then
    mkmv (a_now v) (a_last v) (a_cc v) (a_maxc v) (a_act v) (a_relg v) (a_lsc v) false (a_ton v) (a_tdue v) (a_tadv v)
         (a_relay v) (a_halted v) (a_outs v)
  else
    let adv := negb (a_act v =? 0) in
    let v1 := mkmv (a_now v) st_ (a_cc v) (a_maxc v) (a_act v) (a_relg v) (a_lsc v) false false (a_tdue v) adv
                   (a_relay v) (a_halted v) (a_outs v) in
    if adv then advH c st_ v1 else legH c st_ v1.

(* advanced timer callback, input is not the configuration button *)
Definition advT (c : cfgT) (v : mv) : mv :=
  let delta := u32 (anow32 c v - a_lsc v) in
  let v1 :=
    if is_mono c && (a_last v =? ST_ACTIVE) && negb (a_cc v =? -1) then
      if (a_cc v =? 1) && (HOLD_US <=? delta) then set_ton_v false (set_cc_v 0 (etrig c CAP_HOLD v)) else v
    else v in
  if a_halted v1 then v1
  else if (a_last v1 =? ST_INACTIVE) || is_bi c || is_motion c then
    if MULTICLICK_US <=? delta then set_cc_v 0 (strig c 0 (set_ton_v false v1))
    else if a_maxc v1 <=? a_cc v1 then
      let v2 := set_cc_v (-1) (strig c 0 v1) in
      if a_maxc v2 <=? 1 then set_cc_v 0 (set_ton_v false v2) else v2
    else v1
  else v1.

(* ---------- simulation ---------- *)
Ltac ga := cbn [a_now a_last a_cc a_maxc a_act a_relg a_lsc a_silent a_ton a_tdue a_tadv a_relay a_halted a_outs
                view aemit arelc set_cc_v set_ton_v set_lsc_v arm_v anow32].

Lemma emit_view o s : view (emit o s) = aemit o (view s).
Proof. reflexivity. Qed.
Lemma relay_switch_view hi s : view (relay_switch hi s) = sw hi (view s).
Proof.
  unfold relay_switch, sw. cbv zeta. ga. gs.
  destruct ((if hi =? 255 then if relay s =? 1 then 0 else 1 else hi) =? relay s); reflexivity.
Qed.
Lemma relc_view s : relc s = arelc (view s). Proof. reflexivity. Qed.

Lemma on_active_view c lg s : view (on_active c lg s) = onA c lg (view s).
Proof.
  unfold on_active, onA. cbv zeta.
  assert (E : view (if lg then emit (OActive (now s)) s else s) =
              (if lg then aemit (OActive (a_now (view s))) (view s) else view s)) by (destruct lg; reflexivity).
  set (x := if lg then emit _ s else s) in *. set (y := if lg then aemit _ _ else _) in *. clearbody x y.
  rewrite relc_view, E.
  replace (act x) with (a_act y) by (rewrite <- E; reflexivity).
  replace (now x) with (a_now y) by (rewrite <- E; reflexivity).
  destruct (_ && arelc y).
  - destruct (is_motion c); [destruct (hasb _ _)|]; rewrite ?relay_switch_view; congruence.
  - destruct (is_sensor c && _); [rewrite emit_view|]; congruence.
Qed.
Lemma on_inactive_view c lg s : view (on_inactive c lg s) = onI c lg (view s).
Proof.
  unfold on_inactive, onI. cbv zeta.
  assert (E : view (if lg then emit (OInactive (now s)) s else s) =
              (if lg then aemit (OInactive (a_now (view s))) (view s) else view s)) by (destruct lg; reflexivity).
  set (x := if lg then emit _ s else s) in *. set (y := if lg then aemit _ _ else _) in *. clearbody x y.
  rewrite relc_view, E.
  replace (act x) with (a_act y) by (rewrite <- E; reflexivity).
  replace (now x) with (a_now y) by (rewrite <- E; reflexivity).
  destruct (_ && arelc y).
  - destruct (is_motion c); [destruct (hasb _ _)|]; rewrite ?relay_switch_view; congruence.
  - destruct (is_sensor c && _); [rewrite emit_view|]; congruence.
Qed.
Lemma emit_trigger_view c a s : view (emit_trigger c a s) = etrig c a (view s).
Proof. unfold emit_trigger, etrig. change (act s) with (a_act (view s)). destruct (_ =? 0); [reflexivity|]. destruct (chan c =? 255); reflexivity. Qed.
Lemma send_trigger_view c a s : view (send_trigger c a s) = strig c a (view s).
Proof.
  unfold send_trigger, strig. change (cc s) with (a_cc (view s)). rewrite relc_view.
  destruct (a =? 0); [|apply emit_trigger_view].
  destruct (a_cc (view s) =? -1); [reflexivity|].
  destruct (_ && _); [destruct (is_motion c); [reflexivity|apply on_active_view]|apply emit_trigger_view].
Qed.

Lemma set_t_on_view b s : view (set_t_on b s) = set_ton_v b (view s). Proof. reflexivity. Qed.
Lemma set_cc_view x s : view (set_cc x s) = set_cc_v x (view s). Proof. reflexivity. Qed.
Lemma set_lsc_view x s : view (set_lsc x s) = set_lsc_v x (view s). Proof. reflexivity. Qed.
Lemma now32_view c s : now32 c s = anow32 c (view s). Proof. reflexivity. Qed.
Lemma arm_t_view c s : view (arm_t (set_lsc (now32 c s) s)) = arm_v (anow32 c (view s)) (view s).
Proof. reflexivity. Qed.
Lemma halted_view s : halted s = a_halted (view s). Proof. reflexivity. Qed.
Lemma cc_view s : cc s = a_cc (view s). Proof. reflexivity. Qed.

Lemma legacy_handler_view c st_ s : cfg_btn c = false -> view (legacy_handler c st_ s) = legH c st_ (view s).
Proof.
  intros Hc. unfold legacy_handler, legH. cbv zeta. rewrite Hc.
  rewrite halted_view, set_t_on_view. destruct (a_halted _); [reflexivity|].
  unfold on_hold_en. rewrite Hc. cbn [andb].
  destruct (st_ =? ST_ACTIVE).
  - rewrite on_active_view, set_lsc_view, now32_view, set_t_on_view. reflexivity.
  - rewrite on_inactive_view, set_t_on_view. reflexivity.
Qed.

Lemma adv_handler_view c st_ s : cfg_btn c = false -> view (adv_handler c st_ s) = advH c st_ (view s).
Proof.
  intros Hc. unfold adv_handler, advH. cbv zeta. unfold on_toggle_en. rewrite Hc. cbn [andb].
  set (x := set_t_on false s). assert (Ex : view x = set_ton_v false (view s)) by reflexivity.
  set (y := set_ton_v false (view s)) in *. clearbody x y.
  rewrite (cc_view x), Ex.
  set (x1 := if negb (a_cc y =? -1) && counts_click c st_ then _ else x).
  set (y1 := if negb (a_cc y =? -1) && counts_click c st_ then _ else y).
  assert (E1 : view x1 = y1).
  { subst x1 y1. destruct (_ && counts_click c st_); [|exact Ex].
    destruct ((is_bi c || is_motion c) && (st_ =? ST_ACTIVE)).
    - destruct (is_motion c); rewrite ?on_active_view, emit_trigger_view, set_cc_view, Ex; reflexivity.
    - rewrite set_cc_view, Ex. reflexivity. }
  clearbody x1 y1. rewrite halted_view, E1. destruct (a_halted y1); [exact E1|].
  set (x2 := if st_ =? ST_INACTIVE then _ else x1).
  set (y2 := if st_ =? ST_INACTIVE then _ else y1).
  assert (E2 : view x2 = y2).
  { subst x2 y2. destruct (st_ =? ST_INACTIVE); [|exact E1].
    destruct (is_motion c); rewrite ?on_inactive_view, emit_trigger_view, E1; reflexivity. }
  clearbody x2 y2. rewrite arm_t_view, E2. reflexivity.
Qed.

Lemma notify_view c st_ s : cfg_btn c = false -> view (notify c st_ s) = notifyV c st_ (view s).
Proof.
  intros Hc. unfold notify, notifyV. cbv zeta.
  set (x := emit _ s). assert (Ex : view x = aemit (ONotify (now s) st_ (last s) (cc s)) (view s)) by reflexivity.
  change (ONotify (a_now (view s)) st_ (a_last (view s)) (a_cc (view s))) with (ONotify (now s) st_ (last s) (cc s)).
  set (y := aemit _ (view s)) in *. clearbody x y.
  change (silent x && (u32 (now32 c x - init32 c) <? SILENT_US)) with (asilent_ret c (view x)). rewrite Ex.
  destruct (asilent_ret c y).
  - rewrite <- Ex. reflexivity.
  - change (last (set_silent false x)) with (a_last (view x)). rewrite Ex.
    destruct (a_last y =? st_); [rewrite <- Ex; reflexivity|].
    change (act (set_last st_ (set_t_on false (set_silent false x)))) with (a_act (view x)). rewrite Ex.
    destruct (negb (a_act y =? 0)).
    + rewrite adv_handler_view by assumption. f_equal. rewrite <- Ex. reflexivity.
    + rewrite legacy_handler_view by assumption. f_equal. rewrite <- Ex. reflexivity.
Qed.

Lemma adv_timer_view c s : cfg_btn c = false -> view (adv_timer c s) = advT c (view s).
Proof.
  intros Hc. unfold adv_timer, advT. cbv zeta. unfold on_hold_en. rewrite Hc. cbn [andb].
  rewrite now32_view. change (lsc s) with (a_lsc (view s)). change (last s) with (a_last (view s)).
  change (cc s) with (a_cc (view s)).
  set (d := u32 (anow32 c (view s) - a_lsc (view s))).
  set (x1 := if is_mono c && (a_last (view s) =? ST_ACTIVE) && negb (a_cc (view s) =? -1) then _ else s).
  set (y1 := if is_mono c && (a_last (view s) =? ST_ACTIVE) && negb (a_cc (view s) =? -1) then _ else view s).
  assert (E1 : view x1 = y1).
  { subst x1 y1. destruct (is_mono c && _ && _); [|reflexivity].
    rewrite halted_view. destruct (a_halted (view s)) eqn:Hh.
    - (* halted states never reach a callback; both sides are what the code would do *)
      destruct ((a_cc (view s) =? 1) && (HOLD_US <=? d)); reflexivity.
    - change (cc s) with (a_cc (view s)). destruct ((a_cc (view s) =? 1) && (HOLD_US <=? d)); [|reflexivity].
      rewrite set_t_on_view, set_cc_view, emit_trigger_view. reflexivity. }
  clearbody x1 y1. rewrite halted_view, E1. destruct (a_halted y1); [exact E1|].
  change (last x1) with (a_last (view x1)). rewrite E1.
  destruct ((a_last y1 =? ST_INACTIVE) || is_bi c || is_motion c); [|exact E1].
  destruct (MULTICLICK_US <=? d).
  - rewrite set_cc_view, send_trigger_view, set_t_on_view, E1. reflexivity.
  - change (maxc x1) with (a_maxc (view x1)). change (cc x1) with (a_cc (view x1)). rewrite E1.
    destruct (a_maxc y1 <=? a_cc y1); [|exact E1].
    set (x2 := set_cc (-1) (send_trigger c 0 x1)).
    assert (E2 : view x2 = set_cc_v (-1) (strig c 0 y1)) by (subst x2; rewrite set_cc_view, send_trigger_view, E1; reflexivity).
    set (y2 := set_cc_v (-1) (strig c 0 y1)) in *. clearbody x2 y2.
    change (maxc x2) with (a_maxc (view x2)). rewrite E2.
    destruct (a_maxc y2 <=? 1); [rewrite set_cc_view, set_t_on_view, E2; reflexivity|exact E2].
Qed.
