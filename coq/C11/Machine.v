(* C11 — the button machine of supla_esp_input.c on a small record ("view"), for inputs that are not the
   configuration button (cfg_btn c = false): notify / legacy and advanced handlers / advanced timer /
   send_action_trigger / on_input_active / _inactive / relay_switch, and the proof that the model of
   Model.v, seen through `view`, is exactly this machine (simulation lemmas `*_view`). *)
From Coq Require Import List ZArith Bool Lia.
Import ListNotations.
From V Require Import Base.U32 Base.Iface Gen.InputConsts C11.Model C11.Proofs.
Local Open Scope Z_scope.

Ltac gs := cbn [now lvl dstep dval d_on d_due d_seq last cc maxc act relg disg lsc silent t_on t_due t_seq t_adv
                m_on m_due m_seq relay seqc halted late outs tr
                set_now set_lvl set_dstep set_dval set_d_on set_d_due set_d_seq set_last set_cc set_maxc set_act
                set_relg set_disg set_lsc set_silent set_t_on set_t_due set_t_seq set_t_adv set_m_on set_m_due
                set_m_seq set_relay set_seqc set_halted set_late set_outs set_tr emit andb orb negb].

Record mv := mkmv {
  a_now : Z; a_last : Z; a_cc : Z; a_maxc : Z; a_act : Z; a_relg : Z; a_lsc : Z; a_silent : bool;
  a_ton : bool; a_tdue : Z; a_tadv : bool; a_relay : Z; a_halted : bool; a_outs : list out }.

Definition view (s : st) : mv :=
  mkmv (now s) (last s) (cc s) (maxc s) (act s) (relg s) (lsc s) (silent s) (t_on s) (t_due s) (t_adv s) (relay s)
       (halted s) (outs s).

Definition aemit (o : out) (v : mv) : mv :=
  mkmv (a_now v) (a_last v) (a_cc v) (a_maxc v) (a_act v) (a_relg v) (a_lsc v) (a_silent v) (a_ton v) (a_tdue v) (a_tadv v)
       (a_relay v) (a_halted v) (o :: a_outs v).
Definition arelc (v : mv) : bool := negb (a_relg v =? NOREL).

(* supla_esp_gpio_relay_switch *)
Definition sw (hi : Z) (v : mv) : mv :=
  let h := if hi =? 255 then (if a_relay v =? 1 then 0 else 1) else hi in
  let t1 := a_now v + RELAY_D1 in let t2 := t1 + RELAY_DOUBLE_TRY_US + RELAY_D2 in
  mkmv t2 (a_last v) (a_cc v) (a_maxc v) (a_act v) (a_relg v) (a_lsc v) (a_silent v) (a_ton v) (a_tdue v) (a_tadv v)
       h (a_halted v)
       (OValue t2 RELAY_CH h :: (if h =? a_relay v then a_outs v else OGpio t1 h :: a_outs v)).

Definition onA (c : cfgT) (lg : bool) (v0 : mv) : mv :=
  let v := if lg then aemit (OActive (a_now v0)) v0 else v0 in
  if ((is_mono c && hasb (flags c) FLAG_TRIGGER_ON_PRESS) || is_bi c || is_motion c || negb (a_act v =? 0)) && arelc v then
    if is_motion c then (if hasb (a_act v) CAP_TURN_ON then v else sw 1 v) else sw 255 v
  else if is_sensor c && negb (chan c =? 255) then aemit (OValue (a_now v) (chan c) 1) v
  else v.
Definition onI (c : cfgT) (lg : bool) (v0 : mv) : mv :=
  let v := if lg then aemit (OInactive (a_now v0)) v0 else v0 in
  if ((is_mono c && negb (hasb (flags c) FLAG_TRIGGER_ON_PRESS)) || is_bi c || is_motion c) && arelc v then
    if is_motion c then (if hasb (a_act v) CAP_TURN_OFF then v else sw 0 v) else sw 255 v
  else if is_sensor c && negb (chan c =? 255) then aemit (OValue (a_now v) (chan c) 0) v
  else v.

Definition etrig (c : cfgT) (a : Z) (v : mv) : mv :=
  if Z.land a (a_act v) =? 0 then v else if chan c =? 255 then v else aemit (OTrig (a_now v) (chan c) a) v.
Definition strig (c : cfgT) (action : Z) (v : mv) : mv :=
  if action =? 0 then
    if a_cc v =? -1 then v
    else if (a_cc v =? 1) && arelc v then (if is_motion c then v else onA c true v)
    else etrig c (click_action c (a_cc v)) v
  else etrig c action v.

Definition set_cc_v (x : Z) (v : mv) : mv :=
  mkmv (a_now v) (a_last v) x (a_maxc v) (a_act v) (a_relg v) (a_lsc v) (a_silent v) (a_ton v) (a_tdue v) (a_tadv v)
       (a_relay v) (a_halted v) (a_outs v).
Definition set_ton_v (x : bool) (v : mv) : mv :=
  mkmv (a_now v) (a_last v) (a_cc v) (a_maxc v) (a_act v) (a_relg v) (a_lsc v) (a_silent v) x (a_tdue v) (a_tadv v)
       (a_relay v) (a_halted v) (a_outs v).
Definition arm_v (lscv : Z) (v : mv) : mv :=     (* last_state_change := now; os_timer_arm(timer, 20 ms, repeat) *)
  mkmv (a_now v) (a_last v) (a_cc v) (a_maxc v) (a_act v) (a_relg v) lscv (a_silent v) true (a_now v + CYCLE_US) (a_tadv v)
       (a_relay v) (a_halted v) (a_outs v).
Definition set_lsc_v (x : Z) (v : mv) : mv :=
  mkmv (a_now v) (a_last v) (a_cc v) (a_maxc v) (a_act v) (a_relg v) x (a_silent v) (a_ton v) (a_tdue v) (a_tadv v)
       (a_relay v) (a_halted v) (a_outs v).
Definition anow32 (c : cfgT) (v : mv) : Z := u32 (boot c + a_now v).

(* entering configuration mode ends the case (Model.halt) *)
Definition ahalt (v : mv) : mv :=
  mkmv (a_now v) (a_last v) (a_cc v) (a_maxc v) (a_act v) (a_relg v) (a_lsc v) (a_silent v) (a_ton v) (a_tdue v) (a_tadv v)
       (a_relay v) true (OCfgmode (a_now v) :: a_outs v).
Definition armt_v (v : mv) : mv :=                  (* os_timer_arm(timer, 20 ms, repeat) *)
  mkmv (a_now v) (a_last v) (a_cc v) (a_maxc v) (a_act v) (a_relg v) (a_lsc v) (a_silent v) true (a_now v + CYCLE_US) (a_tadv v)
       (a_relay v) (a_halted v) (a_outs v).

(* legacy handler; first the toggle counting of a configuration button *)
Definition leg_count (c : cfgT) (st_ : Z) (v : mv) : mv :=
  if cfg_btn c then
    let v' := if CFG_COUNT_RESET_US <=? u32 (anow32 c v - a_lsc v) then set_cc_v 1 v
              else if counts_click c st_ then set_cc_v (s8 (a_cc v + 1)) v else v in
    if on_toggle_en c && (CFG_PRESS_COUNT <=? a_cc v') then ahalt (set_cc_v 0 v') else v'
  else v.
Definition legH (c : cfgT) (st_ : Z) (v0 : mv) : mv :=
  let v := set_ton_v false v0 in
  let v1 := leg_count c st_ v in
  if a_halted v1 then v1
  else if st_ =? ST_ACTIVE then
    let v2 := if on_hold_en c then armt_v v1 else v1 in
    onA c true (set_lsc_v (anow32 c v2) v2)
  else onI c true v1.

(* advanced handler *)
Definition advH (c : cfgT) (st_ : Z) (v0 : mv) : mv :=
  let v := set_ton_v false v0 in
  let v1 :=
    if negb (a_cc v =? -1) && counts_click c st_ then
      let va := set_cc_v (s8 (a_cc v + 1)) v in
      let vb := if (is_bi c || is_motion c) && (st_ =? ST_ACTIVE) then
                  let vb' := etrig c CAP_TURN_ON va in if is_motion c then onA c true vb' else vb'
                else va in
      if on_toggle_en c && (CFG_PRESS_COUNT <=? a_cc vb) then ahalt (set_cc_v 0 vb) else vb
    else v in
  if a_halted v1 then v1
  else
    let v2 := if st_ =? ST_INACTIVE then
                let v2' := etrig c CAP_TURN_OFF v1 in if is_motion c then onI c true v2' else v2'
              else v1 in
    arm_v (anow32 c v2) v2.

Definition asilent_ret (c : cfgT) (v : mv) : bool := a_silent v && (u32 (anow32 c v - init32 c) <? SILENT_US).
Definition notifyV (c : cfgT) (st_ : Z) (v0 : mv) : mv :=
  let v := aemit (ONotify (a_now v0) st_ (a_last v0) (a_cc v0)) v0 in
  if asilent_ret c v then
    mkmv (a_now v) st_ (a_cc v) (a_maxc v) (a_act v) (a_relg v) (a_lsc v) (a_silent v) (a_ton v) (a_tdue v) (a_tadv v)
         (a_relay v) (a_halted v) (a_outs v)
  else if a_last v =? st_ then
    mkmv (a_now v) (a_last v) (a_cc v) (a_maxc v) (a_act v) (a_relg v) (a_lsc v) false (a_ton v) (a_tdue v) (a_tadv v)
         (a_relay v) (a_halted v) (a_outs v)
  else
    let adv := negb (a_act v =? 0) in
    let v1 := mkmv (a_now v) st_ (a_cc v) (a_maxc v) (a_act v) (a_relg v) (a_lsc v) false false (a_tdue v) adv
                   (a_relay v) (a_halted v) (a_outs v) in
    if adv then advH c st_ v1 else legH c st_ v1.

(* advanced timer callback *)
Definition advT (c : cfgT) (v : mv) : mv :=
  let delta := u32 (anow32 c v - a_lsc v) in
  let v1 :=
    if is_mono c && (a_last v =? ST_ACTIVE) && negb (a_cc v =? -1) then
      let va := if on_hold_en c && (CFG_PRESS_US <=? delta) then ahalt (set_cc_v 0 (set_ton_v false v)) else v in
      if a_halted va then va
      else if (a_cc va =? 1) && (HOLD_US <=? delta) then
        let vb := set_cc_v 0 (etrig c CAP_HOLD va) in if on_hold_en c then vb else set_ton_v false vb
      else va
    else v in
  if a_halted v1 then v1
  else if (a_last v1 =? ST_INACTIVE) || is_bi c || is_motion c then
    if MULTICLICK_US <=? delta then set_cc_v 0 (strig c 0 (set_ton_v false v1))
    else if a_maxc v1 <=? a_cc v1 then
      let v2 := set_cc_v (-1) (strig c 0 v1) in
      if a_maxc v2 <=? 1 then set_cc_v 0 (set_ton_v false v2) else v2
    else v1
  else v1.
(* legacy timer callback: only the configuration-button hold *)
Definition legT (c : cfgT) (v : mv) : mv :=
  if (a_last v =? ST_ACTIVE) && on_hold_en c && (CFG_PRESS_US <=? u32 (anow32 c v - a_lsc v))
  then ahalt (set_cc_v 0 (set_ton_v false v)) else v.

(* ---------- simulation ---------- *)
Ltac ga := cbn [a_now a_last a_cc a_maxc a_act a_relg a_lsc a_silent a_ton a_tdue a_tadv a_relay a_halted a_outs
                view aemit arelc set_cc_v set_ton_v set_lsc_v arm_v armt_v ahalt anow32].

Lemma emit_view o s : view (emit o s) = aemit o (view s).
Proof. reflexivity. Qed.
Lemma relay_switch_view hi s : view (relay_switch hi s) = sw hi (view s).
Proof.
  unfold relay_switch, sw. cbv zeta. ga. gs.
  destruct ((if hi =? 255 then if relay s =? 1 then 0 else 1 else hi) =? relay s); reflexivity.
Qed.
Lemma relc_view s : relc s = arelc (view s). Proof. reflexivity. Qed.

Lemma on_active_view c lg s : view (on_active c lg s) = onA c lg (view s).
Proof.
  unfold on_active, onA. cbv zeta.
  assert (E : view (if lg then emit (OActive (now s)) s else s) =
              (if lg then aemit (OActive (a_now (view s))) (view s) else view s)) by (destruct lg; reflexivity).
  set (x := if lg then emit _ s else s) in *. set (y := if lg then aemit _ _ else _) in *. clearbody x y.
  rewrite relc_view, E.
  replace (act x) with (a_act y) by (rewrite <- E; reflexivity).
  replace (now x) with (a_now y) by (rewrite <- E; reflexivity).
  destruct (_ && arelc y).
  - destruct (is_motion c); [destruct (hasb _ _)|]; rewrite ?relay_switch_view; congruence.
  - destruct (is_sensor c && _); [rewrite emit_view|]; congruence.
Qed.
Lemma on_inactive_view c lg s : view (on_inactive c lg s) = onI c lg (view s).
Proof.
  unfold on_inactive, onI. cbv zeta.
  assert (E : view (if lg then emit (OInactive (now s)) s else s) =
              (if lg then aemit (OInactive (a_now (view s))) (view s) else view s)) by (destruct lg; reflexivity).
  set (x := if lg then emit _ s else s) in *. set (y := if lg then aemit _ _ else _) in *. clearbody x y.
  rewrite relc_view, E.
  replace (act x) with (a_act y) by (rewrite <- E; reflexivity).
  replace (now x) with (a_now y) by (rewrite <- E; reflexivity).
  destruct (_ && arelc y).
  - destruct (is_motion c); [destruct (hasb _ _)|]; rewrite ?relay_switch_view; congruence.
  - destruct (is_sensor c && _); [rewrite emit_view|]; congruence.
Qed.
Lemma emit_trigger_view c a s : view (emit_trigger c a s) = etrig c a (view s).
Proof. unfold emit_trigger, etrig. change (act s) with (a_act (view s)). destruct (_ =? 0); [reflexivity|]. destruct (chan c =? 255); reflexivity. Qed.
Lemma send_trigger_view c a s : view (send_trigger c a s) = strig c a (view s).
Proof.
  unfold send_trigger, strig. change (cc s) with (a_cc (view s)). rewrite relc_view.
  destruct (a =? 0); [|apply emit_trigger_view].
  destruct (a_cc (view s) =? -1); [reflexivity|].
  destruct (_ && _); [destruct (is_motion c); [reflexivity|apply on_active_view]|apply emit_trigger_view].
Qed.

Lemma set_t_on_view b s : view (set_t_on b s) = set_ton_v b (view s). Proof. reflexivity. Qed.
Lemma set_cc_view x s : view (set_cc x s) = set_cc_v x (view s). Proof. reflexivity. Qed.
Lemma set_lsc_view x s : view (set_lsc x s) = set_lsc_v x (view s). Proof. reflexivity. Qed.
Lemma now32_view c s : now32 c s = anow32 c (view s). Proof. reflexivity. Qed.
Lemma arm_t_view c s : view (arm_t (set_lsc (now32 c s) s)) = arm_v (anow32 c (view s)) (view s).
Proof. reflexivity. Qed.
Lemma halted_view s : halted s = a_halted (view s). Proof. reflexivity. Qed.
Lemma cc_view s : cc s = a_cc (view s). Proof. reflexivity. Qed.

Lemma halt_view s : view (halt s) = ahalt (view s). Proof. reflexivity. Qed.
Lemma arm_t_only_view s : view (arm_t s) = armt_v (view s). Proof. reflexivity. Qed.
Lemma lsc_view s : lsc s = a_lsc (view s). Proof. reflexivity. Qed.

Lemma legacy_handler_viewG c st_ s : view (legacy_handler c st_ s) = legH c st_ (view s).
Proof.
  unfold legacy_handler, legH, leg_count. cbv zeta.
  set (x := set_t_on false s). assert (Ex : view x = set_ton_v false (view s)) by reflexivity.
  set (y := set_ton_v false (view s)) in *. clearbody x y.
  set (x1 := if cfg_btn c then _ else x). set (y1 := if cfg_btn c then _ else y).
  assert (E1 : view x1 = y1).
  { subst x1 y1. destruct (cfg_btn c); [|exact Ex].
    rewrite now32_view, lsc_view, (cc_view x), Ex.
    set (x' := if CFG_COUNT_RESET_US <=? _ then _ else _). set (y' := if CFG_COUNT_RESET_US <=? _ then _ else _).
    assert (E' : view x' = y').
    { subst x' y'. destruct (CFG_COUNT_RESET_US <=? _); [rewrite set_cc_view, Ex; reflexivity|].
      destruct (counts_click c st_); [rewrite set_cc_view, Ex; reflexivity|exact Ex]. }
    clearbody x' y'. rewrite (cc_view x'), E'.
    destruct (on_toggle_en c && _); [rewrite halt_view, set_cc_view, E'; reflexivity|exact E']. }
  clearbody x1 y1. rewrite halted_view, E1. destruct (a_halted y1); [exact E1|].
  destruct (st_ =? ST_ACTIVE).
  - rewrite on_active_view, set_lsc_view, now32_view.
    destruct (on_hold_en c); [rewrite arm_t_only_view, E1; reflexivity|rewrite E1; reflexivity].
  - rewrite on_inactive_view, E1. reflexivity.
Qed.

Lemma adv_handler_viewG c st_ s : view (adv_handler c st_ s) = advH c st_ (view s).
Proof.
  unfold adv_handler, advH. cbv zeta.
  set (x := set_t_on false s). assert (Ex : view x = set_ton_v false (view s)) by reflexivity.
  set (y := set_ton_v false (view s)) in *. clearbody x y.
  rewrite (cc_view x), Ex.
  set (x1 := if negb (a_cc y =? -1) && counts_click c st_ then _ else x).
  set (y1 := if negb (a_cc y =? -1) && counts_click c st_ then _ else y).
  assert (E1 : view x1 = y1).
  { subst x1 y1. destruct (_ && counts_click c st_); [|exact Ex].
    set (xb := if (is_bi c || is_motion c) && (st_ =? ST_ACTIVE) then _ else _).
    set (yb := if (is_bi c || is_motion c) && (st_ =? ST_ACTIVE) then _ else _).
    assert (Eb : view xb = yb).
    { subst xb yb. destruct ((is_bi c || is_motion c) && (st_ =? ST_ACTIVE)).
      - destruct (is_motion c); rewrite ?on_active_view, emit_trigger_view, set_cc_view, Ex; reflexivity.
      - rewrite set_cc_view, Ex. reflexivity. }
    clearbody xb yb. rewrite (cc_view xb), Eb.
    destruct (on_toggle_en c && _); [rewrite halt_view, set_cc_view, Eb; reflexivity|exact Eb]. }
  clearbody x1 y1. rewrite halted_view, E1. destruct (a_halted y1); [exact E1|].
  set (x2 := if st_ =? ST_INACTIVE then _ else x1).
  set (y2 := if st_ =? ST_INACTIVE then _ else y1).
  assert (E2 : view x2 = y2).
  { subst x2 y2. destruct (st_ =? ST_INACTIVE); [|exact E1].
    destruct (is_motion c); rewrite ?on_inactive_view, emit_trigger_view, E1; reflexivity. }
  clearbody x2 y2. rewrite arm_t_view, E2. reflexivity.
Qed.

Lemma notify_viewG c st_ s : view (notify c st_ s) = notifyV c st_ (view s).
Proof.
  unfold notify, notifyV. cbv zeta.
  set (x := emit _ s). assert (Ex : view x = aemit (ONotify (now s) st_ (last s) (cc s)) (view s)) by reflexivity.
  change (ONotify (a_now (view s)) st_ (a_last (view s)) (a_cc (view s))) with (ONotify (now s) st_ (last s) (cc s)).
  set (y := aemit _ (view s)) in *. clearbody x y.
  change (silent x && (u32 (now32 c x - init32 c) <? SILENT_US)) with (asilent_ret c (view x)). rewrite Ex.
  destruct (asilent_ret c y).
  - rewrite <- Ex. reflexivity.
  - change (last (set_silent false x)) with (a_last (view x)). rewrite Ex.
    destruct (a_last y =? st_); [rewrite <- Ex; reflexivity|].
    change (act (set_last st_ (set_t_on false (set_silent false x)))) with (a_act (view x)). rewrite Ex.
    destruct (negb (a_act y =? 0)).
    + rewrite adv_handler_viewG. f_equal. rewrite <- Ex. reflexivity.
    + rewrite legacy_handler_viewG. f_equal. rewrite <- Ex. reflexivity.
Qed.

Lemma adv_timer_viewG c s : view (adv_timer c s) = advT c (view s).
Proof.
  unfold adv_timer, advT. cbv zeta.
  rewrite now32_view. change (lsc s) with (a_lsc (view s)). change (last s) with (a_last (view s)).
  change (cc s) with (a_cc (view s)).
  set (d := u32 (anow32 c (view s) - a_lsc (view s))).
  set (x1 := if is_mono c && (a_last (view s) =? ST_ACTIVE) && negb (a_cc (view s) =? -1) then _ else s).
  set (y1 := if is_mono c && (a_last (view s) =? ST_ACTIVE) && negb (a_cc (view s) =? -1) then _ else view s).
  assert (E1 : view x1 = y1).
  { subst x1 y1. destruct (is_mono c && _ && _); [|reflexivity].
    set (xa := if on_hold_en c && (CFG_PRESS_US <=? d) then _ else s).
    set (ya := if on_hold_en c && (CFG_PRESS_US <=? d) then _ else view s).
    assert (Ea : view xa = ya) by (subst xa ya; destruct (on_hold_en c && _); reflexivity).
    clearbody xa ya. rewrite halted_view, Ea. destruct (a_halted ya); [exact Ea|].
    rewrite (cc_view xa), Ea. destruct ((a_cc ya =? 1) && (HOLD_US <=? d)); [|exact Ea].
    destruct (on_hold_en c); rewrite ?set_t_on_view, set_cc_view, emit_trigger_view, Ea; reflexivity. }
  clearbody x1 y1. rewrite halted_view, E1. destruct (a_halted y1); [exact E1|].
  change (last x1) with (a_last (view x1)). rewrite E1.
  destruct ((a_last y1 =? ST_INACTIVE) || is_bi c || is_motion c); [|exact E1].
  destruct (MULTICLICK_US <=? d).
  - rewrite set_cc_view, send_trigger_view, set_t_on_view, E1. reflexivity.
  - change (maxc x1) with (a_maxc (view x1)). change (cc x1) with (a_cc (view x1)). rewrite E1.
    destruct (a_maxc y1 <=? a_cc y1); [|exact E1].
    set (x2 := set_cc (-1) (send_trigger c 0 x1)).
    assert (E2 : view x2 = set_cc_v (-1) (strig c 0 y1)) by (subst x2; rewrite set_cc_view, send_trigger_view, E1; reflexivity).
    set (y2 := set_cc_v (-1) (strig c 0 y1)) in *. clearbody x2 y2.
    change (maxc x2) with (a_maxc (view x2)). rewrite E2.
    destruct (a_maxc y2 <=? 1); [rewrite set_cc_view, set_t_on_view, E2; reflexivity|exact E2].
Qed.
Lemma legacy_timer_viewG c s : view (legacy_timer c s) = legT c (view s).
Proof.
  unfold legacy_timer, legT. rewrite now32_view. change (lsc s) with (a_lsc (view s)). change (last s) with (a_last (view s)).
  destruct (_ && _ && _); reflexivity.
Qed.

Lemma legacy_handler_view c st_ s : cfg_btn c = false -> view (legacy_handler c st_ s) = legH c st_ (view s).
Proof. intros _. apply legacy_handler_viewG. Qed.
Lemma adv_handler_view c st_ s : cfg_btn c = false -> view (adv_handler c st_ s) = advH c st_ (view s).
Proof. intros _. apply adv_handler_viewG. Qed.
Lemma notify_view c st_ s : cfg_btn c = false -> view (notify c st_ s) = notifyV c st_ (view s).
Proof. intros _. apply notify_viewG. Qed.
Lemma adv_timer_view c s : cfg_btn c = false -> view (adv_timer c s) = advT c (view s).
Proof. intros _. apply adv_timer_viewG. Qed.

(* ---------- micro-steps seen through the view ---------- *)
Inductive astep := ATime (t : Z) | ANotify (st_ : Z) | ATim | AMot | AOut (o : out) | ANop.

Definition set_now_v (t : Z) (v : mv) : mv :=
  mkmv t (a_last v) (a_cc v) (a_maxc v) (a_act v) (a_relg v) (a_lsc v) (a_silent v) (a_ton v) (a_tdue v) (a_tadv v)
       (a_relay v) (a_halted v) (a_outs v).
Definition set_tdue_v (t : Z) (v : mv) : mv :=
  mkmv (a_now v) (a_last v) (a_cc v) (a_maxc v) (a_act v) (a_relg v) (a_lsc v) (a_silent v) (a_ton v) t (a_tadv v)
       (a_relay v) (a_halted v) (a_outs v).
Definition motV (c : cfgT) (v : mv) : mv :=
  if arelc v && is_motion c then
    if a_last v =? ST_ACTIVE then onA c false v else if a_last v =? ST_INACTIVE then onI c false v else v
  else v.

Definition aact (c : cfgT) (a : astep) (v : mv) : mv :=
  if a_halted v then v else
  match a with
  | ATime t => if a_now v <=? t then set_now_v t v else v
  | ANotify st_ => notifyV c st_ v
  | ATim => if a_ton v && (a_tdue v <=? a_now v)
            then let v1 := set_tdue_v (a_tdue v + CYCLE_US) v in if a_tadv v then advT c v1 else legT c v1
            else v
  | AMot => motV c v
  | AOut o => aemit o v
  | ANop => v
  end.
Definition arun (c : cfgT) (l : list astep) (v : mv) : mv := fold_left (fun v a => aact c a v) l v.

(* which step of the machine a micro-step of the model is *)
Definition abs (c : cfgT) (m : micro) (s : st) : astep :=
  match m with
  | MTime t => ATime t
  | MIn _ => ANop
  | MDeb => if d_on s && (d_due s <=? now s) && caseB (rearm_d s) then ANotify (stl c (lvl s)) else ANop
  | MTim => ATim
  | MMot => if m_on s && (m_due s <=? now s) then AMot else ANop
  | MTrig _ => ANop
  | MFault => AOut OFault
  end.
Definition is_trig (m : micro) : bool := match m with MTrig _ => true | _ => false end.

Lemma mstep_view c m s : view (mstep c m s) = view (mact c m s).
Proof. reflexivity. Qed.

Theorem sim_stepG c m s : is_trig m = false -> view (mstep c m s) = aact c (abs c m s) (view s).
Proof.
  intros Ht. rewrite mstep_view. unfold aact. change (a_halted (view s)) with (halted s).
  destruct (halted s) eqn:Hs; [rewrite mact_halted by assumption; reflexivity|].
  destruct m; try discriminate.
  - (* MTime *) unfold mact, abs. rewrite Hs. change (a_now (view s)) with (now s). destruct (now s <=? t); reflexivity.
  - (* MIn *) unfold mact, abs. rewrite Hs. destruct (l =? lvl s); [reflexivity|].
    unfold isr, arm_d. repeat match goal with |- context[if ?b then _ else _] => destruct b end; reflexivity.
  - (* MDeb *) rewrite mact_deb by assumption. unfold abs.
    destruct (d_on s && (d_due s <=? now s)); [|reflexivity]. cbn [andb].
    destruct (caseA (rearm_d s)) eqn:EA.
    + rewrite deb_cb_A by assumption. unfold caseB. rewrite EA. reflexivity.
    + destruct (caseB (rearm_d s)) eqn:EB.
      * rewrite deb_cb_B by assumption. cbv zeta.
        assert (E : view (notify c (stl c (lvl (rearm_d s))) (rearm_d s)) = notifyV c (stl c (lvl s)) (view s)).
        { rewrite notify_viewG. reflexivity. }
        set (y := notify c (stl c (lvl (rearm_d s))) (rearm_d s)) in *.
        destruct (halted y); [exact E|]. rewrite <- E. reflexivity.
      * rewrite deb_cb_C by assumption. reflexivity.
  - (* MTim *) unfold mact, abs. rewrite Hs.
    change (a_ton (view s)) with (t_on s). change (a_tdue (view s)) with (t_due s). change (a_now (view s)) with (now s).
    destruct (t_on s && (t_due s <=? now s)); [|reflexivity]. cbv zeta.
    change (a_tadv (view s)) with (t_adv s). destruct (t_adv s).
    + rewrite adv_timer_viewG. reflexivity.
    + rewrite legacy_timer_viewG. reflexivity.
  - (* MMot *) unfold mact, abs. rewrite Hs. destruct (m_on s && (m_due s <=? now s)); [|reflexivity].
    unfold mot_cb, motV. rewrite relc_view.
    change (view (set_m_on false s)) with (view s).
    destruct (arelc (view s) && is_motion c); [|reflexivity].
    change (last (set_m_on false s)) with (a_last (view s)).
    destruct (a_last (view s) =? ST_ACTIVE); [rewrite on_active_view; reflexivity|].
    destruct (a_last (view s) =? ST_INACTIVE); [rewrite on_inactive_view; reflexivity|reflexivity].
  - (* MFault *) unfold mact, abs. rewrite Hs. reflexivity.
Qed.
Theorem sim_step c m s : cfg_btn c = false -> is_trig m = false ->
  view (mstep c m s) = aact c (abs c m s) (view s).
Proof. intros _. apply sim_stepG. Qed.

Fixpoint atrace (c : cfgT) (ms : list micro) (s : st) : list astep :=
  match ms with [] => [] | m :: ms' => abs c m s :: atrace c ms' (mstep c m s) end.
Theorem sim_runG c ms : forall s, forallb (fun m => negb (is_trig m)) ms = true ->
  view (mrun c ms s) = arun c (atrace c ms s) (view s).
Proof.
  induction ms as [|m ms IH]; intros s Hn; [reflexivity|].
  cbn in Hn. apply andb_prop in Hn as [H1 H2]. apply negb_true_iff in H1.
  rewrite mrun_cons. cbn [atrace]. unfold arun. cbn [fold_left]. rewrite <- sim_stepG by assumption.
  apply IH; assumption.
Qed.
Theorem sim_run c ms : forall s, cfg_btn c = false -> forallb (fun m => negb (is_trig m)) ms = true ->
  view (mrun c ms s) = arun c (atrace c ms s) (view s).
Proof. intros s _. apply sim_runG. Qed.

(* ---------- plain mode on the machine ---------- *)
Definition gpv (v : mv) : list out := filter is_gpio (a_outs v).
Definition plain_expect (c : cfgT) (st_ r0 : Z) : option Z :=
  if is_mono c then (if Bool.eqb (st_ =? ST_ACTIVE) (hasb (flags c) FLAG_TRIGGER_ON_PRESS) then Some (1 - r0) else None)
  else if is_bi c then Some (1 - r0) else if is_motion c then Some st_ else None.

Ltac closedZ t := match t with Z0 => idtac | Zpos _ => idtac | Zneg _ => idtac | _ => is_const t end.
Ltac kc := repeat match goal with
  | |- context[?a =? ?b] => closedZ a; closedZ b;
      let v := eval vm_compute in (a =? b) in
      match v with true => change (a =? b) with true | false => change (a =? b) with false end
  | |- context[hasb 0 ?b] => change (hasb 0 b) with false
  end.
Ltac gv := cbn [a_now a_last a_cc a_maxc a_act a_relg a_lsc a_silent a_ton a_tdue a_tadv a_relay a_halted a_outs
                aemit arelc set_cc_v set_ton_v set_lsc_v arm_v set_now_v set_tdue_v andb orb negb Bool.eqb gpv filter is_gpio app].

Lemma types_excl c :
  (is_mono c = true -> is_bi c = false /\ is_motion c = false /\ is_sensor c = false) /\
  (is_bi c = true -> is_motion c = false /\ is_sensor c = false) /\
  (is_motion c = true -> is_sensor c = false).
Proof.
  unfold is_mono, is_bi, is_motion, is_sensor.
  split; [|split]; intros H0; apply Z.eqb_eq in H0; rewrite H0; repeat split; reflexivity.
Qed.

Theorem plain_notify_v c st_ v : cfg_btn c = false ->
  a_act v = 0 -> asilent_ret c v = false -> a_halted v = false -> a_last v <> st_ ->
  (st_ = ST_ACTIVE \/ st_ = ST_INACTIVE) -> (a_relay v = 0 \/ a_relay v = 1) ->
  let r := notifyV c st_ v in
  a_last r = st_ /\ a_act r = 0 /\ a_ton r = false /\ a_halted r = false /\
  (arelc v = false -> a_relay r = a_relay v /\ gpv r = gpv v) /\
  (arelc v = true ->
    match plain_expect c st_ (a_relay v) with
    | Some h => a_relay r = h /\ gpv r = (if h =? a_relay v then [] else [OGpio (a_now v + RELAY_D1) h]) ++ gpv v
    | None => a_relay r = a_relay v /\ gpv r = gpv v
    end).
Proof.
  intros Hcfg. destruct v as [nw la c0 mx ac rg ls si tn td ta rl hl ou]. cbn [a_act a_halted a_last a_relay a_now].
  intros -> Hs -> Hl Hst Hrel. cbv zeta.
  unfold notifyV. cbv zeta.
  change (asilent_ret c (aemit _ _)) with (asilent_ret c (mkmv nw la c0 mx 0 rg ls si tn td ta rl false ou)). rewrite Hs.
  gv. destruct (la =? st_) eqn:E; [apply Z.eqb_eq in E; congruence|]. kc. gv.
  unfold legH, leg_count. cbv zeta. rewrite Hcfg. unfold on_hold_en. rewrite Hcfg. cbn [andb]. gv. unfold plain_expect.
  destruct (types_excl c) as (X1 & X2 & X3).
  destruct Hst as [-> | ->]; kc; cbv iota.
  - unfold onA, arelc. cbv zeta. gv. kc. gv.
    destruct (negb (rg =? NOREL)) eqn:ER; rewrite ?andb_true_r, ?andb_false_r.
    + destruct (is_mono c) eqn:T1.
      { destruct (X1 eq_refl) as (T2 & T3 & T4). rewrite T2, T3, ?T4. gv.
        destruct (hasb (flags c) FLAG_TRIGGER_ON_PRESS); gv.
        - unfold sw. cbv zeta. gv. kc. cbv iota.
          destruct Hrel as [-> | ->]; kc; cbv iota; gv; repeat split; intros; try discriminate; reflexivity.
        - repeat split; intros; try discriminate; reflexivity. }
      destruct (is_bi c) eqn:T2.
      { destruct (X2 eq_refl) as (T3 & T4). rewrite T3, ?T4. gv.
        unfold sw. cbv zeta. gv. kc. cbv iota.
        destruct Hrel as [-> | ->]; kc; cbv iota; gv; repeat split; intros; try discriminate; reflexivity. }
      destruct (is_motion c) eqn:T3; gv.
      { unfold sw. cbv zeta. gv. kc. cbv iota.
        destruct Hrel as [-> | ->]; kc; cbv iota; gv; repeat split; intros; try discriminate; reflexivity. }
      destruct (is_sensor c && _); gv; repeat split; intros; try discriminate; reflexivity.
    + destruct (is_sensor c && _); gv; repeat split; intros; try discriminate; reflexivity.
  - unfold onI, arelc. cbv zeta. gv.
    destruct (negb (rg =? NOREL)) eqn:ER; rewrite ?andb_true_r, ?andb_false_r.
    + destruct (is_mono c) eqn:T1.
      { destruct (X1 eq_refl) as (T2 & T3 & T4). rewrite T2, T3, ?T4. gv.
        destruct (hasb (flags c) FLAG_TRIGGER_ON_PRESS); gv.
        - repeat split; intros; try discriminate; reflexivity.
        - unfold sw. cbv zeta. gv. kc. cbv iota.
          destruct Hrel as [-> | ->]; kc; cbv iota; gv; repeat split; intros; try discriminate; reflexivity. }
      destruct (is_bi c) eqn:T2.
      { destruct (X2 eq_refl) as (T3 & T4). rewrite T3, ?T4. gv.
        unfold sw. cbv zeta. gv. kc. cbv iota.
        destruct Hrel as [-> | ->]; kc; cbv iota; gv; repeat split; intros; try discriminate; reflexivity. }
      destruct (is_motion c) eqn:T3; gv.
      { kc. gv. unfold sw. cbv zeta. gv. kc. cbv iota.
        destruct Hrel as [-> | ->]; kc; cbv iota; gv; repeat split; intros; try discriminate; reflexivity. }
      destruct (is_sensor c && _); gv; repeat split; intros; try discriminate; reflexivity.
    + destruct (is_sensor c && _); gv; repeat split; intros; try discriminate; reflexivity.
Time Qed.

Record PlainV (v : mv) : Prop := { pv_act : a_act v = 0; pv_ton : a_ton v = false; pv_rel : a_relay v = 0 \/ a_relay v = 1 }.
(* this notify is effective: the silent start-up period is over and the state is new *)
Definition effV (c : cfgT) (st_ : Z) (v : mv) : bool := negb (asilent_ret c v) && negb (a_last v =? st_).

Lemma notify_noneff_v c st_ v : effV c st_ v = false ->
  let r := notifyV c st_ v in
  a_relay r = a_relay v /\ a_act r = a_act v /\ a_ton r = a_ton v /\ gpv r = gpv v /\ a_halted r = a_halted v.
Proof.
  destruct v as [nw la c0 mx ac rg ls si tn td ta rl hl ou]. unfold effV. cbn [a_last]. intros H. cbv zeta.
  unfold notifyV. cbv zeta.
  change (asilent_ret c (aemit _ _)) with (asilent_ret c (mkmv nw la c0 mx ac rg ls si tn td ta rl hl ou)).
  destruct (asilent_ret c _); gv; [repeat split|]. cbn [negb andb] in H. apply negb_false_iff in H. rewrite H.
  repeat split.
Qed.

Lemma sw_inv hi v : (hi = 0 \/ hi = 1 \/ hi = 255) ->
  a_act (sw hi v) = a_act v /\ a_ton (sw hi v) = a_ton v /\ (a_relay (sw hi v) = 0 \/ a_relay (sw hi v) = 1).
Proof.
  intros H. unfold sw. cbv zeta. gv. split; [reflexivity|]. split; [reflexivity|].
  destruct H as [-> | [-> | ->]]; kc; cbv iota; auto. destruct (a_relay v =? 1); auto.
Qed.
Lemma onA_inv c lg v : (a_relay v = 0 \/ a_relay v = 1) ->
  a_act (onA c lg v) = a_act v /\ a_ton (onA c lg v) = a_ton v /\ (a_relay (onA c lg v) = 0 \/ a_relay (onA c lg v) = 1).
Proof.
  intros R. unfold onA. cbv zeta.
  set (x := if lg then aemit _ v else v).
  assert (X : a_act x = a_act v /\ a_ton x = a_ton v /\ a_relay x = a_relay v) by (subst x; destruct lg; gv; auto).
  clearbody x. destruct X as (x1 & x2 & x3). rewrite <- x1, <- x2. rewrite <- x3 in R.
  repeat match goal with |- context[if ?b then _ else _] => destruct b end; gv; auto; apply sw_inv; auto.
Qed.
Lemma onI_inv c lg v : (a_relay v = 0 \/ a_relay v = 1) ->
  a_act (onI c lg v) = a_act v /\ a_ton (onI c lg v) = a_ton v /\ (a_relay (onI c lg v) = 0 \/ a_relay (onI c lg v) = 1).
Proof.
  intros R. unfold onI. cbv zeta.
  set (x := if lg then aemit _ v else v).
  assert (X : a_act x = a_act v /\ a_ton x = a_ton v /\ a_relay x = a_relay v) by (subst x; destruct lg; gv; auto).
  clearbody x. destruct X as (x1 & x2 & x3). rewrite <- x1, <- x2. rewrite <- x3 in R.
  repeat match goal with |- context[if ?b then _ else _] => destruct b end; gv; auto; apply sw_inv; auto.
Qed.

Theorem plain_step_v c a v : cfg_btn c = false ->
  PlainV v -> (forall o, a = AOut o -> is_gpio o = false) ->
  (forall st_, a = ANotify st_ -> st_ = ST_ACTIVE \/ st_ = ST_INACTIVE) ->
  let r := aact c a v in
  PlainV r /\
  match a with
  | ANotify st_ =>
      if negb (a_halted v) && effV c st_ v then
        st_ = ST_ACTIVE \/ st_ = ST_INACTIVE ->
        a_last r = st_ /\
        (arelc v = false -> a_relay r = a_relay v /\ gpv r = gpv v) /\
        (arelc v = true ->
          match plain_expect c st_ (a_relay v) with
          | Some h => a_relay r = h /\ gpv r = (if h =? a_relay v then [] else [OGpio (a_now v + RELAY_D1) h]) ++ gpv v
          | None => a_relay r = a_relay v /\ gpv r = gpv v
          end)
      else a_relay r = a_relay v /\ gpv r = gpv v
  | AMot => True
  | _ => a_relay r = a_relay v /\ gpv r = gpv v
  end.
Proof.
  intros Hcfg [Pa Pt Pr] Ho Hn. cbv zeta. unfold aact.
  destruct (a_halted v) eqn:Hh.
  { split; [constructor; assumption|]. destruct a; cbn [negb andb]; try exact I; split; reflexivity. }
  destruct a.
  - destruct (a_now v <=? t); gv; (split; [constructor; gv; assumption|auto]).
  - cbn [negb andb]. destruct (effV c st_ v) eqn:EF.
    + unfold effV in EF. apply andb_prop in EF as [E1 E2]. apply negb_true_iff in E1, E2. apply Z.eqb_neq in E2.
      pose proof (Hn st_ eq_refl) as Hst.
      destruct (plain_notify_v c st_ v Hcfg Pa E1 Hh E2 Hst Pr) as (n1&n2&n3&n4&n5&n6). cbv zeta in *.
      split; [|auto].
      constructor; try assumption.
      destruct (arelc v) eqn:RC; [specialize (n6 eq_refl)|destruct (n5 eq_refl) as [n5' _]; rewrite n5'; exact Pr].
      unfold plain_expect in n6.
      destruct (is_mono c); [destruct (Bool.eqb _ _)|destruct (is_bi c); [|destruct (is_motion c)]];
        destruct n6 as [n6 _]; rewrite n6; try exact Pr; try (destruct Pr as [P|P]; rewrite P; auto; fail);
        destruct Hst as [-> | ->]; auto.
    + destruct (notify_noneff_v c st_ v EF) as (m1&m2&m3&m4&m5). cbv zeta in *.
      split; [constructor; congruence|auto].
  - rewrite Pt. cbn [andb]. split; [constructor; assumption|auto].
  - split; [|exact I]. unfold motV.
    repeat match goal with |- context[if ?b then _ else _] => destruct b end; try (constructor; assumption).
    + destruct (onA_inv c false v Pr) as (x1&x2&x3). constructor; congruence.
    + destruct (onI_inv c false v Pr) as (x1&x2&x3). constructor; congruence.
  - gv. split; [constructor; gv; assumption|]. split; [reflexivity|]. unfold gpv. gv. rewrite (Ho o eq_refl). reflexivity.
  - split; [constructor; assumption|auto].
Qed.

(* the same about the model: every micro-step in plain mode *)
Theorem plain_once_thm c m s :
  cfg_btn c = false -> is_trig m = false -> PlainV (view s) ->
  let r := view (mstep c m s) in let v := view s in
  PlainV r /\
  match abs c m s with
  | ANotify st_ =>
      if negb (a_halted v) && effV c st_ v then
        a_last r = st_ /\
        (arelc v = false -> a_relay r = a_relay v /\ gpv r = gpv v) /\
        (arelc v = true ->
          match plain_expect c st_ (a_relay v) with
          | Some h => a_relay r = h /\ gpv r = (if h =? a_relay v then [] else [OGpio (a_now v + RELAY_D1) h]) ++ gpv v
          | None => a_relay r = a_relay v /\ gpv r = gpv v
          end)
      else a_relay r = a_relay v /\ gpv r = gpv v
  | AMot => True
  | _ => a_relay r = a_relay v /\ gpv r = gpv v
  end.
Proof.
  intros Hc Ht HP. cbv zeta. rewrite sim_step by assumption.
  assert (Ho : forall o, abs c m s = AOut o -> is_gpio o = false).
  { intros o E. destruct m; cbn in E; try discriminate;
      try (destruct (_ && _) in E; discriminate). injection E as <-. reflexivity. }
  assert (Hn : forall st_, abs c m s = ANotify st_ -> st_ = ST_ACTIVE \/ st_ = ST_INACTIVE).
  { intros st_ E. destruct m; cbn in E; try discriminate.
    - destruct (_ && _) in E; [|discriminate]. injection E as <-. unfold stl. destruct (_ =? _); auto.
    - destruct (_ && _) in E; discriminate. }
  destruct (plain_step_v c (abs c m s) (view s) Hc HP Ho Hn) as [P1 P2]. cbv zeta in *.
  split; [exact P1|].
  destruct (abs c m s) eqn:EA; try exact P2.
  destruct (negb (a_halted (view s)) && effV c st_ (view s)); [|exact P2].
  apply P2. apply Hn. reflexivity.
Qed.

(* ---------- plain mode: the two steps left open above ---------- *)
(* the motion-sensor start-up timer sets the wired relay to the recognised state *)
Lemma plain_mot_v c v : PlainV v -> a_halted v = false ->
  (a_last v = ST_ACTIVE \/ a_last v = ST_INACTIVE) ->
  let r := aact c AMot v in
  if arelc v && is_motion c then
    a_relay r = a_last v /\ gpv r = (if a_last v =? a_relay v then [] else [OGpio (a_now v + RELAY_D1) (a_last v)]) ++ gpv v
  else a_relay r = a_relay v /\ gpv r = gpv v.
Proof.
  intros [Pa Pt Pr] Hh Hl. cbv zeta. unfold aact. rewrite Hh. unfold motV.
  destruct (arelc v && is_motion c) eqn:E; [|auto].
  apply andb_prop in E as [E1 E2]. destruct (types_excl c) as (_ & _ & X3). specialize (X3 E2).
  destruct v as [nw la c0 mx ac rg ls si tn td ta rl hl ou]. cbn [a_act a_halted a_last a_relay a_now a_ton] in *. subst ac.
  unfold arelc in E1. cbn [a_relg] in E1.
  destruct Hl as [-> | ->]; kc; cbv iota.
  - unfold onA, arelc. cbv zeta. gv. rewrite E1, E2. rewrite !orb_true_r. gv. kc. gv.
    unfold sw. cbv zeta. gv. kc. cbv iota. split; [reflexivity|].
    destruct Pr as [-> | ->]; kc; cbv iota; reflexivity.
  - unfold onI, arelc. cbv zeta. gv. rewrite E1, E2. rewrite !orb_true_r. gv. kc. gv.
    unfold sw. cbv zeta. gv. kc. cbv iota. split; [reflexivity|].
    destruct Pr as [-> | ->]; kc; cbv iota; reflexivity.
Qed.

(* a trigger configuration from the server never moves the relay; it leaves plain mode exactly when it enables something *)
Lemma plain_trig c mask s : a_ton (view s) = false ->
  let r := view (mstep c (MTrig mask) s) in
  a_relay r = relay s /\ gpv r = gpv (view s) /\ a_ton r = false /\
  a_act r = (if halted s then act s else Z.land (cap c) mask).
Proof.
  intros Ht. cbv zeta. rewrite mstep_view. unfold mact. destruct (halted s); [repeat split; exact Ht|].
  unfold set_triggers. cbv zeta.
  change (a_ton (view s)) with (t_on s) in Ht.
  repeat match goal with |- context[if ?b then _ else _] => destruct b end;
    unfold view, gpv; gs; cbn [a_relay a_outs a_ton a_act filter is_gpio]; repeat split; try assumption; reflexivity.
Qed.

Theorem plain_all_thm c m s :
  cfg_btn c = false -> PlainV (view s) -> halted s = false ->
  let r := view (mstep c m s) in let v := view s in
  match m with
  | MTrig mask => a_relay r = a_relay v /\ gpv r = gpv v /\ a_ton r = false /\ a_act r = Z.land (cap c) mask
  | _ =>
    PlainV r /\
    match abs c m s with
    | ANotify st_ =>
        if effV c st_ v then
          a_last r = st_ /\
          (arelc v = false -> a_relay r = a_relay v /\ gpv r = gpv v) /\
          (arelc v = true ->
            match plain_expect c st_ (a_relay v) with
            | Some h => a_relay r = h /\ gpv r = (if h =? a_relay v then [] else [OGpio (a_now v + RELAY_D1) h]) ++ gpv v
            | None => a_relay r = a_relay v /\ gpv r = gpv v
            end)
        else a_relay r = a_relay v /\ gpv r = gpv v
    | AMot =>
        a_last v = ST_ACTIVE \/ a_last v = ST_INACTIVE ->
        if arelc v && is_motion c then
          a_relay r = a_last v /\ gpv r = (if a_last v =? a_relay v then [] else [OGpio (a_now v + RELAY_D1) (a_last v)]) ++ gpv v
        else a_relay r = a_relay v /\ gpv r = gpv v
    | _ => a_relay r = a_relay v /\ gpv r = gpv v
    end
  end.
Proof.
  intros Hc HP Hh. cbv zeta.
  assert (G : forall m', is_trig m' = false ->
     PlainV (view (mstep c m' s)) /\
     match abs c m' s with
     | ANotify st_ =>
        if effV c st_ (view s) then
          a_last (view (mstep c m' s)) = st_ /\
          (arelc (view s) = false -> a_relay (view (mstep c m' s)) = a_relay (view s) /\ gpv (view (mstep c m' s)) = gpv (view s)) /\
          (arelc (view s) = true ->
            match plain_expect c st_ (a_relay (view s)) with
            | Some h => a_relay (view (mstep c m' s)) = h /\ gpv (view (mstep c m' s)) = (if h =? a_relay (view s) then [] else [OGpio (a_now (view s) + RELAY_D1) h]) ++ gpv (view s)
            | None => a_relay (view (mstep c m' s)) = a_relay (view s) /\ gpv (view (mstep c m' s)) = gpv (view s)
            end)
        else a_relay (view (mstep c m' s)) = a_relay (view s) /\ gpv (view (mstep c m' s)) = gpv (view s)
     | AMot => True
     | _ => a_relay (view (mstep c m' s)) = a_relay (view s) /\ gpv (view (mstep c m' s)) = gpv (view s)
     end).
  { intros m' Hm. pose proof (plain_once_thm c m' s Hc Hm HP) as P. cbv zeta in P.
    change (a_halted (view s)) with (halted s) in P. rewrite Hh in P. cbn [negb andb] in P. exact P. }
  destruct m as [t|l| | | |mask|].
  - destruct (G (MTime t) eq_refl) as [P1 P2]. split; [exact P1|]. cbn [abs] in *. exact P2.
  - destruct (G (MIn l) eq_refl) as [P1 P2]. split; [exact P1|]. cbn [abs] in *. exact P2.
  - destruct (G MDeb eq_refl) as [P1 P2]. split; [exact P1|]. cbn [abs] in *. destruct (d_on s && (d_due s <=? now s) && caseB (rearm_d s)); exact P2.
  - destruct (G MTim eq_refl) as [P1 P2]. split; [exact P1|]. cbn [abs] in *. exact P2.
  - destruct (G MMot eq_refl) as [P1 P2]. split; [exact P1|]. cbn [abs] in *.
    destruct (m_on s && (m_due s <=? now s)) eqn:E; [|exact P2].
    intros Hl. rewrite sim_step by (try assumption; reflexivity). cbn [abs]. rewrite E.
    apply plain_mot_v; assumption.
  - destruct (plain_trig c mask s (pv_ton _ HP)) as (a1 & a2 & a3 & a4). cbv zeta in *. rewrite Hh in a4. auto.
  - destruct (G MFault eq_refl) as [P1 P2]. split; [exact P1|]. cbn [abs] in *. exact P2.
Qed.

(* ====================== plain mode for ANY input, the configuration button included ======================
   The legacy handler of a configuration button additionally counts toggles (10 within 2 s gaps enter configuration
   mode) and arms the button timer for the 5 s hold; the legacy timer callback only ever enters configuration mode. *)
Lemma plain_act_v c st_ v :
  a_act v = 0 -> (st_ = ST_ACTIVE \/ st_ = ST_INACTIVE) -> (a_relay v = 0 \/ a_relay v = 1) ->
  let r := if st_ =? ST_ACTIVE then onA c true v else onI c true v in
  a_last r = a_last v /\ a_act r = 0 /\ a_ton r = a_ton v /\ a_tadv r = a_tadv v /\ a_halted r = a_halted v /\
  (arelc v = false -> a_relay r = a_relay v /\ gpv r = gpv v) /\
  (arelc v = true ->
    match plain_expect c st_ (a_relay v) with
    | Some h => a_relay r = h /\ gpv r = (if h =? a_relay v then [] else [OGpio (a_now v + RELAY_D1) h]) ++ gpv v
    | None => a_relay r = a_relay v /\ gpv r = gpv v
    end).
Proof.
  destruct v as [nw la c0 mx ac rg ls si tn td ta rl hl ou]. cbn [a_act a_halted a_last a_relay a_now a_ton a_tadv].
  intros -> Hst Hrel. cbv zeta. unfold plain_expect.
  destruct (types_excl c) as (X1 & X2 & X3).
  destruct Hst as [-> | ->]; kc; cbv iota.
  - unfold onA, arelc. cbv zeta. gv. kc. gv.
    destruct (negb (rg =? NOREL)) eqn:ER; rewrite ?andb_true_r, ?andb_false_r.
    + destruct (is_mono c) eqn:T1.
      { destruct (X1 eq_refl) as (T2 & T3 & T4). rewrite T2, T3, ?T4. gv.
        destruct (hasb (flags c) FLAG_TRIGGER_ON_PRESS); gv.
        - unfold sw. cbv zeta. gv. kc. cbv iota.
          destruct Hrel as [-> | ->]; kc; cbv iota; gv; repeat split; intros; try discriminate; reflexivity.
        - repeat split; intros; try discriminate; reflexivity. }
      destruct (is_bi c) eqn:T2.
      { destruct (X2 eq_refl) as (T3 & T4). rewrite T3, ?T4. gv.
        unfold sw. cbv zeta. gv. kc. cbv iota.
        destruct Hrel as [-> | ->]; kc; cbv iota; gv; repeat split; intros; try discriminate; reflexivity. }
      destruct (is_motion c) eqn:T3; gv.
      { unfold sw. cbv zeta. gv. kc. cbv iota.
        destruct Hrel as [-> | ->]; kc; cbv iota; gv; repeat split; intros; try discriminate; reflexivity. }
      destruct (is_sensor c && _); gv; repeat split; intros; try discriminate; reflexivity.
    + destruct (is_sensor c && _); gv; repeat split; intros; try discriminate; reflexivity.
  - unfold onI, arelc. cbv zeta. gv.
    destruct (negb (rg =? NOREL)) eqn:ER; rewrite ?andb_true_r, ?andb_false_r.
    + destruct (is_mono c) eqn:T1.
      { destruct (X1 eq_refl) as (T2 & T3 & T4). rewrite T2, T3, ?T4. gv.
        destruct (hasb (flags c) FLAG_TRIGGER_ON_PRESS); gv.
        - repeat split; intros; try discriminate; reflexivity.
        - unfold sw. cbv zeta. gv. kc. cbv iota.
          destruct Hrel as [-> | ->]; kc; cbv iota; gv; repeat split; intros; try discriminate; reflexivity. }
      destruct (is_bi c) eqn:T2.
      { destruct (X2 eq_refl) as (T3 & T4). rewrite T3, ?T4. gv.
        unfold sw. cbv zeta. gv. kc. cbv iota.
        destruct Hrel as [-> | ->]; kc; cbv iota; gv; repeat split; intros; try discriminate; reflexivity. }
      destruct (is_motion c) eqn:T3; gv.
      { kc. gv. unfold sw. cbv zeta. gv. kc. cbv iota.
        destruct Hrel as [-> | ->]; kc; cbv iota; gv; repeat split; intros; try discriminate; reflexivity. }
      destruct (is_sensor c && _); gv; repeat split; intros; try discriminate; reflexivity.
    + destruct (is_sensor c && _); gv; repeat split; intros; try discriminate; reflexivity.
Qed.

Record PlainC (v : mv) : Prop := { pc_act : a_act v = 0; pc_rel : a_relay v = 0 \/ a_relay v = 1;
                                   pc_tim : a_ton v = true -> a_tadv v = false }.

(* an effective notify in plain mode: either it is the toggle that enters configuration mode (nothing else happens),
   or the relay is acted upon exactly as for an ordinary input *)
Theorem plain_notify_cfg_v c st_ v :
  PlainC v -> asilent_ret c v = false -> a_halted v = false -> a_last v <> st_ ->
  (st_ = ST_ACTIVE \/ st_ = ST_INACTIVE) ->
  let r := notifyV c st_ v in
  (a_halted r = true /\ a_relay r = a_relay v /\ gpv r = gpv v /\ exists t, hd_error (a_outs r) = Some (OCfgmode t)) \/
  (a_halted r = false /\ PlainC r /\ a_last r = st_ /\
   (arelc v = false -> a_relay r = a_relay v /\ gpv r = gpv v) /\
   (arelc v = true ->
     match plain_expect c st_ (a_relay v) with
     | Some h => a_relay r = h /\ gpv r = (if h =? a_relay v then [] else [OGpio (a_now v + RELAY_D1) h]) ++ gpv v
     | None => a_relay r = a_relay v /\ gpv r = gpv v
     end)).
Proof.
  intros [Pa Pr Pt] Hs Hh Hl Hst. cbv zeta.
  destruct v as [nw la c0 mx ac rg ls si tn td ta rl hl ou]. cbn [a_act a_halted a_last a_relay a_now a_ton a_tadv] in *.
  subst ac hl. unfold notifyV. cbv zeta.
  change (asilent_ret c (aemit _ _)) with (asilent_ret c (mkmv nw la c0 mx 0 rg ls si tn td ta rl false ou)). rewrite Hs.
  gv. destruct (la =? st_) eqn:E; [apply Z.eqb_eq in E; congruence|]. kc. gv.
  unfold legH. cbv zeta. unfold set_ton_v. gv.
  (* the counting part of a configuration button: a new counter value k', possibly configuration mode *)
  set (pre := fun k' => mkmv nw st_ k' mx 0 rg ls false false td false rl false (ONotify nw st_ la c0 :: ou)).
  change (mkmv nw st_ c0 mx 0 rg ls false false td false rl false (ONotify nw st_ la c0 :: ou)) with (pre c0).
  assert (Cnt : exists k', leg_count c st_ (pre c0) = pre k' \/ leg_count c st_ (pre c0) = ahalt (pre 0)).
  { unfold leg_count. destruct (cfg_btn c); [|exists c0; left; reflexivity]. cbv zeta.
    set (k' := if CFG_COUNT_RESET_US <=? u32 (anow32 c (pre c0) - a_lsc (pre c0)) then 1
               else if counts_click c st_ then s8 (c0 + 1) else c0).
    exists k'.
    assert (Ek : (if CFG_COUNT_RESET_US <=? u32 (anow32 c (pre c0) - a_lsc (pre c0)) then set_cc_v 1 (pre c0)
                  else if counts_click c st_ then set_cc_v (s8 (a_cc (pre c0) + 1)) (pre c0) else pre c0) = pre k').
    { subst k'. destruct (CFG_COUNT_RESET_US <=? _); [reflexivity|]. destruct (counts_click c st_); reflexivity. }
    rewrite Ek. destruct (on_toggle_en c && _); [right|left]; reflexivity. }
  assert (Tail : forall k',
     let v1 := pre k' in
     let r := if st_ =? ST_ACTIVE
              then (let v2 := if on_hold_en c then armt_v v1 else v1 in onA c true (set_lsc_v (anow32 c v2) v2))
              else onI c true v1 in
     a_halted r = false /\ PlainC r /\ a_last r = st_ /\
     (negb (rg =? NOREL) = false -> a_relay r = rl /\ gpv r = gpv (mkmv nw la c0 mx 0 rg ls si tn td ta rl false ou)) /\
     (negb (rg =? NOREL) = true ->
       match plain_expect c st_ rl with
       | Some h => a_relay r = h /\ gpv r = (if h =? rl then [] else [OGpio (nw + RELAY_D1) h]) ++ gpv (mkmv nw la c0 mx 0 rg ls si tn td ta rl false ou)
       | None => a_relay r = rl /\ gpv r = gpv (mkmv nw la c0 mx 0 rg ls si tn td ta rl false ou)
       end)).
  { intros k'. cbv zeta.
    destruct Hst as [-> | ->]; kc; cbv iota.
    - set (w := set_lsc_v _ _).
      assert (W : a_act w = 0 /\ a_relay w = rl /\ a_last w = ST_ACTIVE /\ a_halted w = false /\ a_tadv w = false /\
                  arelc w = negb (rg =? NOREL) /\ a_now w = nw /\ gpv w = gpv (mkmv nw la c0 mx 0 rg ls si tn td ta rl false ou))
        by (subst w pre; destruct (on_hold_en c); unfold set_lsc_v, armt_v, arelc, gpv; gv; repeat split).
      destruct W as (w1 & w2 & w3 & w4 & w5 & w6 & w7 & w8).
      destruct (plain_act_v c ST_ACTIVE w w1 ltac:(auto) ltac:(rewrite w2; exact Pr)) as (n1 & n2 & n3 & n4 & n5 & n6 & n7).
      cbv zeta in *. replace (ST_ACTIVE =? ST_ACTIVE) with true in * by reflexivity. cbv iota in *.
      rewrite w6, w2, w7, w8 in *.
      split; [congruence|]. split.
      + constructor; [exact n2| |intros _; congruence].
        destruct (negb (rg =? NOREL)); [specialize (n7 eq_refl)|destruct (n6 eq_refl) as [-> _]; exact Pr].
        unfold plain_expect in n7.
        destruct (is_mono c); [destruct (Bool.eqb _ _)|destruct (is_bi c); [|destruct (is_motion c)]];
          destruct n7 as [-> _]; try exact Pr; try (destruct Pr as [-> | ->]; auto; fail); auto.
      + split; [congruence|]. split; assumption.
    - set (w := pre k').
      assert (W : a_act w = 0 /\ a_relay w = rl /\ a_last w = ST_INACTIVE /\ a_halted w = false /\ a_tadv w = false /\
                  arelc w = negb (rg =? NOREL) /\ a_now w = nw /\ gpv w = gpv (mkmv nw la c0 mx 0 rg ls si tn td ta rl false ou))
        by (subst w pre; unfold arelc, gpv; gv; repeat split).
      destruct W as (w1 & w2 & w3 & w4 & w5 & w6 & w7 & w8).
      destruct (plain_act_v c ST_INACTIVE w w1 ltac:(auto) ltac:(rewrite w2; exact Pr)) as (n1 & n2 & n3 & n4 & n5 & n6 & n7).
      cbv zeta in *. replace (ST_INACTIVE =? ST_ACTIVE) with false in * by reflexivity. cbv iota in *.
      rewrite w6, w2, w7, w8 in *.
      split; [congruence|]. split.
      + constructor; [exact n2| |intros _; congruence].
        destruct (negb (rg =? NOREL)); [specialize (n7 eq_refl)|destruct (n6 eq_refl) as [-> _]; exact Pr].
        unfold plain_expect in n7.
        destruct (is_mono c); [destruct (Bool.eqb _ _)|destruct (is_bi c); [|destruct (is_motion c)]];
          destruct n7 as [-> _]; try exact Pr; try (destruct Pr as [-> | ->]; auto; fail); auto.
      + split; [congruence|]. split; assumption. }
  unfold arelc. gv.
  destruct Cnt as (k' & [Ec | Ec]); rewrite Ec.
  - right. replace (a_halted (pre k')) with false by reflexivity. cbv iota. apply (Tail k').
  - left. unfold pre, ahalt, gpv. gv. repeat split. exists nw. reflexivity.
Qed.

Lemma tadv_sw hi v : a_tadv (sw hi v) = a_tadv v. Proof. reflexivity. Qed.
Lemma tadv_onA c lg v : a_tadv (onA c lg v) = a_tadv v.
Proof. unfold onA. cbv zeta. repeat match goal with |- context[if ?b then _ else _] => destruct b end; reflexivity. Qed.
Lemma tadv_onI c lg v : a_tadv (onI c lg v) = a_tadv v.
Proof. unfold onI. cbv zeta. repeat match goal with |- context[if ?b then _ else _] => destruct b end; reflexivity. Qed.
Lemma notify_noneff_tadv c st_ v : effV c st_ v = false -> a_tadv (notifyV c st_ v) = a_tadv v.
Proof.
  destruct v as [nw la c0 mx ac rg ls si tn td ta rl hl ou]. unfold effV. cbn [a_last]. intros H.
  unfold notifyV. cbv zeta.
  change (asilent_ret c (aemit _ _)) with (asilent_ret c (mkmv nw la c0 mx ac rg ls si tn td ta rl hl ou)).
  destruct (asilent_ret c _); gv; [reflexivity|]. cbn [negb andb] in H. apply negb_false_iff in H. rewrite H. reflexivity.
Qed.

Theorem plain_cfg_step_v c a v :
  PlainC v -> a_halted v = false -> (forall o, a = AOut o -> is_gpio o = false) ->
  (forall st_, a = ANotify st_ -> st_ = ST_ACTIVE \/ st_ = ST_INACTIVE) ->
  let r := aact c a v in
  (a_halted r = true /\ a_relay r = a_relay v /\ gpv r = gpv v) \/
  (a_halted r = false /\ PlainC r /\
   match a with
   | ANotify st_ =>
       if effV c st_ v then
         a_last r = st_ /\
         (arelc v = false -> a_relay r = a_relay v /\ gpv r = gpv v) /\
         (arelc v = true ->
           match plain_expect c st_ (a_relay v) with
           | Some h => a_relay r = h /\ gpv r = (if h =? a_relay v then [] else [OGpio (a_now v + RELAY_D1) h]) ++ gpv v
           | None => a_relay r = a_relay v /\ gpv r = gpv v
           end)
       else a_relay r = a_relay v /\ gpv r = gpv v
   | AMot => True
   | _ => a_relay r = a_relay v /\ gpv r = gpv v
   end).
Proof.
  intros HP Hh Ho Hn. cbv zeta. pose proof HP as [Pa Pr Pt]. unfold aact. rewrite Hh.
  destruct a.
  - right. destruct (a_now v <=? t); unfold set_now_v; gv; (split; [exact Hh|split; [constructor; gv; assumption|auto]]).
  - destruct (effV c st_ v) eqn:EF.
    + unfold effV in EF. apply andb_prop in EF as [E1 E2]. apply negb_true_iff in E1, E2. apply Z.eqb_neq in E2.
      destruct (plain_notify_cfg_v c st_ v HP E1 Hh E2 (Hn st_ eq_refl)) as [(h1 & h2 & h3 & _)|(h1 & h2 & h3 & h4 & h5)]; cbv zeta in *.
      * left. auto.
      * right. auto.
    + right. destruct (notify_noneff_v c st_ v EF) as (m1&m2&m3&m4&m5). cbv zeta in *.
      pose proof (notify_noneff_tadv c st_ v EF) as m6.
      split; [congruence|]. split; [constructor; [congruence|congruence|intros H; rewrite m6; apply Pt; congruence]|auto].
  - destruct (a_ton v && (a_tdue v <=? a_now v)) eqn:E; [|right; split; [exact Hh|split; [exact HP|auto]]].
    apply andb_prop in E as [E1 _]. rewrite (Pt E1). cbv zeta. unfold legT.
    destruct (_ && _ && _).
    + left. unfold ahalt, set_cc_v, set_ton_v, set_tdue_v, gpv. gv. auto.
    + right. unfold set_tdue_v, gpv. gv. split; [exact Hh|]. split; [constructor; gv; assumption|auto].
  - right. unfold motV.
    repeat match goal with |- context[if ?b then _ else _] => destruct b end; try (split; [exact Hh|split; [exact HP|exact I]]).
    + destruct (onA_inv c false v Pr) as (x1&x2&x3). pose proof (tadv_onA c false v) as x4.
      assert (x5 : a_halted (onA c false v) = false).
      { destruct (plain_act_v c ST_ACTIVE v Pa ltac:(auto) Pr) as (_&_&_&_&n5&_). cbv zeta in n5.
        replace (ST_ACTIVE =? ST_ACTIVE) with true in n5 by reflexivity. cbv iota in n5.
        (* logged or not, the halted flag is untouched *)
        unfold onA in *. cbv zeta in *. revert n5. repeat match goal with |- context[if ?b then _ else _] => destruct b end; cbn; intros; assumption || reflexivity || congruence. }
      split; [exact x5|]. split; [constructor; [congruence|exact x3|intros H; rewrite x4; apply Pt; congruence]|exact I].
    + destruct (onI_inv c false v Pr) as (x1&x2&x3). pose proof (tadv_onI c false v) as x4.
      assert (x5 : a_halted (onI c false v) = false).
      { unfold onI, sw. cbv zeta. repeat match goal with |- context[if ?b then _ else _] => destruct b end; cbn; assumption. }
      split; [exact x5|]. split; [constructor; [congruence|exact x3|intros H; rewrite x4; apply Pt; congruence]|exact I].
  - right. unfold aemit, gpv. gv. split; [exact Hh|]. split; [constructor; gv; assumption|].
    split; [reflexivity|]. rewrite (Ho o eq_refl). reflexivity.
  - right. split; [exact Hh|split; [exact HP|auto]].
Qed.

(* the same about the model: every micro-step (other than a trigger configuration) of any input in plain mode *)
Theorem plain_cfg_thm c m s :
  is_trig m = false -> PlainC (view s) -> halted s = false ->
  let r := view (mstep c m s) in let v := view s in
  (a_halted r = true /\ a_relay r = a_relay v /\ gpv r = gpv v) \/
  (a_halted r = false /\ PlainC r /\
   match abs c m s with
   | ANotify st_ =>
       if effV c st_ v then
         a_last r = st_ /\
         (arelc v = false -> a_relay r = a_relay v /\ gpv r = gpv v) /\
         (arelc v = true ->
           match plain_expect c st_ (a_relay v) with
           | Some h => a_relay r = h /\ gpv r = (if h =? a_relay v then [] else [OGpio (a_now v + RELAY_D1) h]) ++ gpv v
           | None => a_relay r = a_relay v /\ gpv r = gpv v
           end)
       else a_relay r = a_relay v /\ gpv r = gpv v
   | AMot => True
   | _ => a_relay r = a_relay v /\ gpv r = gpv v
   end).
Proof.
  intros Ht HP Hh. cbv zeta. rewrite sim_stepG by assumption.
  assert (Ho : forall o, abs c m s = AOut o -> is_gpio o = false).
  { intros o E. destruct m; cbn in E; try discriminate;
      try (destruct (_ && _) in E; discriminate). injection E as <-. reflexivity. }
  assert (Hn : forall st_, abs c m s = ANotify st_ -> st_ = ST_ACTIVE \/ st_ = ST_INACTIVE).
  { intros st_ E. destruct m; cbn in E; try discriminate.
    - destruct (_ && _) in E; [|discriminate]. injection E as <-. unfold stl. destruct (_ =? _); auto.
    - destruct (_ && _) in E; discriminate. }
  exact (plain_cfg_step_v c (abs c m s) (view s) HP Hh Ho Hn).
Qed.
