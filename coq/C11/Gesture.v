(* C11 — action-trigger mode on the button machine (Machine.v): a gesture of N quick clicks of a monostable
   button produces at most one click-count / hold trigger, the right one, and the local relay action only
   for a single click.  Stated on the machine `aact` / `arun`; Machine.sim_run carries it to the model. *)
From Coq Require Import List ZArith Bool Lia.
Import ListNotations.
From V Require Import Base.U32 Base.Iface Gen.InputConsts C11.Model C11.Proofs C11.Machine.
Local Open Scope Z_scope.

Lemma s8_small z : -128 <= z < 128 -> s8 z = z.
Proof.
  intros H. unfold s8. cbv zeta.
  destruct (Z_lt_dec z 0).
  - assert (E0 : z mod 256 = z + 256).
    { rewrite <- (Z.mod_add z 1 256) by lia. apply Z.mod_small; lia. }
    rewrite E0. destruct (z + 256 <? 128) eqn:E; [apply Z.ltb_lt in E; lia|lia].
  - rewrite Z.mod_small by lia. destruct (z <? 128) eqn:E; [reflexivity|apply Z.ltb_ge in E; lia].
Qed.

(* click-count / hold triggers and local actions in the output list *)
Definition fam (a : Z) : bool :=
  (a =? CAP_HOLD) || (a =? CAP_PRESS_x1) || (a =? CAP_PRESS_x2) || (a =? CAP_PRESS_x3) || (a =? CAP_PRESS_x4) || (a =? CAP_PRESS_x5) ||
  (a =? CAP_TOGGLE_x1) || (a =? CAP_TOGGLE_x2) || (a =? CAP_TOGGLE_x3) || (a =? CAP_TOGGLE_x4) || (a =? CAP_TOGGLE_x5).
Definition famo (o : out) : bool := match o with OTrig _ _ a => fam a | _ => false end.
Definition isloc (o : out) : bool := match o with OActive _ | OInactive _ => true | _ => false end.
Definition ftr (v : mv) : list out := filter famo (a_outs v).
Definition loc (v : mv) : list out := filter isloc (a_outs v).

Ltac gu := unfold set_tdue_v, set_now_v, set_cc_v, set_ton_v, set_lsc_v, arm_v, armt_v, ahalt, aemit; gv.

(* ---------- time never goes back on the machine ---------- *)
Ltac ifs := repeat match goal with |- context[if ?b then _ else _] => destruct b end.
Lemma now_sw hi v : a_now v <= a_now (sw hi v).
Proof. pose proof CF as [_ _ _ _ D1 D2 DT]. unfold sw. cbv zeta. gv. lia. Qed.
Lemma now_aemit o v : a_now (aemit o v) = a_now v. Proof. reflexivity. Qed.
Lemma now_onA c lg v : a_now v <= a_now (onA c lg v).
Proof.
  unfold onA. cbv zeta. set (x := if lg then aemit _ v else v).
  assert (E : a_now x = a_now v) by (subst x; destruct lg; reflexivity). clearbody x. rewrite <- E.
  ifs; try rewrite now_aemit; try lia; apply now_sw.
Qed.
Lemma now_onI c lg v : a_now v <= a_now (onI c lg v).
Proof.
  unfold onI. cbv zeta. set (x := if lg then aemit _ v else v).
  assert (E : a_now x = a_now v) by (subst x; destruct lg; reflexivity). clearbody x. rewrite <- E.
  ifs; try rewrite now_aemit; try lia; apply now_sw.
Qed.
Lemma now_etrig c a v : a_now (etrig c a v) = a_now v.
Proof. unfold etrig. ifs; reflexivity. Qed.
Lemma now_strig c a v : a_now v <= a_now (strig c a v).
Proof. unfold strig. ifs; rewrite ?now_etrig; try lia. apply now_onA. Qed.
Lemma now_legH c st_ v : a_now v <= a_now (legH c st_ v).
Proof.
  unfold legH. cbv zeta.
  set (v0 := set_ton_v false v). assert (E0 : a_now v0 = a_now v) by reflexivity. clearbody v0.
  set (v1 := leg_count c st_ v0).
  assert (E1 : a_now v1 = a_now v0) by (subst v1; unfold leg_count; ifs; reflexivity).
  clearbody v1. destruct (a_halted v1); [lia|]. ifs.
  - eapply Z.le_trans; [|apply now_onA]. gu. lia.
  - eapply Z.le_trans; [|apply now_onA]. gu. lia.
  - eapply Z.le_trans; [|apply now_onI]. lia.
Qed.
Lemma now_advH c st_ v : a_now v <= a_now (advH c st_ v).
Proof.
  unfold advH. cbv zeta.
  set (v0 := set_ton_v false v). assert (E0 : a_now v <= a_now v0) by (subst v0; gu; lia). clearbody v0.
  set (v1 := if negb (a_cc v0 =? -1) && counts_click c st_ then _ else v0).
  assert (E1 : a_now v0 <= a_now v1).
  { subst v1. destruct (negb (a_cc v0 =? -1) && counts_click c st_); [|lia].
    set (vb := if (is_bi c || is_motion c) && (st_ =? ST_ACTIVE) then _ else _).
    assert (Eb : a_now v0 <= a_now vb).
    { subst vb. ifs.
      - eapply Z.le_trans; [|apply now_onA]. rewrite now_etrig. gu. lia.
      - rewrite now_etrig. gu. lia.
      - gu. lia. }
    clearbody vb. destruct (on_toggle_en c && _); [gu; lia|lia]. }
  clearbody v1. destruct (a_halted v1); [lia|].
  set (v2 := if st_ =? ST_INACTIVE then _ else v1).
  assert (E2 : a_now v1 <= a_now v2).
  { subst v2. ifs; try lia.
    - eapply Z.le_trans; [|apply now_onI]. rewrite now_etrig. lia.
    - rewrite now_etrig. lia. }
  clearbody v2. unfold arm_v. gv. lia.
Qed.
Lemma now_notifyV c st_ v : a_now v <= a_now (notifyV c st_ v).
Proof.
  unfold notifyV. cbv zeta. ifs; gv; try lia.
  - eapply Z.le_trans; [|apply now_advH]. gv. lia.
  - eapply Z.le_trans; [|apply now_legH]. gv. lia.
Qed.
Lemma now_advT c v : a_now v <= a_now (advT c v).
Proof.
  unfold advT. cbv zeta.
  set (v1 := if is_mono c && (a_last v =? ST_ACTIVE) && negb (a_cc v =? -1) then _ else v).
  assert (E1 : a_now v <= a_now v1).
  { subst v1. destruct (is_mono c && _ && _); [|lia].
    set (va := if on_hold_en c && _ then _ else v). assert (Ea : a_now va = a_now v) by (subst va; ifs; reflexivity).
    clearbody va. ifs; try lia; unfold set_ton_v, set_cc_v; gv; rewrite now_etrig; lia. }
  clearbody v1. ifs; try lia.
  - unfold set_cc_v. gv. eapply Z.le_trans; [exact E1|]. eapply Z.le_trans; [|apply now_strig]. gu. lia.
  - unfold set_cc_v, set_ton_v. gv. eapply Z.le_trans; [exact E1|]. apply now_strig.
  - unfold set_cc_v. gv. eapply Z.le_trans; [exact E1|]. apply now_strig.
Qed.
Lemma now_legT c v : a_now v <= a_now (legT c v).
Proof. unfold legT. ifs; [gu|]; lia. Qed.
Lemma now_motV c v : a_now v <= a_now (motV c v).
Proof. unfold motV. ifs; try lia; [apply now_onA|apply now_onI]. Qed.
Lemma now_aact c a v : a_now v <= a_now (aact c a v).
Proof.
  unfold aact. destruct (a_halted v); [lia|]. destruct a.
  - destruct (a_now v <=? t) eqn:E; [apply Z.leb_le in E; gu; lia|lia].
  - apply now_notifyV.
  - ifs; try lia. + eapply Z.le_trans; [|apply now_advT]. gu. lia. + eapply Z.le_trans; [|apply now_legT]. gu. lia.
  - apply now_motV.
  - reflexivity.
  - lia.
Qed.
Lemma now_arun c l : forall v, a_now v <= a_now (arun c l v).
Proof.
  induction l as [|a l IH]; intros v; [cbn; lia|]. unfold arun in *. cbn [fold_left].
  eapply Z.le_trans; [apply now_aact|apply IH].
Qed.

Section Mono.
Variable c : cfgT.
Hypothesis Hmono : is_mono c = true.

Lemma mono_types : is_bi c = false /\ is_motion c = false /\ is_sensor c = false.
Proof. destruct (types_excl c) as (X & _). exact (X Hmono). Qed.

Ltac ty := destruct mono_types as (Tb & Tm & Ts).

(* TURN_OFF is reported at every release when the server enabled it (it is not a click-count trigger) *)
Definition toff (A nw : Z) : list out :=
  if Z.land CAP_TURN_OFF A =? 0 then [] else if chan c =? 255 then [] else [OTrig nw (chan c) CAP_TURN_OFF].

Lemma ev_press nw k mx A g ls si tn td ta rl ou :
  A <> 0 -> k <> -1 -> -100 <= k <= 100 ->
  (on_toggle_en c = false \/ k + 1 < CFG_PRESS_COUNT) ->            (* not the press that enters configuration mode *)
  asilent_ret c (mkmv nw ST_INACTIVE k mx A g ls si tn td ta rl false ou) = false ->   (* the silent start-up period is over *)
  aact c (ANotify ST_ACTIVE) (mkmv nw ST_INACTIVE k mx A g ls si tn td ta rl false ou) =
  mkmv nw ST_ACTIVE (k + 1) mx A g (u32 (boot c + nw)) false true (nw + CYCLE_US) true rl false
       (ONotify nw ST_ACTIVE ST_INACTIVE k :: ou).
Proof.
  intros HA Hk Hr Htg Hsil. ty. unfold aact. gv. unfold notifyV. cbv zeta.
  change (asilent_ret c (aemit _ _)) with (asilent_ret c (mkmv nw ST_INACTIVE k mx A g ls si tn td ta rl false ou)).
  rewrite Hsil. gv. kc. cbv iota.
  replace (A =? 0) with false by (symmetry; apply Z.eqb_neq; exact HA). gv.
  unfold advH. cbv zeta. unfold set_ton_v. gv.
  replace (k =? -1) with false by (symmetry; apply Z.eqb_neq; exact Hk). gv.
  unfold counts_click. rewrite Hmono, Tb, Tm. kc. gv. rewrite s8_small by lia. unfold set_cc_v. gv.
  replace (on_toggle_en c && (CFG_PRESS_COUNT <=? k + 1)) with false.
  2:{ symmetry. destruct Htg as [-> | Htg]; [reflexivity|]. replace (CFG_PRESS_COUNT <=? k + 1) with false by (symmetry; apply Z.leb_gt; exact Htg). apply andb_false_r. }
  gv. unfold arm_v, anow32. gv. reflexivity.
Qed.

Lemma ev_press_ovf nw mx A g ls tn td ta rl ou :
  A <> 0 ->
  aact c (ANotify ST_ACTIVE) (mkmv nw ST_INACTIVE (-1) mx A g ls false tn td ta rl false ou) =
  mkmv nw ST_ACTIVE (-1) mx A g (u32 (boot c + nw)) false true (nw + CYCLE_US) true rl false
       (ONotify nw ST_ACTIVE ST_INACTIVE (-1) :: ou).
Proof.
  intros HA. ty. unfold aact. gv. unfold notifyV. cbv zeta. unfold asilent_ret. gv. kc. cbv iota.
  replace (A =? 0) with false by (symmetry; apply Z.eqb_neq; exact HA). gv.
  unfold advH. cbv zeta. gv. kc. gv. unfold anow32. gv. reflexivity.
Qed.

Lemma ev_release nw k mx A g ls tn td ta rl ou :
  A <> 0 ->
  aact c (ANotify ST_INACTIVE) (mkmv nw ST_ACTIVE k mx A g ls false tn td ta rl false ou) =
  mkmv nw ST_INACTIVE k mx A g (u32 (boot c + nw)) false true (nw + CYCLE_US) true rl false
       (toff A nw ++ ONotify nw ST_INACTIVE ST_ACTIVE k :: ou).
Proof.
  intros HA. ty. unfold aact. gv. unfold notifyV. cbv zeta. unfold asilent_ret. gv. kc. cbv iota.
  replace (A =? 0) with false by (symmetry; apply Z.eqb_neq; exact HA). gv.
  unfold advH. cbv zeta. gv.
  unfold counts_click. rewrite Hmono, Tb, Tm. kc. gv. rewrite andb_false_r. cbv iota. gv.
  unfold etrig, toff. gv.
  destruct (Z.land CAP_TURN_OFF A =? 0); [unfold anow32; gv; reflexivity|].
  destruct (chan c =? 255); unfold anow32; gv; reflexivity.
Qed.

(* ---- the timer callback ---- *)
Definition trig_out (A nw a : Z) : list out :=
  if Z.land a A =? 0 then [] else if chan c =? 255 then [] else [OTrig nw (chan c) a].

Lemma etrig_eq a nw la k mx A g ls si tn td ta rl hl ou :
  etrig c a (mkmv nw la k mx A g ls si tn td ta rl hl ou) = mkmv nw la k mx A g ls si tn td ta rl hl (trig_out A nw a ++ ou).
Proof. unfold etrig, trig_out. gv. destruct (Z.land a A =? 0); [reflexivity|]. destruct (chan c =? 255); reflexivity. Qed.

Definition TWO32 : Z := 4294967296.

Lemma ev_tim_idle nw la k mx A g ls tn td ta rl ou :
  (tn && (td <=? nw)) = false ->
  aact c ATim (mkmv nw la k mx A g ls false tn td ta rl false ou) = mkmv nw la k mx A g ls false tn td ta rl false ou.
Proof. intros H. unfold aact. gv. rewrite H. reflexivity. Qed.

Lemma ev_tim_pressed nw k mx A g T td rl ou :
  td <= nw -> 0 <= nw - T < TWO32 -> (k <> 1 \/ nw - T < HOLD_US) ->
  (on_hold_en c = false \/ nw - T < CFG_PRESS_US) ->               (* not the hold that enters configuration mode *)
  aact c ATim (mkmv nw ST_ACTIVE k mx A g (u32 (boot c + T)) false true td true rl false ou) =
  mkmv nw ST_ACTIVE k mx A g (u32 (boot c + T)) false true (td + CYCLE_US) true rl false ou.
Proof.
  intros Hd HT Hk Hcp. ty. unfold aact. gv. replace (td <=? nw) with true by (symmetry; apply Z.leb_le; exact Hd). cbv zeta iota. gv.
  unfold set_tdue_v. gv.
  unfold advT. cbv zeta. gv. unfold anow32. gv. rewrite u32_diff_shift by exact HT.
  rewrite Hmono, Tb, Tm. kc. gv.
  assert (E : (k =? 1) && (HOLD_US <=? nw - T) = false).
  { destruct Hk as [Hk|Hk]; [replace (k =? 1) with false by (symmetry; apply Z.eqb_neq; exact Hk); reflexivity|].
    replace (HOLD_US <=? nw - T) with false by (symmetry; apply Z.leb_gt; exact Hk). apply andb_false_r. }
  assert (E2 : on_hold_en c && (CFG_PRESS_US <=? nw - T) = false).
  { destruct Hcp as [-> | Hcp]; [reflexivity|]. replace (CFG_PRESS_US <=? nw - T) with false by (symmetry; apply Z.leb_gt; exact Hcp). apply andb_false_r. }
  destruct (negb (k =? -1)); gv; rewrite ?E2; gv; rewrite ?E; gv; kc; gv; reflexivity.
Qed.

Lemma ev_tim_hold nw mx A g T td rl ou :
  td <= nw -> 0 <= nw - T < TWO32 -> HOLD_US <= nw - T ->
  (on_hold_en c = false \/ nw - T < CFG_PRESS_US) ->
  aact c ATim (mkmv nw ST_ACTIVE 1 mx A g (u32 (boot c + T)) false true td true rl false ou) =
  mkmv nw ST_ACTIVE 0 mx A g (u32 (boot c + T)) false (on_hold_en c) (td + CYCLE_US) true rl false (trig_out A nw CAP_HOLD ++ ou).
Proof.
  intros Hd HT Hh Hcp. ty. unfold aact. gv. replace (td <=? nw) with true by (symmetry; apply Z.leb_le; exact Hd). cbv zeta iota. gv.
  unfold set_tdue_v. gv.
  unfold advT. cbv zeta. gv. unfold anow32. gv. rewrite u32_diff_shift by exact HT.
  rewrite Hmono, Tb, Tm. kc. gv.
  replace (on_hold_en c && (CFG_PRESS_US <=? nw - T)) with false.
  2:{ symmetry. destruct Hcp as [-> | Hcp]; [reflexivity|]. replace (CFG_PRESS_US <=? nw - T) with false by (symmetry; apply Z.leb_gt; exact Hcp). apply andb_false_r. }
  gv. kc. replace (HOLD_US <=? nw - T) with true by (symmetry; apply Z.leb_le; exact Hh). cbv iota.
  rewrite etrig_eq. unfold set_cc_v. gv. destruct (on_hold_en c); [reflexivity|]. unfold set_ton_v. gv. reflexivity.
Qed.

(* held after the HOLD trigger: with the configuration-button hold the timer keeps running, without effect *)
Lemma ev_tim_held nw mx A g T td rl ou :
  td <= nw -> 0 <= nw - T < TWO32 -> (on_hold_en c = false \/ nw - T < CFG_PRESS_US) ->
  aact c ATim (mkmv nw ST_ACTIVE 0 mx A g (u32 (boot c + T)) false true td true rl false ou) =
  mkmv nw ST_ACTIVE 0 mx A g (u32 (boot c + T)) false true (td + CYCLE_US) true rl false ou.
Proof.
  intros Hd HT Hcp. ty. unfold aact. gv. replace (td <=? nw) with true by (symmetry; apply Z.leb_le; exact Hd). cbv zeta iota. gv.
  unfold set_tdue_v. gv.
  unfold advT. cbv zeta. gv. unfold anow32. gv. rewrite u32_diff_shift by exact HT.
  rewrite Hmono, Tb, Tm. kc. gv.
  replace (on_hold_en c && (CFG_PRESS_US <=? nw - T)) with false.
  2:{ symmetry. destruct Hcp as [-> | Hcp]; [reflexivity|]. replace (CFG_PRESS_US <=? nw - T) with false by (symmetry; apply Z.leb_gt; exact Hcp). apply andb_false_r. }
  gv. kc. gv. reflexivity.
Qed.

Lemma ev_tim_rel_noop nw k mx A g T td rl ou :
  td <= nw -> 0 <= nw - T < TWO32 -> nw - T < MULTICLICK_US -> k < mx ->
  aact c ATim (mkmv nw ST_INACTIVE k mx A g (u32 (boot c + T)) false true td true rl false ou) =
  mkmv nw ST_INACTIVE k mx A g (u32 (boot c + T)) false true (td + CYCLE_US) true rl false ou.
Proof.
  intros Hd HT Hm Hk. ty. unfold aact. gv. replace (td <=? nw) with true by (symmetry; apply Z.leb_le; exact Hd). cbv zeta iota. gv.
  unfold advT. cbv zeta. gv. unfold anow32. gv. rewrite u32_diff_shift by exact HT.
  rewrite Hmono, Tb, Tm. kc. gv.
  replace (MULTICLICK_US <=? nw - T) with false by (symmetry; apply Z.leb_gt; exact Hm).
  replace (mx <=? k) with false by (symmetry; apply Z.leb_gt; exact Hk). reflexivity.
Qed.

Lemma ev_tim_rel_ovf nw k mx A g T td rl ou :
  td <= nw -> 0 <= nw - T < TWO32 -> nw - T < MULTICLICK_US -> mx <= k -> 2 <= mx ->
  aact c ATim (mkmv nw ST_INACTIVE k mx A g (u32 (boot c + T)) false true td true rl false ou) =
  mkmv nw ST_INACTIVE (-1) mx A g (u32 (boot c + T)) false true (td + CYCLE_US) true rl false
       (trig_out A nw (click_action c k) ++ ou).
Proof.
  intros Hd HT Hm Hk H2. ty. unfold aact. gv. replace (td <=? nw) with true by (symmetry; apply Z.leb_le; exact Hd). cbv zeta iota. gv.
  unfold set_tdue_v. gv.
  unfold advT. cbv zeta. gv. unfold anow32. gv. rewrite u32_diff_shift by exact HT.
  rewrite Hmono, Tb, Tm. kc. gv.
  replace (MULTICLICK_US <=? nw - T) with false by (symmetry; apply Z.leb_gt; exact Hm).
  replace (mx <=? k) with true by (symmetry; apply Z.leb_le; exact Hk). cbv iota.
  unfold strig. kc. cbv iota. gv.
  replace (k =? -1) with false by (symmetry; apply Z.eqb_neq; lia).
  replace (k =? 1) with false by (symmetry; apply Z.eqb_neq; lia). cbn [andb]. cbv iota.
  rewrite etrig_eq. unfold set_cc_v. gv.
  replace (mx <=? 1) with false by (symmetry; apply Z.leb_gt; lia). reflexivity.
Qed.

(* ---- final firing: the multi-click time has run out ---- *)
Lemma ev_tim_final_ovf nw mx A g T td rl ou :
  td <= nw -> 0 <= nw - T < TWO32 -> MULTICLICK_US <= nw - T ->
  aact c ATim (mkmv nw ST_INACTIVE (-1) mx A g (u32 (boot c + T)) false true td true rl false ou) =
  mkmv nw ST_INACTIVE 0 mx A g (u32 (boot c + T)) false false (td + CYCLE_US) true rl false ou.
Proof.
  intros Hd HT Hm. ty. unfold aact. gv. replace (td <=? nw) with true by (symmetry; apply Z.leb_le; exact Hd). cbv zeta iota. gv.
  unfold set_tdue_v. gv.
  unfold advT. cbv zeta. gv. unfold anow32. gv. rewrite u32_diff_shift by exact HT.
  rewrite Hmono, Tb, Tm. kc. gv.
  replace (MULTICLICK_US <=? nw - T) with true by (symmetry; apply Z.leb_le; exact Hm). cbv iota.
  unfold set_ton_v. gv. unfold strig. kc. cbv iota. gv. kc. cbv iota. unfold set_cc_v. gv. reflexivity.
Qed.

Lemma ev_tim_final_trig nw k mx A g T td rl ou :
  td <= nw -> 0 <= nw - T < TWO32 -> MULTICLICK_US <= nw - T -> k <> -1 -> (k <> 1 \/ g = NOREL) ->
  aact c ATim (mkmv nw ST_INACTIVE k mx A g (u32 (boot c + T)) false true td true rl false ou) =
  mkmv nw ST_INACTIVE 0 mx A g (u32 (boot c + T)) false false (td + CYCLE_US) true rl false
       (trig_out A nw (click_action c k) ++ ou).
Proof.
  intros Hd HT Hm Hk Hl. ty. unfold aact. gv. replace (td <=? nw) with true by (symmetry; apply Z.leb_le; exact Hd). cbv zeta iota. gv.
  unfold set_tdue_v. gv.
  unfold advT. cbv zeta. gv. unfold anow32. gv. rewrite u32_diff_shift by exact HT.
  rewrite Hmono, Tb, Tm. kc. gv.
  replace (MULTICLICK_US <=? nw - T) with true by (symmetry; apply Z.leb_le; exact Hm). cbv iota.
  unfold set_ton_v. gv. unfold strig. kc. cbv iota. gv.
  replace (k =? -1) with false by (symmetry; apply Z.eqb_neq; exact Hk). cbv iota.
  assert (E : (k =? 1) && arelc (mkmv nw ST_INACTIVE k mx A g (u32 (boot c + T)) false false (td + CYCLE_US) true rl false ou) = false).
  { destruct Hl as [Hl| ->]; [replace (k =? 1) with false by (symmetry; apply Z.eqb_neq; exact Hl); reflexivity|].
    unfold arelc. gv. kc. apply andb_false_r. }
  rewrite E. rewrite etrig_eq. unfold set_cc_v. gv. reflexivity.
Qed.

(* a single click with the relay still wired to the input: the local action (toggle) *)
Lemma ev_tim_final_local nw mx A g T td rl ou :
  td <= nw -> 0 <= nw - T < TWO32 -> MULTICLICK_US <= nw - T -> A <> 0 -> g <> NOREL ->
  let h := if rl =? 1 then 0 else 1 in
  let t1 := nw + RELAY_D1 in let t2 := t1 + RELAY_DOUBLE_TRY_US + RELAY_D2 in
  aact c ATim (mkmv nw ST_INACTIVE 1 mx A g (u32 (boot c + T)) false true td true rl false ou) =
  mkmv t2 ST_INACTIVE 0 mx A g (u32 (boot c + T)) false false (td + CYCLE_US) true h false
       (OValue t2 RELAY_CH h :: (if h =? rl then OActive nw :: ou else OGpio t1 h :: OActive nw :: ou)).
Proof.
  intros Hd HT Hm HA Hg. cbv zeta. ty. unfold aact. gv. replace (td <=? nw) with true by (symmetry; apply Z.leb_le; exact Hd). cbv zeta iota. gv.
  unfold set_tdue_v. gv.
  unfold advT. cbv zeta. gv. unfold anow32. gv. rewrite u32_diff_shift by exact HT.
  rewrite Hmono, Tb, Tm. kc. gv.
  replace (MULTICLICK_US <=? nw - T) with true by (symmetry; apply Z.leb_le; exact Hm). cbv iota.
  unfold set_ton_v. gv. unfold strig. kc. cbv iota. gv. kc. cbv iota.
  unfold arelc. gv. replace (g =? NOREL) with false by (symmetry; apply Z.eqb_neq; exact Hg). gv. rewrite Tm.
  unfold onA. cbv zeta. unfold aemit, arelc. gv.
  replace (A =? 0) with false by (symmetry; apply Z.eqb_neq; exact HA).
  replace (g =? NOREL) with false by (symmetry; apply Z.eqb_neq; exact Hg). rewrite Tm, orb_true_r. gv.
  unfold sw. cbv zeta. gv. kc. cbv iota. unfold set_cc_v. gv. reflexivity.
Qed.

(* ====================== a gesture ====================== *)
Section Gest.
Variables A M g rl J : Z.
Hypothesis HA : A <> 0.
Hypothesis HM : 2 <= M.
Hypothesis HJ : 0 <= J.
Hypothesis HJM : CYCLE_US + J < MULTICLICK_US.

Definition idle (a : astep) : bool :=
  match a with ANotify _ => false | AOut o => negb (famo o) && negb (isloc o) | _ => true end.
Definition timely (v : mv) : Prop := a_ton v = true -> a_now v - a_tdue v <= J.
Fixpoint timely_run (l : list astep) (v : mv) : Prop :=
  timely v /\ match l with [] => True | a :: l' => timely_run l' (aact c a v) end.

(* click-count trigger for k clicks emitted at time t, as it appears in `ftr` *)
Definition xt (t k : Z) : list out := filter famo (trig_out A t (click_action c k)).

Inductive PSt (T k : Z) (F L : list out) : mv -> Prop :=
| PSt_i nw td ou : T <= nw -> filter famo ou = F -> filter isloc ou = L ->
    PSt T k F L (mkmv nw ST_ACTIVE k M A g (u32 (boot c + T)) false true td true rl false ou).
Inductive RSt (Tr k : Z) (F L : list out) : mv -> Prop :=
| RSt_i nw td ou : Tr <= nw -> filter famo ou = F -> filter isloc ou = L ->
    RSt Tr k F L (mkmv nw ST_INACTIVE k M A g (u32 (boot c + Tr)) false true td true rl false ou).
(* at rest: counter 0, button timer not armed, released *)
Inductive ZSt (F L : list out) : mv -> Prop :=
| ZSt_i nw ls td ta rl' ou : filter famo ou = F -> filter isloc ou = L ->
    ZSt F L (mkmv nw ST_INACTIVE 0 M A g ls false false td ta rl' false ou).

Lemma idle_out o ou : idle (AOut o) = true -> filter famo (o :: ou) = filter famo ou /\ filter isloc (o :: ou) = filter isloc ou.
Proof.
  cbn [idle]. intros H. apply andb_prop in H as [H1 H2]. apply negb_true_iff in H1, H2.
  cbn [filter]. rewrite H1, H2. auto.
Qed.

Lemma P_step T k F L v a : PSt T k F L v -> idle a = true -> (k <> 1 \/ a_now v - T < HOLD_US) -> a_now v - T < TWO32 ->
  (on_hold_en c = false \/ a_now v - T < CFG_PRESS_US) ->
  PSt T k F L (aact c a v).
Proof.
  intros HP Hi Hk Ht Hcp. revert Hk Ht Hcp. destruct HP as [nw td ou H1 H2 H3]. intros Hk Ht Hcp. cbn [a_now] in *. ty. destruct a; try discriminate.
  - unfold aact. gv. destruct (nw <=? t) eqn:E; [apply Z.leb_le in E; unfold set_now_v; gv; constructor; try assumption; lia|constructor; assumption].
  - destruct (td <=? nw) eqn:E.
    + apply Z.leb_le in E. rewrite ev_tim_pressed by (try assumption; lia). constructor; assumption.
    + rewrite ev_tim_idle by (rewrite E; reflexivity). constructor; assumption.
  - unfold aact, motV, arelc. gv. rewrite Tm, andb_false_r. constructor; assumption.
  - destruct (idle_out o ou Hi) as [E1 E2]. unfold aact, aemit. gv. constructor; congruence.
  - unfold aact. gv. constructor; assumption.
Qed.

Definition all_idle (l : list astep) : Prop := forallb idle l = true.

Lemma P_run T k F L l : forall v, PSt T k F L v -> all_idle l ->
  (k <> 1 \/ a_now (arun c l v) - T < HOLD_US) -> a_now (arun c l v) - T < TWO32 ->
  (on_hold_en c = false \/ a_now (arun c l v) - T < CFG_PRESS_US) -> PSt T k F L (arun c l v).
Proof.
  induction l as [|a l IH]; intros v HP Hi Hk Ht Hcp; [exact HP|].
  unfold all_idle in Hi. cbn in Hi. apply andb_prop in Hi as [Hi1 Hi2].
  change (arun c (a :: l) v) with (arun c l (aact c a v)) in *.
  pose proof (now_arun c l (aact c a v)). pose proof (now_aact c a v).
  apply IH; try assumption. apply P_step; try assumption; [destruct Hk; [left; assumption|right; lia]|lia|destruct Hcp; [left; assumption|right; lia]].
Qed.

(* ---- released: the button timer runs towards the multi-click time-out ---- *)
Inductive rph := Unfired | Fired | Final.
(* counter and click trigger after the first firing that still was within the multi-click time *)
Definition k1 (k : Z) : Z := if M <=? k then -1 else k.
Definition RInv (Tr k : Z) (F L : list out) (ph : rph) (v : mv) : Prop :=
  match ph with
  | Unfired => RSt Tr k F L v /\ a_tdue v = Tr + CYCLE_US
  | Fired => exists t, RSt Tr (k1 k) ((if M <=? k then xt t k else []) ++ F) L v /\ a_tdue v < Tr + MULTICLICK_US + CYCLE_US
  | Final => exists t,
      if M <=? k then ZSt (xt t k ++ F) L v                        (* reported at the overflow *)
      else if k =? -1 then ZSt F L v                                (* was reported earlier in the gesture *)
      else if (k =? 1) && negb (g =? NOREL) then ZSt F (OActive t :: L) v   (* single click: local action *)
      else ZSt (xt t k ++ F) L v                                    (* reported at the time-out *)
  end.

Lemma Z_step F L v a : ZSt F L v -> idle a = true -> ZSt F L (aact c a v).
Proof.
  intros [nw ls td ta rl' ou H2 H3] Hi. ty. destruct a; try discriminate.
  - unfold aact. gv. destruct (nw <=? t); [unfold set_now_v; gv|]; constructor; assumption.
  - rewrite ev_tim_idle by reflexivity. constructor; assumption.
  - unfold aact, motV. gv. rewrite Tm, andb_false_r. constructor; assumption.
  - destruct (idle_out o ou Hi) as [E1 E2]. unfold aact, aemit. gv. constructor; congruence.
  - unfold aact. gv. constructor; assumption.
Qed.

Lemma xt_nil t : xt t (-1) = [].
Proof. ty. unfold xt, trig_out, click_action. rewrite Hmono. kc. cbv iota. change (Z.land 0 A) with 0. reflexivity. Qed.

Lemma R_step Tr k F L ph v a :
  k = -1 \/ 0 <= k <= 100 ->
  RInv Tr k F L ph v -> idle a = true -> timely v -> a_now v - Tr < TWO32 ->
  exists ph', RInv Tr k F L ph' (aact c a v) /\
    (ph' = Final -> ph = Final \/ MULTICLICK_US <= a_now v - Tr) /\ (ph' = Unfired -> ph = Unfired) /\
    (ph = Final -> ph' = Final) /\ (ph = Fired -> ph' <> Unfired).
Proof.
  intros Hk HI Hi Ht H32. ty. pose proof CF as [Cy _ _ _ _ _ _].
  destruct ph.
  - (* no firing yet *)
    destruct HI as [HR E]. revert Ht H32 E. destruct HR as [nw td ou H1 H2 H3]. intros Ht H32 E.
    cbn [a_tdue a_now a_ton] in *. subst td. unfold timely in Ht. cbn [a_tdue a_now a_ton] in Ht.
    destruct a; try discriminate.
    + exists Unfired. unfold aact. gv. destruct (nw <=? t) eqn:E; [apply Z.leb_le in E; unfold set_now_v; gv|];
        (split; [split; [constructor; try assumption; lia|reflexivity]|repeat split; intros; congruence]).
    + destruct (Tr + CYCLE_US <=? nw) eqn:E.
      * apply Z.leb_le in E. specialize (Ht eq_refl).
        assert (Hq : nw - Tr < MULTICLICK_US) by lia.
        exists Fired. split; [|repeat split; intros; try congruence; discriminate].
        destruct (M <=? k) eqn:EM.
        -- apply Z.leb_le in EM. rewrite ev_tim_rel_ovf by (try assumption; lia).
           exists nw. unfold k1. replace (M <=? k) with true by (symmetry; apply Z.leb_le; exact EM).
           split; [constructor; try assumption; [|rewrite filter_app; cbn [filter isloc]; unfold trig_out; ifs; cbn; assumption]|cbn; lia].
           rewrite filter_app. unfold xt. rewrite H2. reflexivity.
        -- apply Z.leb_gt in EM. rewrite ev_tim_rel_noop by (try assumption; lia).
           exists nw. unfold k1. replace (M <=? k) with false by (symmetry; apply Z.leb_gt; exact EM).
           split; [constructor; assumption|cbn; lia].
      * rewrite ev_tim_idle by (rewrite E; reflexivity). exists Unfired.
        split; [split; [constructor; assumption|reflexivity]|repeat split; intros; congruence].
    + exists Unfired. unfold aact, motV, arelc. gv. rewrite Tm, andb_false_r.
      split; [split; [constructor; assumption|reflexivity]|repeat split; intros; congruence].
    + destruct (idle_out o ou Hi) as [E1 E2]. exists Unfired. unfold aact, aemit. gv.
      split; [split; [constructor; [assumption|congruence|congruence]|reflexivity]|repeat split; intros; congruence].
    + exists Unfired. unfold aact. gv. split; [split; [constructor; assumption|reflexivity]|repeat split; intros; congruence].
  - (* fired, not yet timed out *)
    destruct HI as (t0 & HR & E). revert Ht H32 E. destruct HR as [nw td ou H1 H2 H3]. intros Ht H32 E.
    cbn [a_tdue a_now a_ton] in *.
    assert (K1 : k1 k < M) by (unfold k1; destruct (M <=? k) eqn:EM; [lia|apply Z.leb_gt in EM; lia]).
    destruct a; try discriminate.
    + exists Fired. unfold aact. gv. destruct (nw <=? t) eqn:E0; [apply Z.leb_le in E0; unfold set_now_v; gv|];
        (split; [exists t0; split; [constructor; try assumption; lia|cbn; lia]|repeat split; intros; try congruence; discriminate]).
    + destruct (td <=? nw) eqn:E0.
      * apply Z.leb_le in E0. destruct (MULTICLICK_US <=? nw - Tr) eqn:EQ.
        -- (* the time-out *)
           apply Z.leb_le in EQ. exists Final. split; [|repeat split; intros; try congruence; try discriminate; right; cbn; lia].
           unfold k1 in *. destruct (M <=? k) eqn:EM.
           ++ exists t0. rewrite EM. rewrite ev_tim_final_ovf by (try assumption; lia). constructor; assumption.
           ++ exists nw. rewrite EM. apply Z.leb_gt in EM. cbn [app] in H2. destruct Hk as [-> | Hk].
              ** kc. cbv iota. rewrite ev_tim_final_ovf by (try assumption; lia). constructor; assumption.
              ** replace (k =? -1) with false by (symmetry; apply Z.eqb_neq; lia).
                 destruct ((k =? 1) && negb (g =? NOREL)) eqn:EL.
                 --- apply andb_prop in EL as [EL1 EL2]. apply Z.eqb_eq in EL1. subst k. apply negb_true_iff in EL2. apply Z.eqb_neq in EL2.
                     rewrite ev_tim_final_local by (try assumption; lia). cbv zeta.
                     destruct ((if rl =? 1 then 0 else 1) =? rl); constructor; cbn [filter famo isloc]; congruence.
                 --- assert (HL : k <> 1 \/ g = NOREL).
                     { apply andb_false_iff in EL as [EL|EL]; [left; apply Z.eqb_neq; exact EL|right; apply negb_false_iff in EL; apply Z.eqb_eq; exact EL]. }
                     rewrite ev_tim_final_trig by (try assumption; lia).
                     constructor; [|rewrite filter_app; unfold trig_out; ifs; cbn; assumption].
                     rewrite filter_app. unfold xt. rewrite H2. reflexivity.
        -- apply Z.leb_gt in EQ. exists Fired. split; [|repeat split; intros; try congruence; discriminate].
           rewrite ev_tim_rel_noop by (try assumption; lia). exists t0. split; [constructor; assumption|cbn; lia].
      * rewrite ev_tim_idle by (rewrite E0; reflexivity). exists Fired.
        split; [exists t0; split; [constructor; assumption|exact E]|repeat split; intros; try congruence; discriminate].
    + exists Fired. unfold aact, motV, arelc. gv. rewrite Tm, andb_false_r.
      split; [exists t0; split; [constructor; assumption|exact E]|repeat split; intros; try congruence; discriminate].
    + destruct (idle_out o ou Hi) as [E1 E2]. exists Fired. unfold aact, aemit. gv.
      split; [exists t0; split; [constructor; [assumption|congruence|congruence]|exact E]|repeat split; intros; try congruence; discriminate].
    + exists Fired. unfold aact. gv.
      split; [exists t0; split; [constructor; assumption|exact E]|repeat split; intros; try congruence; discriminate].
  - (* at rest again *)
    destruct HI as (t0 & HZ). exists Final. split; [|repeat split; intros; try congruence; auto].
    exists t0. destruct (M <=? k); [apply Z_step; assumption|].
    destruct (k =? -1); [apply Z_step; assumption|]. destruct (_ && _); apply Z_step; assumption.
Qed.

Lemma timely_run_end l : forall v, timely_run l v -> timely (arun c l v).
Proof. induction l as [|a l IH]; intros v H; [exact (proj1 H)|]. destruct H as [_ H]. apply (IH _ H). Qed.
Lemma timely_run_app l1 l2 : forall v, timely_run (l1 ++ l2) v -> timely_run l1 v /\ timely_run l2 (arun c l1 v).
Proof.
  induction l1 as [|a l1 IH]; intros v H.
  - cbn [app] in H. split; [split; [exact (match l2 return timely_run l2 v -> timely v with [] => fun h => proj1 h | _ :: _ => fun h => proj1 h end H)|exact I]|exact H].
  - destruct H as [H1 H2]. destruct (IH _ H2) as [I1 I2]. split; [split; assumption|exact I2].
Qed.
Lemma arun_app l1 l2 v : arun c (l1 ++ l2) v = arun c l2 (arun c l1 v).
Proof. unfold arun. apply fold_left_app. Qed.

Lemma R_run Tr k F L l : forall ph v,
  k = -1 \/ 0 <= k <= 100 -> RInv Tr k F L ph v -> all_idle l -> timely_run l v -> a_now (arun c l v) - Tr < TWO32 ->
  exists ph', RInv Tr k F L ph' (arun c l v) /\
    (ph' = Final -> ph = Final \/ MULTICLICK_US <= a_now (arun c l v) - Tr) /\ (ph' = Unfired -> ph = Unfired) /\
    (ph = Final -> ph' = Final) /\ (ph = Fired -> ph' <> Unfired).
Proof.
  induction l as [|a l IH]; intros ph v Hk HI Hi Ht H32.
  - exists ph. split; [exact HI|]. repeat split; intros; auto. congruence.
  - unfold all_idle in Hi. cbn in Hi. apply andb_prop in Hi as [Hi1 Hi2]. destruct Ht as [Ht1 Ht2].
    change (arun c (a :: l) v) with (arun c l (aact c a v)) in *.
    pose proof (now_arun c l (aact c a v)) as N1. pose proof (now_aact c a v) as N2.
    destruct (R_step Tr k F L ph v a Hk HI Hi1 Ht1 ltac:(lia)) as (ph1 & I1 & a1 & a2 & a3 & a4).
    destruct (IH ph1 (aact c a v) Hk I1 Hi2 Ht2 H32) as (ph2 & I2 & b1 & b2 & b3 & b4).
    exists ph2. split; [exact I2|]. repeat split.
    + intros E. destruct (b1 E) as [E1|E1]; [destruct (a1 E1) as [E2|E2]; [left; exact E2|right; lia]|right; exact E1].
    + intros E. apply a2, b2, E.
    + intros E. apply b3, a3, E.
    + intros E E2. destruct ph1; [exact (a4 E eq_refl)|exact (b4 eq_refl E2)|]. specialize (b3 eq_refl). congruence.
Qed.

Lemma R_live Tr k F L ph v : RInv Tr k F L ph v -> timely v ->
  match ph with Unfired => a_now v <= Tr + CYCLE_US + J | Fired => a_now v < Tr + MULTICLICK_US + CYCLE_US + J | Final => True end.
Proof.
  intros HI Ht. destruct ph; [| |exact I].
  - destruct HI as [HR E]. revert Ht E. destruct HR as [nw td ou H1 H2 H3]. unfold timely. cbn [a_ton a_now a_tdue]. intros Ht E.
    specialize (Ht eq_refl). lia.
  - destruct HI as (t0 & HR & E). revert Ht E. destruct HR as [nw td ou H1 H2 H3]. unfold timely. cbn [a_ton a_now a_tdue]. intros Ht E.
    specialize (Ht eq_refl). lia.
Qed.

Lemma fam_toff t : filter famo (toff A t) = [] /\ filter isloc (toff A t) = [].
Proof. unfold toff. ifs; split; reflexivity. Qed.

(* a release recognised while pressed *)
Lemma do_release T k F L v : PSt T k F L v ->
  RInv (a_now v) k F L Unfired (aact c (ANotify ST_INACTIVE) v).
Proof.
  intros [nw td ou H1 H2 H3]. cbn [a_now]. rewrite ev_release by exact HA.
  destruct (fam_toff nw) as [E1 E2].
  split; [|reflexivity]. constructor; [lia| |]; rewrite filter_app; cbn [filter famo isloc]; rewrite ?E1, ?E2; assumption.
Qed.
(* a press recognised while released with the timer running, or at rest *)
Lemma do_press_R Tr k F L v : -1 <= k <= 99 -> (on_toggle_en c = false \/ k + 1 < CFG_PRESS_COUNT) -> RSt Tr k F L v ->
  PSt (a_now v) (if k =? -1 then -1 else k + 1) F L (aact c (ANotify ST_ACTIVE) v).
Proof.
  intros Hk Htg [nw td ou H1 H2 H3]. cbn [a_now]. destruct (k =? -1) eqn:E.
  - apply Z.eqb_eq in E. subst k. rewrite ev_press_ovf by exact HA. constructor; [lia|assumption|assumption].
  - apply Z.eqb_neq in E. rewrite ev_press by (try assumption; try reflexivity; lia). constructor; [lia|assumption|assumption].
Qed.
Lemma do_press_Z nw ls si td ta ou :
  asilent_ret c (mkmv nw ST_INACTIVE 0 M A g ls si false td ta rl false ou) = false ->
  PSt nw 1 (filter famo ou) (filter isloc ou)
      (aact c (ANotify ST_ACTIVE) (mkmv nw ST_INACTIVE 0 M A g ls si false td ta rl false ou)).
Proof. intros Hs. rewrite ev_press by (try assumption; try lia; right; reflexivity). constructor; [lia|reflexivity|reflexivity]. Qed.

(* ---- N clicks ---- *)
Record clk := { iP : list astep; iR : list astep }.
Fixpoint gtrace (cl : list clk) : list astep :=
  match cl with [] => [] | x :: r => ANotify ST_ACTIVE :: iP x ++ ANotify ST_INACTIVE :: iR x ++ gtrace r end.
(* the timing of the gesture, read off the run: v is the view at the moment the next press is recognised *)
Fixpoint gok (first : bool) (v : mv) (cl : list clk) : Prop :=
  match cl with
  | [] => True
  | x :: r =>
    let v1 := arun c (iP x) (aact c (ANotify ST_ACTIVE) v) in            (* just before the release is recognised *)
    let v2 := arun c (iR x) (aact c (ANotify ST_INACTIVE) v1) in          (* just before the next press / at the end *)
    all_idle (iP x) /\ all_idle (iR x) /\
    (first = true -> a_now v1 - a_now v < HOLD_US) /\                     (* the first press is shorter than the hold time *)
    (r <> [] -> CYCLE_US + J < a_now v2 - a_now v1 < MULTICLICK_US) /\    (* quick: the next press comes within the multi-click time *)
    (r = [] -> MULTICLICK_US + CYCLE_US + J <= a_now v2 - a_now v1) /\    (* then silence *)
    gok false v2 r
  end.

(* every press of the gesture is shorter than the configuration-button hold time (only matters for such a button) *)
Fixpoint gshort (v : mv) (cl : list clk) : Prop :=
  match cl with
  | [] => True
  | x :: r =>
    let v1 := arun c (iP x) (aact c (ANotify ST_ACTIVE) v) in
    let v2 := arun c (iR x) (aact c (ANotify ST_INACTIVE) v1) in
    a_now v1 - a_now v < CFG_PRESS_US /\ gshort v2 r
  end.

Definition verdict (N : Z) (F0 L0 : list out) (v : mv) : Prop :=
  exists t,
    if M <=? N then ZSt (xt t M ++ F0) L0 v
    else if (N =? 1) && negb (g =? NOREL) then ZSt F0 (OActive t :: L0) v
    else ZSt (xt t N ++ F0) L0 v.

(* between two clicks: n clicks so far *)
Definition Mid (n : Z) (F0 L0 : list out) (v : mv) : Prop :=
  exists Tr, (n < M /\ RSt Tr n F0 L0 v) \/ (M <= n /\ exists t, RSt Tr (-1) (xt t M ++ F0) L0 v).

Lemma clicks_from_P cl : forall n T k F L F0 L0 v x,
  0 <= n -> n + Z.of_nat (length cl) < 99 ->
  (* pressed for the (n+1)-th time, k = counter *)
  PSt T k F L v ->
  ((n + 1 < M \/ n + 1 = M) /\ k = n + 1 /\ F = F0 \/ M <= n /\ k = -1 /\ exists t, F = xt t M ++ F0) -> L = L0 ->
  all_idle (iP x) -> all_idle (iR x) ->
  let v1 := arun c (iP x) v in
  let v2 := arun c (iR x) (aact c (ANotify ST_INACTIVE) v1) in
  (k = 1 -> a_now v1 - T < HOLD_US) ->
  (on_toggle_en c = false \/ n + 1 + Z.of_nat (length cl) < CFG_PRESS_COUNT) ->
  (on_hold_en c = false \/ (a_now v1 - T < CFG_PRESS_US /\ gshort v2 cl)) ->
  (cl <> [] -> CYCLE_US + J < a_now v2 - a_now v1 < MULTICLICK_US) ->
  (cl = [] -> MULTICLICK_US + CYCLE_US + J <= a_now v2 - a_now v1) ->
  gok false v2 cl ->
  timely_run (iP x ++ ANotify ST_INACTIVE :: iR x ++ gtrace cl) v ->
  a_now (arun c (gtrace cl) v2) - T < TWO32 ->
  verdict (n + 1 + Z.of_nat (length cl)) F0 L0 (arun c (gtrace cl) v2).
Proof.
  induction cl as [|y r IH]; intros n T k F L F0 L0 v x Hn Hlen HP Hst HL HiP HiR v1 v2 Hh Htg Hsh Hq Hs Hg Ht H32.
  - (* last click *)
    clear Hq. specialize (Hs eq_refl). cbn [gtrace arun fold_left length Z.of_nat] in *. rewrite Z.add_0_r.
    destruct (timely_run_app (iP x) _ v Ht) as [Tp Tr']. fold v1 in Tr'. destruct Tr' as [_ Tr'].
    destruct (timely_run_app (iR x) _ _ Tr') as [TR _].
    pose proof (now_arun c (iR x) (aact c (ANotify ST_INACTIVE) v1)) as N1. pose proof (now_aact c (ANotify ST_INACTIVE) v1) as N2.
    assert (HT1 : T <= a_now v) by (destruct HP; cbn; lia). pose proof (now_arun c (iP x) v) as N0. fold v1 in N0. fold v2 in N1.
    assert (HP1 : PSt T k F L v1).
    { apply P_run; try assumption; [|fold v1; lia|fold v1; destruct Hsh as [?|[? _]]; [left; assumption|right; assumption]].
      fold v1. destruct (Z.eq_dec k 1) as [E|E]; [right; apply Hh; exact E|left; exact E]. }
    pose proof (do_release T k F L v1 HP1) as HR0.
    assert (Hk : k = -1 \/ 0 <= k <= 100) by (destruct Hst as [(_ & E & _)|(_ & E & _)]; lia).
    destruct (R_run (a_now v1) k F L (iR x) Unfired _ Hk HR0 HiR TR ltac:(fold v2; lia)) as (ph & HI & b1 & b2 & b3 & b4).
    fold v2 in HI, b1.
    pose proof (R_live _ _ _ _ _ _ HI (timely_run_end _ _ TR)) as LV. fold v2 in LV.
    destruct ph; [lia|lia|]. clear LV.
    destruct HI as (t & HZ). unfold verdict. subst L.
    destruct Hst as [(Hc & -> & ->)|(Hc & -> & (t1 & ->))].
    + destruct Hc as [Hc| Hc].
      * exists t. replace (M <=? n + 1) with false in * by (symmetry; apply Z.leb_gt; lia).
        replace (n + 1 =? -1) with false in HZ by (symmetry; apply Z.eqb_neq; lia). exact HZ.
      * exists t. replace (M <=? n + 1) with true in * by (symmetry; apply Z.leb_le; lia). rewrite <- Hc. exact HZ.
    + exists t1. replace (M <=? n + 1) with true by (symmetry; apply Z.leb_le; lia).
      replace (M <=? -1) with false in HZ by (symmetry; apply Z.leb_gt; lia). cbn [Z.eqb] in HZ. exact HZ.
  - (* more clicks follow *)
    clear Hs. specialize (Hq ltac:(discriminate)).
    destruct (timely_run_app (iP x) _ v Ht) as [Tp Tr']. fold v1 in Tr'. destruct Tr' as [_ Tr'].
    destruct (timely_run_app (iR x) _ _ Tr') as [TR Tg]. fold v2 in Tg.
    cbn [gtrace] in *. change (arun c (ANotify ST_ACTIVE :: iP y ++ ANotify ST_INACTIVE :: iR y ++ gtrace r) v2)
      with (arun c (iP y ++ ANotify ST_INACTIVE :: iR y ++ gtrace r) (aact c (ANotify ST_ACTIVE) v2)) in *.
    rewrite arun_app in *. change (arun c (ANotify ST_INACTIVE :: iR y ++ gtrace r) ?z) with (arun c (iR y ++ gtrace r) (aact c (ANotify ST_INACTIVE) z)) in *.
    rewrite arun_app in *.
    set (w := aact c (ANotify ST_ACTIVE) v2) in *. set (w1 := arun c (iP y) w) in *.
    set (w2 := arun c (iR y) (aact c (ANotify ST_INACTIVE) w1)) in *.
    pose proof (now_arun c (iR x) (aact c (ANotify ST_INACTIVE) v1)) as N1. pose proof (now_aact c (ANotify ST_INACTIVE) v1) as N2.
    assert (HT1 : T <= a_now v) by (destruct HP; cbn; lia). pose proof (now_arun c (iP x) v) as N0. fold v1 in N0. fold v2 in N1.
    pose proof (now_aact c (ANotify ST_ACTIVE) v2) as N3. fold w in N3. pose proof (now_arun c (iP y) w) as N4. fold w1 in N4.
    pose proof (now_aact c (ANotify ST_INACTIVE) w1) as N5. pose proof (now_arun c (iR y) (aact c (ANotify ST_INACTIVE) w1)) as N6. fold w2 in N6.
    pose proof (now_arun c (gtrace r) w2) as N7.
    assert (HP1 : PSt T k F L v1).
    { apply P_run; try assumption; [|fold v1; lia|fold v1; destruct Hsh as [?|[? _]]; [left; assumption|right; assumption]].
      fold v1. destruct (Z.eq_dec k 1) as [E|E]; [right; apply Hh; exact E|left; exact E]. }
    pose proof (do_release T k F L v1 HP1) as HR0.
    assert (Hk : k = -1 \/ 0 <= k <= 100) by (destruct Hst as [(_ & E & _)|(_ & E & _)]; cbn [length] in Hlen; lia).
    destruct (R_run (a_now v1) k F L (iR x) Unfired _ Hk HR0 HiR TR ltac:(fold v2; lia)) as (ph & HI & b1 & b2 & b3 & b4).
    fold v2 in HI, b1.
    pose proof (R_live _ _ _ _ _ _ HI (timely_run_end _ _ TR)) as LV. fold v2 in LV.
    destruct ph; [lia| |destruct (b1 eq_refl) as [?|?]; [discriminate|lia]]. clear LV.
    destruct HI as (t & HRS & _).
    cbn [gok] in Hg. fold w w1 w2 in Hg. destruct Hg as (g1 & g2 & _ & g4 & g5 & g6).
    destruct Tg as [_ Tg]. fold w in Tg.
    replace (n + 1 + Z.of_nat (length (y :: r))) with ((n + 1) + 1 + Z.of_nat (length r)) by (cbn [length]; lia).
    assert (HPw : PSt (a_now v2) (if k1 k =? -1 then -1 else k1 k + 1) ((if M <=? k then xt t k else []) ++ F) L w).
    { eapply do_press_R; [| |exact HRS]; [unfold k1; destruct (M <=? k); lia|].
      destruct Htg as [?|Htg]; [left; assumption|right]. cbn [length] in Htg. unfold k1.
      destruct Hst as [(_ & -> & _)|(_ & -> & _)]; destruct (M <=? _); lia. }
    eapply (IH (n + 1) (a_now v2) _ _ L F0 L0 w y); try eassumption; try lia.
    + cbn [length] in Hlen. lia.
    + (* the bookkeeping of counter and reported trigger *)
      unfold k1. destruct Hst as [(Hc & -> & ->)|(Hc & -> & (t1 & ->))].
      * destruct Hc as [Hc|Hc].
        -- replace (M <=? n + 1) with false by (symmetry; apply Z.leb_gt; lia).
           replace (n + 1 =? -1) with false by (symmetry; apply Z.eqb_neq; lia).
           left. split; [lia|]. split; reflexivity.
        -- replace (M <=? n + 1) with true by (symmetry; apply Z.leb_le; lia). cbn [Z.eqb].
           right. split; [lia|]. split; [reflexivity|]. exists t. rewrite Hc. reflexivity.
      * replace (M <=? -1) with false by (symmetry; apply Z.leb_gt; lia). cbn [Z.eqb].
        right. split; [lia|]. split; [reflexivity|]. exists t1. reflexivity.
    + intros E. exfalso. unfold k1 in E. destruct Hst as [(Hc & -> & _)|(_ & -> & _)].
      * destruct (M <=? n + 1); [cbn in E; lia|]. replace (n + 1 =? -1) with false in E by (symmetry; apply Z.eqb_neq; lia). lia.
      * replace (M <=? -1) with false in E by (symmetry; apply Z.leb_gt; lia). cbn in E. lia.
    + destruct Htg as [?|Htg]; [left; assumption|right]. cbn [length] in Htg. lia.
    + destruct Hsh as [?|[_ Hsh]]; [left; assumption|right]. cbn [gshort] in Hsh. fold w w1 w2 in Hsh. exact Hsh.
    + fold w1 w2. lia.
Qed.

(* N >= 1 quick clicks from rest, then silence *)
Theorem gesture_thm : forall x cl nw ls si td ta ou,
  let v0 := mkmv nw ST_INACTIVE 0 M A g ls si false td ta rl false ou in
  let tr := gtrace (x :: cl) in
  asilent_ret c v0 = false ->
  Z.of_nat (length (x :: cl)) < 99 ->
  gok true v0 (x :: cl) -> timely_run tr v0 -> a_now (arun c tr v0) - nw < TWO32 ->
  (* a configuration button: fewer clicks than enter configuration mode, no press as long as the configuration hold *)
  (on_toggle_en c = false \/ Z.of_nat (length (x :: cl)) < CFG_PRESS_COUNT) ->
  (on_hold_en c = false \/ gshort v0 (x :: cl)) ->
  verdict (Z.of_nat (length (x :: cl))) (filter famo ou) (filter isloc ou) (arun c tr v0).
Proof.
  intros x cl nw ls si td ta ou v0 tr Hsil Hlen Hg Ht H32 Htg Hsh. subst tr. cbn [gtrace] in *.
  change (arun c (ANotify ST_ACTIVE :: iP x ++ ANotify ST_INACTIVE :: iR x ++ gtrace cl) v0)
    with (arun c (iP x ++ ANotify ST_INACTIVE :: iR x ++ gtrace cl) (aact c (ANotify ST_ACTIVE) v0)) in *.
  rewrite arun_app in *.
  change (arun c (ANotify ST_INACTIVE :: iR x ++ gtrace cl) ?z) with (arun c (iR x ++ gtrace cl) (aact c (ANotify ST_INACTIVE) z)) in *.
  rewrite arun_app in *.
  set (v := aact c (ANotify ST_ACTIVE) v0) in *.
  cbn [gok] in Hg. fold v in Hg. destruct Hg as (g1 & g2 & g3 & g4 & g5 & g6).
  destruct Ht as [_ Ht]. fold v in Ht.
  pose proof (do_press_Z nw ls si td ta ou Hsil) as HP. fold v0 v in HP.
  assert (Htg' : on_toggle_en c = false \/ 0 + 1 + Z.of_nat (length cl) < CFG_PRESS_COUNT)
    by (destruct Htg as [?|Htg]; [left; assumption|right; cbn [length] in Htg; lia]).
  assert (Hsh' : on_hold_en c = false \/
                 (a_now (arun c (iP x) v) - nw < CFG_PRESS_US /\ gshort (arun c (iR x) (aact c (ANotify ST_INACTIVE) (arun c (iP x) v))) cl)).
  { destruct Hsh as [?|Hsh]; [left; assumption|right]. cbn [gshort] in Hsh. fold v in Hsh. exact Hsh. }
  replace (Z.of_nat (length (x :: cl))) with (0 + 1 + Z.of_nat (length cl)) by (cbn [length]; lia).
  eapply (clicks_from_P cl 0 nw 1 _ _ _ _ v x); try eassumption; try reflexivity; try lia.
  - cbn [length] in Hlen. lia.
  - left. split; [lia|]. split; reflexivity.
  - intros _. apply g3. reflexivity.
Qed.

(* ---- the long press ---- *)
Definition ht (t : Z) : list out := filter famo (trig_out A t CAP_HOLD).
Inductive HSt (T : Z) (F L : list out) : mv -> Prop :=
| HSt_i nw td ou : T <= nw -> filter famo ou = F -> filter isloc ou = L ->
    HSt T F L (mkmv nw ST_ACTIVE 0 M A g (u32 (boot c + T)) false (on_hold_en c) td true rl false ou).
Definition HInv (T : Z) (F L : list out) (held : bool) (v : mv) : Prop :=
  if held then exists t, HSt T (ht t ++ F) L v
  else PSt T 1 F L v /\ a_tdue v < T + HOLD_US + CYCLE_US.

Lemma H_step T F L held v a : HInv T F L held v -> idle a = true -> a_now v - T < TWO32 ->
  (on_hold_en c = false \/ a_now v - T < CFG_PRESS_US) ->
  exists held', HInv T F L held' (aact c a v) /\ (held = true -> held' = true) /\
                (held' = true -> held = true \/ HOLD_US <= a_now v - T).
Proof.
  intros HI Hi H32 Hcp. ty. pose proof CF as [Cy _ _ _ _ _ _]. destruct held.
  - destruct HI as (t0 & HS). exists true. split; [|auto]. exists t0.
    revert H32 Hcp. destruct HS as [nw td ou H1 H2 H3]. cbn [a_now]. intros H32 Hcp. destruct a; try discriminate.
    + unfold aact. gv. destruct (nw <=? t) eqn:E; [apply Z.leb_le in E; unfold set_now_v; gv; constructor; try assumption; lia|constructor; assumption].
    + destruct (on_hold_en c) eqn:EO.
      * destruct (td <=? nw) eqn:E0.
        -- apply Z.leb_le in E0. rewrite ev_tim_held by (try assumption; lia).
           pose proof (HSt_i T (ht t0 ++ F) L nw (td + CYCLE_US) ou H1 H2 H3) as X. rewrite EO in X. exact X.
        -- rewrite ev_tim_idle by (rewrite E0; reflexivity).
           pose proof (HSt_i T (ht t0 ++ F) L nw td ou H1 H2 H3) as X. rewrite EO in X. exact X.
      * rewrite ev_tim_idle by reflexivity.
        pose proof (HSt_i T (ht t0 ++ F) L nw td ou H1 H2 H3) as X. rewrite EO in X. exact X.
    + unfold aact, motV, arelc. gv. rewrite Tm, andb_false_r. constructor; assumption.
    + destruct (idle_out o ou Hi) as [E1 E2]. unfold aact, aemit. gv. constructor; [assumption|congruence|congruence].
    + unfold aact. gv. constructor; assumption.
  - destruct HI as [HP E]. revert H32 E Hcp. destruct HP as [nw td ou H1 H2 H3]. cbn [a_now a_tdue]. intros H32 E Hcp.
    destruct a; try discriminate.
    + exists false. split; [|split; [discriminate|intros; discriminate]].
      unfold aact. gv. destruct (nw <=? t) eqn:E0; [apply Z.leb_le in E0; unfold set_now_v; gv|]; (split; [constructor; try assumption; lia|cbn; lia]).
    + destruct (td <=? nw) eqn:E0.
      * apply Z.leb_le in E0. destruct (HOLD_US <=? nw - T) eqn:EH.
        -- apply Z.leb_le in EH. exists true. split; [|split; [discriminate|intros; right; exact EH]].
           exists nw. rewrite ev_tim_hold by (try assumption; lia). constructor; [assumption| |].
           ++ rewrite filter_app. unfold ht. rewrite H2. reflexivity.
           ++ rewrite filter_app. unfold trig_out. ifs; cbn; assumption.
        -- apply Z.leb_gt in EH. exists false. split; [|split; [discriminate|intros; discriminate]].
           rewrite ev_tim_pressed by (try assumption; try lia; right; exact EH). split; [constructor; assumption|cbn; lia].
      * exists false. split; [|split; [discriminate|intros; discriminate]].
        rewrite ev_tim_idle by (rewrite E0; reflexivity). split; [constructor; assumption|exact E].
    + exists false. split; [|split; [discriminate|intros; discriminate]].
      unfold aact, motV, arelc. gv. rewrite Tm, andb_false_r. split; [constructor; assumption|exact E].
    + destruct (idle_out o ou Hi) as [E1 E2]. exists false. split; [|split; [discriminate|intros; discriminate]].
      unfold aact, aemit. gv. split; [constructor; [assumption|congruence|congruence]|exact E].
    + exists false. split; [|split; [discriminate|intros; discriminate]].
      unfold aact. gv. split; [constructor; assumption|exact E].
Qed.

Lemma H_run T F L l : forall held v, HInv T F L held v -> all_idle l -> a_now (arun c l v) - T < TWO32 ->
  (on_hold_en c = false \/ a_now (arun c l v) - T < CFG_PRESS_US) ->
  exists held', HInv T F L held' (arun c l v) /\ (held = true -> held' = true).
Proof.
  induction l as [|a l IH]; intros held v HI Hi H32 Hcp; [exists held; auto|].
  unfold all_idle in Hi. cbn in Hi. apply andb_prop in Hi as [Hi1 Hi2].
  change (arun c (a :: l) v) with (arun c l (aact c a v)) in *.
  pose proof (now_arun c l (aact c a v)). pose proof (now_aact c a v).
  destruct (H_step T F L held v a HI Hi1 ltac:(lia) ltac:(destruct Hcp; [left; assumption|right; lia])) as (h1 & I1 & a1 & _).
  destruct (IH h1 _ I1 Hi2 H32 Hcp) as (h2 & I2 & b1). exists h2. split; [exact I2|]. intros E. apply b1, a1, E.
Qed.

Lemma xt_zero t : xt t 0 = [].
Proof. ty. unfold xt, trig_out, click_action. rewrite Hmono. kc. cbv iota. change (Z.land 0 A) with 0. reflexivity. Qed.

(* press from rest, held beyond the hold time, released, then silence: exactly the HOLD trigger (if enabled) *)
Theorem hold_thm : forall iPl iRl nw ls si td ta ou,
  let v0 := mkmv nw ST_INACTIVE 0 M A g ls si false td ta rl false ou in
  let v1 := arun c iPl (aact c (ANotify ST_ACTIVE) v0) in
  let v2 := arun c iRl (aact c (ANotify ST_INACTIVE) v1) in
  asilent_ret c v0 = false -> all_idle iPl -> all_idle iRl ->
  HOLD_US + CYCLE_US + J <= a_now v1 - nw ->                       (* pressed long enough *)
  MULTICLICK_US + CYCLE_US + J <= a_now v2 - a_now v1 ->           (* then silence *)
  timely_run (ANotify ST_ACTIVE :: iPl ++ ANotify ST_INACTIVE :: iRl) v0 -> a_now v2 - nw < TWO32 -> CYCLE_US < HOLD_US ->
  (on_hold_en c = false \/ a_now v1 - nw < CFG_PRESS_US) ->       (* a configuration button: released before its hold time *)
  exists t, ZSt (ht t ++ filter famo ou) (filter isloc ou) v2.
Proof.
  intros iPl iRl nw ls si td ta ou v0 v1 v2 Hsil HiP HiR Hh Hs Ht H32 HCH Hcp. pose proof CF as [Cy _ _ _ _ _ _].
  destruct Ht as [_ Ht]. destruct (timely_run_app iPl _ _ Ht) as [TP TR]. fold v1 in TR. destruct TR as [_ TR].
  pose proof (now_arun c iRl (aact c (ANotify ST_INACTIVE) v1)) as N1. fold v2 in N1.
  pose proof (now_aact c (ANotify ST_INACTIVE) v1) as N2.
  pose proof (do_press_Z nw ls si td ta ou Hsil) as HP. fold v0 in HP.
  assert (HI0 : HInv nw (filter famo ou) (filter isloc ou) false (aact c (ANotify ST_ACTIVE) v0)).
  { split; [exact HP|]. unfold v0. rewrite ev_press by (try assumption; try lia; right; reflexivity). cbn [a_tdue]. lia. }
  destruct (H_run nw _ _ iPl false _ HI0 HiP ltac:(fold v1; lia) Hcp) as (held & HI1 & _). fold v1 in HI1.
  destruct held.
  2:{ exfalso. destruct HI1 as [HP1 E]. pose proof (timely_run_end _ _ TP) as TL. fold v1 in TL. revert E TL Hh.
      destruct HP1 as [nw1 td1 ou1 H1 H2 H3]. unfold timely. cbn [a_now a_tdue a_ton]. intros E TL Hh. specialize (TL eq_refl). lia. }
  destruct HI1 as (t & HS). exists t.
  assert (HR0 : RInv (a_now v1) 0 (ht t ++ filter famo ou) (filter isloc ou) Unfired (aact c (ANotify ST_INACTIVE) v1)).
  { destruct HS as [nw1 td1 ou1 H1 H2 H3]. cbn [a_now]. rewrite ev_release by exact HA.
    destruct (fam_toff nw1) as [E1 E2].
    split; [|reflexivity]. constructor; [lia| |]; rewrite filter_app; cbn [filter famo isloc]; rewrite ?E1, ?E2; assumption. }
  destruct (R_run (a_now v1) 0 _ _ iRl Unfired _ ltac:(right; lia) HR0 HiR TR ltac:(fold v2; lia)) as (ph & HI & b1 & b2 & b3 & b4).
  fold v2 in HI.
  pose proof (R_live _ _ _ _ _ _ HI (timely_run_end _ _ TR)) as LV. fold v2 in LV.
  destruct ph; [lia|lia|]. destruct HI as (t2 & HZ).
  replace (M <=? 0) with false in HZ by (symmetry; apply Z.leb_gt; lia). cbn [Z.eqb andb] in HZ.
  rewrite xt_zero in HZ. exact HZ.
Qed.
End Gest.
End Mono.

(* ---------- the same about the model ---------- *)
Lemma pend_t_on s : t_on s = true -> now s - t_due s <= pend s.
Proof. intros H. unfold pend. rewrite H. lia. Qed.

Lemma timely_from_lateG c J ms : forall s,
  forallb (fun m => negb (is_trig m)) ms = true ->
  pend s <= J -> late (mrun c ms s) <= J -> timely_run c J (atrace c ms s) (view s).
Proof.
  induction ms as [|m ms IH]; intros s Hn Hp Hl.
  - cbn. split; [|exact I]. unfold timely. cbn. intros H. pose proof (pend_t_on s H). lia.
  - cbn in Hn. apply andb_prop in Hn as [H1 H2]. apply negb_true_iff in H1.
    cbn [atrace timely_run]. split.
    + unfold timely. cbn. intros H. pose proof (pend_t_on s H). lia.
    + rewrite <- sim_stepG by assumption. rewrite mrun_cons in Hl. apply IH; try assumption.
      pose proof (mstep_pend c m s). pose proof (mrun_late c ms (mstep c m s)). lia.
Qed.
Lemma timely_from_late c J ms : forall s,
  cfg_btn c = false -> forallb (fun m => negb (is_trig m)) ms = true ->
  pend s <= J -> late (mrun c ms s) <= J -> timely_run c J (atrace c ms s) (view s).
Proof. intros s _. apply timely_from_lateG. Qed.
Lemma cfg_off c : cfg_btn c = false -> on_toggle_en c = false /\ on_hold_en c = false.
Proof. intros H. unfold on_toggle_en, on_hold_en. rewrite H. auto. Qed.

(* ---- any monostable button, the configuration button included ---- *)
Theorem at_single_trigger_cfg_thm : forall c A M g rl J ms s x cl nw ls si td ta ou,
  is_mono c = true -> A <> 0 -> 2 <= M -> CYCLE_US + J < MULTICLICK_US ->
  forallb (fun m => negb (is_trig m)) ms = true ->
  view s = mkmv nw ST_INACTIVE 0 M A g ls si false td ta rl false ou ->
  asilent_ret c (view s) = false ->
  atrace c ms s = gtrace (x :: cl) -> Z.of_nat (length (x :: cl)) < 99 ->
  gok c J true (view s) (x :: cl) ->
  pend s <= J -> late (mrun c ms s) <= J -> now (mrun c ms s) - now s < TWO32 ->
  (on_toggle_en c = false \/ Z.of_nat (length (x :: cl)) < CFG_PRESS_COUNT) ->
  (on_hold_en c = false \/ gshort c (view s) (x :: cl)) ->
  verdict c A M g (Z.of_nat (length (x :: cl))) (filter famo (outs s)) (filter isloc (outs s)) (view (mrun c ms s)).
Proof.
  intros c A M g rl J ms s x cl nw ls si td ta ou Hm HA HM HJM Hn Hv Hsil Htr Hlen Hg Hp Hl H32 Htg Hsh.
  pose proof (timely_from_lateG c J ms s Hn Hp Hl) as HT. rewrite Htr in HT.
  assert (Eo : outs s = ou) by (change (outs s) with (a_outs (view s)); rewrite Hv; reflexivity).
  assert (En : now s = nw) by (change (now s) with (a_now (view s)); rewrite Hv; reflexivity).
  assert (H32' : a_now (arun c (gtrace (x :: cl)) (view s)) - nw < TWO32).
  { rewrite <- Htr, <- sim_runG by assumption. change (a_now (view (mrun c ms s))) with (now (mrun c ms s)). lia. }
  rewrite sim_runG by assumption. rewrite Htr, Eo. rewrite Hv in *.
  apply (gesture_thm c Hm A M g rl J HA HM HJM x cl nw ls si td ta ou); assumption.
Qed.

Theorem at_hold_cfg_thm : forall c A M g rl J ms s iPl iRl nw ls si td ta ou,
  is_mono c = true -> A <> 0 -> 2 <= M -> 0 <= J -> CYCLE_US + J < MULTICLICK_US ->
  forallb (fun m => negb (is_trig m)) ms = true ->
  view s = mkmv nw ST_INACTIVE 0 M A g ls si false td ta rl false ou ->
  asilent_ret c (view s) = false ->
  atrace c ms s = ANotify ST_ACTIVE :: iPl ++ ANotify ST_INACTIVE :: iRl -> all_idle iPl -> all_idle iRl ->
  let v1 := arun c iPl (aact c (ANotify ST_ACTIVE) (view s)) in
  HOLD_US + CYCLE_US + J <= a_now v1 - now s ->
  MULTICLICK_US + CYCLE_US + J <= now (mrun c ms s) - a_now v1 ->
  pend s <= J -> late (mrun c ms s) <= J -> now (mrun c ms s) - now s < TWO32 ->
  (on_hold_en c = false \/ a_now v1 - now s < CFG_PRESS_US) ->
  exists t, ZSt A M g (ht c A t ++ filter famo (outs s)) (filter isloc (outs s)) (view (mrun c ms s)).
Proof.
  intros c A M g rl J ms s iPl iRl nw ls si td ta ou Hm HA HM HJ HJM Hn Hv Hsil Htr HiP HiR v1 Hh Hs Hp Hl H32 Hcp.
  pose proof (timely_from_lateG c J ms s Hn Hp Hl) as HT. rewrite Htr in HT.
  assert (Eo : outs s = ou) by (change (outs s) with (a_outs (view s)); rewrite Hv; reflexivity).
  assert (En : now s = nw) by (change (now s) with (a_now (view s)); rewrite Hv; reflexivity).
  assert (Ev : view (mrun c ms s) = arun c iRl (aact c (ANotify ST_INACTIVE) v1)).
  { rewrite sim_runG by assumption. rewrite Htr.
    change (arun c (ANotify ST_ACTIVE :: iPl ++ ANotify ST_INACTIVE :: iRl) (view s))
      with (arun c (iPl ++ ANotify ST_INACTIVE :: iRl) (aact c (ANotify ST_ACTIVE) (view s))).
    rewrite arun_app. reflexivity. }
  assert (En2 : now (mrun c ms s) = a_now (arun c iRl (aact c (ANotify ST_INACTIVE) v1))) by (rewrite <- Ev; reflexivity).
  rewrite Ev, Eo. subst v1. rewrite Hv in *.
  assert (HCH : CYCLE_US < HOLD_US) by (vm_compute; reflexivity).
  apply (hold_thm c Hm A M g rl J HA HM HJ HJM iPl iRl nw ls si td ta ou); try assumption; try lia.
  destruct Hcp; [left; assumption|right; lia].
Qed.

Theorem at_single_trigger_thm : forall c A M g rl J ms s x cl nw ls si td ta ou,
  is_mono c = true -> cfg_btn c = false -> A <> 0 -> 2 <= M -> CYCLE_US + J < MULTICLICK_US ->
  forallb (fun m => negb (is_trig m)) ms = true ->
  (* at rest in action-trigger mode: released, counter 0, button timer idle *)
  view s = mkmv nw ST_INACTIVE 0 M A g ls si false td ta rl false ou ->
  asilent_ret c (view s) = false ->
  (* the schedule is a gesture of N = 1 + |cl| clicks: notifies alternate press / release, the rest is idle *)
  atrace c ms s = gtrace (x :: cl) -> Z.of_nat (length (x :: cl)) < 99 ->
  gok c J true (view s) (x :: cl) ->
  pend s <= J -> late (mrun c ms s) <= J -> now (mrun c ms s) - now s < TWO32 ->
  verdict c A M g (Z.of_nat (length (x :: cl))) (filter famo (outs s)) (filter isloc (outs s)) (view (mrun c ms s)).
Proof.
  intros c A M g rl J ms s x cl nw ls si td ta ou Hm Hc HA HM HJM Hn Hv Hsil Htr Hlen Hg Hp Hl H32.
  destruct (cfg_off c Hc) as [E1 E2].
  eapply at_single_trigger_cfg_thm; try eassumption; left; assumption.
Qed.

Theorem at_hold_thm : forall c A M g rl J ms s iPl iRl nw ls si td ta ou,
  is_mono c = true -> cfg_btn c = false -> A <> 0 -> 2 <= M -> 0 <= J -> CYCLE_US + J < MULTICLICK_US ->
  forallb (fun m => negb (is_trig m)) ms = true ->
  view s = mkmv nw ST_INACTIVE 0 M A g ls si false td ta rl false ou ->
  asilent_ret c (view s) = false ->
  atrace c ms s = ANotify ST_ACTIVE :: iPl ++ ANotify ST_INACTIVE :: iRl -> all_idle iPl -> all_idle iRl ->
  let v1 := arun c iPl (aact c (ANotify ST_ACTIVE) (view s)) in
  HOLD_US + CYCLE_US + J <= a_now v1 - now s ->
  MULTICLICK_US + CYCLE_US + J <= now (mrun c ms s) - a_now v1 ->
  pend s <= J -> late (mrun c ms s) <= J -> now (mrun c ms s) - now s < TWO32 ->
  exists t, ZSt A M g (ht c A t ++ filter famo (outs s)) (filter isloc (outs s)) (view (mrun c ms s)).
Proof.
  intros c A M g rl J ms s iPl iRl nw ls si td ta ou Hm Hc HA HM HJ HJM Hn Hv Hsil Htr HiP HiR v1 Hh Hs Hp Hl H32.
  destruct (cfg_off c Hc) as [E1 E2].
  eapply at_hold_cfg_thm; try eassumption. left; assumption.
Qed.
