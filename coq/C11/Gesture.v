(* C11 — action-trigger mode on the button machine (Machine.v): a gesture of N quick clicks of a monostable
   button produces at most one click-count / hold trigger, the right one, and the local relay action only
   for a single click.  Stated on the machine `aact` / `arun`; Machine.sim_run carries it to the model. *)
From Coq Require Import List ZArith Bool Lia.
Import ListNotations.
From V Require Import Base.U32 Base.Iface Gen.InputConsts C11.Model C11.Proofs C11.Machine.
Local Open Scope Z_scope.

Lemma s8_small z : -128 <= z < 128 -> s8 z = z.
Proof.
  intros H. unfold s8. cbv zeta.
  destruct (Z_lt_dec z 0).
  - assert (E0 : z mod 256 = z + 256).
    { rewrite <- (Z.mod_add z 1 256) by lia. apply Z.mod_small; lia. }
    rewrite E0. destruct (z + 256 <? 128) eqn:E; [apply Z.ltb_lt in E; lia|lia].
  - rewrite Z.mod_small by lia. destruct (z <? 128) eqn:E; [reflexivity|apply Z.ltb_ge in E; lia].
Qed.

(* click-count / hold triggers and local actions in the output list *)
Definition fam (a : Z) : bool :=
  (a =? CAP_HOLD) || (a =? CAP_PRESS_x1) || (a =? CAP_PRESS_x2) || (a =? CAP_PRESS_x3) || (a =? CAP_PRESS_x4) || (a =? CAP_PRESS_x5) ||
  (a =? CAP_TOGGLE_x1) || (a =? CAP_TOGGLE_x2) || (a =? CAP_TOGGLE_x3) || (a =? CAP_TOGGLE_x4) || (a =? CAP_TOGGLE_x5).
Definition famo (o : out) : bool := match o with OTrig _ _ a => fam a | _ => false end.
Definition isloc (o : out) : bool := match o with OActive _ | OInactive _ => true | _ => false end.
Definition ftr (v : mv) : list out := filter famo (a_outs v).
Definition loc (v : mv) : list out := filter isloc (a_outs v).

Ltac gu := unfold set_tdue_v, set_now_v, set_cc_v, set_ton_v, set_lsc_v, arm_v, aemit; gv.

(* ---------- time never goes back on the machine ---------- *)
Ltac ifs := repeat match goal with |- context[if ?b then _ else _] => destruct b end.
Lemma now_sw hi v : a_now v <= a_now (sw hi v).
Proof. pose proof CF as [_ _ _ _ D1 D2 DT]. unfold sw. cbv zeta. gv. lia. Qed.
Lemma now_aemit o v : a_now (aemit o v) = a_now v. Proof. reflexivity. Qed.
Lemma now_onA c lg v : a_now v <= a_now (onA c lg v).
Proof.
  unfold onA. cbv zeta. set (x := if lg then aemit _ v else v).
  assert (E : a_now x = a_now v) by (subst x; destruct lg; reflexivity). clearbody x. rewrite <- E.
  ifs; try rewrite now_aemit; try lia; apply now_sw.
Qed.
Lemma now_onI c lg v : a_now v <= a_now (onI c lg v).
Proof.
  unfold onI. cbv zeta. set (x := if lg then aemit _ v else v).
  assert (E : a_now x = a_now v) by (subst x; destruct lg; reflexivity). clearbody x. rewrite <- E.
  ifs; try rewrite now_aemit; try lia; apply now_sw.
Qed.
Lemma now_etrig c a v : a_now (etrig c a v) = a_now v.
Proof. unfold etrig. ifs; reflexivity. Qed.
Lemma now_strig c a v : a_now v <= a_now (strig c a v).
Proof. unfold strig. ifs; rewrite ?now_etrig; try lia. apply now_onA. Qed.
Lemma now_legH c st_ v : a_now v <= a_now (legH c st_ v).
Proof.
  unfold legH. cbv zeta. ifs; try (gu; lia).
  - eapply Z.le_trans; [|apply now_onA]. gu. lia.
  - eapply Z.le_trans; [|apply now_onI]. gu. lia.
Qed.
Lemma now_advH c st_ v : a_now v <= a_now (advH c st_ v).
Proof.
  unfold advH. cbv zeta.
  set (v0 := set_ton_v false v). assert (E0 : a_now v <= a_now v0) by (subst v0; gu; lia). clearbody v0.
  set (v1 := if negb (a_cc v0 =? -1) && counts_click c st_ then _ else v0).
  assert (E1 : a_now v0 <= a_now v1).
  { subst v1. ifs; try lia.
    - eapply Z.le_trans; [|apply now_onA]. rewrite now_etrig. gu. lia.
    - rewrite now_etrig. gu. lia.
    - gu. lia. }
  clearbody v1. destruct (a_halted v1); [lia|].
  set (v2 := if st_ =? ST_INACTIVE then _ else v1).
  assert (E2 : a_now v1 <= a_now v2).
  { subst v2. ifs; try lia.
    - eapply Z.le_trans; [|apply now_onI]. rewrite now_etrig. lia.
    - rewrite now_etrig. lia. }
  clearbody v2. unfold arm_v. gv. lia.
Qed.
Lemma now_notifyV c st_ v : a_now v <= a_now (notifyV c st_ v).
Proof.
  unfold notifyV. cbv zeta. ifs; gv; try lia.
  - eapply Z.le_trans; [|apply now_advH]. gv. lia.
  - eapply Z.le_trans; [|apply now_legH]. gv. lia.
Qed.
Lemma now_advT c v : a_now v <= a_now (advT c v).
Proof.
  unfold advT. cbv zeta.
  set (v1 := if is_mono c && (a_last v =? ST_ACTIVE) && negb (a_cc v =? -1) then _ else v).
  assert (E1 : a_now v <= a_now v1).
  { subst v1. ifs; try lia. unfold set_ton_v, set_cc_v. gv. rewrite now_etrig. lia. }
  clearbody v1. ifs; try lia.
  - unfold set_cc_v. gv. eapply Z.le_trans; [exact E1|]. eapply Z.le_trans; [|apply now_strig]. gu. lia.
  - unfold set_cc_v, set_ton_v. gv. eapply Z.le_trans; [exact E1|]. apply now_strig.
  - unfold set_cc_v. gv. eapply Z.le_trans; [exact E1|]. apply now_strig.
Qed.
Lemma now_motV c v : a_now v <= a_now (motV c v).
Proof. unfold motV. ifs; try lia; [apply now_onA|apply now_onI]. Qed.
Lemma now_aact c a v : a_now v <= a_now (aact c a v).
Proof.
  unfold aact. destruct (a_halted v); [lia|]. destruct a.
  - destruct (a_now v <=? t) eqn:E; [apply Z.leb_le in E; gu; lia|lia].
  - apply now_notifyV.
  - ifs; try lia. + eapply Z.le_trans; [|apply now_advT]. gu. lia. + gu. lia.
  - apply now_motV.
  - reflexivity.
  - lia.
Qed.
Lemma now_arun c l : forall v, a_now v <= a_now (arun c l v).
Proof.
  induction l as [|a l IH]; intros v; [cbn; lia|]. unfold arun in *. cbn [fold_left].
  eapply Z.le_trans; [apply now_aact|apply IH].
Qed.

Section Mono.
Variable c : cfgT.
Hypothesis Hmono : is_mono c = true.

Lemma mono_types : is_bi c = false /\ is_motion c = false /\ is_sensor c = false.
Proof. destruct (types_excl c) as (X & _). exact (X Hmono). Qed.

Ltac ty := destruct mono_types as (Tb & Tm & Ts).

(* TURN_OFF is reported at every release when the server enabled it (it is not a click-count trigger) *)
Definition toff (A nw : Z) : list out :=
  if Z.land CAP_TURN_OFF A =? 0 then [] else if chan c =? 255 then [] else [OTrig nw (chan c) CAP_TURN_OFF].

Lemma ev_press nw k mx A g ls tn td ta rl ou :
  A <> 0 -> k <> -1 -> -100 <= k <= 100 ->
  aact c (ANotify ST_ACTIVE) (mkmv nw ST_INACTIVE k mx A g ls false tn td ta rl false ou) =
  mkmv nw ST_ACTIVE (k + 1) mx A g (u32 (boot c + nw)) false true (nw + CYCLE_US) true rl false
       (ONotify nw ST_ACTIVE ST_INACTIVE k :: ou).
Proof.
  intros HA Hk Hr. ty. unfold aact. gv. unfold notifyV. cbv zeta. unfold asilent_ret. gv. kc. cbv iota.
  replace (A =? 0) with false by (symmetry; apply Z.eqb_neq; exact HA). gv.
  unfold advH. cbv zeta. gv.
  replace (k =? -1) with false by (symmetry; apply Z.eqb_neq; exact Hk). gv.
  unfold counts_click. rewrite Hmono, Tb, Tm. kc. gv. rewrite s8_small by lia. unfold anow32. gv. reflexivity.
Qed.

Lemma ev_press_ovf nw mx A g ls tn td ta rl ou :
  A <> 0 ->
  aact c (ANotify ST_ACTIVE) (mkmv nw ST_INACTIVE (-1) mx A g ls false tn td ta rl false ou) =
  mkmv nw ST_ACTIVE (-1) mx A g (u32 (boot c + nw)) false true (nw + CYCLE_US) true rl false
       (ONotify nw ST_ACTIVE ST_INACTIVE (-1) :: ou).
Proof.
  intros HA. ty. unfold aact. gv. unfold notifyV. cbv zeta. unfold asilent_ret. gv. kc. cbv iota.
  replace (A =? 0) with false by (symmetry; apply Z.eqb_neq; exact HA). gv.
  unfold advH. cbv zeta. gv. kc. gv. unfold anow32. gv. reflexivity.
Qed.

Lemma ev_release nw k mx A g ls tn td ta rl ou :
  A <> 0 ->
  aact c (ANotify ST_INACTIVE) (mkmv nw ST_ACTIVE k mx A g ls false tn td ta rl false ou) =
  mkmv nw ST_INACTIVE k mx A g (u32 (boot c + nw)) false true (nw + CYCLE_US) true rl false
       (toff A nw ++ ONotify nw ST_INACTIVE ST_ACTIVE k :: ou).
Proof.
  intros HA. ty. unfold aact. gv. unfold notifyV. cbv zeta. unfold asilent_ret. gv. kc. cbv iota.
  replace (A =? 0) with false by (symmetry; apply Z.eqb_neq; exact HA). gv.
  unfold advH. cbv zeta. gv.
  unfold counts_click. rewrite Hmono, Tb, Tm. kc. gv. rewrite andb_false_r. cbv iota. gv.
  unfold etrig, toff. gv.
  destruct (Z.land CAP_TURN_OFF A =? 0); [unfold anow32; gv; reflexivity|].
  destruct (chan c =? 255); unfold anow32; gv; reflexivity.
Qed.

(* ---- the timer callback ---- *)
Definition trig_out (A nw a : Z) : list out :=
  if Z.land a A =? 0 then [] else if chan c =? 255 then [] else [OTrig nw (chan c) a].

Lemma etrig_eq a nw la k mx A g ls si tn td ta rl hl ou :
  etrig c a (mkmv nw la k mx A g ls si tn td ta rl hl ou) = mkmv nw la k mx A g ls si tn td ta rl hl (trig_out A nw a ++ ou).
Proof. unfold etrig, trig_out. gv. destruct (Z.land a A =? 0); [reflexivity|]. destruct (chan c =? 255); reflexivity. Qed.

Definition TWO32 : Z := 4294967296.

Lemma ev_tim_idle nw la k mx A g ls tn td ta rl ou :
  (tn && (td <=? nw)) = false ->
  aact c ATim (mkmv nw la k mx A g ls false tn td ta rl false ou) = mkmv nw la k mx A g ls false tn td ta rl false ou.
Proof. intros H. unfold aact. gv. rewrite H. reflexivity. Qed.

Lemma ev_tim_pressed nw k mx A g T td rl ou :
  td <= nw -> 0 <= nw - T < TWO32 -> (k <> 1 \/ nw - T < HOLD_US) ->
  aact c ATim (mkmv nw ST_ACTIVE k mx A g (u32 (boot c + T)) false true td true rl false ou) =
  mkmv nw ST_ACTIVE k mx A g (u32 (boot c + T)) false true (td + CYCLE_US) true rl false ou.
Proof.
  intros Hd HT Hk. ty. unfold aact. gv. replace (td <=? nw) with true by (symmetry; apply Z.leb_le; exact Hd). cbv zeta iota. gv.
  unfold advT. cbv zeta. gv. unfold anow32. gv. rewrite u32_diff_shift by exact HT.
  rewrite Hmono, Tb, Tm. kc. gv.
  assert (E : (k =? 1) && (HOLD_US <=? nw - T) = false).
  { destruct Hk as [Hk|Hk]; [replace (k =? 1) with false by (symmetry; apply Z.eqb_neq; exact Hk); reflexivity|].
    replace (HOLD_US <=? nw - T) with false by (symmetry; apply Z.leb_gt; exact Hk). apply andb_false_r. }
  destruct (negb (k =? -1)); gv; rewrite ?E; gv; kc; gv; reflexivity.
Qed.

Lemma ev_tim_hold nw mx A g T td rl ou :
  td <= nw -> 0 <= nw - T < TWO32 -> HOLD_US <= nw - T ->
  aact c ATim (mkmv nw ST_ACTIVE 1 mx A g (u32 (boot c + T)) false true td true rl false ou) =
  mkmv nw ST_ACTIVE 0 mx A g (u32 (boot c + T)) false false (td + CYCLE_US) true rl false (trig_out A nw CAP_HOLD ++ ou).
Proof.
  intros Hd HT Hh. ty. unfold aact. gv. replace (td <=? nw) with true by (symmetry; apply Z.leb_le; exact Hd). cbv zeta iota. gv.
  unfold set_tdue_v. gv.
  unfold advT. cbv zeta. gv. unfold anow32. gv. rewrite u32_diff_shift by exact HT.
  rewrite Hmono, Tb, Tm. kc. gv.
  replace (HOLD_US <=? nw - T) with true by (symmetry; apply Z.leb_le; exact Hh). cbv iota.
  rewrite etrig_eq. unfold set_cc_v. gv. unfold set_ton_v. gv. kc. gv. reflexivity.
Qed.

Lemma ev_tim_rel_noop nw k mx A g T td rl ou :
  td <= nw -> 0 <= nw - T < TWO32 -> nw - T < MULTICLICK_US -> k < mx ->
  aact c ATim (mkmv nw ST_INACTIVE k mx A g (u32 (boot c + T)) false true td true rl false ou) =
  mkmv nw ST_INACTIVE k mx A g (u32 (boot c + T)) false true (td + CYCLE_US) true rl false ou.
Proof.
  intros Hd HT Hm Hk. ty. unfold aact. gv. replace (td <=? nw) with true by (symmetry; apply Z.leb_le; exact Hd). cbv zeta iota. gv.
  unfold advT. cbv zeta. gv. unfold anow32. gv. rewrite u32_diff_shift by exact HT.
  rewrite Hmono, Tb, Tm. kc. gv.
  replace (MULTICLICK_US <=? nw - T) with false by (symmetry; apply Z.leb_gt; exact Hm).
  replace (mx <=? k) with false by (symmetry; apply Z.leb_gt; exact Hk). reflexivity.
Qed.

Lemma ev_tim_rel_ovf nw k mx A g T td rl ou :
  td <= nw -> 0 <= nw - T < TWO32 -> nw - T < MULTICLICK_US -> mx <= k -> 2 <= mx ->
  aact c ATim (mkmv nw ST_INACTIVE k mx A g (u32 (boot c + T)) false true td true rl false ou) =
  mkmv nw ST_INACTIVE (-1) mx A g (u32 (boot c + T)) false true (td + CYCLE_US) true rl false
       (trig_out A nw (click_action c k) ++ ou).
Proof.
  intros Hd HT Hm Hk H2. ty. unfold aact. gv. replace (td <=? nw) with true by (symmetry; apply Z.leb_le; exact Hd). cbv zeta iota. gv.
  unfold set_tdue_v. gv.
  unfold advT. cbv zeta. gv. unfold anow32. gv. rewrite u32_diff_shift by exact HT.
  rewrite Hmono, Tb, Tm. kc. gv.
  replace (MULTICLICK_US <=? nw - T) with false by (symmetry; apply Z.leb_gt; exact Hm).
  replace (mx <=? k) with true by (symmetry; apply Z.leb_le; exact Hk). cbv iota.
  unfold strig. kc. cbv iota. gv.
  replace (k =? -1) with false by (symmetry; apply Z.eqb_neq; lia).
  replace (k =? 1) with false by (symmetry; apply Z.eqb_neq; lia). cbn [andb]. cbv iota.
  rewrite etrig_eq. unfold set_cc_v. gv.
  replace (mx <=? 1) with false by (symmetry; apply Z.leb_gt; lia). reflexivity.
Qed.

(* ---- final firing: the multi-click time has run out ---- *)
Lemma ev_tim_final_ovf nw mx A g T td rl ou :
  td <= nw -> 0 <= nw - T < TWO32 -> MULTICLICK_US <= nw - T ->
  aact c ATim (mkmv nw ST_INACTIVE (-1) mx A g (u32 (boot c + T)) false true td true rl false ou) =
  mkmv nw ST_INACTIVE 0 mx A g (u32 (boot c + T)) false false (td + CYCLE_US) true rl false ou.
Proof.
  intros Hd HT Hm. ty. unfold aact. gv. replace (td <=? nw) with true by (symmetry; apply Z.leb_le; exact Hd). cbv zeta iota. gv.
  unfold set_tdue_v. gv.
  unfold advT. cbv zeta. gv. unfold anow32. gv. rewrite u32_diff_shift by exact HT.
  rewrite Hmono, Tb, Tm. kc. gv.
  replace (MULTICLICK_US <=? nw - T) with true by (symmetry; apply Z.leb_le; exact Hm). cbv iota.
  unfold set_ton_v. gv. unfold strig. kc. cbv iota. gv. kc. cbv iota. unfold set_cc_v. gv. reflexivity.
Qed.

Lemma ev_tim_final_trig nw k mx A g T td rl ou :
  td <= nw -> 0 <= nw - T < TWO32 -> MULTICLICK_US <= nw - T -> k <> -1 -> (k <> 1 \/ g = NOREL) ->
  aact c ATim (mkmv nw ST_INACTIVE k mx A g (u32 (boot c + T)) false true td true rl false ou) =
  mkmv nw ST_INACTIVE 0 mx A g (u32 (boot c + T)) false false (td + CYCLE_US) true rl false
       (trig_out A nw (click_action c k) ++ ou).
Proof.
  intros Hd HT Hm Hk Hl. ty. unfold aact. gv. replace (td <=? nw) with true by (symmetry; apply Z.leb_le; exact Hd). cbv zeta iota. gv.
  unfold set_tdue_v. gv.
  unfold advT. cbv zeta. gv. unfold anow32. gv. rewrite u32_diff_shift by exact HT.
  rewrite Hmono, Tb, Tm. kc. gv.
  replace (MULTICLICK_US <=? nw - T) with true by (symmetry; apply Z.leb_le; exact Hm). cbv iota.
  unfold set_ton_v. gv. unfold strig. kc. cbv iota. gv.
  replace (k =? -1) with false by (symmetry; apply Z.eqb_neq; exact Hk). cbv iota.
  assert (E : (k =? 1) && arelc (mkmv nw ST_INACTIVE k mx A g (u32 (boot c + T)) false false (td + CYCLE_US) true rl false ou) = false).
  { destruct Hl as [Hl| ->]; [replace (k =? 1) with false by (symmetry; apply Z.eqb_neq; exact Hl); reflexivity|].
    unfold arelc. gv. kc. apply andb_false_r. }
  rewrite E. rewrite etrig_eq. unfold set_cc_v. gv. reflexivity.
Qed.

(* a single click with the relay still wired to the input: the local action (toggle) *)
Lemma ev_tim_final_local nw mx A g T td rl ou :
  td <= nw -> 0 <= nw - T < TWO32 -> MULTICLICK_US <= nw - T -> A <> 0 -> g <> NOREL ->
  let h := if rl =? 1 then 0 else 1 in
  let t1 := nw + RELAY_D1 in let t2 := t1 + RELAY_DOUBLE_TRY_US + RELAY_D2 in
  aact c ATim (mkmv nw ST_INACTIVE 1 mx A g (u32 (boot c + T)) false true td true rl false ou) =
  mkmv t2 ST_INACTIVE 0 mx A g (u32 (boot c + T)) false false (td + CYCLE_US) true h false
       (OValue t2 RELAY_CH h :: (if h =? rl then OActive nw :: ou else OGpio t1 h :: OActive nw :: ou)).
Proof.
  intros Hd HT Hm HA Hg. cbv zeta. ty. unfold aact. gv. replace (td <=? nw) with true by (symmetry; apply Z.leb_le; exact Hd). cbv zeta iota. gv.
  unfold set_tdue_v. gv.
  unfold advT. cbv zeta. gv. unfold anow32. gv. rewrite u32_diff_shift by exact HT.
  rewrite Hmono, Tb, Tm. kc. gv.
  replace (MULTICLICK_US <=? nw - T) with true by (symmetry; apply Z.leb_le; exact Hm). cbv iota.
  unfold set_ton_v. gv. unfold strig. kc. cbv iota. gv. kc. cbv iota.
  unfold arelc. gv. replace (g =? NOREL) with false by (symmetry; apply Z.eqb_neq; exact Hg). gv. rewrite Tm.
  unfold onA. cbv zeta. unfold aemit, arelc. gv.
  replace (A =? 0) with false by (symmetry; apply Z.eqb_neq; exact HA).
  replace (g =? NOREL) with false by (symmetry; apply Z.eqb_neq; exact Hg). rewrite Tm, orb_true_r. gv.
  unfold sw. cbv zeta. gv. kc. cbv iota. unfold set_cc_v. gv. reflexivity.
Qed.

(* ====================== a gesture ====================== *)
Section Gest.
Variables A M g rl J : Z.
Hypothesis HA : A <> 0.
Hypothesis HM : 2 <= M.
Hypothesis HJ : 0 <= J.
Hypothesis HJM : CYCLE_US + J < MULTICLICK_US.

Definition idle (a : astep) : bool :=
  match a with ANotify _ => false | AOut o => negb (famo o) && negb (isloc o) | _ => true end.
Definition timely (v : mv) : Prop := a_ton v = true -> a_now v - a_tdue v <= J.
Fixpoint timely_run (l : list astep) (v : mv) : Prop :=
  timely v /\ match l with [] => True | a :: l' => timely_run l' (aact c a v) end.

(* click-count trigger for k clicks emitted at time t, as it appears in `ftr` *)
Definition xt (t k : Z) : list out := filter famo (trig_out A t (click_action c k)).

Inductive PSt (T k : Z) (F L : list out) : mv -> Prop :=
| PSt_i nw td ou : T <= nw -> filter famo ou = F -> filter isloc ou = L ->
    PSt T k F L (mkmv nw ST_ACTIVE k M A g (u32 (boot c + T)) false true td true rl false ou).
Inductive RSt (Tr k : Z) (F L : list out) : mv -> Prop :=
| RSt_i nw td ou : Tr <= nw -> filter famo ou = F -> filter isloc ou = L ->
    RSt Tr k F L (mkmv nw ST_INACTIVE k M A g (u32 (boot c + Tr)) false true td true rl false ou).
(* at rest: counter 0, button timer not armed, released *)
Inductive ZSt (F L : list out) : mv -> Prop :=
| ZSt_i nw ls td ta rl' ou : filter famo ou = F -> filter isloc ou = L ->
    ZSt F L (mkmv nw ST_INACTIVE 0 M A g ls false false td ta rl' false ou).

Lemma idle_out o ou : idle (AOut o) = true -> filter famo (o :: ou) = filter famo ou /\ filter isloc (o :: ou) = filter isloc ou.
Proof.
  cbn [idle]. intros H. apply andb_prop in H as [H1 H2]. apply negb_true_iff in H1, H2.
  cbn [filter]. rewrite H1, H2. auto.
Qed.

Lemma P_step T k F L v a : PSt T k F L v -> idle a = true -> (k <> 1 \/ a_now v - T < HOLD_US) -> a_now v - T < TWO32 ->
  PSt T k F L (aact c a v).
Proof.
  intros HP Hi Hk Ht. revert Hk Ht. destruct HP as [nw td ou H1 H2 H3]. intros Hk Ht. cbn [a_now] in *. ty. destruct a; try discriminate.
  - unfold aact. gv. destruct (nw <=? t) eqn:E; [apply Z.leb_le in E; unfold set_now_v; gv; constructor; try assumption; lia|constructor; assumption].
  - destruct (td <=? nw) eqn:E.
    + apply Z.leb_le in E. rewrite ev_tim_pressed by (try assumption; lia). constructor; assumption.
    + rewrite ev_tim_idle by (rewrite E; reflexivity). constructor; assumption.
  - unfold aact, motV, arelc. gv. rewrite Tm, andb_false_r. constructor; assumption.
  - destruct (idle_out o ou Hi) as [E1 E2]. unfold aact, aemit. gv. constructor; congruence.
  - unfold aact. gv. constructor; assumption.
Qed.

Definition all_idle (l : list astep) : Prop := forallb idle l = true.

Lemma P_run T k F L l : forall v, PSt T k F L v -> all_idle l ->
  (k <> 1 \/ a_now (arun c l v) - T < HOLD_US) -> a_now (arun c l v) - T < TWO32 -> PSt T k F L (arun c l v).
Proof.
  induction l as [|a l IH]; intros v HP Hi Hk Ht; [exact HP|].
  unfold all_idle in Hi. cbn in Hi. apply andb_prop in Hi as [Hi1 Hi2].
  change (arun c (a :: l) v) with (arun c l (aact c a v)) in *.
  pose proof (now_arun c l (aact c a v)). pose proof (now_aact c a v).
  apply IH; try assumption. apply P_step; try assumption; [destruct Hk; [left; assumption|right; lia]|lia].
Qed.

(* ---- released: the button timer runs towards the multi-click time-out ---- *)
Inductive rph := Unfired | Fired | Final.
(* counter and click trigger after the first firing that still was within the multi-click time *)
Definition k1 (k : Z) : Z := if M <=? k then -1 else k.
Definition RInv (Tr k : Z) (F L : list out) (ph : rph) (v : mv) : Prop :=
  match ph with
  | Unfired => RSt Tr k F L v /\ a_tdue v = Tr + CYCLE_US
  | Fired => exists t, RSt Tr (k1 k) ((if M <=? k then xt t k else []) ++ F) L v /\ a_tdue v < Tr + MULTICLICK_US + CYCLE_US
  | Final => exists t,
      if M <=? k then ZSt (xt t k ++ F) L v                        (* reported at the overflow *)
      else if k =? -1 then ZSt F L v                                (* was reported earlier in the gesture *)
      else if (k =? 1) && negb (g =? NOREL) then ZSt F (OActive t :: L) v   (* single click: local action *)
      else ZSt (xt t k ++ F) L v                                    (* reported at the time-out *)
  end.

Lemma Z_step F L v a : ZSt F L v -> idle a = true -> ZSt F L (aact c a v).
Proof.
  intros [nw ls td ta rl' ou H2 H3] Hi. ty. destruct a; try discriminate.
  - unfold aact. gv. destruct (nw <=? t); [unfold set_now_v; gv|]; constructor; assumption.
  - rewrite ev_tim_idle by reflexivity. constructor; assumption.
  - unfold aact, motV. gv. rewrite Tm, andb_false_r. constructor; assumption.
  - destruct (idle_out o ou Hi) as [E1 E2]. unfold aact, aemit. gv. constructor; congruence.
  - unfold aact. gv. constructor; assumption.
Qed.

Lemma xt_nil t : xt t (-1) = [].
Proof. ty. unfold xt, trig_out, click_action. rewrite Hmono. kc. cbv iota. change (Z.land 0 A) with 0. reflexivity. Qed.

Lemma R_step Tr k F L ph v a :
  k = -1 \/ 1 <= k <= 100 ->
  RInv Tr k F L ph v -> idle a = true -> timely v -> a_now v - Tr < TWO32 ->
  exists ph', RInv Tr k F L ph' (aact c a v) /\
    (ph' = Final -> ph = Final \/ MULTICLICK_US <= a_now v - Tr) /\ (ph' = Unfired -> ph = Unfired) /\
    (ph = Final -> ph' = Final) /\ (ph = Fired -> ph' <> Unfired).
Proof.
  intros Hk HI Hi Ht H32. ty. pose proof CF as [Cy _ _ _ _ _ _].
  destruct ph.
  - (* no firing yet *)
    destruct HI as [HR E]. revert Ht H32 E. destruct HR as [nw td ou H1 H2 H3]. intros Ht H32 E.
    cbn [a_tdue a_now a_ton] in *. subst td. unfold timely in Ht. cbn [a_tdue a_now a_ton] in Ht.
    destruct a; try discriminate.
    + exists Unfired. unfold aact. gv. destruct (nw <=? t) eqn:E; [apply Z.leb_le in E; unfold set_now_v; gv|];
        (split; [split; [constructor; try assumption; lia|reflexivity]|repeat split; intros; congruence]).
    + destruct (Tr + CYCLE_US <=? nw) eqn:E.
      * apply Z.leb_le in E. specialize (Ht eq_refl).
        assert (Hq : nw - Tr < MULTICLICK_US) by lia.
        exists Fired. split; [|repeat split; intros; try congruence; discriminate].
        destruct (M <=? k) eqn:EM.
        -- apply Z.leb_le in EM. rewrite ev_tim_rel_ovf by (try assumption; lia).
           exists nw. unfold k1. replace (M <=? k) with true by (symmetry; apply Z.leb_le; exact EM).
           split; [constructor; try assumption; [|rewrite filter_app; cbn [filter isloc]; unfold trig_out; ifs; cbn; assumption]|cbn; lia].
           rewrite filter_app. unfold xt. rewrite H2. reflexivity.
        -- apply Z.leb_gt in EM. rewrite ev_tim_rel_noop by (try assumption; lia).
           exists nw. unfold k1. replace (M <=? k) with false by (symmetry; apply Z.leb_gt; exact EM).
           split; [constructor; assumption|cbn; lia].
      * rewrite ev_tim_idle by (rewrite E; reflexivity). exists Unfired.
        split; [split; [constructor; assumption|reflexivity]|repeat split; intros; congruence].
    + exists Unfired. unfold aact, motV, arelc. gv. rewrite Tm, andb_false_r.
      split; [split; [constructor; assumption|reflexivity]|repeat split; intros; congruence].
    + destruct (idle_out o ou Hi) as [E1 E2]. exists Unfired. unfold aact, aemit. gv.
      split; [split; [constructor; congruence|reflexivity]|repeat split; intros; congruence].
    + exists Unfired. unfold aact. gv. split; [split; [constructor; assumption|reflexivity]|repeat split; intros; congruence].
  - (* fired, not yet timed out *)
    destruct HI as (t0 & HR & E). revert Ht H32 E. destruct HR as [nw td ou H1 H2 H3]. intros Ht H32 E.
    cbn [a_tdue a_now a_ton] in *.
    set (F1 := (if M <=? k then xt t0 k else []) ++ F) in *.
    assert (K1 : k1 k < M) by (unfold k1; destruct (M <=? k) eqn:EM; [lia|apply Z.leb_gt in EM; lia]).
    destruct a; try discriminate.
    + exists Fired. unfold aact. gv. destruct (nw <=? t) eqn:E0; [apply Z.leb_le in E0; unfold set_now_v; gv|];
        (split; [exists t0; split; [constructor; try assumption; lia|cbn; lia]|repeat split; intros; try congruence; discriminate]).
    + destruct (td <=? nw) eqn:E0.
      * apply Z.leb_le in E0. destruct (MULTICLICK_US <=? nw - Tr) eqn:EQ.
        -- (* the time-out *)
           apply Z.leb_le in EQ. exists Final. split; [|repeat split; intros; try congruence; try discriminate; right; cbn; lia].
           unfold k1 in *. destruct (M <=? k) eqn:EM.
           ++ exists t0. rewrite EM. rewrite ev_tim_final_ovf by (try assumption; lia). constructor; assumption.
           ++ exists nw. rewrite EM. apply Z.leb_gt in EM. destruct Hk as [-> | Hk].
              ** kc. cbv iota. rewrite ev_tim_final_ovf by (try assumption; lia). constructor; assumption.
              ** replace (k =? -1) with false by (symmetry; apply Z.eqb_neq; lia).
                 destruct ((k =? 1) && negb (g =? NOREL)) eqn:EL.
                 --- apply andb_prop in EL as [EL1 EL2]. apply Z.eqb_eq in EL1. subst k. apply negb_true_iff in EL2. apply Z.eqb_neq in EL2.
                     rewrite ev_tim_final_local by (try assumption; lia). cbv zeta.
                     destruct ((if rl =? 1 then 0 else 1) =? rl); constructor; cbn [filter famo isloc]; congruence.
                 --- rewrite ev_tim_final_trig; try assumption; try lia.
                     2:{ apply andb_false_iff in EL as [EL|EL]; [left; apply Z.eqb_neq; exact EL|right; apply negb_false_iff in EL; apply Z.eqb_eq; exact EL]. }
                     constructor; [|rewrite filter_app; unfold trig_out; ifs; cbn; assumption].
                     rewrite filter_app. unfold xt. unfold F1 in H2. cbn [app] in H2. rewrite H2. reflexivity.
        -- apply Z.leb_gt in EQ. exists Fired. split; [|repeat split; intros; try congruence; discriminate].
           rewrite ev_tim_rel_noop by (try assumption; lia). exists t0. split; [constructor; assumption|cbn; lia].
      * rewrite ev_tim_idle by (rewrite E0; reflexivity). exists Fired.
        split; [exists t0; split; [constructor; assumption|exact E]|repeat split; intros; try congruence; discriminate].
    + exists Fired. unfold aact, motV, arelc. gv. rewrite Tm, andb_false_r.
      split; [exists t0; split; [constructor; assumption|exact E]|repeat split; intros; try congruence; discriminate].
    + destruct (idle_out o ou Hi) as [E1 E2]. exists Fired. unfold aact, aemit. gv.
      split; [exists t0; split; [constructor; congruence|exact E]|repeat split; intros; try congruence; discriminate].
    + exists Fired. unfold aact. gv.
      split; [exists t0; split; [constructor; assumption|exact E]|repeat split; intros; try congruence; discriminate].
  - (* at rest again *)
    destruct HI as (t0 & HZ). exists Final. split; [|repeat split; intros; try congruence; auto].
    exists t0. destruct (M <=? k); [apply Z_step; assumption|].
    destruct (k =? -1); [apply Z_step; assumption|]. destruct (_ && _); apply Z_step; assumption.
Qed.
End Gest.
End Mono.
