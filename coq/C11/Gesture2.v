(* C11 — action-trigger mode, remaining configurations of the button machine (Machine.v, input is not the
   configuration button): bistable inputs, highest multiplicity <= 1, motion sensors.  Same method as Gesture.v. *)
From Coq Require Import List ZArith Bool Lia.
Import ListNotations.
From V Require Import Base.U32 Base.Iface Gen.InputConsts C11.Model C11.Proofs C11.Machine C11.Gesture.
Local Open Scope Z_scope.

(* ---------- the timer callback while the multi-click time-out is armed: monostable released (la = INACTIVE) or
   bistable in either position ---------- *)
Section Tmo.
Variable c : cfgT.
Variable la : Z.
Hypothesis Tm : is_motion c = false.
Hypothesis Hfb : is_mono c && (la =? ST_ACTIVE) = false.
Hypothesis Hla : (la =? ST_INACTIVE) || is_bi c = true.

Ltac pre Hd HT :=
  unfold aact; gv; replace (_ <=? _) with true by (symmetry; apply Z.leb_le; exact Hd); cbv zeta iota; gv;
  unfold set_tdue_v; gv; unfold advT; cbv zeta; gv; unfold anow32; gv; rewrite u32_diff_shift by exact HT;
  rewrite Hfb; cbn [andb]; cbv iota; gv; rewrite Hla, Tm; cbn [orb]; cbv iota; gv.

Lemma g_tim_noop nw k mx A g T td rl ou :
  td <= nw -> 0 <= nw - T < TWO32 -> nw - T < MULTICLICK_US -> k < mx ->
  aact c ATim (mkmv nw la k mx A g (u32 (boot c + T)) false true td true rl false ou) =
  mkmv nw la k mx A g (u32 (boot c + T)) false true (td + CYCLE_US) true rl false ou.
Proof.
  intros Hd HT Hm Hk. pre Hd HT.
  replace (MULTICLICK_US <=? nw - T) with false by (symmetry; apply Z.leb_gt; exact Hm).
  replace (mx <=? k) with false by (symmetry; apply Z.leb_gt; exact Hk). reflexivity.
Qed.

Lemma g_tim_ovf nw k mx A g T td rl ou :
  td <= nw -> 0 <= nw - T < TWO32 -> nw - T < MULTICLICK_US -> mx <= k -> 2 <= mx ->
  aact c ATim (mkmv nw la k mx A g (u32 (boot c + T)) false true td true rl false ou) =
  mkmv nw la (-1) mx A g (u32 (boot c + T)) false true (td + CYCLE_US) true rl false
       (trig_out c A nw (click_action c k) ++ ou).
Proof.
  intros Hd HT Hm Hk H2. pre Hd HT.
  replace (MULTICLICK_US <=? nw - T) with false by (symmetry; apply Z.leb_gt; exact Hm).
  replace (mx <=? k) with true by (symmetry; apply Z.leb_le; exact Hk). cbv iota.
  unfold strig. kc. cbv iota. gv.
  replace (k =? -1) with false by (symmetry; apply Z.eqb_neq; lia).
  replace (k =? 1) with false by (symmetry; apply Z.eqb_neq; lia). cbn [andb]. cbv iota.
  rewrite etrig_eq. unfold set_cc_v. gv.
  replace (mx <=? 1) with false by (symmetry; apply Z.leb_gt; lia). reflexivity.
Qed.

Lemma g_tim_final_ovf nw mx A g T td rl ou :
  td <= nw -> 0 <= nw - T < TWO32 -> MULTICLICK_US <= nw - T ->
  aact c ATim (mkmv nw la (-1) mx A g (u32 (boot c + T)) false true td true rl false ou) =
  mkmv nw la 0 mx A g (u32 (boot c + T)) false false (td + CYCLE_US) true rl false ou.
Proof.
  intros Hd HT Hm. pre Hd HT.
  replace (MULTICLICK_US <=? nw - T) with true by (symmetry; apply Z.leb_le; exact Hm). cbv iota.
  unfold set_ton_v. gv. unfold strig. kc. cbv iota. gv. kc. cbv iota. unfold set_cc_v. gv. reflexivity.
Qed.

Lemma g_tim_final_trig nw k mx A g T td rl ou :
  td <= nw -> 0 <= nw - T < TWO32 -> MULTICLICK_US <= nw - T -> k <> -1 -> (k <> 1 \/ g = NOREL) ->
  aact c ATim (mkmv nw la k mx A g (u32 (boot c + T)) false true td true rl false ou) =
  mkmv nw la 0 mx A g (u32 (boot c + T)) false false (td + CYCLE_US) true rl false
       (trig_out c A nw (click_action c k) ++ ou).
Proof.
  intros Hd HT Hm Hk Hl. pre Hd HT.
  replace (MULTICLICK_US <=? nw - T) with true by (symmetry; apply Z.leb_le; exact Hm). cbv iota.
  unfold set_ton_v. gv. unfold strig. kc. cbv iota. gv.
  replace (k =? -1) with false by (symmetry; apply Z.eqb_neq; exact Hk). cbv iota.
  assert (E : (k =? 1) && arelc (mkmv nw la k mx A g (u32 (boot c + T)) false false (td + CYCLE_US) true rl false ou) = false).
  { destruct Hl as [Hl| ->]; [replace (k =? 1) with false by (symmetry; apply Z.eqb_neq; exact Hl); reflexivity|].
    unfold arelc. gv. kc. apply andb_false_r. }
  rewrite E. rewrite etrig_eq. unfold set_cc_v. gv. reflexivity.
Qed.

Lemma g_tim_final_local nw mx A g T td rl ou :
  td <= nw -> 0 <= nw - T < TWO32 -> MULTICLICK_US <= nw - T -> A <> 0 -> g <> NOREL ->
  let h := if rl =? 1 then 0 else 1 in
  let t1 := nw + RELAY_D1 in let t2 := t1 + RELAY_DOUBLE_TRY_US + RELAY_D2 in
  aact c ATim (mkmv nw la 1 mx A g (u32 (boot c + T)) false true td true rl false ou) =
  mkmv t2 la 0 mx A g (u32 (boot c + T)) false false (td + CYCLE_US) true h false
       (OValue t2 RELAY_CH h :: (if h =? rl then OActive nw :: ou else OGpio t1 h :: OActive nw :: ou)).
Proof.
  intros Hd HT Hm HA Hg. cbv zeta. pre Hd HT.
  replace (MULTICLICK_US <=? nw - T) with true by (symmetry; apply Z.leb_le; exact Hm). cbv iota.
  unfold set_ton_v. gv. unfold strig. kc. cbv iota. gv. kc. cbv iota.
  unfold arelc. gv. replace (g =? NOREL) with false by (symmetry; apply Z.eqb_neq; exact Hg). gv. rewrite Tm.
  unfold onA. cbv zeta. unfold aemit, arelc. gv.
  replace (A =? 0) with false by (symmetry; apply Z.eqb_neq; exact HA).
  replace (g =? NOREL) with false by (symmetry; apply Z.eqb_neq; exact Hg). rewrite Tm, orb_true_r. gv.
  unfold sw. cbv zeta. gv. kc. cbv iota. unfold set_cc_v. gv. reflexivity.
Qed.

(* highest multiplicity <= 1: the first firing after the click reports it at once and the machine is at rest *)
Lemma g_tim_imm_trig nw k mx A g T td rl ou :
  td <= nw -> 0 <= nw - T < TWO32 -> nw - T < MULTICLICK_US -> mx <= k -> mx <= 1 -> k <> -1 -> (k <> 1 \/ g = NOREL) ->
  aact c ATim (mkmv nw la k mx A g (u32 (boot c + T)) false true td true rl false ou) =
  mkmv nw la 0 mx A g (u32 (boot c + T)) false false (td + CYCLE_US) true rl false
       (trig_out c A nw (click_action c k) ++ ou).
Proof.
  intros Hd HT Hm Hk H1 Hk1 Hl. pre Hd HT.
  replace (MULTICLICK_US <=? nw - T) with false by (symmetry; apply Z.leb_gt; exact Hm).
  replace (mx <=? k) with true by (symmetry; apply Z.leb_le; exact Hk). cbv iota.
  unfold strig. kc. cbv iota. gv.
  replace (k =? -1) with false by (symmetry; apply Z.eqb_neq; exact Hk1). cbv iota.
  assert (E : (k =? 1) && arelc (mkmv nw la k mx A g (u32 (boot c + T)) false true (td + CYCLE_US) true rl false ou) = false).
  { destruct Hl as [Hl| ->]; [replace (k =? 1) with false by (symmetry; apply Z.eqb_neq; exact Hl); reflexivity|].
    unfold arelc. gv. kc. apply andb_false_r. }
  rewrite E. rewrite etrig_eq. unfold set_cc_v. gv.
  replace (mx <=? 1) with true by (symmetry; apply Z.leb_le; exact H1). cbv iota. unfold set_ton_v. gv. reflexivity.
Qed.
Lemma g_tim_imm_local nw mx A g T td rl ou :
  td <= nw -> 0 <= nw - T < TWO32 -> nw - T < MULTICLICK_US -> mx <= 1 -> A <> 0 -> g <> NOREL ->
  let h := if rl =? 1 then 0 else 1 in
  let t1 := nw + RELAY_D1 in let t2 := t1 + RELAY_DOUBLE_TRY_US + RELAY_D2 in
  aact c ATim (mkmv nw la 1 mx A g (u32 (boot c + T)) false true td true rl false ou) =
  mkmv t2 la 0 mx A g (u32 (boot c + T)) false false (td + CYCLE_US) true h false
       (OValue t2 RELAY_CH h :: (if h =? rl then OActive nw :: ou else OGpio t1 h :: OActive nw :: ou)).
Proof.
  intros Hd HT Hm H1 HA Hg. cbv zeta. pre Hd HT.
  replace (MULTICLICK_US <=? nw - T) with false by (symmetry; apply Z.leb_gt; exact Hm).
  replace (mx <=? 1) with true by (symmetry; apply Z.leb_le; exact H1). cbv iota.
  unfold strig. kc. cbv iota. gv. kc. cbv iota.
  unfold arelc. gv. replace (g =? NOREL) with false by (symmetry; apply Z.eqb_neq; exact Hg). gv. rewrite Tm.
  unfold onA. cbv zeta. unfold aemit, arelc. gv.
  replace (A =? 0) with false by (symmetry; apply Z.eqb_neq; exact HA).
  replace (g =? NOREL) with false by (symmetry; apply Z.eqb_neq; exact Hg). rewrite Tm, orb_true_r. gv.
  unfold sw. cbv zeta. gv. kc. cbv iota. unfold set_cc_v. gv.
  replace (mx <=? 1) with true by (symmetry; apply Z.leb_le; exact H1). cbv iota. unfold set_ton_v. gv. reflexivity.
Qed.
End Tmo.

(* ---------- the time-out phase, generic in the position `la` the input rests in ---------- *)
Section TmoRun.
Variable c : cfgT.
Variable la : Z.
Hypothesis Tm : is_motion c = false.
Hypothesis Hfb : is_mono c && (la =? ST_ACTIVE) = false.
Hypothesis Hla : (la =? ST_INACTIVE) || is_bi c = true.
Variables A M g rl J : Z.
Hypothesis HA : A <> 0.
Hypothesis HM : 2 <= M.
Hypothesis HJ : 0 <= J.
Hypothesis HJM : CYCLE_US + J < MULTICLICK_US.

Inductive GRSt (Tr k : Z) (F L : list out) : mv -> Prop :=
| GRSt_i nw td ou : Tr <= nw -> filter famo ou = F -> filter isloc ou = L ->
    GRSt Tr k F L (mkmv nw la k M A g (u32 (boot c + Tr)) false true td true rl false ou).
Inductive GZSt (F L : list out) : mv -> Prop :=
| GZSt_i nw ls td ta rl' ou : filter famo ou = F -> filter isloc ou = L ->
    GZSt F L (mkmv nw la 0 M A g ls false false td ta rl' false ou).
Definition GRInv (Tr k : Z) (F L : list out) (ph : rph) (v : mv) : Prop :=
  match ph with
  | Unfired => GRSt Tr k F L v /\ a_tdue v = Tr + CYCLE_US
  | Fired => exists t, GRSt Tr (k1 M k) ((if M <=? k then xt c A t k else []) ++ F) L v /\ a_tdue v < Tr + MULTICLICK_US + CYCLE_US
  | Final => exists t,
      if M <=? k then GZSt (xt c A t k ++ F) L v
      else if k =? -1 then GZSt F L v
      else if (k =? 1) && negb (g =? NOREL) then GZSt F (OActive t :: L) v
      else GZSt (xt c A t k ++ F) L v
  end.

Lemma GZ_step F L v a : GZSt F L v -> idle a = true -> GZSt F L (aact c a v).
Proof.
  intros [nw ls td ta rl' ou H2 H3] Hi. destruct a; try discriminate.
  - unfold aact. gv. destruct (nw <=? t); [unfold set_now_v; gv|]; constructor; assumption.
  - rewrite ev_tim_idle by reflexivity. constructor; assumption.
  - unfold aact, motV. gv. rewrite Tm, andb_false_r. constructor; assumption.
  - destruct (idle_out o ou Hi) as [E1 E2]. unfold aact, aemit. gv. constructor; congruence.
  - unfold aact. gv. constructor; assumption.
Qed.

Lemma GR_step Tr k F L ph v a :
  k = -1 \/ 0 <= k <= 100 ->
  GRInv Tr k F L ph v -> idle a = true -> timely J v -> a_now v - Tr < TWO32 ->
  exists ph', GRInv Tr k F L ph' (aact c a v) /\
    (ph' = Final -> ph = Final \/ MULTICLICK_US <= a_now v - Tr) /\ (ph' = Unfired -> ph = Unfired) /\
    (ph = Final -> ph' = Final) /\ (ph = Fired -> ph' <> Unfired).
Proof.
  intros Hk HI Hi Ht H32. pose proof CF as [Cy _ _ _ _ _ _].
  destruct ph.
  - (* no firing yet *)
    destruct HI as [HR E]. revert Ht H32 E. destruct HR as [nw td ou H1 H2 H3]. intros Ht H32 E.
    cbn [a_tdue a_now a_ton] in *. subst td. unfold timely in Ht. cbn [a_tdue a_now a_ton] in Ht.
    destruct a; try discriminate.
    + exists Unfired. unfold aact. gv. destruct (nw <=? t) eqn:E; [apply Z.leb_le in E; unfold set_now_v; gv|];
        (split; [split; [constructor; try assumption; lia|reflexivity]|repeat split; intros; congruence]).
    + destruct (Tr + CYCLE_US <=? nw) eqn:E.
      * apply Z.leb_le in E. specialize (Ht eq_refl).
        assert (Hq : nw - Tr < MULTICLICK_US) by lia.
        exists Fired. split; [|repeat split; intros; try congruence; discriminate].
        destruct (M <=? k) eqn:EM.
        -- apply Z.leb_le in EM. rewrite (g_tim_ovf c la Tm Hfb Hla) by (try assumption; lia).
           exists nw. unfold k1. replace (M <=? k) with true by (symmetry; apply Z.leb_le; exact EM).
           split; [constructor; try assumption; [|rewrite filter_app; cbn [filter isloc]; unfold trig_out; ifs; cbn; assumption]|cbn; lia].
           rewrite filter_app. unfold xt. rewrite H2. reflexivity.
        -- apply Z.leb_gt in EM. rewrite (g_tim_noop c la Tm Hfb Hla) by (try assumption; lia).
           exists nw. unfold k1. replace (M <=? k) with false by (symmetry; apply Z.leb_gt; exact EM).
           split; [constructor; assumption|cbn; lia].
      * rewrite ev_tim_idle by (rewrite E; reflexivity). exists Unfired.
        split; [split; [constructor; assumption|reflexivity]|repeat split; intros; congruence].
    + exists Unfired. unfold aact, motV, arelc. gv. rewrite Tm, andb_false_r.
      split; [split; [constructor; assumption|reflexivity]|repeat split; intros; congruence].
    + destruct (idle_out o ou Hi) as [E1 E2]. exists Unfired. unfold aact, aemit. gv.
      split; [split; [constructor; [assumption|congruence|congruence]|reflexivity]|repeat split; intros; congruence].
    + exists Unfired. unfold aact. gv. split; [split; [constructor; assumption|reflexivity]|repeat split; intros; congruence].
  - (* fired, not yet timed out *)
    destruct HI as (t0 & HR & E). revert Ht H32 E. destruct HR as [nw td ou H1 H2 H3]. intros Ht H32 E.
    cbn [a_tdue a_now a_ton] in *.
    assert (K1 : k1 M k < M) by (unfold k1; destruct (M <=? k) eqn:EM; [lia|apply Z.leb_gt in EM; lia]).
    destruct a; try discriminate.
    + exists Fired. unfold aact. gv. destruct (nw <=? t) eqn:E0; [apply Z.leb_le in E0; unfold set_now_v; gv|];
        (split; [exists t0; split; [constructor; try assumption; lia|cbn; lia]|repeat split; intros; try congruence; discriminate]).
    + destruct (td <=? nw) eqn:E0.
      * apply Z.leb_le in E0. destruct (MULTICLICK_US <=? nw - Tr) eqn:EQ.
        -- (* the time-out *)
           apply Z.leb_le in EQ. exists Final. split; [|repeat split; intros; try congruence; try discriminate; right; cbn; lia].
           unfold k1 in *. destruct (M <=? k) eqn:EM.
           ++ exists t0. rewrite EM. rewrite (g_tim_final_ovf c la Tm Hfb Hla) by (try assumption; lia). constructor; assumption.
           ++ exists nw. rewrite EM. apply Z.leb_gt in EM. cbn [app] in H2. destruct Hk as [-> | Hk].
              ** kc. cbv iota. rewrite (g_tim_final_ovf c la Tm Hfb Hla) by (try assumption; lia). constructor; assumption.
              ** replace (k =? -1) with false by (symmetry; apply Z.eqb_neq; lia).
                 destruct ((k =? 1) && negb (g =? NOREL)) eqn:EL.
                 --- apply andb_prop in EL as [EL1 EL2]. apply Z.eqb_eq in EL1. subst k. apply negb_true_iff in EL2. apply Z.eqb_neq in EL2.
                     rewrite (g_tim_final_local c la Tm Hfb Hla) by (try assumption; lia). cbv zeta.
                     destruct ((if rl =? 1 then 0 else 1) =? rl); constructor; cbn [filter famo isloc]; congruence.
                 --- assert (HL : k <> 1 \/ g = NOREL).
                     { apply andb_false_iff in EL as [EL|EL]; [left; apply Z.eqb_neq; exact EL|right; apply negb_false_iff in EL; apply Z.eqb_eq; exact EL]. }
                     rewrite (g_tim_final_trig c la Tm Hfb Hla) by (try assumption; lia).
                     constructor; [|rewrite filter_app; unfold trig_out; ifs; cbn; assumption].
                     rewrite filter_app. unfold xt. rewrite H2. reflexivity.
        -- apply Z.leb_gt in EQ. exists Fired. split; [|repeat split; intros; try congruence; discriminate].
           rewrite (g_tim_noop c la Tm Hfb Hla) by (try assumption; lia). exists t0. split; [constructor; assumption|cbn; lia].
      * rewrite ev_tim_idle by (rewrite E0; reflexivity). exists Fired.
        split; [exists t0; split; [constructor; assumption|exact E]|repeat split; intros; try congruence; discriminate].
    + exists Fired. unfold aact, motV, arelc. gv. rewrite Tm, andb_false_r.
      split; [exists t0; split; [constructor; assumption|exact E]|repeat split; intros; try congruence; discriminate].
    + destruct (idle_out o ou Hi) as [E1 E2]. exists Fired. unfold aact, aemit. gv.
      split; [exists t0; split; [constructor; [assumption|congruence|congruence]|exact E]|repeat split; intros; try congruence; discriminate].
    + exists Fired. unfold aact. gv.
      split; [exists t0; split; [constructor; assumption|exact E]|repeat split; intros; try congruence; discriminate].
  - (* at rest again *)
    destruct HI as (t0 & HZ). exists Final. split; [|repeat split; intros; try congruence; auto].
    exists t0. destruct (M <=? k); [apply GZ_step; assumption|].
    destruct (k =? -1); [apply GZ_step; assumption|]. destruct ((k =? 1) && negb (g =? NOREL)); apply GZ_step; assumption.
Qed.

Lemma GR_run Tr k F L l : forall ph v,
  k = -1 \/ 0 <= k <= 100 -> GRInv Tr k F L ph v -> all_idle l -> timely_run c J l v -> a_now (arun c l v) - Tr < TWO32 ->
  exists ph', GRInv Tr k F L ph' (arun c l v) /\
    (ph' = Final -> ph = Final \/ MULTICLICK_US <= a_now (arun c l v) - Tr) /\ (ph' = Unfired -> ph = Unfired) /\
    (ph = Final -> ph' = Final) /\ (ph = Fired -> ph' <> Unfired).
Proof.
  induction l as [|a l IH]; intros ph v Hk HI Hi Ht H32.
  - exists ph. split; [exact HI|]. repeat split; intros; auto. congruence.
  - unfold all_idle in Hi. cbn in Hi. apply andb_prop in Hi as [Hi1 Hi2]. destruct Ht as [Ht1 Ht2].
    change (arun c (a :: l) v) with (arun c l (aact c a v)) in *.
    pose proof (now_arun c l (aact c a v)) as N1. pose proof (now_aact c a v) as N2.
    destruct (GR_step Tr k F L ph v a Hk HI Hi1 Ht1 ltac:(lia)) as (ph1 & I1 & a1 & a2 & a3 & a4).
    destruct (IH ph1 (aact c a v) Hk I1 Hi2 Ht2 H32) as (ph2 & I2 & b1 & b2 & b3 & b4).
    exists ph2. split; [exact I2|]. repeat split.
    + intros E. destruct (b1 E) as [E1|E1]; [destruct (a1 E1) as [E2|E2]; [left; exact E2|right; lia]|right; exact E1].
    + intros E. apply a2, b2, E.
    + intros E. apply b3, a3, E.
    + intros E E2. destruct ph1; [exact (a4 E eq_refl)|exact (b4 eq_refl E2)|]. specialize (b3 eq_refl). congruence.
Qed.

Lemma GR_live Tr k F L ph v : GRInv Tr k F L ph v -> timely J v ->
  match ph with Unfired => a_now v <= Tr + CYCLE_US + J | Fired => a_now v < Tr + MULTICLICK_US + CYCLE_US + J | Final => True end.
Proof.
  intros HI Ht. destruct ph; [| |exact I].
  - destruct HI as [HR E]. revert Ht E. destruct HR as [nw td ou H1 H2 H3]. unfold timely. cbn [a_ton a_now a_tdue]. intros Ht E.
    specialize (Ht eq_refl). lia.
  - destruct HI as (t0 & HR & E). revert Ht E. destruct HR as [nw td ou H1 H2 H3]. unfold timely. cbn [a_ton a_now a_tdue]. intros Ht E.
    specialize (Ht eq_refl). lia.
Qed.

End TmoRun.

(* ====================== bistable inputs ====================== *)
Section Bi.
Variable c : cfgT.
Hypothesis Hbi : is_bi c = true.

Lemma bi_types : is_mono c = false /\ is_motion c = false /\ is_sensor c = false.
Proof.
  unfold is_mono, is_bi, is_motion, is_sensor in *. apply Z.eqb_eq in Hbi. rewrite Hbi. repeat split; reflexivity.
Qed.
Definition opp (st_ : Z) : Z := if st_ =? ST_ACTIVE then ST_INACTIVE else ST_ACTIVE.
(* TURN_ON / TURN_OFF accompany every recognised change of a bistable input (they are not click-count triggers) *)
Definition onoff (st_ k A nw : Z) : list out :=
  if st_ =? ST_ACTIVE then (if k =? -1 then [] else trig_out c A nw CAP_TURN_ON) else trig_out c A nw CAP_TURN_OFF.
Lemma fam_onoff st_ k A nw : filter famo (onoff st_ k A nw) = [] /\ filter isloc (onoff st_ k A nw) = [].
Proof. unfold onoff, trig_out. repeat match goal with |- context[if ?b then _ else _] => destruct b end; split; reflexivity. Qed.

Lemma ev_flip st_ nw la k mx A g ls si tn td ta rl ou :
  A <> 0 -> -1 <= k <= 100 -> (st_ = ST_ACTIVE \/ st_ = ST_INACTIVE) -> la <> st_ ->
  (on_toggle_en c = false \/ k + 1 < CFG_PRESS_COUNT) ->            (* not the flip that enters configuration mode *)
  asilent_ret c (mkmv nw la k mx A g ls si tn td ta rl false ou) = false ->
  aact c (ANotify st_) (mkmv nw la k mx A g ls si tn td ta rl false ou) =
  mkmv nw st_ (if k =? -1 then -1 else k + 1) mx A g (u32 (boot c + nw)) false true (nw + CYCLE_US) true rl false
       (onoff st_ k A nw ++ ONotify nw st_ la k :: ou).
Proof.
  intros HA Hk Hst Hne Htg Hsil. destruct bi_types as (Tmo & Tm & Ts).
  assert (ET : on_toggle_en c && (CFG_PRESS_COUNT <=? k + 1) = false).
  { destruct Htg as [-> | Htg]; [reflexivity|]. replace (CFG_PRESS_COUNT <=? k + 1) with false by (symmetry; apply Z.leb_gt; exact Htg). apply andb_false_r. }
  unfold aact. gv. unfold notifyV. cbv zeta.
  change (asilent_ret c (aemit _ _)) with (asilent_ret c (mkmv nw la k mx A g ls si tn td ta rl false ou)).
  rewrite Hsil. gv. replace (la =? st_) with false by (symmetry; apply Z.eqb_neq; exact Hne).
  replace (A =? 0) with false by (symmetry; apply Z.eqb_neq; exact HA). gv.
  unfold advH. cbv zeta. unfold set_ton_v. gv. unfold counts_click. rewrite Hbi, Tm, Tmo. cbn [andb orb]. unfold onoff.
  destruct (k =? -1) eqn:Ek; gv.
  - apply Z.eqb_eq in Ek. subst k.
    destruct Hst as [-> | ->]; kc; cbv iota; gv.
    + unfold arm_v, anow32. gv. reflexivity.
    + rewrite etrig_eq. unfold arm_v, anow32. gv. reflexivity.
  - apply Z.eqb_neq in Ek. rewrite s8_small by lia. unfold set_cc_v. gv.
    destruct Hst as [-> | ->]; kc; cbv iota; gv.
    + rewrite etrig_eq. gv. rewrite ET. gv. unfold arm_v, anow32. gv. reflexivity.
    + rewrite ET. gv. rewrite etrig_eq. unfold arm_v, anow32. gv. reflexivity.
Qed.
End Bi.

Section BiGest.
Variable c : cfgT.
Hypothesis Hbi : is_bi c = true.
Variables A M g rl J : Z.
Hypothesis HA : A <> 0.
Hypothesis HM : 2 <= M.
Hypothesis HJM : CYCLE_US + J < MULTICLICK_US.

Lemma bi_Tm : is_motion c = false. Proof. exact (proj1 (proj2 (bi_types c Hbi))). Qed.
Lemma bi_fb la : is_mono c && (la =? ST_ACTIVE) = false.
Proof. rewrite (proj1 (bi_types c Hbi)). reflexivity. Qed.
Lemma bi_la la : (la =? ST_INACTIVE) || is_bi c = true.
Proof. rewrite Hbi. apply orb_true_r. Qed.
Lemma opp_cases la : la = ST_ACTIVE \/ la = ST_INACTIVE -> (opp la = ST_ACTIVE \/ opp la = ST_INACTIVE) /\ la <> opp la.
Proof. intros [-> | ->]; unfold opp; kc; cbv iota; split; auto; discriminate. Qed.

(* the trace of a gesture: the input flips, idle steps, flips back, ... *)
Fixpoint btrace (st_ : Z) (fl : list (list astep)) : list astep :=
  match fl with [] => [] | i :: r => ANotify st_ :: i ++ btrace (opp st_) r end.
Fixpoint bok (v : mv) (st_ : Z) (fl : list (list astep)) : Prop :=
  match fl with
  | [] => True
  | i :: r =>
    let v2 := arun c i (aact c (ANotify st_) v) in
    all_idle i /\
    (r <> [] -> CYCLE_US + J < a_now v2 - a_now v < MULTICLICK_US) /\
    (r = [] -> MULTICLICK_US + CYCLE_US + J <= a_now v2 - a_now v) /\
    bok v2 (opp st_) r
  end.
Fixpoint lastpos (la : Z) (fl : list (list astep)) : Z :=
  match fl with [] => la | _ :: r => lastpos (opp la) r end.
Definition bverdict (N la : Z) (F0 L0 : list out) (v : mv) : Prop :=
  exists t,
    if M <=? N then GZSt la A M g (xt c A t M ++ F0) L0 v
    else if (N =? 1) && negb (g =? NOREL) then GZSt la A M g F0 (OActive t :: L0) v
    else GZSt la A M g (xt c A t N ++ F0) L0 v.

Lemma do_flip la Tr k F L v : la = ST_ACTIVE \/ la = ST_INACTIVE -> -1 <= k <= 99 ->
  (on_toggle_en c = false \/ k + 1 < CFG_PRESS_COUNT) ->
  GRSt c la A M g rl Tr k F L v ->
  GRInv c (opp la) A M g rl (a_now v) (if k =? -1 then -1 else k + 1) F L Unfired (aact c (ANotify (opp la)) v).
Proof.
  intros Hla Hk Htg [nw td ou H1 H2 H3]. destruct (opp_cases la Hla) as [Ho Hne]. cbn [a_now].
  rewrite (ev_flip c Hbi) by (try assumption; try reflexivity; lia).
  destruct (fam_onoff c (opp la) k A nw) as [E1 E2].
  split; [|reflexivity]. constructor; [lia| |]; rewrite filter_app; cbn [filter famo isloc]; rewrite ?E1, ?E2; assumption.
Qed.

Lemma flips_from_U r : forall n la Tr k F F0 L0 v i,
  0 <= n -> n + Z.of_nat (length r) < 99 -> (la = ST_ACTIVE \/ la = ST_INACTIVE) ->
  GRInv c la A M g rl Tr k F L0 Unfired v ->
  ((n + 1 < M \/ n + 1 = M) /\ k = n + 1 /\ F = F0 \/ M <= n /\ k = -1 /\ exists t, F = xt c A t M ++ F0) ->
  all_idle i ->
  (on_toggle_en c = false \/ n + 1 + Z.of_nat (length r) < CFG_PRESS_COUNT) ->
  let v2 := arun c i v in
  (r <> [] -> CYCLE_US + J < a_now v2 - Tr < MULTICLICK_US) ->
  (r = [] -> MULTICLICK_US + CYCLE_US + J <= a_now v2 - Tr) ->
  bok v2 (opp la) r ->
  timely_run c J (i ++ btrace (opp la) r) v ->
  a_now (arun c (btrace (opp la) r) v2) - Tr < TWO32 ->
  bverdict (n + 1 + Z.of_nat (length r)) (lastpos la r) F0 L0 (arun c (btrace (opp la) r) v2).
Proof.
  induction r as [|j r IH]; intros n la Tr k F F0 L0 v i Hn Hlen Hla HI0 Hst Hi Htg v2 Hq Hs Hb Ht H32.
  - clear Hq. specialize (Hs eq_refl). cbn [btrace arun fold_left length Z.of_nat lastpos] in *. rewrite Z.add_0_r.
    rewrite app_nil_r in Ht.
    assert (Hk : k = -1 \/ 0 <= k <= 100) by (destruct Hst as [(_ & E & _)|(_ & E & _)]; lia).
    destruct (GR_run c la bi_Tm (bi_fb la) (bi_la la) A M g rl J HA HM HJM Tr k F L0 i Unfired v Hk HI0 Hi Ht ltac:(fold v2; lia))
      as (ph & HI & b1 & b2 & b3 & b4). fold v2 in HI, b1.
    pose proof (GR_live _ _ _ _ _ _ _ _ _ _ _ _ _ HI (timely_run_end _ _ _ _ Ht)) as LV. fold v2 in LV.
    assert (HT0 : Tr <= a_now v) by (destruct HI0 as [HR _]; destruct HR; cbn; lia).
    pose proof (now_arun c i v) as N0. fold v2 in N0.
    destruct ph; [lia|lia|]. clear LV.
    destruct HI as (t & HZ). unfold bverdict.
    destruct Hst as [(Hc & -> & ->)|(Hc & -> & (t1 & ->))].
    + destruct Hc as [Hc| Hc].
      * exists t. replace (M <=? n + 1) with false in * by (symmetry; apply Z.leb_gt; lia).
        replace (n + 1 =? -1) with false in HZ by (symmetry; apply Z.eqb_neq; lia). exact HZ.
      * exists t. replace (M <=? n + 1) with true in * by (symmetry; apply Z.leb_le; lia). rewrite Hc in HZ. exact HZ.
    + exists t1. replace (M <=? n + 1) with true by (symmetry; apply Z.leb_le; lia).
      replace (M <=? -1) with false in HZ by (symmetry; apply Z.leb_gt; lia). cbn [Z.eqb] in HZ. exact HZ.
  - clear Hs. specialize (Hq ltac:(discriminate)).
    destruct (timely_run_app c J i _ v Ht) as [TR Tg]. fold v2 in Tg.
    cbn [btrace lastpos] in *.
    change (arun c (ANotify (opp la) :: j ++ btrace (opp (opp la)) r) v2)
      with (arun c (j ++ btrace (opp (opp la)) r) (aact c (ANotify (opp la)) v2)) in *.
    rewrite arun_app in *.
    set (w := aact c (ANotify (opp la)) v2) in *. set (w2 := arun c j w) in *.
    assert (Hk : k = -1 \/ 0 <= k <= 100) by (destruct Hst as [(_ & E & _)|(_ & E & _)]; cbn [length] in Hlen; lia).
    assert (HT0 : Tr <= a_now v) by (destruct HI0 as [HR _]; destruct HR; cbn; lia).
    pose proof (now_arun c i v) as N0. fold v2 in N0.
    pose proof (now_aact c (ANotify (opp la)) v2) as N3. fold w in N3. pose proof (now_arun c j w) as N4. fold w2 in N4.
    pose proof (now_arun c (btrace (opp (opp la)) r) w2) as N7.
    destruct (GR_run c la bi_Tm (bi_fb la) (bi_la la) A M g rl J HA HM HJM Tr k F L0 i Unfired v Hk HI0 Hi TR ltac:(fold v2; lia))
      as (ph & HI & b1 & b2 & b3 & b4). fold v2 in HI, b1.
    pose proof (GR_live _ _ _ _ _ _ _ _ _ _ _ _ _ HI (timely_run_end _ _ _ _ TR)) as LV. fold v2 in LV.
    destruct ph; [lia| |destruct (b1 eq_refl) as [?|?]; [discriminate|lia]]. clear LV.
    destruct HI as (t & HRS & _).
    cbn [bok] in Hb. fold w w2 in Hb. destruct Hb as (g1 & g4 & g5 & g6).
    destruct Tg as [_ Tg]. fold w in Tg.
    replace (n + 1 + Z.of_nat (length (j :: r))) with ((n + 1) + 1 + Z.of_nat (length r)) by (cbn [length]; lia).
    destruct (opp_cases la Hla) as [Ho Hne].
    assert (HIw : GRInv c (opp la) A M g rl (a_now v2) (if k1 M k =? -1 then -1 else k1 M k + 1)
                        ((if M <=? k then xt c A t k else []) ++ F) L0 Unfired w).
    { eapply do_flip; [exact Hla| | |exact HRS]; [unfold k1; destruct (M <=? k); lia|].
      destruct Htg as [?|Htg]; [left; assumption|right]. cbn [length] in Htg. unfold k1.
      destruct Hst as [(_ & -> & _)|(_ & -> & _)]; destruct (M <=? _); lia. }
    eapply (IH (n + 1) (opp la) (a_now v2) _ _ F0 L0 w j); try eassumption; try lia.
    + cbn [length] in Hlen. lia.
    + unfold k1. destruct Hst as [(Hc & -> & ->)|(Hc & -> & (t1 & ->))].
      * destruct Hc as [Hc|Hc].
        -- replace (M <=? n + 1) with false by (symmetry; apply Z.leb_gt; lia).
           replace (n + 1 =? -1) with false by (symmetry; apply Z.eqb_neq; lia).
           left. split; [lia|]. split; reflexivity.
        -- replace (M <=? n + 1) with true by (symmetry; apply Z.leb_le; lia). cbn [Z.eqb].
           right. split; [lia|]. split; [reflexivity|]. exists t. rewrite Hc. reflexivity.
      * replace (M <=? -1) with false by (symmetry; apply Z.leb_gt; lia). cbn [Z.eqb].
        right. split; [lia|]. split; [reflexivity|]. exists t1. reflexivity.
    + destruct Htg as [?|Htg]; [left; assumption|right]. cbn [length] in Htg. lia.
    + fold w2. lia.
Qed.

(* N >= 1 quick flips of a bistable input from rest (in either position la0), then silence *)
Theorem bi_gesture_thm : forall i fl la0 nw ls si td ta ou,
  let v0 := mkmv nw la0 0 M A g ls si false td ta rl false ou in
  let tr := btrace (opp la0) (i :: fl) in
  (la0 = ST_ACTIVE \/ la0 = ST_INACTIVE) -> asilent_ret c v0 = false ->
  Z.of_nat (length (i :: fl)) < 99 ->
  bok v0 (opp la0) (i :: fl) -> timely_run c J tr v0 -> a_now (arun c tr v0) - nw < TWO32 ->
  (on_toggle_en c = false \/ Z.of_nat (length (i :: fl)) < CFG_PRESS_COUNT) ->   (* fewer flips than enter configuration mode *)
  bverdict (Z.of_nat (length (i :: fl))) (lastpos la0 (i :: fl)) (filter famo ou) (filter isloc ou) (arun c tr v0).
Proof.
  intros i fl la0 nw ls si td ta ou v0 tr Hla Hsil Hlen Hb Ht H32 Htg. subst tr. cbn [btrace lastpos] in *.
  change (arun c (ANotify (opp la0) :: i ++ btrace (opp (opp la0)) fl) v0)
    with (arun c (i ++ btrace (opp (opp la0)) fl) (aact c (ANotify (opp la0)) v0)) in *.
  rewrite arun_app in *.
  set (v := aact c (ANotify (opp la0)) v0) in *.
  cbn [bok] in Hb. fold v in Hb. destruct Hb as (g1 & g4 & g5 & g6).
  destruct Ht as [_ Ht]. fold v in Ht.
  destruct (opp_cases la0 Hla) as [Ho Hne].
  assert (HI0 : GRInv c (opp la0) A M g rl nw 1 (filter famo ou) (filter isloc ou) Unfired v).
  { subst v v0. rewrite (ev_flip c Hbi) by (try assumption; try lia; right; reflexivity). kc. cbv iota.
    destruct (fam_onoff c (opp la0) 0 A nw) as [E1 E2].
    split; [|reflexivity]. constructor; [lia| |]; rewrite filter_app; cbn [filter famo isloc]; rewrite ?E1, ?E2; reflexivity. }
  replace (Z.of_nat (length (i :: fl))) with (0 + 1 + Z.of_nat (length fl)) by (cbn [length]; lia).
  assert (Htg' : on_toggle_en c = false \/ 0 + 1 + Z.of_nat (length fl) < CFG_PRESS_COUNT)
    by (destruct Htg as [?|Htg]; [left; assumption|right; cbn [length] in Htg; lia]).
  eapply (flips_from_U fl 0 (opp la0) nw 1 _ _ _ v i); try eassumption; try lia.
  - cbn [length] in Hlen. lia.
  - left. split; [lia|]. split; reflexivity.
Qed.
End BiGest.

(* ====================== highest enabled multiplicity <= 1 ======================
   supla_esp_input_advanced_timer_cb: "Special handling of situation where max configured click count is 0 or 1.
   In such case we don't have to wait btn_multiclick_time_ms for next button detection": the first timer firing after
   the click reports it and the machine is at rest again. *)
Section Imm.
Variable c : cfgT.
Variable la : Z.
Hypothesis Tm : is_motion c = false.
Hypothesis Hfb : is_mono c && (la =? ST_ACTIVE) = false.
Hypothesis Hla : (la =? ST_INACTIVE) || is_bi c = true.
Variables A M g rl J : Z.
Hypothesis HA : A <> 0.
Hypothesis HM1 : M <= 1.
Hypothesis HJM : CYCLE_US + J < MULTICLICK_US.

(* reported: the machine rests in position la, one click-count trigger or one local action more *)
Definition IFin (k : Z) (F L : list out) (v : mv) : Prop :=
  exists t, if (k =? 1) && negb (g =? NOREL) then GZSt la A M g F (OActive t :: L) v
            else GZSt la A M g (xt c A t k ++ F) L v.
Definition IInv (Tr k : Z) (F L : list out) (fin : bool) (v : mv) : Prop :=
  if fin then IFin k F L v else GRSt c la A M g rl Tr k F L v /\ a_tdue v = Tr + CYCLE_US.

Lemma I_step Tr k F L fin v a :
  M <= k -> 0 <= k <= 100 -> IInv Tr k F L fin v -> idle a = true -> timely J v -> a_now v - Tr < TWO32 ->
  exists fin', IInv Tr k F L fin' (aact c a v) /\ (fin = true -> fin' = true).
Proof.
  intros HMk Hk HI Hi Ht H32. pose proof CF as [Cy _ _ _ _ _ _]. destruct fin.
  - exists true. split; [|auto]. destruct HI as (t0 & HZ). exists t0.
    destruct ((k =? 1) && negb (g =? NOREL)); apply (GZ_step c la Tm); assumption.
  - destruct HI as [HR E]. revert Ht H32 E. destruct HR as [nw td ou H1 H2 H3]. intros Ht H32 E.
    cbn [a_tdue a_now a_ton] in *. subst td. unfold timely in Ht. cbn [a_tdue a_now a_ton] in Ht.
    destruct a; try discriminate.
    + exists false. split; [|auto]. unfold aact. gv. destruct (nw <=? t) eqn:E; [apply Z.leb_le in E; unfold set_now_v; gv|];
        (split; [constructor; try assumption; lia|reflexivity]).
    + destruct (Tr + CYCLE_US <=? nw) eqn:E.
      * apply Z.leb_le in E. specialize (Ht eq_refl). assert (Hq : nw - Tr < MULTICLICK_US) by lia.
        exists true. split; [|auto]. exists nw.
        destruct ((k =? 1) && negb (g =? NOREL)) eqn:EL.
        -- apply andb_prop in EL as [EL1 EL2]. apply Z.eqb_eq in EL1. subst k. apply negb_true_iff in EL2. apply Z.eqb_neq in EL2.
           rewrite (g_tim_imm_local c la Tm Hfb Hla) by (try assumption; lia). cbv zeta.
           destruct ((if rl =? 1 then 0 else 1) =? rl); constructor; cbn [filter famo isloc]; congruence.
        -- assert (HL : k <> 1 \/ g = NOREL).
           { apply andb_false_iff in EL as [EL|EL]; [left; apply Z.eqb_neq; exact EL|right; apply negb_false_iff in EL; apply Z.eqb_eq; exact EL]. }
           rewrite (g_tim_imm_trig c la Tm Hfb Hla) by (try assumption; lia).
           constructor; [|rewrite filter_app; unfold trig_out; ifs; cbn; assumption].
           rewrite filter_app. unfold xt. rewrite H2. reflexivity.
      * rewrite ev_tim_idle by (rewrite E; reflexivity). exists false. split; [|auto]. split; [constructor; assumption|reflexivity].
    + exists false. split; [|auto]. unfold aact, motV, arelc. gv. rewrite Tm, andb_false_r. split; [constructor; assumption|reflexivity].
    + destruct (idle_out o ou Hi) as [E1 E2]. exists false. split; [|auto]. unfold aact, aemit. gv.
      split; [constructor; [assumption|congruence|congruence]|reflexivity].
    + exists false. split; [|auto]. unfold aact. gv. split; [constructor; assumption|reflexivity].
Qed.

Lemma I_run Tr k F L l : forall fin v,
  M <= k -> 0 <= k <= 100 -> IInv Tr k F L fin v -> all_idle l -> timely_run c J l v -> a_now (arun c l v) - Tr < TWO32 ->
  exists fin', IInv Tr k F L fin' (arun c l v) /\ (fin = true -> fin' = true).
Proof.
  induction l as [|a l IH]; intros fin v HMk Hk HI Hi Ht H32; [exists fin; auto|].
  unfold all_idle in Hi. cbn in Hi. apply andb_prop in Hi as [Hi1 Hi2]. destruct Ht as [Ht1 Ht2].
  change (arun c (a :: l) v) with (arun c l (aact c a v)) in *.
  pose proof (now_arun c l (aact c a v)) as N1. pose proof (now_aact c a v) as N2.
  destruct (I_step Tr k F L fin v a HMk Hk HI Hi1 Ht1 ltac:(lia)) as (f1 & I1 & a1).
  destruct (IH f1 _ HMk Hk I1 Hi2 Ht2 H32) as (f2 & I2 & b1). exists f2. split; [exact I2|]. intros E. apply b1, a1, E.
Qed.

(* reported within one timer period (+ lateness) after the recognised change *)
Theorem imm_thm Tr k F L l v :
  M <= k -> 0 <= k <= 100 -> GRSt c la A M g rl Tr k F L v -> a_tdue v = Tr + CYCLE_US ->
  all_idle l -> timely_run c J l v -> CYCLE_US + J < a_now (arun c l v) - Tr < TWO32 ->
  IFin k F L (arun c l v).
Proof.
  intros HMk Hk HR E Hi Ht Hd.
  destruct (I_run Tr k F L l false v HMk Hk (conj HR E) Hi Ht ltac:(lia)) as (fin & HI & _).
  destruct fin; [exact HI|exfalso].
  destruct HI as [HR' E']. pose proof (timely_run_end _ _ _ _ Ht) as TL. revert E' TL Hd.
  destruct HR' as [nw td ou H1 H2 H3]. unfold timely. cbn [a_now a_tdue a_ton]. intros E' TL Hd. specialize (TL eq_refl). lia.
Qed.
End Imm.

Section Click1.
Variable c : cfgT.
Variables A M g rl J : Z.
Hypothesis HA : A <> 0.
Hypothesis HM1 : M <= 1.
Hypothesis HJM : CYCLE_US + J < MULTICLICK_US.

(* bistable: one flip from rest is reported within a timer period, whatever follows later *)
Theorem bi_click1_thm : is_bi c = true -> forall i la0 nw ls si td ta ou,
  let v0 := mkmv nw la0 0 M A g ls si false td ta rl false ou in
  let v2 := arun c i (aact c (ANotify (opp la0)) v0) in
  (la0 = ST_ACTIVE \/ la0 = ST_INACTIVE) -> asilent_ret c v0 = false -> all_idle i ->
  timely_run c J (ANotify (opp la0) :: i) v0 -> CYCLE_US + J < a_now v2 - nw < TWO32 ->
  IFin c (opp la0) A M g 1 (filter famo ou) (filter isloc ou) v2.
Proof.
  intros Hbi i la0 nw ls si td ta ou v0 v2 Hla Hsil Hi Ht Hd.
  destruct (opp_cases la0 Hla) as [Ho Hne]. destruct Ht as [_ Ht].
  assert (E : aact c (ANotify (opp la0)) v0 =
              mkmv nw (opp la0) 1 M A g (u32 (boot c + nw)) false true (nw + CYCLE_US) true rl false
                   (onoff c (opp la0) 0 A nw ++ ONotify nw (opp la0) la0 0 :: ou)).
  { unfold v0. rewrite (ev_flip c Hbi) by (try assumption; try lia; right; reflexivity). reflexivity. }
  subst v2. rewrite E in *.
  destruct (fam_onoff c (opp la0) 0 A nw) as [E1 E2].
  apply (imm_thm c (opp la0) (bi_Tm c Hbi) (bi_fb c Hbi _) (bi_la c Hbi _) A M g rl J HA HM1 HJM nw 1); try assumption; try lia;
    try reflexivity;
    try (constructor; [lia| |]; rewrite filter_app; cbn [filter famo isloc]; rewrite ?E1, ?E2; reflexivity).
Qed.

(* monostable: one click (press shorter than the hold time, release) from rest *)
Theorem mono_click1_thm : is_mono c = true -> forall iPl iRl nw ls si td ta ou,
  let v0 := mkmv nw ST_INACTIVE 0 M A g ls si false td ta rl false ou in
  let v1 := arun c iPl (aact c (ANotify ST_ACTIVE) v0) in
  let v2 := arun c iRl (aact c (ANotify ST_INACTIVE) v1) in
  asilent_ret c v0 = false -> all_idle iPl -> all_idle iRl ->
  a_now v1 - nw < HOLD_US ->
  timely_run c J (ANotify ST_ACTIVE :: iPl ++ ANotify ST_INACTIVE :: iRl) v0 ->
  CYCLE_US + J < a_now v2 - a_now v1 -> a_now v2 - nw < TWO32 ->
  IFin c ST_INACTIVE A M g 1 (filter famo ou) (filter isloc ou) v2.
Proof.
  intros Hm iPl iRl nw ls si td ta ou v0 v1 v2 Hsil HiP HiR Hh Ht Hd H32.
  destruct Ht as [_ Ht]. destruct (timely_run_app c J iPl _ _ Ht) as [TP TR]. fold v1 in TR. destruct TR as [_ TR].
  pose proof (do_press_Z c Hm A M g rl HA nw ls si td ta ou Hsil) as HP. fold v0 in HP.
  pose proof (now_arun c iRl (aact c (ANotify ST_INACTIVE) v1)) as N1. fold v2 in N1.
  pose proof (now_aact c (ANotify ST_INACTIVE) v1) as N2.
  assert (HP1 : PSt c A M g rl nw 1 (filter famo ou) (filter isloc ou) v1).
  { assert (HC : HOLD_US < CFG_PRESS_US) by reflexivity.
    apply (P_run c Hm); try assumption; [right; exact Hh|fold v1; lia|right; fold v1; lia]. }
  destruct (types_excl c) as (X & _). destruct (X Hm) as (Tb & Tmo & Ts).
  assert (Hfb : is_mono c && (ST_INACTIVE =? ST_ACTIVE) = false) by (kc; apply andb_false_r).
  assert (Hla : (ST_INACTIVE =? ST_INACTIVE) || is_bi c = true) by (kc; reflexivity).
  revert TR Hd N1 N2. subst v2. destruct HP1 as [nw1 td1 ou1 H1 H2 H3]. cbn [a_now]. intros TR Hd N1 N2.
  rewrite (ev_release c Hm) in * by exact HA.
  destruct (fam_toff c A nw1) as [E1 E2].
  apply (imm_thm c ST_INACTIVE Tmo Hfb Hla A M g rl J HA HM1 HJM nw1 1); try assumption; try lia;
    try reflexivity;
    try (constructor; [lia| |]; rewrite filter_app; cbn [filter famo isloc]; rewrite ?E1, ?E2; assumption);
    try (cbn [a_now] in *; lia).
Qed.
End Click1.

(* ====================== motion sensor in action-trigger mode ======================
   Only TURN_ON / TURN_OFF exist for it: every recognised change sends the corresponding trigger when the server
   enabled it and otherwise makes the wired relay follow; there never is a click-count trigger. *)
Section Motion.
Variable c : cfgT.
Hypothesis Hmo : is_motion c = true.
Variables A M g rl J : Z.
Hypothesis HA : A <> 0.
Hypothesis HM1 : M <= 1.
Hypothesis HJ : 0 <= J.
Hypothesis HJM : CYCLE_US + J < MULTICLICK_US.

Lemma mo_types : is_mono c = false /\ is_bi c = false /\ is_sensor c = false.
Proof.
  unfold is_mono, is_bi, is_motion, is_sensor in *. apply Z.eqb_eq in Hmo. rewrite Hmo. repeat split; reflexivity.
Qed.
Definition cap_of (st_ : Z) : Z := if st_ =? ST_ACTIVE then CAP_TURN_ON else CAP_TURN_OFF.
Definition follows (st_ : Z) : bool := negb (g =? NOREL) && negb (hasb A (cap_of st_)).
Definition locline (st_ nw : Z) : out := if st_ =? ST_ACTIVE then OActive nw else OInactive nw.

(* the view right after the change st_ was recognised at time nw *)
Definition mo_after_k (k st_ la nw : Z) (ou : list out) : mv :=
  let ou1 := locline st_ nw :: trig_out c A nw (cap_of st_) ++ ONotify nw st_ la k :: ou in
  if follows st_ then
    let t1 := nw + RELAY_D1 in let t2 := t1 + RELAY_DOUBLE_TRY_US + RELAY_D2 in
    mkmv t2 st_ (k + 1) M A g (u32 (boot c + t2)) false true (t2 + CYCLE_US) true st_ false
         (OValue t2 RELAY_CH st_ :: (if st_ =? rl then ou1 else OGpio t1 st_ :: ou1))
  else mkmv nw st_ (k + 1) M A g (u32 (boot c + nw)) false true (nw + CYCLE_US) true rl false ou1.
Definition mo_after (st_ la nw : Z) (ou : list out) : mv := mo_after_k 0 st_ la nw ou.

Lemma hasb_land a b : hasb b a = false -> Z.land a b = 0.
Proof. unfold hasb. intros H. apply negb_false_iff in H. apply Z.eqb_eq in H. rewrite Z.land_comm. exact H. Qed.

(* a recognised change, whatever the counter (not -1) and whether the button timer runs or not *)
Lemma ev_mo_notify_k k st_ nw la ls si tn td ta ou :
  (st_ = ST_ACTIVE \/ st_ = ST_INACTIVE) -> la <> st_ -> 0 <= k <= 100 ->
  (on_toggle_en c = false \/ k + 1 < CFG_PRESS_COUNT) ->
  asilent_ret c (mkmv nw la k M A g ls si tn td ta rl false ou) = false ->
  aact c (ANotify st_) (mkmv nw la k M A g ls si tn td ta rl false ou) = mo_after_k k st_ la nw ou.
Proof.
  intros Hst Hne Hk Htg Hsil. destruct mo_types as (Tmo & Tb & Ts).
  assert (ET : on_toggle_en c && (CFG_PRESS_COUNT <=? k + 1) = false).
  { destruct Htg as [-> | Htg]; [reflexivity|]. replace (CFG_PRESS_COUNT <=? k + 1) with false by (symmetry; apply Z.leb_gt; exact Htg). apply andb_false_r. }
  unfold aact. gv. unfold notifyV. cbv zeta.
  change (asilent_ret c (aemit _ _)) with (asilent_ret c (mkmv nw la k M A g ls si tn td ta rl false ou)).
  rewrite Hsil. gv. replace (la =? st_) with false by (symmetry; apply Z.eqb_neq; exact Hne).
  replace (A =? 0) with false by (symmetry; apply Z.eqb_neq; exact HA). gv.
  unfold advH. cbv zeta. unfold set_ton_v. gv. unfold counts_click. rewrite Hmo, Tb, Tmo. cbn [andb orb].
  replace (k =? -1) with false by (symmetry; apply Z.eqb_neq; lia). cbn [negb andb]. cbv iota.
  rewrite s8_small by lia. unfold set_cc_v. gv.
  unfold mo_after_k, follows, cap_of, locline.
  destruct Hst as [-> | ->]; kc; cbv iota; gv.
  - rewrite etrig_eq. unfold onA. cbv zeta. unfold aemit, arelc. gv. rewrite Hmo. rewrite !orb_true_r. gv.
    destruct (negb (g =? NOREL)) eqn:EG; gv.
    + destruct (hasb A CAP_TURN_ON) eqn:EH; gv.
      * rewrite ET. gv. unfold arm_v, anow32. gv. reflexivity.
      * unfold sw. cbv zeta. gv. kc. cbv iota. rewrite ET. gv. unfold arm_v, anow32. gv.
        change ST_ACTIVE with 1. destruct (1 =? rl); reflexivity.
    + rewrite Ts. gv. rewrite ET. gv. unfold arm_v, anow32. gv. reflexivity.
  - rewrite ET. gv. rewrite etrig_eq. unfold onI. cbv zeta. unfold aemit, arelc. gv. rewrite Hmo. rewrite !orb_true_r. gv.
    destruct (negb (g =? NOREL)) eqn:EG; gv.
    + destruct (hasb A CAP_TURN_OFF) eqn:EH; gv.
      * unfold arm_v, anow32. gv. reflexivity.
      * unfold sw. cbv zeta. gv. kc. cbv iota. unfold arm_v, anow32. gv.
        change ST_INACTIVE with 0. destruct (0 =? rl); reflexivity.
    + rewrite Ts. gv. unfold arm_v, anow32. gv. reflexivity.
Qed.
Lemma ev_mo_notify st_ nw la ls si td ta ou :
  (st_ = ST_ACTIVE \/ st_ = ST_INACTIVE) -> la <> st_ ->
  asilent_ret c (mkmv nw la 0 M A g ls si false td ta rl false ou) = false ->
  aact c (ANotify st_) (mkmv nw la 0 M A g ls si false td ta rl false ou) = mo_after st_ la nw ou.
Proof. intros. apply ev_mo_notify_k; try assumption; [lia|right; reflexivity]. Qed.

(* the button timer of a motion sensor never sends anything and never moves the relay *)
Lemma mo_strig v : strig c 0 v = v.
Proof.
  destruct mo_types as (Tmo & Tb & Ts). unfold strig. kc. cbv iota.
  destruct (a_cc v =? -1); [reflexivity|]. rewrite Hmo.
  destruct ((a_cc v =? 1) && arelc v); [reflexivity|].
  unfold etrig, click_action. rewrite Tmo, Tb. change (Z.land 0 (a_act v)) with 0. reflexivity.
Qed.
Lemma mo_tim_silent v :
  a_relay (aact c ATim v) = a_relay v /\ a_outs (aact c ATim v) = a_outs v /\ a_halted (aact c ATim v) = a_halted v /\
  a_last (aact c ATim v) = a_last v.
Proof.
  destruct mo_types as (Tmo & Tb & Ts). unfold aact. destruct (a_halted v) eqn:Hh; [auto|].
  destruct (a_ton v && _); [|auto]. cbv zeta. destruct (a_tadv v).
  - unfold advT. cbv zeta. rewrite Tmo. cbn [andb]. cbv iota. unfold set_tdue_v. gv. rewrite Hh.
    rewrite Hmo, !orb_true_r. cbv iota.
    repeat match goal with |- context[if ?b then _ else _] => destruct b end;
      rewrite ?mo_strig; unfold set_cc_v, set_ton_v; gv; rewrite ?mo_strig; gv; auto.
  - unfold legT, on_hold_en. rewrite Tmo. rewrite !andb_false_r. cbn [andb]. unfold set_tdue_v. gv. auto.
Qed.

(* the first firing of the button timer puts the machine to rest without any output *)
Lemma mo_tim nw la mx A' g' T td rl' ou :
  td <= nw -> 0 <= nw - T < TWO32 -> mx <= 1 ->
  aact c ATim (mkmv nw la 1 mx A' g' (u32 (boot c + T)) false true td true rl' false ou) =
  mkmv nw la 0 mx A' g' (u32 (boot c + T)) false false (td + CYCLE_US) true rl' false ou.
Proof.
  intros Hd HT H1. destruct mo_types as (Tmo & Tb & Ts).
  unfold aact. gv. replace (td <=? nw) with true by (symmetry; apply Z.leb_le; exact Hd). cbv zeta iota. gv.
  unfold set_tdue_v. gv. unfold advT. cbv zeta. gv. unfold anow32. gv. rewrite u32_diff_shift by exact HT.
  rewrite Tmo, Hmo. cbn [andb orb]. rewrite orb_true_r. cbv iota. gv.
  assert (S0 : forall v, a_cc v = 1 -> strig c 0 v = v).
  { intros v E. unfold strig. kc. cbv iota. rewrite E. kc. cbv iota. rewrite Hmo.
    destruct (arelc v); cbn [andb]; [reflexivity|].
    unfold etrig, click_action. rewrite Tmo, Tb. change (Z.land 0 (a_act v)) with 0. reflexivity. }
  destruct (MULTICLICK_US <=? nw - T).
  - unfold set_ton_v. gv. rewrite S0 by reflexivity. unfold set_cc_v. gv. reflexivity.
  - replace (mx <=? 1) with true by (symmetry; apply Z.leb_le; exact H1). cbv iota.
    rewrite S0 by reflexivity. unfold set_cc_v. gv.
    replace (mx <=? 1) with true by (symmetry; apply Z.leb_le; exact H1). cbv iota. unfold set_ton_v. gv. reflexivity.
Qed.

Definition notfault (o : out) : bool := match o with OFault => false | _ => true end.
Definition idle_m (a : astep) : bool :=
  match a with AMot => false | AOut o => negb (notfault o) | ANotify _ => false | _ => true end.
(* armed (the change was just recognised at T) or at rest again; same outputs (but for the model's FAULT marker) *)
Inductive MSt (la : Z) (armed : bool) (T rl' : Z) (ou0 : list out) : mv -> Prop :=
| MSt_i nw td ou : T <= nw -> (armed = true -> td = T + CYCLE_US) -> filter notfault ou = filter notfault ou0 ->
    MSt la armed T rl' ou0 (mkmv nw la (if armed then 1 else 0) M A g (u32 (boot c + T)) false armed td true rl' false ou).

Lemma M_step la armed T rl' ou0 v a : MSt la armed T rl' ou0 v -> idle_m a = true -> a_now v - T < TWO32 ->
  exists armed', MSt la armed' T rl' ou0 (aact c a v) /\ (armed = false -> armed' = false) /\
                 (armed' = true -> a_tdue (aact c a v) = T + CYCLE_US).
Proof.
  intros HS Hi H32. revert H32. destruct HS as [nw td ou H1 H2 H3]. intros H32. cbn [a_now] in *.
  destruct a; try discriminate.
  - exists armed. split; [|split; [auto|]]. 
    + unfold aact. gv. destruct (nw <=? t) eqn:E; [apply Z.leb_le in E; unfold set_now_v; gv|]; constructor; try assumption; lia.
    + unfold aact. gv. destruct (nw <=? t); [unfold set_now_v; gv|]; cbn [a_tdue]; exact H2.
  - destruct armed.
    + destruct (td <=? nw) eqn:E.
      * apply Z.leb_le in E. exists false. rewrite mo_tim by (try assumption; lia).
        split; [constructor; try assumption; discriminate|split; [auto|discriminate]].
      * exists true. rewrite ev_tim_idle by (rewrite E; reflexivity).
        split; [constructor; assumption|split; [auto|intros _; cbn [a_tdue]; apply H2; reflexivity]].
    + exists false. rewrite ev_tim_idle by reflexivity. split; [constructor; assumption|split; [auto|discriminate]].
  - cbn [idle_m] in Hi. apply negb_true_iff in Hi. exists armed. unfold aact, aemit. gv.
    split; [constructor; try assumption; cbn [filter]; rewrite Hi; assumption|split; [auto|cbn [a_tdue]; exact H2]].
  - exists armed. unfold aact. gv. split; [constructor; assumption|split; [auto|cbn [a_tdue]; exact H2]].
Qed.

Lemma M_run la T rl' ou0 l : forall armed v, MSt la armed T rl' ou0 v -> forallb idle_m l = true -> a_now (arun c l v) - T < TWO32 ->
  exists armed', MSt la armed' T rl' ou0 (arun c l v) /\ (armed = false -> armed' = false) /\
                 (armed' = true -> l <> [] -> a_tdue (arun c l v) = T + CYCLE_US).
Proof.
  induction l as [|a l IH]; intros armed v HS Hi H32; [exists armed; split; [exact HS|split; [auto|intros _ E; congruence]]|].
  cbn in Hi. apply andb_prop in Hi as [Hi1 Hi2].
  change (arun c (a :: l) v) with (arun c l (aact c a v)) in *.
  pose proof (now_arun c l (aact c a v)) as N1. pose proof (now_aact c a v) as N2.
  destruct (M_step la armed T rl' ou0 v a HS Hi1 ltac:(lia)) as (a1 & S1 & b1 & b2).
  destruct (IH a1 _ S1 Hi2 H32) as (a2 & S2 & c1 & c2). exists a2. split; [exact S2|]. split; [intros E; apply c1, b1, E|].
  intros E _. destruct l as [|a' l']; [|apply c2; [exact E|discriminate]].
  cbn [arun fold_left] in *. destruct a1; [apply b2; reflexivity|]. specialize (c1 eq_refl). congruence.
Qed.

(* a change recognised from rest: reported / followed at once, at rest again one timer period later *)
Theorem motion_thm : forall st_ la l nw ls si td ta ou,
  let v0 := mkmv nw la 0 M A g ls si false td ta rl false ou in
  let v1 := aact c (ANotify st_) v0 in
  let v2 := arun c l v1 in
  (st_ = ST_ACTIVE \/ st_ = ST_INACTIVE) -> la <> st_ -> asilent_ret c v0 = false ->
  forallb idle_m l = true -> timely J v2 -> CYCLE_US + J < a_now v2 - a_now v1 -> a_now v2 - a_now v1 < TWO32 ->
  v1 = mo_after st_ la nw ou /\
  MSt st_ false (a_now v1) (if follows st_ then st_ else rl) (a_outs v1) v2.
Proof.
  intros st_ la l nw ls si td ta ou v0 v1 v2 Hst Hne Hsil Hi Ht Hd H32.
  assert (E1 : v1 = mo_after st_ la nw ou) by (apply ev_mo_notify; assumption).
  split; [exact E1|].
  assert (HS : MSt st_ true (a_now v1) (if follows st_ then st_ else rl) (a_outs v1) v1).
  { rewrite E1. unfold mo_after, mo_after_k. cbv zeta. change (0 + 1) with 1. destruct (follows st_); cbn [a_now a_outs]; constructor; try lia; reflexivity. }
  destruct (M_run st_ _ _ _ l true v1 HS Hi ltac:(fold v2; lia)) as (armed & S2 & _ & b2). fold v2 in S2, b2.
  destruct armed; [exfalso|exact S2].
  assert (Hl : l <> []).
  { intros ->. unfold v2 in Hd. change (arun c [] v1) with v1 in Hd. pose proof CF as [Cy _ _ _ _ _ _]. lia. }
  specialize (b2 eq_refl Hl). revert Ht b2 Hd. destruct S2 as [nw2 td2 ou2 H1 H2 H3]. unfold timely. cbn [a_now a_tdue a_ton].
  intros Ht b2 Hd. specialize (Ht eq_refl). lia.
Qed.

(* what the recognised change produced: no click-count trigger; TURN_ON / TURN_OFF exactly when enabled (and the input
   has a channel); the relay follows exactly when the relay is wired and that trigger is not enabled *)
Lemma mo_after_outs st_ la nw ou :
  filter famo (a_outs (mo_after st_ la nw ou)) = filter famo ou /\
  a_relay (mo_after st_ la nw ou) = (if follows st_ then st_ else rl) /\
  filter is_gpio (a_outs (mo_after st_ la nw ou)) =
    (if follows st_ && negb (st_ =? rl) then [OGpio (nw + RELAY_D1) st_] else []) ++ filter is_gpio ou /\
  (follows st_ = true -> trig_out c A nw (cap_of st_) = []).
Proof.
  unfold mo_after, mo_after_k. cbv zeta.
  assert (F1 : filter famo (trig_out c A nw (cap_of st_)) = []).
  { unfold trig_out, cap_of. ifs; reflexivity. }
  assert (G1 : filter is_gpio (trig_out c A nw (cap_of st_)) = []).
  { unfold trig_out, cap_of. ifs; reflexivity. }
  assert (L1 : famo (locline st_ nw) = false /\ is_gpio (locline st_ nw) = false) by (unfold locline; destruct (st_ =? ST_ACTIVE); split; reflexivity).
  destruct L1 as [L1 L2].
  destruct (follows st_) eqn:EF; cbn [a_outs a_relay andb].
  - repeat split.
    + destruct (st_ =? rl); cbn [filter famo]; rewrite L1, filter_app, F1; reflexivity.
    + destruct (st_ =? rl); cbn [filter is_gpio negb]; rewrite L2, filter_app, G1; reflexivity.
    + intros _. unfold follows in EF. apply andb_prop in EF as [_ EF]. apply negb_true_iff in EF.
      unfold trig_out. rewrite (hasb_land _ _ EF). reflexivity.
  - repeat split.
    + cbn [filter]. rewrite L1, filter_app, F1. reflexivity.
    + cbn [filter]. rewrite L2, filter_app, G1. reflexivity.
    + discriminate.
Qed.
End Motion.

(* ====================== the same about the model ====================== *)
Definition notrig (ms : list micro) : Prop := forallb (fun m => negb (is_trig m)) ms = true.

(* any bistable input, the configuration button included (there max_clicks >= CFG_PRESS_COUNT) *)
Theorem at_bistable_cfg_thm : forall c A M g rl J ms s i fl la0 nw ls si td ta ou,
  is_bi c = true -> A <> 0 -> 2 <= M -> CYCLE_US + J < MULTICLICK_US -> notrig ms ->
  view s = mkmv nw la0 0 M A g ls si false td ta rl false ou -> (la0 = ST_ACTIVE \/ la0 = ST_INACTIVE) ->
  asilent_ret c (view s) = false ->
  atrace c ms s = btrace (opp la0) (i :: fl) -> Z.of_nat (length (i :: fl)) < 99 ->
  bok c J (view s) (opp la0) (i :: fl) ->
  pend s <= J -> late (mrun c ms s) <= J -> now (mrun c ms s) - now s < TWO32 ->
  (on_toggle_en c = false \/ Z.of_nat (length (i :: fl)) < CFG_PRESS_COUNT) ->
  bverdict c A M g (Z.of_nat (length (i :: fl))) (lastpos la0 (i :: fl)) (filter famo (outs s)) (filter isloc (outs s))
           (view (mrun c ms s)).
Proof.
  intros c A M g rl J ms s i fl la0 nw ls si td ta ou Hb HA HM HJM Hn Hv Hla Hsil Htr Hlen Hok Hp Hl H32 Htg.
  pose proof (timely_from_lateG c J ms s Hn Hp Hl) as HT. rewrite Htr in HT.
  assert (Eo : outs s = ou) by (change (outs s) with (a_outs (view s)); rewrite Hv; reflexivity).
  assert (En : now s = nw) by (change (now s) with (a_now (view s)); rewrite Hv; reflexivity).
  assert (H32' : a_now (arun c (btrace (opp la0) (i :: fl)) (view s)) - nw < TWO32).
  { rewrite <- Htr, <- sim_runG by assumption. change (a_now (view (mrun c ms s))) with (now (mrun c ms s)). lia. }
  rewrite sim_runG by assumption. rewrite Htr, Eo. rewrite Hv in *.
  apply (bi_gesture_thm c Hb A M g rl J HA HM HJM i fl la0 nw ls si td ta ou); assumption.
Qed.
Theorem at_bistable_thm : forall c A M g rl J ms s i fl la0 nw ls si td ta ou,
  is_bi c = true -> cfg_btn c = false -> A <> 0 -> 2 <= M -> CYCLE_US + J < MULTICLICK_US -> notrig ms ->
  view s = mkmv nw la0 0 M A g ls si false td ta rl false ou -> (la0 = ST_ACTIVE \/ la0 = ST_INACTIVE) ->
  asilent_ret c (view s) = false ->
  atrace c ms s = btrace (opp la0) (i :: fl) -> Z.of_nat (length (i :: fl)) < 99 ->
  bok c J (view s) (opp la0) (i :: fl) ->
  pend s <= J -> late (mrun c ms s) <= J -> now (mrun c ms s) - now s < TWO32 ->
  bverdict c A M g (Z.of_nat (length (i :: fl))) (lastpos la0 (i :: fl)) (filter famo (outs s)) (filter isloc (outs s))
           (view (mrun c ms s)).
Proof.
  intros c A M g rl J ms s i fl la0 nw ls si td ta ou Hb Hc HA HM HJM Hn Hv Hla Hsil Htr Hlen Hok Hp Hl H32.
  eapply at_bistable_cfg_thm; try eassumption. left. exact (proj1 (cfg_off c Hc)).
Qed.

Theorem at_bistable_max1_thm : forall c A M g rl J ms s i la0 nw ls si td ta ou,
  is_bi c = true -> A <> 0 -> M <= 1 -> CYCLE_US + J < MULTICLICK_US -> notrig ms ->
  view s = mkmv nw la0 0 M A g ls si false td ta rl false ou -> (la0 = ST_ACTIVE \/ la0 = ST_INACTIVE) ->
  asilent_ret c (view s) = false ->
  atrace c ms s = ANotify (opp la0) :: i -> all_idle i ->
  pend s <= J -> late (mrun c ms s) <= J -> CYCLE_US + J < now (mrun c ms s) - now s < TWO32 ->
  IFin c (opp la0) A M g 1 (filter famo (outs s)) (filter isloc (outs s)) (view (mrun c ms s)).
Proof.
  intros c A M g rl J ms s i la0 nw ls si td ta ou Hb HA HM HJM Hn Hv Hla Hsil Htr Hi Hp Hl Hd.
  pose proof (timely_from_lateG c J ms s Hn Hp Hl) as HT. rewrite Htr in HT.
  assert (Eo : outs s = ou) by (change (outs s) with (a_outs (view s)); rewrite Hv; reflexivity).
  assert (En : now s = nw) by (change (now s) with (a_now (view s)); rewrite Hv; reflexivity).
  assert (Hd' : CYCLE_US + J < a_now (arun c (ANotify (opp la0) :: i) (view s)) - nw < TWO32).
  { rewrite <- Htr, <- sim_runG by assumption. change (a_now (view (mrun c ms s))) with (now (mrun c ms s)). lia. }
  rewrite sim_runG by assumption. rewrite Htr, Eo. rewrite Hv in *.
  apply (bi_click1_thm c A M g rl J HA HM HJM Hb i la0 nw ls si td ta ou); assumption.
Qed.

Theorem at_mono_max1_thm : forall c A M g rl J ms s iPl iRl nw ls si td ta ou,
  is_mono c = true -> A <> 0 -> M <= 1 -> CYCLE_US + J < MULTICLICK_US -> notrig ms ->
  view s = mkmv nw ST_INACTIVE 0 M A g ls si false td ta rl false ou ->
  asilent_ret c (view s) = false ->
  atrace c ms s = ANotify ST_ACTIVE :: iPl ++ ANotify ST_INACTIVE :: iRl -> all_idle iPl -> all_idle iRl ->
  let v1 := arun c iPl (aact c (ANotify ST_ACTIVE) (view s)) in
  a_now v1 - now s < HOLD_US -> CYCLE_US + J < now (mrun c ms s) - a_now v1 ->
  pend s <= J -> late (mrun c ms s) <= J -> now (mrun c ms s) - now s < TWO32 ->
  IFin c ST_INACTIVE A M g 1 (filter famo (outs s)) (filter isloc (outs s)) (view (mrun c ms s)).
Proof.
  intros c A M g rl J ms s iPl iRl nw ls si td ta ou Hm HA HM HJM Hn Hv Hsil Htr HiP HiR v1 Hh Hd Hp Hl H32.
  pose proof (timely_from_lateG c J ms s Hn Hp Hl) as HT. rewrite Htr in HT.
  assert (Eo : outs s = ou) by (change (outs s) with (a_outs (view s)); rewrite Hv; reflexivity).
  assert (En : now s = nw) by (change (now s) with (a_now (view s)); rewrite Hv; reflexivity).
  assert (Ev : view (mrun c ms s) = arun c iRl (aact c (ANotify ST_INACTIVE) v1)).
  { rewrite sim_runG by assumption. rewrite Htr.
    change (arun c (ANotify ST_ACTIVE :: iPl ++ ANotify ST_INACTIVE :: iRl) (view s))
      with (arun c (iPl ++ ANotify ST_INACTIVE :: iRl) (aact c (ANotify ST_ACTIVE) (view s))).
    rewrite arun_app. reflexivity. }
  assert (En2 : now (mrun c ms s) = a_now (arun c iRl (aact c (ANotify ST_INACTIVE) v1))) by (rewrite <- Ev; reflexivity).
  rewrite Ev, Eo. subst v1. rewrite Hv in *.
  apply (mono_click1_thm c A M g rl J HA HM HJM Hm iPl iRl nw ls si td ta ou); try assumption; lia.
Qed.

Theorem at_motion_thm : forall c A M g rl J ms s st_ la l nw ls si td ta ou,
  is_motion c = true -> A <> 0 -> M <= 1 -> 0 <= J -> CYCLE_US + J < MULTICLICK_US -> notrig ms ->
  view s = mkmv nw la 0 M A g ls si false td ta rl false ou ->
  (st_ = ST_ACTIVE \/ st_ = ST_INACTIVE) -> la <> st_ -> asilent_ret c (view s) = false ->
  atrace c ms s = ANotify st_ :: l -> forallb idle_m l = true ->
  let v1 := aact c (ANotify st_) (view s) in
  pend s <= J -> late (mrun c ms s) <= J ->
  CYCLE_US + J < now (mrun c ms s) - a_now v1 -> now (mrun c ms s) - a_now v1 < TWO32 ->
  v1 = mo_after c A M g rl st_ la nw (outs s) /\
  MSt c A M g st_ false (a_now v1) (if follows A g st_ then st_ else rl) (a_outs v1) (view (mrun c ms s)).
Proof.
  intros c A M g rl J ms s st_ la l nw ls si td ta ou Hmo HA HM HJ HJM Hn Hv Hst Hne Hsil Htr Hi v1 Hp Hl Hd H32.
  pose proof (timely_from_lateG c J ms s Hn Hp Hl) as HT. rewrite Htr in HT.
  assert (Eo : outs s = ou) by (change (outs s) with (a_outs (view s)); rewrite Hv; reflexivity).
  assert (Ev : view (mrun c ms s) = arun c l v1).
  { rewrite sim_runG by assumption. rewrite Htr. reflexivity. }
  assert (En2 : now (mrun c ms s) = a_now (arun c l v1)) by (rewrite <- Ev; reflexivity).
  pose proof (timely_run_end c J _ _ HT) as TE. change (arun c (ANotify st_ :: l) (view s)) with (arun c l v1) in TE.
  rewrite Ev, Eo. subst v1. rewrite Hv in *.
  apply (motion_thm c Hmo A M g rl J HA HM HJ st_ la l nw ls si td ta ou); try assumption; lia.
Qed.

(* ---------- highest multiplicity <= 1: the literal "at most one trigger for N quick clicks" is refuted ----------
   two flips 200 ms apart with only TOGGLE_x1 enabled: two TOGGLE_x1 triggers (each flip is its own gesture; the repo
   test at_tests.cpp BistableTurnOnOffAndTogglex1 pins exactly this).  What does hold is at_bistable_max1_thm /
   at_mono_max1_thm: every single click is reported exactly once, within one timer period. *)
Definition cfg_bi1 : cfgT :=
  {| boot := 1; typ := TYPE_BISTABLE; flags := 0; rel := true; chan := 1; cap := CAP_TOGGLE_x1 + CAP_TOGGLE_x2; rst := true |}.
Definition max1_evs : list event := [EAdv 700000; ETrig CAP_TOGGLE_x1; EIn 1; EAdv 200000; EIn 0; EAdv 700000].
Lemma max1_literal_refuted_thm :
  filter famo (outs (run cfg_bi1 0 max1_evs)) = [OTrig 1040000 1 CAP_TOGGLE_x1; OTrig 840000 1 CAP_TOGGLE_x1] /\
  maxc (run cfg_bi1 0 max1_evs) = 1 /\ late (run cfg_bi1 0 max1_evs) = 0.
Proof. vm_compute. repeat split; reflexivity. Qed.

(* motion sensor, any max_clicks, the configuration button included: what ONE recognised change does, and that the
   button timer does nothing visible *)
Theorem at_motion_notify_thm : forall c A M g rl s st_ la k nw ls si tn td ta ou,
  is_motion c = true -> A <> 0 ->
  view s = mkmv nw la k M A g ls si tn td ta rl false ou ->
  (st_ = ST_ACTIVE \/ st_ = ST_INACTIVE) -> la <> st_ -> 0 <= k <= 100 ->
  (on_toggle_en c = false \/ k + 1 < CFG_PRESS_COUNT) -> asilent_ret c (view s) = false ->
  abs c MDeb s = ANotify st_ ->
  view (mstep c MDeb s) = mo_after_k c A M g rl k st_ la nw ou.
Proof.
  intros c A M g rl s st_ la k nw ls si tn td ta ou Hmo HA Hv Hst Hne Hk Htg Hsil Ha.
  rewrite sim_stepG by reflexivity. rewrite Ha, Hv in *. apply (ev_mo_notify_k c Hmo A M g rl HA); assumption.
Qed.
Theorem at_motion_timer_thm : forall c s, is_motion c = true ->
  relay (mstep c MTim s) = relay s /\ outs (mstep c MTim s) = outs s /\ halted (mstep c MTim s) = halted s /\
  last (mstep c MTim s) = last s.
Proof.
  intros c s Hmo. destruct (mo_tim_silent c Hmo (view s)) as (a1 & a2 & a3 & a4).
  pose proof (sim_stepG c MTim s eq_refl) as E. cbn [abs] in E. rewrite <- E in *.
  exact (conj a1 (conj a2 (conj a3 a4))).
Qed.
