(* C03 — executable model of
     part 1: srpc_getdata (size gate), interpreting the table generated from the `switch` of the working tree;
     part 2: the may-write sets of supla_esp_on_remote_call_received and the handlers it dispatches to
             (supla_esp_channel_set_value, supla_esp_channelgroup_set_value, supla_esp_calcfg_request,
              the channel-config cases with supla_esp_channel_config_result, supla_esp_gpio_rs/fb_apply_new_config,
              supla_esp_gpio_rs_apply_new__times, supla_esp_gpio_relay_set_duration_timer, supla_esp_gpio_relay_hi),
             every index expression written with the guard the code puts in front of it.
   Definitions only. *)
From Coq Require Import List ZArith Bool.
Import ListNotations.
From V Require Import Base.U32 Base.Bytes Base.Iface Gen.SrpcTable Gen.C03Consts.
Local Open Scope Z_scope.

(* ================= part 1: the size gate ================= *)
Definition field : Type := (Z * Z * bool)%type.            (* offset, width in bytes, signed *)
Inductive rule :=
| RNoData
| RExact (alloc : Z) (sizes nocopy : list Z)
| RVar (alloc sizeT hdr item max : Z) (zr : bool) (fs : list field).

Fixpoint parse_fields (n : nat) (l : list Z) : option (list field) :=
  match n, l with
  | O, [] => Some []
  | S k, off :: w :: sg :: r =>
      match parse_fields k r with Some fs => Some ((off, w, sg =? 1) :: fs) | None => None end
  | _, _ => None
  end.

Definition rule_of_row (row : list Z) : option (Z * rule) :=
  match row with
  | [id; 0] => Some (id, RNoData)
  | id :: 1 :: alloc :: n :: rest =>
      match drop n rest with
      | k :: nc => if (0 <=? n) && (len (take n rest) =? n) && (len nc =? k)
                   then Some (id, RExact alloc (take n rest) nc) else None
      | [] => None
      end
  | id :: 2 :: alloc :: sizeT :: hdr :: item :: max :: zr :: nf :: rest =>
      match parse_fields (Z.to_nat nf) rest with
      | Some fs => Some (id, RVar alloc sizeT hdr item max (zr =? 1) fs)
      | None => None
      end
  | _ => None
  end.

Fixpoint lookup (rows : list (list Z)) (id : Z) : option rule :=
  match rows with
  | [] => None
  | row :: r => match rule_of_row row with
                | Some (i, ru) => if i =? id then Some ru else lookup r id
                | None => lookup r id
                end
  end.

(* little-endian integer of n bytes at offset o *)
Fixpoint le_n (n : nat) (d : list Z) (o : Z) : Z :=
  match n with O => 0 | S k => nthz d o + 256 * le_n k d (o + 1) end.
Definition fval (d : list Z) (f : field) : Z :=
  let '(o, w, sg) := f in
  let v := le_n (Z.to_nat w) d o in
  if sg && (2 ^ (8 * w - 1) <=? v) then v - 2 ^ (8 * w) else v.
Definition declared (d : list Z) (fs : list field) : Z := fold_right (fun f acc => fval d f + acc) 0 fs.
Definition memz (x : Z) (l : list Z) : bool := existsb (Z.eqb x) l.

(* result of srpc_getdata once a packet was popped: TRUE with the number of bytes copied into an
   allocation of `alloc` bytes (alloc = 0: no data pointer), FALSE, or DATA_ERROR *)
Inductive verdict := VTrue (copy alloc : Z) | VFalse | VDataError.

(* `d` is srpc->sdp.data: the payload followed by whatever earlier packets left in the scratch packet.
   `wbits` is the width of size_t (32 on the target, 64 on the host running the correspondence check). *)
Definition apply_rule (wbits : Z) (r : rule) (ds : Z) (d : list Z) : verdict :=
  match r with
  | RNoData => VTrue 0 0
  | RExact alloc sizes nocopy =>
      if memz ds sizes then (if memz ds nocopy then VTrue 0 alloc else VTrue ds alloc) else VDataError
  | RVar alloc sizeT hdr item max zr fs =>
      if zr && (match fs with f :: _ => fval d f =? 0 | [] => false end) then VFalse
      else if (hdr <=? ds) && (ds <=? sizeT)
              && ((declared d fs * item) mod 2 ^ wbits =? (ds - hdr) mod 2 ^ wbits)
           then VTrue ds alloc else VDataError
  end.

Definition getdata (wbits : Z) (rows : list (list Z)) (id ds : Z) (d : list Z) : verdict :=
  match lookup rows id with Some r => apply_rule wbits r ds d | None => VDataError end.

Definition TARGET_BITS : Z := 32.
Definition getdata_ok (rows : list (list Z)) (id ds : Z) (d : list Z) : bool :=
  match getdata TARGET_BITS rows id ds d with VTrue _ _ => true | _ => false end.

(* what the property calls "the payload length matches what the call type requires" *)
Definition size_matches (r : rule) (payload : list Z) : Prop :=
  match r with
  | RNoData => True
  | RExact _ sizes _ => In (len payload) sizes
  | RVar _ _ hdr item max _ fs =>
      hdr <= len payload /\ 0 <= declared payload fs <= max /\ len payload = hdr + declared payload fs * item
  end.

(* the scratch packet after sproto_pop_in_sdp copied header+payload over it *)
Definition scratch_after (scratch payload : list Z) : list Z := payload ++ drop (len payload) scratch.

Definition handled (devcfg : bool) (id : Z) : bool :=
  existsb (fun row => match row with [i] => i =? id | _ => false end) (if devcfg then DISPATCH_DEVCFG else DISPATCH_DEV).

(* a device handler runs for this message *)
Definition reaches_handler (devcfg : bool) (id : Z) (payload scratch : list Z) : bool :=
  getdata_ok SRPC_ROWS id (len payload) (scratch_after scratch payload) && handled devcfg id.

(* ================= part 2: boards, cells, may-write sets ================= *)
Record relay := { r_gpio : Z; r_channel : Z; r_flags : Z; r_chflags : Z }.
Record input := { i_gpio : Z; i_type : Z; i_flags : Z; i_relay_gpio : Z; i_channel : Z; i_atcap : Z }.
Record board := { b_devcfg : bool; b_relays : list relay; b_rs : list (Z * Z); b_inputs : list input }.

Definition relay_def : relay := {| r_gpio := 255; r_channel := 255; r_flags := 0; r_chflags := 0 |}.
Definition input_def : input := {| i_gpio := 255; i_type := 0; i_flags := 0; i_relay_gpio := 255; i_channel := 255; i_atcap := 0 |}.
Definition relay_at (b : board) (a : Z) : relay := if a <? 0 then relay_def else nth (Z.to_nat a) (b_relays b) relay_def.
Definition input_at (b : board) (i : Z) : input := if i <? 0 then input_def else nth (Z.to_nat i) (b_inputs b) input_def.
Definition rs_present (b : board) (i : Z) : bool := (0 <=? i) && (i <? len (b_rs b)).
Definition rs_up (b : board) (i : Z) : Z := fst (nth (Z.to_nat i) (b_rs b) (0, 0)).
Definition rs_down (b : board) (i : Z) : Z := snd (nth (Z.to_nat i) (b_rs b) (0, 0)).
Definition slots (n : Z) : list Z := map Z.of_nat (seq 0 (Z.to_nat n)).

(* table numbers = the driver's CH lines *)
Definition T_RELAY := 0.  Definition T_RS := 1.  Definition T_INPUT := 2.
Definition T_TIME1 := 3.  Definition T_TIME2 := 4.  Definition T_TIME3 := 5.
Definition T_AUTO_O := 6. Definition T_AUTO_C := 7. Definition T_TILT_TYPE := 8. Definition T_TIME_MARGIN := 9.
Definition T_MOTOR_UD := 10. Definition T_STATE_RELAY := 11. Definition T_RSPOS := 12. Definition T_TILT := 13.
Definition T_TIME2LEFT := 14. Definition T_CHFUNC := 15. Definition T_RUNTIMECFG := 16. Definition T_VISTYPE := 17.
Definition T_GPIO := 18. Definition T_GLOBAL := 19.
Definition GPIO_PINS := 17.
Definition N_GLOBAL := 3.
Definition cell : Type := (Z * Z)%type.

Definition tsize (t : Z) : Z :=
  if t =? T_RELAY then N_RELAY else if t =? T_RS then N_RS else if t =? T_INPUT then N_INPUT
  else if t =? T_TIME1 then N_TIME1 else if t =? T_TIME2 then N_TIME2 else if t =? T_TIME3 then N_TIME3
  else if t =? T_AUTO_O then N_AUTOCAL_OPEN else if t =? T_AUTO_C then N_AUTOCAL_CLOSE
  else if t =? T_TILT_TYPE then N_TILT_TYPE else if t =? T_TIME_MARGIN then N_TIME_MARGIN
  else if t =? T_MOTOR_UD then MOTOR_UD_BITS else if t =? T_STATE_RELAY then N_STATE_RELAY
  else if t =? T_RSPOS then N_STATE_RSPOS else if t =? T_TILT then N_STATE_TILT
  else if t =? T_TIME2LEFT then N_STATE_TIME2LEFT else if t =? T_CHFUNC then N_CHFUNC
  else if t =? T_RUNTIMECFG then N_RUNTIMECFG else if t =? T_VISTYPE then N_VISTYPE
  else if t =? T_GPIO then GPIO_PINS else if t =? T_GLOBAL then N_GLOBAL else 0.

(* supla_rs_cfg[i].up->channel == c; either relay of the pair, because MotorUpsideDown exchanges up and down *)
Definition rs_matches (b : board) (i c : Z) : bool :=
  rs_present b i && ((r_channel (relay_at b (rs_up b i)) =? c) || (r_channel (relay_at b (rs_down b i)) =? c)).

(* supla_esp_gpio_relay_hi(port): the output pin and, through the loop `supla_relay_cfg[a].gpio_id == port`,
   the saved state of the slot(s) carrying that port *)
Definition relay_out_cells (b : board) (a : Z) : list cell :=
  (T_GPIO, r_gpio (relay_at b a))
  :: map (fun a' => (T_STATE_RELAY, a')) (filter (fun a' => r_gpio (relay_at b a') =? r_gpio (relay_at b a)) (slots RELAY_MAX)).

(* supla_esp_gpio_rs_apply_new__times(idx) after its guard idx < RS_MAX_COUNT && up != NULL && down != NULL,
   supla_esp_gpio_rs_add_task / _rs_set_relay on &supla_rs_cfg[idx] *)
Definition rs_cells (i : Z) : list cell :=
  [(T_RS, i); (T_TIME1, i); (T_TIME2, i); (T_TIME3, i); (T_AUTO_O, i); (T_AUTO_C, i); (T_RSPOS, i); (T_TILT, i)].
Definition rs_all_cells (b : board) (i : Z) : list cell :=
  rs_cells i ++ relay_out_cells b (rs_up b i) ++ relay_out_cells b (rs_down b i).

(* supla_esp_channel_set_value (also reached from supla_esp_channelgroup_set_value) *)
Definition set_value_mw (b : board) (c : Z) : list cell :=
  let rss := filter (fun i => rs_matches b i c) (slots RS_MAX) in
  match rss with
  | _ :: _ => flat_map (rs_all_cells b) rss
  | [] =>
      flat_map (fun a => relay_out_cells b a ++ (if c <? STATE_TIME2_COUNT then [(T_TIME2LEFT, c)] else []))
               (filter (fun a => negb (r_gpio (relay_at b a) =? 255) && (r_channel (relay_at b a) =? c)) (slots RELAY_MAX))
  end.

(* supla_esp_calcfg_request; c is the signed 32-bit ChannelNumber *)
Definition calcfg_mw (b : board) (c cmd su dtype dsize : Z) : list cell :=
  if (cmd =? CMD_ENTER_CFG_MODE) then []
  else if (cmd =? CMD_RECALIBRATE) && (((dtype =? DATATYPE_RS_SETTINGS) && (dsize =? CAL_RS_SETTINGS_SIZE)) || (dtype =? 0))
          && negb (su =? 0)
  then flat_map (rs_all_cells b) (filter (fun i => rs_matches b i c) (slots RS_MAX))
  else [].

(* the `switch (result->Func)` of supla_esp_channel_config_result as generated: kind 1 = roller-shutter group
   (supla_esp_gpio_rs_apply_new_config), kind 2 = facade-blind group (supla_esp_gpio_fb_apply_new_config) *)
Definition func_has_kind (k f : Z) : bool :=
  existsb (fun row => match row with [g; k'] => (g =? f) && (k' =? k) | _ => false end) CONFIG_FUNCS.
Definition is_relay_func (f : Z) : bool := (f =? FNC_STAIRCASE) || (f =? FNC_POWERSWITCH) || (f =? FNC_LIGHTSWITCH).
Definition is_rs_func (f : Z) : bool := func_has_kind 1 f.
Definition is_fb_func (f : Z) : bool := func_has_kind 2 f.

(* guards of the two apply_new_config functions.
   `fixed = true`: the rows generated from the working tree, [kind; e; gm; ga; gb; im; ia]: e = 1: the function returns
   unless the shutter exists in slot c; the exchange of supla_input_cfg[im*c] and [im*c+ia] happens under gm*c + ga < gb.
   `fixed = false`: the code before docs/fixes/C03_rs_config_guards.diff: no existence test, no bound. *)
Definition guard_of (fixed : bool) (kind : Z) : list Z :=
  if fixed then
    match find (fun row => match row with k :: _ => k =? kind | [] => false end) BUTTON_GUARDS with
    | Some row => row | None => [kind; 0; 0; 0; 1; 2; 1] end
  else [kind; 0; 0; 0; 1; 2; 1].

Definition apply_config_cells (b : board) (c bud : Z) (exists_guard : bool) (gm ga gb im ia : Z) : list cell :=
  if (0 <=? c) && (c <? RS_MAX) && (negb exists_guard || rs_present b c) then
    [(T_MOTOR_UD, c); (T_RS, c); (T_TIME_MARGIN, c); (T_TILT_TYPE, c); (T_TIME3, c)]
    ++ (if (0 <? bud) && (bud <? 3)
        then (T_GLOBAL, 0) :: (if gm * c + ga <? gb then [(T_INPUT, im * c); (T_INPUT, im * c + ia)] else [])
        else [])
    ++ (if rs_present b c then rs_all_cells b c else [])
  else [].

(* supla_esp_gpio_rs_apply_new_config (kind 1) / supla_esp_gpio_fb_apply_new_config (kind 2) for channel_number = c *)
Definition apply_config_mw (fixed : bool) (b : board) (kind c bud : Z) : list cell :=
  match guard_of fixed kind with
  | [_; e; gm; ga; gb; im; ia] => apply_config_cells b c bud (e =? 1) gm ga gb im ia
  | _ => []
  end.

(* supla_esp_channel_config_result *)
Definition config_result_mw (fixed : bool) (b : board) (c func ctype csize bud_rs bud_fb : Z) : list cell :=
  if (0 <? func) && (ctype =? 0) && (csize =? 0) then []
  else if is_relay_func func then
    if c <? TIME2_COUNT then
      [(T_TIME2, c)] ++ (if c <? STATE_TIME2_COUNT then [(T_TIME2LEFT, c)] else [])
      ++ flat_map (relay_out_cells b)
           (filter (fun a => negb (r_gpio (relay_at b a) =? 255) && (r_channel (relay_at b a) =? c)) (slots RELAY_MAX))
    else []
  else if is_rs_func func then
    if (ctype =? 0) && (RSC_SIZE <=? csize) then (T_VISTYPE, c) :: apply_config_mw fixed b 1 c bud_rs else []
  else if is_fb_func func then
    if (ctype =? 0) && (FBC_SIZE <=? csize) then (T_VISTYPE, c) :: apply_config_mw fixed b 2 c bud_fb else []
  else if func =? FNC_ACTIONTRIGGER then
    if (ctype =? 0) && (csize =? ATC_SIZE)
    then map (fun i => (T_INPUT, i)) (filter (fun i => i_channel (input_at b i) =? c) (slots INPUT_MAX))
    else []
  else [].

(* case SUPLA_SD_CALL_SET_CHANNEL_CONFIG / SUPLA_SD_CALL_GET_CHANNEL_CONFIG_RESULT of the dispatcher *)
Definition config_mw (fixed : bool) (b : board) (p : list Z) : list cell :=
  let c := nthz p CC_CHANNEL in
  if c <? CHANNEL_MAX then
    [(T_CHFUNC, c); (T_RUNTIMECFG, c)]
    ++ config_result_mw fixed b c (s32 (le32 p CC_FUNC)) (nthz p CC_TYPE) (le16 p CC_SIZE)
         (nthz p (CC_HDR + RSC_BUTTONS_UD)) (nthz p (CC_HDR + FBC_BUTTONS_UD))
  else [].

Definition finished_mw (p : list Z) : list cell :=
  let c := nthz p FIN_CHANNEL in if c <? CHANNEL_MAX then [(T_RUNTIMECFG, c)] else [].

(* the channel a message names (None: the message names no channel) *)
Definition named_channel (id : Z) (p : list Z) : option Z :=
  if id =? CALL_SET_VALUE then Some (nthz p NV_CHANNEL)
  else if id =? CALL_GROUP_SET_VALUE then Some (nthz p GV_CHANNEL)
  else if id =? CALL_CALCFG then Some (s32 (le32 p CAL_CHANNEL))
  else if (id =? CALL_GET_CONFIG_RESULT) || (id =? CALL_SET_CONFIG) then Some (nthz p CC_CHANNEL)
  else if id =? CALL_CONFIG_FINISHED then Some (nthz p FIN_CHANNEL)
  else None.

(* cells that handling one delivered message may write *)
Definition handler_mw (fixed : bool) (b : board) (id : Z) (p : list Z) : list cell :=
  if id =? CALL_SET_VALUE then set_value_mw b (nthz p NV_CHANNEL)
  else if id =? CALL_GROUP_SET_VALUE then set_value_mw b (nthz p GV_CHANNEL)
  else if id =? CALL_CALCFG then
    calcfg_mw b (s32 (le32 p CAL_CHANNEL)) (s32 (le32 p CAL_COMMAND)) (nthz p CAL_SUPERUSER)
              (s32 (le32 p CAL_DATATYPE)) (le32 p CAL_DATASIZE)
  else if (id =? CALL_GET_CONFIG_RESULT) || (id =? CALL_SET_CONFIG) then config_mw fixed b p
  else if id =? CALL_CONFIG_FINISHED then finished_mw p
  else [].

Definition may_write (fixed : bool) (b : board) (id : Z) (payload scratch : list Z) : list cell :=
  if reaches_handler (b_devcfg b) id payload scratch then handler_mw fixed b id payload else [].

(* ---- countdown-timer maintenance ----
   supla_esp_countdown_timer_countdown() (reached only through supla_esp_gpio_relay_set_duration_timer on the relay
   path of set-value and on the relay-function path of channel config) arms the slot of the named channel and then
   evaluates ALL running slots (supla_esp_countdown_timer_cb): for a channel Y with a running timer it refreshes
   supla_esp_state.Time2Left[Y] and, when that timer has expired, performs Y's pending switch-back
   (_supla_esp_channel_set_value on the relay of Y).  `armed` = channels whose slot an earlier message may have armed. *)
Definition relays_of (b : board) (c : Z) : list Z :=
  filter (fun a => negb (r_gpio (relay_at b a) =? 255) && (r_channel (relay_at b a) =? c)) (slots RELAY_MAX).
Definition relay_path (b : board) (c : Z) : bool :=
  match filter (fun i => rs_matches b i c) (slots RS_MAX) with [] => negb (len (relays_of b c) =? 0) | _ :: _ => false end.
Definition evaluates_timers (b : board) (id : Z) (p : list Z) : bool :=
  if id =? CALL_SET_VALUE then relay_path b (nthz p NV_CHANNEL)
  else if id =? CALL_GROUP_SET_VALUE then relay_path b (nthz p GV_CHANNEL)
  else if (id =? CALL_GET_CONFIG_RESULT) || (id =? CALL_SET_CONFIG) then
    let c := nthz p CC_CHANNEL in
    (c <? CHANNEL_MAX) && (c <? TIME2_COUNT) && is_relay_func (s32 (le32 p CC_FUNC)) && negb (len (relays_of b c) =? 0)
  else false.
Definition timer_cells (b : board) (y : Z) : list cell :=
  (if (0 <=? y) && (y <? STATE_TIME2_COUNT) then [(T_TIME2LEFT, y)] else [])
  ++ flat_map (relay_out_cells b)
       (filter (fun a => negb (r_gpio (relay_at b a) =? 255) && (r_channel (relay_at b a) =? y)) (slots RELAY_MAX)).
Definition timer_mw (b : board) (armed : list Z) (id : Z) (payload scratch : list Z) : list cell :=
  if reaches_handler (b_devcfg b) id payload scratch && evaluates_timers b id payload
  then flat_map (timer_cells b) armed else [].
(* everything one delivered message may write: its own effects and the maintenance of running timers *)
Definition may_write_t (fixed : bool) (b : board) (armed : list Z) (id : Z) (payload scratch : list Z) : list cell :=
  may_write fixed b id payload scratch ++ timer_mw b armed id payload scratch.
Definition armed_after (b : board) (armed : list Z) (id : Z) (payload scratch : list Z) : list Z :=
  if reaches_handler (b_devcfg b) id payload scratch && evaluates_timers b id payload
  then match named_channel id payload with Some c => c :: armed | None => armed end
  else armed.
(* a cell that the evaluation of channel y's timer may touch: its remaining time, its relay pin(s) and saved relay state *)
Definition timer_table (t : Z) : bool := (t =? T_TIME2LEFT) || (t =? T_GPIO) || (t =? T_STATE_RELAY).

(* ---- ownership: which channel a cell belongs to ---- *)
Definition rs_indexed (t : Z) : bool :=
  (t =? T_RS) || (t =? T_TIME1) || (t =? T_TIME3) || (t =? T_AUTO_O) || (t =? T_AUTO_C) || (t =? T_TILT_TYPE)
  || (t =? T_TIME_MARGIN) || (t =? T_RSPOS) || (t =? T_TILT) || (t =? T_MOTOR_UD).
Definition channel_indexed (t : Z) : bool :=
  (t =? T_TIME2) || (t =? T_TIME2LEFT) || (t =? T_CHFUNC) || (t =? T_RUNTIMECFG) || (t =? T_VISTYPE).

(* `owns b c (t, i)`: cell i of table t is device-level or belongs to channel c *)
Definition owns (b : board) (c : Z) (cl : cell) : Prop :=
  let '(t, i) := cl in
  if t =? T_GLOBAL then True
  else if rs_indexed t || channel_indexed t then i = c          (* slot i <-> channel i (wf_board) *)
  else if t =? T_INPUT then (i_channel (input_at b i) = c /\ c <> 255) \/ (rs_present b c = true /\ (i = 2 * c \/ i = 2 * c + 1))
  else if t =? T_STATE_RELAY then r_channel (relay_at b i) = c /\ r_gpio (relay_at b i) <> 255
  else if t =? T_GPIO then exists a, 0 <= a < RELAY_MAX /\ r_gpio (relay_at b a) = i /\ i <> 255 /\ r_channel (relay_at b a) = c
  else False.

Definition relay_ok (r : relay) : Prop := 0 <= r_gpio r < GPIO_PINS - 1 /\ 0 <= r_channel r < 255.
Definition input_ok (i : input) : Prop := 0 <= i_channel i <= 255 /\ 0 <= i_relay_gpio i <= 255.

(* the boards the theorems speak about *)
Record wf_board (b : board) : Prop := {
  wf_nrelay : len (b_relays b) <= RELAY_MAX;
  wf_nrs : len (b_rs b) <= RS_MAX;
  wf_ninput : len (b_inputs b) <= INPUT_MAX;
  wf_relays : Forall relay_ok (b_relays b);
  wf_inputs : Forall input_ok (b_inputs b);
  (* two slots driving the same pin belong to the same channel *)
  wf_gpio_channel : forall a a', 0 <= a < len (b_relays b) -> 0 <= a' < len (b_relays b) ->
      r_gpio (relay_at b a) = r_gpio (relay_at b a') -> r_channel (relay_at b a) = r_channel (relay_at b a');
  (* the firmware's convention: the shutter in slot i is channel i, made of two configured relays *)
  wf_rs_slot_is_channel : forall i, rs_present b i = true ->
      0 <= rs_up b i < len (b_relays b) /\ 0 <= rs_down b i < len (b_relays b) /\
      r_channel (relay_at b (rs_up b i)) = i /\ r_channel (relay_at b (rs_down b i)) = i;
  (* ... and inputs 2i, 2i+1 are its buttons: they carry no other channel *)
  wf_rs_buttons : forall i j, rs_present b i = true -> (j = 2 * i \/ j = 2 * i + 1) -> 0 <= j < len (b_inputs b) ->
      i_channel (input_at b j) = 255 \/ i_channel (input_at b j) = i
}.

(* no relay or shutter of the board carries channel c *)
Definition no_object (b : board) (c : Z) : Prop :=
  forall a, 0 <= a < RELAY_MAX -> r_gpio (relay_at b a) <> 255 -> r_channel (relay_at b a) <> c.

(* supla_esp_on_register_result, default branch: buff = os_malloc(REG_UNKNOWN_ALLOC);
   ets_snprintf(buff, REG_UNKNOWN_BOUND, "Unknown code %i", result_code) writes min(bound, needed) bytes, where `needed`
   is the length of the formatted text + 1 for whatever 32-bit result_code the server sends *)
Definition snprintf_written (bound needed : Z) : Z := Z.min bound needed.
Definition reg_unknown_written (needed : Z) : Z := snprintf_written REG_UNKNOWN_BOUND needed.

(* supla_esp_input_set_active_triggers: an action-trigger config activates only what the input offers *)
Definition at_active (cap requested : Z) : Z := Z.land cap requested.
(* the action-trigger branch of supla_esp_channel_config_result is taken *)
Definition at_config (b : board) (id : Z) (p scratch : list Z) : bool :=
  reaches_handler (b_devcfg b) id p scratch
  && ((id =? CALL_GET_CONFIG_RESULT) || (id =? CALL_SET_CONFIG))
  && (nthz p CC_CHANNEL <? CHANNEL_MAX)
  && negb ((0 <? s32 (le32 p CC_FUNC)) && (nthz p CC_TYPE =? 0) && (le16 p CC_SIZE =? 0))
  && (s32 (le32 p CC_FUNC) =? FNC_ACTIONTRIGGER) && (nthz p CC_TYPE =? 0) && (le16 p CC_SIZE =? ATC_SIZE).
(* active_triggers of every input slot after the message *)
Definition active_after (b : board) (act : list Z) (id : Z) (p scratch : list Z) : list Z :=
  if at_config b id p scratch then
    map (fun i => if i_channel (input_at b i) =? nthz p CC_CHANNEL
                  then at_active (i_atcap (input_at b i)) (le32 p (CC_HDR + ATC_ACTIONS))
                  else nth (Z.to_nat i) act 0) (slots INPUT_MAX)
  else act.

(* ================= wire interface ================= *)
(* events: 0 CFG devcfg fwupd nrel (gpio ch flags chflags)* nrs (up down)* nin (gpio type flags relay_gpio channel atcap)*
           1 GATE | 2 SRV call rr : payload | 3 ADV us | 4 SKEW us (the clock runs on, no timer fires)
   outputs: 0 EV k | 1 V call result has_data | 2 MW table index | 3 AT input active_triggers *)
Fixpoint take_relays (n : nat) (l : list Z) : list relay * list Z :=
  match n, l with
  | S k, g :: c :: f :: cf :: r => let '(rs, rest) := take_relays k r in ({| r_gpio := g; r_channel := c; r_flags := f; r_chflags := cf |} :: rs, rest)
  | _, _ => ([], l)
  end.
Fixpoint take_pairs (n : nat) (l : list Z) : list (Z * Z) * list Z :=
  match n, l with
  | S k, u :: d :: r => let '(ps, rest) := take_pairs k r in ((u, d) :: ps, rest)
  | _, _ => ([], l)
  end.
Fixpoint take_inputs (n : nat) (l : list Z) : list input * list Z :=
  match n, l with
  | S k, g :: t :: f :: rg :: c :: ac :: r =>
      let '(ins, rest) := take_inputs k r in
      ({| i_gpio := g; i_type := t; i_flags := f; i_relay_gpio := rg; i_channel := c; i_atcap := ac |} :: ins, rest)
  | _, _ => ([], l)
  end.
Definition board_of_ints (l : list Z) : board :=
  match l with
  | dc :: _ :: nrel :: r1 =>          (* the second integer (firmware-update flag) only concerns the driver *)
      let '(rels, r2) := take_relays (Z.to_nat nrel) r1 in
      match r2 with
      | nrs :: r3 =>
          let '(rss, r4) := take_pairs (Z.to_nat nrs) r3 in
          match r4 with
          | nin :: r5 => {| b_devcfg := dc =? 1; b_relays := rels; b_rs := rss; b_inputs := fst (take_inputs (Z.to_nat nin) r5) |}
          | [] => {| b_devcfg := dc =? 1; b_relays := rels; b_rs := rss; b_inputs := [] |}
          end
      | [] => {| b_devcfg := dc =? 1; b_relays := rels; b_rs := []; b_inputs := [] |}
      end
  | _ => {| b_devcfg := false; b_relays := []; b_rs := []; b_inputs := [] |}
  end.

Definition verdict_ints (id : Z) (v : verdict) : list Z :=
  match v with
  | VTrue _ a => [id; SRPC_RESULT_TRUE; if 0 <? a then 1 else 0]
  | VFalse => [id; SRPC_RESULT_FALSE; 0]
  | VDataError => [id; SRPC_RESULT_DATA_ERROR; 0]
  end.

Record mstate := { m_board : option board; m_scratch : list Z; m_k : Z; m_armed : list Z; m_active : list Z }.

(* the code of the tree as it will be after the proposed repair *)
Definition CURRENT_FIXED : bool := true.

Definition step_wire (fixed : bool) (s : mstate) (w : wire) : mstate * list wire :=
  let '(k, a, p) := w in
  if k =? 0 then ({| m_board := Some (board_of_ints a); m_scratch := m_scratch s; m_k := m_k s; m_armed := []; m_active := map (fun _ => 0) (slots INPUT_MAX) |}, [])
  else if k =? 1 then ({| m_board := None; m_scratch := m_scratch s; m_k := m_k s; m_armed := []; m_active := [] |}, [])
  else if k =? 2 then
    let id := hd 0 a in
    let d := scratch_after (m_scratch s) p in
    let v := getdata TARGET_BITS SRPC_ROWS id (len p) d in
    let mw := match m_board s with
              | Some b => map (fun c => mk 2 [fst c; snd c] []) (may_write_t fixed b (m_armed s) id p (m_scratch s))
              | None => []
              end in
    let armed' := match m_board s with Some b => armed_after b (m_armed s) id p (m_scratch s) | None => m_armed s end in
    let act' := match m_board s with Some b => active_after b (m_active s) id p (m_scratch s) | None => m_active s end in
    let atl := match m_board s with
              | Some b => map (fun i => mk 3 [i; nth (Z.to_nat i) act' 0] [])
                              (filter (fun i => negb (i_channel (input_at b i) =? 255)) (slots (len (b_inputs b))))
              | None => [] end in
    ({| m_board := m_board s; m_scratch := d; m_k := m_k s + 1; m_armed := armed'; m_active := act' |},
     mk 0 [m_k s] [] :: mk 1 (verdict_ints id v) [] :: atl ++ mw)
  else ({| m_board := m_board s; m_scratch := m_scratch s; m_k := m_k s + 1; m_armed := m_armed s; m_active := m_active s |}, [mk 0 [m_k s] []]).

Fixpoint run_wire (fixed : bool) (s : mstate) (ws : list wire) : list wire :=
  match ws with
  | [] => []
  | w :: r => let '(s', o) := step_wire fixed s w in o ++ run_wire fixed s' r
  end.
Definition main_wire (ws : list wire) : list wire :=
  run_wire CURRENT_FIXED {| m_board := None; m_scratch := []; m_k := 0; m_armed := []; m_active := [] |} ws.
