(* C03 — proofs about C03/Model.v.  Generated tables/constants enter only through boolean checks
   closed by vm_compute (table_ok*, consts_ok), so a harmless change of a size or a new row re-proves. *)
From Coq Require Import List ZArith Bool Lia.
Import ListNotations.
From V Require Import Base.U32 Base.Bytes Base.Iface Gen.SrpcTable Gen.C03Consts C03.Model.
Local Open Scope Z_scope.

(* ================= generic list facts ================= *)
Lemma In_slots x n : In x (slots n) <-> 0 <= x < n.
Proof.
  unfold slots. rewrite in_map_iff. split.
  - intros (k & <- & H). apply in_seq in H. lia.
  - intros H. exists (Z.to_nat x). split; [lia|]. apply in_seq. lia.
Qed.

Lemma memz_In x l : memz x l = true <-> In x l.
Proof.
  unfold memz. rewrite existsb_exists. split.
  - intros (y & Hy & E). apply Z.eqb_eq in E. subst; auto.
  - intros H. exists x. split; [auto|apply Z.eqb_refl].
Qed.

Lemma nthz_take n l i : 0 <= i < n -> nthz (take n l) i = nthz l i.
Proof.
  intros H. unfold nthz, take.
  assert (Hn : (Z.to_nat i < Z.to_nat n)%nat) by lia.
  revert Hn. generalize (Z.to_nat i) as a, (Z.to_nat n) as m. clear.
  intros a m. revert a l. induction m as [|m IH]; intros a l Hn; [lia|].
  destruct l as [|x l]; cbn [firstn]; [reflexivity|].
  destruct a as [|a]; cbn [nth]; [reflexivity|]. apply IH. lia.
Qed.

Lemma le_n_take k n l o : 0 <= o -> o + Z.of_nat k <= n -> le_n k (take n l) o = le_n k l o.
Proof.
  revert o. induction k as [|k IH]; intros o Ho Hn; cbn [le_n]; [reflexivity|].
  rewrite nthz_take by lia. rewrite IH by lia. reflexivity.
Qed.

Lemma le_n_range k d o : bytes_ok d -> 0 <= le_n k d o < 256 ^ Z.of_nat k.
Proof.
  intros Hb. revert o. induction k as [|k IH]; intros o.
  - cbn. lia.
  - cbn [le_n]. rewrite Nat2Z.inj_succ, Z.pow_succ_r by lia.
    pose proof (nthz_ok d o Hb) as H1. unfold byte_ok in H1. specialize (IH (o + 1)). lia.
Qed.

Lemma len_take_le {A} n (l : list A) : 0 <= n <= len l -> len (take n l) = n.
Proof. intros; rewrite len_take by lia; lia. Qed.

(* ================= part 1 ================= *)
Definition field_ok (hdr : Z) (f : field) : bool :=
  let '(o, w, sg) := f in
  (0 <=? o) && ((w =? 1) || (w =? 2) || (w =? 4)) && (o + w <=? hdr) && negb sg.
Definition fmax (fs : list field) : Z := fold_right (fun f acc => 2 ^ (8 * snd (fst f)) - 1 + acc) 0 fs.

(* what every generated rule must satisfy (checked for the whole table by computation) *)
Definition rule_ok (wbits : Z) (r : rule) : bool :=
  match r with
  | RNoData => true
  | RExact alloc sizes nocopy =>
      forallb (fun s => (0 <=? s) && (s <=? alloc)) sizes && forallb (fun s => memz s sizes) nocopy
  | RVar alloc sizeT hdr item max zr fs =>
      (0 <=? hdr) && (0 <? item) && (0 <=? max) && (hdr + item * max =? sizeT) && (sizeT <=? alloc)
      && forallb (field_ok hdr) fs && negb (len fs =? 0)
      && (fmax fs * item <? 2 ^ wbits) && (sizeT <? 2 ^ wbits)
      (* the C expression adds the count fields as `int`: no overflow when two fields are at most 16 bits wide *)
      && ((len fs =? 1) || forallb (fun f => snd (fst f) <=? 2) fs)
  end.
Definition row_ok (wbits : Z) (row : list Z) : bool :=
  match rule_of_row row with Some (_, r) => rule_ok wbits r | None => false end.

Lemma table_ok32 : forallb (row_ok 32) SRPC_ROWS = true. Proof. vm_compute. reflexivity. Qed.
Lemma table_ok64 : forallb (row_ok 64) SRPC_ROWS = true. Proof. vm_compute. reflexivity. Qed.

Lemma lookup_In rows id r : lookup rows id = Some r -> exists row, In row rows /\ rule_of_row row = Some (id, r).
Proof.
  induction rows as [|row rows IH]; cbn [lookup]; [discriminate|].
  destruct (rule_of_row row) as [[i ru]|] eqn:E.
  - destruct (i =? id) eqn:Ei.
    + intros H. apply Z.eqb_eq in Ei. assert (ru = r) by congruence. subst. exists row. split; [left; reflexivity|exact E].
    + intros H. destruct (IH H) as (row' & Hin & Hr). exists row'. split; [right; exact Hin|exact Hr].
  - intros H. destruct (IH H) as (row' & Hin & Hr). exists row'. split; [right; exact Hin|exact Hr].
Qed.

Lemma lookup_rule_ok wbits rows id r : forallb (row_ok wbits) rows = true -> lookup rows id = Some r -> rule_ok wbits r = true.
Proof.
  intros Ht Hl. destruct (lookup_In _ _ _ Hl) as (row & Hin & Hr).
  rewrite forallb_forall in Ht. specialize (Ht row Hin). unfold row_ok in Ht. rewrite Hr in Ht. exact Ht.
Qed.

Lemma fval_range hdr d f : bytes_ok d -> field_ok hdr f = true -> 0 <= fval d f <= 2 ^ (8 * snd (fst f)) - 1.
Proof.
  intros Hb Hf. destruct f as [[o w] sg]. unfold field_ok in Hf. cbn [fst snd].
  apply andb_prop in Hf. destruct Hf as [Hf Hsg]. apply andb_prop in Hf. destruct Hf as [Hf _].
  apply andb_prop in Hf. destruct Hf as [_ Hw].
  destruct sg; [discriminate|]. unfold fval. cbn [andb].
  apply orb_prop in Hw. destruct Hw as [Hw|Hw]; [apply orb_prop in Hw; destruct Hw as [Hw|Hw]|];
    apply Z.eqb_eq in Hw; subst w.
  - pose proof (le_n_range (Z.to_nat 1) d o Hb) as H. change (256 ^ Z.of_nat (Z.to_nat 1)) with 256 in H.
    change (2 ^ (8 * 1)) with 256. lia.
  - pose proof (le_n_range (Z.to_nat 2) d o Hb) as H. change (256 ^ Z.of_nat (Z.to_nat 2)) with 65536 in H.
    change (2 ^ (8 * 2)) with 65536. lia.
  - pose proof (le_n_range (Z.to_nat 4) d o Hb) as H. change (256 ^ Z.of_nat (Z.to_nat 4)) with 4294967296 in H.
    change (2 ^ (8 * 4)) with 4294967296. lia.
Qed.

Lemma declared_range hdr d fs : bytes_ok d -> forallb (field_ok hdr) fs = true -> 0 <= declared d fs <= fmax fs.
Proof.
  intros Hb. induction fs as [|f fs IH]; cbn [forallb declared fmax fold_right]; [lia|].
  intros H. apply andb_prop in H. destruct H as [Hf Hr].
  pose proof (fval_range hdr d f Hb Hf). specialize (IH Hr). unfold declared, fmax in IH. lia.
Qed.

Lemma fval_take hdr n d f : field_ok hdr f = true -> hdr <= n -> fval (take n d) f = fval d f.
Proof.
  intros Hf Hn. destruct f as [[o w] sg]. unfold field_ok in Hf.
  apply andb_prop in Hf. destruct Hf as [Hf _]. apply andb_prop in Hf. destruct Hf as [Hf Hoff].
  apply andb_prop in Hf. destruct Hf as [Ho Hw]. apply Z.leb_le in Ho, Hoff.
  unfold fval. rewrite le_n_take; [reflexivity|lia|].
  apply orb_prop in Hw. destruct Hw as [Hw|Hw]; [apply orb_prop in Hw; destruct Hw as [Hw|Hw]|];
    apply Z.eqb_eq in Hw; subst w; lia.
Qed.

Lemma declared_take hdr n d fs : forallb (field_ok hdr) fs = true -> hdr <= n -> declared (take n d) fs = declared d fs.
Proof.
  intros H Hn. induction fs as [|f fs IH]; cbn [declared fold_right forallb] in *; [reflexivity|].
  apply andb_prop in H. destruct H as [Hf Hr]. rewrite (fval_take hdr) by assumption.
  unfold declared in IH. rewrite IH by assumption. reflexivity.
Qed.

Lemma pow2_pos w : 0 < 2 ^ w \/ 2 ^ w = 0.
Proof. destruct (Z.lt_ge_cases w 0); [right; apply Z.pow_neg_r; lia|left; apply Z.pow_pos_nonneg; lia]. Qed.

(* the generic step: one variable-size rule, any data_size, any scratch content *)
Lemma var_sound wbits alloc sizeT hdr item max zr fs ds d n a :
  rule_ok wbits (RVar alloc sizeT hdr item max zr fs) = true -> bytes_ok d -> 0 <= ds ->
  apply_rule wbits (RVar alloc sizeT hdr item max zr fs) ds d = VTrue n a ->
  n = ds /\ a = alloc /\ ds <= alloc /\ hdr <= ds /\ forallb (field_ok hdr) fs = true /\
  0 <= declared d fs <= max /\ ds = hdr + declared d fs * item.
Proof.
  intros Hok Hb Hds. cbn [rule_ok] in Hok.
  repeat (apply andb_prop in Hok; destruct Hok as [Hok ?]).
  apply Z.leb_le in Hok.
  match goal with H : (0 <? item) = true |- _ => apply Z.ltb_lt in H end.
  match goal with H : (0 <=? max) = true |- _ => apply Z.leb_le in H end.
  match goal with H : (hdr + item * max =? sizeT) = true |- _ => apply Z.eqb_eq in H end.
  match goal with H : (sizeT <=? alloc) = true |- _ => apply Z.leb_le in H end.
  match goal with H : (fmax fs * item <? 2 ^ wbits) = true |- _ => apply Z.ltb_lt in H end.
  match goal with H : (sizeT <? 2 ^ wbits) = true |- _ => apply Z.ltb_lt in H end.
  match goal with H : forallb (field_ok hdr) fs = true |- _ => pose proof (declared_range hdr d fs Hb H) as Hdr; rename H into Hfs end.
  cbn [apply_rule].
  destruct (zr && match fs with f :: _ => fval d f =? 0 | [] => false end); [discriminate|].
  destruct ((hdr <=? ds) && (ds <=? sizeT) && ((declared d fs * item) mod 2 ^ wbits =? (ds - hdr) mod 2 ^ wbits)) eqn:E; [|discriminate].
  intros Hv. assert (n = ds /\ a = alloc) as [-> ->] by (split; congruence).
  apply andb_prop in E. destruct E as [E Em]. apply andb_prop in E. destruct E as [E1 E2].
  apply Z.leb_le in E1, E2. apply Z.eqb_eq in Em.
  set (W := 2 ^ wbits) in *. set (dc := declared d fs) in *.
  assert (0 <= dc * item < W) by nia.
  assert (0 <= ds - hdr < W) by lia.
  rewrite !Z.mod_small in Em by assumption.
  repeat split; try lia; try assumption. nia.
Qed.

Lemma exact_sound alloc sizes nocopy ds d wbits n a :
  rule_ok wbits (RExact alloc sizes nocopy) = true ->
  apply_rule wbits (RExact alloc sizes nocopy) ds d = VTrue n a ->
  In ds sizes /\ a = alloc /\ (n = ds \/ n = 0) /\ 0 <= ds <= alloc.
Proof.
  cbn [rule_ok apply_rule]. intros Hok. apply andb_prop in Hok. destruct Hok as [Hs _].
  destruct (memz ds sizes) eqn:E; [|discriminate]. apply memz_In in E.
  rewrite forallb_forall in Hs. specialize (Hs ds E). apply andb_prop in Hs. destruct Hs as [H1 H2].
  apply Z.leb_le in H1, H2.
  destruct (memz ds nocopy); intros Hv; (assert (a = alloc) by congruence); subst;
    (repeat split; [assumption|..|lia|lia]); [right|left]; congruence.
Qed.

Lemma getdata_sound wbits id payload scratch n a :
  forallb (row_ok wbits) SRPC_ROWS = true -> bytes_ok payload -> bytes_ok scratch ->
  getdata wbits SRPC_ROWS id (len payload) (scratch_after scratch payload) = VTrue n a ->
  exists r, lookup SRPC_ROWS id = Some r /\ size_matches r payload /\ 0 <= n <= a /\ n <= len payload.
Proof.
  intros Ht Hp Hs. unfold getdata. destruct (lookup SRPC_ROWS id) as [r|] eqn:El; [|discriminate].
  pose proof (lookup_rule_ok wbits _ _ _ Ht El) as Hok.
  pose proof (len_nonneg payload) as Hl0.
  assert (Hd : bytes_ok (scratch_after scratch payload)).
  { unfold scratch_after. apply bytes_ok_app. split; [assumption|apply bytes_ok_drop; assumption]. }
  intros Hv. exists r. split; [reflexivity|].
  destruct r as [|alloc sizes nocopy|alloc sizeT hdr item max zr fs].
  - cbn [apply_rule] in Hv. assert (n = 0 /\ a = 0) as [-> ->] by (split; congruence). cbn [size_matches]. repeat split; lia.
  - destruct (exact_sound _ _ _ _ _ _ _ _ Hok Hv) as (Hin & -> & Hn & Hr). cbn [size_matches].
    split; [exact Hin|]. destruct Hn; subst; lia.
  - destruct (var_sound _ _ _ _ _ _ _ _ _ _ _ _ Hok Hd Hl0 Hv) as (-> & -> & Hal & Hh & Hfs & Hdc & Hds).
    cbn [size_matches].
    assert (Et : take (len payload) (scratch_after scratch payload) = payload) by (unfold scratch_after; apply take_app_exact).
    assert (Ed : declared payload fs = declared (scratch_after scratch payload) fs).
    { rewrite <- Et at 1. apply (declared_take hdr); assumption. }
    rewrite Ed. repeat split; lia.
Qed.

Theorem C03_size_gate_thm : forall id payload scratch n a,
  bytes_ok payload -> bytes_ok scratch ->
  getdata TARGET_BITS SRPC_ROWS id (len payload) (scratch_after scratch payload) = VTrue n a ->
  exists r, lookup SRPC_ROWS id = Some r /\ size_matches r payload /\ 0 <= n <= a /\ n <= len payload.
Proof. intros. eapply getdata_sound; eauto. exact table_ok32. Qed.

Theorem C03_size_gate_host_thm : forall id payload scratch n a,
  bytes_ok payload -> bytes_ok scratch ->
  getdata 64 SRPC_ROWS id (len payload) (scratch_after scratch payload) = VTrue n a ->
  exists r, lookup SRPC_ROWS id = Some r /\ size_matches r payload /\ 0 <= n <= a /\ n <= len payload.
Proof. intros. eapply getdata_sound; eauto. exact table_ok64. Qed.

(* the verdict does not depend on the width of size_t (32-bit target, 64-bit host of the correspondence check) *)
Lemma apply_rule_width r ds d : rule_ok 32 r = true -> rule_ok 64 r = true -> bytes_ok d -> 0 <= ds ->
  apply_rule 32 r ds d = apply_rule 64 r ds d.
Proof.
  intros H32 H64 Hb Hds. destruct r as [|alloc sizes nocopy|alloc sizeT hdr item max zr fs]; try reflexivity.
  cbn [apply_rule].
  destruct (zr && match fs with f :: _ => fval d f =? 0 | [] => false end); [reflexivity|].
  destruct ((hdr <=? ds) && (ds <=? sizeT)) eqn:E; cbn [andb]; [|reflexivity].
  apply andb_prop in E. destruct E as [E1 E2]. apply Z.leb_le in E1, E2.
  cbn [rule_ok] in H32, H64.
  repeat (apply andb_prop in H32; destruct H32 as [H32 ?]).
  repeat (apply andb_prop in H64; destruct H64 as [H64 ?]).
  repeat match goal with H : (_ <? _) = true |- _ => apply Z.ltb_lt in H end.
  repeat match goal with H : (_ <=? _) = true |- _ => apply Z.leb_le in H end.
  match goal with H : forallb (field_ok hdr) fs = true |- _ => pose proof (declared_range hdr d fs Hb H) as Hdr end.
  set (dc := declared d fs) in *.
  assert (0 <= dc * item < 2 ^ 32) by nia. assert (0 <= dc * item < 2 ^ 64) by nia.
  assert (0 <= ds - hdr < 2 ^ 32) by lia. assert (0 <= ds - hdr < 2 ^ 64) by lia.
  rewrite !Z.mod_small by assumption. reflexivity.
Qed.

Theorem C03_gate_width_irrelevant_thm : forall id payload scratch,
  bytes_ok payload -> bytes_ok scratch ->
  getdata 32 SRPC_ROWS id (len payload) (scratch_after scratch payload)
  = getdata 64 SRPC_ROWS id (len payload) (scratch_after scratch payload).
Proof.
  intros id payload scratch Hp Hs. unfold getdata. destruct (lookup SRPC_ROWS id) as [r|] eqn:El; [|reflexivity].
  apply apply_rule_width.
  - exact (lookup_rule_ok 32 _ _ _ table_ok32 El).
  - exact (lookup_rule_ok 64 _ _ _ table_ok64 El).
  - unfold scratch_after. apply bytes_ok_app. split; [assumption|apply bytes_ok_drop; assumption].
  - apply len_nonneg.
Qed.

Theorem C03_unknown_or_missized_no_handler_thm : forall devcfg id payload scratch,
  bytes_ok payload -> bytes_ok scratch ->
  (lookup SRPC_ROWS id = None \/ exists r, lookup SRPC_ROWS id = Some r /\ ~ size_matches r payload) ->
  reaches_handler devcfg id payload scratch = false /\
  (getdata TARGET_BITS SRPC_ROWS id (len payload) (scratch_after scratch payload) = VDataError \/
   getdata TARGET_BITS SRPC_ROWS id (len payload) (scratch_after scratch payload) = VFalse).
Proof.
  intros devcfg id payload scratch Hp Hs H.
  assert (Hn : forall n a, getdata TARGET_BITS SRPC_ROWS id (len payload) (scratch_after scratch payload) <> VTrue n a).
  { intros n a Hv. destruct (C03_size_gate_thm _ _ _ _ _ Hp Hs Hv) as (r & Hl & Hm & _).
    destruct H as [H|(r' & Hl' & Hnm)]; [congruence|]. assert (r = r') by congruence. subst. contradiction. }
  split.
  - unfold reaches_handler, getdata_ok.
    destruct (getdata TARGET_BITS SRPC_ROWS id (len payload) (scratch_after scratch payload)) eqn:E; try reflexivity.
    exfalso. eapply Hn. reflexivity.
  - destruct (getdata TARGET_BITS SRPC_ROWS id (len payload) (scratch_after scratch payload)) eqn:E; auto.
    exfalso. eapply Hn. reflexivity.
Qed.

(* completeness: a correctly sized message is accepted (except the zero-count early return of one rule) *)
Theorem C03_size_gate_complete_thm : forall id payload scratch r,
  bytes_ok payload -> bytes_ok scratch ->
  lookup SRPC_ROWS id = Some r -> size_matches r payload ->
  (forall alloc sizeT hdr item max f fs, r = RVar alloc sizeT hdr item max true (f :: fs) -> fval payload f <> 0) ->
  exists n a, getdata TARGET_BITS SRPC_ROWS id (len payload) (scratch_after scratch payload) = VTrue n a.
Proof.
  intros id payload scratch r Hp Hs El Hm Hz. unfold getdata. rewrite El.
  pose proof (lookup_rule_ok 32 _ _ _ table_ok32 El) as Hok.
  assert (Hd : bytes_ok (scratch_after scratch payload)).
  { unfold scratch_after. apply bytes_ok_app. split; [assumption|apply bytes_ok_drop; assumption]. }
  assert (Et : take (len payload) (scratch_after scratch payload) = payload) by (unfold scratch_after; apply take_app_exact).
  destruct r as [|alloc sizes nocopy|alloc sizeT hdr item max zr fs].
  - eexists _, _. reflexivity.
  - cbn [size_matches] in Hm. cbn [apply_rule]. apply memz_In in Hm. rewrite Hm.
    destruct (memz (len payload) nocopy); eexists _, _; reflexivity.
  - cbn [size_matches] in Hm. destruct Hm as (Hh & Hdc & Hl).
    cbn [rule_ok] in Hok. repeat (apply andb_prop in Hok; destruct Hok as [Hok ?]).
    repeat match goal with H : (_ <? _) = true |- _ => apply Z.ltb_lt in H end.
    repeat match goal with H : (_ <=? _) = true |- _ => apply Z.leb_le in H end.
    match goal with H : (hdr + item * max =? sizeT) = true |- _ => apply Z.eqb_eq in H end.
    match goal with H : forallb (field_ok hdr) fs = true |- _ => rename H into Hfs end.
    assert (Ed : declared (scratch_after scratch payload) fs = declared payload fs).
    { rewrite <- Et at 2. symmetry. apply (declared_take hdr); assumption. }
    cbn [apply_rule].
    assert (Ez : (zr && match fs with f :: _ => fval (scratch_after scratch payload) f =? 0 | [] => false end) = false).
    { destruct zr; [|reflexivity]. cbn [andb]. destruct fs as [|f fs']; [reflexivity|].
      apply Z.eqb_neq. cbn [forallb] in Hfs. apply andb_prop in Hfs. destruct Hfs as [Hf _].
      rewrite <- (fval_take hdr (len payload) _ f Hf Hh). rewrite Et.
      apply (Hz alloc sizeT hdr item max f fs' eq_refl). }
    rewrite Ez. rewrite Ed.
    assert (E1 : (hdr <=? len payload) = true) by (apply Z.leb_le; lia).
    assert (E2 : (len payload <=? sizeT) = true) by (apply Z.leb_le; nia).
    rewrite E1, E2. cbn [andb].
    replace (len payload - hdr) with (declared payload fs * item) by lia.
    rewrite Z.eqb_refl. eexists _, _. reflexivity.
Qed.

(* ================= part 2 ================= *)
Lemma cfacts :
  0 <= RS_MAX /\ RS_MAX <= N_RS /\ RS_MAX <= N_TIME1 /\ RS_MAX <= N_TIME2 /\ RS_MAX <= N_TIME3 /\ RS_MAX <= N_AUTOCAL_OPEN /\
  RS_MAX <= N_AUTOCAL_CLOSE /\ RS_MAX <= N_TILT_TYPE /\ RS_MAX <= N_TIME_MARGIN /\ RS_MAX <= N_STATE_RSPOS /\
  RS_MAX <= N_STATE_TILT /\ RS_MAX <= MOTOR_UD_BITS /\ RELAY_MAX <= N_STATE_RELAY /\ STATE_TIME2_COUNT <= N_STATE_TIME2LEFT /\
  TIME2_COUNT <= N_TIME2 /\ CHANNEL_MAX <= N_CHFUNC /\ CHANNEL_MAX <= N_RUNTIMECFG /\ CHANNEL_MAX <= N_VISTYPE /\
  INPUT_MAX <= N_INPUT /\ CHANNEL_MAX <= 255 /\ RS_MAX <= 255.
Proof. repeat split; vm_compute; discriminate. Qed.

Lemma tsz :
  tsize T_RS = N_RS /\ tsize T_TIME1 = N_TIME1 /\ tsize T_TIME2 = N_TIME2 /\ tsize T_TIME3 = N_TIME3 /\
  tsize T_AUTO_O = N_AUTOCAL_OPEN /\ tsize T_AUTO_C = N_AUTOCAL_CLOSE /\ tsize T_TILT_TYPE = N_TILT_TYPE /\
  tsize T_TIME_MARGIN = N_TIME_MARGIN /\ tsize T_RSPOS = N_STATE_RSPOS /\ tsize T_TILT = N_STATE_TILT /\
  tsize T_MOTOR_UD = MOTOR_UD_BITS /\ tsize T_STATE_RELAY = N_STATE_RELAY /\ tsize T_TIME2LEFT = N_STATE_TIME2LEFT /\
  tsize T_CHFUNC = N_CHFUNC /\ tsize T_RUNTIMECFG = N_RUNTIMECFG /\ tsize T_VISTYPE = N_VISTYPE /\
  tsize T_INPUT = N_INPUT /\ tsize T_GPIO = GPIO_PINS /\ tsize T_GLOBAL = N_GLOBAL.
Proof. repeat split; reflexivity. Qed.

Definition cell_ok (cl : cell) : Prop := 0 <= snd cl < tsize (fst cl).
Definition good (b : board) (c : Z) (cl : cell) : Prop := cell_ok cl /\ owns b c cl.

Ltac facts := pose proof cfacts as (?&?&?&?&?&?&?&?&?&?&?&?&?&?&?&?&?&?&?&?&?);
              pose proof tsz as (?&?&?&?&?&?&?&?&?&?&?&?&?&?&?&?&?&?&?).

Lemma relay_at_cfg b a : wf_board b -> r_gpio (relay_at b a) <> 255 ->
  0 <= a < len (b_relays b) /\ relay_ok (relay_at b a).
Proof.
  intros W. unfold relay_at. destruct (a <? 0) eqn:E; [cbn; intros; contradiction|].
  apply Z.ltb_ge in E. destruct (Z.lt_ge_cases a (len (b_relays b))) as [H|H].
  - intros _. split; [lia|]. pose proof (wf_relays b W) as F. rewrite Forall_forall in F. apply F.
    apply nth_In. unfold len in H. lia.
  - rewrite nth_overflow by (unfold len in H; lia). cbn. intros; contradiction.
Qed.

Lemma relay_at_in b a : wf_board b -> 0 <= a < len (b_relays b) -> relay_ok (relay_at b a).
Proof.
  intros W H. unfold relay_at. destruct (a <? 0) eqn:E; [apply Z.ltb_lt in E; lia|].
  pose proof (wf_relays b W) as F. rewrite Forall_forall in F. apply F. apply nth_In. unfold len in H. lia.
Qed.

Lemma good_rs_cells b c cl : 0 <= c < RS_MAX -> In cl (rs_cells c) -> good b c cl.
Proof.
  intros Hc Hin. facts. unfold rs_cells in Hin. cbn [In] in Hin.
  repeat (destruct Hin as [<-|Hin]; [split; [unfold cell_ok; cbn [fst snd]; lia|reflexivity]|]). contradiction.
Qed.

Lemma good_relay_out b c a cl : wf_board b -> 0 <= a < len (b_relays b) -> r_channel (relay_at b a) = c ->
  In cl (relay_out_cells b a) -> good b c cl.
Proof.
  intros W Ha Hc Hin. facts. pose proof (relay_at_in b a W Ha) as [Hg Hch]. pose proof (wf_nrelay b W).
  unfold relay_out_cells in Hin. destruct Hin as [<-|Hin].
  - split; [unfold cell_ok; cbn [fst snd]; unfold GPIO_PINS in *; lia|].
    change (exists a0, 0 <= a0 < RELAY_MAX /\ r_gpio (relay_at b a0) = r_gpio (relay_at b a) /\ r_gpio (relay_at b a) <> 255 /\ r_channel (relay_at b a0) = c).
    exists a. repeat split; try lia; try assumption. unfold GPIO_PINS in *; lia.
  - apply in_map_iff in Hin. destruct Hin as (a' & <- & Hf). apply filter_In in Hf. destruct Hf as [Hs He].
    apply In_slots in Hs. apply Z.eqb_eq in He.
    assert (Hn : r_gpio (relay_at b a') <> 255) by (unfold GPIO_PINS in *; lia).
    destruct (relay_at_cfg b a' W Hn) as [Ha' _].
    split; [unfold cell_ok; cbn [fst snd]; lia|].
    change (r_channel (relay_at b a') = c /\ r_gpio (relay_at b a') <> 255). split; [|assumption].
    rewrite <- Hc. apply (wf_gpio_channel b W); assumption.
Qed.

Lemma rs_present_range b i : wf_board b -> rs_present b i = true -> 0 <= i < RS_MAX.
Proof.
  intros W H. unfold rs_present in H. apply andb_prop in H. destruct H as [H1 H2].
  apply Z.leb_le in H1. apply Z.ltb_lt in H2. pose proof (wf_nrs b W). lia.
Qed.

Lemma good_rs_all b c cl : wf_board b -> rs_present b c = true -> In cl (rs_all_cells b c) -> good b c cl.
Proof.
  intros W Hp Hin. pose proof (rs_present_range b c W Hp).
  destruct (wf_rs_slot_is_channel b W c Hp) as (Hu & Hd & Hcu & Hcd).
  unfold rs_all_cells in Hin. apply in_app_or in Hin. destruct Hin as [Hin|Hin]; [apply good_rs_cells; assumption|].
  apply in_app_or in Hin. destruct Hin as [Hin|Hin].
  - apply (good_relay_out b c (rs_up b c)); assumption.
  - apply (good_relay_out b c (rs_down b c)); assumption.
Qed.

Lemma rs_matches_eq b i c : wf_board b -> rs_matches b i c = true -> i = c /\ rs_present b c = true.
Proof.
  intros W H. unfold rs_matches in H. apply andb_prop in H. destruct H as [Hp Hm].
  destruct (wf_rs_slot_is_channel b W i Hp) as (_ & _ & Hcu & Hcd).
  apply orb_prop in Hm. destruct Hm as [Hm|Hm]; apply Z.eqb_eq in Hm; split; try congruence.
Qed.

Lemma good_matching b c cl : wf_board b ->
  In cl (flat_map (rs_all_cells b) (filter (fun i => rs_matches b i c) (slots RS_MAX))) -> good b c cl.
Proof.
  intros W Hin. apply in_flat_map in Hin. destruct Hin as (i & Hf & Hin). apply filter_In in Hf. destruct Hf as [_ Hm].
  destruct (rs_matches_eq b i c W Hm) as [-> Hp]. apply good_rs_all; assumption.
Qed.

Lemma good_relays_of b c cl : wf_board b ->
  In cl (flat_map (relay_out_cells b)
          (filter (fun a => negb (r_gpio (relay_at b a) =? 255) && (r_channel (relay_at b a) =? c)) (slots RELAY_MAX))) ->
  good b c cl.
Proof.
  intros W Hin. apply in_flat_map in Hin. destruct Hin as (a & Hf & Hin). apply filter_In in Hf. destruct Hf as [_ Hm].
  apply andb_prop in Hm. destruct Hm as [Hg Hc]. apply negb_true_iff in Hg. apply Z.eqb_neq in Hg. apply Z.eqb_eq in Hc.
  destruct (relay_at_cfg b a W Hg) as [Ha _]. apply (good_relay_out b c a); assumption.
Qed.

Lemma good_set_value b c cl : wf_board b -> 0 <= c -> In cl (set_value_mw b c) -> good b c cl.
Proof.
  intros W Hc0 Hin. unfold set_value_mw in Hin. cbv zeta in Hin.
  destruct (filter (fun i => rs_matches b i c) (slots RS_MAX)) as [|i0 rss] eqn:Ef.
  - apply in_flat_map in Hin. destruct Hin as (a & Hf & Hin). apply filter_In in Hf. destruct Hf as [_ Hm].
    apply andb_prop in Hm. destruct Hm as [Hg Hc]. apply negb_true_iff in Hg. apply Z.eqb_neq in Hg. apply Z.eqb_eq in Hc.
    destruct (relay_at_cfg b a W Hg) as [Ha _].
    apply in_app_or in Hin. destruct Hin as [Hin|Hin]; [apply (good_relay_out b c a); assumption|].
    destruct (c <? STATE_TIME2_COUNT) eqn:E; [|contradiction]. apply Z.ltb_lt in E. destruct Hin as [<-|[]].
    facts. split; [unfold cell_ok; cbn [fst snd]; lia|reflexivity].
  - rewrite <- Ef in Hin. apply good_matching; assumption.
Qed.

Lemma good_calcfg b c cmd su dt dsz cl : wf_board b -> In cl (calcfg_mw b c cmd su dt dsz) -> good b c cl.
Proof.
  intros W Hin. unfold calcfg_mw in Hin. destruct (cmd =? CMD_ENTER_CFG_MODE); [contradiction|].
  destruct ((cmd =? CMD_RECALIBRATE) && _ && negb (su =? 0)); [|contradiction]. apply good_matching; assumption.
Qed.

Lemma good_apply_cells b c bud gb cl : wf_board b -> gb <= INPUT_MAX ->
  In cl (apply_config_cells b c bud true 2 1 gb 2 1) -> good b c cl.
Proof.
  intros W Hgb Hin. unfold apply_config_cells in Hin. cbn [negb orb] in Hin.
  destruct ((0 <=? c) && (c <? RS_MAX) && rs_present b c) eqn:E; [|contradiction].
  apply andb_prop in E. destruct E as [E Hp]. apply andb_prop in E. destruct E as [E1 E2]. apply Z.leb_le in E1. apply Z.ltb_lt in E2.
  facts. rewrite Hp in Hin.
  apply in_app_or in Hin. destruct Hin as [Hin|Hin].
  { cbn [In] in Hin. repeat (destruct Hin as [<-|Hin]; [split; [unfold cell_ok; cbn [fst snd]; lia|reflexivity]|]). contradiction. }
  apply in_app_or in Hin. destruct Hin as [Hin|Hin]; [|apply good_rs_all; assumption].
  destruct ((0 <? bud) && (bud <? 3)); [|contradiction].
  destruct Hin as [<-|Hin]; [split; [unfold cell_ok; cbn [fst snd]; unfold N_GLOBAL in *; lia|reflexivity]|].
  destruct (2 * c + 1 <? gb) eqn:Ei; [|contradiction]. apply Z.ltb_lt in Ei.
  destruct Hin as [<-|[<-|[]]]; (split; [unfold cell_ok; cbn [fst snd]; lia|]); right; split; auto.
Qed.

(* the guards generated from the working tree: existence test present, bound 2c+1 < gb <= INPUT_MAX_COUNT, indices 2c, 2c+1 —
   for the roller-shutter function and, separately, for its facade-blind twin *)
Lemma guard_facts kind : kind = 1 \/ kind = 2 -> exists gb, guard_of true kind = [kind; 1; 2; 1; gb; 2; 1] /\ gb <= INPUT_MAX.
Proof.
  intros [->| ->]; vm_compute; eexists; (split; [reflexivity|discriminate]).
Qed.

Lemma good_apply_config b kind c bud cl : wf_board b -> kind = 1 \/ kind = 2 ->
  In cl (apply_config_mw true b kind c bud) -> good b c cl.
Proof.
  intros W Hk Hin. destruct (guard_facts kind Hk) as (gb & Hg & Hgb).
  unfold apply_config_mw in Hin. rewrite Hg in Hin. cbv iota beta in Hin.
  change (1 =? 1) with true in Hin. eapply good_apply_cells; eauto.
Qed.

Lemma good_config_result b c func ctype csize b1 b2 cl : wf_board b -> 0 <= c < CHANNEL_MAX ->
  In cl (config_result_mw true b c func ctype csize b1 b2) -> good b c cl.
Proof.
  intros W Hc Hin. facts. unfold config_result_mw in Hin.
  destruct ((0 <? func) && (ctype =? 0) && (csize =? 0)); [contradiction|].
  destruct (is_relay_func func).
  { destruct (c <? TIME2_COUNT) eqn:E; [|contradiction]. apply Z.ltb_lt in E.
    apply in_app_or in Hin. destruct Hin as [[<-|[]]|Hin]; [split; [unfold cell_ok; cbn [fst snd]; lia|reflexivity]|].
    apply in_app_or in Hin. destruct Hin as [Hin|Hin]; [|apply good_relays_of; assumption].
    destruct (c <? STATE_TIME2_COUNT) eqn:E2; [|contradiction]. apply Z.ltb_lt in E2.
    destruct Hin as [<-|[]]. split; [unfold cell_ok; cbn [fst snd]; lia|reflexivity]. }
  destruct (is_rs_func func).
  { destruct ((ctype =? 0) && (RSC_SIZE <=? csize)); [|contradiction].
    destruct Hin as [<-|Hin]; [split; [unfold cell_ok; cbn [fst snd]; lia|reflexivity]|apply (good_apply_config b 1 c b1); auto]. }
  destruct (is_fb_func func).
  { destruct ((ctype =? 0) && (FBC_SIZE <=? csize)); [|contradiction].
    destruct Hin as [<-|Hin]; [split; [unfold cell_ok; cbn [fst snd]; lia|reflexivity]|apply (good_apply_config b 2 c b2); auto]. }
  destruct (func =? FNC_ACTIONTRIGGER); [|contradiction].
  destruct ((ctype =? 0) && (csize =? ATC_SIZE)); [|contradiction].
  apply in_map_iff in Hin. destruct Hin as (i & <- & Hf). apply filter_In in Hf. destruct Hf as [Hs He].
  apply In_slots in Hs. apply Z.eqb_eq in He.
  split; [unfold cell_ok; cbn [fst snd]; lia|]. left. split; [assumption|lia].
Qed.

Lemma nthz_range p i : bytes_ok p -> 0 <= nthz p i < 256.
Proof. intros H. apply (nthz_ok p i H). Qed.

Lemma good_config b p cl : wf_board b -> bytes_ok p -> In cl (config_mw true b p) -> good b (nthz p CC_CHANNEL) cl.
Proof.
  intros W Hp Hin. unfold config_mw in Hin. pose proof (nthz_range p CC_CHANNEL Hp) as Hr.
  set (c := nthz p CC_CHANNEL) in *. destruct (c <? CHANNEL_MAX) eqn:E; [|contradiction]. apply Z.ltb_lt in E.
  facts. apply in_app_or in Hin. destruct Hin as [Hin|Hin].
  - cbn [In] in Hin. repeat (destruct Hin as [<-|Hin]; [split; [unfold cell_ok; cbn [fst snd]; lia|reflexivity]|]). contradiction.
  - eapply good_config_result; eauto. lia.
Qed.

Lemma good_finished b p cl : bytes_ok p -> In cl (finished_mw p) -> good b (nthz p FIN_CHANNEL) cl.
Proof.
  intros Hp Hin. unfold finished_mw in Hin. pose proof (nthz_range p FIN_CHANNEL Hp) as Hr.
  set (c := nthz p FIN_CHANNEL) in *. destruct (c <? CHANNEL_MAX) eqn:E; [|contradiction]. apply Z.ltb_lt in E.
  facts. destruct Hin as [<-|[]]. split; [unfold cell_ok; cbn [fst snd]; lia|reflexivity].
Qed.

(* every cell a handler may write is inside its table and belongs to the channel the message names *)
Lemma handler_good b id p cl : wf_board b -> bytes_ok p -> In cl (handler_mw true b id p) ->
  exists c, named_channel id p = Some c /\ good b c cl.
Proof.
  intros W Hp Hin. unfold handler_mw in Hin. unfold named_channel.
  destruct (id =? CALL_SET_VALUE).
  { eexists; split; [reflexivity|]. apply good_set_value; [assumption|apply (nthz_range p _ Hp)|assumption]. }
  destruct (id =? CALL_GROUP_SET_VALUE).
  { eexists; split; [reflexivity|]. apply good_set_value; [assumption|apply (nthz_range p _ Hp)|assumption]. }
  destruct (id =? CALL_CALCFG).
  { eexists; split; [reflexivity|]. eapply good_calcfg; eauto. }
  destruct ((id =? CALL_GET_CONFIG_RESULT) || (id =? CALL_SET_CONFIG)).
  { eexists; split; [reflexivity|]. apply good_config; assumption. }
  destruct (id =? CALL_CONFIG_FINISHED).
  { eexists; split; [reflexivity|]. apply good_finished; assumption. }
  contradiction.
Qed.

Lemma may_write_sub fixed b id p scratch cl : In cl (may_write fixed b id p scratch) -> In cl (handler_mw fixed b id p).
Proof. unfold may_write. destruct (reaches_handler _ _ _ _); [auto|contradiction]. Qed.

Theorem C03_in_bounds_thm : forall b id payload scratch t i,
  wf_board b -> bytes_ok payload ->
  In (t, i) (may_write true b id payload scratch) -> 0 <= i < tsize t.
Proof.
  intros b id p scratch t i W Hp Hin. apply may_write_sub in Hin.
  destruct (handler_good b id p (t, i) W Hp Hin) as (c & _ & Hok & _). exact Hok.
Qed.

Theorem C03_frame_thm : forall b id payload scratch cl,
  wf_board b -> bytes_ok payload ->
  In cl (may_write true b id payload scratch) ->
  exists c, named_channel id payload = Some c /\ owns b c cl.
Proof.
  intros b id p scratch cl W Hp Hin. apply may_write_sub in Hin.
  destruct (handler_good b id p cl W Hp Hin) as (c & Hn & _ & Ho). exists c. split; assumption.
Qed.

(* a message naming a channel that no relay or shutter of the board carries changes no output *)
Theorem C03_no_object_no_output_thm : forall b id payload scratch c pin,
  wf_board b -> bytes_ok payload -> named_channel id payload = Some c -> no_object b c ->
  ~ In (T_GPIO, pin) (may_write true b id payload scratch).
Proof.
  intros b id p scratch c pin W Hp Hn Hno Hin.
  destruct (C03_frame_thm b id p scratch _ W Hp Hin) as (c' & Hn' & Ho).
  assert (c' = c) by congruence. subst c'.
  destruct Ho as (a & Ha & Hg & Hne & Hc). apply (Hno a Ha); congruence.
Qed.

(* a message that does not pass the size gate, or that the device does not dispatch on, writes nothing *)
Theorem C03_rejected_writes_nothing_thm : forall fixed b id payload scratch,
  reaches_handler (b_devcfg b) id payload scratch = false -> may_write fixed b id payload scratch = [].
Proof. intros. unfold may_write. rewrite H. reflexivity. Qed.

(* ownership is exclusive: a cell that belongs to channel c belongs to no other channel *)
Theorem C03_owns_exclusive_thm : forall b c c' t i,
  wf_board b -> t <> T_GLOBAL -> 0 <= i -> owns b c (t, i) -> owns b c' (t, i) -> c = c'.
Proof.
  intros b c c' t i W Ht Hi H1 H2. unfold owns in H1, H2.
  destruct (t =? T_GLOBAL) eqn:Eg; [apply Z.eqb_eq in Eg; contradiction|].
  destruct (rs_indexed t || channel_indexed t); [congruence|].
  destruct (t =? T_INPUT).
  { destruct H1 as [[H1 N1]|[P1 H1]], H2 as [[H2 N2]|[P2 H2]]; try congruence; try lia.
    - destruct (Z.lt_ge_cases i (len (b_inputs b))) as [L|L].
      + destruct (wf_rs_buttons b W c' i P2 H2 (conj Hi L)); congruence.
      + exfalso. apply N1. rewrite <- H1. unfold input_at. destruct (i <? 0); [reflexivity|].
        rewrite nth_overflow by (unfold len in L; lia). reflexivity.
    - destruct (Z.lt_ge_cases i (len (b_inputs b))) as [L|L].
      + destruct (wf_rs_buttons b W c i P1 H1 (conj Hi L)); congruence.
      + exfalso. apply N2. rewrite <- H2. unfold input_at. destruct (i <? 0); [reflexivity|].
        rewrite nth_overflow by (unfold len in L; lia). reflexivity. }
  destruct (t =? T_STATE_RELAY); [destruct H1, H2; congruence|].
  destruct (t =? T_GPIO); [|contradiction].
  destruct H1 as (a & _ & G1 & N1 & C1), H2 as (a' & _ & G2 & N2 & C2).
  assert (Ha : r_gpio (relay_at b a) <> 255) by congruence.
  assert (Ha' : r_gpio (relay_at b a') <> 255) by congruence.
  destruct (relay_at_cfg b a W Ha) as [La _]. destruct (relay_at_cfg b a' W Ha') as [La' _].
  rewrite <- C1, <- C2. apply (wf_gpio_channel b W); congruence.
Qed.

(* ---- countdown-timer maintenance: the extra cells belong to a channel whose timer an earlier message armed,
   they are that channel's remaining time, relay pin(s) and saved relay state only, and they are inside the tables ---- *)
Lemma good_timer_cells b y cl : wf_board b -> In cl (timer_cells b y) -> good b y cl /\ timer_table (fst cl) = true.
Proof.
  intros W Hin. unfold timer_cells in Hin. apply in_app_or in Hin. destruct Hin as [Hin|Hin].
  - destruct ((0 <=? y) && (y <? STATE_TIME2_COUNT)) eqn:E; [|contradiction].
    apply andb_prop in E. destruct E as [E1 E2]. apply Z.leb_le in E1. apply Z.ltb_lt in E2.
    destruct Hin as [<-|[]]. facts. split; [|reflexivity]. split; [unfold cell_ok; cbn [fst snd]; lia|reflexivity].
  - split; [apply good_relays_of; assumption|].
    apply in_flat_map in Hin. destruct Hin as (a & _ & Hin). unfold relay_out_cells in Hin.
    destruct Hin as [<-|Hin]; [reflexivity|]. apply in_map_iff in Hin. destruct Hin as (a' & <- & _). reflexivity.
Qed.

Lemma timer_mw_sub b armed id p scratch cl : In cl (timer_mw b armed id p scratch) ->
  evaluates_timers b id p = true /\ In cl (flat_map (timer_cells b) armed).
Proof.
  unfold timer_mw. destruct (reaches_handler (b_devcfg b) id p scratch); cbn [andb]; [|contradiction].
  destruct (evaluates_timers b id p); [auto|contradiction].
Qed.

Theorem C03_timer_maintenance_thm : forall b armed id payload scratch cl,
  wf_board b -> In cl (timer_mw b armed id payload scratch) ->
  evaluates_timers b id payload = true /\
  exists y, In y armed /\ owns b y cl /\ timer_table (fst cl) = true /\ 0 <= snd cl < tsize (fst cl).
Proof.
  intros b armed id p scratch cl W Hin. apply timer_mw_sub in Hin. destruct Hin as [E Hin]. split; [exact E|].
  apply in_flat_map in Hin. destruct Hin as (y & Hy & Hin).
  pose proof (good_timer_cells b y cl W Hin) as G. destruct G as [G Ht]. destruct G as [Hok Ho].
  exists y. exact (conj Hy (conj Ho (conj Ht Hok))).
Qed.

(* a slot is armed only for the channel a dispatched message names *)
Theorem C03_armed_named_thm : forall b armed id payload scratch y,
  In y (armed_after b armed id payload scratch) -> In y armed \/ named_channel id payload = Some y.
Proof.
  intros b armed id p scratch y. unfold armed_after.
  destruct (reaches_handler (b_devcfg b) id p scratch); cbn [andb]; [|auto].
  destruct (evaluates_timers b id p); [|auto].
  destruct (named_channel id p) as [c|]; [|auto]. intros [<-|H]; auto.
Qed.

Lemma may_write_t_eq fixed b armed id p scratch :
  may_write_t fixed b armed id p scratch = may_write fixed b id p scratch ++ timer_mw b armed id p scratch.
Proof. unfold may_write_t. reflexivity. Qed.

Lemma timer_mw_bounds b armed id p scratch t i : wf_board b -> In (t, i) (timer_mw b armed id p scratch) -> 0 <= i < tsize t.
Proof.
  intros W Hin. pose proof (C03_timer_maintenance_thm b armed id p scratch (t, i) W Hin) as Q.
  destruct Q as [_ Q]. destruct Q as [y Q]. destruct Q as [_ Q]. destruct Q as [_ Q]. destruct Q as [_ Q]. exact Q.
Qed.

Theorem C03_in_bounds_t_thm : forall b armed id payload scratch t i,
  wf_board b -> bytes_ok payload ->
  In (t, i) (may_write_t true b armed id payload scratch) -> 0 <= i < tsize t.
Proof.
  intros b armed id p scratch t i W Hp Hin. rewrite may_write_t_eq in Hin.
  apply in_app_or in Hin. destruct Hin as [H|H].
  - exact (C03_in_bounds_thm b id p scratch t i W Hp H).
  - exact (timer_mw_bounds b armed id p scratch t i W H).
Qed.

(* heap buffer of the unknown-result-code branch: the snprintf bound does not exceed the allocation *)
Lemma reg_unknown_fact : REG_UNKNOWN_BOUND <= REG_UNKNOWN_ALLOC /\ 0 <= REG_UNKNOWN_BOUND.
Proof. split; vm_compute; discriminate. Qed.
Theorem C03_register_unknown_in_bounds_thm : forall needed, 0 <= needed ->
  0 <= reg_unknown_written needed <= REG_UNKNOWN_ALLOC.
Proof.
  intros n Hn. destruct reg_unknown_fact as [H1 H2]. unfold reg_unknown_written, snprintf_written.
  set (B := REG_UNKNOWN_BOUND) in *. set (A := REG_UNKNOWN_ALLOC) in *. lia.
Qed.

(* CONFIG_FINISHED -> supla_esp_set_channel_config(i), i < CHANNEL_MAX_COUNT: the per-position reads of
   cfg.Time1/Time2/Time3/AdditionalTimeMargin/TiltControlType, MotorUpsideDown bit, channel_function_from_server and
   channel_config_visualization_type stay inside their tables *)
Theorem C03_config_finished_reads_in_bounds_thm : forall i, 0 <= i < CHANNEL_MAX ->
  i < N_TIME1 /\ i < N_TIME2 /\ i < N_TIME3 /\ i < N_TIME_MARGIN /\ i < N_TILT_TYPE /\ i < MOTOR_UD_BITS /\
  i < N_CHFUNC /\ i < N_VISTYPE /\ i < N_RUNTIMECFG.
Proof.
  intros i Hi.
  assert (F : CHANNEL_MAX <= N_TIME1 /\ CHANNEL_MAX <= N_TIME2 /\ CHANNEL_MAX <= N_TIME3 /\ CHANNEL_MAX <= N_TIME_MARGIN /\
              CHANNEL_MAX <= N_TILT_TYPE /\ CHANNEL_MAX <= MOTOR_UD_BITS /\ CHANNEL_MAX <= N_CHFUNC /\ CHANNEL_MAX <= N_VISTYPE /\
              CHANNEL_MAX <= N_RUNTIMECFG) by (repeat split; vm_compute; discriminate).
  destruct F as (?&?&?&?&?&?&?&?&?). repeat split; lia.
Qed.

(* action-trigger config: only capabilities the input offers become active; an input without the capability stays inactive;
   inputs of other channels keep their value *)
Theorem C03_action_triggers_within_capability_thm : forall cap req,
  Z.land (at_active cap req) cap = at_active cap req /\ (cap = 0 -> at_active cap req = 0).
Proof.
  intros cap req. unfold at_active. split.
  - rewrite (Z.land_comm cap req), <- Z.land_assoc, Z.land_diag. reflexivity.
  - intros ->. apply Z.land_0_l.
Qed.

Lemma nth_map_slots (F : Z -> Z) n i : 0 <= i < n -> nth (Z.to_nat i) (map F (slots n)) 0 = F i.
Proof.
  intros H. unfold slots. rewrite map_map.
  rewrite (nth_indep _ 0 ((fun x => F (Z.of_nat x)) 0%nat)) by (rewrite map_length, seq_length; lia).
  rewrite (map_nth (fun x => F (Z.of_nat x))). rewrite seq_nth by lia. cbn [Nat.add]. rewrite Z2Nat.id by lia. reflexivity.
Qed.

Theorem C03_action_triggers_frame_thm : forall b act id p scratch i,
  len act = INPUT_MAX -> 0 <= i < INPUT_MAX ->
  i_channel (input_at b i) <> nthz p CC_CHANNEL ->
  nth (Z.to_nat i) (active_after b act id p scratch) 0 = nth (Z.to_nat i) act 0.
Proof.
  intros b act id p scratch i Hl Hi Hc. unfold active_after. destruct (at_config b id p scratch); [|reflexivity].
  rewrite nth_map_slots by assumption.
  destruct (i_channel (input_at b i) =? nthz p CC_CHANNEL) eqn:E; [apply Z.eqb_eq in E; contradiction|reflexivity].
Qed.

(* ---- decidable form of wf_board (used for the examples and witnesses) ---- *)
Definition relay_okb (r : relay) : bool := (0 <=? r_gpio r) && (r_gpio r <? GPIO_PINS - 1) && (0 <=? r_channel r) && (r_channel r <? 255).
Definition input_okb (i : input) : bool := (0 <=? i_channel i) && (i_channel i <=? 255) && (0 <=? i_relay_gpio i) && (i_relay_gpio i <=? 255).
Definition wf_boardb (b : board) : bool :=
  (len (b_relays b) <=? RELAY_MAX) && (len (b_rs b) <=? RS_MAX) && (len (b_inputs b) <=? INPUT_MAX)
  && forallb relay_okb (b_relays b) && forallb input_okb (b_inputs b)
  && forallb (fun a => forallb (fun a' => implb (r_gpio (relay_at b a) =? r_gpio (relay_at b a'))
                                                (r_channel (relay_at b a) =? r_channel (relay_at b a')))
                               (slots (len (b_relays b)))) (slots (len (b_relays b)))
  && forallb (fun i => (0 <=? rs_up b i) && (rs_up b i <? len (b_relays b)) && (0 <=? rs_down b i) && (rs_down b i <? len (b_relays b))
                       && (r_channel (relay_at b (rs_up b i)) =? i) && (r_channel (relay_at b (rs_down b i)) =? i)) (slots (len (b_rs b)))
  && forallb (fun i => forallb (fun j => implb (j <? len (b_inputs b)) ((i_channel (input_at b j) =? 255) || (i_channel (input_at b j) =? i)))
                               [2 * i; 2 * i + 1]) (slots (len (b_rs b))).

Lemma wf_boardb_sound b : wf_boardb b = true -> wf_board b.
Proof.
  unfold wf_boardb. intros H.
  repeat (apply andb_prop in H; destruct H as [H ?]).
  match goal with H : forallb relay_okb _ = true |- _ => rename H into Hr end.
  match goal with H : forallb input_okb _ = true |- _ => rename H into Hi end.
  match goal with H : forallb (fun a => forallb _ (slots (len (b_relays b)))) _ = true |- _ => rename H into Hg end.
  match goal with H : forallb (fun i => _ && (r_channel (relay_at b (rs_down b i)) =? i)) _ = true |- _ => rename H into Hs end.
  match goal with H : forallb (fun i => forallb _ [2 * i; 2 * i + 1]) _ = true |- _ => rename H into Hb end.
  repeat match goal with H : (_ <=? _) = true |- _ => apply Z.leb_le in H end.
  constructor; try assumption.
  - apply Forall_forall. intros r Hin. rewrite forallb_forall in Hr. specialize (Hr r Hin). unfold relay_okb in Hr.
    repeat (apply andb_prop in Hr; destruct Hr as [Hr ?]).
    repeat match goal with H : (_ <=? _) = true |- _ => apply Z.leb_le in H end.
    repeat match goal with H : (_ <? _) = true |- _ => apply Z.ltb_lt in H end.
    unfold relay_ok. lia.
  - apply Forall_forall. intros r Hin. rewrite forallb_forall in Hi. specialize (Hi r Hin). unfold input_okb in Hi.
    repeat (apply andb_prop in Hi; destruct Hi as [Hi ?]).
    repeat match goal with H : (_ <=? _) = true |- _ => apply Z.leb_le in H end.
    unfold input_ok. lia.
  - intros a a' Ha Ha' E. rewrite forallb_forall in Hg. specialize (Hg a (proj2 (In_slots a _) Ha)).
    rewrite forallb_forall in Hg. specialize (Hg a' (proj2 (In_slots a' _) Ha')).
    rewrite E, Z.eqb_refl in Hg. cbn [implb] in Hg. apply Z.eqb_eq in Hg. exact Hg.
  - intros i Hp. unfold rs_present in Hp. apply andb_prop in Hp. destruct Hp as [P1 P2].
    apply Z.leb_le in P1. apply Z.ltb_lt in P2.
    rewrite forallb_forall in Hs. specialize (Hs i (proj2 (In_slots i _) (conj P1 P2))).
    repeat (apply andb_prop in Hs; destruct Hs as [Hs ?]).
    repeat match goal with H : (_ <=? _) = true |- _ => apply Z.leb_le in H end.
    repeat match goal with H : (_ <? _) = true |- _ => apply Z.ltb_lt in H end.
    repeat match goal with H : (_ =? _) = true |- _ => apply Z.eqb_eq in H end.
    repeat split; assumption.
  - intros i j Hp Hj Hl. unfold rs_present in Hp. apply andb_prop in Hp. destruct Hp as [P1 P2].
    apply Z.leb_le in P1. apply Z.ltb_lt in P2.
    rewrite forallb_forall in Hb. specialize (Hb i (proj2 (In_slots i _) (conj P1 P2))).
    rewrite forallb_forall in Hb. assert (Hin : In j [2 * i; 2 * i + 1]) by (cbn [In]; lia).
    specialize (Hb j Hin). assert (E : (j <? len (b_inputs b)) = true) by (apply Z.ltb_lt; lia).
    rewrite E in Hb. cbn [implb] in Hb. apply orb_prop in Hb. destruct Hb as [Hb|Hb]; apply Z.eqb_eq in Hb; auto.
Qed.

Definition bytes_okb (l : list Z) : bool := forallb (fun x => (0 <=? x) && (x <? 256)) l.
Lemma bytes_okb_sound l : bytes_okb l = true -> bytes_ok l.
Proof.
  unfold bytes_okb, bytes_ok. rewrite forallb_forall, Forall_forall. intros H x Hx. specialize (H x Hx).
  apply andb_prop in H. destruct H as [H1 H2]. apply Z.leb_le in H1. apply Z.ltb_lt in H2. unfold byte_ok. lia.
Qed.

(* ---- witnesses ---- *)
Definition mk_relay (g c : Z) : relay := {| r_gpio := g; r_channel := c; r_flags := 0; r_chflags := 0 |}.
Definition mk_button (g rg : Z) : input := {| i_gpio := g; i_type := 1; i_flags := 0; i_relay_gpio := rg; i_channel := 255; i_atcap := 0 |}.
(* four roller shutters (channels 0..3) on relay pairs, seven buttons, channel-config retrieval compiled in *)
Definition board_4rs : board :=
  {| b_devcfg := true;
     b_relays := [mk_relay 0 0; mk_relay 1 0; mk_relay 2 1; mk_relay 3 1; mk_relay 4 2; mk_relay 5 2; mk_relay 12 3; mk_relay 13 3];
     b_rs := [(0, 1); (2, 3); (4, 5); (6, 7)];
     b_inputs := [mk_button 6 0; mk_button 7 1; mk_button 8 2; mk_button 9 3; mk_button 10 4; mk_button 11 5; mk_button 14 12] |}.
(* two plain relays (channels 0 and 1), one button each *)
Definition board_2relays : board :=
  {| b_devcfg := true; b_relays := [mk_relay 4 0; mk_relay 5 1]; b_rs := [];
     b_inputs := [mk_button 12 4; mk_button 13 5] |}.

(* TSD_ChannelConfig for channel c, function `func`, default config type, a roller-shutter config with ButtonsUpsideDown = bud *)
Definition rs_config_msg (c func bud : Z) : list Z :=
  [c] ++ enc32 func ++ [0] ++ [RSC_SIZE mod 256; RSC_SIZE / 256]
  ++ (zeros RSC_BUTTONS_UD ++ [bud] ++ zeros (RSC_SIZE - RSC_BUTTONS_UD - 1)).

Lemma board_4rs_wf : wf_board board_4rs. Proof. apply wf_boardb_sound. vm_compute. reflexivity. Qed.
Lemma board_2relays_wf : wf_board board_2relays. Proof. apply wf_boardb_sound. vm_compute. reflexivity. Qed.

(* the unchanged code (fixed = false):
   (a) channel 3 of a four-shutter board: the button exchange indexes supla_input_cfg[7], one past the table;
   (b) a relay-only board: a roller-shutter config for channel 0 exchanges the pins of inputs 0 and 1 although no shutter
       exists; input 1 is not channel 0's.
   With the repaired guards both messages stay inside the tables and inside channel 3 / write no input cell. *)
Theorem C03_old_code_refuted_thm :
  (wf_board board_4rs /\ bytes_ok (rs_config_msg 3 FNC_RS 2) /\
   In (T_INPUT, 7) (may_write false board_4rs CALL_GET_CONFIG_RESULT (rs_config_msg 3 FNC_RS 2) []) /\ tsize T_INPUT = 7 /\
   ~ In (T_INPUT, 7) (may_write true board_4rs CALL_GET_CONFIG_RESULT (rs_config_msg 3 FNC_RS 2) [])) /\
  (wf_board board_2relays /\ named_channel CALL_GET_CONFIG_RESULT (rs_config_msg 0 FNC_RS 2) = Some 0 /\
   In (T_INPUT, 1) (may_write false board_2relays CALL_GET_CONFIG_RESULT (rs_config_msg 0 FNC_RS 2) []) /\
   ~ owns board_2relays 0 (T_INPUT, 1) /\
   forall i, ~ In (T_INPUT, i) (may_write true board_2relays CALL_GET_CONFIG_RESULT (rs_config_msg 0 FNC_RS 2) [])).
Proof.
  split.
  - split; [exact board_4rs_wf|]. split; [apply bytes_okb_sound; vm_compute; reflexivity|].
    split; [vm_compute; tauto|]. split; [reflexivity|]. vm_compute. intuition discriminate.
  - split; [exact board_2relays_wf|]. split; [reflexivity|]. split; [vm_compute; tauto|].
    split.
    + vm_compute. intros [[H _]|[H _]]; discriminate.
    + intros i. vm_compute. intuition discriminate.
Qed.
