From V Require Import C01.Model.
Lemma placeholder : True. Proof. exact I. Qed.
Print Assumptions placeholder.
