(* C01 — SRPC receiver delivers only genuine well-formed frames and is memory-safe.
   Property theorems only: each is closed by `exact` of a lemma proved in C01/Proofs.v. *)
From Coq Require Import List ZArith.
Import ListNotations.
From V Require Import Base.Bytes Gen.ProtoConsts C01.Model C01.Proofs.
Local Open Scope Z_scope.

(* For every sequence of receive chunks and iterate ticks (no chunk dropped by the staging buffer),
   the packets handed to the handler are exactly a prefix of the frames that a chunk-free parser
   finds in the whole stream: genuine, byte-for-byte, in order, at most once; a malformed frame
   ends the list (nothing after it, nothing twice). *)
Theorem C01_faithful : forall evs,
  Forall ev_ok evs -> no_overflow (run evs) ->
  exists F, filter is_deliver (run evs) = map deliver_of_frame F /\
            prefix F (fst (frames_of (chunks_of evs))).
Proof. exact C01_faithful_thm. Qed.
Print Assumptions C01_faithful.

Theorem C01_frames_are_slices : forall k s l st, bytes_ok s -> frames k s = (l, st) ->
  exists rest, s = concat (map (fun f => f ++ TAG) l) ++ rest.
Proof. exact C01_frames_are_slices_thm. Qed.
Print Assumptions C01_frames_are_slices.

Theorem C01_safe : forall evs,
  Forall ev_ok evs ->
  let '(s', o) := run_from CURRENT_SUMCHECK init evs in
  ~ In Fault o /\ len (data (ib s')) <= size (ib s') /\ size (ib s') < BUFFER_MAX /\
  len (stage s') <= RECVBUFF_MAX /\ len (sdp s') = SDP_SIZE.
Proof. exact C01_safe_thm. Qed.
Print Assumptions C01_safe.

Theorem C01_malformed_reported : forall evs,
  Forall ev_ok evs ->
  let s := fst (run_from CURRENT_SUMCHECK init evs) in
  halted s = false -> stage s = [] ->
  parse1 (data (ib s)) = Bad \/ parse1 (data (ib s)) = BadVersion ->
  step CURRENT_SUMCHECK s Tick = (fst (step CURRENT_SUMCHECK s Tick), [Restart]) /\
  halted (fst (step CURRENT_SUMCHECK s Tick)) = true.
Proof. exact C01_malformed_reported_thm. Qed.
Print Assumptions C01_malformed_reported.

(* "…is reported as an error", for arbitrary chunkings: after any history without dropped chunks,
   2*|stream|+1 further iterate ticks either restart the device or have delivered every frame of the
   stream and only an incomplete tail is left.  So a stream containing a malformed frame always ends
   in a restart and every well-formed frame before it has been delivered exactly once. *)
Theorem C01_complete : forall evs k,
  Forall ev_ok evs -> (2 * length (chunks_of evs) + 1 <= k)%nat ->
  let o := run (evs ++ repeat Tick k) in
  no_overflow o ->
  In Restart o \/
  (filter is_deliver o = map deliver_of_frame (fst (frames_of (chunks_of evs))) /\
   snd (frames_of (chunks_of evs)) = StIncomplete).
Proof. exact C01_complete_thm. Qed.
Print Assumptions C01_complete.

(* the length test of the code before commit 201aa16 re-delivered the previous packet *)
Theorem C01_old_code_refuted :
  filter is_deliver (snd (run_from true init witness_evs)) =
    [Deliver 7 50 DEVICE_PROTO_VERSION [1;2;3;4]; Deliver 7 50 DEVICE_PROTO_VERSION [1;2;3;4]]
  /\ fst (frames_of (chunks_of witness_evs)) = [firstn 22 witness_frame1]
  /\ filter is_deliver (run witness_evs) = [Deliver 7 50 DEVICE_PROTO_VERSION [1;2;3;4]].
Proof. exact C01_old_code_refuted_thm. Qed.
Print Assumptions C01_old_code_refuted.

(* non-vacuity: a two-frame stream cut into three chunks meets the hypotheses and delivers both frames;
   a state with a malformed head exists and is reported *)
Example C01_nonvacuous :
  let f1 := TAG ++ [DEVICE_PROTO_VERSION; 1;0;0;0; 40;0;0;0; 2;0;0;0; 9;8] in
  let f2 := TAG ++ [DEVICE_PROTO_VERSION; 2;0;0;0; 50;0;0;0; 0;0;0;0] in
  let s := f1 ++ TAG ++ f2 ++ TAG in
  let evs := [Recv (firstn 7 s); Recv (firstn 20 (skipn 7 s)); Tick; Recv (skipn 27 s); Tick; Tick] in
  run evs = [Deliver 1 40 DEVICE_PROTO_VERSION [9;8]; Deliver 2 50 DEVICE_PROTO_VERSION []]
  /\ fst (frames_of (chunks_of evs)) = [f1; f2]
  /\ run [Recv (TAG ++ [0])] = [] /\ run [Recv (TAG ++ [0] ++ zeros 18); Tick] = [Restart]
  /\ run [Recv [1;2;3;4;5]] = [Restart].
Proof. vm_compute. repeat split; reflexivity. Qed.
Print Assumptions C01_nonvacuous.
