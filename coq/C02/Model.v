(* C02 — executable model of the SRPC send path:
   srpc_async__call / sproto_sdp_init / sproto_set_data / srpc_queue_push / srpc_queue_pop,
   srpc_iterate (OUT half) / sproto_out_buffer_append / sproto_buffer_append / sproto_pop_out_data,
   supla_esp_data_write / supla_esp_data_write_append_buffer and the flush at the top of
   supla_esp_devconn_iterate.  Definitions only (proofs are in Proofs.v). *)
From Coq Require Import List ZArith Bool.
Import ListNotations.
From V Require Import Base.U32 Base.Bytes Base.Iface Gen.ProtoConsts Gen.C02Consts.
Local Open Scope Z_scope.

Definition HDR : Z := SDP_SIZE - MAX_DATA_SIZE.   (* sizeof(TSuplaDataPacket) - SUPLA_MAX_DATA_SIZE *)

(* ---------- packets and frames ---------- *)
Record pkt := { p_rr : Z; p_call : Z; p_ver : Z; p_data : list Z }.

(* the first HDR bytes of a TSuplaDataPacket prepared by sproto_sdp_init + sproto_set_data *)
Definition header (p : pkt) : list Z :=
  TAG ++ [p_ver p] ++ enc32 (p_rr p) ++ enc32 (p_call p) ++ enc32 (len (p_data p)).
(* the packet_size bytes copied by the first sproto_buffer_append of sproto_out_buffer_append *)
Definition body (p : pkt) : list Z := header p ++ p_data p.
Definition encode (p : pkt) : list Z := body p ++ TAG.
Definition stream (ps : list pkt) : list Z := concat (map encode ps).

(* reference decoder (what a receiver reads at the generated field offsets) *)
Definition decode1 (s : list Z) : option (pkt * list Z) :=
  if negb (list_eqb (take TAG_SIZE s) TAG) then None
  else if len s <? HDR then None
  else let n := le32 s OFF_DATA_SIZE in
    if MAX_DATA_SIZE <? n then None
    else if len s <? HDR + n + TAG_SIZE then None
    else if negb (list_eqb (take TAG_SIZE (drop (HDR + n) s)) TAG) then None
    else Some ({| p_rr := le32 s OFF_RR_ID; p_call := le32 s OFF_CALL_ID; p_ver := nthz s OFF_VERSION;
                  p_data := take n (drop OFF_DATA s) |},
               drop (HDR + n + TAG_SIZE) s).
Fixpoint decode_stream (fuel : nat) (s : list Z) : option (list pkt) :=
  match s with
  | [] => Some []
  | _ => match fuel with
         | O => None
         | S k => match decode1 s with
                  | None => None
                  | Some (p, rest) => match decode_stream k rest with Some l => Some (p :: l) | None => None end
                  end
         end
  end.
Definition decode_all (s : list Z) : option (list pkt) := decode_stream (length s) s.

(* ---------- proto output buffer (TSuplaProtoOutBuffer) ---------- *)
Record obuf := { osize : Z; odata : list Z }.

(* sproto_buffer_append on the output buffer; None = SUPLA_RESULT_BUFFER_OVERFLOW (realloc never fails) *)
Definition oappend (b : obuf) (chunk : list Z) : option obuf :=
  let size0 := if osize b <? BUFFER_MIN then BUFFER_MIN else osize b in
  let n := len chunk in
  let free := u32 (size0 - len (odata b)) in
  let size1 := if free <? n then u32 (size0 + u32 (n - free)) else size0 in
  if BUFFER_MAX <=? size1 then None
  else Some {| osize := size1; odata := odata b ++ chunk |}.

Inductive ares := A_TRUE | A_FALSE | A_ERROR.

(* sproto_out_buffer_append.  `silent = true` is the code before the proposed fix: an overflow of the first
   sproto_buffer_append is turned into SUPLA_RESULT_FALSE (which srpc_iterate ignores);
   `silent = false` propagates the overflow code (docs/fixes/C02_out_overflow_reported.diff). *)
Definition out_append (silent : bool) (b : obuf) (p : pkt) : obuf * ares :=
  if SDP_SIZE <? u32 (HDR + len (p_data p)) then (b, A_ERROR)        (* SUPLA_RESULT_DATA_TOO_LARGE *)
  else match oappend b (body p) with
       | Some b1 => match oappend b1 TAG with
                    | Some b2 => (b2, A_TRUE)
                    | None => (b1, A_ERROR)
                    end
       | None => (b, if silent then A_FALSE else A_ERROR)
       end.

(* sproto_pop_out_data(buffer_size = n) *)
Definition opop (b : obuf) (n : Z) : obuf * list Z :=
  if (len (odata b) <=? 0) || (n =? 0) then (b, [])
  else
    let k := if len (odata b) <? n then len (odata b) else n in
    let d' := drop k (odata b) in
    let sz := if len d' <? osize b then (if len d' <? BUFFER_MIN then BUFFER_MIN else len d') else osize b in
    ({| osize := sz; odata := d' |}, take k (odata b)).

(* ---------- outputs ---------- *)
Inductive out :=
  | Ret (rr : Z)                 (* value returned by srpc_async_call, as unsigned *)
  | Wire (bytes : list Z)        (* bytes given to espconn_sent with result 0 *)
  | HardErr                      (* espconn_sent returned something other than 0 / INPROGRESS / MAXNUM *)
  | SendBufExceeded              (* log "Send buffer size exceeded": the chunk was dropped *)
  | OutBufOverflow               (* log "sproto_out_buffer_append error" *)
  | Restart.                     (* supla_system_restart() *)

(* ---------- the send shim of devconn ---------- *)
Inductive sres := S_OK | S_RETRY | S_HARD.
Definition classify (r : Z) : sres :=
  let r := s8 r in   (* sint8 espconn_sent(...) *)
  if r =? 0 then S_OK
  else if (r =? ESPCONN_INPROGRESS_) || (r =? ESPCONN_MAXNUM_) then S_RETRY else S_HARD.

(* next scripted result of espconn_sent; 0 when the script is exhausted *)
Definition next (rs : list Z) : Z * list Z := match rs with [] => (0, []) | r :: t => (r, t) end.

(* supla_esp_data_write_append_buffer *)
Definition append_buffer (eb chunk : list Z) : list Z * list out :=
  if 0 <? len chunk then
    if SEND_BUFFER <? len eb + len chunk then (eb, [SendBufExceeded]) else (eb ++ chunk, [])
  else (eb, []).

(* supla_esp_data_write, first half: retry of the bytes refused earlier *)
Definition retry (eb : list Z) (rs : list Z) : list Z * list Z * list out :=
  if 0 <? len eb then
    let '(r, rs') := next rs in
    match classify r with
    | S_OK => ([], rs', [Wire eb])
    | S_RETRY => (eb, rs', [])
    | S_HARD => (eb, rs', [HardErr])
    end
  else (eb, rs, []).

(* supla_esp_data_write, second half: buffer behind pending bytes, or send directly *)
Definition send_or_buffer (eb chunk : list Z) (rs : list Z) : list Z * list Z * list out :=
  if 0 <? len eb then
    let '(eb2, o2) := append_buffer eb chunk in (eb2, rs, o2)
  else if 0 <? len chunk then
    let '(r, rs') := next rs in
    match classify r with
    | S_OK => (eb, rs', [Wire chunk])
    | S_RETRY => let '(eb2, o2) := append_buffer eb chunk in (eb2, rs', o2)
    | S_HARD => (eb, rs', [HardErr])
    end
  else (eb, rs, []).

(* supla_esp_data_write(buf = chunk): returns esp_send_buffer, unused results, outputs *)
Definition data_write (eb chunk : list Z) (rs : list Z) : list Z * list Z * list out :=
  let '(eb1, rs1, o1) := retry eb rs in
  let '(eb2, rs2, o2) := send_or_buffer eb1 chunk rs1 in
  (eb2, rs2, o1 ++ o2).

(* ---------- device state ---------- *)
Record st := { next_rr : Z;          (* TSuplaProtoData.next_rr_id *)
               outq : list pkt;      (* srpc out_queue, oldest first *)
               ob : obuf;            (* proto out buffer *)
               espbuf : list Z;      (* devconn esp_send_buffer[0..esp_send_buffer_len) *)
               halted : bool }.      (* supla_system_restart() was called *)

Definition init : st :=
  {| next_rr := 0; outq := []; ob := {| osize := 0; odata := [] |}; espbuf := []; halted := false |}.

Inductive ev :=
  | Call (call_id : Z) (payload : list Z)    (* srpc_async_call(srpc, call_id, payload, |payload|) *)
  | Iter (results : list Z).                 (* supla_esp_devconn_iterate with the next espconn_sent results *)

(* srpc_call_allowed at the device's protocol version *)
Definition allowed (call_id : Z) : bool := existsb (Z.eqb call_id) ALLOWED_CALLS.

(* srpc_async__call (version = NULL) *)
Definition call (s : st) (cid : Z) (payload : list Z) : st * list out :=
  if negb (allowed cid) then (s, [Ret 0])
  else
    let rr0 := u32 (next_rr s + 1) in
    let rr := if rr0 =? 0 then u32 (rr0 + 1) else rr0 in          (* sproto_sdp_init *)
    let s1 := {| next_rr := rr; outq := outq s; ob := ob s; espbuf := espbuf s; halted := halted s |} in
    if MAX_DATA_SIZE <? len payload then (s1, [Ret 0])             (* sproto_set_data *)
    else if SRPC_QUEUE <=? len (outq s) then (s1, [Ret 0])         (* srpc_queue_push *)
    else ({| next_rr := rr;
             outq := outq s ++ [{| p_rr := rr; p_call := cid; p_ver := DEVICE_PROTO_VERSION; p_data := payload |}];
             ob := ob s; espbuf := espbuf s; halted := halted s |}, [Ret rr]).

(* supla_esp_devconn_iterate (registered, nothing received): flush, then srpc_iterate's OUT half *)
Definition iterate (silent : bool) (s : st) (rs : list Z) : st * list out :=
  let '(eb1, rs1, o1) := data_write (espbuf s) [] rs in
  let '(q1, ob1, ar) :=
    match outq s with
    | [] => ([], ob s, A_TRUE)
    | p :: q => let '(b, r) := out_append silent (ob s) p in (q, b, r)
    end in
  match ar with
  | A_ERROR =>
      ({| next_rr := next_rr s; outq := q1; ob := ob1; espbuf := eb1; halted := true |},
       o1 ++ [OutBufOverflow; Restart])
  | _ =>
      let '(ob2, chunk) := opop ob1 SRPC_BUFFER in
      let '(eb2, _, o2) := if 0 <? len chunk then data_write eb1 chunk rs1 else (eb1, rs1, []) in
      ({| next_rr := next_rr s; outq := q1; ob := ob2; espbuf := eb2; halted := false |}, o1 ++ o2)
  end.

Definition step (silent : bool) (s : st) (e : ev) : st * list out :=
  if halted s then (s, []) else
  match e with
  | Call cid payload => call s cid payload
  | Iter rs => iterate silent s rs
  end.

(* trace: every event with the outputs it produced *)
Fixpoint run_trace (silent : bool) (s : st) (evs : list ev) : st * list (ev * list out) :=
  match evs with
  | [] => (s, [])
  | e :: r => let '(s1, o1) := step silent s e in
              let '(s2, t) := run_trace silent s1 r in (s2, (e, o1) :: t)
  end.
Definition outs_of (t : list (ev * list out)) : list out := concat (map snd t).

(* the model of the tree with the proposed fix applied *)
Definition CURRENT_SILENT : bool := false.
Definition run (evs : list ev) : list out := outs_of (snd (run_trace CURRENT_SILENT init evs)).

(* ---------- observation functions used by the specification ---------- *)
Definition wire_of (o : list out) : list Z :=
  concat (map (fun x => match x with Wire b => b | _ => [] end) o).
(* the call accepted by a step: a Call event that returned a non-zero id *)
Definition acc_of (e : ev) (o : list out) : list pkt :=
  match e, o with
  | Call cid payload, [Ret rr] =>
      if rr =? 0 then [] else [{| p_rr := rr; p_call := cid; p_ver := DEVICE_PROTO_VERSION; p_data := payload |}]
  | _, _ => []
  end.
Definition accepted (t : list (ev * list out)) : list pkt := concat (map (fun x => acc_of (fst x) (snd x)) t).
(* bytes accepted by srpc but not yet on the wire, in transmission order *)
Definition pending (s : st) : list Z := espbuf s ++ odata (ob s) ++ stream (outq s).

Definition is_report (o : out) : bool :=
  match o with HardErr | SendBufExceeded | Restart => true | _ => false end.
(* no hard error and no reported overflow so far *)
Definition clean (o : list out) : Prop := forallb (fun x => negb (is_report x)) o = true.

Definition iter_ok : ev := Iter [0; 0; 0].
(* upper bound on the number of all-OK iterations that empty every buffer *)
Definition mu (s : st) : Z := len (espbuf s) + len (odata (ob s)) + (SDP_SIZE + TAG_SIZE) * len (outq s).

(* ---------- vocabulary of the specification ---------- *)
(* a is obtained from b by deleting elements (order kept, nothing added or repeated) *)
Inductive Subseq {A} : list A -> list A -> Prop :=
  | ss_nil : forall l, Subseq [] l
  | ss_keep : forall x a b, Subseq a b -> Subseq (x :: a) (x :: b)
  | ss_skip : forall x a b, Subseq a b -> Subseq a (x :: b).
(* a packet as srpc_async_call builds it *)
Definition pkt_ok (p : pkt) : Prop :=
  0 < p_rr p < 4294967296 /\ 0 <= p_call p < 4294967296 /\ 0 <= p_ver p < 256 /\
  bytes_ok (p_data p) /\ len (p_data p) <= MAX_DATA_SIZE.
(* an event the C interface can express: 32-bit call id, payload made of bytes *)
Definition ev_ok (e : ev) : Prop :=
  match e with Call cid pl => 0 <= cid < 4294967296 /\ bytes_ok pl | Iter _ => True end.

(* ---------- wire interface for the harness ----------
   0 CALL <call_id> : payload        1 ITER r1 r2 r3 :        2 DS <k> <call_id> <size> : struct image
   (DS: the typed entry point k must issue call_id with the first <size> bytes of the image; call_id 0 = the wrapper refuses) *)
Definition ev_of_wire (w : wire) : ev :=
  match w with (k, a, b) =>
    if k =? 0 then Call (nth 0 a 0) b
    else if k =? 1 then Iter a
    else Call (nth 1 a 0) (take (nth 2 a 0) b)
  end.
Definition wire_of_out (o : out) : wire :=
  match o with
  | Ret rr => mk 0 [rr] []
  | Wire b => mk 1 [] b
  | HardErr => mk 2 [] []
  | SendBufExceeded => mk 3 [] []
  | OutBufOverflow => mk 4 [] []
  | Restart => mk 5 [] []
  end.
(* 3 BOOTRR <n> :   only as the first line: the history starts with next_rr_id = n instead of 0 (harness only: lets the
   comparison with the C code reach the 32-bit wrap of the counter; the theorems about `init` do not use it) *)
Definition init_rr (n : Z) : st :=
  {| next_rr := u32 n; outq := []; ob := {| osize := 0; odata := [] |}; espbuf := []; halted := false |}.
Definition start_of (ws : list wire) : st * list wire :=
  match ws with
  | (k, a, _) :: r => if k =? 3 then (init_rr (nth 0 a 0), r) else (init, ws)
  | [] => (init, [])
  end.
Definition is_boot (w : wire) : bool := match w with (k, _, _) => k =? 3 end.
Definition run_wire (silent : bool) (ws : list wire) : list wire :=
  let '(s0, r) := start_of ws in
  map wire_of_out (outs_of (snd (run_trace silent s0 (map ev_of_wire (filter (fun w => negb (is_boot w)) r))))).
Definition main_wire (ws : list wire) : list wire := run_wire CURRENT_SILENT ws.
