(* C02 — proofs about the send-path model (Model.v). *)
From Coq Require Import List ZArith Lia Bool Sorted.
Import ListNotations.
From V Require Import Base.U32 Base.Bytes Base.Iface Gen.ProtoConsts Gen.C02Consts C02.Model.
Local Open Scope Z_scope.

(* ---------- facts about the generated constants (re-proved by computation when they change) ---------- *)
Record consts_facts : Prop := {
  cf_tag_len : len TAG = TAG_SIZE;
  cf_tag_ok : bytes_ok TAG;
  cf_tag_pos : 0 < TAG_SIZE;
  cf_off_ver : OFF_VERSION = TAG_SIZE;
  cf_off_rr : OFF_RR_ID = TAG_SIZE + 1;
  cf_off_call : OFF_CALL_ID = TAG_SIZE + 5;
  cf_off_ds : OFF_DATA_SIZE = TAG_SIZE + 9;
  cf_off_data : OFF_DATA = TAG_SIZE + 13;
  cf_hdr : HDR = TAG_SIZE + 13;
  cf_sdp : SDP_SIZE = HDR + MAX_DATA_SIZE;
  cf_max : 0 <= MAX_DATA_SIZE < 1073741824;
  cf_bufmin : 0 < BUFFER_MIN < BUFFER_MAX;
  cf_bufmax : BUFFER_MAX < 1073741824;
  cf_srpcbuf : 0 < SRPC_BUFFER;
  cf_queue : 0 < SRPC_QUEUE;
  cf_sendbuf : 0 <= SEND_BUFFER;
  cf_chunk_fits : SRPC_BUFFER <= SEND_BUFFER;
  cf_ver : 0 <= DEVICE_PROTO_VERSION < 256;
  cf_ok : classify 0 = S_OK
}.
Lemma CF : consts_facts.
Proof. split; try (vm_compute; intuition congruence); try reflexivity.
  repeat constructor; vm_compute; intuition congruence. Qed.

(* ---------- lists ---------- *)
Lemma len_zero_nil {A} (l : list A) : len l <= 0 -> l = [].
Proof. destruct l; [reflexivity|]. rewrite len_cons. pose proof (len_nonneg l). lia. Qed.
Lemma ltb_len_false {A} (l : list A) : (0 <? len l) = false -> l = [].
Proof. intros H. apply Z.ltb_ge in H. apply len_zero_nil; exact H. Qed.
Lemma ltb_len_true {A} (l : list A) : (0 <? len l) = true -> 0 < len l.
Proof. apply Z.ltb_lt. Qed.
Lemma len_enc32 v : len (enc32 v) = 4. Proof. reflexivity. Qed.
Lemma nthz_app_r (a b : list Z) i : 0 <= i -> nthz (a ++ b) (len a + i) = nthz b i.
Proof.
  intros H. unfold nthz. rewrite app_nth2 by (unfold len; lia). f_equal. unfold len; lia.
Qed.
Lemma enc32_sum v : 0 <= v < 4294967296 ->
  v mod 256 + 256 * ((v / 256) mod 256) + 65536 * ((v / 65536) mod 256) + 16777216 * ((v / 16777216) mod 256) = v.
Proof.
  intros H.
  assert (E1 : v / 65536 = v / 256 / 256) by (rewrite Z.div_div by lia; reflexivity).
  assert (E2 : v / 16777216 = v / 256 / 256 / 256) by (rewrite !Z.div_div by lia; reflexivity).
  rewrite E1, E2.
  pose proof (Z.div_mod v 256 ltac:(lia)) as D1.
  pose proof (Z.div_mod (v / 256) 256 ltac:(lia)) as D2.
  pose proof (Z.div_mod (v / 256 / 256) 256 ltac:(lia)) as D3.
  assert (S : 0 <= v / 256 / 256 / 256 < 256).
  { split. - repeat apply Z.div_pos; lia. - rewrite !Z.div_div by lia. apply Z.div_lt_upper_bound; lia. }
  rewrite (Z.mod_small (v / 256 / 256 / 256) 256) by lia.
  pose proof (Z.div_mod (v / 256 / 256) 256 ltac:(lia)).
  lia.
Qed.
Lemma le32_at (pre post : list Z) v o : o = len pre -> 0 <= v < 4294967296 -> le32 (pre ++ enc32 v ++ post) o = v.
Proof.
  intros -> H. unfold le32.
  replace (len pre) with (len pre + 0) at 1 by lia.
  rewrite !nthz_app_r by lia. unfold nthz, enc32. cbn [Z.to_nat Pos.to_nat Pos.iter_op Nat.add app nth].
  apply enc32_sum; exact H.
Qed.
Lemma nthz_at (pre post : list Z) x o : o = len pre -> nthz (pre ++ x :: post) o = x.
Proof. intros ->. replace (len pre) with (len pre + 0) by lia. rewrite nthz_app_r by lia. reflexivity. Qed.
Lemma drop_at {A} (pre post : list A) o : o = len pre -> drop o (pre ++ post) = post.
Proof. intros ->. apply drop_app_exact. Qed.
Lemma take_at {A} (pre post : list A) o : o = len pre -> take o (pre ++ post) = pre.
Proof. intros ->. apply take_app_exact. Qed.
Lemma enc32_ok v : bytes_ok (enc32 v).
Proof. unfold enc32. repeat constructor; apply Z.mod_pos_bound; lia. Qed.

(* ---------- subsequences ---------- *)
Inductive Subseq {A} : list A -> list A -> Prop :=
  | ss_nil : forall l, Subseq [] l
  | ss_keep : forall x a b, Subseq a b -> Subseq (x :: a) (x :: b)
  | ss_skip : forall x a b, Subseq a b -> Subseq a (x :: b).
Lemma Subseq_refl {A} (l : list A) : Subseq l l.
Proof. induction l; constructor; auto. Qed.
Lemma Subseq_app {A} (a a' b b' : list A) : Subseq a a' -> Subseq b b' -> Subseq (a ++ b) (a' ++ b').
Proof.
  intros H. revert b b'. induction H; intros c c' Hc; cbn [app].
  - induction l; cbn [app]; [exact Hc|]. apply ss_skip; exact IHl.
  - apply ss_keep; auto.
  - apply ss_skip; auto.
Qed.
Lemma Subseq_trans {A} (a b c : list A) : Subseq a b -> Subseq b c -> Subseq a c.
Proof.
  intros H1 H2. revert a H1. induction H2; intros a0 H1.
  - inversion H1; subst. constructor.
  - inversion H1; subst.
    + constructor.
    + apply ss_keep; auto.
    + apply ss_skip; auto.
  - apply ss_skip; auto.
Qed.
Lemma Subseq_drop_mid {A} (a b c : list A) : Subseq (a ++ c) (a ++ b ++ c).
Proof.
  apply Subseq_app; [apply Subseq_refl|].
  replace c with ([] ++ c) at 1 by reflexivity. apply Subseq_app; [constructor|apply Subseq_refl].
Qed.

(* ---------- frames: encode / decode ---------- *)
Definition pkt_ok (p : pkt) : Prop :=
  0 < p_rr p < 4294967296 /\ 0 <= p_call p < 4294967296 /\ 0 <= p_ver p < 256 /\
  bytes_ok (p_data p) /\ len (p_data p) <= MAX_DATA_SIZE.

Lemma len_header p : len (header p) = HDR.
Proof.
  unfold header. rewrite !len_app, !len_enc32, len_cons, len_nil, (cf_tag_len CF), (cf_hdr CF). lia.
Qed.
Lemma len_body p : len (body p) = HDR + len (p_data p).
Proof. unfold body. rewrite len_app, len_header. reflexivity. Qed.
Lemma len_encode p : len (encode p) = HDR + len (p_data p) + TAG_SIZE.
Proof. unfold encode. rewrite len_app, len_body, (cf_tag_len CF). reflexivity. Qed.
Lemma stream_app a b : stream (a ++ b) = stream a ++ stream b.
Proof. unfold stream. rewrite map_app, concat_app. reflexivity. Qed.
Lemma stream_cons p l : stream (p :: l) = encode p ++ stream l.
Proof. reflexivity. Qed.

Lemma decode1_encode p rest : pkt_ok p -> decode1 (encode p ++ rest) = Some (p, rest).
Proof.
  intros (Hrr & Hcall & Hver & Hb & Hlen).
  destruct p as [rr call ver data]. cbn [p_rr p_call p_ver p_data] in *.
  pose proof CF as C. pose proof (len_nonneg data) as Hd0.
  set (n := len data) in *.
  set (s := encode {| p_rr := rr; p_call := call; p_ver := ver; p_data := data |} ++ rest).
  assert (S0 : s = TAG ++ ver :: enc32 rr ++ enc32 call ++ enc32 n ++ data ++ TAG ++ rest).
  { unfold s, encode, body, header. cbn [p_rr p_call p_ver p_data]. rewrite <- !app_assoc. reflexivity. }
  assert (Ltag : take TAG_SIZE s = TAG) by (rewrite S0; apply take_at; symmetry; apply (cf_tag_len C)).
  assert (Lver : nthz s OFF_VERSION = ver).
  { rewrite S0. apply nthz_at. rewrite (cf_off_ver C). symmetry; apply (cf_tag_len C). }
  assert (Lrr : le32 s OFF_RR_ID = rr).
  { rewrite S0. change (TAG ++ ver :: enc32 rr ++ ?x) with (TAG ++ [ver] ++ enc32 rr ++ x).
    rewrite (app_assoc TAG [ver]). apply le32_at; [|lia].
    rewrite len_app, len_cons, len_nil, (cf_tag_len C), (cf_off_rr C). lia. }
  assert (Lcall : le32 s OFF_CALL_ID = call).
  { rewrite S0. change (TAG ++ ver :: enc32 rr ++ ?x) with (TAG ++ [ver] ++ enc32 rr ++ x).
    rewrite (app_assoc [ver]), (app_assoc TAG). apply le32_at; [|lia].
    rewrite !len_app, len_enc32, len_cons, len_nil, (cf_tag_len C), (cf_off_call C). lia. }
  assert (Lds : le32 s OFF_DATA_SIZE = n).
  { rewrite S0. change (TAG ++ ver :: enc32 rr ++ ?x) with (TAG ++ [ver] ++ enc32 rr ++ x).
    rewrite (app_assoc (enc32 rr)), (app_assoc [ver]), (app_assoc TAG). apply le32_at.
    - rewrite !len_app, !len_enc32, len_cons, len_nil, (cf_tag_len C), (cf_off_ds C). lia.
    - pose proof (cf_max C). lia. }
  assert (Ldata : drop OFF_DATA s = data ++ TAG ++ rest).
  { rewrite S0. change (TAG ++ ver :: enc32 rr ++ ?x) with (TAG ++ [ver] ++ enc32 rr ++ x).
    rewrite (app_assoc (enc32 call)), (app_assoc (enc32 rr)), (app_assoc [ver]), (app_assoc TAG). apply drop_at.
    rewrite !len_app, !len_enc32, len_cons, len_nil, (cf_tag_len C), (cf_off_data C). lia. }
  assert (Ls : len s = HDR + n + TAG_SIZE + len rest).
  { unfold s. rewrite len_app, len_encode. reflexivity. }
  assert (Ltail : drop (HDR + n) s = TAG ++ rest).
  { replace (HDR + n) with (n + OFF_DATA) by (rewrite (cf_hdr C), (cf_off_data C); lia).
    rewrite <- drop_drop by (rewrite ?(cf_off_data C); pose proof (cf_tag_pos C); lia).
    rewrite Ldata. apply drop_at. reflexivity. }
  assert (Lrest : drop (HDR + n + TAG_SIZE) s = rest).
  { replace (HDR + n + TAG_SIZE) with (TAG_SIZE + (HDR + n)) by lia.
    rewrite <- drop_drop by (rewrite ?(cf_hdr C); pose proof (cf_tag_pos C); lia).
    rewrite Ltail. apply drop_at. symmetry; apply (cf_tag_len C). }
  unfold decode1. fold s.
  rewrite Ltag, list_eqb_refl. cbn [negb].
  pose proof (len_nonneg rest) as Hr0. pose proof (cf_tag_pos C) as Htp.
  destruct (len s <? HDR) eqn:E1; [apply Z.ltb_lt in E1; lia|].
  rewrite Lds.
  destruct (MAX_DATA_SIZE <? n) eqn:E2; [apply Z.ltb_lt in E2; lia|].
  destruct (len s <? HDR + n + TAG_SIZE) eqn:E3; [apply Z.ltb_lt in E3; lia|].
  rewrite Ltail. rewrite (take_at TAG rest TAG_SIZE) by (symmetry; apply (cf_tag_len C)).
  rewrite list_eqb_refl. cbn [negb].
  rewrite Lrr, Lcall, Lver, Ldata, Lrest. unfold n. rewrite take_app_exact. reflexivity.
Qed.

Lemma decode_stream_stream : forall ps fuel, Forall pkt_ok ps -> (length ps <= fuel)%nat ->
  decode_stream fuel (stream ps) = Some ps.
Proof.
  induction ps as [|p ps IH]; intros fuel Hok Hf.
  - destruct fuel; reflexivity.
  - inversion Hok as [|? ? Hp Hps]; subst.
    destruct fuel as [|k]; [cbn [length] in Hf; lia|].
    rewrite stream_cons.
    assert (Hne : exists x l, encode p ++ stream ps = x :: l).
    { pose proof (len_encode p) as L. pose proof (len_nonneg (p_data p)). pose proof (cf_hdr CF). pose proof (cf_tag_pos CF).
      destruct (encode p) as [|x l] eqn:E; [rewrite len_nil in L; lia|]. exists x, (l ++ stream ps). reflexivity. }
    destruct Hne as (x & l & Hne).
    cbn [decode_stream]. rewrite Hne. rewrite <- Hne.
    rewrite decode1_encode by exact Hp.
    rewrite IH by (auto; cbn [length] in Hf; lia). reflexivity.
Qed.
Lemma length_stream ps : (length ps <= length (stream ps))%nat.
Proof.
  induction ps as [|p ps IH]; [cbn; lia|].
  rewrite stream_cons, app_length. cbn [length].
  pose proof (len_encode p) as L. pose proof (len_nonneg (p_data p)). pose proof (cf_hdr CF). pose proof (cf_tag_pos CF).
  unfold len in L. lia.
Qed.
Theorem roundtrip_stream ps : Forall pkt_ok ps -> decode_all (stream ps) = Some ps.
Proof. intros H. unfold decode_all. apply decode_stream_stream; [exact H|apply length_stream]. Qed.
