(* C02 — proofs about the send-path model (Model.v). *)
From Coq Require Import List ZArith Lia Bool Sorted.
Import ListNotations.
From V Require Import Base.U32 Base.Bytes Base.Iface Gen.ProtoConsts Gen.C02Consts C02.Model.
Local Open Scope Z_scope.

(* ---------- facts about the generated constants (re-proved by computation when they change) ---------- *)
Record consts_facts : Prop := {
  cf_tag_len : len TAG = TAG_SIZE;
  cf_tag_ok : bytes_ok TAG;
  cf_tag_pos : 0 < TAG_SIZE;
  cf_off_ver : OFF_VERSION = TAG_SIZE;
  cf_off_rr : OFF_RR_ID = TAG_SIZE + 1;
  cf_off_call : OFF_CALL_ID = TAG_SIZE + 5;
  cf_off_ds : OFF_DATA_SIZE = TAG_SIZE + 9;
  cf_off_data : OFF_DATA = TAG_SIZE + 13;
  cf_hdr : HDR = TAG_SIZE + 13;
  cf_sdp : SDP_SIZE = HDR + MAX_DATA_SIZE;
  cf_max : 0 <= MAX_DATA_SIZE < 1073741824;
  cf_bufmin : 0 < BUFFER_MIN < BUFFER_MAX;
  cf_bufmax : BUFFER_MAX < 1073741824;
  cf_srpcbuf : 0 < SRPC_BUFFER;
  cf_queue : 0 < SRPC_QUEUE;
  cf_sendbuf : 0 <= SEND_BUFFER;
  cf_chunk_fits : SRPC_BUFFER <= SEND_BUFFER;
  cf_ver : 0 <= DEVICE_PROTO_VERSION < 256;
  cf_ok : classify 0 = S_OK
}.
Lemma CF : consts_facts.
Proof. split; try (vm_compute; intuition congruence); try reflexivity.
  repeat constructor; vm_compute; intuition congruence. Qed.

(* ---------- lists ---------- *)
Lemma len_zero_nil {A} (l : list A) : len l <= 0 -> l = [].
Proof. destruct l; [reflexivity|]. rewrite len_cons. pose proof (len_nonneg l). lia. Qed.
Lemma ltb_len_false {A} (l : list A) : (0 <? len l) = false -> l = [].
Proof. intros H. apply Z.ltb_ge in H. apply len_zero_nil; exact H. Qed.
Lemma ltb_len_true {A} (l : list A) : (0 <? len l) = true -> 0 < len l.
Proof. apply Z.ltb_lt. Qed.
Lemma len_enc32 v : len (enc32 v) = 4. Proof. reflexivity. Qed.
Lemma nthz_app_r (a b : list Z) i : 0 <= i -> nthz (a ++ b) (len a + i) = nthz b i.
Proof.
  intros H. unfold nthz. rewrite app_nth2 by (unfold len; lia). f_equal. unfold len; lia.
Qed.
Lemma enc32_sum v : 0 <= v < 4294967296 ->
  v mod 256 + 256 * ((v / 256) mod 256) + 65536 * ((v / 65536) mod 256) + 16777216 * ((v / 16777216) mod 256) = v.
Proof.
  intros H.
  assert (E1 : v / 65536 = v / 256 / 256) by (rewrite Z.div_div by lia; reflexivity).
  assert (E2 : v / 16777216 = v / 256 / 256 / 256) by (rewrite !Z.div_div by lia; reflexivity).
  rewrite E1, E2.
  pose proof (Z.div_mod v 256 ltac:(lia)) as D1.
  pose proof (Z.div_mod (v / 256) 256 ltac:(lia)) as D2.
  pose proof (Z.div_mod (v / 256 / 256) 256 ltac:(lia)) as D3.
  assert (S : 0 <= v / 256 / 256 / 256 < 256).
  { split. - repeat apply Z.div_pos; lia. - rewrite !Z.div_div by lia. apply Z.div_lt_upper_bound; lia. }
  rewrite (Z.mod_small (v / 256 / 256 / 256) 256) by lia.
  pose proof (Z.div_mod (v / 256 / 256) 256 ltac:(lia)).
  lia.
Qed.
Lemma le32_at (pre post : list Z) v o : o = len pre -> 0 <= v < 4294967296 -> le32 (pre ++ enc32 v ++ post) o = v.
Proof.
  intros -> H. unfold le32.
  replace (len pre) with (len pre + 0) at 1 by lia.
  rewrite !nthz_app_r by lia. unfold nthz, enc32. cbn [Z.to_nat Pos.to_nat Pos.iter_op Nat.add app nth].
  apply enc32_sum; exact H.
Qed.
Lemma nthz_at (pre post : list Z) x o : o = len pre -> nthz (pre ++ x :: post) o = x.
Proof. intros ->. replace (len pre) with (len pre + 0) by lia. rewrite nthz_app_r by lia. reflexivity. Qed.
Lemma drop_at {A} (pre post : list A) o : o = len pre -> drop o (pre ++ post) = post.
Proof. intros ->. apply drop_app_exact. Qed.
Lemma take_at {A} (pre post : list A) o : o = len pre -> take o (pre ++ post) = pre.
Proof. intros ->. apply take_app_exact. Qed.
Lemma enc32_ok v : bytes_ok (enc32 v).
Proof. unfold enc32. repeat constructor; apply Z.mod_pos_bound; lia. Qed.

(* ---------- subsequences ---------- *)
Inductive Subseq {A} : list A -> list A -> Prop :=
  | ss_nil : forall l, Subseq [] l
  | ss_keep : forall x a b, Subseq a b -> Subseq (x :: a) (x :: b)
  | ss_skip : forall x a b, Subseq a b -> Subseq a (x :: b).
Lemma Subseq_refl {A} (l : list A) : Subseq l l.
Proof. induction l; constructor; auto. Qed.
Lemma Subseq_app {A} (a a' b b' : list A) : Subseq a a' -> Subseq b b' -> Subseq (a ++ b) (a' ++ b').
Proof.
  intros H. revert b b'. induction H; intros c c' Hc; cbn [app].
  - induction l; cbn [app]; [exact Hc|]. apply ss_skip; exact IHl.
  - apply ss_keep; auto.
  - apply ss_skip; auto.
Qed.
Lemma Subseq_trans {A} (a b c : list A) : Subseq a b -> Subseq b c -> Subseq a c.
Proof.
  intros H1 H2. revert a H1. induction H2; intros a0 H1.
  - inversion H1; subst. constructor.
  - inversion H1; subst.
    + constructor.
    + apply ss_keep; auto.
    + apply ss_skip; auto.
  - apply ss_skip; auto.
Qed.
Lemma Subseq_drop_mid {A} (a b c : list A) : Subseq (a ++ c) (a ++ b ++ c).
Proof.
  apply Subseq_app; [apply Subseq_refl|].
  replace c with ([] ++ c) at 1 by reflexivity. apply Subseq_app; [constructor|apply Subseq_refl].
Qed.

(* ---------- frames: encode / decode ---------- *)
Definition pkt_ok (p : pkt) : Prop :=
  0 < p_rr p < 4294967296 /\ 0 <= p_call p < 4294967296 /\ 0 <= p_ver p < 256 /\
  bytes_ok (p_data p) /\ len (p_data p) <= MAX_DATA_SIZE.

Lemma len_header p : len (header p) = HDR.
Proof.
  unfold header. rewrite !len_app, !len_enc32, len_cons, len_nil, (cf_tag_len CF), (cf_hdr CF). lia.
Qed.
Lemma len_body p : len (body p) = HDR + len (p_data p).
Proof. unfold body. rewrite len_app, len_header. reflexivity. Qed.
Lemma len_encode p : len (encode p) = HDR + len (p_data p) + TAG_SIZE.
Proof. unfold encode. rewrite len_app, len_body, (cf_tag_len CF). reflexivity. Qed.
Lemma stream_app a b : stream (a ++ b) = stream a ++ stream b.
Proof. unfold stream. rewrite map_app, concat_app. reflexivity. Qed.
Lemma stream_cons p l : stream (p :: l) = encode p ++ stream l.
Proof. reflexivity. Qed.

Lemma decode1_encode p rest : pkt_ok p -> decode1 (encode p ++ rest) = Some (p, rest).
Proof.
  intros (Hrr & Hcall & Hver & Hb & Hlen).
  destruct p as [rr call ver data]. cbn [p_rr p_call p_ver p_data] in *.
  pose proof CF as C. pose proof (len_nonneg data) as Hd0.
  set (n := len data) in *.
  set (s := encode {| p_rr := rr; p_call := call; p_ver := ver; p_data := data |} ++ rest).
  assert (S0 : s = TAG ++ ver :: enc32 rr ++ enc32 call ++ enc32 n ++ data ++ TAG ++ rest).
  { unfold s, encode, body, header. cbn [p_rr p_call p_ver p_data]. rewrite <- !app_assoc. reflexivity. }
  assert (Ltag : take TAG_SIZE s = TAG) by (rewrite S0; apply take_at; symmetry; apply (cf_tag_len C)).
  assert (Lver : nthz s OFF_VERSION = ver).
  { rewrite S0. apply nthz_at. rewrite (cf_off_ver C). symmetry; apply (cf_tag_len C). }
  assert (Lrr : le32 s OFF_RR_ID = rr).
  { rewrite S0. change (TAG ++ ver :: enc32 rr ++ ?x) with (TAG ++ [ver] ++ enc32 rr ++ x).
    rewrite (app_assoc TAG [ver]). apply le32_at; [|lia].
    rewrite len_app, len_cons, len_nil, (cf_tag_len C), (cf_off_rr C). lia. }
  assert (Lcall : le32 s OFF_CALL_ID = call).
  { rewrite S0. change (TAG ++ ver :: enc32 rr ++ ?x) with (TAG ++ [ver] ++ enc32 rr ++ x).
    rewrite (app_assoc [ver]), (app_assoc TAG). apply le32_at; [|lia].
    rewrite !len_app, len_enc32, len_cons, len_nil, (cf_tag_len C), (cf_off_call C). lia. }
  assert (Lds : le32 s OFF_DATA_SIZE = n).
  { rewrite S0. change (TAG ++ ver :: enc32 rr ++ ?x) with (TAG ++ [ver] ++ enc32 rr ++ x).
    rewrite (app_assoc (enc32 rr)), (app_assoc [ver]), (app_assoc TAG). apply le32_at.
    - rewrite !len_app, !len_enc32, len_cons, len_nil, (cf_tag_len C), (cf_off_ds C). lia.
    - pose proof (cf_max C). lia. }
  assert (Ldata : drop OFF_DATA s = data ++ TAG ++ rest).
  { rewrite S0. change (TAG ++ ver :: enc32 rr ++ ?x) with (TAG ++ [ver] ++ enc32 rr ++ x).
    rewrite (app_assoc (enc32 call)), (app_assoc (enc32 rr)), (app_assoc [ver]), (app_assoc TAG). apply drop_at.
    rewrite !len_app, !len_enc32, len_cons, len_nil, (cf_tag_len C), (cf_off_data C). lia. }
  assert (Ls : len s = HDR + n + TAG_SIZE + len rest).
  { unfold s. rewrite len_app, len_encode. reflexivity. }
  assert (Ltail : drop (HDR + n) s = TAG ++ rest).
  { replace (HDR + n) with (n + OFF_DATA) by (rewrite (cf_hdr C), (cf_off_data C); lia).
    rewrite <- drop_drop by (rewrite ?(cf_off_data C); pose proof (cf_tag_pos C); lia).
    rewrite Ldata. apply drop_at. reflexivity. }
  assert (Lrest : drop (HDR + n + TAG_SIZE) s = rest).
  { replace (HDR + n + TAG_SIZE) with (TAG_SIZE + (HDR + n)) by lia.
    rewrite <- drop_drop by (rewrite ?(cf_hdr C); pose proof (cf_tag_pos C); lia).
    rewrite Ltail. apply drop_at. symmetry; apply (cf_tag_len C). }
  unfold decode1. fold s.
  rewrite Ltag, list_eqb_refl. cbn [negb].
  pose proof (len_nonneg rest) as Hr0. pose proof (cf_tag_pos C) as Htp.
  destruct (len s <? HDR) eqn:E1; [apply Z.ltb_lt in E1; lia|].
  rewrite Lds.
  destruct (MAX_DATA_SIZE <? n) eqn:E2; [apply Z.ltb_lt in E2; lia|].
  destruct (len s <? HDR + n + TAG_SIZE) eqn:E3; [apply Z.ltb_lt in E3; lia|].
  rewrite Ltail. rewrite (take_at TAG rest TAG_SIZE) by (symmetry; apply (cf_tag_len C)).
  rewrite list_eqb_refl. cbn [negb].
  rewrite Lrr, Lcall, Lver, Ldata, Lrest. unfold n. rewrite take_app_exact. reflexivity.
Qed.

Lemma decode_stream_stream : forall ps fuel, Forall pkt_ok ps -> (length ps <= fuel)%nat ->
  decode_stream fuel (stream ps) = Some ps.
Proof.
  induction ps as [|p ps IH]; intros fuel Hok Hf.
  - destruct fuel; reflexivity.
  - inversion Hok as [|? ? Hp Hps]; subst.
    destruct fuel as [|k]; [cbn [length] in Hf; lia|].
    rewrite stream_cons.
    assert (Hne : exists x l, encode p ++ stream ps = x :: l).
    { pose proof (len_encode p) as L. pose proof (len_nonneg (p_data p)). pose proof (cf_hdr CF). pose proof (cf_tag_pos CF).
      destruct (encode p) as [|x l] eqn:E; [rewrite len_nil in L; lia|]. exists x, (l ++ stream ps). reflexivity. }
    destruct Hne as (x & l & Hne).
    cbn [decode_stream]. rewrite Hne. rewrite <- Hne.
    rewrite decode1_encode by exact Hp.
    rewrite IH by (auto; cbn [length] in Hf; lia). reflexivity.
Qed.
Lemma length_stream ps : (length ps <= length (stream ps))%nat.
Proof.
  induction ps as [|p ps IH]; [cbn; lia|].
  rewrite stream_cons, app_length. cbn [length].
  pose proof (len_encode p) as L. pose proof (len_nonneg (p_data p)). pose proof (cf_hdr CF). pose proof (cf_tag_pos CF).
  unfold len in L. lia.
Qed.
Theorem roundtrip_stream ps : Forall pkt_ok ps -> decode_all (stream ps) = Some ps.
Proof. intros H. unfold decode_all. apply decode_stream_stream; [exact H|apply length_stream]. Qed.

(* ---------- outputs ---------- *)
Lemma wire_of_app a b : wire_of (a ++ b) = wire_of a ++ wire_of b.
Proof. unfold wire_of. rewrite map_app, concat_app. reflexivity. Qed.
Lemma clean_app a b : clean (a ++ b) <-> clean a /\ clean b.
Proof. unfold clean. rewrite forallb_app, andb_true_iff. reflexivity. Qed.
Lemma clean_nil : clean []. Proof. reflexivity. Qed.
Lemma not_clean o : ~ clean o -> In HardErr o \/ In SendBufExceeded o \/ In Restart o.
Proof.
  unfold clean. induction o as [|x o IH]; intros H; [exfalso; apply H; reflexivity|].
  cbn [forallb] in H. destruct x; cbn [is_report negb andb] in H;
    try (destruct (IH H) as [A|[A|A]]; [left|right; left|right; right]; right; exact A).
  - left; left; reflexivity.
  - right; left; left; reflexivity.
  - right; right; left; reflexivity.
Qed.

(* ---------- the send shim ---------- *)
Lemma append_buffer_spec eb chunk eb' o : append_buffer eb chunk = (eb', o) ->
  (o = [] /\ eb' = eb ++ chunk /\ (0 < len chunk -> len eb + len chunk <= SEND_BUFFER)) \/
  (o = [SendBufExceeded] /\ eb' = eb /\ SEND_BUFFER < len eb + len chunk).
Proof.
  unfold append_buffer. intros H.
  destruct (0 <? len chunk) eqn:E.
  - destruct (SEND_BUFFER <? len eb + len chunk) eqn:E2; inversion H; subst.
    + right. apply Z.ltb_lt in E2. auto.
    + left. apply Z.ltb_ge in E2. auto.
  - inversion H; subst. left. apply ltb_len_false in E. subst chunk.
    repeat split; try reflexivity. intros X. change (len (@nil Z)) with 0 in X. lia.
Qed.

(* the retry never loses anything, whatever the result *)
Lemma retry_spec eb rs eb1 rs1 o1 : retry eb rs = (eb1, rs1, o1) ->
  wire_of o1 ++ eb1 = eb /\ len eb1 <= len eb /\ ~ In SendBufExceeded o1 /\ ~ In Restart o1.
Proof.
  unfold retry. intros H.
  destruct (0 <? len eb) eqn:E.
  - destruct (next rs) as [r rs']. destruct (classify r); inversion H; subst; cbn [wire_of map concat app In];
      rewrite ?app_nil_r, ?len_nil; pose proof (len_nonneg eb); repeat split; try lia; intuition congruence.
  - inversion H; subst. cbn. repeat split; try lia; intuition.
Qed.

Lemma send_or_buffer_spec eb chunk rs eb2 rs2 o2 : send_or_buffer eb chunk rs = (eb2, rs2, o2) ->
  (clean o2 -> wire_of o2 ++ eb2 = eb ++ chunk) /\ Subseq (wire_of o2 ++ eb2) (eb ++ chunk) /\ ~ In Restart o2 /\
  (len eb <= SEND_BUFFER -> len chunk <= SEND_BUFFER -> len eb2 <= SEND_BUFFER).
Proof.
  unfold send_or_buffer. intros H.
  assert (AB : forall e c e' o, append_buffer e c = (e', o) ->
     (clean o -> wire_of o ++ e' = e ++ c) /\ Subseq (wire_of o ++ e') (e ++ c) /\ ~ In Restart o /\
     (len e <= SEND_BUFFER -> len e' <= SEND_BUFFER \/ (c = [] /\ e' = e))).
  { intros e c e' o A. apply append_buffer_spec in A. destruct A as [(-> & -> & L)|(-> & -> & L)]; cbn [wire_of map concat app].
    - repeat split; auto using Subseq_refl. intros. destruct (0 <? len c) eqn:Ec.
      + left. apply Z.ltb_lt in Ec. rewrite len_app. auto.
      + right. apply ltb_len_false in Ec. subst c. rewrite app_nil_r. auto.
    - repeat split.
      + intros Cn; discriminate Cn.
      + rewrite <- (app_nil_r e) at 1. apply Subseq_app; [apply Subseq_refl|constructor].
      + intros [X|[]]; discriminate X.
      + auto. }
  destruct (0 <? len eb) eqn:E.
  - destruct (append_buffer eb chunk) as [e' o] eqn:A. inversion H; subst.
    destruct (AB _ _ _ _ A) as (A1 & A2 & A3 & A4). repeat split; auto.
    intros L1 L2. destruct (A4 L1) as [X|(-> & ->)]; auto.
  - apply ltb_len_false in E. subst eb.
    destruct (0 <? len chunk) eqn:Ec.
    + destruct (next rs) as [r rs']. destruct (classify r).
      * inversion H; subst. cbn [wire_of map concat app]. rewrite !app_nil_r. repeat split; auto using Subseq_refl.
        intros [X|[]]; discriminate X.
      * destruct (append_buffer [] chunk) as [e' o] eqn:A. inversion H; subst.
        destruct (AB _ _ _ _ A) as (A1 & A2 & A3 & A4). repeat split; auto.
        intros L1 L2. apply append_buffer_spec in A. destruct A as [(-> & -> & L)|(-> & -> & L)]; auto.
      * inversion H; subst. cbn [wire_of map concat app]. repeat split.
        -- intros Cn; discriminate Cn.
        -- constructor.
        -- intros [X|[]]; discriminate X.
        -- auto.
    + apply ltb_len_false in Ec. subst chunk. inversion H; subst. cbn. repeat split; auto using Subseq_refl.
Qed.

Lemma data_write_spec eb chunk rs eb2 rs2 o : data_write eb chunk rs = (eb2, rs2, o) ->
  (clean o -> wire_of o ++ eb2 = eb ++ chunk) /\ Subseq (wire_of o ++ eb2) (eb ++ chunk) /\ ~ In Restart o /\
  (len eb <= SEND_BUFFER -> len chunk <= SEND_BUFFER -> len eb2 <= SEND_BUFFER).
Proof.
  unfold data_write. intros H.
  destruct (retry eb rs) as [[eb1 rs1] o1] eqn:R.
  destruct (send_or_buffer eb1 chunk rs1) as [[e2 r2] o2] eqn:S.
  inversion H; subst.
  apply retry_spec in R. destruct R as (R1 & R2 & R3 & R4).
  apply send_or_buffer_spec in S. destruct S as (S1 & S2 & S3 & S4).
  rewrite wire_of_app, <- app_assoc. repeat split.
  - intros Cn. apply clean_app in Cn. rewrite (S1 (proj2 Cn)), app_assoc, R1. reflexivity.
  - rewrite <- R1 at 2. rewrite <- app_assoc. apply Subseq_app; [apply Subseq_refl|exact S2].
  - intros I. apply in_app_or in I. tauto.
  - intros L1 L2. apply S4; lia.
Qed.

(* flush at the top of supla_esp_devconn_iterate: data_write(NULL, 0) *)
Lemma flush_spec eb rs eb1 rs1 o1 : data_write eb [] rs = (eb1, rs1, o1) ->
  wire_of o1 ++ eb1 = eb /\ len eb1 <= len eb /\ ~ In SendBufExceeded o1 /\ ~ In Restart o1.
Proof.
  unfold data_write. intros H.
  destruct (retry eb rs) as [[e1 r1] oo] eqn:R.
  assert (S : send_or_buffer e1 [] r1 = (e1, r1, [])).
  { unfold send_or_buffer, append_buffer. rewrite len_nil. cbn [Z.ltb Z.compare]. destruct (0 <? len e1); reflexivity. }
  rewrite S in H. inversion H; subst. rewrite app_nil_r. apply retry_spec in R. exact R.
Qed.

(* ---------- proto out buffer ---------- *)
Definition obuf_ok (b : obuf) : Prop := 0 <= osize b < BUFFER_MAX /\ len (odata b) <= osize b.

Lemma oappend_data b c b' : oappend b c = Some b' -> odata b' = odata b ++ c.
Proof.
  unfold oappend. intros H.
  destruct (BUFFER_MAX <=? _); [discriminate|]. inversion H; subst. reflexivity.
Qed.
(* the buffer overflows exactly when the bytes do not fit below BUFFER_MAX_SIZE *)
Lemma oappend_spec b c : obuf_ok b -> len c < 1073741824 ->
  match oappend b c with
  | None => BUFFER_MAX <= len (odata b) + len c
  | Some b' => obuf_ok b' /\ odata b' = odata b ++ c /\ len (odata b) + len c < BUFFER_MAX
  end.
Proof.
  intros (H1 & H2) Hc. pose proof CF as C. pose proof (cf_bufmin C). pose proof (cf_bufmax C).
  pose proof (len_nonneg c). pose proof (len_nonneg (odata b)).
  unfold oappend.
  set (size0 := if osize b <? BUFFER_MIN then BUFFER_MIN else osize b).
  assert (S0 : osize b <= size0 < BUFFER_MAX /\ BUFFER_MIN <= size0).
  { unfold size0. destruct (osize b <? BUFFER_MIN) eqn:E; [apply Z.ltb_lt in E|apply Z.ltb_ge in E]; lia. }
  rewrite (u32_small (size0 - len (odata b))) by lia.
  destruct (size0 - len (odata b) <? len c) eqn:E; [apply Z.ltb_lt in E|apply Z.ltb_ge in E].
  - rewrite (u32_small (len c - _)) by lia. rewrite u32_small by lia.
    replace (size0 + (len c - (size0 - len (odata b)))) with (len (odata b) + len c) by lia.
    destruct (BUFFER_MAX <=? len (odata b) + len c) eqn:E2; [apply Z.leb_le in E2|apply Z.leb_gt in E2].
    + exact E2.
    + cbn [osize odata]. unfold obuf_ok. cbn [osize odata]. rewrite len_app. repeat split; lia.
  - destruct (BUFFER_MAX <=? size0) eqn:E2; [apply Z.leb_le in E2; lia|].
    unfold obuf_ok. cbn [osize odata]. rewrite len_app. repeat split; lia.
Qed.

Lemma opop_spec b n b' c : opop b n = (b', c) -> 0 < n ->
  c ++ odata b' = odata b /\ len c <= n /\ (0 < len (odata b) -> 0 < len c) /\ (obuf_ok b -> obuf_ok b').
Proof.
  unfold opop. intros H Hn. pose proof (len_nonneg (odata b)) as H0.
  destruct (len (odata b) <=? 0) eqn:E; cbn [orb] in H.
  - inversion H; subst. apply Z.leb_le in E. cbn [app]. rewrite len_nil. repeat split; auto; lia.
  - apply Z.leb_gt in E. destruct (n =? 0) eqn:En; [apply Z.eqb_eq in En; lia|].
    inversion H; subst; clear H. cbn [odata osize].
    set (k := if len (odata b) <? n then len (odata b) else n).
    assert (K : 0 < k <= n /\ k <= len (odata b)).
    { unfold k. destruct (len (odata b) <? n) eqn:E2; [apply Z.ltb_lt in E2|apply Z.ltb_ge in E2]; lia. }
    repeat split.
    + apply take_drop.
    + rewrite len_take by lia. lia.
    + intros _. rewrite len_take by lia. lia.
    + intros (B1 & B2). pose proof (cf_bufmin CF). unfold obuf_ok. cbn [osize odata].
      rewrite len_drop by lia.
      destruct (Z.max 0 (len (odata b) - k) <? osize b) eqn:E3; [apply Z.ltb_lt in E3|apply Z.ltb_ge in E3].
      * destruct (Z.max 0 (len (odata b) - k) <? BUFFER_MIN) eqn:E4; [apply Z.ltb_lt in E4|apply Z.ltb_ge in E4]; lia.
      * lia.
Qed.

Lemma out_append_spec silent b p b' r : out_append silent b p = (b', r) ->
  match r with
  | A_TRUE => odata b' = odata b ++ encode p
  | A_FALSE => silent = true /\ b' = b
  | A_ERROR => Subseq (odata b') (odata b ++ encode p)
  end.
Proof.
  unfold out_append. intros H.
  assert (E0 : Subseq (odata b) (odata b ++ encode p)).
  { rewrite <- (app_nil_r (odata b)) at 1. apply Subseq_app; [apply Subseq_refl|constructor]. }
  destruct (SDP_SIZE <? _); [inversion H; subst; exact E0|].
  destruct (oappend b (body p)) as [b1|] eqn:A1.
  - apply oappend_data in A1.
    destruct (oappend b1 TAG) as [b2|] eqn:A2; inversion H; subst.
    + apply oappend_data in A2. rewrite A2, A1. unfold encode. rewrite app_assoc. reflexivity.
    + rewrite A1. unfold encode. apply Subseq_app; [apply Subseq_refl|].
      rewrite <- (app_nil_r (body p)) at 1. apply Subseq_app; [apply Subseq_refl|constructor].
  - destruct silent; inversion H; subst; auto.
Qed.
