(* C02 — proofs about the send-path model (Model.v). *)
From Coq Require Import List ZArith Lia Bool Sorted.
Import ListNotations.
From V Require Import Base.U32 Base.Bytes Base.Iface Gen.ProtoConsts Gen.C02Consts C02.Model.
Local Open Scope Z_scope.

(* ---------- facts about the generated constants (re-proved by computation when they change) ---------- *)
Record consts_facts : Prop := {
  cf_tag_len : len TAG = TAG_SIZE;
  cf_tag_ok : bytes_ok TAG;
  cf_tag_pos : 0 < TAG_SIZE;
  cf_off_ver : OFF_VERSION = TAG_SIZE;
  cf_off_rr : OFF_RR_ID = TAG_SIZE + 1;
  cf_off_call : OFF_CALL_ID = TAG_SIZE + 5;
  cf_off_ds : OFF_DATA_SIZE = TAG_SIZE + 9;
  cf_off_data : OFF_DATA = TAG_SIZE + 13;
  cf_hdr : HDR = TAG_SIZE + 13;
  cf_sdp : SDP_SIZE = HDR + MAX_DATA_SIZE;
  cf_max : 0 <= MAX_DATA_SIZE < 536870912;
  cf_tag_small : TAG_SIZE < 1024;
  cf_bufmin : 0 < BUFFER_MIN < BUFFER_MAX;
  cf_bufmax : BUFFER_MAX < 1073741824;
  cf_srpcbuf : 0 < SRPC_BUFFER;
  cf_queue : 0 < SRPC_QUEUE;
  cf_sendbuf : 0 <= SEND_BUFFER;
  cf_chunk_fits : SRPC_BUFFER <= SEND_BUFFER;
  cf_ver : 0 <= DEVICE_PROTO_VERSION < 256;
  cf_ok : classify 0 = S_OK
}.
Lemma CF : consts_facts.
Proof. split; try (vm_compute; intuition congruence); try reflexivity.
  repeat constructor; vm_compute; intuition congruence. Qed.

(* ---------- lists ---------- *)
Lemma len_zero_nil {A} (l : list A) : len l <= 0 -> l = [].
Proof. destruct l; [reflexivity|]. rewrite len_cons. pose proof (len_nonneg l). lia. Qed.
Lemma ltb_len_false {A} (l : list A) : (0 <? len l) = false -> l = [].
Proof. intros H. apply Z.ltb_ge in H. apply len_zero_nil; exact H. Qed.
Lemma ltb_len_true {A} (l : list A) : (0 <? len l) = true -> 0 < len l.
Proof. apply Z.ltb_lt. Qed.
Lemma len_enc32 v : len (enc32 v) = 4. Proof. reflexivity. Qed.
Lemma nthz_app_r (a b : list Z) i : 0 <= i -> nthz (a ++ b) (len a + i) = nthz b i.
Proof.
  intros H. unfold nthz. rewrite app_nth2 by (unfold len; lia). f_equal. unfold len; lia.
Qed.
Lemma enc32_sum v : 0 <= v < 4294967296 ->
  v mod 256 + 256 * ((v / 256) mod 256) + 65536 * ((v / 65536) mod 256) + 16777216 * ((v / 16777216) mod 256) = v.
Proof.
  intros H.
  assert (E1 : v / 65536 = v / 256 / 256) by (rewrite Z.div_div by lia; reflexivity).
  assert (E2 : v / 16777216 = v / 256 / 256 / 256) by (rewrite !Z.div_div by lia; reflexivity).
  rewrite E1, E2.
  pose proof (Z.div_mod v 256 ltac:(lia)) as D1.
  pose proof (Z.div_mod (v / 256) 256 ltac:(lia)) as D2.
  pose proof (Z.div_mod (v / 256 / 256) 256 ltac:(lia)) as D3.
  assert (S : 0 <= v / 256 / 256 / 256 < 256).
  { split. - repeat apply Z.div_pos; lia. - rewrite !Z.div_div by lia. apply Z.div_lt_upper_bound; lia. }
  rewrite (Z.mod_small (v / 256 / 256 / 256) 256) by lia.
  pose proof (Z.div_mod (v / 256 / 256) 256 ltac:(lia)).
  lia.
Qed.
Lemma le32_at (pre post : list Z) v o : o = len pre -> 0 <= v < 4294967296 -> le32 (pre ++ enc32 v ++ post) o = v.
Proof.
  intros -> H. unfold le32.
  replace (len pre) with (len pre + 0) at 1 by lia.
  rewrite !nthz_app_r by lia. unfold nthz, enc32. cbn [Z.to_nat Pos.to_nat Pos.iter_op Nat.add app nth].
  apply enc32_sum; exact H.
Qed.
Lemma nthz_at (pre post : list Z) x o : o = len pre -> nthz (pre ++ x :: post) o = x.
Proof. intros ->. replace (len pre) with (len pre + 0) by lia. rewrite nthz_app_r by lia. reflexivity. Qed.
Lemma drop_at {A} (pre post : list A) o : o = len pre -> drop o (pre ++ post) = post.
Proof. intros ->. apply drop_app_exact. Qed.
Lemma take_at {A} (pre post : list A) o : o = len pre -> take o (pre ++ post) = pre.
Proof. intros ->. apply take_app_exact. Qed.
Lemma enc32_ok v : bytes_ok (enc32 v).
Proof. unfold enc32. repeat constructor; apply Z.mod_pos_bound; lia. Qed.

(* ---------- subsequences ---------- *)
Lemma Subseq_refl {A} (l : list A) : Subseq l l.
Proof. induction l; constructor; auto. Qed.
Lemma Subseq_app {A} (a a' b b' : list A) : Subseq a a' -> Subseq b b' -> Subseq (a ++ b) (a' ++ b').
Proof.
  intros H. revert b b'. induction H; intros c c' Hc; cbn [app].
  - induction l; cbn [app]; [exact Hc|]. apply ss_skip; exact IHl.
  - apply ss_keep; auto.
  - apply ss_skip; auto.
Qed.
Lemma Subseq_trans {A} (a b c : list A) : Subseq a b -> Subseq b c -> Subseq a c.
Proof.
  intros H1 H2. revert a H1. induction H2; intros a0 H1.
  - inversion H1; subst. constructor.
  - inversion H1; subst.
    + constructor.
    + apply ss_keep; auto.
    + apply ss_skip; auto.
  - apply ss_skip; auto.
Qed.
Lemma Subseq_drop_mid {A} (a b c : list A) : Subseq (a ++ c) (a ++ b ++ c).
Proof.
  apply Subseq_app; [apply Subseq_refl|].
  replace c with ([] ++ c) at 1 by reflexivity. apply Subseq_app; [constructor|apply Subseq_refl].
Qed.

(* ---------- frames: encode / decode ---------- *)

Lemma len_header p : len (header p) = HDR.
Proof.
  unfold header. rewrite !len_app, !len_enc32, len_cons, len_nil, (cf_tag_len CF), (cf_hdr CF). lia.
Qed.
Lemma len_body p : len (body p) = HDR + len (p_data p).
Proof. unfold body. rewrite len_app, len_header. reflexivity. Qed.
Lemma len_encode p : len (encode p) = HDR + len (p_data p) + TAG_SIZE.
Proof. unfold encode. rewrite len_app, len_body, (cf_tag_len CF). reflexivity. Qed.
Lemma stream_app a b : stream (a ++ b) = stream a ++ stream b.
Proof. unfold stream. rewrite map_app, concat_app. reflexivity. Qed.
Lemma stream_cons p l : stream (p :: l) = encode p ++ stream l.
Proof. reflexivity. Qed.

Lemma decode1_encode p rest : pkt_ok p -> decode1 (encode p ++ rest) = Some (p, rest).
Proof.
  intros (Hrr & Hcall & Hver & Hb & Hlen).
  destruct p as [rr call ver data]. cbn [p_rr p_call p_ver p_data] in *.
  pose proof CF as C. pose proof (len_nonneg data) as Hd0.
  set (n := len data) in *.
  set (s := encode {| p_rr := rr; p_call := call; p_ver := ver; p_data := data |} ++ rest).
  assert (S0 : s = TAG ++ ver :: enc32 rr ++ enc32 call ++ enc32 n ++ data ++ TAG ++ rest).
  { unfold s, encode, body, header. cbn [p_rr p_call p_ver p_data]. rewrite <- !app_assoc. reflexivity. }
  assert (Ltag : take TAG_SIZE s = TAG) by (rewrite S0; apply take_at; symmetry; apply (cf_tag_len C)).
  assert (Lver : nthz s OFF_VERSION = ver).
  { rewrite S0. apply nthz_at. rewrite (cf_off_ver C). symmetry; apply (cf_tag_len C). }
  assert (Lrr : le32 s OFF_RR_ID = rr).
  { rewrite S0. change (TAG ++ ver :: enc32 rr ++ ?x) with (TAG ++ [ver] ++ enc32 rr ++ x).
    rewrite (app_assoc TAG [ver]). apply le32_at; [|lia].
    rewrite len_app, len_cons, len_nil, (cf_tag_len C), (cf_off_rr C). lia. }
  assert (Lcall : le32 s OFF_CALL_ID = call).
  { rewrite S0. change (TAG ++ ver :: enc32 rr ++ ?x) with (TAG ++ [ver] ++ enc32 rr ++ x).
    rewrite (app_assoc [ver]), (app_assoc TAG). apply le32_at; [|lia].
    rewrite !len_app, len_enc32, len_cons, len_nil, (cf_tag_len C), (cf_off_call C). lia. }
  assert (Lds : le32 s OFF_DATA_SIZE = n).
  { rewrite S0. change (TAG ++ ver :: enc32 rr ++ ?x) with (TAG ++ [ver] ++ enc32 rr ++ x).
    rewrite (app_assoc (enc32 rr)), (app_assoc [ver]), (app_assoc TAG). apply le32_at.
    - rewrite !len_app, !len_enc32, len_cons, len_nil, (cf_tag_len C), (cf_off_ds C). lia.
    - pose proof (cf_max C). lia. }
  assert (Ldata : drop OFF_DATA s = data ++ TAG ++ rest).
  { rewrite S0. change (TAG ++ ver :: enc32 rr ++ ?x) with (TAG ++ [ver] ++ enc32 rr ++ x).
    rewrite (app_assoc (enc32 call)), (app_assoc (enc32 rr)), (app_assoc [ver]), (app_assoc TAG). apply drop_at.
    rewrite !len_app, !len_enc32, len_cons, len_nil, (cf_tag_len C), (cf_off_data C). lia. }
  assert (Ls : len s = HDR + n + TAG_SIZE + len rest).
  { unfold s. rewrite len_app, len_encode. reflexivity. }
  assert (Ltail : drop (HDR + n) s = TAG ++ rest).
  { replace (HDR + n) with (n + OFF_DATA) by (rewrite (cf_hdr C), (cf_off_data C); lia).
    rewrite <- drop_drop by (rewrite ?(cf_off_data C); pose proof (cf_tag_pos C); lia).
    rewrite Ldata. apply drop_at. reflexivity. }
  assert (Lrest : drop (HDR + n + TAG_SIZE) s = rest).
  { replace (HDR + n + TAG_SIZE) with (TAG_SIZE + (HDR + n)) by lia.
    rewrite <- drop_drop by (rewrite ?(cf_hdr C); pose proof (cf_tag_pos C); lia).
    rewrite Ltail. apply drop_at. symmetry; apply (cf_tag_len C). }
  unfold decode1. fold s.
  rewrite Ltag, list_eqb_refl. cbn [negb].
  pose proof (len_nonneg rest) as Hr0. pose proof (cf_tag_pos C) as Htp.
  destruct (len s <? HDR) eqn:E1; [apply Z.ltb_lt in E1; lia|].
  rewrite Lds.
  destruct (MAX_DATA_SIZE <? n) eqn:E2; [apply Z.ltb_lt in E2; lia|].
  destruct (len s <? HDR + n + TAG_SIZE) eqn:E3; [apply Z.ltb_lt in E3; lia|].
  rewrite Ltail. rewrite (take_at TAG rest TAG_SIZE) by (symmetry; apply (cf_tag_len C)).
  rewrite list_eqb_refl. cbn [negb].
  rewrite Lrr, Lcall, Lver, Ldata, Lrest. unfold n. rewrite take_app_exact. reflexivity.
Qed.

Lemma decode_stream_stream : forall ps fuel, Forall pkt_ok ps -> (length ps <= fuel)%nat ->
  decode_stream fuel (stream ps) = Some ps.
Proof.
  induction ps as [|p ps IH]; intros fuel Hok Hf.
  - destruct fuel; reflexivity.
  - inversion Hok as [|? ? Hp Hps]; subst.
    destruct fuel as [|k]; [cbn [length] in Hf; lia|].
    rewrite stream_cons.
    assert (Hne : exists x l, encode p ++ stream ps = x :: l).
    { pose proof (len_encode p) as L. pose proof (len_nonneg (p_data p)). pose proof (cf_hdr CF). pose proof (cf_tag_pos CF).
      destruct (encode p) as [|x l] eqn:E; [rewrite len_nil in L; lia|]. exists x, (l ++ stream ps). reflexivity. }
    destruct Hne as (x & l & Hne).
    cbn [decode_stream]. rewrite Hne. rewrite <- Hne.
    rewrite decode1_encode by exact Hp.
    rewrite IH by (auto; cbn [length] in Hf; lia). reflexivity.
Qed.
Lemma length_stream ps : (length ps <= length (stream ps))%nat.
Proof.
  induction ps as [|p ps IH]; [cbn; lia|].
  rewrite stream_cons, app_length. cbn [length].
  pose proof (len_encode p) as L. pose proof (len_nonneg (p_data p)). pose proof (cf_hdr CF). pose proof (cf_tag_pos CF).
  unfold len in L. lia.
Qed.
Theorem roundtrip_stream ps : Forall pkt_ok ps -> decode_all (stream ps) = Some ps.
Proof. intros H. unfold decode_all. apply decode_stream_stream; [exact H|apply length_stream]. Qed.

(* ---------- outputs ---------- *)
Lemma wire_of_app a b : wire_of (a ++ b) = wire_of a ++ wire_of b.
Proof. unfold wire_of. rewrite map_app, concat_app. reflexivity. Qed.
Lemma clean_app a b : clean (a ++ b) <-> clean a /\ clean b.
Proof. unfold clean. rewrite forallb_app, andb_true_iff. reflexivity. Qed.
Lemma clean_nil : clean []. Proof. reflexivity. Qed.
Lemma not_clean o : ~ clean o -> In HardErr o \/ In SendBufExceeded o \/ In Restart o.
Proof.
  unfold clean. induction o as [|x o IH]; intros H; [exfalso; apply H; reflexivity|].
  cbn [forallb] in H. destruct x; cbn [is_report negb andb] in H;
    try (destruct (IH H) as [A|[A|A]]; [left|right; left|right; right]; right; exact A).
  - left; left; reflexivity.
  - right; left; left; reflexivity.
  - right; right; left; reflexivity.
Qed.

(* ---------- the send shim ---------- *)
Lemma append_buffer_spec eb chunk eb' o : append_buffer eb chunk = (eb', o) ->
  (o = [] /\ eb' = eb ++ chunk /\ (0 < len chunk -> len eb + len chunk <= SEND_BUFFER)) \/
  (o = [SendBufExceeded] /\ eb' = eb /\ SEND_BUFFER < len eb + len chunk).
Proof.
  unfold append_buffer. intros H.
  destruct (0 <? len chunk) eqn:E.
  - destruct (SEND_BUFFER <? len eb + len chunk) eqn:E2; inversion H; subst.
    + right. apply Z.ltb_lt in E2. auto.
    + left. apply Z.ltb_ge in E2. auto.
  - inversion H; subst. left. apply ltb_len_false in E. subst chunk.
    split; [reflexivity|]. split; [symmetry; apply app_nil_r|]. intros X. change (len (@nil Z)) with 0 in X. lia.
Qed.

(* the retry never loses anything, whatever the result *)
Lemma retry_spec eb rs eb1 rs1 o1 : retry eb rs = (eb1, rs1, o1) ->
  wire_of o1 ++ eb1 = eb /\ len eb1 <= len eb /\ ~ In SendBufExceeded o1 /\ ~ In Restart o1.
Proof.
  unfold retry. intros H. pose proof (len_nonneg eb) as H0.
  assert (N1 : ~ In SendBufExceeded [Wire eb] /\ ~ In Restart [Wire eb]) by (split; intros [X|[]]; discriminate X).
  assert (N2 : ~ In SendBufExceeded [HardErr] /\ ~ In Restart [HardErr]) by (split; intros [X|[]]; discriminate X).
  destruct (0 <? len eb) eqn:E.
  - destruct (next rs) as [r rs']. destruct (classify r); inversion H; subst eb1 rs1 o1; cbn [wire_of map concat app];
      rewrite ?app_nil_r; change (len (@nil Z)) with 0; repeat split; try lia; try tauto; try (intros []).
  - inversion H; subst eb1 rs1 o1. cbn [wire_of map concat app]. repeat split; try lia; intros [].
Qed.

Lemma send_or_buffer_spec eb chunk rs eb2 rs2 o2 : send_or_buffer eb chunk rs = (eb2, rs2, o2) ->
  (clean o2 -> wire_of o2 ++ eb2 = eb ++ chunk) /\ Subseq (wire_of o2 ++ eb2) (eb ++ chunk) /\ ~ In Restart o2 /\
  (len eb <= SEND_BUFFER -> len chunk <= SEND_BUFFER -> len eb2 <= SEND_BUFFER).
Proof.
  unfold send_or_buffer. intros H.
  assert (AB : forall e c e' o, append_buffer e c = (e', o) ->
     (clean o -> wire_of o ++ e' = e ++ c) /\ Subseq (wire_of o ++ e') (e ++ c) /\ ~ In Restart o /\
     (len e <= SEND_BUFFER -> len e' <= SEND_BUFFER \/ (c = [] /\ e' = e))).
  { intros e c e' o A. apply append_buffer_spec in A. destruct A as [(-> & -> & L)|(-> & -> & L)]; cbn [wire_of map concat app].
    - repeat split; auto using Subseq_refl. intros. destruct (0 <? len c) eqn:Ec.
      + left. apply Z.ltb_lt in Ec. rewrite len_app. auto.
      + right. apply ltb_len_false in Ec. subst c. rewrite app_nil_r. auto.
    - repeat split.
      + intros Cn; discriminate Cn.
      + rewrite <- (app_nil_r e) at 1. apply Subseq_app; [apply Subseq_refl|constructor].
      + intros [X|[]]; discriminate X.
      + auto. }
  destruct (0 <? len eb) eqn:E.
  - destruct (append_buffer eb chunk) as [e' o] eqn:A. inversion H; subst.
    destruct (AB _ _ _ _ A) as (A1 & A2 & A3 & A4). repeat split; auto.
    intros L1 L2. destruct (A4 L1) as [X|(-> & ->)]; auto.
  - apply ltb_len_false in E. subst eb.
    destruct (0 <? len chunk) eqn:Ec.
    + destruct (next rs) as [r rs']. destruct (classify r).
      * inversion H; subst. cbn [wire_of map concat app]. rewrite !app_nil_r. repeat split; auto using Subseq_refl.
        intros [X|[]]; discriminate X.
      * destruct (append_buffer [] chunk) as [e' o] eqn:A. inversion H; subst.
        destruct (AB _ _ _ _ A) as (A1 & A2 & A3 & A4). repeat split; auto.
        intros L1 L2. apply append_buffer_spec in A. destruct A as [(-> & -> & L)|(-> & -> & L)]; auto.
      * inversion H; subst. cbn [wire_of map concat app]. repeat split.
        -- intros Cn; discriminate Cn.
        -- constructor.
        -- intros [X|[]]; discriminate X.
        -- auto.
    + apply ltb_len_false in Ec. subst chunk. inversion H; subst. cbn. repeat split; auto using Subseq_refl.
Qed.

Lemma data_write_spec eb chunk rs eb2 rs2 o : data_write eb chunk rs = (eb2, rs2, o) ->
  (clean o -> wire_of o ++ eb2 = eb ++ chunk) /\ Subseq (wire_of o ++ eb2) (eb ++ chunk) /\ ~ In Restart o /\
  (len eb <= SEND_BUFFER -> len chunk <= SEND_BUFFER -> len eb2 <= SEND_BUFFER).
Proof.
  unfold data_write. intros H.
  destruct (retry eb rs) as [[eb1 rs1] o1] eqn:R.
  destruct (send_or_buffer eb1 chunk rs1) as [[e2 r2] o2] eqn:S.
  inversion H; subst.
  apply retry_spec in R. destruct R as (R1 & R2 & R3 & R4).
  apply send_or_buffer_spec in S. destruct S as (S1 & S2 & S3 & S4).
  rewrite wire_of_app, <- app_assoc. repeat split.
  - intros Cn. apply clean_app in Cn. rewrite (S1 (proj2 Cn)), app_assoc, R1. reflexivity.
  - rewrite <- R1. rewrite <- app_assoc. apply Subseq_app; [apply Subseq_refl|exact S2].
  - intros I. apply in_app_or in I. tauto.
  - intros L1 L2. apply S4; lia.
Qed.

(* flush at the top of supla_esp_devconn_iterate: data_write(NULL, 0) *)
Lemma flush_spec eb rs eb1 rs1 o1 : data_write eb [] rs = (eb1, rs1, o1) ->
  wire_of o1 ++ eb1 = eb /\ len eb1 <= len eb /\ ~ In SendBufExceeded o1 /\ ~ In Restart o1.
Proof.
  unfold data_write. intros H.
  destruct (retry eb rs) as [[e1 r1] oo] eqn:R.
  assert (S : send_or_buffer e1 [] r1 = (e1, r1, [])).
  { unfold send_or_buffer, append_buffer. change (len (@nil Z)) with 0. cbn [Z.ltb Z.compare]. destruct (0 <? len e1); reflexivity. }
  rewrite S in H. inversion H; subst. rewrite app_nil_r. apply retry_spec in R. exact R.
Qed.

(* ---------- proto out buffer ---------- *)
Definition obuf_ok (b : obuf) : Prop := 0 <= osize b < BUFFER_MAX /\ len (odata b) <= osize b.

Lemma oappend_data b c b' : oappend b c = Some b' -> odata b' = odata b ++ c.
Proof.
  unfold oappend. intros H.
  destruct (BUFFER_MAX <=? _); [discriminate|]. inversion H; subst. reflexivity.
Qed.
(* the buffer overflows exactly when the bytes do not fit below BUFFER_MAX_SIZE *)
Lemma oappend_spec b c : obuf_ok b -> len c < 1073741824 ->
  match oappend b c with
  | None => BUFFER_MAX <= len (odata b) + len c
  | Some b' => obuf_ok b' /\ odata b' = odata b ++ c /\ len (odata b) + len c < BUFFER_MAX
  end.
Proof.
  intros (H1 & H2) Hc. pose proof CF as C. pose proof (cf_bufmin C). pose proof (cf_bufmax C).
  pose proof (len_nonneg c). pose proof (len_nonneg (odata b)).
  unfold oappend.
  set (size0 := if osize b <? BUFFER_MIN then BUFFER_MIN else osize b).
  assert (S0 : osize b <= size0 < BUFFER_MAX /\ BUFFER_MIN <= size0).
  { unfold size0. destruct (osize b <? BUFFER_MIN) eqn:E; [apply Z.ltb_lt in E|apply Z.ltb_ge in E]; lia. }
  rewrite (u32_small (size0 - len (odata b))) by lia.
  destruct (size0 - len (odata b) <? len c) eqn:E; [apply Z.ltb_lt in E|apply Z.ltb_ge in E].
  - rewrite (u32_small (len c - _)) by lia. rewrite u32_small by lia.
    replace (size0 + (len c - (size0 - len (odata b)))) with (len (odata b) + len c) by lia.
    destruct (BUFFER_MAX <=? len (odata b) + len c) eqn:E2; [apply Z.leb_le in E2|apply Z.leb_gt in E2].
    + exact E2.
    + cbn [osize odata]. unfold obuf_ok. cbn [osize odata]. rewrite len_app. repeat split; lia.
  - destruct (BUFFER_MAX <=? size0) eqn:E2; [apply Z.leb_le in E2; lia|].
    unfold obuf_ok. cbn [osize odata]. rewrite len_app. repeat split; lia.
Qed.

Lemma opop_spec b n b' c : opop b n = (b', c) -> 0 < n ->
  c ++ odata b' = odata b /\ len c <= n /\ (0 < len (odata b) -> 0 < len c) /\ (obuf_ok b -> obuf_ok b').
Proof.
  unfold opop. intros H Hn. pose proof (len_nonneg (odata b)) as H0.
  destruct (len (odata b) <=? 0) eqn:E; cbn [orb] in H.
  - inversion H; subst b' c. apply Z.leb_le in E. cbn [app]. change (len (@nil Z)) with 0.
    split; [reflexivity|]. split; [lia|]. split; [lia|]. auto.
  - apply Z.leb_gt in E. destruct (n =? 0) eqn:En; [apply Z.eqb_eq in En; lia|].
    inversion H; subst; clear H. cbn [odata osize].
    set (k := if len (odata b) <? n then len (odata b) else n).
    assert (K : 0 < k <= n /\ k <= len (odata b)).
    { unfold k. destruct (len (odata b) <? n) eqn:E2; [apply Z.ltb_lt in E2|apply Z.ltb_ge in E2]; lia. }
    split; [apply take_drop|]. split; [rewrite len_take by lia; lia|]. split; [intros _; rewrite len_take by lia; lia|].
    intros (B1 & B2). pose proof (cf_bufmin CF). unfold obuf_ok. cbn [osize odata].
    rewrite len_drop by lia.
    destruct (Z.max 0 (len (odata b) - k) <? osize b) eqn:E3; [apply Z.ltb_lt in E3|apply Z.ltb_ge in E3].
    + destruct (Z.max 0 (len (odata b) - k) <? BUFFER_MIN) eqn:E4; [apply Z.ltb_lt in E4|apply Z.ltb_ge in E4]; lia.
    + lia.
Qed.

Lemma out_append_spec silent b p b' r : out_append silent b p = (b', r) ->
  match r with
  | A_TRUE => odata b' = odata b ++ encode p
  | A_FALSE => silent = true /\ b' = b
  | A_ERROR => Subseq (odata b') (odata b ++ encode p)
  end.
Proof.
  unfold out_append. intros H.
  assert (E0 : Subseq (odata b) (odata b ++ encode p)).
  { rewrite <- (app_nil_r (odata b)) at 1. apply Subseq_app; [apply Subseq_refl|constructor]. }
  destruct (SDP_SIZE <? _); [inversion H; subst; exact E0|].
  destruct (oappend b (body p)) as [b1|] eqn:A1.
  - apply oappend_data in A1.
    destruct (oappend b1 TAG) as [b2|] eqn:A2; inversion H; subst.
    + apply oappend_data in A2. rewrite A2, A1. unfold encode. rewrite app_assoc. reflexivity.
    + rewrite A1. unfold encode. apply Subseq_app; [apply Subseq_refl|].
      rewrite <- (app_nil_r (body p)) at 1. apply Subseq_app; [apply Subseq_refl|constructor].
  - destruct silent; inversion H; subst; auto.
Qed.

(* ---------- one step ---------- *)
Lemma rr_nonzero x : (if u32 (x + 1) =? 0 then u32 (u32 (x + 1) + 1) else u32 (x + 1)) <> 0.
Proof.
  destruct (u32 (x + 1) =? 0) eqn:E.
  - apply Z.eqb_eq in E. rewrite E. vm_compute. discriminate.
  - apply Z.eqb_neq in E. exact E.
Qed.
Lemma rr_range x : 0 <= (if u32 (x + 1) =? 0 then u32 (u32 (x + 1) + 1) else u32 (x + 1)) < 4294967296.
Proof. destruct (u32 (x + 1) =? 0); apply u32_range. Qed.

Lemma pending_push s p :
  espbuf s ++ odata (ob s) ++ stream (outq s ++ [p]) = pending s ++ encode p.
Proof. unfold pending. rewrite stream_app, stream_cons. cbn [stream map concat]. rewrite app_nil_r, <- !app_assoc. reflexivity. Qed.

(* what a Call step does *)
Lemma call_spec s cid pl s' o : call s cid pl = (s', o) ->
  exists rr, o = [Ret rr] /\ halted s' = halted s /\ ob s' = ob s /\ espbuf s' = espbuf s /\
    ((rr = 0 /\ outq s' = outq s /\ (allowed cid = false \/ MAX_DATA_SIZE < len pl \/ SRPC_QUEUE <= len (outq s))) \/
     (rr <> 0 /\ 0 <= rr < 4294967296 /\ rr = next_rr s' /\ allowed cid = true /\ len pl <= MAX_DATA_SIZE /\ len (outq s) < SRPC_QUEUE /\
      outq s' = outq s ++ [{| p_rr := rr; p_call := cid; p_ver := DEVICE_PROTO_VERSION; p_data := pl |}] /\
      rr = (if u32 (next_rr s + 1) =? 0 then u32 (u32 (next_rr s + 1) + 1) else u32 (next_rr s + 1)))).
Proof.
  unfold call. intros H.
  destruct (allowed cid) eqn:A; cbn [negb] in H.
  - destruct (MAX_DATA_SIZE <? len pl) eqn:E1; [apply Z.ltb_lt in E1|apply Z.ltb_ge in E1].
    + inversion H; subst s' o. exists 0. cbn [halted ob espbuf outq].
      split; [reflexivity|]. split; [reflexivity|]. split; [reflexivity|]. split; [reflexivity|]. left. auto.
    + destruct (SRPC_QUEUE <=? len (outq s)) eqn:E2; [apply Z.leb_le in E2|apply Z.leb_gt in E2].
      * inversion H; subst s' o. exists 0. cbn [halted ob espbuf outq].
        split; [reflexivity|]. split; [reflexivity|]. split; [reflexivity|]. split; [reflexivity|]. left. auto.
      * inversion H; subst s' o. eexists. cbn [halted ob espbuf outq next_rr]. split; [reflexivity|].
        split; [reflexivity|]. split; [reflexivity|]. split; [reflexivity|]. right.
        pose proof (rr_nonzero (next_rr s)). pose proof (rr_range (next_rr s)). repeat split; auto; lia.
  - inversion H; subst s' o. exists 0.
    split; [reflexivity|]. split; [reflexivity|]. split; [reflexivity|]. split; [reflexivity|]. left. auto.
Qed.

Lemma acc_of_ret0 cid pl : acc_of (Call cid pl) [Ret 0] = [].
Proof. reflexivity. Qed.
Lemma acc_of_ret cid pl rr : rr <> 0 ->
  acc_of (Call cid pl) [Ret rr] = [{| p_rr := rr; p_call := cid; p_ver := DEVICE_PROTO_VERSION; p_data := pl |}].
Proof. intros H. cbn [acc_of]. apply Z.eqb_neq in H. rewrite H. reflexivity. Qed.
Lemma acc_of_iter rs o : acc_of (Iter rs) o = [].
Proof. reflexivity. Qed.

(* every step moves bytes towards the wire; what it removes is a sub-sequence, and nothing is removed
   unless the step emits HardErr, SendBufExceeded or Restart (when the overflow code is propagated) *)
Lemma iterate_spec silent s rs s' o : iterate silent s rs = (s', o) ->
  Subseq (wire_of o ++ pending s') (pending s) /\
  (silent = false -> clean o -> wire_of o ++ pending s' = pending s) /\
  next_rr s' = next_rr s.
Proof.
  unfold iterate. intros H. pose proof CF as C.
  destruct (data_write (espbuf s) [] rs) as [[eb1 rs1] o1] eqn:F.
  apply flush_spec in F. destruct F as (F1 & F2 & F3 & F4).
  (* state after the queue pop + out_append *)
  assert (Q : exists q1 ob1 ar,
     match outq s with [] => ([], ob s, A_TRUE) | p :: q => let '(b, r) := out_append silent (ob s) p in (q, b, r) end = (q1, ob1, ar) /\
     Subseq (odata ob1 ++ stream q1) (odata (ob s) ++ stream (outq s)) /\
     (ar = A_TRUE -> odata ob1 ++ stream q1 = odata (ob s) ++ stream (outq s)) /\
     (ar = A_FALSE -> silent = true)).
  { destruct (outq s) as [|p q].
    - exists [], (ob s), A_TRUE. repeat split; auto using Subseq_refl. discriminate.
    - destruct (out_append silent (ob s) p) as [b r] eqn:A. exists q, b, r. split; [reflexivity|].
      apply out_append_spec in A. rewrite stream_cons, app_assoc. destruct r.
      + rewrite A. repeat split; auto using Subseq_refl. discriminate.
      + destruct A as (-> & ->). repeat split; auto; try discriminate.
        apply Subseq_app; [|apply Subseq_refl]. rewrite <- (app_nil_r (odata (ob s))) at 1. apply Subseq_app; [apply Subseq_refl|constructor].
      + repeat split; try discriminate. apply Subseq_app; [exact A|apply Subseq_refl]. }
  destruct Q as (q1 & ob1 & ar & Q0 & Q1 & Q2 & Q3). rewrite Q0 in H.
  assert (ERR : forall st1, st1 = {| next_rr := next_rr s; outq := q1; ob := ob1; espbuf := eb1; halted := true |} ->
     Subseq (wire_of (o1 ++ [OutBufOverflow; Restart]) ++ pending st1) (pending s)).
  { intros st1 ->. rewrite wire_of_app. cbn [wire_of map concat app]. rewrite app_nil_r. unfold pending. cbn [espbuf ob outq].
    rewrite app_assoc, F1. apply Subseq_app; [apply Subseq_refl|exact Q1]. }
  destruct ar.
  - (* A_TRUE *)
    destruct (opop ob1 SRPC_BUFFER) as [ob2 chunk] eqn:P.
    apply opop_spec in P; [|apply (cf_srpcbuf C)]. destruct P as (P1 & P2 & P3 & P4).
    assert (W : exists eb2 rs2 o2, (if 0 <? len chunk then data_write eb1 chunk rs1 else (eb1, rs1, [])) = (eb2, rs2, o2) /\
       (clean o2 -> wire_of o2 ++ eb2 = eb1 ++ chunk) /\ Subseq (wire_of o2 ++ eb2) (eb1 ++ chunk)).
    { destruct (0 <? len chunk) eqn:E.
      - destruct (data_write eb1 chunk rs1) as [[e2 r2] o2] eqn:D. exists e2, r2, o2. split; [reflexivity|].
        apply data_write_spec in D. tauto.
      - apply ltb_len_false in E. subst chunk. exists eb1, rs1, []. cbn [wire_of map concat app]. rewrite app_nil_r.
        repeat split; auto using Subseq_refl. }
    destruct W as (eb2 & rs2 & o2 & W0 & W1 & W2). rewrite W0 in H. inversion H; subst s' o; clear H.
    unfold pending. cbn [espbuf ob outq next_rr]. rewrite wire_of_app.
    assert (R : forall X, X = wire_of o2 ++ eb2 -> (wire_of o1 ++ wire_of o2) ++ eb2 ++ odata ob2 ++ stream q1 =
                                                  wire_of o1 ++ X ++ odata ob2 ++ stream q1).
    { intros X ->. rewrite <- !app_assoc. reflexivity. }
    rewrite (R _ eq_refl).
    assert (T : espbuf s ++ odata (ob s) ++ stream (outq s) = wire_of o1 ++ (eb1 ++ chunk) ++ odata ob2 ++ stream q1).
    { rewrite <- (Q2 eq_refl), <- F1, <- P1, <- !app_assoc. reflexivity. }
    repeat split.
    + rewrite T. apply Subseq_app; [apply Subseq_refl|]. apply Subseq_app; [exact W2|apply Subseq_refl].
    + intros _ Cn. apply clean_app in Cn. rewrite T, (W1 (proj2 Cn)). reflexivity.
  - (* A_FALSE: only in the old code *)
    destruct (opop ob1 SRPC_BUFFER) as [ob2 chunk] eqn:P.
    apply opop_spec in P; [|apply (cf_srpcbuf C)]. destruct P as (P1 & P2 & P3 & P4).
    assert (W : exists eb2 rs2 o2, (if 0 <? len chunk then data_write eb1 chunk rs1 else (eb1, rs1, [])) = (eb2, rs2, o2) /\
       Subseq (wire_of o2 ++ eb2) (eb1 ++ chunk)).
    { destruct (0 <? len chunk) eqn:E.
      - destruct (data_write eb1 chunk rs1) as [[e2 r2] o2] eqn:D. exists e2, r2, o2. split; [reflexivity|].
        apply data_write_spec in D. tauto.
      - apply ltb_len_false in E. subst chunk. exists eb1, rs1, []. cbn [wire_of map concat app]. rewrite app_nil_r.
        split; auto using Subseq_refl. }
    destruct W as (eb2 & rs2 & o2 & W0 & W2). rewrite W0 in H. inversion H; subst s' o; clear H.
    unfold pending. cbn [espbuf ob outq next_rr]. rewrite wire_of_app.
    repeat split.
    + replace ((wire_of o1 ++ wire_of o2) ++ eb2 ++ odata ob2 ++ stream q1)
        with (wire_of o1 ++ (wire_of o2 ++ eb2) ++ odata ob2 ++ stream q1) by (rewrite <- !app_assoc; reflexivity).
      replace (espbuf s ++ odata (ob s) ++ stream (outq s)) with (wire_of o1 ++ eb1 ++ odata (ob s) ++ stream (outq s))
        by (rewrite <- F1, <- app_assoc; reflexivity).
      apply Subseq_app; [apply Subseq_refl|].
      apply Subseq_trans with ((eb1 ++ chunk) ++ odata ob2 ++ stream q1).
      * apply Subseq_app; [exact W2|apply Subseq_refl].
      * rewrite <- app_assoc. apply Subseq_app; [apply Subseq_refl|]. rewrite app_assoc, P1. exact Q1.
    + intros Sf. rewrite (Q3 eq_refl) in Sf. discriminate Sf.
  - (* A_ERROR *)
    inversion H; subst s' o; clear H. split; [apply ERR; reflexivity|]. split; [|reflexivity].
    intros _ Cn. apply clean_app in Cn. destruct Cn as (_ & Cn). discriminate Cn.
Qed.

Lemma step_spec silent s e s' o : step silent s e = (s', o) ->
  Subseq (wire_of o ++ pending s') (pending s ++ stream (acc_of e o)) /\
  (silent = false -> clean o -> wire_of o ++ pending s' = pending s ++ stream (acc_of e o)).
Proof.
  unfold step. intros H.
  destruct (halted s).
  - inversion H; subst s' o. destruct e; cbn [acc_of stream map concat wire_of app]; rewrite app_nil_r; auto using Subseq_refl.
  - destruct e as [cid pl|rs].
    + apply call_spec in H. destruct H as (rr & -> & _ & Hob & Heb & [(-> & Hq & _)|(Hrr & _ & _ & _ & _ & _ & Hq & _)]).
      * rewrite acc_of_ret0. cbn [wire_of map concat app stream]. rewrite app_nil_r.
        unfold pending. rewrite Hob, Heb, Hq. auto using Subseq_refl.
      * rewrite (acc_of_ret _ _ _ Hrr). cbn [wire_of map concat app]. cbn [stream map concat]. rewrite app_nil_r.
        assert (E : pending s' = pending s ++ encode {| p_rr := rr; p_call := cid; p_ver := DEVICE_PROTO_VERSION; p_data := pl |}).
        { rewrite <- pending_push. unfold pending. rewrite Hob, Heb, Hq. reflexivity. }
        rewrite E. auto using Subseq_refl.
    + rewrite acc_of_iter. cbn [stream map concat]. rewrite app_nil_r.
      apply iterate_spec in H. tauto.
Qed.

(* ---------- whole histories ---------- *)
Lemma run_trace_cons silent s e r : run_trace silent s (e :: r) =
  let '(s1, o1) := step silent s e in let '(s2, t) := run_trace silent s1 r in (s2, (e, o1) :: t).
Proof. reflexivity. Qed.
Lemma outs_of_cons e o t : outs_of ((e, o) :: t) = o ++ outs_of t.
Proof. reflexivity. Qed.
Lemma accepted_cons e o t : accepted ((e, o) :: t) = acc_of e o ++ accepted t.
Proof. reflexivity. Qed.

Lemma run_conserve : forall evs s s' tr, run_trace false s evs = (s', tr) -> clean (outs_of tr) ->
  wire_of (outs_of tr) ++ pending s' = pending s ++ stream (accepted tr).
Proof.
  induction evs as [|e r IH]; intros s s' tr H Cn.
  - inversion H; subst. cbn. rewrite app_nil_r. reflexivity.
  - rewrite run_trace_cons in H. destruct (step false s e) as [s1 o1] eqn:S. destruct (run_trace false s1 r) as [s2 t] eqn:R.
    inversion H; subst s' tr; clear H. rewrite outs_of_cons in *. rewrite accepted_cons, stream_app, wire_of_app.
    apply clean_app in Cn. destruct Cn as (C1 & C2).
    apply step_spec in S. destruct S as (_ & S). specialize (S eq_refl C1).
    rewrite <- app_assoc, (IH _ _ _ R C2), app_assoc, S, <- app_assoc. reflexivity.
Qed.

Lemma run_subseq : forall evs silent s s' tr, run_trace silent s evs = (s', tr) ->
  Subseq (wire_of (outs_of tr) ++ pending s') (pending s ++ stream (accepted tr)).
Proof.
  induction evs as [|e r IH]; intros silent s s' tr H.
  - inversion H; subst. cbn. rewrite app_nil_r. apply Subseq_refl.
  - rewrite run_trace_cons in H. destruct (step silent s e) as [s1 o1] eqn:S. destruct (run_trace silent s1 r) as [s2 t] eqn:R.
    inversion H; subst s' tr; clear H. rewrite outs_of_cons. rewrite accepted_cons, stream_app, wire_of_app.
    apply step_spec in S. destruct S as (S & _). apply IH in R.
    rewrite <- app_assoc.
    apply Subseq_trans with (wire_of o1 ++ pending s1 ++ stream (accepted t)).
    + apply Subseq_app; [apply Subseq_refl|exact R].
    + rewrite !app_assoc. apply Subseq_app; [exact S|apply Subseq_refl].
Qed.

Lemma pending_init : pending init = [].
Proof. reflexivity. Qed.

Theorem C02_stream_invariant_thm : forall evs s tr,
  run_trace CURRENT_SILENT init evs = (s, tr) -> clean (outs_of tr) ->
  wire_of (outs_of tr) ++ espbuf s ++ odata (ob s) ++ stream (outq s) = stream (accepted tr).
Proof. intros evs s tr H Cn. apply (run_conserve _ _ _ _ H Cn). Qed.

Theorem C02_after_hard_error_thm : forall silent evs s tr,
  run_trace silent init evs = (s, tr) ->
  Subseq (wire_of (outs_of tr) ++ espbuf s ++ odata (ob s) ++ stream (outq s)) (stream (accepted tr)).
Proof. intros silent evs s tr H. apply (run_subseq _ _ _ _ _ H). Qed.

Theorem C02_overflow_reported_thm : forall s e s' o,
  step CURRENT_SILENT s e = (s', o) ->
  wire_of o ++ pending s' <> pending s ++ stream (acc_of e o) ->
  In HardErr o \/ In SendBufExceeded o \/ In Restart o.
Proof.
  intros s e s' o H N. apply not_clean. intros Cn. apply N. apply step_spec in H. apply (proj2 H); [reflexivity|exact Cn].
Qed.

(* ---------- state invariant: every buffer stays within its bound ---------- *)

Record wf (s : st) : Prop := {
  wf_rr : 0 <= next_rr s < 4294967296;
  wf_q : Forall (fun p => len (p_data p) <= MAX_DATA_SIZE) (outq s);
  wf_qlen : len (outq s) <= SRPC_QUEUE;
  wf_ob : obuf_ok (ob s);
  wf_eb : len (espbuf s) <= SEND_BUFFER
}.
Lemma wf_init : wf init.
Proof.
  pose proof CF as C. pose proof (cf_bufmin C). pose proof (cf_queue C). pose proof (cf_sendbuf C).
  split; cbn [init next_rr outq ob espbuf]; try (change (len (@nil pkt)) with 0); try (change (len (@nil Z)) with 0); try lia.
  - constructor.
  - unfold obuf_ok. cbn [osize odata]. change (len (@nil Z)) with 0. lia.
Qed.

Lemma body_len_small p : len (p_data p) <= MAX_DATA_SIZE -> len (body p) < 1073741824 /\ len (body p) <= SDP_SIZE.
Proof.
  intros H. pose proof CF as C. pose proof (cf_max C). pose proof (cf_hdr C). pose proof (cf_sdp C).
  pose proof (cf_tag_pos C). pose proof (cf_bufmax C). pose proof (cf_tag_len C). pose proof (len_nonneg (p_data p)).
  rewrite len_body.
  pose proof (cf_tag_small C). lia.
Qed.

(* sproto_out_buffer_append on an in-bounds buffer: it fails exactly when the frame does not fit *)
Lemma out_append_wf b p b' r : obuf_ok b -> len (p_data p) <= MAX_DATA_SIZE -> out_append false b p = (b', r) ->
  obuf_ok b' /\ (r = A_TRUE /\ len (odata b) + len (encode p) < BUFFER_MAX \/
                 r = A_ERROR /\ BUFFER_MAX <= len (odata b) + len (encode p)).
Proof.
  intros Hb Hp. pose proof CF as C. pose proof (body_len_small p Hp) as (L1 & L2).
  pose proof (cf_tag_pos C). pose proof (cf_tag_len C) as TL. pose proof (len_nonneg (p_data p)).
  pose proof (cf_sdp C). pose proof (cf_max C). pose proof (cf_hdr C).
  pose proof (cf_tag_small C) as TS.
  unfold out_append.
  rewrite u32_small by lia.
  destruct (SDP_SIZE <? HDR + len (p_data p)) eqn:E0; [apply Z.ltb_lt in E0; lia|].
  pose proof (oappend_spec b (body p) Hb L1) as A1.
  assert (LE : len (encode p) = len (body p) + TAG_SIZE) by (unfold encode; rewrite len_app, TL; reflexivity).
  destruct (oappend b (body p)) as [b1|].
  - destruct A1 as (B1 & D1 & F1).
    pose proof (oappend_spec b1 TAG B1 ltac:(lia)) as A2.
    destruct (oappend b1 TAG) as [b2|]; intros HH; inversion HH; subst b' r.
    + destruct A2 as (B2 & D2 & F2). split; [exact B2|]. left. split; [reflexivity|]. rewrite D1, len_app in F2. lia.
    + split; [exact B1|]. right. split; [reflexivity|]. rewrite D1, len_app in A2. lia.
  - intros HH; inversion HH; subst b' r. split; [exact Hb|]. right. split; [reflexivity|]. lia.
Qed.

(* structure of one iteration *)
Definition qpart (silent : bool) (s : st) : list pkt * obuf * ares :=
  match outq s with
  | [] => ([], ob s, A_TRUE)
  | p :: q => let '(b, r) := out_append silent (ob s) p in (q, b, r)
  end.
Lemma iterate_cases silent s rs s' o : iterate silent s rs = (s', o) ->
  exists eb1 rs1 o1 q1 ob1 ar,
    data_write (espbuf s) [] rs = (eb1, rs1, o1) /\ qpart silent s = (q1, ob1, ar) /\
    ((ar = A_ERROR /\ s' = {| next_rr := next_rr s; outq := q1; ob := ob1; espbuf := eb1; halted := true |} /\
      o = o1 ++ [OutBufOverflow; Restart]) \/
     (ar <> A_ERROR /\ exists ob2 chunk eb2 rs2 o2,
        opop ob1 SRPC_BUFFER = (ob2, chunk) /\
        (if 0 <? len chunk then data_write eb1 chunk rs1 else (eb1, rs1, [])) = (eb2, rs2, o2) /\
        s' = {| next_rr := next_rr s; outq := q1; ob := ob2; espbuf := eb2; halted := false |} /\ o = o1 ++ o2)).
Proof.
  unfold iterate. fold (qpart silent s). intros H.
  destruct (data_write (espbuf s) [] rs) as [[eb1 rs1] o1].
  destruct (qpart silent s) as [[q1 ob1] ar].
  exists eb1, rs1, o1, q1, ob1, ar. split; [reflexivity|]. split; [reflexivity|].
  destruct ar.
  - right. split; [discriminate|].
    destruct (opop ob1 SRPC_BUFFER) as [ob2 chunk].
    destruct (if 0 <? len chunk then data_write eb1 chunk rs1 else (eb1, rs1, [])) as [[eb2 rs2] o2] eqn:D.
    exists ob2, chunk, eb2, rs2, o2. inversion H. auto.
  - right. split; [discriminate|].
    destruct (opop ob1 SRPC_BUFFER) as [ob2 chunk].
    destruct (if 0 <? len chunk then data_write eb1 chunk rs1 else (eb1, rs1, [])) as [[eb2 rs2] o2] eqn:D.
    exists ob2, chunk, eb2, rs2, o2. inversion H. auto.
  - left. inversion H. auto.
Qed.

(* the queue part on a well-formed state: the frame of the head packet is appended, or it does not fit *)
Lemma qpart_wf s q1 ob1 ar : wf s -> qpart false s = (q1, ob1, ar) ->
  obuf_ok ob1 /\ Forall (fun p => len (p_data p) <= MAX_DATA_SIZE) q1 /\ len q1 <= len (outq s) /\
  ((outq s = [] /\ q1 = [] /\ ob1 = ob s /\ ar = A_TRUE) \/
   (exists p, outq s = p :: q1 /\ len (p_data p) <= MAX_DATA_SIZE /\
      ((ar = A_TRUE /\ odata ob1 = odata (ob s) ++ encode p /\ len (odata (ob s)) + len (encode p) < BUFFER_MAX) \/
       (ar = A_ERROR /\ BUFFER_MAX <= len (odata (ob s)) + len (encode p))))).
Proof.
  intros W. unfold qpart. destruct W as [_ Wq Wl Wb _].
  destruct (outq s) as [|p q] eqn:Q.
  - intros H; inversion H; subst. split; [exact Wb|]. split; [constructor|]. split; [lia|]. left. auto.
  - destruct (out_append false (ob s) p) as [b r] eqn:A. intros H; inversion H; subst q1 ob1 ar.
    inversion Wq as [|? ? Hp Hq]; subst.
    pose proof (out_append_wf _ _ _ _ Wb Hp A) as (B & R).
    split; [exact B|]. split; [exact Hq|]. split; [rewrite len_cons; lia|]. right. exists p. split; [reflexivity|]. split; [exact Hp|].
    destruct R as [(-> & L)|(-> & L)].
    + left. apply out_append_spec in A. auto.
    + right. auto.
Qed.

Lemma call_next_rr s cid pl s' o : call s cid pl = (s', o) ->
  next_rr s' = next_rr s \/
  next_rr s' = (if u32 (next_rr s + 1) =? 0 then u32 (u32 (next_rr s + 1) + 1) else u32 (next_rr s + 1)).
Proof.
  unfold call. intros H. destruct (negb (allowed cid)); [inversion H; auto|].
  destruct (MAX_DATA_SIZE <? len pl); [inversion H; auto|].
  destruct (SRPC_QUEUE <=? len (outq s)); inversion H; auto.
Qed.

Lemma step_wf s e s' o : wf s -> step CURRENT_SILENT s e = (s', o) -> wf s'.
Proof.
  intros W. unfold step, CURRENT_SILENT. pose proof CF as C.
  destruct (halted s); [intros H; inversion H; subst; exact W|].
  destruct e as [cid pl|rs]; intros H.
  - pose proof (call_next_rr _ _ _ _ _ H) as N.
    assert (R : 0 <= next_rr s' < 4294967296).
    { destruct N as [->| ->]; [apply (wf_rr _ W)|apply rr_range]. }
    apply call_spec in H. destruct H as (rr & _ & _ & Hob & Heb & [(_ & Hq & _)|(Hn & Hr & Hnx & _ & Hl & Hql & Hq & _)]).
    + destruct W. split; rewrite ?Hob, ?Heb, ?Hq; auto.
    + destruct W. split; rewrite ?Hob, ?Heb, ?Hq; auto.
      * apply Forall_app. split; [assumption|]. constructor; [exact Hl|constructor].
      * rewrite len_app, len_cons. change (len (@nil pkt)) with 0. lia.
  - apply iterate_cases in H.
    destruct H as (eb1 & rs1 & o1 & q1 & ob1 & ar & F & Q & R).
    apply flush_spec in F. destruct F as (_ & F2 & _ & _).
    pose proof (qpart_wf _ _ _ _ W Q) as (B & Fq & Lq & _).
    destruct R as [(_ & -> & _)|(_ & ob2 & chunk & eb2 & rs2 & o2 & P & D & -> & _)].
    + destruct W. split; cbn [next_rr outq ob espbuf]; auto; lia.
    + apply opop_spec in P; [|apply (cf_srpcbuf C)]. destruct P as (_ & P2 & _ & P4).
      assert (E : len eb2 <= SEND_BUFFER).
      { destruct (0 <? len chunk).
        - apply data_write_spec in D. destruct D as (_ & _ & _ & D). apply D; [destruct W; lia|pose proof (cf_chunk_fits C); lia].
        - inversion D; subst. destruct W; lia. }
      destruct W. split; cbn [next_rr outq ob espbuf]; auto; lia.
Qed.

Lemma run_wf : forall evs s s' tr, wf s -> run_trace CURRENT_SILENT s evs = (s', tr) -> wf s'.
Proof.
  induction evs as [|e r IH]; intros s s' tr W H.
  - inversion H; subst; exact W.
  - rewrite run_trace_cons in H. destruct (step CURRENT_SILENT s e) as [s1 o1] eqn:S.
    destruct (run_trace CURRENT_SILENT s1 r) as [s2 t] eqn:R. inversion H; subst s' tr.
    eapply IH; [|exact R]. eapply step_wf; eauto.
Qed.

Theorem C02_bounds_thm : forall evs s tr, run_trace CURRENT_SILENT init evs = (s, tr) ->
  len (outq s) <= SRPC_QUEUE /\ len (odata (ob s)) <= osize (ob s) /\ osize (ob s) < BUFFER_MAX /\
  len (espbuf s) <= SEND_BUFFER /\ Forall (fun p => len (p_data p) <= MAX_DATA_SIZE) (outq s).
Proof.
  intros evs s tr H. pose proof (run_wf _ _ _ _ wf_init H) as [_ Wq Wl (B1 & B2) We]. repeat split; auto; lia.
Qed.

(* the out-buffer overflow is reported exactly when the frame of the next queued call does not fit *)
Theorem C02_overflow_exact_thm : forall evs s tr rs s' o, run_trace CURRENT_SILENT init evs = (s, tr) -> halted s = false ->
  step CURRENT_SILENT s (Iter rs) = (s', o) ->
  (In Restart o <-> exists p q, outq s = p :: q /\ BUFFER_MAX <= len (odata (ob s)) + len (encode p)).
Proof.
  intros evs s tr rs s' o H Hh S. pose proof (run_wf _ _ _ _ wf_init H) as W. pose proof CF as C.
  unfold step in S. rewrite Hh in S. unfold CURRENT_SILENT in S. apply iterate_cases in S.
  destruct S as (eb1 & rs1 & o1 & q1 & ob1 & ar & F & Q & R).
  apply flush_spec in F. destruct F as (_ & _ & _ & F4).
  pose proof (qpart_wf _ _ _ _ W Q) as (_ & _ & _ & QQ).
  destruct R as [(-> & _ & ->)|(Hne & ob2 & chunk & eb2 & rs2 & o2 & P & D & _ & ->)].
  - split.
    + intros _. destruct QQ as [(_ & _ & _ & X)|(p & Hq & _ & [(X & _)|(_ & L)])]; try discriminate X.
      exists p, q1. auto.
    + intros _. apply in_or_app. right. right. left. reflexivity.
  - assert (NR : ~ In Restart o2).
    { destruct (0 <? len chunk); [apply data_write_spec in D; tauto|inversion D; subst; intros []]. }
    split.
    + intros I. apply in_app_or in I. tauto.
    + intros (p & q & Hq & L). exfalso.
      destruct QQ as [(X & _)|(p' & Hq' & _ & [(_ & _ & L')|(X & _)])].
      * rewrite X in Hq; discriminate Hq.
      * rewrite Hq in Hq'. inversion Hq'; subst. lia.
      * apply Hne; exact X.
Qed.

(* ---------- accepted calls are well-formed packets; the wire decodes to them ---------- *)
Lemma step_acc_ok silent s e s' o : ev_ok e -> step silent s e = (s', o) -> Forall pkt_ok (acc_of e o).
Proof.
  intros He. unfold step. destruct (halted s).
  - intros H; inversion H; subst. destruct e; constructor.
  - destruct e as [cid pl|rs]; intros H; [|constructor].
    apply call_spec in H. destruct H as (rr & -> & _ & _ & _ & [(-> & _)|(Hn & Hr & _ & _ & Hl & _)]).
    + rewrite acc_of_ret0. constructor.
    + rewrite (acc_of_ret _ _ _ Hn). constructor; [|constructor].
      destruct He as (Hc & Hb). unfold pkt_ok. cbn [p_rr p_call p_ver p_data]. pose proof (cf_ver CF). repeat split; auto; lia.
Qed.
Lemma run_acc_ok : forall evs silent s s' tr, Forall ev_ok evs -> run_trace silent s evs = (s', tr) -> Forall pkt_ok (accepted tr).
Proof.
  induction evs as [|e r IH]; intros silent s s' tr He H.
  - inversion H; subst. constructor.
  - inversion He as [|? ? He1 He2]; subst.
    rewrite run_trace_cons in H. destruct (step silent s e) as [s1 o1] eqn:S. destruct (run_trace silent s1 r) as [s2 t] eqn:R.
    inversion H; subst s' tr. rewrite accepted_cons. apply Forall_app. split; [eapply step_acc_ok; eauto|eapply IH; eauto].
Qed.

Theorem C02_wire_decodes_thm : forall evs s tr, Forall ev_ok evs ->
  run_trace CURRENT_SILENT init evs = (s, tr) -> clean (outs_of tr) ->
  espbuf s = [] -> odata (ob s) = [] -> outq s = [] ->
  decode_all (wire_of (outs_of tr)) = Some (accepted tr).
Proof.
  intros evs s tr He H Cn E1 E2 E3.
  pose proof (C02_stream_invariant_thm _ _ _ H Cn) as I. rewrite E1, E2, E3 in I. cbn [stream map concat app] in I.
  rewrite app_nil_r in I. rewrite I. apply roundtrip_stream. eapply run_acc_ok; eauto.
Qed.

(* ---------- request ids ---------- *)
Lemma step_rr silent s e s' o : step silent s e = (s', o) -> 0 <= next_rr s -> next_rr s + 1 < 4294967296 ->
  next_rr s <= next_rr s' <= next_rr s + 1 /\ Forall (fun p => p_rr p = next_rr s' /\ next_rr s < p_rr p) (acc_of e o).
Proof.
  intros H H0 H1. unfold step in H. destruct (halted s).
  - inversion H; subst. split; [lia|]. destruct e; constructor.
  - destruct e as [cid pl|rs].
    + pose proof (call_next_rr _ _ _ _ _ H) as N.
      assert (E : (if u32 (next_rr s + 1) =? 0 then u32 (u32 (next_rr s + 1) + 1) else u32 (next_rr s + 1)) = next_rr s + 1).
      { rewrite (u32_small (next_rr s + 1)) by lia. destruct (next_rr s + 1 =? 0) eqn:Z0; [apply Z.eqb_eq in Z0; lia|reflexivity]. }
      rewrite E in N.
      apply call_spec in H. destruct H as (rr & -> & _ & _ & _ & [(-> & _)|(Hn & Hr & Hnx & _ & _ & _ & _ & Hf)]).
      * rewrite acc_of_ret0. split; [lia|constructor].
      * rewrite E in Hf. rewrite (acc_of_ret _ _ _ Hn). split; [lia|]. constructor; [|constructor]. cbn [p_rr]. lia.
    + apply iterate_spec in H. destruct H as (_ & _ & ->). split; [lia|constructor].
Qed.

Lemma acc_of_length e o : (length (acc_of e o) <= 1)%nat.
Proof.
  destruct e as [cid pl|rs]; [|cbn; lia]. destruct o as [|[rr| | | | |] [|? ?]]; cbn; try lia. destruct (rr =? 0); cbn; lia.
Qed.
Lemma run_rr : forall evs silent s s' tr, run_trace silent s evs = (s', tr) -> 0 <= next_rr s -> next_rr s + len evs < 4294967296 ->
  next_rr s <= next_rr s' <= next_rr s + len evs /\
  Forall (fun p => next_rr s < p_rr p <= next_rr s') (accepted tr) /\
  StronglySorted Z.lt (map p_rr (accepted tr)).
Proof.
  induction evs as [|e r IH]; intros silent s s' tr H H0 H1.
  - inversion H; subst. change (len (@nil ev)) with 0. repeat split; try lia; constructor.
  - rewrite len_cons in H1. pose proof (len_nonneg r) as Lr.
    rewrite run_trace_cons in H. destruct (step silent s e) as [s1 o1] eqn:S. destruct (run_trace silent s1 r) as [s2 t] eqn:R.
    inversion H; subst s' tr; clear H.
    apply step_rr in S; [|lia|lia]. destruct S as (S1 & S2).
    apply IH in R; [|lia|lia]. destruct R as (R1 & R2 & R3).
    rewrite len_cons, accepted_cons. split; [lia|]. split.
    + apply Forall_app. split.
      * eapply Forall_impl; [|exact S2]. cbn beta. intros p (A & B). lia.
      * eapply Forall_impl; [|exact R2]. cbn beta. intros p A. lia.
    + pose proof (acc_of_length e o1) as AL. destruct (acc_of e o1) as [|p [|p' l]]; cbn [app map].
      * exact R3.
      * inversion S2 as [|? ? (A & B) _]; subst. constructor; [exact R3|].
        apply Forall_forall. intros x Hx. apply in_map_iff in Hx. destruct Hx as (q & <- & Hq).
        rewrite Forall_forall in R2. specialize (R2 _ Hq). lia.
      * exfalso. cbn [length] in AL. lia.
Qed.

Theorem C02_rr_ids_thm : forall silent evs s tr, run_trace silent init evs = (s, tr) -> len evs < 4294967296 ->
  StronglySorted Z.lt (map p_rr (accepted tr)) /\ Forall (fun p => 0 < p_rr p < 4294967296) (accepted tr).
Proof.
  intros silent evs s tr H L. apply run_rr in H; cbn [init next_rr]; [|lia|lia].
  destruct H as (H1 & H2 & H3). split; [exact H3|]. eapply Forall_impl; [|exact H2]. cbn beta. cbn [init next_rr] in *. intros p A. lia.
Qed.

(* without any bound on the number of calls and from any state: an id of an accepted call is never 0
   (Ret 0 is returned only for rejections, see C02_rejected_iff_thm; the counter skips 0 when it wraps) *)
Theorem C02_rr_nonzero_thm : forall silent s0 evs s tr, run_trace silent s0 evs = (s, tr) ->
  Forall (fun p => p_rr p <> 0) (accepted tr).
Proof.
  intros silent s0 evs. revert s0. induction evs as [|e r IH]; intros s0 s tr H.
  - inversion H; subst. constructor.
  - rewrite run_trace_cons in H. destruct (step silent s0 e) as [s1 o1] eqn:S. destruct (run_trace silent s1 r) as [s2 t] eqn:R.
    inversion H; subst s tr. rewrite accepted_cons. apply Forall_app. split; [|eapply IH; eauto].
    clear. destruct e as [cid pl|rs]; [|constructor]. destruct o1 as [|[rr| | | | |] [|? ?]]; try constructor.
    cbn [acc_of]. destruct (rr =? 0) eqn:E; constructor; [|constructor]. cbn [p_rr]. apply Z.eqb_neq in E. exact E.
Qed.

(* ---------- rejected at issue time, or queued ---------- *)
Theorem C02_rejected_iff_thm : forall s cid pl s' o, halted s = false -> step CURRENT_SILENT s (Call cid pl) = (s', o) ->
  exists rr, o = [Ret rr] /\
    (rr = 0 <-> (allowed cid = false \/ MAX_DATA_SIZE < len pl \/ SRPC_QUEUE <= len (outq s))) /\
    (rr <> 0 -> outq s' = outq s ++ [{| p_rr := rr; p_call := cid; p_ver := DEVICE_PROTO_VERSION; p_data := pl |}]).
Proof.
  intros s cid pl s' o Hh H. unfold step in H. rewrite Hh in H.
  apply call_spec in H. destruct H as (rr & -> & _ & _ & _ & [(-> & _ & D)|(Hn & _ & _ & A & L & Q & Hq & _)]).
  - exists 0. split; [reflexivity|]. split; [tauto|]. intros X; contradiction X; reflexivity.
  - exists rr. split; [reflexivity|]. split; [|intros _; exact Hq].
    split; [intros X; contradiction|]. intros [X|[X|X]]; [rewrite A in X; discriminate X|lia|lia].
Qed.

(* ---------- every accepted call reaches the wire (or the overflow is reported) ---------- *)
Lemma mu_nonneg s : 0 <= mu s.
Proof.
  unfold mu. pose proof (len_nonneg (espbuf s)). pose proof (len_nonneg (odata (ob s))). pose proof (len_nonneg (outq s)).
  pose proof CF as C. pose proof (cf_tag_pos C). pose proof (cf_sdp C). pose proof (cf_hdr C). pose proof (cf_max C). nia.
Qed.
Lemma mu_zero_pending s : mu s <= 0 -> pending s = [].
Proof.
  intros H. unfold mu in H. pose proof (len_nonneg (espbuf s)). pose proof (len_nonneg (odata (ob s))). pose proof (len_nonneg (outq s)).
  pose proof CF as C. pose proof (cf_tag_pos C). pose proof (cf_sdp C). pose proof (cf_hdr C). pose proof (cf_max C).
  assert (len (espbuf s) <= 0) by nia. assert (len (odata (ob s)) <= 0) by nia. assert (len (outq s) <= 0) by nia.
  unfold pending. rewrite (len_zero_nil (espbuf s)), (len_zero_nil (odata (ob s))), (len_zero_nil (outq s)) by assumption. reflexivity.
Qed.

(* an all-OK write empties the retry buffer and puts the chunk on the wire *)
Lemma retry_ok eb rs : exists o, retry eb (0 :: rs) = ([], (if 0 <? len eb then rs else 0 :: rs), o) /\ clean o.
Proof.
  unfold retry. destruct (0 <? len eb) eqn:E.
  - cbn [next]. rewrite (cf_ok CF). eexists. split; reflexivity.
  - apply ltb_len_false in E. subst eb. eexists. split; reflexivity.
Qed.
Lemma data_write_ok eb chunk rs : exists rs' o, data_write eb chunk (0 :: 0 :: rs) = ([], rs', o) /\ clean o /\
  (exists rs'', rs' = 0 :: rs'' \/ (0 < len eb /\ 0 < len chunk)).
Proof.
  unfold data_write. destruct (retry_ok eb (0 :: rs)) as (o1 & R & C1). rewrite R.
  unfold send_or_buffer. change (len (@nil Z)) with 0. cbn [Z.ltb Z.compare].
  destruct (0 <? len chunk) eqn:Ec.
  - destruct (0 <? len eb) eqn:Ee.
    + cbn [next]. rewrite (cf_ok CF). eexists _, _. split; [reflexivity|]. split.
      * apply clean_app. split; [exact C1|reflexivity].
      * exists []. right. split; apply Z.ltb_lt; assumption.
    + cbn [next]. rewrite (cf_ok CF). eexists _, _. split; [reflexivity|]. split.
      * apply clean_app. split; [exact C1|reflexivity].
      * exists rs. left. reflexivity.
  - eexists _, _. split; [reflexivity|]. split.
    + rewrite app_nil_r. exact C1.
    + destruct (0 <? len eb); [exists rs|exists (0 :: rs)]; left; reflexivity.
Qed.

Lemma iter_ok_step s s' o : wf s -> halted s = false -> step CURRENT_SILENT s iter_ok = (s', o) ->
  In Restart o \/ (clean o /\ wf s' /\ halted s' = false /\ mu s' <= Z.max 0 (mu s - 1)).
Proof.
  intros W Hh H. pose proof (step_wf _ _ _ _ W H) as W'. pose proof CF as C.
  unfold step in H. rewrite Hh in H. unfold iter_ok, CURRENT_SILENT in H.
  apply iterate_cases in H. destruct H as (eb1 & rs1 & o1 & q1 & ob1 & ar & F & Q & R).
  destruct (data_write_ok (espbuf s) [] [0]) as (rsx & ox & F' & Cx & _). rewrite F' in F. inversion F; subst eb1 rs1 o1; clear F.
  pose proof (qpart_wf _ _ _ _ W Q) as (_ & _ & _ & QQ).
  destruct R as [(_ & _ & ->)|(Hne & ob2 & chunk & eb2 & rs2 & o2 & P & D & -> & ->)].
  - left. apply in_or_app. right. right. left. reflexivity.
  - right. apply opop_spec in P; [|apply (cf_srpcbuf C)]. destruct P as (P1 & P2 & P3 & _).
    (* flush: the unused results still start with 0 *)
    assert (RS : exists t, rsx = 0 :: t).
    { unfold data_write in F'. destruct (retry_ok (espbuf s) [0; 0]) as (oo & R & _). rewrite R in F'.
      unfold send_or_buffer in F'. change (len (@nil Z)) with 0 in F'. cbn [Z.ltb Z.compare] in F'. inversion F'.
      destruct (0 <? len (espbuf s)); eexists; reflexivity. }
    destruct RS as (t & ->).
    assert (DW : eb2 = [] /\ clean o2).
    { destruct (0 <? len chunk) eqn:Ec.
      - unfold data_write in D. destruct (retry_ok [] t) as (oo & R & Co). rewrite R in D.
        change (len (@nil Z)) with 0 in D. cbn [Z.ltb Z.compare] in D.
        unfold send_or_buffer in D. change (len (@nil Z)) with 0 in D. cbn [Z.ltb Z.compare] in D. rewrite Ec in D.
        cbn [next] in D. rewrite (cf_ok C) in D. inversion D; subst. split; [reflexivity|]. apply clean_app. split; [exact Co|reflexivity].
      - inversion D; subst. split; reflexivity. }
    destruct DW as (-> & Co2).
    split; [apply clean_app; split; assumption|]. split; [exact W'|]. split; [reflexivity|].
    unfold mu. cbn [espbuf ob outq]. change (len (@nil Z)) with 0.
    pose proof (len_nonneg (espbuf s)). pose proof (len_nonneg chunk). pose proof (len_nonneg (odata ob2)). pose proof (len_nonneg q1).
    pose proof (cf_tag_pos C). pose proof (cf_sdp C). pose proof (cf_hdr C). pose proof (cf_max C).
    assert (L1 : len (odata ob1) = len chunk + len (odata ob2)) by (rewrite <- P1, len_app; reflexivity).
    destruct QQ as [(Hq & -> & -> & _)|(p & Hq & Hp & [(_ & Hd & _)|(X & _)])].
    + rewrite Hq. change (len (@nil pkt)) with 0.
      destruct (0 <? len (odata (ob s))) eqn:E; [apply Z.ltb_lt in E; specialize (P3 E); lia|apply Z.ltb_ge in E; lia].
    + rewrite Hq, len_cons. rewrite Hd, len_app, len_encode in L1. pose proof (len_nonneg (odata (ob s))). pose proof (len_nonneg (p_data p)).
      assert (0 < len chunk). { apply P3. rewrite Hd, len_app, len_encode. lia. }
      nia.
    + exfalso; apply Hne; exact X.
Qed.

Lemma drain : forall n s s' tr, wf s -> halted s = false -> mu s <= Z.of_nat n ->
  run_trace CURRENT_SILENT s (repeat iter_ok n) = (s', tr) ->
  In Restart (outs_of tr) \/ (clean (outs_of tr) /\ pending s' = []).
Proof.
  induction n as [|n IH]; intros s s' tr W Hh M H.
  - cbn [repeat run_trace] in H. inversion H; subst. right. split; [reflexivity|]. apply mu_zero_pending. lia.
  - cbn [repeat] in H. rewrite run_trace_cons in H.
    destruct (step CURRENT_SILENT s iter_ok) as [s1 o1] eqn:S. destruct (run_trace CURRENT_SILENT s1 (repeat iter_ok n)) as [s2 t] eqn:R.
    inversion H; subst s' tr; clear H. rewrite outs_of_cons.
    destruct (iter_ok_step _ _ _ W Hh S) as [I|(C1 & W1 & H1 & M1)].
    + left. apply in_or_app. left. exact I.
    + destruct (IH _ _ _ W1 H1 ltac:(lia) R) as [I|(C2 & P)].
      * left. apply in_or_app. right. exact I.
      * right. split; [apply clean_app; split; assumption|exact P].
Qed.

Lemma accepted_iter_ok : forall n silent s s' tr, run_trace silent s (repeat iter_ok n) = (s', tr) -> accepted tr = [].
Proof.
  induction n as [|n IH]; intros silent s s' tr H.
  - inversion H; subst. reflexivity.
  - cbn [repeat] in H. rewrite run_trace_cons in H.
    destruct (step silent s iter_ok) as [s1 o1]. destruct (run_trace silent s1 (repeat iter_ok n)) as [s2 t] eqn:R.
    inversion H; subst. rewrite accepted_cons. unfold iter_ok. rewrite acc_of_iter. cbn [app]. eapply IH; eauto.
Qed.

(* after any history that did not restart the device, mu(state) all-OK iterations put every accepted-but-unsent
   byte on the wire, in order, unless an out-buffer overflow is reported by a restart *)
Theorem C02_accepted_is_sent_thm : forall evs s tr s' tr',
  run_trace CURRENT_SILENT init evs = (s, tr) -> halted s = false ->
  run_trace CURRENT_SILENT s (repeat iter_ok (Z.to_nat (mu s))) = (s', tr') ->
  In Restart (outs_of tr') \/
  (wire_of (outs_of tr') = espbuf s ++ odata (ob s) ++ stream (outq s) /\ espbuf s' = [] /\ odata (ob s') = [] /\ outq s' = []).
Proof.
  intros evs s tr s' tr' H Hh H'.
  pose proof (run_wf _ _ _ _ wf_init H) as W.
  assert (M : mu s <= Z.of_nat (Z.to_nat (mu s))) by (rewrite Z2Nat.id; [lia|apply mu_nonneg]).
  destruct (drain _ _ _ _ W Hh M H') as [I|(Cn & P)]; [left; exact I|right].
  pose proof (run_conserve _ _ _ _ H' Cn) as E. rewrite P, (accepted_iter_ok _ _ _ _ _ H') in E.
  cbn [stream map concat] in E. rewrite !app_nil_r in E. split; [exact E|].
  unfold pending in P. apply app_eq_nil in P. destruct P as (P1 & P). apply app_eq_nil in P. destruct P as (P2 & P3).
  repeat split; auto.
  destruct (outq s') as [|p q]; [reflexivity|]. rewrite stream_cons in P3. apply app_eq_nil in P3. destruct P3 as (P3 & _).
  pose proof (len_encode p) as L. rewrite P3 in L. change (len (@nil Z)) with 0 in L.
  pose proof (len_nonneg (p_data p)). pose proof (cf_hdr CF). pose proof (cf_tag_pos CF). lia.
Qed.

(* ---------- the code before the fix: a whole frame disappears without any report ---------- *)
Definition witness_payload (b : Z) : list Z := repeat b (Z.to_nat MAX_DATA_SIZE).
Definition witness_evs : list ev :=
  [Call 100 (witness_payload 1); Call 100 (witness_payload 2)] ++ repeat iter_ok 16.
Definition witness_p1 : pkt := {| p_rr := 1; p_call := 100; p_ver := DEVICE_PROTO_VERSION; p_data := witness_payload 1 |}.
Definition witness_p2 : pkt := {| p_rr := 2; p_call := 100; p_ver := DEVICE_PROTO_VERSION; p_data := witness_payload 2 |}.

Theorem C02_old_code_refuted_thm :
  (let '(s, tr) := run_trace true init witness_evs in
     accepted tr = [witness_p1; witness_p2] /\ clean (outs_of tr) /\ ~ In OutBufOverflow (outs_of tr) /\
     espbuf s = [] /\ odata (ob s) = [] /\ outq s = [] /\
     wire_of (outs_of tr) = encode witness_p1) /\
  (let '(s, tr) := run_trace false init witness_evs in
     accepted tr = [witness_p1; witness_p2] /\ In Restart (outs_of tr) /\ In OutBufOverflow (outs_of tr)).
Proof.
  vm_compute. repeat split; try reflexivity.
  - intros H. repeat (destruct H as [H|H]; [discriminate H|]). exact H.
  - repeat (first [left; reflexivity | right]).
  - repeat (first [left; reflexivity | right]).
Qed.
