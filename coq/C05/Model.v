(* C05 — keep-alive, silent-server reconnect and watchdog restart.
   The executable model is the C04 automaton (C04/Model.v: timer1_cb, watchdog_cb, uptime, the 1 s timers, lateness);
   it is what the correspondence run compares with the implementation, timestamps included.
   This file isolates the two timer decisions as pure functions of the integer-second readings (the C04 model is
   proved equal to them in Proofs.v) and defines the abstract timed semantics over which the bounds are proved:
   a trace of events stamped with the device's uptime second
       Tick u slot   supla_esp_devconn_timer1_cb runs while registered; slot = a free out-queue slot for a ping
       Sent u        a frame was accepted by espconn_sent (last_sent := u): local traffic or a ping
       Resp u        a call from the server was received (last_response := u)
   Definitions only. *)
From Coq Require Import List ZArith Bool.
Import ListNotations.
From V Require Import Base.U32 Gen.C04Consts C04.Model.
From V Require Export C04.Keepalive.
Local Open Scope Z_scope.

Inductive wdact := WD_none | WD_restart | WD_soft.
(* supla_esp_devconn_watchdog_cb, not in configuration mode / update *)
Definition wd_decide (up lr tmo nextwd : Z) : wdact :=
  if lr <? up then
    if WATCHDOG_TIMEOUT_S <? u32 (up - lr) then WD_restart
    else if (WATCHDOG_SOFT_TIMEOUT_S <=? u32 (up - lr)) && (u32 tmo <? u32 (up - lr)) && (nextwd <? up) then WD_soft else WD_none
  else WD_none.

Fixpoint krun (tmo : Z) (s : kst) (l : list kev) : kst :=
  match l with [] => s | e :: r => krun tmo (kstep tmo s e) r end.

Fixpoint kenv_run (tmo : Z) (s : kst) (l : list kev) : bool :=
  match l with [] => true | e :: r => kenv_ok tmo s e && kenv_run tmo (kstep tmo s e) r end.

