(* C05 — the abstract keep-alive semantics simulates the automaton.
   The automaton carries the abstract state as ghost fields (kabs, kenv, ktmo) updated in lockstep by k_event / k_reset:
   Tick at every timer1 callback of a registered device, Sent at every accepted espconn_sent (last_sent := uptime),
   Resp at every received call (last_response := uptime); a new episode starts when the registration is accepted or a
   timeout is granted.  KSim: whenever the device is registered, the environment conditions kenv_ok held for every event
   of the episode and 10 <= T <= 50, the ghost state satisfies the keep-alive invariant KInv and agrees with the real
   last_sent / last_response.  Proved for every fuel-free reachable state. *)
From Coq Require Import List ZArith Lia Bool.
Import ListNotations.
From V Require Import Base.U32 Base.Bytes Base.Iface Gen.ProtoConsts Gen.C04Consts C04.Keepalive C04.Model C04.Proofs C04.Timing C05.Model C05.Proofs.
Local Open Scope Z_scope.

Record kview := mkkv { kv_tmo : Z; kv_to : Z; kv_reg : Z; kv_rpc : bool; kv_env : bool; kv_abs : kst; kv_ls : Z; kv_lr : Z }.
Definition has_rpc (s : st) : bool := match srpc s with Some _ => true | None => false end.
Definition kview_of (s : st) : kview := mkkv (ktmo s) (actto s) (registered s) (has_rpc s) (kenv s) (kabs s) (lastsent s) (lastresp s).

Definition KSimV (v : kview) : Prop :=
  kv_tmo v = kv_to v /\
  (kv_reg v = 1 -> kv_rpc v = true -> kv_env v = true -> 10 <= kv_to v <= 50 ->
   KInv (kv_to v) (kv_abs v) /\ k_ls (kv_abs v) = kv_ls v /\ k_lr (kv_abs v) = kv_lr v).
Definition KSim (s : st) : Prop := KSimV (kview_of s).
Lemma KSim_view s s' : kview_of s' = kview_of s -> KSim s -> KSim s'.
Proof. unfold KSim. intros ->. auto. Qed.

(* functions that do not touch the view *)
Lemma kv_emit k a s : kview_of (emit k a s) = kview_of s. Proof. reflexivity. Qed.
Lemma kv_set_tm i v s : kview_of (set_tm i v s) = kview_of s. Proof. destruct i; reflexivity. Qed.
Lemma kv_arm i ms r s : kview_of (arm i ms r s) = kview_of s. Proof. unfold arm. rewrite kv_set_tm. reflexivity. Qed.
Lemma kv_disarm i s : kview_of (disarm i s) = kview_of s. Proof. unfold disarm. apply kv_set_tm. Qed.
Lemma kv_srv_on_frame c s : kview_of (srv_on_frame c s) = kview_of s.
Proof. unfold srv_on_frame. destruct (_ && _); [|reflexivity]. match goal with |- context [if ?c then _ else _] => destruct c end; reflexivity. Qed.
Lemma kv_decode k : forall s, kview_of (decode k s) = kview_of s.
Proof.
  induction k as [|k IH]; intros s; cbn [decode]; [reflexivity|].
  repeat match goal with |- context [if ?c then _ else _] => destruct c end; try reflexivity.
  rewrite IH, kv_srv_on_frame. reflexivity.
Qed.
Lemma kv_wire_accept b s : kview_of (wire_accept b s) = kview_of s. Proof. unfold wire_accept. rewrite kv_decode. reflexivity. Qed.
Lemma kv_wire_close s : kview_of (wire_close s) = kview_of s. Proof. unfold wire_close. destruct (_ || _); reflexivity. Qed.
Lemma kv_sdk_sent s : kview_of (snd (sdk_sent s)) = kview_of s. Proof. unfold sdk_sent. destruct (script s); reflexivity. Qed.
Lemma kv_append_buffer b s : kview_of (append_buffer b s) = kview_of s.
Proof. unfold append_buffer. destruct (0 <? len b); [destruct (_ <? _)|]; reflexivity. Qed.
Lemma kv_gpio_disc s : kview_of (gpio_state_disconnected s) = kview_of s. Proof. unfold gpio_state_disconnected. destruct (_ =? _); reflexivity. Qed.
Lemma kv_gpio_ip s : kview_of (gpio_state_ipreceived s) = kview_of s. Proof. unfold gpio_state_ipreceived. destruct (_ =? _); reflexivity. Qed.
Lemma kv_gpio_conn s : kview_of (gpio_state_connected s) = kview_of s.
Proof. unfold gpio_state_connected. destruct (_ =? _); [reflexivity|]. rewrite kv_arm. reflexivity. Qed.
Lemma kv_sdk_disconnect s : kview_of (sdk_disconnect s) = kview_of s.
Proof.
  unfold sdk_disconnect. destruct (_ =? _).
  - change (kview_of (set_link L_CLOSING ?x)) with (kview_of x). rewrite kv_wire_close. reflexivity.
  - destruct (_ =? _); reflexivity.
Qed.
Lemma kv_sdk_connect s : kview_of (sdk_connect s) = kview_of s.
Proof.
  unfold sdk_connect. change (kview_of (set_link L_PENDING ?x)) with (kview_of x). destruct (_ =? _); [rewrite kv_wire_close|]; reflexivity.
Qed.
Lemma kv_resolvandconnect s : kview_of (resolvandconnect s) = kview_of s.
Proof.
  unfold resolvandconnect. destruct (resolving s); [reflexivity|].
  rewrite kv_sdk_connect, kv_sdk_disconnect. change (kview_of (set_resolving false ?x)) with (kview_of x). rewrite kv_sdk_disconnect. reflexivity.
Qed.
Lemma kv_wifi_check_status s : kview_of (wifi_check_status s) = kview_of s.
Proof.
  unfold wifi_check_status. destruct (_ =? _); [reflexivity|].
  set (s1 := set_wlast (wstatus s) s).
  assert (H2 : kview_of (if wstatus s =? STATION_GOT_IP_ then gpio_state_ipreceived s1 else gpio_state_disconnected s1) = kview_of s)
    by (destruct (_ =? _); [rewrite kv_gpio_ip|rewrite kv_gpio_disc]; reflexivity).
  generalize dependent (if wstatus s =? STATION_GOT_IP_ then gpio_state_ipreceived s1 else gpio_state_disconnected s1). intros s2 H2.
  destruct (_ && _); [rewrite kv_resolvandconnect|]; exact H2.
Qed.
Lemma kv_wifi_station_connect s : kview_of (wifi_station_connect s) = kview_of s.
Proof.
  unfold wifi_station_connect. rewrite kv_arm, kv_disarm.
  set (s2 := set_wstatus STATION_CONNECTING_ (emit O_WIFISTART [now (gpio_state_disconnected s)] (gpio_state_disconnected s))).
  assert (H2 : kview_of s2 = kview_of s) by (subst s2; change (kview_of (gpio_state_disconnected s) = kview_of s); apply kv_gpio_disc).
  generalize dependent s2. intros s2 H2. destruct (_ =? _); [rewrite kv_wifi_check_status|]; exact H2.
Qed.
Lemma kv_restart s : kview_of (restart s) = kview_of s. Proof. reflexivity. Qed.
Lemma kv_async_call c pay s : kview_of (async_call c pay s) = kview_of s.
Proof. unfold async_call. destruct (srpc s) eqn:E; [destruct (_ <? _)|]; unfold kview_of, has_rpc; cbn; rewrite ?E; reflexivity. Qed.
Lemma kv_stop_with_delay s : kview_of (stop_with_delay s) = kview_of s.
Proof. unfold stop_with_delay. rewrite kv_arm. unfold mark_refused. destruct (srpc s) eqn:E; unfold kview_of, has_rpc; cbn; rewrite ?E; reflexivity. Qed.
Lemma kv_local_call api s : kview_of (local_call api s) = kview_of s.
Proof.
  unfold local_call. destruct (api <? 0); [reflexivity|]. destruct (site_of_api api); [|reflexivity].
  destruct (if _ =? 0 then _ else _); [apply kv_async_call|reflexivity].
Qed.

(* ---------- the three abstract events and the episode reset ---------- *)
Lemma ksim_event (e : kev) (s s' : st) :
  kview_of s' = mkkv (ktmo s) (actto s) (registered s) (has_rpc s) (kenv s && kenv_ok (ktmo s) (kabs s) e) (kstep (ktmo s) (kabs s) e)
                     (match e with Sent u => u | _ => lastsent s end) (match e with Resp u => u | _ => lastresp s end) ->
  KSim s -> KSim s'.
Proof.
  intros V [E H]. unfold KSim. rewrite V. cbn in E, H. split; [exact E|]. cbn.
  intros R P Env HT. apply andb_true_iff in Env. destruct Env as [Env1 Env2].
  destruct (H R P Env1 HT) as [KI [L1 L2]]. rewrite E in *.
  split; [apply kstep_inv; auto|]. destruct e; cbn; auto.
  (* Tick keeps both readings *)
  unfold kstep. destruct (t1_decide _ _ _ _); [| destruct slot|]; cbn; auto.
Qed.
Lemma ksim_sent u s : KSim s -> KSim (k_event (Sent u) (set_lastsent u s)).
Proof. apply (ksim_event (Sent u)). reflexivity. Qed.
Lemma ksim_resp u n s : KSim s -> KSim (k_event (Resp u) (set_nresp n (set_lastresp u s))).
Proof. apply (ksim_event (Resp u)). reflexivity. Qed.
Lemma ksim_tick u slot s : KSim s -> KSim (k_event (Tick u slot) s).
Proof. apply (ksim_event (Tick u slot)). reflexivity. Qed.
Lemma ksim_reset s : lastresp s = uptime s -> KSim (k_reset s).
Proof.
  intros L. unfold KSim, KSimV, k_reset, kview_of. stsimp. cbn [kv_tmo kv_to kv_reg kv_rpc kv_env kv_abs kv_ls kv_lr].
  split; [reflexivity|].
  intros R P Env HT. apply andb_true_iff in Env. destruct Env as [Env E4]. apply andb_true_iff in Env. destruct Env as [Env E3].
  apply andb_true_iff in Env. destruct Env as [E1 E2].
  apply Z.leb_le in E1, E2, E4. apply Z.ltb_lt in E3.
  split; [apply kinit_inv; lia|]. split; [reflexivity|]. cbn [kinit k_lr]. auto.
Qed.
Lemma ksim_unregistered s s' : ktmo s' = ktmo s -> actto s' = actto s -> registered s' <> 1 \/ has_rpc s' = false -> KSim s -> KSim s'.
Proof.
  intros A B C [E _]. unfold KSim, KSimV, kview_of in *. cbn [kv_tmo kv_to kv_reg kv_rpc kv_env kv_abs kv_ls kv_lr] in *.
  split; [rewrite A, B; exact E|]. intros R P. destruct C as [C|C]; [contradiction|rewrite C in P; discriminate P].
Qed.

(* ---------- composite functions ---------- *)
Lemma ksim_data_write b s : KSim s -> KSim (data_write b s).
Proof.
  intros K. unfold data_write.
  assert (K1 : KSim (if 0 <? len (espbuf s) then
                       let '(r, s') := sdk_sent s in
                       if r =? 0 then k_event (Sent (uptime s')) (set_lastsent (uptime s') (wire_accept (espbuf s') (set_espbuf [] s'))) else s'
                     else s)).
  { destruct (0 <? len (espbuf s)); auto.
    pose proof (kv_sdk_sent s) as Hs. destruct (sdk_sent s) as [r s'] eqn:E. cbn [snd] in Hs.
    assert (K' : KSim s') by (eapply KSim_view; eauto).
    destruct (r =? 0); auto. apply ksim_sent. eapply KSim_view; [|exact K']. rewrite kv_wire_accept. reflexivity. }
  generalize dependent (if 0 <? len (espbuf s) then
                       let '(r, s') := sdk_sent s in
                       if r =? 0 then k_event (Sent (uptime s')) (set_lastsent (uptime s') (wire_accept (espbuf s') (set_espbuf [] s'))) else s'
                     else s). intros s1 K1.
  destruct (0 <? len (espbuf s1)); [eapply KSim_view; [apply kv_append_buffer|auto]|].
  destruct (0 <? len b); auto.
  pose proof (kv_sdk_sent s1) as Hs. destruct (sdk_sent s1) as [r s2] eqn:E. cbn [snd] in Hs.
  assert (K2 : KSim s2) by (eapply KSim_view; eauto).
  destruct (_ || _); [eapply KSim_view; [apply kv_append_buffer|auto]|].
  destruct (r =? 0); auto. apply ksim_sent. eapply KSim_view; [apply kv_wire_accept|auto].
Qed.
Lemma kv_set_rpc_some s p p' : srpc s = Some p -> kview_of (set_srpc (Some p') s) = kview_of s.
Proof. intros E. unfold kview_of, has_rpc. cbn. rewrite E. reflexivity. Qed.
Lemma ksim_srpc_out s : KSim s -> KSim (srpc_out s).
Proof.
  intros K. unfold srpc_out. destruct (srpc s) as [p|] eqn:E; auto.
  destruct (match oq p with f :: rest => (rest, obuf p ++ encode f) | [] => ([], obuf p) end) as [q ob].
  set (n := if OUT_CHUNK <? len ob then OUT_CHUNK else len ob).
  assert (K1 : KSim (set_srpc (Some (mkrpc (sid p) (rr_last p) q (drop n ob) (ibuf p) (hist p) (got_ok p) (refused_at p) (created_at p))) s))
    by (eapply KSim_view; [apply (kv_set_rpc_some s p); auto|auto]).
  destruct (0 <? n); auto. apply ksim_data_write; auto.
Qed.
Lemma uptime_same_view_setters s a b : uptime (set_registered a (set_actto b s)) = uptime s. Proof. reflexivity. Qed.
Lemma ksim_on_register_result code tmo s : KSim s -> lastresp s = uptime s -> KSim (on_register_result code tmo s).
Proof.
  intros K L. unfold on_register_result. destruct (code =? RESULTCODE_TRUE); [|eapply KSim_view; [apply kv_stop_with_delay|auto]].
  assert (K1 : KSim (k_reset (set_registered 1 (set_actto tmo s)))) by (apply ksim_reset; exact L).
  generalize dependent (k_reset (set_registered 1 (set_actto tmo s))). intros s1 K1.
  assert (K2 : KSim (match srpc s1 with
                     | Some p => set_srpc (Some (mkrpc (sid p) (rr_last p) (oq p) (obuf p) (ibuf p) (hist p) true (refused_at p) (created_at p))) s1
                     | None => s1 end))
    by (destruct (srpc s1) as [p|] eqn:E; auto; eapply KSim_view; [apply (kv_set_rpc_some s1 p); auto|auto]).
  generalize dependent (match srpc s1 with
                     | Some p => set_srpc (Some (mkrpc (sid p) (rr_last p) (oq p) (obuf p) (ibuf p) (hist p) true (refused_at p) (created_at p))) s1
                     | None => s1 end). intros s2 K2.
  match goal with |- KSim (arm T_value ?m ?r (disarm T_value ?x)) => assert (V : kview_of (arm T_value m r (disarm T_value x)) = kview_of x) by (rewrite kv_arm, kv_disarm; reflexivity); eapply KSim_view; [exact V|]; clear V end.
  destruct (tmo =? ACTIVITY_TIMEOUT_DEFAULT); [|eapply KSim_view; [apply kv_async_call|]]; (eapply KSim_view; [apply kv_gpio_conn|auto]).
Qed.
Lemma ksim_handler f s : KSim s -> KSim (handler f s).
Proof.
  intros K. rewrite handler_eq.
  assert (K0 : KSim (handler_pre s)) by (unfold handler_pre; apply ksim_resp; auto).
  assert (L0 : lastresp (handler_pre s) = uptime (handler_pre s)) by reflexivity.
  generalize dependent (handler_pre s). intros s0 K0 L0.
  unfold handler_body.
  destruct (_ && _); [apply ksim_on_register_result; auto|].
  destruct (_ && _); [eapply KSim_view; [apply kv_stop_with_delay|auto]|].
  destruct (_ && _); [apply ksim_reset; exact L0|].
  destruct (_ && _); [eapply KSim_view; [apply kv_async_call|auto]|auto].
Qed.
Lemma ksim_srpc_iterate s : KSim s -> KSim (srpc_iterate s).
Proof.
  intros K. unfold srpc_iterate. destruct (srpc s) as [p|] eqn:E; auto.
  set (n := if OUT_CHUNK <? len (recvbuf s) then OUT_CHUNK else len (recvbuf s)).
  assert (K1 : KSim (set_recvbuf (drop n (recvbuf s)) s)) by (eapply KSim_view; [|exact K]; reflexivity).
  assert (E1 : srpc (set_recvbuf (drop n (recvbuf s)) s) = Some p) by exact E.
  generalize dependent (set_recvbuf (drop n (recvbuf s)) s). intros s1 K1 E1.
  destruct (if 0 <? n then _ else _) as [b|]; [|eapply KSim_view; [apply kv_restart|auto]].
  destruct (C01.Model.pop _ b []) as [[b' f] r].
  assert (K2 : KSim (set_srpc (Some (with_ibuf b' p)) s1)) by (eapply KSim_view; [apply (kv_set_rpc_some s1 p); auto|auto]).
  destruct r; try (eapply KSim_view; [apply kv_restart|auto]).
  - apply ksim_srpc_out, ksim_handler; auto.
  - apply ksim_srpc_out; auto.
Qed.
Lemma ksim_devconn_iterate s : KSim s -> KSim (devconn_iterate s).
Proof.
  intros K. unfold devconn_iterate. destruct (srpc s) as [p|] eqn:E; auto.
  apply ksim_srpc_iterate, ksim_data_write.
  destruct (registered s =? 0); auto.
  eapply KSim_view; [apply kv_async_call|]. apply (ksim_unregistered s); auto. left. cbn. lia.
Qed.
Lemma ksim_recv_cb b s : KSim s -> KSim (recv_cb b s).
Proof.
  intros K. unfold recv_cb. destruct (len b =? 0); auto. destruct (_ <=? _); auto.
  apply ksim_devconn_iterate. eapply KSim_view; [|exact K]. reflexivity.
Qed.
Lemma ksim_srv_cb s : KSim s -> KSim (srv_cb s).
Proof.
  intros K. unfold srv_cb. destruct (srvq s) as [|d rest]; auto.
  assert (K2 : KSim (match rest with
                     | [] => set_srvq rest s
                     | d0 :: _ => set_t_srv (mktimer true (if d0 <? now (set_srvq rest s) then now (set_srvq rest s) else d0) (seqc (set_srvq rest s) + 1) 0)
                                    (set_seqc (seqc (set_srvq rest s) + 1) (set_srvq rest s)) end))
    by (destruct rest; (eapply KSim_view; [|exact K]; reflexivity)).
  generalize dependent (match rest with
                     | [] => set_srvq rest s
                     | d0 :: _ => set_t_srv (mktimer true (if d0 <? now (set_srvq rest s) then now (set_srvq rest s) else d0) (seqc (set_srvq rest s) + 1) 0)
                                    (set_seqc (seqc (set_srvq rest s) + 1) (set_srvq rest s)) end). intros s2 K2.
  destruct (link s2 =? L_LIVE); auto. apply ksim_recv_cb. eapply KSim_view; [apply kv_emit|auto].
Qed.
Lemma ksim_stop s : KSim s -> KSim (devconn_stop s).
Proof.
  intros K. unfold devconn_stop.
  assert (K1 : KSim (set_registered 0 s)) by (apply (ksim_unregistered s); auto; left; cbn; lia).
  assert (K2 : KSim (sdk_disconnect (disarm T_iter (disarm T_timer1 (set_started false (set_registered 0 s)))))).
  { assert (V : kview_of (sdk_disconnect (disarm T_iter (disarm T_timer1 (set_started false (set_registered 0 s))))) = kview_of (set_registered 0 s))
      by (rewrite kv_sdk_disconnect, kv_disarm, kv_disarm; reflexivity).
    eapply KSim_view; [exact V|exact K1]. }
  generalize dependent (sdk_disconnect (disarm T_iter (disarm T_timer1 (set_started false (set_registered 0 s))))). intros s3 K3.
  assert (K4 : KSim (set_srpc None s3)) by (apply (ksim_unregistered s3); auto).
  generalize dependent (set_srpc None s3). intros s4 K4.
  destruct (clrstop s4); auto.
Qed.
Lemma kv_devconn_start s : kview_of (devconn_start s) = kview_of s.
Proof.
  unfold devconn_start. rewrite kv_arm, !kv_disarm, kv_wifi_station_connect.
  change (kview_of (set_started true ?x)) with (kview_of x). apply kv_gpio_ip.
Qed.
Lemma ksim_reconnect s : KSim s -> KSim (devconn_reconnect s).
Proof.
  intros K. unfold devconn_reconnect. eapply KSim_view; [apply kv_devconn_start|]. apply ksim_stop.
  eapply KSim_view; [|exact K]. reflexivity.
Qed.
Lemma ksim_timer1 s : KSim s -> KSim (timer1_cb s).
Proof.
  intros K. unfold timer1_cb. destruct (is_registered s); auto.
  set (slot := match srpc s with Some p => len (oq p) <? QUEUE_SIZE | None => false end).
  assert (K1 : KSim (if 0 <? actto s then k_event (Tick (uptime s) slot) s else s)) by (destruct (0 <? actto s); [apply ksim_tick|]; auto).
  generalize dependent (if 0 <? actto s then k_event (Tick (uptime s) slot) s else s). intros s1 K1.
  destruct (t1_decide _ _ _ _); auto; [eapply KSim_view; [apply kv_async_call|auto]|apply ksim_reconnect; auto].
Qed.
Lemma ksim_watchdog s : KSim s -> KSim (watchdog_cb s).
Proof.
  intros K. unfold watchdog_cb. destruct (_ <? _); auto. destruct (_ <? _); [eapply KSim_view; [apply kv_restart|auto]|].
  destruct (_ && _); auto. apply ksim_reconnect; auto.
Qed.
Lemma ksim_callback i s : KSim s -> KSim (callback i s).
Proof.
  intros K. destruct i; cbn [callback]; auto.
  - eapply KSim_view; [apply kv_wifi_check_status|auto].
  - apply ksim_timer1; auto.
  - apply ksim_devconn_iterate; auto.
  - apply ksim_watchdog; auto.
  - apply ksim_reconnect; auto.
  - apply ksim_stop; auto.
  - apply ksim_srv_cb; auto.
Qed.
Lemma kv_prefire i s : kview_of (prefire i s) = kview_of s.
Proof.
  unfold prefire, lateness. destruct (lat s); cbn [fst snd];
    repeat match goal with |- context [if ?c then _ else _] => destruct c end; destruct i; reflexivity.
Qed.
Lemma ksim_fire i s : KSim s -> KSim (fire i s).
Proof. intros K. rewrite fire_eq. apply ksim_callback. eapply KSim_view; [apply kv_prefire|auto]. Qed.
Lemma ksim_Advance fin s s' : Advance fin s s' -> KSim s -> KSim s'.
Proof.
  induction 1; intros K; auto.
  - destruct (now s <? fin); auto.
  - apply IHAdvance, ksim_fire; auto.
Qed.

(* ---------- events, runs, boot ---------- *)
Lemma kv_conncb s : kview_of (dev_step s ConnCb) = mkkv (ktmo s) (actto s) (registered s) true (kenv s) (kabs s) (lastsent s) (lastresp s).
Proof.
  cbn [dev_step]. rewrite kv_emit. unfold connect_cb.
  assert (V1 : kview_of (set_stalled false (set_wbuf [] (set_conn (conn s + 1) (set_link L_LIVE s)))) = kview_of s) by reflexivity.
  generalize dependent (set_stalled false (set_wbuf [] (set_conn (conn s + 1) (set_link L_LIVE s)))). intros s1 V1.
  assert (V2 : kview_of (set_srpc (Some (mkrpc (conn s1) 0 [] [] empty_inb [] false None (now s1))) s1) =
               mkkv (ktmo s) (actto s) (registered s) true (kenv s) (kabs s) (lastsent s) (lastresp s)).
  { unfold kview_of in *. cbn [ktmo actto registered kenv kabs lastsent lastresp set_srpc has_rpc srpc]. inversion V1. reflexivity. }
  generalize dependent (set_srpc (Some (mkrpc (conn s1) 0 [] [] empty_inb [] false None (now s1))) s1). intros s2 V2.
  assert (V3 : kview_of (arm T_iter ITERATE_MS true s2) = mkkv (ktmo s) (actto s) (registered s) true (kenv s) (kabs s) (lastsent s) (lastresp s))
    by (rewrite kv_arm; exact V2).
  generalize dependent (arm T_iter ITERATE_MS true s2). intros s3 V3.
  destruct (clrconn s3); exact V3.
Qed.
Lemma kv_disccb s : kview_of (dev_step s DiscCb) = kview_of s.
Proof.
  cbn [dev_step]. unfold disconnect_cb.
  assert (V1 : kview_of (if link s =? L_LIVE then wire_close s else s) = kview_of s) by (destruct (_ =? _); [apply kv_wire_close|reflexivity]).
  generalize dependent (if link s =? L_LIVE then wire_close s else s). intros s1 V1.
  assert (V2 : kview_of (set_recvbuf [] (set_espbuf [] (gpio_state_ipreceived (set_link L_IDLE (emit O_DISCD [now s1; conn s1; evi s1] s1))))) = kview_of s).
  { change (kview_of (set_recvbuf [] (set_espbuf [] ?x))) with (kview_of x). rewrite kv_gpio_ip. exact V1. }
  generalize dependent (set_recvbuf [] (set_espbuf [] (gpio_state_ipreceived (set_link L_IDLE (emit O_DISCD [now s1; conn s1; evi s1] s1))))). intros s2 V2.
  destruct (started s2); [rewrite kv_arm, kv_disarm|]; exact V2.
Qed.

Section SimRun.
Variables cs cc : bool.
Lemma ksim_rstep s e s' : rstep s e s' -> Inv cs cc s -> KSim s -> KSim s'.
Proof.
  intros H HI K. unfold rstep in H.
  assert (K1 : KSim (set_evi (evi s + 1) s)) by (eapply KSim_view; [|exact K]; reflexivity).
  assert (HI1 : Inv cs cc (set_evi (evi s + 1) s)) by (eapply Inv_core; [|eauto]; reflexivity).
  generalize dependent (set_evi (evi s + 1) s). intros s1 H K1 HI1.
  destruct (halted s1); [subst; auto|]. destruct (env_allows s1 e) eqn:E; [|subst; auto].
  destruct e; cbn [dev_rstep] in H; try subst s'.
  - destruct (dt <? 0); [subst; auto|]. eapply ksim_Advance; eauto.
  - eapply KSim_view; [|exact K1]. reflexivity.
  - cbn [env_allows] in E. apply Z.eqb_eq in E.
    pose proof (i_pending _ _ _ HI1 E) as Hn. cbn in Hn. pose proof (i_none_reg _ _ _ HI1 Hn) as Hr. cbn in Hr.
    destruct K1 as [T _]. unfold KSim. rewrite kv_conncb. split; [exact T|]. cbn. intros R. rewrite Hr in R. discriminate R.
  - eapply KSim_view; [apply kv_disccb|auto].
  - cbn [dev_step]. apply ksim_recv_cb. eapply KSim_view; [apply kv_emit|auto].
  - eapply KSim_view; [|exact K1]. reflexivity.
  - eapply KSim_view; [|exact K1]. reflexivity.
  - cbn [dev_step]. eapply KSim_view; [apply kv_local_call|auto].
  - eapply KSim_view; [|exact K1]. reflexivity.
  - auto.
Qed.
Lemma ksim_boot b cyc d pay lt : KSim (boot_device b cyc d pay lt cs cc).
Proof.
  unfold boot_device. eapply KSim_view; [apply kv_devconn_start|]. eapply KSim_view; [apply kv_arm|].
  unfold KSim, KSimV, kview_of. cbn. split; [reflexivity|]. intros R; discriminate R.
Qed.
Lemma ksim_RRun s evs s' : sites_ok CallSites = true -> RRun s evs s' -> Inv cs cc s -> KSim s -> KSim s'.
Proof.
  intros HS H. induction H; auto. intros HI K. apply IHRRun; [eapply rstep_inv; eauto|eapply ksim_rstep; eauto].
Qed.
Theorem ksim_reachable J s : sites_ok CallSites = true -> rreachable cs cc J s -> KSim s.
Proof.
  intros HS [b [cyc [d [pay [lt [evs [_ H]]]]]]]. eapply ksim_RRun; eauto; [apply boot_inv|apply ksim_boot].
Qed.

(* C05_keepalive on the automaton that is compared with the implementation: in every reachable registered state whose
   current episode (since the registration was accepted / the timeout granted) satisfied the environment conditions,
   10 <= T <= 50: the abstract invariant holds for the real last_sent / last_response, the device has not decided to
   reconnect in this episode, and neither the next timer1 tick nor a watchdog tick before it reconnects / restarts. *)
Theorem keepalive_automaton_thm J s : sites_ok CallSites = true -> rreachable cs cc J s ->
  is_registered s = true -> kenv s = true -> 10 <= actto s <= 50 ->
  let T := actto s in let k := kabs s in
  KInv T k /\ k_ls k = lastsent s /\ k_lr k = lastresp s /\ k_bad k = false /\
  k_cur k - lastsent s <= T /\ k_cur k - lastresp s <= T + 2 /\
  (forall slot, kenv_ok T k (Tick (uptime s) slot) = true -> t1_decide (uptime s) (lastsent s) (lastresp s) T <> T1_reconnect) /\
  (forall up nw, lastresp s <= up -> up <= k_lt k + 2 -> up < 4294967296 -> wd_decide up (lastresp s) T nw = WD_none).
Proof.
  intros HS HR Reg Env HT. cbn zeta. destruct (ksim_reachable J s HS HR) as [Tm H].
  apply is_registered_iff in Reg. destruct Reg as [R1 N1].
  assert (P : has_rpc s = true) by (unfold has_rpc; destruct (srpc s); auto; contradiction).
  destruct (H R1 P Env HT) as [KI [L1 L2]]. cbn in KI, L1, L2.
  destruct (KInv_bounds _ _ HT KI) as [B0 [B1 [B2 B3]]].
  split; auto. split; auto. split; auto. split; auto. rewrite <- L1, <- L2. split; auto. split; auto. split.
  - intros slot E D. pose proof (kstep_inv _ _ _ HT KI E) as KI'. pose proof (ki_bad _ _ KI') as Bad.
    cbn [kstep] in Bad. rewrite D in Bad. cbn in Bad. discriminate Bad.
  - exact B3.
Qed.
End SimRun.

(* ---------- the hypotheses of the end-to-end theorems are satisfiable (the run of C05_bounds_tight) ---------- *)
Definition e2e_s0 : st :=
  run_from (boot_device 999999 0 ESP_ARG (zeros (REG_BASE_SIZE + REG_CHANNEL_SIZE)) [] true false)
           [Adv 300000; Wifi STATION_GOT_IP_; Adv 300000; ConnCb; Adv 400001; Recv (regok_frame 10)].
Definition e2e_s1 : st := run_from e2e_s0 [Adv 25000000].
Lemma e2e_example :
  rreachable true false 0 e2e_s0 /\ RRun e2e_s0 [Adv 25000000] e2e_s1 /\ nresp e2e_s1 = nresp e2e_s0 /\
  cycles0 e2e_s0 = 0 /\ 0 <= boot e2e_s0 /\ boot e2e_s0 + now e2e_s1 < 4294967296 /\ lastresp e2e_s0 = Upt e2e_s0 1000001 /\
  is_registered e2e_s0 = true /\ armed (t_stop e2e_s0) = false /\ actto e2e_s0 = 10 /\ halted e2e_s0 = false /\
  1000001 + (actto e2e_s0 + PING_RECONNECT_PLUS) * 1000000 + T1_US + 0 <= now e2e_s1.
Proof.
  split; [unfold e2e_s0; apply run_rreachable; [constructor|vm_compute; reflexivity]|].
  split; [unfold e2e_s1; apply run_refines; vm_compute; reflexivity|].
  vm_compute. repeat split; congruence.
Qed.
